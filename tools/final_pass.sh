#!/bin/bash
# Clean-tree pass: every registered check once (quick, seed 1) against /repo; regenerates evidence.
cd "$(dirname "$0")/.."
: > /tmp/final_pass.txt
for id in $(jq -r '.checks[].property_id' MANIFEST.json); do
  s=$(date +%s)
  VERIF_SEED=${VERIF_SEED_OVERRIDE:-1} ./check $id --tier quick > /tmp/final-$id.log 2>&1; rc=$?
  e=$(date +%s)
  echo "$id rc=$rc $((e-s))s viol=$(grep -c '^VIOLATION' /tmp/final-$id.log) known=$(grep -c '^KNOWN-FINDING' /tmp/final-$id.log)" | tee -a /tmp/final_pass.txt
done
