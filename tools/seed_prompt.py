#!/usr/bin/env python3
"""tools/seed_prompt.py Cxx N  -> prints the seeding brief for property Cxx (text only from properties.jsonl)."""
import json, sys, os
root = os.path.join(os.path.dirname(os.path.abspath(__file__)), "..")
pid, n = sys.argv[1], sys.argv[2] if len(sys.argv) > 2 else "2"
tmpl = open(os.path.join(root, "tools", "seed_prompt.md")).read().split("---\n", 1)[1]
for l in open(os.path.join(root, "properties.jsonl")):
    p = json.loads(l)
    if p["id"] == pid:
        print(tmpl.replace("{WT}", "/tmp/seedwt-" + pid).replace("{OUT}", "/tmp/seeds").replace("{ID}", pid)
              .replace("{TITLE}", p["title"]).replace("{STATEMENT}", p["statement"])
              .replace("{QUANTIFIER}", p["quantifier"]["text"]).replace("{FILES}", ", ".join(p["anchors"]["files"]))
              .replace("{N}", n))
