#!/usr/bin/env python3
"""tools/seed_prompt.py Cxx N  -> prints the seeding brief for property Cxx (text only from properties.jsonl)."""
import json, sys, os
root = os.path.join(os.path.dirname(os.path.abspath(__file__)), "..")
pid, n = sys.argv[1], sys.argv[2] if len(sys.argv) > 2 else "2"
start = int(sys.argv[3]) if len(sys.argv) > 3 else 1          # first index (round 2 uses 3)
import glob
tried = []
if start > 1:
    for d in sorted(glob.glob(os.path.join(root, "seeded", pid + "-*"))):
        try:
            tried.append("- " + json.load(open(os.path.join(d, "meta.json")))["summary"][:400].replace("\n", " "))
        except Exception:
            pass
tmpl = open(os.path.join(root, "tools", "seed_prompt.md")).read().split("---\n", 1)[1]
for l in open(os.path.join(root, "properties.jsonl")):
    p = json.loads(l)
    if p["id"] == pid:
        print(tmpl.replace("{WT}", "/tmp/seedwt-" + pid).replace("{OUT}", "/tmp/seeds").replace("{ID}", pid)
              .replace("{TITLE}", p["title"]).replace("{STATEMENT}", p["statement"])
              .replace("{QUANTIFIER}", p["quantifier"]["text"]).replace("{FILES}", ", ".join(p["anchors"]["files"]))
              .replace("i = 1..{N}", "i = %d..%d" % (start, start + int(n) - 1))
              .replace("{N}", n)
              + ("\nOther testers already produced the following changes for this property; yours must be DIFFERENT in kind (another function, another mechanism, another trigger), not variations of these:\n" + "\n".join(tried) + "\n" if tried else ""))
