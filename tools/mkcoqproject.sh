#!/bin/bash
# Regenerates coq/_CoqProject (+ Makefile) from the .v files present; cwd = /verif/coq.
set -e
cd "$(dirname "$0")/../coq"
{ echo "-R . Verif"; ls Lib/*.v Gen/*.v Model/*.v Proofs/*.v Props/*.v Examples/*.v 2>/dev/null | sort; } > _CoqProject.new
if ! cmp -s _CoqProject.new _CoqProject 2>/dev/null || [ ! -f Makefile ]; then
  mv _CoqProject.new _CoqProject
  coq_makefile -f _CoqProject -o Makefile >/dev/null
else
  rm -f _CoqProject.new
fi
