#!/bin/bash
# tools/verify_seed.sh <seed dir> <property id> : confirm a seeded change independently in a scratch worktree
#  (demo passes on HEAD, builds with the change, demo fails with the change), then run our check against it.
# Prints a summary line and leaves logs in <seed dir>/verify.log.
sd=$(readlink -f "$1"); pid=$2
export GOFLAGS=-mod=mod GOPROXY=off
wt=/tmp/seedver-$(basename $sd)
log=$sd/verify.log; : > $log
git -C /repo worktree remove --force $wt >/dev/null 2>&1
git -C /repo worktree add -q $wt HEAD || exit 2
demo=$(jq -r .demo_cmd $sd/meta.json)
cd $wt
echo "### demo on clean HEAD" >> $log
( eval "$demo" ) >> $log 2>&1; clean_rc=$?
echo "### apply patch" >> $log
git apply $sd/patch.diff >> $log 2>&1; apply_rc=$?
echo "### go build ./..." >> $log
go build ./... >> $log 2>&1; build_rc=$?
echo "### demo with patch" >> $log
( eval "$demo" ) >> $log 2>&1; mut_rc=$?
# remove demo files (untracked) before running our check, keep the patch
git -C $wt clean -fdq
echo "### our check" >> $log
cd /verif
VERIF_REPO=$wt ./check $pid --tier quick > $sd/check.log 2>&1; check_rc=$?
grep -E '^(VIOLATION|KNOWN-FINDING)' $sd/check.log | head -5 >> $log
git -C /repo worktree remove --force $wt
# restore Gen files / evidence for the clean tree is the caller's job (re-run ./check on /repo)
echo "$(basename $sd) property=$pid demo_clean_rc=$clean_rc apply_rc=$apply_rc build_rc=$build_rc demo_mutated_rc=$mut_rc check_rc=$check_rc violations=$(grep -c '^VIOLATION' $sd/check.log)"
