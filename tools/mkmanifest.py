#!/usr/bin/env python3
"""Assembles MANIFEST.json from manifest.d/*.json (one fragment per property) + manifest.d/_base.json."""
import json, glob, os
root = os.path.join(os.path.dirname(os.path.abspath(__file__)), "..")
base = json.load(open(os.path.join(root, "manifest.d", "_base.json")))
checks, na = [], []
props = [json.loads(l)["id"] for l in open(os.path.join(root, "properties.jsonl"))]
for pid in props:
    p = os.path.join(root, "manifest.d", pid + ".json")
    if not os.path.exists(p):
        na.append({"property_id": pid, "reason": "check under construction in this session; not yet claimed"})
        continue
    frag = json.load(open(p))
    if "not_applicable" in frag:
        na.append({"property_id": pid, "reason": frag["not_applicable"]})
        continue
    frag.setdefault("property_id", pid)
    frag.setdefault("quick_cmd", "./check %s --tier quick" % pid)
    frag.setdefault("thorough_cmd", "./check %s --tier thorough" % pid)
    frag.setdefault("evidence_file", "/verif/evidence/%s.json" % pid)
    frag.setdefault("replay_cmd_template", "./check %s --replay {path}" % pid)
    frag.setdefault("engine", "coq-model+correspondence")
    checks.append(frag)
base["checks"] = checks
base["not_applicable"] = na
json.dump(base, open(os.path.join(root, "MANIFEST.json"), "w"), indent=1)
print("MANIFEST.json: %d checks, %d not_applicable" % (len(checks), len(na)))
