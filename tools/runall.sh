#!/bin/bash
# tools/runall.sh [tier] [seed] : run every registered check once, print a summary table.
cd "$(dirname "$0")/.."
tier=${1:-quick}; seed=${2:-1}
for id in $(jq -r '.checks[].property_id' MANIFEST.json); do
  s=$(date +%s)
  VERIF_SEED=$seed ./check $id --tier $tier > /tmp/runall-$id.log 2>&1; rc=$?
  e=$(date +%s)
  echo "$id rc=$rc $((e-s))s $(grep -c '^VIOLATION' /tmp/runall-$id.log) violations $(grep -c '^KNOWN-FINDING' /tmp/runall-$id.log) known"
done
