#!/usr/bin/env python3
"""tools/import_seed.py <seed dir> <verify summary line> [note]: copy a confirmed seeded change into /verif/seeded/<id>/."""
import sys, os, json, shutil, re
sd, line = sys.argv[1].rstrip("/"), sys.argv[2]
note = sys.argv[3] if len(sys.argv) > 3 else ""
name = os.path.basename(sd)
dst = os.path.join("/verif/seeded", name)
shutil.rmtree(dst, ignore_errors=True)
shutil.copytree(sd, dst, ignore=shutil.ignore_patterns("check.log", "verify.log"))
meta = json.load(open(os.path.join(dst, "meta.json")))
kv = dict(re.findall(r"(\w+)=(\S+)", line))
meta["breaks_property"] = meta.get("property")
meta["confirmed_by_integrator"] = {
    "what_i_ran": "tools/verify_seed.sh: fresh scratch worktree of /repo HEAD; demo_cmd on clean HEAD; git apply patch.diff; go build ./...; demo_cmd again; VERIF_REPO=<worktree> ./check %s --tier quick" % kv.get("property"),
    "demo_rc_on_clean_head": int(kv.get("demo_clean_rc", -1)),
    "patch_applies_rc": int(kv.get("apply_rc", -1)),
    "go_build_rc": int(kv.get("build_rc", -1)),
    "demo_rc_with_change": int(kv.get("demo_mutated_rc", -1)),
    "our_check_rc": int(kv.get("check_rc", -1)),
    "our_check_violation_lines": int(kv.get("violations", 0)),
    "detected": kv.get("check_rc") == "1",
    "note": note,
}
chk = os.path.join(sd, "check.log")
if os.path.exists(chk):
    lines = [l.rstrip() for l in open(chk) if l.startswith(("VIOLATION", "KNOWN-FINDING", "C"))][:6]
    meta["confirmed_by_integrator"]["check_output_head"] = lines
json.dump(meta, open(os.path.join(dst, "meta.json"), "w"), indent=1)
print("imported", dst, "detected" if meta["confirmed_by_integrator"]["detected"] else "MISSED")
