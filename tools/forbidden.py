#!/usr/bin/env python3
"""Fails if the Coq development declares an axiom, leaves a proof open or switches off a kernel check.
Variable/Hypothesis/Context are accepted only inside a Section (nesting tracked per file)."""
import re, sys, os, glob
root = os.path.join(os.path.dirname(os.path.abspath(__file__)), "..", "coq")
bad = []
ALWAYS = re.compile(r"^\s*(Local\s+|Global\s+|Polymorphic\s+|#\[[^\]]*\]\s*)*(Axiom|Axioms|Parameter|Parameters|Conjecture|Conjectures|Admitted|Admit\s+Obligations)\b|\badmit\b|\bgive_up\b|Unset\s+Guard\s+Checking|Unset\s+Positivity\s+Checking|Unset\s+Universe\s+Checking|bypass_check|type-in-type|impredicative-set|Unset\s+Kernel|Declare\s+ML")
SECT = re.compile(r"^\s*(Local\s+|Global\s+|#\[[^\]]*\]\s*)*(Variable|Variables|Hypothesis|Hypotheses|Context)\b")
for d in ["Lib", "Gen", "Model", "Proofs", "Props", "Examples"]:
    for f in sorted(glob.glob(os.path.join(root, d, "*.v"))):
        stack = []
        txt = open(f).read()
        # strip comments (nested)
        out = []; depth = 0; i = 0
        while i < len(txt):
            if txt.startswith("(*", i): depth += 1; i += 2; continue
            if txt.startswith("*)", i) and depth > 0: depth -= 1; i += 2; continue
            if depth == 0: out.append(txt[i])
            elif txt[i] == "\n": out.append("\n")
            i += 1
        for ln, line in enumerate("".join(out).split("\n"), 1):
            m = re.match(r"^\s*(Section|Module\s+Type|Module)\s+([A-Za-z0-9_']+)", line)
            if m and ":=" not in line:
                stack.append(("S" if m.group(1) == "Section" else "M", m.group(2)))
            m = re.match(r"^\s*End\s+([A-Za-z0-9_']+)\s*\.", line)
            if m and stack:
                stack.pop()
            if ALWAYS.search(line):
                bad.append("%s:%d: %s" % (f, ln, line.strip()))
            if SECT.search(line) and not any(k == "S" for k, _ in stack):
                bad.append("%s:%d: outside Section: %s" % (f, ln, line.strip()))
if bad:
    print("\n".join(bad)); print("forbidden vernacular found"); sys.exit(1)
