#!/bin/bash
exec python3 "$(dirname "$0")/forbidden.py"
