package main

// CLI tie: the real staticcheck binary (flag parsing -> lintcmd -> runner -> loader -> checks) on modules
// whose files use stdlib API deprecated at different versions (SA1019: reported iff the file's stdlib
// version >= DeprecatedSince, thresholds taken from knowledge.StdlibDeprecations at harness build time)
// and time.Tick (SA1015: reported iff stdlib version < go1.23).

import (
	"bufio"
	"bytes"
	"encoding/json"
	"fmt"
	"os"
	"os/exec"
	"path/filepath"
	"sort"
	"strconv"
	"strings"

	"honnef.co/go/tools/knowledge"
	"verifharness/hx"
)

type api struct {
	Name  string // key in knowledge.StdlibDeprecations
	Use   string // expression statement using it
	Since int    // minor version
}

var apis = []api{
	{Name: "crypto/x509.ParseCRL", Use: `_, _ = x509.ParseCRL(nil)`},
	{Name: "strings.Title", Use: `_ = strings.Title("x")`},
	{Name: "math/rand.Seed", Use: `rand.Seed(1)`},
	// a "never use" deprecation (AlternativeAvailableSince == DeprecatedNeverUse): still gated by DeprecatedSince
	{Name: "math/rand.Read", Use: `_, _ = rand.Read(make([]byte, 4))`},
	{Name: "reflect.SliceHeader", Use: `_ = reflect.SliceHeader{}`},
	{Name: "reflect.PtrTo", Use: `_ = reflect.PtrTo(reflect.TypeOf(0))`},
	{Name: "runtime.GOROOT", Use: `_ = runtime.GOROOT()`},
	// a deprecated PACKAGE: SA1019 judges the import in a second pass; it must use the importing file's version
	{Name: "io/ioutil", Use: ``},
}

type cliCell struct {
	Module int
	Flag   int
	Tag    int
	// per API (same order as APIs): reported?
	SA1019 []bool
	SA1015 bool
	Other  []string // anything else printed for the file (must be empty)
}

type cliOut struct {
	APIs  []api
	Cells []cliCell
}

func runCLI(bin, work string, rnd *hx.Rand, nmods, nflags int, out string) {
	for i := range apis {
		d, ok := knowledge.StdlibDeprecations[apis[i].Name]
		if !ok {
			fmt.Fprintf(os.Stderr, "knowledge.StdlibDeprecations has no entry %s\n", apis[i].Name)
			os.Exit(2)
		}
		n, err := strconv.Atoi(strings.TrimPrefix(d.DeprecatedSince, "go1."))
		if err != nil {
			fmt.Fprintf(os.Stderr, "unparsable DeprecatedSince %q\n", d.DeprecatedSince)
			os.Exit(2)
		}
		apis[i].Since = n
	}
	lo, hi := 16, 26
	var versions []int
	for v := lo; v <= hi; v++ {
		versions = append(versions, v)
	}
	pick := func(all []int, n int) []int {
		if n <= 0 || n >= len(all) {
			return append([]int(nil), all...)
		}
		p := append([]int(nil), all...)
		for i := range p {
			j := i + rnd.Intn(len(p)-i)
			p[i], p[j] = p[j], p[i]
		}
		p = p[:n]
		sort.Ints(p)
		return p
	}
	var o cliOut
	o.APIs = apis
	mods := pick(versions, nmods)
	low := 16 + rnd.Intn(3)
	hasLow := false
	for _, m := range mods {
		if m < 19 {
			hasLow = true
		}
	}
	if !hasLow {
		mods = append([]int{low}, mods...)
	}
	for _, m := range mods {
		dir := filepath.Join(work, fmt.Sprintf("cli-m%d", m))
		hx.WriteFile(filepath.Join(dir, "go.mod"), fmt.Sprintf("module example.com/c%d\n\ngo 1.%d\n", m, m))
		tagset := map[int]bool{0: true, m: true, 20: true, 22: true, 23: true}
		if m > lo {
			tagset[lo+rnd.Intn(m-lo)] = true
		}
		if m < hi {
			tagset[m+1+rnd.Intn(hi-m)] = true
		}
		var tags []int
		for t := range tagset {
			tags = append(tags, t)
		}
		sort.Ints(tags)
		for _, t := range tags {
			var b strings.Builder
			if t != 0 {
				fmt.Fprintf(&b, "//go:build go1.%d\n\n", t)
			}
			b.WriteString("package p\n\nimport (\n\t\"crypto/x509\"\n\t_ \"io/ioutil\"\n\t\"math/rand\"\n\t\"reflect\"\n\t\"runtime\"\n\t\"strings\"\n\t\"time\"\n)\n\n")
			fmt.Fprintf(&b, "func F%d() {\n", t)
			for _, a := range apis {
				if a.Use != "" {
					b.WriteString("\t" + a.Use + "\n")
				}
			}
			b.WriteString("\t_ = time.Tick(time.Second)\n}\n")
			hx.WriteFile(filepath.Join(dir, fmt.Sprintf("f%d.go", t)), b.String())
		}
		// -go below go1.23 makes the type checker reject the (go1.26) standard library itself, which these
		// files import; the low thresholds are reached through the module version and the file tags instead.
		flags := append([]int{0}, pick([]int{23, 24, 25, 26}, nflags)...)
		for i := range flags {
			j := i + rnd.Intn(len(flags)-i)
			flags[i], flags[j] = flags[j], flags[i]
		}
		flags = append(flags, flags[0]) // first value again, warm
		for _, fl := range flags {
			args := []string{"-checks", "SA1019,SA1015", "-f", "json"}
			if fl != 0 {
				// both documented spellings of the flag value
				if rnd.Bool() {
					args = append(args, "-go", "1."+strconv.Itoa(fl))
				} else {
					args = append(args, "-go", "go1."+strconv.Itoa(fl))
				}
			}
			args = append(args, "./...")
			cmd := exec.Command(bin, args...)
			cmd.Dir = dir
			cacheDir := filepath.Join(work, fmt.Sprintf("clicache-%d", m)) // shared by all -go values of this module
			cmd.Env = append(hx.GoEnv(), "STATICCHECK_CACHE="+cacheDir)
			var stdout, stderr bytes.Buffer
			cmd.Stdout, cmd.Stderr = &stdout, &stderr
			err := cmd.Run()
			if err != nil {
				if ee, ok := err.(*exec.ExitError); !ok || ee.ExitCode() != 1 {
					fmt.Fprintf(os.Stderr, "staticcheck failed: %v\n%s\n", err, stderr.String())
					os.Exit(2)
				}
			}
			cells := map[int]*cliCell{}
			for _, t := range tags {
				cells[t] = &cliCell{Module: m, Flag: fl, Tag: t, SA1019: make([]bool, len(apis))}
			}
			sc := bufio.NewScanner(&stdout)
			sc.Buffer(make([]byte, 1<<20), 1<<24)
			for sc.Scan() {
				var d struct {
					Code     string
					Message  string
					Location struct{ File string }
				}
				if err := json.Unmarshal(sc.Bytes(), &d); err != nil {
					fmt.Fprintf(os.Stderr, "bad json line %q\n", sc.Text())
					os.Exit(2)
				}
				base := filepath.Base(d.Location.File)
				t, err := strconv.Atoi(strings.TrimSuffix(strings.TrimPrefix(base, "f"), ".go"))
				c := cells[t]
				if err != nil || c == nil {
					fmt.Fprintf(os.Stderr, "problem in unexpected file: %s\n", sc.Text())
					os.Exit(2)
				}
				matched := false
				switch d.Code {
				case "SA1015":
					c.SA1015, matched = true, true
				case "SA1019":
					for i, a := range apis {
						short := a.Name[strings.LastIndex(a.Name, "/")+1:]
						if strings.HasPrefix(d.Message, short+" ") || strings.HasPrefix(d.Message, a.Name+" ") || strings.HasPrefix(d.Message, "package "+a.Name+" ") {
							c.SA1019[i], matched = true, true
						}
					}
				}
				if !matched {
					c.Other = append(c.Other, d.Code+": "+d.Message)
				}
			}
			for _, t := range tags {
				o.Cells = append(o.Cells, *cells[t])
			}
		}
	}
	hx.EmitJSON(out, o)
}
