// hc20: drives analysis/report.Report through the real loader and runner over the grid
// module go version x per-file //go:build go1.N tag x -go flag, with a probe analyzer that reports
// one problem per (bound list, threshold). Output: JSON, one record per (module, flag, file).
package main

import (
	"flag"
	"fmt"
	"go/ast"
	"os"
	"path/filepath"
	"sort"
	"strconv"
	"strings"

	"golang.org/x/tools/go/analysis"
	"honnef.co/go/tools/analysis/code"
	"honnef.co/go/tools/analysis/facts/tokenfile"
	"honnef.co/go/tools/analysis/report"
	"honnef.co/go/tools/config"
	"verifharness/hx"
)

type probe struct {
	Name    string     // message
	Setters [][2]string // (bound kind, version) in application order
}

var kinds = []string{"BMinLang", "BMaxLang", "BMinStd", "BMaxStd"}

func opt(kind, v string) report.Option {
	switch kind {
	case "BMinLang":
		return report.MinimumLanguageVersion(v)
	case "BMaxLang":
		return report.MaximumLanguageVersion(v)
	case "BMinStd":
		return report.MinimumStdlibVersion(v)
	case "BMaxStd":
		return report.MaximumStdlibVersion(v)
	}
	panic(kind)
}

func main() {
	work := flag.String("work", "", "scratch directory (outside /repo and /verif)")
	out := flag.String("out", "", "output JSON")
	seed := flag.Uint64("seed", 1, "seed")
	nmods := flag.Int("mods", 4, "number of module versions sampled (0 = all)")
	nflags := flag.Int("flags", 3, "number of -go values per module besides 'module' (0 = all)")
	cli := flag.String("cli", "", "path of a staticcheck binary: run the CLI tie instead of the probe grid")
	flag.Parse()
	rnd := hx.NewRand(*seed)
	if *cli != "" {
		runCLI(*cli, *work, rnd, *nmods, *nflags, *out)
		return
	}

	lo, hi := 16, 26
	var versions []int
	for v := lo; v <= hi; v++ {
		versions = append(versions, v)
	}
	// probes: every single bound at every threshold, plus two-setter lists (both orders, same-kind overrides)
	var probes []probe
	for _, k := range kinds {
		for _, v := range versions {
			probes = append(probes, probe{Setters: [][2]string{{k, "go1." + strconv.Itoa(v)}}})
		}
	}
	for i := 0; i < 40; i++ {
		k1, k2 := kinds[rnd.Intn(4)], kinds[rnd.Intn(4)]
		v1, v2 := versions[rnd.Intn(len(versions))], versions[rnd.Intn(len(versions))]
		probes = append(probes, probe{Setters: [][2]string{{k1, "go1." + strconv.Itoa(v1)}, {k2, "go1." + strconv.Itoa(v2)}}})
	}
	for i := range probes {
		probes[i].Name = "p" + strconv.Itoa(i)
	}

	an := &analysis.Analyzer{
		Name: "verifprobe",
		Doc:  "probe",
		Requires: []*analysis.Analyzer{tokenfile.Analyzer},
		Run: func(pass *analysis.Pass) (any, error) {
			for _, f := range pass.Files {
				var node ast.Node = f.Name
				for _, p := range probes {
					var opts []report.Option
					for _, s := range p.Setters {
						opts = append(opts, opt(s[0], s[1]))
					}
					report.Report(pass, node, p.Name, opts...)
				}
				// also record the effective versions the implementation computed
				report.Report(pass, node, "V "+code.LanguageVersion(pass, node)+" "+code.StdlibVersion(pass, node))
			}
			return nil, nil
		},
	}

	pick := func(all []int, n int) []int {
		if n <= 0 || n >= len(all) {
			return all
		}
		p := append([]int(nil), all...)
		for i := range p {
			j := i + rnd.Intn(len(p)-i)
			p[i], p[j] = p[j], p[i]
		}
		p = p[:n]
		sort.Ints(p)
		return p
	}

	type rec struct {
		Module   int      // minor version of the go directive
		Flag     int      // -go 1.N, or 0 for "module"
		Tag      int      // //go:build go1.N, or 0 for none
		Lang     string   // implementation's LanguageVersion
		Std      string   // implementation's StdlibVersion
		Reported []string // probe names reported
	}
	type output struct {
		Probes []probe
		Cells  []rec
	}
	var o output
	o.Probes = probes

	mods := pick(versions, *nmods)
	// always include the pre/post 1.21 boundary
	has := func(l []int, x int) bool {
		for _, y := range l {
			if y == x {
				return true
			}
		}
		return false
	}
	for _, b := range []int{20, 21} {
		if !has(mods, b) {
			mods = append(mods, b)
		}
	}
	sort.Ints(mods)
	// module 0 = a package WITHOUT module information (GOPATH mode): -go module falls back to the toolchain's
	// newest release tag, an explicit -go 1.N must still be honoured
	mods = append([]int{0}, mods...)
	for _, m := range mods {
		dir := filepath.Join(*work, fmt.Sprintf("m%d", m))
		var env []string
		if m == 0 {
			dir = filepath.Join(*work, "gopath", "src", "nm")
			env = []string{"GO111MODULE=off", "GOPATH=" + filepath.Join(*work, "gopath"), "GOFLAGS="}
		} else {
			hx.WriteFile(filepath.Join(dir, "go.mod"), fmt.Sprintf("module example.com/m%d\n\ngo 1.%d\n", m, m))
		}
		// tags: absent, lower, equal, higher, and the 1.20/1.21/1.22 boundary
		tagset := map[int]bool{0: true}
		if m != 0 {
			tagset[m] = true
		}
		if m > lo {
			tagset[lo+rnd.Intn(m-lo)] = true
		}
		if m != 0 && m < hi {
			tagset[m+1+rnd.Intn(hi-m)] = true
		}
		tagset[20], tagset[21], tagset[22] = true, true, true
		var tags []int
		for t := range tagset {
			tags = append(tags, t)
		}
		sort.Ints(tags)
		for _, t := range tags {
			src := fmt.Sprintf("package p\n\nfunc F%d() {}\n", t)
			if t != 0 {
				src = fmt.Sprintf("//go:build go1.%d\n\n", t) + src
			}
			hx.WriteFile(filepath.Join(dir, fmt.Sprintf("f%d.go", t)), src)
		}
		flags := append([]int{0}, pick(versions, *nflags)...)
		for i := range flags { // seeded order, and the first value is run again at the end (warm, after all others)
			j := i + rnd.Intn(len(flags)-i)
			flags[i], flags[j] = flags[j], flags[i]
		}
		flags = append(flags, flags[0])
		for _, fl := range flags {
			gv := "module"
			if fl != 0 {
				gv = "go1." + strconv.Itoa(fl)
			}
			// ONE cache directory per module, shared by the runs with different -go values (in seeded order):
			// a result cached under one effective version must never be served under another.
			cacheDir := filepath.Join(*work, fmt.Sprintf("cache-%d", m))
			res, err := hx.RunAnalyzers(dir, cacheDir, gv, config.DefaultConfig, []*analysis.Analyzer{an}, env, ".")
			if err != nil {
				fmt.Fprintln(os.Stderr, "run failed:", err)
				os.Exit(2)
			}
			byFile := map[string]*rec{}
			for _, r := range res {
				if !r.Initial {
					continue
				}
				if r.Failed {
					fmt.Fprintf(os.Stderr, "package failed: module 1.%d flag %s: %v\n", m, gv, r.Errors)
					os.Exit(2)
				}
				data := hx.Must(r.Load())
				for _, d := range data.Diagnostics {
					base := filepath.Base(d.Position.Filename)
					rc := byFile[base]
					if rc == nil {
						t, _ := strconv.Atoi(strings.TrimSuffix(strings.TrimPrefix(base, "f"), ".go"))
						rc = &rec{Module: m, Flag: fl, Tag: t}
						byFile[base] = rc
					}
					if strings.HasPrefix(d.Message, "V ") {
						parts := strings.Fields(d.Message)
						rc.Lang, rc.Std = parts[1], parts[2]
					} else {
						rc.Reported = append(rc.Reported, d.Message)
					}
				}
			}
			var names []string
			for n := range byFile {
				names = append(names, n)
			}
			sort.Strings(names)
			for _, n := range names {
				sort.Strings(byFile[n].Reported)
				o.Cells = append(o.Cells, *byFile[n])
			}
		}
	}
	hx.EmitJSON(*out, o)
}
