package main

import (
	"bytes"
	"fmt"
	"go/ast"
	"go/parser"
	"go/token"
	"os"
	"path/filepath"
	"sort"
	"strconv"
	"strings"

	"verifharness/hx"
)

// ---------------------------------------------------------------- variants (semantics-preserving)

type ins struct {
	off  int
	text string
}

func applyIns(src []byte, is []ins) []byte {
	sort.SliceStable(is, func(i, j int) bool { return is[i].off < is[j].off })
	var buf bytes.Buffer
	cur := 0
	for _, i := range is {
		if i.off < cur || i.off > len(src) {
			continue
		}
		buf.Write(src[cur:i.off])
		buf.WriteString(i.text)
		cur = i.off
	}
	buf.Write(src[cur:])
	return buf.Bytes()
}

func parses(name string, src []byte) bool {
	_, err := parser.ParseFile(token.NewFileSet(), name, src, parser.ParseComments)
	return err == nil
}

func wrappable(e ast.Expr) bool {
	switch e.(type) {
	case *ast.Ident, *ast.BasicLit, *ast.CallExpr, *ast.SelectorExpr, *ast.IndexExpr, *ast.BinaryExpr, *ast.UnaryExpr, *ast.StarExpr:
		return true
	}
	return false
}

// variantOf returns the transformed source, or src itself when the transformation does not apply
// (or would not parse).
func variantOf(kind string, name string, src []byte, rnd *hx.Rand) []byte {
	if kind == "orig" {
		return src
	}
	if kind == "crlf" {
		if bytes.Contains(src, []byte("\r")) {
			return src
		}
		res := bytes.ReplaceAll(src, []byte("\n"), []byte("\r\n"))
		if parses(name, res) {
			return res
		}
		return src
	}
	fset := token.NewFileSet()
	f, err := parser.ParseFile(fset, name, src, parser.ParseComments)
	if err != nil {
		return src
	}
	tf := fset.File(f.Pos())
	off := func(p token.Pos) int { return tf.Offset(p) }
	var is []ins
	switch kind {
	case "parens":
		wrap := func(e ast.Expr) {
			if e == nil || !wrappable(e) || !rnd.Chance(40) {
				return
			}
			is = append(is, ins{off(e.Pos()), "("}, ins{off(e.End()), ")"})
		}
		ast.Inspect(f, func(n ast.Node) bool {
			switch n := n.(type) {
			case *ast.BinaryExpr:
				wrap(n.X)
				wrap(n.Y)
			case *ast.IfStmt:
				wrap(n.Cond)
			case *ast.ReturnStmt:
				for _, r := range n.Results {
					if _, isCall := r.(*ast.CallExpr); !isCall || len(n.Results) > 1 {
						wrap(r)
					}
				}
			case *ast.AssignStmt:
				if (n.Tok == token.ASSIGN || n.Tok == token.DEFINE) && len(n.Lhs) == len(n.Rhs) {
					for _, r := range n.Rhs {
						wrap(r)
					}
				}
			case *ast.CallExpr:
				if n.Ellipsis == token.NoPos && len(n.Args) > 1 {
					for _, a := range n.Args {
						// a type argument (make, new, conversions of types) must not be parenthesised blindly
						if _, isCall := a.(*ast.CallExpr); isCall {
							wrap(a)
						} else if _, isBin := a.(*ast.BinaryExpr); isBin {
							wrap(a)
						} else if _, isLit := a.(*ast.BasicLit); isLit {
							wrap(a)
						}
					}
				}
			case *ast.GenDecl:
				if n.Tok == token.IMPORT || n.Tok == token.TYPE {
					return false
				}
			case *ast.CaseClause, *ast.ArrayType, *ast.StructType, *ast.InterfaceType, *ast.FuncType, *ast.MapType, *ast.ChanType:
				_, isCase := n.(*ast.CaseClause)
				return isCase // do not descend into type expressions
			}
			return true
		})
	case "comments":
		k := 0
		ast.Inspect(f, func(n ast.Node) bool {
			switch n := n.(type) {
			case *ast.BinaryExpr:
				o := off(n.OpPos) + len(n.Op.String())
				k++
				switch rnd.Intn(4) {
				case 0:
					is = append(is, ins{o, fmt.Sprintf(" /* v%d */", k)})
				case 1:
					is = append(is, ins{o, "\n\t\t"})
				case 2:
					is = append(is, ins{o, fmt.Sprintf(" // v%d\n\t\t", k)})
				}
			case *ast.CallExpr:
				if len(n.Args) > 0 && rnd.Chance(30) {
					is = append(is, ins{off(n.Lparen) + 1, "\n\t\t"})
				}
				for i := 1; i < len(n.Args); i++ {
					if rnd.Chance(25) {
						is = append(is, ins{off(n.Args[i].Pos()), "/* a */ "})
					}
				}
			case *ast.GenDecl:
				if n.Tok == token.IMPORT {
					return false
				}
			}
			return true
		})
	case "imports":
		used := map[string][]*ast.Ident{}
		ast.Inspect(f, func(n ast.Node) bool {
			if sel, ok := n.(*ast.SelectorExpr); ok {
				if id, ok := sel.X.(*ast.Ident); ok && id.Obj == nil {
					used[id.Name] = append(used[id.Name], id)
				}
			}
			return true
		})
		// names declared anywhere in the file (parameters, locals) must not be touched: Obj==nil covers file-level
		// resolution; be conservative about any declared identifier of the same name
		declared := map[string]bool{}
		ast.Inspect(f, func(n ast.Node) bool {
			if id, ok := n.(*ast.Ident); ok && id.Obj != nil {
				declared[id.Name] = true
			}
			return true
		})
		for _, spec := range f.Imports {
			if spec.Name != nil {
				continue
			}
			path, _ := strconv.Unquote(spec.Path.Value)
			base := path[strings.LastIndex(path, "/")+1:]
			if !token.IsIdentifier(base) || declared[base] || len(used[base]) == 0 || path == "C" || path == "unsafe" {
				continue
			}
			alias := "vp" + base
			if declared[alias] || len(used[alias]) > 0 {
				continue
			}
			is = append(is, ins{off(spec.Path.Pos()), alias + " "})
			for _, id := range used[base] {
				is = append(is, ins{off(id.Pos()), "vp"})
			}
		}
	}
	if len(is) == 0 {
		return src
	}
	res := applyIns(src, is)
	if !parses(name, res) {
		stat("variant_unparsable:"+kind, 1)
		return src
	}
	return res
}

// ---------------------------------------------------------------- corpus assembly

type tdDir struct {
	check, cat, ver, dir string
	standalone, vendor   bool
}

func enumerateTestdata(repo, only string) []tdDir {
	var res []tdDir
	for _, cat := range []string{"simple", "staticcheck", "stylecheck", "quickfix"} {
		checks, _ := os.ReadDir(filepath.Join(repo, cat))
		for _, c := range checks {
			if !c.IsDir() {
				continue
			}
			vers, _ := os.ReadDir(filepath.Join(repo, cat, c.Name(), "testdata"))
			for _, v := range vers {
				if !v.IsDir() || !strings.HasPrefix(v.Name(), "go1.") {
					continue
				}
				d := tdDir{check: c.Name(), cat: cat, ver: v.Name(), dir: filepath.Join(repo, cat, c.Name(), "testdata", v.Name())}
				if only != "" && !strings.Contains(d.dir, only) {
					continue
				}
				if _, err := os.Stat(filepath.Join(d.dir, "vendor")); err == nil {
					d.vendor, d.standalone = true, true
				}
				filepath.Walk(d.dir, func(p string, info os.FileInfo, err error) error {
					if err == nil && !info.IsDir() && strings.HasSuffix(p, ".go") {
						if b, err := os.ReadFile(p); err == nil && bytes.Contains(b, []byte(`"example.com`)) {
							d.standalone = true
						}
					}
					return nil
				})
				res = append(res, d)
			}
		}
	}
	return res
}

// copyTree copies the .go files (and staticcheck.conf, vendor/modules.txt) of src into dst, applying the variant
// to non-vendored Go files.
func copyTree(src, dst, variant string, rnd *hx.Rand) {
	filepath.Walk(src, func(p string, info os.FileInfo, err error) error {
		if err != nil || info.IsDir() {
			return nil
		}
		rel, _ := filepath.Rel(src, p)
		b, err := os.ReadFile(p)
		if err != nil {
			return nil
		}
		if strings.HasSuffix(p, ".golden") {
			return nil
		}
		if strings.HasSuffix(p, ".go") && !strings.Contains(rel, "vendor/") {
			nb := variantOf(variant, p, b, rnd)
			if variant != "orig" && !bytes.Equal(nb, b) {
				stat("variant_files_changed:"+variant, 1)
			}
			b = nb
			roundTripFile(filepath.Join(dst, rel), b)
		}
		hx.WriteFile(filepath.Join(dst, rel), string(b))
		return nil
	})
}

func runCorpus(repo, work string, rnd *hx.Rand, variants, repopkgs, only string, vfrac int, vers string) {
	tds := enumerateTestdata(repo, only)
	if vers != "" {
		var sel []tdDir
		for _, d := range tds {
			if (strings.HasPrefix(vers, "!") && d.ver != vers[1:]) || d.ver == vers {
				sel = append(sel, d)
			}
		}
		tds = sel
	}
	stat("testdata_dirs", len(tds))
	// checks whose source builds suggested fixes (scan of the analyzer's own files)
	fixChecks := map[string]bool{}
	for _, d := range tds {
		files, _ := filepath.Glob(filepath.Join(repo, d.cat, d.check, "*.go"))
		for _, f := range files {
			if b, err := os.ReadFile(f); err == nil && (bytes.Contains(b, []byte("report.Fixes(")) || bytes.Contains(b, []byte("SuggestedFix"))) {
				fixChecks[strings.ToUpper(d.check)] = true
			}
		}
	}
	stat("fix_offering_checks", len(fixChecks))
	for _, variant := range strings.Split(variants, ",") {
		if variant == "" {
			continue
		}
		vr := rnd.Fork()
		sel := tds
		if variant != "orig" {
			// variants: the testdata of the fix-offering checks, a seeded sample of vfrac percent per variant kind
			sel = nil
			for _, d := range tds {
				if d.standalone && vfrac < 100 {
					continue
				}
				if fixChecks[strings.ToUpper(d.check)] && vr.Chance(vfrac) {
					sel = append(sel, d)
				}
			}
			stat("variant_dirs:"+variant, len(sel))
		}
		// merged modules: one per Go version
		byVer := map[string][]tdDir{}
		for _, d := range sel {
			if !d.standalone {
				byVer[d.ver] = append(byVer[d.ver], d)
			}
		}
		var vers []string
		for v := range byVer {
			vers = append(vers, v)
		}
		sort.Strings(vers)
		for _, v := range vers {
			mdir := filepath.Join(work, variant, "merged-"+v)
			hx.WriteFile(filepath.Join(mdir, "go.mod"), "module example.com\n\ngo "+strings.TrimPrefix(v, "go")+"\n")
			for _, d := range byVer[v] {
				copyTree(d.dir, filepath.Join(mdir, d.check), variant, vr)
			}
			analyzeModule(work, modSpec{dir: mdir, variant: variant, patterns: []string{"./..."}, label: "merged-" + v}, vr)
		}
		for _, d := range sel {
			if !d.standalone {
				continue
			}
			mdir := filepath.Join(work, variant, "alone-"+d.check+"-"+d.ver)
			hx.WriteFile(filepath.Join(mdir, "go.mod"), "module example.com\n\ngo "+strings.TrimPrefix(d.ver, "go")+"\n")
			copyTree(d.dir, mdir, variant, vr)
			var env []string
			if d.vendor {
				env = []string{"GOFLAGS=-mod=vendor"}
			}
			analyzeModule(work, modSpec{dir: mdir, variant: variant, env: env, patterns: []string{"./..."}, label: d.check + "-" + d.ver}, vr)
		}
	}
	if repopkgs != "" && only == "" {
		for _, pat := range strings.Split(repopkgs, ",") {
			if strings.Contains(pat, "...") {
				pat = "analysis/code" // the recursive pattern: sample one directory for the helper round trip
			}
			gofiles, _ := filepath.Glob(filepath.Join(repo, pat, "*.go"))
			for _, gf := range gofiles {
				if b, err := os.ReadFile(gf); err == nil {
					roundTripFile(gf, b)
				}
			}
		}
		analyzeModule(work, modSpec{dir: repo, variant: "repo", patterns: strings.Split(repopkgs, ","), label: "repo"}, rnd.Fork())
	}
	stat("files", len(out.Files))
	stat("diags", len(out.Diags))
	stat("fixes", len(out.Fixes))
}
