package main

// Round-trip tie for the helpers the fixes re-render operands with: for every expression of every
// corpus / generated file, Render(CopyExpr(e)) must equal Render(e) and astutil.Equal(CopyExpr(e), e).

import (
	"bytes"
	"fmt"
	"go/ast"
	"go/format"
	"go/parser"
	"go/token"

	"honnef.co/go/tools/go/ast/astutil"
)

type RTRec struct {
	File string
	Line int
	Kind string // node type
	Expr string
	Copy string
	What string // "render-differs" | "not-equal"
}

func roundTripFile(path string, src []byte) {
	fset := token.NewFileSet()
	f, err := parser.ParseFile(fset, path, src, parser.SkipObjectResolution)
	if err != nil {
		return
	}
	render := func(n ast.Node) string {
		var buf bytes.Buffer
		if err := format.Node(&buf, fset, n); err != nil {
			return "<error: " + err.Error() + ">"
		}
		return buf.String()
	}
	ast.Inspect(f, func(n ast.Node) bool {
		e, ok := n.(ast.Expr)
		if !ok || e == nil {
			return true
		}
		if _, isKV := e.(*ast.KeyValueExpr); isKV {
			return true // not an expression on its own
		}
		var cp ast.Expr
		okc := false
		func() {
			defer func() {
				if recover() != nil {
					stat("roundtrip_copy_panics", 1)
				}
			}()
			cp, okc = astutil.CopyExpr(e)
		}()
		if !okc || cp == nil {
			stat("roundtrip_uncopyable", 1)
			return true
		}
		stat("roundtrip_exprs", 1)
		a, b := render(e), render(cp)
		what := ""
		if a != b {
			what = "render-differs"
		} else {
			eq, panicked := true, false
			func() {
				defer func() {
					if recover() != nil {
						panicked = true
					}
				}()
				eq = astutil.Equal(cp, e)
			}()
			if panicked {
				stat("roundtrip_equal_unsupported", 1)
			} else if !eq {
				what = "not-equal"
			}
		}
		if what != "" {
			stat("roundtrip_failures", 1)
			if len(out.RoundTrip) < 25 {
				out.RoundTrip = append(out.RoundTrip, RTRec{File: path, Line: fset.Position(e.Pos()).Line, Kind: fmt.Sprintf("%T", e), Expr: a, Copy: b, What: what})
			}
		}
		return true
	})
}
