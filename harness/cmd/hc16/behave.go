package main

// Behavioural oracle for the simplification (S1xxx) and quick-fix (QF1xxx) categories: generated executable
// instances of each check's trigger shape, with random side-effecting sub-expressions that log to a trace,
// are compiled and run before and after each suggested fix; results, panics and traces must be equal.

import (
	"bytes"
	"encoding/hex"
	"fmt"
	"go/ast"
	"go/importer"
	"go/parser"
	"go/token"
	"go/types"
	"os/exec"
	"path/filepath"
	"sort"
	"strings"

	"verifharness/hx"
)

type BehaveRec struct {
	Check   string
	FixMsg  string
	Shape   string
	Func    string
	Equal   bool
	Status  string // "equal" | "differs" | "build-failed"
	Before  string `json:",omitempty"`
	After   string `json:",omitempty"`
	Source  string `json:",omitempty"`
	Patched string `json:",omitempty"`
}

// fixes that change behaviour ON PURPOSE (the diagnostic says "probably want ..."): not equivalent rewrites
var notEquivalenceByDesign = map[string]string{
	"QF1009": "time.Time == replaced by Equal: different comparison by intent",
	"QF1010": "printing string(b) instead of the byte slice: different output by intent",
}

const prelude = `package main

import (
	"bytes"
	"errors"
	"fmt"
	"math"
	"strings"
)

var _ = bytes.Compare
var _ = errors.New
var _ = math.Pow
var _ = strings.Index

var trace []string
var counter int

func tr(s string)                  { trace = append(trace, s) }
func tb(id int, v bool) bool       { tr(fmt.Sprintf("b%d=%v", id, v)); return v }
func ti(id int, v int) int         { tr(fmt.Sprintf("i%d=%v", id, v)); return v }
func tf(id int, v float64) float64 { tr(fmt.Sprintf("f%d=%v", id, v)); return v }
func ts(id int, v string) string   { tr(fmt.Sprintf("s%d=%q", id, v)); return v }
func tbs(id int, v string) []byte  { tr(fmt.Sprintf("y%d=%q", id, v)); return []byte(v) }

// pi panics on 13
func pi(id int, v int) int {
	tr(fmt.Sprintf("p%d=%v", id, v))
	if v == 13 {
		panic(fmt.Sprintf("pi%d", id))
	}
	return v
}

// operands of DEFINED numeric types and of an alias of one (every sub-expression has the named type)
type Celsius float64
type F32 float32
type ID int
type CAlias = Celsius
type NB bool
type two struct{ a, b int }

var cx, cy Celsius
var hx32, hy32 F32
var ax, ay CAlias
var idx, idy ID

func setg(p, q bool, x, y int, fx, fy float64, s, t string) {
	cx, cy = Celsius(fx), Celsius(fy)
	hx32, hy32 = F32(fx), F32(fy)
	ax, ay = CAlias(fx), CAlias(fy)
	idx, idy = ID(x), ID(y)
}

// variadic callees (spread calls f(xs...) must keep their ellipsis when a fix re-renders them)
var xsI = []int{1, 2, 3}
var xsA = []interface{}{1, "a"}

func sumi(id int, xs ...int) int {
	n := 0
	for _, v := range xs {
		n += v
	}
	tr(fmt.Sprintf("v%d=%d", id, n))
	return n
}
func cnt(id int, xs ...interface{}) int { tr(fmt.Sprintf("c%d=%d", id, len(xs))); return len(xs) }

// next counts its calls
func next() int { counter++; tr(fmt.Sprintf("next=%d", counter)); return counter }

type inner struct{ f, g int }
type Mid struct{ inner }
type outer struct {
	Mid
	h int
}
type pairA struct {
	a int
	b string
}
type pairB struct {
	a int
	b string
}
type named string
type strg struct{ v string }

func (s strg) String() string { tr("String()"); return "<" + s.v + ">" }

type valw struct{ sink *bytes.Buffer }

func (w valw) Write(b []byte) (int, error) { tr("valw.Write"); return w.sink.Write(b) }

var sink bytes.Buffer

func mkw() valw { tr("mkw"); return valw{&sink} }

func run(name string, f func() any) {
	trace = nil
	counter = 0
	sink.Reset()
	var res any
	func() {
		defer func() {
			if r := recover(); r != nil {
				res = fmt.Sprint("PANIC: ", r)
			}
		}()
		res = f()
	}()
	fmt.Printf("%s => %v | %v | %q\n", name, res, trace, sink.String())
}
`

var inputs = []string{
	`true, false, 1, 2, 1.5, 2.5, "hello world", "o w"`,
	`false, true, 3, 3, math.NaN(), 1.0, "abc", ""`,
	`true, true, 0, -1, 2.0, math.NaN(), "", "x"`,
	`false, false, 13, 5, -1.0, -1.0, "aXbXc", "X"`,
	`true, false, 2, 13, math.Inf(1), 0.0, "h\u00e9llo", "l"`,
	`false, true, 4, 1, 0.0, math.Inf(-1), "zzz", "zz"`,
	`true, true, 5, 5, math.Inf(-1), math.NaN(), "q", "q"`,
	`false, false, 7, 7, 3.0, 2.0, "go gopher", "go"`,
}

const sig = "(p, q bool, x, y int, fx, fy float64, s, t string) any"

type gen struct {
	r  *hx.Rand
	id int
}

func (g *gen) nid() int { g.id++; return g.id }
func (g *gen) pick(xs ...string) string { return xs[g.r.Intn(len(xs))] }

func (g *gen) intAtom() string {
	switch g.r.Intn(9) {
	case 7:
		return fmt.Sprintf("sumi(%d, xsI...)", g.nid())
	case 8:
		return fmt.Sprintf("cnt(%d, xsA...)", g.nid())
	case 0:
		return "x"
	case 1:
		return "y"
	case 2:
		return fmt.Sprint(g.r.Intn(5))
	case 3:
		return fmt.Sprintf("ti(%d, x)", g.nid())
	case 4:
		return fmt.Sprintf("ti(%d, y)", g.nid())
	case 5:
		return fmt.Sprintf("pi(%d, y)", g.nid())
	default:
		return fmt.Sprintf("ti(%d, %d)", g.nid(), g.r.Intn(4))
	}
}

func (g *gen) intExpr(d int) string {
	if d <= 0 || g.r.Chance(35) {
		return g.intAtom()
	}
	switch g.r.Intn(6) {
	case 0:
		return g.intExpr(d-1) + " + " + g.intAtom()
	case 1:
		return g.intAtom() + " - (" + g.intAtom() + " - " + g.intExpr(d-1) + ")"
	case 2:
		return g.intAtom() + " * " + g.intAtom()
	case 3:
		return "(" + g.intExpr(d-1) + ")"
	case 4:
		return g.intAtom() + " + (" + g.intAtom() + " + " + g.intAtom() + ")"
	default:
		return g.intAtom() + " - " + g.intAtom()
	}
}

func (g *gen) fltAtom() string {
	return g.pick("fx", "fy", fmt.Sprintf("tf(%d, fx)", g.nid()), "1.5", fmt.Sprintf("tf(%d, fy)", g.nid()))
}

func (g *gen) cmpOp() string { return g.pick("==", "!=", "<", "<=", ">", ">=") }

// a comparison (binary expression of boolean type)
func (g *gen) cmp(floats bool) string {
	if floats && g.r.Chance(30) {
		switch g.r.Intn(5) {
		case 0:
			return "cx " + g.cmpOp() + " " + g.pick("cy", "1.5")
		case 1:
			return "hx32 " + g.cmpOp() + " hy32"
		case 2:
			return "ay " + g.cmpOp() + " ax"
		}
		return g.fltAtom() + " " + g.cmpOp() + " " + g.fltAtom()
	}
	if g.r.Chance(10) {
		return "idx " + g.cmpOp() + " " + g.pick("idy", "3")
	}
	if g.r.Chance(15) {
		return "s " + g.cmpOp() + " " + fmt.Sprintf("ts(%d, t)", g.nid())
	}
	return g.intExpr(1) + " " + g.cmpOp() + " " + g.intExpr(1)
}

func (g *gen) boolAtom(floats bool) string {
	switch g.r.Intn(7) {
	case 0:
		return "p"
	case 1:
		return "q"
	case 2:
		return fmt.Sprintf("tb(%d, p)", g.nid())
	case 3:
		return fmt.Sprintf("tb(%d, !q)", g.nid())
	case 4:
		return fmt.Sprintf("!tb(%d, q)", g.nid())
	default:
		return g.cmp(floats)
	}
}

// a boolean expression whose root is a binary operator
func (g *gen) boolBin(d int, floats bool) string {
	if d <= 0 {
		return g.cmp(floats)
	}
	sub := func() string {
		if g.r.Chance(40) {
			e := g.boolBin(d-1, floats)
			switch g.r.Intn(3) {
			case 0:
				return "(" + e + ")"
			case 1:
				return "!(" + e + ")"
			default:
				return e // same or tighter precedence is handled below by the caller's operator choice
			}
		}
		return g.boolAtom(floats)
	}
	switch g.r.Intn(4) {
	case 0:
		return g.boolAtom(floats) + " && " + g.parenIfOr(sub())
	case 1:
		return g.boolAtom(floats) + " || " + sub()
	case 2:
		return "(" + sub() + ") == " + g.pick("p", "q", fmt.Sprintf("tb(%d, q)", g.nid()))
	default:
		return g.cmp(floats)
	}
}

func (g *gen) parenIfOr(e string) string {
	if strings.Contains(e, "||") && !strings.HasPrefix(e, "(") && !strings.HasPrefix(e, "!(") {
		return "(" + e + ")"
	}
	return e
}

type shape struct {
	name string
	body func(g *gen) string
}

func shapes() []shape {
	return []shape{
		{"QF1001", func(g *gen) string {
			e := g.boolBin(2, true)
			switch g.r.Intn(3) {
			case 0:
				return "return !(" + e + ")"
			case 1:
				return "if !(" + e + ") {\n\t\treturn 1\n\t}\n\treturn 2"
			default:
				return "r := " + g.pick("p", fmt.Sprintf("tb(%d, q)", g.nid())) + " && !(" + e + ")\n\treturn r"
			}
		}},
		{"S1002", func(g *gen) string {
			c := g.pick("true", "false")
			op := g.pick("==", "!=")
			var e string
			switch g.r.Intn(6) {
			case 0:
				e = fmt.Sprintf("tb(%d, p)", g.nid())
			case 1:
				e = "(" + g.boolBin(1, true) + ")"
			case 2:
				e = "!" + fmt.Sprintf("tb(%d, q)", g.nid())
			case 3:
				e = "!!" + fmt.Sprintf("tb(%d, q)", g.nid())
			case 4:
				e = g.intExpr(1) + " " + g.pick("<", ">=", "==", "!=") + " " + g.intAtom() // a comparison WITHOUT parentheses
			default:
				e = "p"
			}
			if g.r.Chance(20) && !strings.Contains(e, "<") && !strings.Contains(e, ">") && !strings.Contains(e, "=") {
				return "return " + c + " " + op + " " + e
			}
			if g.r.Chance(50) {
				return "if " + e + " " + op + " " + c + " {\n\t\treturn 1\n\t}\n\treturn 2"
			}
			return "return " + e + " " + op + " " + c
		}},
		{"QF1006", func(g *gen) string {
			var c string
			switch g.r.Intn(4) {
			case 0:
				c = "n + x " + g.pick(">", ">=", "==") + " " + g.intAtom()
			case 1:
				c = g.pick("fx < fy", "fx >= fy", "tf(1, fx) > float64(n)", "fy <= fx", "cx >= cy", "hx32 < hy32", "ay > ax", "cx < 2")
			case 2:
				c = "n > 1 " + g.pick("||", "&&") + " " + g.boolAtom(true)
			default:
				c = g.boolBin(1, true)
			}
			return "n := 0\n\tfor {\n\t\tif " + c + " {\n\t\t\tbreak\n\t\t}\n\t\tn++\n\t\ttr(\"body\")\n\t\tif n > 3 {\n\t\t\treturn -n\n\t\t}\n\t}\n\treturn n"
		}},
		{"QF1007", func(g *gen) string {
			c := g.boolBin(1, true)
			if g.r.Bool() {
				c = g.boolAtom(true)
			}
			if g.r.Bool() {
				return "v := false\n\tif " + c + " {\n\t\tv = true\n\t}\n\treturn v"
			}
			return "v := true\n\tif " + c + " {\n\t\tv = false\n\t}\n\treturn v"
		}},
		{"QF1002", func(g *gen) string {
			tag := g.pick("x", "y", "x+1", "s")
			lit := func(i int) string {
				if tag == "s" {
					return fmt.Sprintf("%q", []string{"abc", "zzz", "", "aXbXc", "go gopher"}[i%5])
				}
				return fmt.Sprint(i)
			}
			k := g.r.Intn(3)
			tag2 := tag
			if tag != "s" && g.r.Chance(35) {
				tag2 = g.pick("x", "y", "y+1") // a later disjunct about something else: must not be merged
			}
			return fmt.Sprintf("r := 0\n\tswitch {\n\tcase %s == %s || %s == (%s):\n\t\tr = ti(1, 10)\n\tcase %s == %s:\n\t\tr = 20\n\tdefault:\n\t\tr = 30\n\t}\n\treturn r",
				tag, lit(k), tag2, lit(k+1), tag, lit(k+2+g.r.Intn(2)))
		}},
		{"QF1003", func(g *gen) string {
			tag := g.pick("x", "y", "x-y")
			k := g.r.Intn(3)
			els := "\n\t}"
			if g.r.Bool() {
				els = "\n\t} else {\n\t\tr = 30\n\t}"
			}
			tag2 := tag
			if g.r.Chance(35) {
				tag2 = g.pick("x", "y", "y-x")
			}
			return fmt.Sprintf("r := 0\n\tif %s == %d || %s == %d {\n\t\tr = ti(1, 10)\n\t} else if %s == %d {\n\t\tr = 20%s\n\treturn r",
				tag, k, tag2, k+1, tag, k+2+g.r.Intn(2), els)
		}},
		{"S1005", func(g *gen) string {
			return fmt.Sprintf("ch := make(chan int, 4)\n\tch <- ti(1, x)\n\tch <- 2\n\tch <- 3\n\tclose(ch)\n\t_ = <-ch\n\tv, _ := <-ch\n\tn := 0\n\tfor _ = range []int{1, 2, %d} {\n\t\tn++\n\t}\n\tfor i, _ := range []int{5, 6} {\n\t\tn += i\n\t}\n\tfor _, _ = range ts(2, s) {\n\t\tn++\n\t}\n\treturn fmt.Sprint(v, n)", g.r.Intn(9))
		}},
		{"S1010", func(g *gen) string {
			return fmt.Sprintf("sl := []int{1, 2, 3, 4}\n\tr := sl[%s:len(sl)]\n\tu := s[%s:len(s)]\n\treturn fmt.Sprint(r, u)", g.pick("1", "ti(1, 2)", "x", "pi(1, x)"), g.pick("0", "ti(2, 1)", "y"))
		}},
		{"S1001", func(g *gen) string {
			dst := g.pick("make([]int, 5)", "make([]int, x)", "make([]int, 2)")
			switch g.r.Intn(3) {
			case 0:
				return "src := []int{1, 2, 3}\n\tdst := " + dst + "\n\tfor i, v := range src {\n\t\tdst[i] = v\n\t}\n\treturn fmt.Sprint(dst)"
			case 1:
				return "src := []int{1, 2, 3}\n\tdst := " + dst + "\n\tfor i := range src {\n\t\tdst[i] = src[i]\n\t}\n\treturn fmt.Sprint(dst)"
			default:
				return "src := [3]int{1, 2, ti(1, 3)}\n\tvar dst [3]int\n\tfor i, v := range src {\n\t\tdst[i] = v\n\t}\n\treturn fmt.Sprint(dst)"
			}
		}},
		{"S1011", func(g *gen) string {
			src := g.pick("[]int{1, 2, 3}", "[]int(nil)", "make([]int, x)")
			if g.r.Bool() {
				return "src := " + src + "\n\tdst := []int{9}\n\tfor _, v := range src {\n\t\tdst = append(dst, v)\n\t}\n\treturn fmt.Sprint(dst, len(dst))"
			}
			return "src := " + src + "\n\tvar dst []int\n\tfor i := range src {\n\t\tdst = append(dst, src[i])\n\t}\n\treturn fmt.Sprint(dst, dst == nil)"
		}},
		{"S1018", func(g *gen) string {
			return fmt.Sprintf("bs := []int{1, 2, 3, 4, 5, 6}\n\tn := %s\n\toff := %s\n\tfor i := 0; i < n; i++ {\n\t\tbs[i] = bs[off+i]\n\t}\n\treturn fmt.Sprint(bs)", g.pick("2", "x", "3"), g.pick("2", "y", "3", "4"))
		}},
		{"S1021", func(g *gen) string {
			if g.r.Chance(40) {
				// an assignment OPERATION after the declaration is not a plain initialisation
				return "var v int\n\tv " + g.pick("-=", "+=", "&^=", "/=", "|=", "^=") + " " + g.pick("x", "ti(1, x)", "y + 1") + "\n\treturn v"
			}
			return "var v int\n\tv = " + g.intExpr(2) + "\n\treturn v"
		}},
		{"S1033", func(g *gen) string {
			k := g.pick("x", "x", "y+1", "ti(1, x)", "next()")
			return "m := map[int]int{1: 1, 2: 2, 3: 3, 4: 4}\n\tif _, ok := m[" + k + "]; ok {\n\t\tdelete(m, " + k + ")\n\t}\n\treturn fmt.Sprint(m)"
		}},
		{"S1036", func(g *gen) string {
			switch g.r.Intn(3) {
			case 0:
				return "m := map[int]int{1: 1, 2: 2}\n\tif _, ok := m[x]; ok {\n\t\tm[x] += ti(1, 2)\n\t} else {\n\t\tm[x] = ti(1, 2)\n\t}\n\treturn fmt.Sprint(m)"
			case 1:
				return "m := map[int]int{1: 1, 2: 2}\n\tif _, ok := m[y]; ok {\n\t\tm[y]++\n\t} else {\n\t\tm[y] = 1\n\t}\n\treturn fmt.Sprint(m)"
			default:
				return "m := map[int][]int{1: {1}}\n\tif _, ok := m[x]; ok {\n\t\tm[x] = append(m[x], 7, y)\n\t} else {\n\t\tm[x] = []int{7, y}\n\t}\n\treturn fmt.Sprint(m)"
			}
		}},
		{"S1003", func(g *gen) string {
			fn := g.pick("Index", "IndexAny", "IndexRune")
			arg2 := fmt.Sprintf("ts(%d, t)", g.nid())
			if fn == "IndexRune" {
				arg2 = "'X'"
			}
			return fmt.Sprintf("return strings.%s(ts(%d, s), %s) %s", fn, g.nid(), arg2, g.pick("!= -1", "== -1", "> -1", ">= 0", "< 0"))
		}},
		{"S1004", func(g *gen) string {
			return fmt.Sprintf("return bytes.Compare(tbs(%d, s), tbs(%d, t)) %s 0", g.nid(), g.nid(), g.pick("==", "!="))
		}},
		{"S1016", func(g *gen) string {
			if g.r.Bool() {
				return "v := pairA{ti(1, x), s}\n\tw := pairB{a: v.a, b: v.b}\n\treturn fmt.Sprint(w)"
			}
			return "v := pairA{ti(1, x), s}\n\tw := pairB{v.a, v.b}\n\treturn fmt.Sprint(w)"
		}},
		{"S1025", func(g *gen) string {
			arg := g.pick("ts(1, s)", "named(ts(1, s))", "strg{ts(1, s)}", "tbs(1, s)", "s")
			return "return fmt.Sprintf(\"%s\", " + arg + ")"
		}},
		{"S1028", func(g *gen) string {
			return fmt.Sprintf("return errors.New(fmt.Sprintf(\"e %%d %%s\", ti(%d, x), ts(%d, s))).Error()", g.nid(), g.nid())
		}},
		{"S1030", func(g *gen) string {
			if g.r.Bool() {
				return "var buf bytes.Buffer\n\tbuf.WriteString(ts(1, s))\n\treturn string(buf.Bytes())"
			}
			return "buf := &bytes.Buffer{}\n\tbuf.WriteString(ts(1, s))\n\treturn fmt.Sprint([]byte(buf.String()))"
		}},
		{"S1034", func(g *gen) string {
			return "var v any = x\n\tif p {\n\t\tv = ts(1, s)\n\t}\n\tswitch v.(type) {\n\tcase int:\n\t\treturn v.(int) + 1\n\tcase string:\n\t\treturn v.(string) + \"!\"\n\t}\n\treturn nil"
		}},
		{"S1039", func(g *gen) string {
			return "return " + g.pick(`fmt.Sprint("lit")`, `fmt.Sprintf("lit")`, "fmt.Sprint(`raw\nlit`)")
		}},
		{"QF1004", func(g *gen) string {
			return g.pick(
				"return strings.Replace(ts(1, s), ts(2, t), \"_\", -1)",
				"return fmt.Sprint(strings.SplitN(ts(1, s), ts(2, t), -1))",
				"return fmt.Sprint(bytes.SplitAfterN(tbs(1, s), tbs(2, t), -1))")
		}},
		{"QF1005", func(g *gen) string {
			return "return " + g.pick("math.Pow(fx, 2)", "math.Pow(fy, 3)", "math.Pow(float64(x), 2)", "math.Pow(fx+fy, 2)", "math.Pow(fx, 1)", "math.Pow(fx, 0)", "math.Pow(2, 3)", "math.Pow(fx-(fy-1), 3)")
		}},
		{"QF1008", func(g *gen) string {
			return "v := outer{Mid{inner{ti(1, x), y}}, 3}\n\tv.Mid.inner.f++\n\treturn v.Mid.inner.f + v.Mid.g + v.inner.g"
		}},
		{"QF1011", func(g *gen) string {
			return g.pick(
				"var a int = x + ti(1, y)\n\treturn fmt.Sprintf(\"%T %v\", a, a)",
				"var m int32 = 1 << uint(x&3)\n\treturn fmt.Sprintf(\"%T %v\", m, m)",        // untyped constant shifted by a variable
				"var b NB = x < y\n\treturn fmt.Sprintf(\"%T %v\", b, b)",                    // untyped bool to a named bool type
				"var f float64 = 3 / 2\n\treturn fmt.Sprintf(\"%T %v\", f, f/4)",
				"var c Celsius = 2\n\tvar d int = len(s)\n\treturn fmt.Sprintf(\"%T %v %T\", c, c, d)",
				"var u uint8 = 200 + 1<<uint(x&1)\n\tu += 100\n\treturn fmt.Sprintf(\"%T %v\", u, u)")
		}},
		{"QF1012", func(g *gen) string {
			call := g.pick(`fmt.Sprintf("%d-%s", ti(1, x), s)`, `fmt.Sprint(ti(1, x), s)`, `fmt.Sprintln(ts(1, s))`)
			switch g.r.Intn(5) {
			case 0:
				return "var buf bytes.Buffer\n\tbuf.Write([]byte(" + call + "))\n\treturn buf.String()"
			case 1:
				return "buf := &bytes.Buffer{}\n\tbuf.WriteString(" + call + ")\n\treturn buf.String()"
			case 2:
				return "var sb strings.Builder\n\tsb.WriteString(" + call + ")\n\treturn sb.String()"
			case 3:
				return "mkw().Write([]byte(" + call + "))\n\treturn nil"
			default:
				return "w := valw{&sink}\n\tn, err := w.Write([]byte(" + call + "))\n\treturn fmt.Sprint(n, err)"
			}
		}},
	}
}

// directed instances: fixed bodies generated on every run in addition to the random ones (shapes that
// reading the analyzers singled out)
var directed = map[string][]string{
	"QF1001": {
		"return !(x == y-(ti(1, 3)-ti(2, 3)) || p)",            // & simplify: non-associative operator
		"return !(x/(ti(1, 4)/2) == 1 && q)",                    // division
		"return !(s+(t+\"a\") == \"zzzzza\" && x*(y*2) == 8)",       // associative operators: fine
		"return !(fx < fy || p)",                                 // floats: must not be offered
		"return !!(p && tb(1, q))",                               // parent is a unary expression
		"return fmt.Sprint(!(p && tb(1, q)), [2]int{1, 2}[x&1])",
		"return !(cx < cy || p)",                                 // defined float type: must not be offered either
		"return !(q && (hx32 >= hy32 || ay > ax))",
		"return !(p && sumi(1, xsI...) == 6)",                    // variadic spread, ...int
		"return !(q || cnt(1, xsA...) == 2 && p)",                // variadic spread, ...interface{}: still type-checks without the ellipsis
	},
	"S1002": {
		"return (cnt(1, xsA...) == 2) == false",
		"return cx < cy == false",
		"return x < ti(1, y) == false",
		"return tb(1, p) != true",
		"if false == !tb(1, q) {\n\t\treturn 1\n\t}\n\treturn 2",
		"return x != y == true",
		"return p == q == false",
	},
	"QF1006": {
		"n := 0\n\tfor {\n\t\tif cx >= cy {\n\t\t\tbreak\n\t\t}\n\t\tn++\n\t\tif n > 2 {\n\t\t\treturn -n\n\t\t}\n\t}\n\treturn n", // defined float type
		"n := 0\n\tfor {\n\t\tif hx32 < hy32 || ax <= ay {\n\t\t\tbreak\n\t\t}\n\t\tn++\n\t\tif n > 2 {\n\t\t\treturn -n\n\t\t}\n\t}\n\treturn n",
		"n := 0\n\tfor {\n\t\tif fx < fy {\n\t\t\tbreak\n\t\t}\n\t\tn++\n\t\tif n > 2 {\n\t\t\treturn -n\n\t\t}\n\t}\n\treturn n",
		"n := 0\n\tfor {\n\t\tif n >= x || pi(1, y) == 2 {\n\t\t\tbreak\n\t\t}\n\t\tn++\n\t\tif n > 2 {\n\t\t\treturn -n\n\t\t}\n\t}\n\treturn n",
	},
	"QF1007": {
		"v := true\n\tif cnt(1, xsA...) == 2 && p {\n\t\tv = false\n\t}\n\treturn v",
		"v := true\n\tif tb(1, p) && fx < fy {\n\t\tv = false\n\t}\n\treturn v",
	},
	"QF1002": {
		"r := 0\n\tswitch {\n\tcase x == 9 || y == 5:\n\t\tr = 1\n\tcase x == 3:\n\t\tr = 2\n\t}\n\treturn r",
		"v := two{x, y}\n\tr := 0\n\tswitch {\n\tcase v.a == 9 || v.b == 5:\n\t\tr = 1\n\tcase v.a == 3, v.b == 13:\n\t\tr = 2\n\t}\n\treturn r",
		"r := 0\n\tswitch {\n\tcase x == 9 || 4 == x:\n\t\tr = 1\n\tcase x == 3:\n\t\tr = 2\n\t}\n\treturn r",
		"v := pairA{x, \"a\"}\n\tr := 0\n\tswitch {\n\tcase (pairA{1, \"a\"}) == v:\n\t\tr = 1\n\tcase (pairA{2, \"a\"}) == v:\n\t\tr = 2\n\t}\n\treturn r",
		"r := 0\n\tswitch {\n\tcase x == 1 || x == 1:\n\t\tr = 1\n\tcase x == 3:\n\t\tr = 2\n\t}\n\treturn r", // duplicate constants
	},
	"QF1003": {
		"r := 0\n\tif x == 9 || y == 5 {\n\t\tr = 1\n\t} else if x == 3 {\n\t\tr = 2\n\t}\n\treturn r",                         // later disjunct compares a different variable
		"v := two{x, y}\n\tr := 0\n\tif v.a == 9 || v.b == 5 {\n\t\tr = 1\n\t} else if v.a == 3 {\n\t\tr = 2\n\t}\n\treturn r",      // a different field of the same struct
		"r := 0\n\tif x == 9 || 3 == x {\n\t\tr = 1\n\t} else if x == 4 {\n\t\tr = 2\n\t}\n\treturn r",                         // the same variable on the right side
		"r := 0\n\tif x == 3 {\n\t\tr = 1\n\t} else if x == 9 || y == 1 || x == 2 {\n\t\tr = 2\n\t} else {\n\t\tr = 3\n\t}\n\treturn r",
		"n := 0\n\tfor i := 0; i < 3; i++ {\n\t\tif x == 1 {\n\t\t\tn += 1\n\t\t} else if x == 2 {\n\t\t\tn += 2\n\t\t} else {\n\t\t\tbreak\n\t\t}\n\t\tn += 10\n\t}\n\treturn n", // break in the final else, inside a loop
		"n := 0\n\tfor i := 0; i < 3; i++ {\n\t\tif x == 1 {\n\t\t\tn += 1\n\t\t} else if x == 2 {\n\t\t\tn += 2\n\t\t} else {\n\t\t\tcontinue\n\t\t}\n\t\tn += 10\n\t}\n\treturn n",
		"n := 0\n\tswitch {\n\tcase y > 0:\n\t\tif x == 1 {\n\t\t\tn += 1\n\t\t} else if x == 2 {\n\t\t\tn += 2\n\t\t} else {\n\t\t\tbreak\n\t\t}\n\t\tn += 10\n\t}\n\treturn n", // break inside a switch case
		"v := pairA{x, \"a\"}\n\tr := 0\n\tif (pairA{1, \"a\"}) == v {\n\t\tr = 1\n\t} else if (pairA{2, \"a\"}) == v {\n\t\tr = 2\n\t}\n\treturn r", // composite literals differing only in elements
		"r := 0\n\tif x == 1 {\n\t\tr = 1\n\t} else if x == 1 || x == 2 {\n\t\tr = 2\n\t}\n\treturn r", // duplicate constants
	},
	"S1021": {
		"var v int\n\tv -= ti(1, x)\n\tvar w int\n\tw &^= y\n\tvar u int\n\tu /= x\n\treturn fmt.Sprint(v, w, u)",
		"var v int\n\tv += x\n\tvar w int\n\tw = x - y\n\treturn v + w",
	},
	"S1034": {
		"var v any = x\n\tif q {\n\t\tv = int8(y)\n\t}\n\tif p && q {\n\t\tv = s\n\t}\n\tswitch v.(type) {\n\tcase string:\n\t\treturn v.(string) + \"!\"\n\tcase int, int8:\n\t\treturn fmt.Sprint(v.(int))\n\t}\n\treturn nil",   // several types in one clause: x is not narrowed there
		"var v any = x\n\tif q {\n\t\tv = int8(y)\n\t}\n\tswitch v.(type) {\n\tcase string:\n\t\treturn len(v.(string))\n\tcase int8, int:\n\t\treturn v.(int) * 2\n\tdefault:\n\t\treturn fmt.Sprint(v)\n\t}",
	},
	"S1033": {
		"m := map[int]int{1: 1, 2: 2}\n\tif _, ok := m[next()]; ok {\n\t\tdelete(m, next())\n\t}\n\treturn fmt.Sprint(m)",
	},
	"S1001": {
		"src := []int{1, 2, 3}\n\tdst := make([]int, 2)\n\tfor i, v := range src {\n\t\tdst[i] = v\n\t}\n\treturn fmt.Sprint(dst)",
	},
	"S1018": {
		"bs := []int{1, 2, 3, 4, 5, 6}\n\tfor i := 0; i < x; i++ {\n\t\tbs[i] = bs[y+i]\n\t}\n\treturn fmt.Sprint(bs)",
	},
	"QF1005": {
		"return 1 / math.Pow(fx, 2)",   // parent binary expression with tighter / equal precedence
		"return fy / math.Pow(fx, 3)",
		"return -math.Pow(fx, 2) - math.Pow(fy, 2)",
		"return fmt.Sprint(math.Pow(fx, 2) * fy, []float64{1, 2}[int(math.Pow(1, 2))-1])",
		"return math.Pow(fx*1.1, 2)",   // x*y*x*y is not (x*y)*(x*y) in floating point
		"return math.Pow(fy*0.7, 3)",
		"return math.Pow(tf(1, fx), 2)", // side-effecting operand: must not be duplicated
	},
	"S1028": {
		"return errors.New(fmt.Sprintf(\"%d %v\", xsA...)).Error()",
	},
	"QF1011": {
		"var m int32 = 1 << uint(x&3)\n\tvar b NB = x < y || y < 3\n\tvar a int = x * 2\n\treturn fmt.Sprintf(\"%T %v %T %v %T\", m, m, b, b, a)",
		"var f float64 = 3 / 2\n\tvar u uint8 = 250 + 1<<uint(x&1)\n\tu += 10\n\treturn fmt.Sprintf(\"%T %v %T %v\", f, f/4, u, u)",
	},
	"QF1012": {
		"buf := &bytes.Buffer{}\n\tbuf.WriteString(fmt.Sprintf(\"%d %v\", xsA...))\n\tbuf.Write([]byte(fmt.Sprint(xsA...)))\n\treturn buf.String()",
		"mkw().Write([]byte(fmt.Sprintf(\"%d\", ti(1, x))))\n\treturn nil",
		"ws := map[int]valw{1: {&sink}}\n\tws[1].Write([]byte(fmt.Sprint(ti(1, x))))\n\treturn nil",
	},
}

type instance struct {
	fn, shape, src string
}

func buildAndRun(dir string) (map[string]string, string, error) {
	exe := filepath.Join(dir, "beh.exe")
	cmd := exec.Command("go", "build", "-o", exe, ".")
	cmd.Dir = dir
	cmd.Env = hx.GoEnv()
	if b, err := cmd.CombinedOutput(); err != nil {
		return nil, string(b), err
	}
	run := exec.Command(exe)
	run.Dir = dir
	b, err := run.Output()
	if err != nil {
		return nil, string(b), err
	}
	res := map[string]string{}
	for _, line := range strings.Split(string(b), "\n") {
		if i := strings.Index(line, " => "); i > 0 {
			res[line[:i]] = line[i+4:]
		}
	}
	return res, "", nil
}

// instanceOK type-checks one generated function together with the prelude, so that a generator slip
// (an instance that is not valid Go) drops that instance instead of breaking the whole module.
func instanceOK(header, text string) bool {
	fset := token.NewFileSet()
	pf, err1 := parser.ParseFile(fset, "prelude.go", prelude, 0)
	inf, err2 := parser.ParseFile(fset, "inst.go", header+text, 0)
	if err1 != nil || err2 != nil {
		return false
	}
	if srcImporter == nil {
		srcImporter = importer.ForCompiler(token.NewFileSet(), "source", nil)
	}
	ok := true
	conf := types.Config{Importer: srcImporter, Error: func(error) { ok = false }}
	conf.Check("beh", fset, []*ast.File{pf, inf}, nil)
	return ok
}

func runBehave(work string, rnd *hx.Rand, n int, only string, keep bool) {
	dir := filepath.Join(work, "beh")
	var insts []instance
	var src bytes.Buffer
	header := "package main\n\nimport (\n\t\"bytes\"\n\t\"errors\"\n\t\"fmt\"\n\t\"math\"\n\t\"strings\"\n)\n\nvar _ = bytes.Compare\nvar _ = errors.New\nvar _ = math.Pow\nvar _ = strings.Index\nvar _ = fmt.Sprint\n\n"
	src.WriteString(header)
	for _, sh := range shapes() {
		if only != "" && sh.name != only {
			continue
		}
		for k := 0; k < n; k++ {
			g := &gen{r: rnd.Fork()}
			fn := fmt.Sprintf("f%s_%d", sh.name, k)
			text := "func " + fn + sig + " {\n\t" + sh.body(g) + "\n}\n\n"
			if !instanceOK(header, text) {
				stat("behave_instances_dropped", 1)
				note("generator produced an invalid instance (dropped): %s", text)
				continue
			}
			insts = append(insts, instance{fn, sh.name, text})
			src.WriteString(text)
		}
		for k, body := range directed[sh.name] {
			fn := fmt.Sprintf("f%s_d%d", sh.name, k)
			text := "func " + fn + sig + " {\n\t" + body + "\n}\n\n"
			if !instanceOK(header, text) {
				stat("behave_instances_dropped", 1)
				note("directed instance is not valid Go (dropped): %s", text)
				continue
			}
			insts = append(insts, instance{fn, sh.name + "/directed", text})
			src.WriteString(text)
		}
	}
	var mainSrc bytes.Buffer
	mainSrc.WriteString("package main\n\nimport \"math\"\n\nvar _ = math.NaN\n\nfunc main() {\n")
	for _, in := range insts {
		for k, args := range inputs {
			fmt.Fprintf(&mainSrc, "\trun(\"%s/%d\", func() any { setg(%s); return %s(%s) })\n", in.fn, k, args, in.fn, args)
		}
	}
	mainSrc.WriteString("}\n")
	instPath := filepath.Join(dir, "inst.go")
	hx.WriteFile(filepath.Join(dir, "go.mod"), "module beh\n\ngo 1.22\n")
	hx.WriteFile(filepath.Join(dir, "prelude.go"), prelude)
	hx.WriteFile(instPath, src.String())
	hx.WriteFile(filepath.Join(dir, "main.go"), mainSrc.String())
	stat("behave_instances", len(insts))
	roundTripFile(instPath, src.Bytes())

	base, blog, err := buildAndRun(dir)
	if err != nil {
		note("behave: generated module does not build/run: %v %s", err, blog)
		stat("behave_generator_broken", 1)
		return
	}
	firstFix := len(out.Fixes)
	analyzeModule(work, modSpec{dir: dir, variant: "gen", patterns: []string{"."}, label: "behave"}, rnd.Fork())

	// function ranges of inst.go
	orig := src.Bytes()
	fset := token.NewFileSet()
	pf, err := parser.ParseFile(fset, instPath, orig, 0)
	if err != nil {
		note("behave: cannot parse generated file: %v", err)
		return
	}
	type rng struct {
		s, e int
		name string
	}
	var funcs []rng
	for _, d := range pf.Decls {
		if fd, ok := d.(*ast.FuncDecl); ok {
			funcs = append(funcs, rng{fset.Position(fd.Pos()).Offset, fset.Position(fd.End()).Offset, fd.Name.Name})
		}
	}
	funcOf := func(off int) string {
		for _, f := range funcs {
			if f.s <= off && off < f.e {
				return f.name
			}
		}
		return ""
	}
	shapeOf := map[string]instance{}
	for _, in := range insts {
		shapeOf[in.fn] = in
	}

	type cand struct {
		fix   *FixRec
		edits []hedit
		fn    string
	}
	var pending []cand
	for i := firstFix; i < len(out.Fixes); i++ {
		f := &out.Fixes[i]
		if f.File < 0 || out.Files[f.File].Path != instPath {
			continue
		}
		if !(strings.HasPrefix(f.Check, "S1") || strings.HasPrefix(f.Check, "QF1")) {
			continue
		}
		if _, ex := notEquivalenceByDesign[f.Check]; ex {
			stat("behave_exempt_by_design", 1)
			continue
		}
		if !f.Applied || !f.ParseOK || !f.TypeOK {
			stat("behave_fix_not_applicable", 1) // reported by the parse / type-check oracle
			continue
		}
		var es []hedit
		for _, e := range f.Edits {
			nb, _ := hex.DecodeString(e.NewHex)
			es = append(es, hedit{e.Start.Off, e.End.Off, nb})
		}
		fn := funcOf(es[0].s)
		if fn == "" {
			continue
		}
		pending = append(pending, cand{f, es, fn})
	}
	stat("behave_fixes", len(pending))
	round := 0
	for len(pending) > 0 && round < 12 {
		round++
		used := map[string]bool{}
		var now, later []cand
		for _, c := range pending {
			if used[c.fn] {
				later = append(later, c)
			} else {
				used[c.fn] = true
				now = append(now, c)
			}
		}
		pending = later
		var all []hedit
		for _, c := range now {
			all = append(all, c.edits...)
		}
		patched, ok, _ := applyEdits(orig, all)
		if !ok {
			note("behave: round %d: combined edits rejected", round)
			continue
		}
		rdir := filepath.Join(work, fmt.Sprintf("beh-r%d", round))
		hx.WriteFile(filepath.Join(rdir, "go.mod"), "module beh\n\ngo 1.22\n")
		hx.WriteFile(filepath.Join(rdir, "prelude.go"), prelude)
		hx.WriteFile(filepath.Join(rdir, "main.go"), mainSrc.String())
		hx.WriteFile(filepath.Join(rdir, "inst.go"), string(patched))
		after, blog, err := buildAndRun(rdir)
		stat("behave_rounds", 1)
		funcText := func(srcb []byte, name string) string {
			fs := token.NewFileSet()
			f, err := parser.ParseFile(fs, "inst.go", srcb, 0)
			if err != nil {
				return ""
			}
			for _, d := range f.Decls {
				if fd, ok := d.(*ast.FuncDecl); ok && fd.Name.Name == name {
					return string(srcb[fs.Position(fd.Pos()).Offset:fs.Position(fd.End()).Offset])
				}
			}
			return ""
		}
		for _, c := range now {
			rec := BehaveRec{Check: c.fix.Check, FixMsg: c.fix.FixMsg, Shape: shapeOf[c.fn].shape, Func: c.fn}
			if err != nil {
				rec.Status = "build-failed"
				rec.After = blog
				if len(rec.After) > 600 {
					rec.After = rec.After[:600]
				}
				rec.Source = shapeOf[c.fn].src
				rec.Patched = funcText(patched, c.fn)
			} else {
				rec.Equal, rec.Status = true, "equal"
				var keys []string
				for k := range base {
					if strings.HasPrefix(k, c.fn+"/") {
						keys = append(keys, k)
					}
				}
				sort.Strings(keys)
				for _, k := range keys {
					if base[k] != after[k] {
						rec.Equal, rec.Status = false, "differs"
						idx := k[strings.LastIndex(k, "/")+1:]
						var ii int
						fmt.Sscan(idx, &ii)
						rec.Before = "args(" + inputs[ii] + ") => " + base[k]
						rec.After = "args(" + inputs[ii] + ") => " + after[k]
						rec.Source = shapeOf[c.fn].src
						rec.Patched = funcText(patched, c.fn)
						break
					}
				}
				stat("behave_executions", 2*len(keys))
			}
			if rec.Status == "equal" && keep {
				rec.Source = shapeOf[c.fn].src
			}
			out.Behave = append(out.Behave, rec)
		}
	}
	if len(pending) > 0 {
		stat("behave_fixes_not_run", len(pending))
	}
}
