// hc16: for property C16 (problems point at real locations; fixes apply cleanly, keep behaviour).
//
//	-mode corpus : every check's testdata packages (merged into scratch modules per Go version), some
//	               packages of the repository, and semantics-preserving variants (CRLF, redundant
//	               parentheses, comments / line breaks inside expressions, renamed imports) are analysed
//	               through the real runner; every diagnostic and every suggested fix is written out
//	               (positions, edits, the harness-applied result, parse and type-check verdicts).
//	-mode behave : generated executable instances of the trigger shapes of the simplification and
//	               quick-fix checks (random side-effecting sub-expressions logging to a trace) are
//	               compiled and run before and after applying each fix; outputs must be equal.
package main

import (
	"flag"
	"fmt"
	"os"

	"verifharness/hx"
)

type Output struct {
	Files  []FileRec
	Diags  []DiagRec
	Fixes  []FixRec
	Behave []BehaveRec
	RoundTrip []RTRec
	Stats  map[string]int
	Notes  []string
}

var out Output

func stat(k string, n int) {
	if out.Stats == nil {
		out.Stats = map[string]int{}
	}
	out.Stats[k] += n
}

func note(format string, a ...any) {
	out.Notes = append(out.Notes, fmt.Sprintf(format, a...))
}

func main() {
	work := flag.String("work", "", "scratch directory (outside /repo and /verif)")
	outp := flag.String("out", "", "output JSON")
	seed := flag.Uint64("seed", 1, "seed")
	mode := flag.String("mode", "corpus", "corpus | behave")
	repo := flag.String("repo", "/repo", "repository root")
	variants := flag.String("variants", "orig,crlf,parens,comments,imports", "variants of the testdata corpus")
	repopkgs := flag.String("repopkgs", "./pattern,./analysis/edit,./analysis/report", "packages of the repository to analyse (comma separated, empty = none)")
	ninst := flag.Int("n", 6, "behave: instances per trigger shape")
	only := flag.String("only", "", "behave: only this shape / corpus: only testdata dirs containing this string")
	vfrac := flag.Int("vfrac", 35, "corpus: percent of the fix-offering checks' testdata dirs taken per variant kind")
	vers := flag.String("vers", "", "corpus: only testdata of this Go version directory (e.g. go1.0), or all but it with a leading !")
	cacheFlag := flag.String("cache", "", "analysis cache directory shared by the parallel jobs of ONE check run (fresh per run; default: <work>/cache)")
	keep := flag.Bool("keep", false, "keep generated sources in the output (for replay)")
	flag.Parse()
	if *work == "" || *outp == "" {
		fmt.Fprintln(os.Stderr, "need -work and -out")
		os.Exit(2)
	}
	os.Setenv("VERIF_REPO", *repo)
	hx.GoEnv()
	rnd := hx.NewRand(*seed)
	sharedCache = *cacheFlag
	switch *mode {
	case "corpus":
		runCorpus(*repo, *work, rnd, *variants, *repopkgs, *only, *vfrac, *vers)
	case "behave":
		runBehave(*work, rnd, *ninst, *only, *keep)
	default:
		fmt.Fprintln(os.Stderr, "unknown mode")
		os.Exit(2)
	}
	hx.EmitJSON(*outp, &out)
}
