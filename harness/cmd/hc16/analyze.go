package main

import (
	"bytes"
	"encoding/hex"
	"fmt"
	"go/ast"
	"go/importer"
	"go/parser"
	"go/token"
	"go/types"
	"os"
	"path/filepath"
	"regexp"
	"sort"
	"strconv"
	"strings"
	"time"

	"golang.org/x/tools/go/analysis"
	"golang.org/x/tools/go/packages"
	"honnef.co/go/tools/config"
	"honnef.co/go/tools/lintcmd/cache"
	"honnef.co/go/tools/lintcmd/runner"
	"honnef.co/go/tools/quickfix"
	"honnef.co/go/tools/simple"
	"honnef.co/go/tools/staticcheck"
	"honnef.co/go/tools/stylecheck"
	"verifharness/hx"
)

type Pos struct{ Line, Col, Off int }

type FileRec struct {
	Path    string
	Variant string
	Hex     string
	LineDir bool // contains a //line or /*line directive: positions exempt
}

type DiagRec struct {
	File    int // index into Files, -1: not a file of the analysed package / unknown
	Check   string
	Msg     string
	Kind    string // "diag" | "related"
	Pos     Pos
	HasEnd  bool
	EndSame bool
	End     Pos
	Variant string
	Exempt  bool   // //line-remapped file
	PosFile string // file named by the position
	Pkg     string
}

type EditRec struct {
	Start, End Pos
	NewHex     string
}

type FixRec struct {
	Diag    int
	Alt     int
	Check   string
	FixMsg  string
	File    int
	OneFile bool
	Edits   []EditRec // shuffled
	// the harness's own application of the edits
	Applied   bool
	Prefix    int
	MiddleHex string
	Suffix    int
	SameInsert bool
	// oracles
	ParseOK     bool
	ParseErr    string
	TypeOK      bool
	TypeErr     string
	TypeSkipped string
	Variant     string
	Exempt      bool
	Patched     string `json:",omitempty"` // patched source (kept only when an oracle fails)
}

func allAnalyzers() []*analysis.Analyzer {
	var as []*analysis.Analyzer
	for _, a := range simple.Analyzers {
		as = append(as, a.Analyzer)
	}
	for _, a := range staticcheck.Analyzers {
		as = append(as, a.Analyzer)
	}
	for _, a := range stylecheck.Analyzers {
		as = append(as, a.Analyzer)
	}
	for _, a := range quickfix.Analyzers {
		as = append(as, a.Analyzer)
	}
	return as
}

func runRunner(dir, cacheDir string, analyzers []*analysis.Analyzer, env []string, patterns ...string) ([]runner.Result, error) {
	if err := os.MkdirAll(cacheDir, 0o777); err != nil {
		return nil, err
	}
	c, err := cache.Open(cacheDir)
	if err != nil {
		return nil, err
	}
	r, err := runner.New(config.DefaultConfig, c)
	if err != nil {
		return nil, err
	}
	r.GoVersion = "module"
	pcfg := &packages.Config{Dir: dir, Tests: true, Env: append(hx.GoEnv(), env...)}
	res, err := r.Run(pcfg, analyzers, patterns)
	if err != nil {
		return nil, err
	}
	sort.Slice(res, func(i, j int) bool { return res[i].Package.ID < res[j].Package.ID })
	return res, nil
}

var sharedCache string
var fileIdx = map[string]int{}
var lineDirRe = regexp.MustCompile(`(?m)(^|\n)\s*(//line |/\*line )`)

func fileIndex(path, variant string) int {
	if i, ok := fileIdx[path]; ok {
		return i
	}
	b, err := os.ReadFile(path)
	if err != nil {
		fileIdx[path] = -1
		return -1
	}
	out.Files = append(out.Files, FileRec{Path: path, Variant: variant, Hex: hex.EncodeToString(b), LineDir: lineDirRe.Match(b)})
	fileIdx[path] = len(out.Files) - 1
	return len(out.Files) - 1
}

var lineDirCache = map[string]bool{}

// fileIndexQuiet reports whether the file contains a line directive (without registering the file).
func fileIndexQuiet(path string) bool {
	if v, ok := lineDirCache[path]; ok {
		return v
	}
	b, err := os.ReadFile(path)
	v := err == nil && lineDirRe.Match(b)
	lineDirCache[path] = v
	return v
}

func fileBytes(i int) []byte {
	b, _ := hex.DecodeString(out.Files[i].Hex)
	return b
}

func mkPos(p token.Position) Pos { return Pos{p.Line, p.Column, p.Offset} }

// ---------------------------------------------------------------- the harness's own edit applier

type hedit struct {
	s, e int
	text []byte
}

func applyEdits(src []byte, es []hedit) ([]byte, bool, bool) {
	es = append([]hedit(nil), es...)
	sort.SliceStable(es, func(i, j int) bool {
		if es[i].s != es[j].s {
			return es[i].s < es[j].s
		}
		return es[i].e < es[j].e
	})
	sameInsert := false
	cur := 0
	var buf bytes.Buffer
	for i, e := range es {
		if e.s < cur || e.e < e.s || e.e > len(src) {
			return nil, false, sameInsert
		}
		if i > 0 && es[i-1].s == e.s && es[i-1].e == e.e && e.s == e.e {
			sameInsert = true
		}
		buf.Write(src[cur:e.s])
		buf.Write(e.text)
		cur = e.e
	}
	buf.Write(src[cur:])
	return buf.Bytes(), true, sameInsert
}

func trimCommon(orig, res []byte) (prefix int, middle []byte, suffix int) {
	for prefix < len(orig) && prefix < len(res) && orig[prefix] == res[prefix] {
		prefix++
	}
	for suffix < len(orig)-prefix && suffix < len(res)-prefix && orig[len(orig)-1-suffix] == res[len(res)-1-suffix] {
		suffix++
	}
	return prefix, res[prefix : len(res)-suffix], suffix
}

// ---------------------------------------------------------------- type-checking a patched package

type loaded struct {
	pkgs   []*packages.Package
	byFile map[string]*packages.Package // the package (largest variant) holding each file
	err    error
}

func loadTyped(dir string, env []string, patterns []string) *loaded {
	cfg := &packages.Config{
		Mode: packages.NeedName | packages.NeedFiles | packages.NeedCompiledGoFiles | packages.NeedImports |
			packages.NeedTypes | packages.NeedSyntax | packages.NeedTypesInfo | packages.NeedTypesSizes | packages.NeedModule,
		Dir: dir, Tests: true, Env: append(hx.GoEnv(), env...),
	}
	pkgs, err := packages.Load(cfg, patterns...)
	l := &loaded{pkgs: pkgs, byFile: map[string]*packages.Package{}, err: err}
	for _, p := range pkgs {
		for _, f := range p.CompiledGoFiles {
			if q, ok := l.byFile[f]; !ok || len(p.CompiledGoFiles) > len(q.CompiledGoFiles) {
				l.byFile[f] = p
			}
		}
	}
	return l
}

var srcImporter types.Importer

type mapImporter struct {
	pkg *packages.Package
}

func (m mapImporter) Import(path string) (*types.Package, error) {
	if path == "unsafe" {
		return types.Unsafe, nil
	}
	if ip, ok := m.pkg.Imports[path]; ok && ip.Types != nil {
		return ip.Types, nil
	}
	if srcImporter == nil {
		srcImporter = importer.ForCompiler(token.NewFileSet(), "source", nil)
	}
	return srcImporter.Import(path)
}

// packages that replacement text may newly refer to, by the identifier used for them
var knownPkgs = map[string]string{
	"strings": "strings", "bytes": "bytes", "fmt": "fmt", "http": "net/http", "errors": "errors", "time": "time",
	"sort": "sort", "slices": "slices", "maps": "maps", "strconv": "strconv", "math": "math", "os": "os", "io": "io",
	"utf8": "unicode/utf8", "unicode": "unicode", "filepath": "path/filepath", "reflect": "reflect", "sync": "sync",
	"atomic": "sync/atomic", "context": "context", "regexp": "regexp", "url": "net/url", "bits": "math/bits",
	"binary": "encoding/binary", "json": "encoding/json", "rand": "math/rand", "syscall": "syscall", "signal": "os/signal",
	"exec": "os/exec", "ioutil": "io/ioutil", "template": "text/template", "net": "net", "log": "log", "cmp": "cmp",
}

var undefRe = regexp.MustCompile(`^undefined: ([A-Za-z_][A-Za-z0-9_]*)$`)

// adjustImports drops the import specs of f whose name is not used as a qualifier any more.
func dropUnusedImports(f *ast.File, nameOf func(path string) string) {
	used := map[string]bool{}
	ast.Inspect(f, func(n ast.Node) bool {
		if sel, ok := n.(*ast.SelectorExpr); ok {
			if id, ok := sel.X.(*ast.Ident); ok {
				used[id.Name] = true
			}
		}
		return true
	})
	keep := func(spec *ast.ImportSpec) bool {
		path, _ := strconv.Unquote(spec.Path.Value)
		if path == "C" {
			return true
		}
		name := ""
		if spec.Name != nil {
			name = spec.Name.Name
		} else {
			name = nameOf(path)
		}
		if name == "_" || name == "." {
			return true
		}
		return used[name]
	}
	for _, d := range f.Decls {
		gd, ok := d.(*ast.GenDecl)
		if !ok || gd.Tok != token.IMPORT {
			continue
		}
		var specs []ast.Spec
		for _, s := range gd.Specs {
			if keep(s.(*ast.ImportSpec)) {
				specs = append(specs, s)
			}
		}
		gd.Specs = specs
	}
	var imps []*ast.ImportSpec
	for _, s := range f.Imports {
		if keep(s) {
			imps = append(imps, s)
		}
	}
	f.Imports = imps
	// remove empty import declarations
	var decls []ast.Decl
	for _, d := range f.Decls {
		if gd, ok := d.(*ast.GenDecl); ok && gd.Tok == token.IMPORT && len(gd.Specs) == 0 {
			continue
		}
		decls = append(decls, d)
	}
	f.Decls = decls
}

func addImport(f *ast.File, path string) {
	spec := &ast.ImportSpec{Path: &ast.BasicLit{Kind: token.STRING, Value: strconv.Quote(path), ValuePos: f.Name.End()}}
	gd := &ast.GenDecl{Tok: token.IMPORT, TokPos: f.Name.End(), Specs: []ast.Spec{spec}}
	f.Decls = append([]ast.Decl{gd}, f.Decls...)
	f.Imports = append(f.Imports, spec)
}

func goVersionOf(p *packages.Package) string {
	if p.Module != nil && p.Module.GoVersion != "" {
		return "go" + p.Module.GoVersion
	}
	return ""
}

// typecheckPatched type-checks p with file `path` replaced by src, after import adjustment.
func typecheckPatched(p *packages.Package, path string, src []byte) (ok bool, errText string, skipped string) {
	if len(p.Errors) > 0 {
		return false, "", "package has errors before the fix: " + p.Errors[0].Msg
	}
	fset := token.NewFileSet()
	var files []*ast.File
	var patched *ast.File
	for i, fn := range p.CompiledGoFiles {
		if fn == path {
			f, err := parser.ParseFile(fset, fn, src, parser.ParseComments|parser.SkipObjectResolution)
			if err != nil {
				return false, "parse: " + err.Error(), ""
			}
			patched = f
			files = append(files, f)
		} else {
			// re-parse from disk: files must live in one FileSet
			f, err := parser.ParseFile(fset, fn, nil, parser.ParseComments|parser.SkipObjectResolution)
			if err != nil {
				return false, "", "cannot re-parse " + fn
			}
			_ = i
			files = append(files, f)
		}
	}
	if patched == nil {
		return false, "", "file not among the package's compiled files"
	}
	nameOf := func(ip string) string {
		if q, ok := p.Imports[ip]; ok && q.Name != "" {
			return q.Name
		}
		base := ip[strings.LastIndex(ip, "/")+1:]
		return base
	}
	dropUnusedImports(patched, nameOf)
	var lastErrs []string
	for round := 0; round < 4; round++ {
		var errs []types.Error
		conf := types.Config{
			Importer:  mapImporter{p},
			GoVersion: goVersionOf(p),
			Sizes:     p.TypesSizes,
			Error: func(err error) {
				if te, ok := err.(types.Error); ok {
					errs = append(errs, te)
				}
			},
		}
		conf.Check(p.PkgPath, fset, files, nil)
		if len(errs) == 0 {
			return true, "", ""
		}
		lastErrs = nil
		added := false
		for _, e := range errs {
			lastErrs = append(lastErrs, fset.Position(e.Pos).String()+": "+e.Msg)
			if m := undefRe.FindStringSubmatch(e.Msg); m != nil && fset.Position(e.Pos).Filename == path {
				if ip, ok := knownPkgs[m[1]]; ok {
					already := false
					for _, s := range patched.Imports {
						if s.Path.Value == strconv.Quote(ip) && s.Name == nil {
							already = true
						}
					}
					if !already {
						addImport(patched, ip)
						added = true
					}
				}
			}
		}
		if !added {
			break
		}
	}
	if len(lastErrs) > 3 {
		lastErrs = lastErrs[:3]
	}
	return false, strings.Join(lastErrs, " | "), ""
}

// ---------------------------------------------------------------- one module through the runner

type modSpec struct {
	dir      string
	variant  string
	env      []string
	patterns []string
	label    string
}


func analyzeModule(work string, m modSpec, rnd *hx.Rand) {
	// one cache per harness run (fresh, under the scratch directory): the standard library is analysed once,
	// and nothing survives into the next run (a changed analyzer must never see stale results)
	cacheDir := filepath.Join(work, "cache")
	if sharedCache != "" {
		cacheDir = sharedCache
	}
	t0 := time.Now()
	defer func() { fmt.Fprintf(os.Stderr, "hc16: %s/%s %.1fs\n", m.variant, m.label, time.Since(t0).Seconds()) }()
	res, err := runRunner(m.dir, cacheDir, allAnalyzers(), m.env, m.patterns...)
	if err != nil {
		note("runner failed on %s (%s): %v", m.label, m.variant, err)
		stat("modules_failed", 1)
		return
	}
	stat("modules", 1)
	var typed *loaded
	for _, r := range res {
		if !r.Initial {
			continue
		}
		if r.Failed {
			stat("packages_failed:"+m.variant, 1)
			if len(r.Errors) > 0 && len(out.Notes) < 40 {
				note("package %s (%s) failed: %v", r.Package.ID, m.variant, r.Errors[0])
			}
			continue
		}
		stat("packages:"+m.variant, 1)
		data, err := r.Load()
		if err != nil {
			note("load results of %s: %v", r.Package.ID, err)
			continue
		}
		inPkg := map[string]bool{}
		for _, f := range r.Package.GoFiles {
			inPkg[f] = true
		}
		for _, f := range r.Package.CompiledGoFiles {
			inPkg[f] = true
		}
		// a //line directive in any file of the package can remap positions into any file name: the whole
		// package is exempt from position checks (the property sets remapped positions aside)
		pkgLineDir := false
		for f := range inPkg {
			if fileIndexQuiet(f) {
				pkgLineDir = true
			}
		}
		for _, d := range data.Diagnostics {
			addDiag := func(kind string, pos, end token.Position, msg string) int {
				rec := DiagRec{File: -1, Check: d.Category, Msg: msg, Kind: kind, Pos: mkPos(pos), Variant: m.variant, PosFile: pos.Filename, Pkg: r.Package.ID}
				if inPkg[pos.Filename] {
					rec.File = fileIndex(pos.Filename, m.variant)
				}
				if pkgLineDir {
					rec.Exempt = true
				}
				if end.Line != 0 || end.Filename != "" {
					rec.HasEnd = true
					rec.EndSame = end.Filename == pos.Filename
					rec.End = mkPos(end)
				}
				out.Diags = append(out.Diags, rec)
				return len(out.Diags) - 1
			}
			di := addDiag("diag", d.Position, d.End, d.Message)
			for _, rel := range d.Related {
				addDiag("related", rel.Position, rel.End, rel.Message)
			}
			for alt, fix := range d.SuggestedFixes {
				fr := FixRec{Diag: di, Alt: alt, Check: d.Category, FixMsg: fix.Message, File: -1, OneFile: true, Variant: m.variant}
				fname := ""
				var hes []hedit
				for _, e := range fix.TextEdits {
					end := e.End
					if end.Line == 0 && end.Filename == "" {
						end = e.Position // no end: an insertion
						stat("edits_without_end", 1)
					}
					if fname == "" {
						fname = e.Position.Filename
					}
					if e.Position.Filename != fname || end.Filename != fname {
						fr.OneFile = false
					}
					fr.Edits = append(fr.Edits, EditRec{Start: mkPos(e.Position), End: mkPos(end), NewHex: hex.EncodeToString(e.NewText)})
					hes = append(hes, hedit{e.Position.Offset, end.Offset, e.NewText})
				}
				if len(fix.TextEdits) == 0 {
					stat("fixes_without_edits", 1)
					continue
				}
				if inPkg[fname] {
					fr.File = fileIndex(fname, m.variant)
				} else {
					fr.OneFile = false
				}
				if fr.File >= 0 && fr.OneFile {
					fr.Exempt = pkgLineDir
					src := fileBytes(fr.File)
					patched, ok, same := applyEdits(src, hes)
					fr.Applied, fr.SameInsert = ok, same
					if !same {
						// the model gets the edits in a shuffled order (apply_perm_invariant); several insertions at
						// one offset are order-sensitive by definition and keep the order the analyzer gave
						for i := len(fr.Edits) - 1; i > 0; i-- {
							j := rnd.Intn(i + 1)
							fr.Edits[i], fr.Edits[j] = fr.Edits[j], fr.Edits[i]
						}
					} else {
						stat("fixes_with_insertions_at_one_offset", 1)
					}
					if ok {
						var mid []byte
						fr.Prefix, mid, fr.Suffix = trimCommon(src, patched)
						fr.MiddleHex = hex.EncodeToString(mid)
						_, perr := parser.ParseFile(token.NewFileSet(), fname, patched, parser.AllErrors|parser.ParseComments)
						fr.ParseOK = perr == nil
						if perr != nil {
							fr.ParseErr = perr.Error()
						} else {
							if typed == nil {
								typed = loadTyped(m.dir, m.env, m.patterns)
							}
							if p := typed.byFile[fname]; p != nil {
								fr.TypeOK, fr.TypeErr, fr.TypeSkipped = typecheckPatched(p, fname, patched)
							} else {
								fr.TypeSkipped = "package not loaded for type-checking"
							}
						}
						if !fr.ParseOK || (!fr.TypeOK && fr.TypeSkipped == "") {
							fr.Patched = string(patched)
						}
					}
				}
				out.Fixes = append(out.Fixes, fr)
			}
		}
	}
}
