// Generators: Go syntax trees (from generated source text parsed by go/parser) and patterns derived
// from a target tree ("patternize") and then mutated so that alternatives fail after binding, names
// are reused across branches, Not operands bind before failing, and both Binding spellings occur.
package main

import (
	"fmt"
	"go/ast"
	"go/parser"
	"go/printer"
	"go/token"
	"reflect"
	"strings"

	"honnef.co/go/tools/pattern"
	"verifharness/hx"
)

// ---------------------------------------------------------------- Go source

type srcGen struct{ r *hx.Rand }

var idents = []string{"a", "b", "c", "x", "f", "g"}

func (g *srcGen) ident() string { return idents[g.r.Intn(len(idents))] }

func (g *srcGen) expr(d int) string {
	if d <= 0 {
		switch g.r.Intn(6) {
		case 0:
			return "1"
		case 1:
			return `"s"`
		default:
			return g.ident()
		}
	}
	switch g.r.Intn(16) {
	case 0, 1, 2:
		ops := []string{"+", "-", "*", "==", "&&", "<", "!="}
		return g.expr(d-1) + " " + ops[g.r.Intn(len(ops))] + " " + g.expr(d-1)
	case 3:
		// deliberately equal operands: recall of a bound name can succeed
		e := g.expr(d - 1)
		return e + " + " + e
	case 4:
		return "-" + g.expr(d-1)
	case 5, 6:
		n := g.r.Intn(3)
		var args []string
		for i := 0; i < n; i++ {
			args = append(args, g.expr(d-1))
		}
		return g.ident() + "(" + strings.Join(args, ", ") + ")"
	case 7:
		return "(" + g.expr(d-1) + ")"
	case 8:
		return g.ident() + "." + g.ident()
	case 9:
		return g.ident() + "[" + g.expr(d-1) + "]"
	case 10:
		return g.ident() + "[" + g.expr(d-1) + ":" + g.expr(d-1) + "]"
	case 11:
		return "T{" + g.expr(d-1) + ", " + g.expr(d-1) + "}"
	case 12:
		return "*" + g.ident()
	case 13:
		return "!" + g.ident()
	case 14:
		e := g.expr(d - 1)
		return "f(" + e + ") == f((" + e + "))"
	default:
		return g.ident()
	}
}

func (g *srcGen) block(d int) string {
	n := g.r.Intn(3)
	var b strings.Builder
	b.WriteString("{\n")
	for i := 0; i < n; i++ {
		b.WriteString(g.stmt(d))
		b.WriteString("\n")
	}
	b.WriteString("}")
	return b.String()
}

func (g *srcGen) stmt(d int) string {
	if d <= 0 {
		return g.ident() + " = " + g.expr(0)
	}
	switch g.r.Intn(18) {
	case 0, 1:
		return g.ident() + " = " + g.expr(d-1)
	case 2:
		return g.ident() + " := " + g.expr(d-1)
	case 3:
		x, y := g.ident(), g.ident()
		return x + ", " + y + " = " + y + ", " + x
	case 4:
		return g.ident() + "++"
	case 5:
		return g.expr(d-1) + "\n"
	case 6:
		return "if " + g.expr(d-1) + " " + g.block(d-1)
	case 7:
		return "if " + g.expr(d-1) + " " + g.block(d-1) + " else " + g.block(d-1)
	case 8:
		return "if " + g.ident() + " := " + g.expr(d-1) + "; " + g.expr(d-1) + " " + g.block(d-1)
	case 9:
		return "for " + g.expr(d-1) + " " + g.block(d-1)
	case 10:
		return "for " + g.ident() + ", " + g.ident() + " := range " + g.ident() + " " + g.block(d-1)
	case 11:
		return "return " + g.expr(d-1)
	case 12:
		return "return"
	case 13:
		return g.block(d - 1)
	case 14:
		return "var " + g.ident() + " int = " + g.expr(d-1)
	case 15:
		return "go " + g.ident() + "(" + g.expr(d-1) + ")"
	case 16:
		return "switch " + g.ident() + " {\ncase " + g.expr(d-1) + ":\n" + g.stmt(d-1) + "\ndefault:\n}"
	default:
		return g.ident() + " <- " + g.expr(d-1)
	}
}

// file returns a small source file with declarations of several kinds and one generated function body.
func (g *srcGen) file() string {
	var b strings.Builder
	b.WriteString("package p\n\nimport q \"fmt\"\n\n")
	b.WriteString("type T struct {\n\ta, b int\n\tc string `k`\n}\n\n")
	b.WriteString("type I interface{ M(x int) (r int) }\n\n")
	b.WriteString("func ext(x int) int\n\n")
	b.WriteString("func (t T) M(x int) (r int) {\n")
	n := 2 + g.r.Intn(4)
	for i := 0; i < n; i++ {
		b.WriteString(g.stmt(3))
		b.WriteString("\n")
	}
	b.WriteString("L:\n\tfor {\n\t\tbreak L\n\t}\n\tbreak\n")
	b.WriteString("}\n")
	return b.String()
}

// parseNodes parses src and returns every node of the file in preorder (without the File itself and
// without comments).
func parseNodes(fset *token.FileSet, src string) ([]ast.Node, error) {
	f, err := parser.ParseFile(fset, "p.go", src, parser.SkipObjectResolution)
	if err != nil {
		return nil, err
	}
	var nodes []ast.Node
	ast.Inspect(f, func(n ast.Node) bool {
		if n == nil || n == ast.Node(f) {
			return true
		}
		switch n.(type) {
		case *ast.Comment, *ast.CommentGroup:
			return false
		}
		nodes = append(nodes, n)
		return true
	})
	return nodes, nil
}

func nodeSrc(fset *token.FileSet, n ast.Node) string {
	var b strings.Builder
	printer.Fprint(&b, fset, n)
	s := b.String()
	s = strings.Join(strings.Fields(s), " ")
	if len(s) > 160 {
		s = s[:160] + "..."
	}
	return s
}

// ---------------------------------------------------------------- pattern IR

type P struct {
	Kind     string // node, bind, any, nil, str, list, cons, or, not
	Name     string // node type / binding name / string value
	Sub      []*P
	Explicit bool // bind: (Binding "n" sub) rather than n@sub / n
}

func (p *P) parenForm() bool {
	switch p.Kind {
	case "node", "or", "not":
		return true
	case "bind":
		return p.Explicit
	}
	return false
}

// print renders the pattern; flip toggles the spelling of every binding where the grammar allows it.
func (p *P) print(flip bool) string {
	switch p.Kind {
	case "any":
		return "_"
	case "nil":
		return "nil"
	case "str":
		return fmt.Sprintf("%q", p.Name)
	case "node", "or", "not":
		parts := []string{p.Name}
		for _, s := range p.Sub {
			parts = append(parts, s.print(flip))
		}
		return "(" + strings.Join(parts, " ") + ")"
	case "list":
		var parts []string
		for _, s := range p.Sub {
			parts = append(parts, s.print(flip))
		}
		return "[" + strings.Join(parts, " ") + "]"
	case "cons":
		return p.Sub[0].print(flip) + ":" + p.Sub[1].print(flip)
	case "bind":
		explicit := p.Explicit != flip
		if len(p.Sub) == 0 {
			if explicit {
				return fmt.Sprintf("(Binding %q nil)", p.Name)
			}
			return p.Name
		}
		sub := p.Sub[0]
		// n@sub needs sub to be a parenthesised node in the source text
		if !explicit && !sub.parenFormPrinted(flip) {
			explicit = true
		}
		if explicit {
			return fmt.Sprintf("(Binding %q %s)", p.Name, sub.print(flip))
		}
		return p.Name + "@" + sub.print(flip)
	}
	panic("bad kind " + p.Kind)
}

func (p *P) parenFormPrinted(flip bool) bool {
	if p.Kind == "bind" {
		explicit := p.Explicit != flip
		if len(p.Sub) == 0 {
			return explicit
		}
		if !explicit && !p.Sub[0].parenFormPrinted(flip) {
			explicit = true
		}
		return explicit
	}
	return p.parenForm()
}

// consHeadOK: the parser only looks for ':' after a node, a variable(-binding) or '_'.
func (p *P) consHeadOK() bool {
	switch p.Kind {
	case "node", "or", "not", "any", "bind":
		return true
	}
	return false
}

// ---------------------------------------------------------------- patternize

var patStructs = map[string]reflect.Type{}

func init() {
	for _, n := range []pattern.Node{
		pattern.RangeStmt{}, pattern.AssignStmt{}, pattern.IndexExpr{}, pattern.Ident{}, pattern.ValueSpec{},
		pattern.GenDecl{}, pattern.BinaryExpr{}, pattern.ForStmt{}, pattern.ArrayType{}, pattern.DeferStmt{},
		pattern.MapType{}, pattern.ReturnStmt{}, pattern.SliceExpr{}, pattern.StarExpr{}, pattern.UnaryExpr{},
		pattern.SendStmt{}, pattern.SelectStmt{}, pattern.ImportSpec{}, pattern.IfStmt{}, pattern.GoStmt{},
		pattern.Field{}, pattern.SelectorExpr{}, pattern.StructType{}, pattern.KeyValueExpr{}, pattern.FuncType{},
		pattern.FuncLit{}, pattern.FuncDecl{}, pattern.ChanType{}, pattern.CallExpr{}, pattern.CaseClause{},
		pattern.CommClause{}, pattern.CompositeLit{}, pattern.EmptyStmt{}, pattern.SwitchStmt{},
		pattern.TypeSwitchStmt{}, pattern.TypeAssertExpr{}, pattern.TypeSpec{}, pattern.InterfaceType{},
		pattern.BranchStmt{}, pattern.IncDecStmt{}, pattern.BasicLit{}, pattern.Ellipsis{},
	} {
		patStructs[reflect.TypeOf(n).Name()] = reflect.TypeOf(n)
	}
}

var tokStrings = map[token.Token]string{}

func init() {
	for _, s := range []string{"INT", "FLOAT", "IMAG", "CHAR", "STRING", "+", "-", "*", "/", "%", "&", "|", "^", "<<", ">>", "&^",
		"+=", "-=", "*=", "/=", "%=", "&=", "|=", "^=", "<<=", ">>=", "&^=", "&&", "||", "<-", "++", "--", "==", "<", ">", "=", "!",
		"!=", "<=", ">=", ":=", "...", "IMPORT", "VAR", "TYPE", "CONST", "BREAK", "CONTINUE", "GOTO", "FALLTHROUGH"} {
		// resolve through the parser-independent public behaviour: a String pattern matches the token it names
		for t := token.ILLEGAL; t <= token.TILDE; t++ {
			if strings.EqualFold(t.String(), s) {
				tokStrings[t] = s
			}
		}
	}
}

type patGen struct {
	r        *hx.Rand
	names    []string
	fset     *token.FileSet
	bound    map[string]string // name -> source text of the subtree it was bound to on the current path (approximate)
	nilBound []string          // names bound at an absent (nil) child on the current path
	noMut    int               // >0: produce the exact pattern
	allowDB  bool              // allow double binding with sub-pattern (malformed stream)
}

func (g *patGen) name() string { return g.names[g.r.Intn(len(g.names))] }

func plainSafe(s string) bool {
	for _, r := range s {
		if r < 32 || r >= 127 || r == '"' || r == '\\' {
			return false
		}
	}
	return true
}

// exact returns the pattern that spells out v completely (no mutation).
func (g *patGen) exact(v any) *P {
	g.noMut++
	defer func() { g.noMut-- }()
	return g.of(v, 0)
}

func isNilValue(v any) bool {
	if v == nil {
		return true
	}
	rv := reflect.ValueOf(v)
	switch rv.Kind() {
	case reflect.Pointer, reflect.Interface, reflect.Slice:
		return rv.IsNil()
	}
	return false
}

// of returns a pattern for the Go value v (a field value or a node) with random mutations.
// absent: the pattern for an absent child; sometimes a name (which binds nil) that a later, present child reuses
func (g *patGen) absent() *P {
	if g.noMut == 0 && g.r.Chance(25) {
		name := g.name()
		if _, dup := g.bound[name]; !dup {
			g.nilBound = append(g.nilBound, name)
			g.bound[name] = "<absent>"
			return &P{Kind: "bind", Name: name, Explicit: g.r.Chance(30)}
		}
	}
	return &P{Kind: "nil"}
}

func (g *patGen) of(v any, depth int) *P {
	if v == nil {
		return g.absent()
	}
	rv := reflect.ValueOf(v)
	switch rv.Kind() {
	case reflect.String:
		s := rv.String()
		if !plainSafe(s) {
			return &P{Kind: "any"}
		}
		return g.mutateLeaf(&P{Kind: "str", Name: s}, v)
	case reflect.Int:
		if t, ok := v.(token.Token); ok {
			if s, ok := tokStrings[t]; ok {
				return g.mutateLeaf(&P{Kind: "str", Name: s}, v)
			}
		}
		return &P{Kind: "any"}
	case reflect.Bool:
		return &P{Kind: "any"}
	case reflect.Slice:
		if rv.Type() != rtExprSlice && rv.Type() != rtStmtSlice && rv.Type() != rtFieldSlice {
			// []*ast.Ident, []ast.Spec, []ast.Decl: only list patterns and wildcards are meaningful
			if g.noMut == 0 && g.r.Chance(30) {
				return g.wild()
			}
		}
		n := rv.Len()
		var elems []*P
		for i := 0; i < n; i++ {
			elems = append(elems, g.of(rv.Index(i).Interface(), depth+1))
		}
		if g.noMut == 0 {
			if n == 1 && (rv.Type() == rtExprSlice || rv.Type() == rtStmtSlice || rv.Type() == rtFieldSlice) && g.r.Chance(40) {
				return elems[0] // a single node matches a list of exactly one element
			}
			if n >= 1 && g.r.Chance(25) {
				// head:tail forms
				k := 1 + g.r.Intn(n)
				var tail *P
				switch g.r.Intn(3) {
				case 0:
					tail = &P{Kind: "any"}
				case 1:
					tail = &P{Kind: "bind", Name: g.name()}
				default:
					tail = &P{Kind: "list", Sub: elems[k:]}
				}
				for i := k - 1; i >= 0; i-- {
					h := elems[i]
					if !h.consHeadOK() {
						h = &P{Kind: "any"}
					}
					tail = &P{Kind: "cons", Sub: []*P{h, tail}}
				}
				return tail
			}
			if g.r.Chance(5) {
				return g.wild()
			}
		}
		return &P{Kind: "list", Sub: elems}
	case reflect.Pointer:
		if rv.IsNil() {
			return g.absent()
		}
		n, ok := v.(ast.Node)
		if !ok {
			return &P{Kind: "any"}
		}
		return g.ofNode(n, depth)
	}
	return &P{Kind: "any"}
}

func (g *patGen) wild() *P {
	if g.r.Chance(50) {
		return &P{Kind: "any"}
	}
	return &P{Kind: "bind", Name: g.name(), Explicit: g.r.Chance(30)}
}

func (g *patGen) mutateLeaf(p *P, v any) *P {
	if g.noMut > 0 {
		return p
	}
	switch {
	case g.r.Chance(12):
		return g.wild()
	case g.r.Chance(4):
		return &P{Kind: "str", Name: p.Name + "_"} // mismatch
	case g.r.Chance(6):
		return &P{Kind: "or", Name: "Or", Sub: []*P{{Kind: "str", Name: "zz"}, p}}
	case g.r.Chance(4):
		return &P{Kind: "bind", Name: g.name(), Explicit: true, Sub: []*P{p}}
	}
	return p
}

func (g *patGen) ofNode(n ast.Node, depth int) *P {
	// transparent wrappers: the matcher unwraps them, the pattern language cannot name them
	switch w := n.(type) {
	case *ast.ParenExpr:
		return g.of(w.X, depth)
	case *ast.ExprStmt:
		return g.of(w.X, depth)
	case *ast.DeclStmt:
		return g.of(w.Decl, depth)
	case *ast.LabeledStmt:
		return g.of(w.Stmt, depth)
	case *ast.BlockStmt:
		return g.of(w.List, depth)
	case *ast.FieldList:
		return g.of(w.List, depth)
	}
	rv := reflect.ValueOf(n).Elem()
	T, ok := patStructs[rv.Type().Name()]
	if !ok {
		return &P{Kind: "any"}
	}
	build := func() *P {
		p := &P{Kind: "node", Name: T.Name()}
		for i := 0; i < T.NumField(); i++ {
			f := rv.FieldByName(T.Field(i).Name)
			p.Sub = append(p.Sub, g.of(f.Interface(), depth+1))
		}
		return p
	}
	if g.noMut > 0 {
		return build()
	}
	src := nodeSrc(g.fset, n)
	// reuse, at a present child, a name that was bound at an absent one (the recall must fail)
	if depth > 0 && len(g.nilBound) > 0 && g.r.Chance(15) {
		return &P{Kind: "bind", Name: g.nilBound[g.r.Intn(len(g.nilBound))], Explicit: g.r.Chance(30)}
	}
	// recall an earlier binding of an equal subtree
	if depth > 0 {
		for name, s := range g.bound {
			if s == src && g.r.Chance(60) {
				return &P{Kind: "bind", Name: name, Explicit: g.r.Chance(30)}
			}
		}
	}
	switch {
	case depth > 0 && g.r.Chance(8):
		return g.wild()
	case g.r.Chance(14):
		// alternatives: failing ones first (they bind, then fail), or the matching one first
		good := build()
		var alts []*P
		k := 1 + g.r.Intn(2)
		for i := 0; i < k; i++ {
			alts = append(alts, g.failing(n, depth))
		}
		if g.r.Chance(75) {
			alts = append(alts, good)
		} else {
			alts = append([]*P{good}, alts...)
		}
		if g.r.Chance(8) {
			alts = alts[:len(alts)-1] // possibly no matching alternative at all
		}
		return &P{Kind: "or", Name: "Or", Sub: alts}
	case depth > 0 && g.r.Chance(6):
		// Not of a pattern that binds and then fails: succeeds, must not leak
		return &P{Kind: "not", Name: "Not", Sub: []*P{g.failing(n, depth)}}
	case depth > 0 && g.r.Chance(2):
		return &P{Kind: "not", Name: "Not", Sub: []*P{build()}} // operand matches: Not fails
	case g.r.Chance(16):
		name := g.name()
		if _, dup := g.bound[name]; dup && !g.allowDB {
			return build()
		}
		sub := build()
		g.bound[name] = src
		return &P{Kind: "bind", Name: name, Explicit: g.r.Chance(40), Sub: []*P{sub}}
	}
	return build()
}

// failing returns a pattern of the same node kind as n that binds a name in an early field and then
// fails in a later one. Bindings made inside do not count as established on the path.
func (g *patGen) failing(n ast.Node, depth int) *P {
	saved := g.bound
	g.bound = map[string]string{}
	for k, v := range saved {
		g.bound[k] = v
	}
	defer func() { g.bound = saved }()

	for {
		switch w := n.(type) {
		case *ast.ParenExpr:
			n = w.X
			continue
		case *ast.ExprStmt:
			n = w.X
			continue
		case *ast.LabeledStmt:
			n = w.Stmt
			continue
		}
		break
	}
	rv := reflect.ValueOf(n).Elem()
	T, ok := patStructs[rv.Type().Name()]
	if !ok || T.NumField() < 2 {
		// cannot both bind and fail inside: a plain mismatch
		return &P{Kind: "node", Name: "BasicLit", Sub: []*P{{Kind: "str", Name: "IMAG"}, {Kind: "any"}}}
	}
	p := &P{Kind: "node", Name: T.Name()}
	nf := T.NumField()
	failAt := 1 + g.r.Intn(nf-1)
	for i := 0; i < nf; i++ {
		f := rv.FieldByName(T.Field(i).Name).Interface()
		switch {
		case i < failAt:
			var sub *P
			if g.r.Chance(70) || isNilValue(f) {
				sub = &P{Kind: "bind", Name: g.name(), Explicit: g.r.Chance(40)}
			} else {
				inner := g.of(f, depth+1)
				if inner.Kind == "bind" {
					sub = inner
				} else {
					sub = &P{Kind: "bind", Name: g.name(), Explicit: g.r.Chance(40) || !inner.parenForm(), Sub: []*P{inner}}
				}
			}
			if sub.Kind == "bind" && len(sub.Sub) > 0 {
				if _, dup := g.bound[sub.Name]; dup && !g.allowDB {
					sub = &P{Kind: "any"}
				}
			}
			if g.r.Chance(20) {
				// the binding happens inside a nested, successful alternative
				sub = &P{Kind: "or", Name: "Or", Sub: []*P{sub}}
			}
			p.Sub = append(p.Sub, sub)
		case i == failAt:
			// a sub-pattern that cannot match this field
			if isNilValue(f) {
				p.Sub = append(p.Sub, &P{Kind: "str", Name: "nope"})
			} else if g.r.Chance(50) {
				p.Sub = append(p.Sub, &P{Kind: "nil"})
			} else {
				p.Sub = append(p.Sub, &P{Kind: "str", Name: "nope"})
			}
		default:
			p.Sub = append(p.Sub, &P{Kind: "any"})
		}
	}
	return p
}
