// hc09: runs the real pattern.Parser.Parse and pattern.Match on generated (pattern, Go syntax tree)
// pairs and emits, per case, the parsed pattern (with the bit index the parser assigned to every
// Binding), the tree, the success flag and the final Matcher.State as Gallina literals.
// Every pattern is also parsed in the other Binding spelling (name@pat <-> (Binding "name" pat)).
package main

import (
	"flag"
	"fmt"
	"go/ast"
	"go/token"
	"os"
	"strings"

	"honnef.co/go/tools/pattern"
	"verifharness/hx"
)

type Case struct {
	ID      int
	Kind    string // generated | directed | malformed
	Pattern string // pattern source text
	Flipped string // the same pattern with every binding in the other spelling ("" if identical)
	Src     string // Go source of the target node (abbreviated)
	NodeTy  string

	MapV  string // Pattern.Bindings
	PatV  string // parsed pattern
	TreeV string // target tree
	// observed on the implementation
	Outcome string // ok | fail | panic-rebound | panic-other
	Panic   string
	StateV  string

	FMapV, FPatV, FOutcome, FStateV string // same for the flipped spelling
	NBind                           int    // distinct names in the pattern
	HasOr, HasNot                   bool
}

type Output struct {
	Cases     []Case
	Skipped   map[string]int
	ParseErrs []string
}

func run(pat pattern.Pattern, n ast.Node) (outcome, pmsg, state string) {
	var m *pattern.Matcher
	func() {
		defer func() {
			if r := recover(); r != nil {
				pmsg = fmt.Sprint(r)
				if strings.Contains(pmsg, "binding already created") {
					outcome = "panic-rebound"
				} else {
					outcome = "panic-other"
				}
			}
		}()
		mm := &pattern.Matcher{}
		ok := mm.Match(pat, n)
		m = mm
		if ok {
			outcome = "ok"
		} else {
			outcome = "fail"
		}
	}()
	state = "[]"
	if m != nil {
		state = stateOf(m.State)
	}
	return
}

// directed cases: the defects recorded in DESIGN section 7 and close relatives
// kind of source: "" expression (target = the expression), "stmt" (target = first statement of a function
// body), "decl" (target = the first function declaration)
var directed = []struct{ pat, src, kind string }{
	// a name whose first occurrence meets an ABSENT child is bound (to nil): a later occurrence must recall it
	{`(ForStmt x _ x _)`, `for ; c; i++ {}`, "stmt"},
	{`(IfStmt x _ _ x)`, `if c {} else {}`, "stmt"},
	{`(ForStmt (Binding "x" nil) _ (Binding "x" nil) _)`, `for ; c; i++ {}`, "stmt"},
	{`(Or (ForStmt x _ x _) (EmptyStmt))`, `for ; c; i++ {}`, "stmt"},
	{`(Or (IfStmt "zz" _ _ _) (IfStmt x _ _ x))`, `if c {} else {}`, "stmt"},
	{`(ForStmt x (Not (Ident "zz")) x _)`, `for ; c; i++ {}`, "stmt"},
	{`(IfStmt x (Not (ForStmt x _ x _)) _ _)`, `if c {}`, "stmt"},
	{`(ForStmt x _ x@(IncDecStmt _ _) _)`, `for ; c; i++ {}`, "stmt"},
	{`(ForStmt x _ (Binding "x" (IncDecStmt _ _)) _)`, `for ; c; i++ {}`, "stmt"},
	{`(IfStmt x c [(ForStmt x _ y _)] x)`, `if c { for ; c; i++ {} } else {}`, "stmt"},
	{`(FuncDecl x _ _ x)`, `func f() { return }`, "decl"},
	{`(FuncDecl x _ (FuncType _ x) _)`, `func f() { return }`, "decl"},
	// controls: both absent, both present (different / equal), present then absent
	{`(ForStmt x _ x _)`, `for c {}`, "stmt"},
	{`(ForStmt x _ x _)`, `for i := 0; c; i++ {}`, "stmt"},
	{`(ForStmt x _ x _)`, `for i++; c; i++ {}`, "stmt"},
	{`(ForStmt x _ x _)`, `for i := 0; c; {}`, "stmt"},
	{`(IfStmt x _ _ x)`, `if c {}`, "stmt"},
	{`(FuncDecl x _ _ x)`, `func f()`, "decl"},
	{`(BinaryExpr z@(Ident _) "+" (Or (CallExpr (Binding "x" (Ident _)) []) (CallExpr _ _)))`, `a + f(1)`, ""},
	{`(BinaryExpr (Not (BinaryExpr x@(Ident _) "-" _)) "+" _)`, `(a*b)+c`, ""},
	{`(BinaryExpr (Ident name) "+" (Ident name))`, `a + a`, ""},
	{`(BinaryExpr (BinaryExpr _ op _) op _)`, `a + b + c`, ""},
	{`(BinaryExpr x@(Ident _) "+" x)`, `a + a`, ""},
	{`(BinaryExpr x@(Ident _) "+" x)`, `a + b`, ""},
	{`(BinaryExpr x "+" (CallExpr _ [x]))`, `(a) + f(a)`, ""},
	{`(Or (BinaryExpr (Or x@(Ident _)) "-" _) (BinaryExpr _ "+" y))`, `a + b`, ""},
	{`(Or (BinaryExpr (Or (Binding "x" (Ident _)) "q") "-" _) (BinaryExpr y "+" _))`, `a + b`, ""},
	{`(CallExpr f [x x])`, `f(a, a)`, ""},
	{`(CallExpr f x:x:[])`, `f(a, b)`, ""},
	{`(CallExpr (Binding "f" (Ident _)) (Binding "f" (Ident _)))`, `f(f)`, ""},
	{`(Binding "x" (Binding "x" (Ident _)))`, `a`, ""},
	{`(BinaryExpr (Or (Ident "zz") x@(Ident "a")) "+" (Or (Ident x) y@(Ident _)))`, `a + a`, ""},
	{`(CallExpr _ (Or [x@(Ident _) (BasicLit _ _)] [y z]))`, `f(a, b)`, ""},
	{`(Not (Or (BinaryExpr x "-" _) (BinaryExpr _ "*" y)))`, `a + b`, ""},
	{`(BinaryExpr (Not (Not (BinaryExpr x "+" _))) "*" x)`, `(a+b)*c`, ""},
}

func main() {
	out := flag.String("out", "", "output JSON")
	seed := flag.Uint64("seed", 1, "seed")
	ncases := flag.Int("n", 1500, "number of generated cases")
	flag.Parse()
	rnd := hx.NewRand(*seed)

	o := Output{Skipped: map[string]int{}}
	fset := token.NewFileSet()

	emit := func(kind, patSrc, flipped string, n ast.Node) bool {
		p := &pattern.Parser{}
		pat, err := p.Parse(patSrc)
		if err != nil {
			o.Skipped["parse-error"]++
			if len(o.ParseErrs) < 20 {
				o.ParseErrs = append(o.ParseErrs, patSrc+" :: "+err.Error())
			}
			return false
		}
		c := Case{ID: len(o.Cases), Kind: kind, Pattern: patSrc, Src: nodeSrc(fset, n), NodeTy: fmt.Sprintf("%T", n)}
		if err := try(func() {
			c.MapV = stringsOf(pat.Bindings)
			c.PatV = patOf(pat.Root)
			c.TreeV = valOf(n)
		}); err != nil {
			o.Skipped["unserialisable: "+err.Error()]++
			return false
		}
		c.NBind = len(pat.Bindings)
		c.HasOr = strings.Contains(patSrc, "(Or")
		c.HasNot = strings.Contains(patSrc, "(Not")
		var st string
		if err := try(func() { c.Outcome, c.Panic, st = run(pat, n) }); err != nil {
			o.Skipped["unserialisable state: "+err.Error()]++
			return false
		}
		c.StateV = st
		if flipped != "" && flipped != patSrc {
			p2 := &pattern.Parser{}
			pat2, err := p2.Parse(flipped)
			if err != nil {
				o.Skipped["flipped-parse-error"]++
				if len(o.ParseErrs) < 20 {
					o.ParseErrs = append(o.ParseErrs, "FLIPPED "+flipped+" :: "+err.Error())
				}
			} else {
				c.Flipped = flipped
				if err := try(func() {
					c.FMapV = stringsOf(pat2.Bindings)
					c.FPatV = patOf(pat2.Root)
					c.FOutcome, _, c.FStateV = run(pat2, n)
				}); err != nil {
					c.Flipped = ""
				}
			}
		}
		o.Cases = append(o.Cases, c)
		return true
	}

	// 1. directed cases
	for _, d := range directed {
		src := "package p\nfunc _() {\n_ = " + d.src + "\n}\n"
		switch d.kind {
		case "stmt":
			src = "package p\nfunc _() {\n" + d.src + "\n}\n"
		case "decl":
			src = "package p\n" + d.src + "\n"
		}
		nodes, err := parseNodes(fset, src)
		if err != nil {
			panic(err)
		}
		var target ast.Node
		for _, n := range nodes {
			switch d.kind {
			case "":
				if as, ok := n.(*ast.AssignStmt); ok && target == nil {
					target = as.Rhs[0]
				}
			case "stmt":
				if fd, ok := n.(*ast.FuncDecl); ok && target == nil {
					target = fd.Body.List[0]
				}
			case "decl":
				if fd, ok := n.(*ast.FuncDecl); ok && target == nil {
					target = fd
				}
			}
		}
		flipped := ""
		emit("directed", d.pat, flipped, target)
	}

	// 2. generated
	sg := &srcGen{r: rnd.Fork()}
	pr := rnd.Fork()
	for len(o.Cases) < *ncases+len(directed) {
		src := sg.file()
		nodes, err := parseNodes(fset, src)
		if err != nil {
			o.Skipped["go-parse-error"]++
			continue
		}
		// several (pattern, node) pairs per file
		for k := 0; k < 12 && len(o.Cases) < *ncases+len(directed); k++ {
			n := nodes[pr.Intn(len(nodes))]
			for tries := 0; tries < 4; tries++ {
				// leaves are over-represented among the nodes of a file
				switch n.(type) {
				case *ast.Ident, *ast.BasicLit:
					if pr.Chance(75) {
						n = nodes[pr.Intn(len(nodes))]
					}
				}
			}
			nn := 1 + pr.Intn(4)
			if pr.Chance(15) {
				nn = 5 + pr.Intn(4)
			}
			names := []string{"x", "y", "z", "w", "u", "v", "s", "t"}[:nn]
			malformed := pr.Chance(4)
			g := &patGen{r: pr, names: names, fset: fset, bound: map[string]string{}, allowDB: malformed}
			// derive the pattern from this node, or (1 in 4) from another node of the same file so that it rarely matches
			from := n
			if pr.Chance(25) {
				from = nodes[pr.Intn(len(nodes))]
			}
			p := g.of(from, 0)
			kind := "generated"
			if malformed {
				kind = "malformed"
			}
			// the root of a pattern must be a parenthesised node (in both spellings)
			if p.Kind == "cons" || !strings.HasPrefix(p.print(false), "(") || !strings.HasPrefix(p.print(true), "(") {
				p = &P{Kind: "or", Name: "Or", Sub: []*P{p}}
			}
			emit(kind, p.print(false), p.print(true), n)
		}
	}
	hx.EmitJSON(*out, o)
	fmt.Fprintf(os.Stderr, "hc09: %d cases, skipped %v\n", len(o.Cases), o.Skipped)
}
