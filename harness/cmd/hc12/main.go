// hc12: drives runFromLintResult+mergeRuns and the sort/de-duplication of printDiagnostics
// (in-process through the verif hook of lintcmd) and `staticcheck -merge` (black box, crafted gob
// files) on generated sets of runs. Output: JSON, one record per case with the inputs and everything
// the implementation was observed to do.
package main

import (
	"bytes"
	"encoding/json"
	"flag"
	"fmt"
	"os"
	"os/exec"
	"path/filepath"
	"regexp"
	"sort"
	"strconv"
	"strings"
	"sync"

	"honnef.co/go/tools/analysis/lint"
	"honnef.co/go/tools/lintcmd"
	"verifharness/hx"
)

type View struct {
	File            string
	Line, Col       int
	EndFile         string
	EndLine, EndCol int
	Cat, Msg        string
	Builds          string
}

type Case struct {
	Kind                      string // random | variant | directed | cli | cli-directed
	Base                      int    // index of the case this one is a variant of (variant), else -1
	Runs                      []lintcmd.VerifC12Run
	Merged                    []lintcmd.VerifC12Diag // nil for cli cases
	HasMerged                 bool
	Full                      []View // in-process: text and json output zipped
	Text                      []View // cli: -f text
	JSON                      []View // cli: -f json
	HasFull, HasText, HasJSON bool
	Note                      string
	// runs of the real linter: per run the packages with (initial, failed, skipped, files) as the harness knows
	// them by construction (Runs[i].CheckedFiles is then the EXPECTED list) and the CheckedFiles the real lintResult had
	Pkgs          [][]PkgRes
	ObsChecked    [][]string
	HasObsChecked bool
}

type PkgRes struct {
	Initial, Failed, Skipped bool
	Files                    []string
}

var textRe = regexp.MustCompile(`(?s)^(?:-|(.*?):(\d+):(\d+)): (.*?)(?: \[([^\]\n]*)\])? \((\S+)\)$`)

// firstLine: messages of compile errors span several lines; the harness keeps the first line everywhere.
func firstLine(s string) string {
	if i := strings.IndexByte(s, '\n'); i >= 0 {
		return s[:i]
	}
	return s
}

func parseText(out []byte) ([]View, error) {
	var vs []View
	pending := ""
	for _, line := range strings.Split(strings.TrimRight(string(out), "\n"), "\n") {
		if pending == "" && line == "" {
			continue
		}
		if pending != "" {
			line = pending + "\n" + line
		}
		m := textRe.FindStringSubmatch(line)
		if m == nil {
			pending = line // a message that continues on the next line
			continue
		}
		pending = ""
		l, _ := strconv.Atoi(m[2])
		c, _ := strconv.Atoi(m[3])
		vs = append(vs, View{File: m[1], Line: l, Col: c, Msg: firstLine(m[4]), Builds: m[5], Cat: m[6]})
	}
	if pending != "" {
		return nil, fmt.Errorf("unparsable text output %q", pending)
	}
	return vs, nil
}

func parseJSON(out []byte) ([]View, error) {
	type loc struct {
		File   string `json:"file"`
		Line   int    `json:"line"`
		Column int    `json:"column"`
	}
	var vs []View
	dec := json.NewDecoder(bytes.NewReader(out))
	for dec.More() {
		var p struct {
			Code     string `json:"code"`
			Location loc    `json:"location"`
			End      loc    `json:"end"`
			Message  string `json:"message"`
		}
		if err := dec.Decode(&p); err != nil {
			return nil, err
		}
		vs = append(vs, View{File: p.Location.File, Line: p.Location.Line, Col: p.Location.Column,
			EndFile: p.End.File, EndLine: p.End.Line, EndCol: p.End.Column, Cat: p.Code, Msg: firstLine(p.Message)})
	}
	return vs, nil
}

var analyzers = []string{"SA1000", "SA4006", "S1000", "ST1003", "U1000"}

// inProcess fills Merged and Full.
func inProcess(c *Case) {
	c.Merged = lintcmd.VerifC12MergeRuns(c.Runs)
	c.HasMerged = true
	opts := lintcmd.VerifC11PrintOpts{Formatter: "text", Fail: []string{"all"}, ShowIgnored: true, Analyzers: analyzers}
	in1 := append([]lintcmd.VerifC12Diag(nil), c.Merged...)
	in2 := append([]lintcmd.VerifC12Diag(nil), c.Merged...)
	tout, _, err := lintcmd.VerifC11PrintDiagnostics(opts, in1)
	if err != nil {
		fatal(err)
	}
	opts.Formatter = "json"
	jout, _, err := lintcmd.VerifC11PrintDiagnostics(opts, in2)
	if err != nil {
		fatal(err)
	}
	tv, err1 := parseText(tout)
	jv, err2 := parseJSON(jout)
	if err1 != nil || err2 != nil {
		fatal(fmt.Errorf("cannot parse printDiagnostics output: %v %v", err1, err2))
	}
	aligned := len(tv) == len(jv)
	if aligned {
		for i := range tv {
			if tv[i].File != jv[i].File || tv[i].Line != jv[i].Line || tv[i].Col != jv[i].Col || tv[i].Cat != jv[i].Cat || tv[i].Msg != jv[i].Msg {
				aligned = false
			}
		}
	}
	if aligned {
		for i := range tv {
			v := jv[i]
			v.Builds = tv[i].Builds
			c.Full = append(c.Full, v)
		}
		c.HasFull = true
	} else {
		c.Text, c.JSON, c.HasText, c.HasJSON = tv, jv, true, true
		c.Note = "text and json output of the same input are not aligned"
	}
}

func fatal(err error) {
	fmt.Fprintln(os.Stderr, "hc12:", err)
	os.Exit(2)
}

// viaCLI writes the runs as gob streams into 1-3 files and runs `staticcheck -merge` on them.
func viaCLI(c *Case, nfiles int, exe, dir string, idx int) {
	bufs := make([]bytes.Buffer, nfiles)
	for i, r := range c.Runs {
		b, err := lintcmd.VerifC12EncodeRun(r)
		if err != nil {
			fatal(err)
		}
		k := i * nfiles / max(1, len(c.Runs)) // keeps the order of the runs across the files
		bufs[k].Write(b)
	}
	var paths []string
	for i := range bufs {
		p := filepath.Join(dir, fmt.Sprintf("c%d-%d.gob", idx, i))
		if err := os.WriteFile(p, bufs[i].Bytes(), 0o666); err != nil {
			fatal(err)
		}
		paths = append(paths, p)
	}
	run := func(format string) []byte {
		args := append([]string{"-merge", "-show-ignored", "-f", format}, paths...)
		cmd := exec.Command(exe, args...)
		cmd.Dir = dir
		var stdout, stderr bytes.Buffer
		cmd.Stdout, cmd.Stderr = &stdout, &stderr
		err := cmd.Run()
		if ee, ok := err.(*exec.ExitError); ok && ee.ExitCode() == 1 {
			err = nil // problems were found
		}
		if err != nil {
			fatal(fmt.Errorf("staticcheck -merge failed: %v: %s", err, stderr.String()))
		}
		return stdout.Bytes()
	}
	var err error
	if c.Text, err = parseText(run("text")); err != nil {
		fatal(err)
	}
	if c.JSON, err = parseJSON(run("json")); err != nil {
		fatal(err)
	}
	c.HasText, c.HasJSON = true, true
	for _, p := range paths {
		os.Remove(p)
	}
}

// matrixCases: the real in-process `-matrix` path against per-configuration runs obtained SEPARATELY.
// Module mx: files under build tags (an unused func in a file only configuration a / only b compiles), every
// configuration compiles. Module mxos: a GOOS-specific file with a type error, so the package fails to compile
// under windows while the others report an 'all' problem (U1000) in its common file; an unused func in a
// darwin-only file. For every configuration ONE process `staticcheck -matrix -f binary` with a one-line matrix
// yields that configuration's run (decodeGob); its checked files are EXPECTED from what the harness knows by
// construction and compared with the CheckedFiles of the real lintResult. The whole matrix is then linted by one
// process in several configuration ORDERS (incl. a repeated configuration); the text and json output of each
// order is compared with the specification applied to the separately obtained runs in that order.
type mxConfig struct {
	line string // matrix line
	pkgs []PkgRes
}

func matrixCases(exe, work string) []Case {
	var cases []Case
	var mu sync.Mutex
	var wg sync.WaitGroup
	sem := make(chan struct{}, 8)
	one := func(name string, files map[string]string, configs []mxConfig, orders [][]int) {
		root := filepath.Join(work, name)
		hx.WriteFile(filepath.Join(root, "go.mod"), "module example.com/"+name+"\n\ngo 1.22\n")
		for f, src := range files {
			hx.WriteFile(filepath.Join(root, f), src)
		}
		cache := filepath.Join(work, name+"-cache")
		run := func(format, matrix string) []byte {
			sem <- struct{}{}
			defer func() { <-sem }()
			cmd := exec.Command(exe, "-matrix", "-f", format, "./...")
			cmd.Dir = root
			cmd.Env = append(hx.GoEnv(), "STATICCHECK_CACHE="+cache)
			cmd.Stdin = strings.NewReader(matrix)
			var stdout, stderr bytes.Buffer
			cmd.Stdout, cmd.Stderr = &stdout, &stderr
			err := cmd.Run()
			if ee, ok := err.(*exec.ExitError); ok && ee.ExitCode() == 1 {
				err = nil
			}
			if err != nil {
				fatal(fmt.Errorf("staticcheck -matrix -f %s failed: %v: %s", format, err, stderr.String()))
			}
			return stdout.Bytes()
		}
		rel := func(f string) string {
			if filepath.IsAbs(f) {
				if r, err := filepath.Rel(root, f); err == nil {
					return filepath.ToSlash(r)
				}
			}
			return f
		}
		// one process per configuration
		single := make([]lintcmd.VerifC12Run, len(configs))
		obsChecked := make([][]string, len(configs))
		var wg1 sync.WaitGroup
		for i := range configs {
			wg1.Add(1)
			go func(i int) {
				defer wg1.Done()
				rs, err := lintcmd.VerifC12DecodeRuns(run("binary", configs[i].line+"\n"))
				if err != nil || len(rs) != 1 {
					fatal(fmt.Errorf("-matrix -f binary for %q: %d runs, %v", configs[i].line, len(rs), err))
				}
				r := rs[0]
				obs := append([]string{}, r.CheckedFiles...)
				sort.Strings(obs)
				obsChecked[i] = obs
				r.CheckedFiles = nil // filled in from Pkgs (checked_of) by the check
				for k := range r.Diagnostics {
					r.Diagnostics[k].Message = firstLine(r.Diagnostics[k].Message)
				}
				single[i] = r
			}(i)
		}
		wg1.Wait()
		// the whole matrix in one process, several orders
		for _, order := range orders {
			wg.Add(1)
			go func(order []int) {
				defer wg.Done()
				var lines []string
				c := Case{Kind: "matrix", Base: -1, HasObsChecked: true}
				for _, i := range order {
					lines = append(lines, configs[i].line)
					c.Runs = append(c.Runs, single[i])
					c.Pkgs = append(c.Pkgs, configs[i].pkgs)
					c.ObsChecked = append(c.ObsChecked, obsChecked[i])
				}
				matrix := strings.Join(lines, "\n") + "\n"
				c.Note = name + ": " + strings.Join(lines, " / ")
				var err error
				if c.Text, err = parseText(run("text", matrix)); err != nil {
					fatal(err)
				}
				if c.JSON, err = parseJSON(run("json", matrix)); err != nil {
					fatal(err)
				}
				for i := range c.JSON {
					c.JSON[i].File, c.JSON[i].EndFile = rel(c.JSON[i].File), rel(c.JSON[i].EndFile)
				}
				c.HasText, c.HasJSON = true, true
				mu.Lock()
				cases = append(cases, c)
				mu.Unlock()
			}(order)
		}
	}
	pk := func(failed bool, files ...string) []PkgRes {
		return []PkgRes{{Initial: true, Failed: failed, Files: files}}
	}
	one("mx", map[string]string{
		"common.go": "package p\n\nfunc Common(x int) bool { return x == x }\n",
		"foo.go":    "//go:build foo\n\npackage p\n\nfunc OnlyFoo(x int) bool {\n\thelper()\n\treturn x != x\n}\n",
		"only_a.go": "//go:build foo\n\npackage p\n\nfunc onlyA() {}\n",
		"helper.go": "package p\n\nfunc helper() {}\n",
		"bar.go":    "//go:build bar\n\npackage p\n\nfunc unusedBar() {}\n",
		"lonely.go": "package p\n\nfunc lonely() {}\n",
	}, []mxConfig{
		{"a: -tags=foo", pk(false, "common.go", "foo.go", "helper.go", "lonely.go", "only_a.go")},
		{"b: -tags=bar", pk(false, "bar.go", "common.go", "helper.go", "lonely.go")},
		{"c:", pk(false, "common.go", "helper.go", "lonely.go")},
	}, [][]int{{0, 1, 2}, {2, 1, 0}, {0, 1, 0}})
	one("mxos", map[string]string{
		"common.go":         "package p\n\nfunc Common(x int) bool { return x == x }\n\nfunc helper() {}\n",
		"broken_windows.go": "package p\n\nvar broken int = \"not an int\"\n",
		"extra_darwin.go":   "package p\n\nfunc onlyDarwin() {}\n",
	}, []mxConfig{
		{"linux: GOOS=linux", pk(false, "common.go")},
		{"darwin: GOOS=darwin", pk(false, "common.go", "extra_darwin.go")},
		{"windows: GOOS=windows", pk(true, "broken_windows.go", "common.go")}, // fails to compile: nothing was analysed
	}, [][]int{{0, 1, 2}, {1, 2, 0}})
	wg.Wait()
	sort.Slice(cases, func(i, j int) bool { return cases[i].Note < cases[j].Note })
	return cases
}

var (
	files  = []string{"a.go", "b.go", "c/d.go", "e.go"}
	msgs   = []string{"m0", "m1", "m2"}
	builds = []string{"", "linux", "darwin", "windows_amd64", "a", "b"}
)

type catInfo struct {
	name string
	m    lint.MergeStrategy
}

var cats = []catInfo{{"SA1000", lint.MergeIfAny}, {"S1000", lint.MergeIfAny}, {"compile", lint.MergeIfAny},
	{"U1000", lint.MergeIfAll}, {"ST1003", lint.MergeIfAll}, {"SA4006", lint.MergeIfAll}}

func genDiag(rnd *hx.Rand) lintcmd.VerifC12Diag {
	var d lintcmd.VerifC12Diag
	d.File = files[rnd.Intn(len(files))]
	d.Line = 1 + rnd.Intn(3)
	d.Col = 1 + rnd.Intn(2)
	switch rnd.Intn(5) {
	case 0:
		d.Off = d.Line*10 + d.Col
	case 1:
		d.Off = rnd.Intn(3)
	}
	if !rnd.Chance(40) {
		d.EndFile = d.File
		d.EndLine = d.Line
		d.EndCol = d.Col + []int{2, 5}[rnd.Intn(2)]
		if rnd.Chance(15) {
			d.EndLine++
		}
		if rnd.Chance(20) {
			d.EndOff = rnd.Intn(3)
		}
	}
	ci := cats[rnd.Intn(len(cats))]
	d.Category = ci.name
	d.MergeIf = int(ci.m)
	d.Message = msgs[rnd.Intn(len(msgs))]
	switch {
	case rnd.Chance(15):
		d.Severity = 2
	case rnd.Chance(5):
		d.Severity = 1
	}
	return d
}

func mutate(rnd *hx.Rand, d lintcmd.VerifC12Diag) lintcmd.VerifC12Diag {
	switch rnd.Intn(6) {
	case 0:
		ci := cats[rnd.Intn(len(cats))]
		d.Category, d.MergeIf = ci.name, int(ci.m)
	case 1:
		d.EndCol += 1 + rnd.Intn(2)
	case 2:
		d.Message = msgs[rnd.Intn(len(msgs))]
	case 3:
		d.Col = 1 + rnd.Intn(2)
	case 4:
		d.Severity = []int{0, 2}[rnd.Intn(2)]
	case 5:
		d.EndFile, d.EndOff, d.EndLine, d.EndCol = "", 0, 0, 0
	}
	return d
}

func genRuns(rnd *hx.Rand) []lintcmd.VerifC12Run {
	npool := 2 + rnd.Intn(5)
	pool := make([]lintcmd.VerifC12Diag, npool)
	for i := range pool {
		if i > 0 && rnd.Chance(45) {
			pool[i] = mutate(rnd, pool[rnd.Intn(i)])
		} else {
			pool[i] = genDiag(rnd)
		}
	}
	// sometimes a category has another strategy than the usual one, including a value that is neither
	override := map[string]int{}
	if rnd.Chance(25) {
		override[cats[rnd.Intn(len(cats))].name] = rnd.Intn(3)
	}
	nruns := 1 + rnd.Intn(6)
	runs := make([]lintcmd.VerifC12Run, nruns)
	for i := range runs {
		name := builds[rnd.Intn(len(builds))]
		nd := rnd.Intn(9)
		r := lintcmd.VerifC12Run{}
		for k := 0; k < nd; k++ {
			d := pool[rnd.Intn(npool)]
			if rnd.Chance(10) {
				d = mutate(rnd, d)
			}
			// one run = one build configuration; the strategy is a function of the category (as in lint())
			d.BuildName = name
			if m, ok := override[d.Category]; ok {
				d.MergeIf = m
			}
			r.Diagnostics = append(r.Diagnostics, d)
		}
		for _, f := range files {
			if rnd.Chance(55) {
				r.CheckedFiles = append(r.CheckedFiles, f)
			}
		}
		if rnd.Chance(10) {
			r.CheckedFiles = nil
		}
		runs[i] = r
	}
	if nruns > 1 && rnd.Chance(15) {
		runs[rnd.Intn(nruns)] = runs[rnd.Intn(nruns)] // a repeated run
	}
	return runs
}

func variant(rnd *hx.Rand, runs []lintcmd.VerifC12Run) []lintcmd.VerifC12Run {
	out := append([]lintcmd.VerifC12Run(nil), runs...)
	for i := range out { // permute
		j := i + rnd.Intn(len(out)-i)
		out[i], out[j] = out[j], out[i]
	}
	if rnd.Bool() && len(out) > 0 { // repeat one run at a random position
		r := out[rnd.Intn(len(out))]
		k := rnd.Intn(len(out) + 1)
		out = append(out[:k], append([]lintcmd.VerifC12Run{r}, out[k:]...)...)
	}
	return out
}

// directed: every subset with at most three elements of the pool 2 messages x 2 categories x 2 ends x
// 2 build names at one position (the pool of Model/C12_Check.v:pool_diag); one run per build name.
func poolDiag(i int) lintcmd.VerifC12Diag {
	d := lintcmd.VerifC12Diag{File: "p.go", Line: 3, Col: 1, EndFile: "p.go", EndLine: 3, EndCol: 9,
		Category: "SA4006", Message: "m0", MergeIf: int(lint.MergeIfAny), BuildName: "darwin"}
	if i&1 != 0 {
		d.BuildName = "linux"
	}
	if i&2 != 0 {
		d.Category = "SA1000"
	}
	if i&4 != 0 {
		d.EndCol = 5
	}
	if i&8 != 0 {
		d.Message = "m1"
	}
	return d
}

func directedRuns(ixs []int) []lintcmd.VerifC12Run {
	by := map[string]*lintcmd.VerifC12Run{}
	var order []string
	for _, i := range ixs {
		d := poolDiag(i)
		r := by[d.BuildName]
		if r == nil {
			r = &lintcmd.VerifC12Run{CheckedFiles: []string{"p.go"}}
			by[d.BuildName] = r
			order = append(order, d.BuildName)
		}
		r.Diagnostics = append(r.Diagnostics, d)
	}
	var runs []lintcmd.VerifC12Run
	for _, n := range order {
		runs = append(runs, *by[n])
	}
	return runs
}

func main() {
	out := flag.String("out", "", "output JSON")
	work := flag.String("work", "", "scratch directory")
	seed := flag.Uint64("seed", 1, "seed")
	n := flag.Int("n", 1500, "number of random in-process cases")
	ncli := flag.Int("cli", 30, "number of random cases through `staticcheck -merge`")
	exe := flag.String("staticcheck", "", "staticcheck binary built from the tree under test (empty: no CLI cases)")
	matrix := flag.Bool("matrix", true, "also lint a module with build tags with -matrix and compare with its -f binary runs")
	pool := flag.String("pool", "", "only run the directed case with these comma-separated pool indices (replay)")
	flag.Parse()
	rnd := hx.NewRand(*seed)
	var cases []Case

	if *pool != "" {
		var ixs []int
		for _, s := range strings.Split(*pool, ",") {
			i, err := strconv.Atoi(strings.TrimSpace(s))
			if err != nil {
				fatal(err)
			}
			ixs = append(ixs, i)
		}
		c := Case{Kind: "directed", Base: -1, Runs: directedRuns(ixs)}
		inProcess(&c)
		cases = append(cases, c)
		if *exe != "" {
			c2 := Case{Kind: "cli-directed", Base: -1, Runs: directedRuns(ixs)}
			viaCLI(&c2, 2, *exe, *work, 0)
			cases = append(cases, c2)
		}
		hx.EmitJSON(*out, cases)
		return
	}

	// random cases, every fourth followed by a permuted / repeated variant
	for i := 0; i < *n; i++ {
		c := Case{Kind: "random", Base: -1, Runs: genRuns(rnd)}
		inProcess(&c)
		cases = append(cases, c)
		if i%4 == 0 {
			v := Case{Kind: "variant", Base: len(cases) - 1, Runs: variant(rnd, c.Runs)}
			inProcess(&v)
			cases = append(cases, v)
		}
	}
	// directed stream
	var directed [][]int
	for i := 0; i < 16; i++ {
		directed = append(directed, []int{i})
		for j := i + 1; j < 16; j++ {
			directed = append(directed, []int{i, j})
			for k := j + 1; k < 16; k++ {
				directed = append(directed, []int{i, j, k})
			}
		}
	}
	for _, ixs := range directed {
		c := Case{Kind: "directed", Base: -1, Runs: directedRuns(ixs), Note: fmt.Sprint(ixs)}
		inProcess(&c)
		cases = append(cases, c)
	}
	// black box: `staticcheck -merge`
	if *exe != "" {
		cli := make([]Case, *ncli)
		nfiles := make([]int, *ncli)
		for i := range cli {
			if i%3 == 2 {
				ixs := directed[rnd.Intn(len(directed))]
				cli[i] = Case{Kind: "cli-directed", Base: -1, Runs: directedRuns(ixs), Note: fmt.Sprint(ixs)}
			} else {
				cli[i] = Case{Kind: "cli", Base: -1, Runs: genRuns(rnd)}
			}
			nfiles[i] = 1 + rnd.Intn(3)
		}
		var wg sync.WaitGroup
		sem := make(chan struct{}, 8)
		for i := range cli {
			wg.Add(1)
			go func(i int) {
				defer wg.Done()
				sem <- struct{}{}
				defer func() { <-sem }()
				viaCLI(&cli[i], nfiles[i], *exe, *work, i)
			}(i)
		}
		wg.Wait()
		cases = append(cases, cli...)
	}
	if *exe != "" && *matrix {
		cases = append(cases, matrixCases(*exe, *work)...)
	}
	hx.EmitJSON(*out, cases)
}
