// hc06: schedule exploration for C06 on the REAL staticcheck binary (built with -tags verif from the
// working tree). A generated module (diamond dependencies, facts flowing between packages, test variants,
// a package that does not compile and its dependents) is linted under GOMAXPROCS x yield seeds x
// shuffled / partial pattern lists; every run records its scheduler trace (hook H3). The harness compares
// outputs byte for byte (same set of named packages) and per package (different sets), runs the -race
// binary, and writes everything to a JSON file; the traces are validated in Coq by checks/C06.py.
package main

import (
	"bytes"
	"crypto/sha256"
	"encoding/json"
	"flag"
	"fmt"
	"os"
	"os/exec"
	"path/filepath"
	"sort"
	"strings"
	"sync"
	"time"

	"honnef.co/go/tools/lintcmd/runner"
	"verifharness/hx"
)

type Run struct {
	ID       string
	Kind     string // ref, same, partial, warm, text, notests, race
	GMP      int
	Yield    uint64 // 0: no yield injection
	Patterns []string
	Args     []string // extra command line flags (e.g. -go 1.17)
	Format   string
	Tests    bool
	Race     bool
	Cache    string `json:"-"`
	Trace    string // trace file ("" if not traced)
	Exit     int
	Stdout   string `json:",omitempty"`
	Sha      string
	NDiag    int
	Stderr   string
	Ms       int64
	TimedOut bool
}

type Violation struct {
	Key    string
	What   string
	Detail map[string]any
}

type Out struct {
	Seed       uint64
	ModuleDir  string
	Packages   []string
	Files      map[string]string
	Runs       []*Run
	Violations []Violation
	RefDiags   []Diag // printed diagnostics of the reference run (for the sort-key obligation)
	RaceRuns   int
	RaceLog    string
	Stress     map[string]int // rounds of the DecrementPending stress per number of goroutines
}

type Diag struct {
	Code     string
	Severity string
	Location struct {
		File         string
		Line, Column int
	}
	End struct {
		File         string
		Line, Column int
	}
	Message string
}

var (
	bin, raceBin, work string
	env                []string
)

func main() {
	flag.StringVar(&bin, "bin", "", "staticcheck binary built with -tags verif")
	flag.StringVar(&raceBin, "racebin", "", "staticcheck binary built with -race -tags verif (optional)")
	flag.StringVar(&work, "work", "", "scratch directory")
	outp := flag.String("out", "", "output JSON")
	seed := flag.Uint64("seed", 1, "seed")
	nsame := flag.Int("same", 12, "runs naming all packages")
	npartial := flag.Int("partial", 4, "runs naming a subset")
	nrace := flag.Int("race", 1, "race runs on the generated module")
	raceRepo := flag.String("racerepo", "", "comma separated package patterns of the repository to lint with the race binary (thorough)")
	repo := flag.String("repo", "/repo", "repository root (for -racerepo)")
	par := flag.Int("par", 4, "concurrent runs")
	ntraced := flag.Int("traced", 1000, "how many of the runs naming all packages record their scheduler trace")
	withText := flag.Bool("text", true, "also compare two runs with the text formatter")
	ndirs := flag.Int("dirruns", 8, "cold runs of the package with overlapping linter directives (directive order is map iteration order, per process)")
	stress := flag.Int("stress", 300000, "rounds of the DecrementPending stress (k = 2; a third of it for k = 3, 4)")
	n117 := flag.Int("go117", 3, "runs with -go 1.17 (a package then fails while the runner executes) besides their reference")
	flag.Parse()
	rnd := hx.NewRand(*seed)
	env = hx.GoEnv()
	out := &Out{Seed: *seed, Files: map[string]string{}}

	// the one synchronisation point of the protocol, on the real code and without any hook around it: k handlers
	// that decrement a counter at k at the same moment; exactly one must be told it was the last (the model's EDec)
	out.Stress = map[string]int{}
	for _, k := range []int{2, 3, 4} {
		n := *stress
		if k > 2 {
			n /= 3
		}
		if n == 0 {
			continue
		}
		bad, first := runner.VerifDecrementStress(n, k)
		out.Stress[fmt.Sprint(k)] = n
		if bad > 0 {
			out.Violations = append(out.Violations, Violation{"decrement-not-atomic",
				fmt.Sprintf("baseAction.DecrementPending: %d goroutines decrementing a counter at %d at the same moment: in %d of %d rounds not exactly one of them was told it was the last (first such round: %v): a dependent can be enqueued twice or never", k, k, bad, n, first),
				map[string]any{"goroutines": k, "rounds": n, "bad_rounds": bad, "first_bad_results": first, "replay": "runner.VerifDecrementStress (lintcmd/runner/verif_stress.go, -tags verif)"}})
		}
	}

	mod := filepath.Join(work, "mod")
	pkgs := genModule(mod, rnd.Fork(), out.Files)
	out.ModuleDir = mod
	out.Packages = pkgs

	// warm a cache with the standard-library closure of test mains, so that every later run analyses the
	// module's packages from scratch but not the standard library
	warm := filepath.Join(work, "warmmod")
	hx.WriteFile(filepath.Join(warm, "go.mod"), "module example.com/warm\n\ngo 1.22\n")
	hx.WriteFile(filepath.Join(warm, "w.go"), "package w\n\nfunc W() int { return 1 }\n")
	hx.WriteFile(filepath.Join(warm, "w_test.go"), "package w\n\nimport \"testing\"\n\nfunc TestW(t *testing.T) { _ = W() }\n")
	stdCache := filepath.Join(work, "cache-std")
	w := &Run{ID: "warmup", Kind: "warmup", GMP: 16, Patterns: []string{"./..."}, Format: "json", Tests: true, Cache: stdCache}
	execRun(w, warm)
	if w.Exit != 0 || w.TimedOut {
		out.Violations = append(out.Violations, Violation{"harness:warmup", "warm-up run on a trivial module failed", map[string]any{"exit": w.Exit, "stderr": w.Stderr, "stdout": w.Stdout}})
	}
	w.Stdout = ""
	out.Runs = append(out.Runs, w)

	gmps := []int{1, 2, 4, 16}
	allPats := make([]string, len(pkgs))
	for i, p := range pkgs {
		allPats[i] = "./" + p
	}
	shuffled := func(r *hx.Rand, l []string) []string {
		c := append([]string(nil), l...)
		for i := len(c) - 1; i > 0; i-- {
			j := r.Intn(i + 1)
			c[i], c[j] = c[j], c[i]
		}
		return c
	}
	var runs []*Run
	n := 0
	mk := func(kind string, gmp int, yield uint64, pats []string, format string, tests bool) *Run {
		n++
		r := &Run{ID: fmt.Sprintf("r%02d", n), Kind: kind, GMP: gmp, Yield: yield, Patterns: pats, Format: format, Tests: tests}
		r.Cache = filepath.Join(work, "cache-"+r.ID)
		r.Trace = filepath.Join(work, "trace-"+r.ID+".txt")
		runs = append(runs, r)
		return r
	}
	ref := mk("ref", 16, 0, []string{"./..."}, "json", true)
	for i := 0; i < *nsame; i++ {
		gmp := gmps[i%len(gmps)]
		var y uint64
		if i%3 != 0 {
			y = 1 + rnd.Uint64()%1000000
		}
		pats := []string{"./..."}
		if i%2 == 1 {
			pats = shuffled(rnd, allPats)
		}
		r := mk("same", gmp, y, pats, "json", true)
		if i >= *ntraced {
			r.Trace = ""
		}
	}
	tx0, tx1 := &Run{TimedOut: true}, &Run{TimedOut: true}
	if *withText {
		tx0 = mk("text", 1, 0, []string{"./..."}, "text", true)
		tx1 = mk("text", 16, 1+rnd.Uint64()%1000000, shuffled(rnd, allPats), "text", true)
		if *ntraced < *nsame {
			tx0.Trace, tx1.Trace = "", ""
		}
	}
	for i := 0; i < *npartial; i++ {
		k := 1 + rnd.Intn(len(allPats)-1)
		mk("partial", gmps[rnd.Intn(len(gmps))], rnd.Uint64()%1000000, shuffled(rnd, allPats)[:k], "json", true)
	}
	nt := mk("notests", 4, 1+rnd.Uint64()%1000000, []string{"./..."}, "json", false)
	// a package that fails WHILE THE RUNNER EXECUTES: under -go 1.17 the generic code of rtfail does not type-check
	// in loader.Load; its dependents (which also have slower sibling dependencies) must be skipped in every schedule
	go117 := []string{"-go", "1.17"}
	ref117 := mk("ref117", 16, 0, []string{"./..."}, "json", false)
	ref117.Args = go117
	if *ntraced < *nsame {
		ref117.Trace, nt.Trace = "", ""
	}
	for i := 0; i < *n117; i++ {
		r := mk("same117", gmps[(i+1)%len(gmps)], 1+rnd.Uint64()%1000000, []string{"./..."}, "json", false)
		if i%2 == 1 {
			r.Patterns = shuffled(rnd, allPats)
		}
		r.Args = go117
		if i >= 1 && *ntraced < *nsame {
			r.Trace = ""
		}
	}
	// overlapping directives: which of two directives covering one problem is visited first is decided by map
	// iteration in lint.ParseDirectives, anew in every process that analyses the package
	var dirRuns []*Run
	for i := 0; i < *ndirs; i++ {
		r := mk("dirs", gmps[i%len(gmps)], 0, []string{"./dirs"}, "json", true)
		r.Trace = ""
		dirRuns = append(dirRuns, r)
	}
	// U1000 is decided per package: an object with the same name, file name and line in two packages, used in one
	// and unused in the other; named alone, in both orders, and together with everything (the reference)
	mk("partial", 2, 1+rnd.Uint64()%1000000, []string{"./dupb"}, "json", true)
	mk("partial", 4, 1+rnd.Uint64()%1000000, []string{"./dupa", "./dupb"}, "json", true)
	mk("partial", 1, 0, []string{"./dupb", "./dupa"}, "json", true)
	mk("partial", 4, 0, []string{"./dupa"}, "json", true)

	runAll(runs, mod, stdCache, *par)
	// warm-cache rerun of the reference (same cache directory, results now come from the cache)
	warmRun := &Run{ID: "r-warm", Kind: "warm", GMP: 4, Yield: 7, Patterns: []string{"./..."}, Format: "json", Tests: true, Cache: ref.Cache,
		Trace: filepath.Join(work, "trace-r-warm.txt")}
	execRun(warmRun, mod)
	runs = append(runs, warmRun)

	viol := func(key, what string, d map[string]any) {
		out.Violations = append(out.Violations, Violation{key, what, d})
	}
	descr := func(r *Run) map[string]any {
		return map[string]any{"id": r.ID, "GOMAXPROCS": r.GMP, "VERIF_YIELD": r.Yield, "patterns": r.Patterns, "args": r.Args, "format": r.Format, "tests": r.Tests, "race": r.Race, "exit": r.Exit}
	}
	for _, r := range runs {
		if r.TimedOut {
			viol("deadlock:"+r.Kind, fmt.Sprintf("run %s did not terminate within the time limit (GOMAXPROCS=%d yield=%d): the scheduler hangs", r.ID, r.GMP, r.Yield),
				map[string]any{"run": descr(r), "stderr": r.Stderr})
		} else if r.Exit != 0 && r.Exit != 1 {
			viol("crash:"+r.Kind, fmt.Sprintf("run %s exited with status %d", r.ID, r.Exit), map[string]any{"run": descr(r), "stderr": r.Stderr})
		}
	}
	refDiags, _ := parseJSON(ref.Stdout)
	out.RefDiags = refDiags
	if len(refDiags) < 10 {
		viol("harness:few-diagnostics", fmt.Sprintf("the reference run printed only %d diagnostics; the generated module no longer exercises the linter", len(refDiags)), map[string]any{"stdout": ref.Stdout, "stderr": ref.Stderr})
	}
	for _, r := range runs {
		if r.TimedOut {
			continue
		}
		switch r.Kind {
		case "same117":
			if r.Stdout != ref117.Stdout || r.Exit != ref117.Exit {
				viol("nondeterministic-output", fmt.Sprintf("same input, different output: run %s (-go 1.17, GOMAXPROCS=%d yield=%d, %d patterns) differs from the reference run (-go 1.17, GOMAXPROCS=16)", r.ID, r.GMP, r.Yield, len(r.Patterns)),
					map[string]any{"run": descr(r), "ref": descr(ref117), "diff": firstDiff(ref117.Stdout, r.Stdout), "module": mod})
			}
		case "same", "warm":
			if r.Stdout != ref.Stdout || r.Exit != ref.Exit {
				viol("nondeterministic-output", fmt.Sprintf("same input, different output: run %s (GOMAXPROCS=%d yield=%d, %d patterns) differs from the reference run (GOMAXPROCS=16)", r.ID, r.GMP, r.Yield, len(r.Patterns)),
					map[string]any{"run": descr(r), "ref": descr(ref), "diff": firstDiff(ref.Stdout, r.Stdout), "module": mod})
			}
		case "partial":
			named := map[string]bool{}
			for _, p := range r.Patterns {
				named[strings.TrimPrefix(p, "./")] = true
			}
			got, err := parseJSON(r.Stdout)
			if err != nil {
				viol("crash:partial-output", "output of a partial run is not JSON lines", map[string]any{"run": descr(r), "stdout": r.Stdout})
				continue
			}
			for p := range named {
				a, b := perPkg(refDiags, mod, p), perPkg(got, mod, p)
				if a != b {
					viol("package-dependent-output", fmt.Sprintf("problems reported for package %s change with the set of packages named: run %s names %v", p, r.ID, r.Patterns),
						map[string]any{"run": descr(r), "package": p, "all_named": a, "subset_named": b})
				}
			}
		}
	}
	if !ref117.TimedOut && !strings.Contains(ref117.Stdout, "requires go1.18 or later") {
		viol("harness:no-runtime-failure", "the -go 1.17 reference run does not report the type-check failure of package rtfail: the scenario of a package failing while the runner executes is not exercised", map[string]any{"stdout": ref117.Stdout, "stderr": ref117.Stderr})
	}
	for _, r := range dirRuns[min(1, len(dirRuns)):] {
		if !r.TimedOut && !dirRuns[0].TimedOut && (r.Stdout != dirRuns[0].Stdout || r.Exit != dirRuns[0].Exit) {
			viol("nondeterministic-output", fmt.Sprintf("same input, different output: two cold runs of ./dirs (overlapping //lint:file-ignore and //lint:ignore directives) differ (%s vs %s)", dirRuns[0].ID, r.ID),
				map[string]any{"run": descr(r), "ref": descr(dirRuns[0]), "diff": firstDiff(dirRuns[0].Stdout, r.Stdout), "ref_stdout": dirRuns[0].Stdout, "run_stdout": r.Stdout})
		}
	}
	if !tx0.TimedOut && !tx1.TimedOut && (tx0.Stdout != tx1.Stdout || tx0.Exit != tx1.Exit) {
		viol("nondeterministic-output", "same input, different text output", map[string]any{"run": descr(tx1), "ref": descr(tx0), "diff": firstDiff(tx0.Stdout, tx1.Stdout)})
	}
	out.Runs = append(out.Runs, runs...)

	// race detector
	if raceBin != "" {
		var rr []*Run
		for i := 0; i < *nrace; i++ {
			n++
			tests := i%2 == 1 // odd race runs include the test variants (and hence the standard library closure)
			r := &Run{ID: fmt.Sprintf("race%02d", i), Kind: "race", GMP: []int{4, 16, 2}[i%3], Yield: 1 + rnd.Uint64()%1000000, Patterns: []string{"./..."}, Format: "json", Tests: tests, Race: true}
			r.Cache = filepath.Join(work, "cache-"+r.ID)
			rr = append(rr, r)
		}
		if *n117 > 0 {
			r := &Run{ID: "race117", Kind: "race117", GMP: 4, Yield: 1 + rnd.Uint64()%1000000, Patterns: []string{"./..."}, Args: go117, Format: "json", Tests: false, Race: true}
			r.Cache = filepath.Join(work, "cache-"+r.ID)
			rr = append(rr, r)
		}
		var rwg sync.WaitGroup
		for _, r := range rr {
			os.MkdirAll(r.Cache, 0o777)
			rwg.Add(1)
			go func(r *Run) {
				defer rwg.Done()
				execRun(r, mod)
			}(r)
		}
		rwg.Wait()
		if *raceRepo != "" {
			r := &Run{ID: "race-repo", Kind: "race-repo", GMP: 8, Yield: 1 + rnd.Uint64()%1000000, Patterns: strings.Split(*raceRepo, ","), Format: "json", Tests: true, Race: true}
			r.Cache = filepath.Join(work, "cache-"+r.ID)
			os.MkdirAll(r.Cache, 0o777)
			execRun(r, *repo)
			rr = append(rr, r)
		}
		for _, r := range rr {
			out.RaceRuns++
			if strings.Contains(r.Stderr, "DATA RACE") || r.Exit == 66 {
				viol("data-race", "the race detector reports a data race in run "+r.ID, map[string]any{"run": descr(r), "report": raceReport(r.Stderr)})
			} else if r.TimedOut {
				viol("deadlock:race", "race run did not terminate", map[string]any{"run": descr(r)})
			} else if r.Exit != 0 && r.Exit != 1 {
				viol("crash:race", fmt.Sprintf("race run exited with status %d", r.Exit), map[string]any{"run": descr(r), "stderr": r.Stderr})
			} else if r.Kind == "race" && !r.Tests && r.Stdout != nt.Stdout && !nt.TimedOut {
				viol("nondeterministic-output", "race build prints a different result than the plain build for the same input", map[string]any{"run": descr(r), "ref": descr(nt), "diff": firstDiff(nt.Stdout, r.Stdout)})
			} else if r.Kind == "race117" && r.Stdout != ref117.Stdout && !ref117.TimedOut {
				viol("nondeterministic-output", "race build prints a different result than the plain build for the same input (-go 1.17)", map[string]any{"run": descr(r), "ref": descr(ref117), "diff": firstDiff(ref117.Stdout, r.Stdout)})
			} else if r.Kind == "race" && r.Tests && r.Stdout != ref.Stdout {
				viol("nondeterministic-output", "race build prints a different result than the plain build for the same input", map[string]any{"run": descr(r), "ref": descr(ref), "diff": firstDiff(ref.Stdout, r.Stdout)})
			}
			out.RaceLog += fmt.Sprintf("%s exit=%d ms=%d diags=%d; ", r.ID, r.Exit, r.Ms, r.NDiag)
		}
		out.Runs = append(out.Runs, rr...)
	}
	for _, r := range out.Runs {
		if r != ref {
			r.Stdout = ""
		}
		if len(r.Stderr) > 2000 {
			r.Stderr = r.Stderr[:2000]
		}
	}
	hx.EmitJSON(*outp, out)
}

func runAll(runs []*Run, dir, stdCache string, par int) {
	sem := make(chan struct{}, par)
	var wg sync.WaitGroup
	for _, r := range runs {
		wg.Add(1)
		sem <- struct{}{}
		go func(r *Run) {
			defer wg.Done()
			defer func() { <-sem }()
			if err := exec.Command("cp", "-r", stdCache, r.Cache).Run(); err != nil {
				os.MkdirAll(r.Cache, 0o777)
			}
			execRun(r, dir)
		}(r)
	}
	wg.Wait()
}

func execRun(r *Run, dir string) {
	b := bin
	if r.Race {
		b = raceBin
	}
	args := []string{"-f", r.Format}
	if !r.Tests {
		args = append(args, "-tests=false")
	}
	args = append(args, r.Args...)
	args = append(args, r.Patterns...)
	cmd := exec.Command(b, args...)
	cmd.Dir = dir
	e := append([]string(nil), env...)
	e = append(e, "STATICCHECK_CACHE="+r.Cache, fmt.Sprintf("GOMAXPROCS=%d", r.GMP))
	if r.Yield != 0 {
		e = append(e, fmt.Sprintf("VERIF_YIELD=%d", r.Yield))
	}
	if r.Trace != "" {
		os.Remove(r.Trace)
		e = append(e, "VERIF_TRACE="+r.Trace)
	}
	if r.Race {
		e = append(e, "GORACE=halt_on_error=0 exitcode=66")
	}
	cmd.Env = e
	var so, se bytes.Buffer
	cmd.Stdout, cmd.Stderr = &so, &se
	t0 := time.Now()
	limit := 240 * time.Second
	if r.Race {
		limit = 900 * time.Second
	}
	if r.Kind == "race-repo" {
		limit = 3 * time.Hour
	}
	if err := cmd.Start(); err != nil {
		r.Exit = -1
		r.Stderr = err.Error()
		return
	}
	done := make(chan error, 1)
	go func() { done <- cmd.Wait() }()
	select {
	case err := <-done:
		if ee, ok := err.(*exec.ExitError); ok {
			r.Exit = ee.ExitCode()
		} else if err != nil {
			r.Exit = -1
		}
	case <-time.After(limit):
		cmd.Process.Kill()
		<-done
		r.TimedOut = true
		r.Exit = -2
	}
	r.Ms = time.Since(t0).Milliseconds()
	r.Stdout = so.String()
	r.Stderr = se.String()
	r.Sha = fmt.Sprintf("%x", sha256.Sum256(so.Bytes()))[:16]
	if r.Format == "json" {
		d, _ := parseJSON(r.Stdout)
		r.NDiag = len(d)
	} else {
		r.NDiag = strings.Count(r.Stdout, "\n")
	}
}

func parseJSON(s string) ([]Diag, error) {
	var out []Diag
	dec := json.NewDecoder(strings.NewReader(s))
	for dec.More() {
		var d Diag
		if err := dec.Decode(&d); err != nil {
			return out, err
		}
		out = append(out, d)
	}
	return out, nil
}

// perPkg renders, in printed order, the diagnostics located in the directory of package p.
func perPkg(ds []Diag, mod, p string) string {
	var b strings.Builder
	dir := filepath.Join(mod, p)
	for _, d := range ds {
		if filepath.Dir(d.Location.File) == dir {
			fmt.Fprintf(&b, "%s:%d:%d-%d:%d %s %s %q\n", filepath.Base(d.Location.File), d.Location.Line, d.Location.Column, d.End.Line, d.End.Column, d.Code, d.Severity, d.Message)
		}
	}
	return b.String()
}

func firstDiff(a, b string) map[string]any {
	la, lb := strings.Split(a, "\n"), strings.Split(b, "\n")
	for i := 0; i < len(la) || i < len(lb); i++ {
		var x, y string
		if i < len(la) {
			x = la[i]
		}
		if i < len(lb) {
			y = lb[i]
		}
		if x != y {
			return map[string]any{"line": i + 1, "ref": x, "run": y, "ref_lines": len(la), "run_lines": len(lb)}
		}
	}
	return nil
}

func raceReport(stderr string) string {
	i := strings.Index(stderr, "WARNING: DATA RACE")
	if i < 0 {
		return ""
	}
	s := stderr[i:]
	if len(s) > 4000 {
		s = s[:4000]
	}
	return s
}

// ---------------------------------------------------------------------------------------------------
// module generator

// function bodies that trigger a check each; %s is replaced by a unique suffix
var snippets = []string{
	"func SelfAssign%s(n int) int {\n\tx := n\n\tx = x\n\treturn x\n}\n",                           // SA4018
	"func BoolCmp%s(b bool) int {\n\tif b == true {\n\t\treturn 1\n\t}\n\treturn 0\n}\n",           // S1002
	"func Ident%s(n int) bool {\n\tif n == n {\n\t\treturn true\n\t}\n\treturn false\n}\n",         // SA4000, S1008
	"func RetBool%s(x int) bool {\n\tif x > 0 {\n\t\treturn true\n\t}\n\treturn false\n}\n",        // S1008
	"func Merge%s() int {\n\tvar x int\n\tx = 1\n\treturn x\n}\n",                                  // S1021
	"func LoopExit%s(n int) int {\n\tfor i := 0; i < n; i++ {\n\t\treturn i\n\t}\n\treturn 0\n}\n", // SA4004
	"func Redundant%s(n *int) {\n\t*n = 1\n\treturn\n}\n",                                          // S1023
	"func NeverUsed%s(n int) int {\n\tx := n + 1\n\tx = n + 2\n\treturn x\n}\n",                    // SA4006
	"func unusedFn%s() int { return 3 }\n",                                                         // U1000
	"type unusedT%s struct{ f int }\n",                                                             // U1000
	"func Clean%s(a, b int) int { return a*b + 1 }\n",
}

type pkgSpec struct {
	name    string
	imports []string
	broken  bool
	tests   bool
	generic bool
	dup     int
}

func genModule(dir string, rnd *hx.Rand, files map[string]string) []string {
	specs := []pkgSpec{
		{name: "base"},
		{name: "util"},
		{name: "iso"},
		{name: "mid1", imports: []string{"base", "util"}},
		{name: "mid2", imports: []string{"base"}},
		{name: "mid3", imports: []string{"util", "mid2"}},
		{name: "top", imports: []string{"mid1", "mid2", "mid3"}},
		{name: "withtest", imports: []string{"base"}, tests: true},
		{name: "usestest", imports: []string{"withtest", "mid1"}, tests: true},
		{name: "broken", imports: []string{"util"}, broken: true},
		{name: "usesbroken", imports: []string{"broken", "base"}},
		{name: "apex", imports: []string{"top", "usestest", "iso"}},
		// rtfail type-checks only with go >= 1.18 (generic code): with `-go 1.17` it fails while the runner executes;
		// its dependents also depend on packages that finish later
		{name: "rtfail", generic: true},
		{name: "rtdep1", imports: []string{"rtfail", "mid3"}},
		{name: "rtdep2", imports: []string{"rtdep1", "top"}},
		{name: "rtdep3", imports: []string{"rtfail", "apex", "rtdep2"}},
		{name: "rtdep4", imports: []string{"rtfail", "iso"}},
		{name: "rtdep5", imports: []string{"rtfail", "util"}},
		{name: "rtdep6", imports: []string{"rtdep4", "base"}},
		// the same unexported object (same name, file name, line) used in dupa and unused in dupb
		{name: "dupa", dup: 1},
		{name: "dupb", dup: 2},
	}
	// optional extra edges (keep the graph acyclic: only from later to earlier entries)
	for i := 3; i < len(specs); i++ {
		if specs[i].generic || specs[i].dup != 0 {
			continue
		}
		if rnd.Chance(40) {
			j := rnd.Intn(i)
			if specs[j].broken || specs[j].name == "usesbroken" || specs[j].dup != 0 {
				continue
			}
			dup := false
			for _, x := range specs[i].imports {
				if x == specs[j].name {
					dup = true
				}
			}
			if !dup {
				specs[i].imports = append(specs[i].imports, specs[j].name)
			}
		}
	}
	write := func(rel, content string) {
		hx.WriteFile(filepath.Join(dir, rel), content)
		files[rel] = content
	}
	write("go.mod", "module example.com/c06m\n\ngo 1.22\n")
	var names []string
	for pi, s := range specs {
		names = append(names, s.name)
		var b strings.Builder
		fmt.Fprintf(&b, "// Package %s is generated.\npackage %s\n\n", s.name, s.name)
		if len(s.imports) > 0 {
			b.WriteString("import (\n")
			for _, im := range s.imports {
				fmt.Fprintf(&b, "\t\"example.com/c06m/%s\"\n", im)
			}
			b.WriteString(")\n\n")
		}
		// every package exports a deprecated function, a pure function and a plain one
		fmt.Fprintf(&b, "// Old%d is old.\n//\n// Deprecated: use New%d.\nfunc Old%d() int { return %d }\n\n", pi, pi, pi, pi)
		fmt.Fprintf(&b, "// New%d is new.\nfunc New%d() int { return %d }\n\n", pi, pi, pi+100)
		fmt.Fprintf(&b, "// Pure%d has no side effects.\nfunc Pure%d(a int) int { return a * %d }\n\n", pi, pi, pi+2)
		// uses of the imports: deprecated calls (SA1019, needs the imported package's facts), ignored
		// results of pure functions (SA4017, purity facts), plain calls
		fmt.Fprintf(&b, "// Use%d uses the imports.\nfunc Use%d() int {\n\tn := 0\n", pi, pi)
		for _, im := range s.imports {
			ii := indexOf(specs, im)
			switch rnd.Intn(3) {
			case 0:
				fmt.Fprintf(&b, "\tn += %s.Old%d()\n", im, ii)
			case 1:
				fmt.Fprintf(&b, "\t%s.Pure%d(n)\n\tn += %s.New%d()\n", im, ii, im, ii)
			default:
				fmt.Fprintf(&b, "\tn += %s.New%d() + %s.Old%d()\n", im, ii, im, ii)
			}
		}
		b.WriteString("\treturn n\n}\n\n")
		// two different problems at one position (SA4018 and SA4006 on `x = x`): their printed order is decided by
		// the later fields of the sort key only
		fmt.Fprintf(&b, "// Tie%d has two problems at one position.\nfunc Tie%d(n int) int {\n\tx := n\n\tx = x\n\tx = %d\n\treturn x\n}\n\n", pi, pi, pi)
		nf := 2 + rnd.Intn(4)
		for k := 0; k < nf; k++ {
			sn := snippets[rnd.Intn(len(snippets))]
			if rnd.Chance(15) {
				b.WriteString("//lint:ignore SA4018,S1002,SA4000,S1008 generated\n")
			}
			fmt.Fprintf(&b, sn+"\n", fmt.Sprintf("%d_%d", pi, k))
		}
		if rnd.Chance(30) {
			fmt.Fprintf(&b, "//lint:ignore SA9999 never matches\nfunc Directive%d() {}\n\n", pi)
		}
		if s.broken {
			b.WriteString("var brokenValue int = \"not an int\"\n")
		}
		if s.generic {
			fmt.Fprintf(&b, "// Id%d is generic.\nfunc Id%d[T any](x T) T { return x }\n\n// UseId%d instantiates it.\nfunc UseId%d() int { return Id%d(%d) }\n", pi, pi, pi, pi, pi, pi)
		}
		if s.dup != 0 {
			// util.go is identical in both packages up to the package clause; helper is called only in dupa
			call := "helper()"
			if s.dup == 2 {
				call = "41"
			}
			write(s.name+"/util.go", fmt.Sprintf("package %s\n\nfunc helper() int { return 7 }\n", s.name))
			fmt.Fprintf(&b, "// Dup%d may use helper.\nfunc Dup%d() int { return %s }\n", pi, pi, call)
		}
		write(s.name+"/"+s.name+".go", b.String())
		if rnd.Chance(50) {
			// a second file, so that a package has several files
			write(s.name+"/extra.go", fmt.Sprintf("package %s\n\n"+snippets[rnd.Intn(len(snippets))], s.name, fmt.Sprintf("%dx", pi)))
		}
		if s.tests {
			var t strings.Builder
			fmt.Fprintf(&t, "package %s\n\nimport \"testing\"\n\n", s.name)
			fmt.Fprintf(&t, "func helper%d() int { return Old%d() }\n\nfunc unusedHelper%d() {}\n\n", pi, pi, pi)
			fmt.Fprintf(&t, "func TestInternal%d(t *testing.T) {\n\tif helper%d() == helper%d() {\n\t\tt.Log(\"ok\")\n\t}\n}\n", pi, pi, pi)
			write(s.name+"/"+s.name+"_test.go", t.String())
			var x strings.Builder
			fmt.Fprintf(&x, "package %s_test\n\nimport (\n\t\"testing\"\n\n\t\"example.com/c06m/%s\"\n)\n\n", s.name, s.name)
			fmt.Fprintf(&x, "func TestExternal%d(t *testing.T) {\n\tx := %s.Old%d()\n\tx = x\n\t_ = x\n}\n", pi, s.name, pi)
			write(s.name+"/"+s.name+"_x_test.go", x.String())
		}
	}
	// package dirs: in every file a //lint:file-ignore and a //lint:ignore both cover the one SA4018 problem
	for k := 0; k < 4; k++ {
		doc := ""
		if k == 0 {
			doc = "// Package dirs has overlapping linter directives.\n"
		}
		write(fmt.Sprintf("dirs/f%d.go", k), fmt.Sprintf(doc+"package dirs\n\n//lint:file-ignore SA4018 the whole file is exempt\n\n// A%d has a self-assignment that is also exempt on its own line.\nfunc A%d(n int) int {\n\tx := n\n\t//lint:ignore SA4018 exempt here as well\n\tx = x\n\treturn x\n}\n", k, k))
	}
	names = append(names, "dirs")
	sort.Strings(names)
	return names
}

func indexOf(specs []pkgSpec, name string) int {
	for i, s := range specs {
		if s.name == name {
			return i
		}
	}
	return -1
}
