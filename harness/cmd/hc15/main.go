// hc15: ties the Coq model of the nilness analysis to analysis/facts/nilness and checks the exported facts
// against real executions.
//   1. generates modules of functions with pointer-like results (hx.GenNilModule),
//   2. runs the REAL nilness.Analysis (through lintcmd/runner) with a harness analyzer that serialises every
//      source function's IR into the mini-IR of coq/Model/C15.v together with Result.Nilness for each result,
//   3. compiles and runs the module's driver, which calls every function on an input grid and reports the
//      nil-ness it observed (outer and inner) for every result.
package main

import (
	"bufio"
	"flag"
	"fmt"
	"os"
	"os/exec"
	"path/filepath"
	"regexp"
	"sort"
	"strings"
	"sync"

	"golang.org/x/tools/go/analysis"
	"honnef.co/go/tools/analysis/facts/nilness"
	"honnef.co/go/tools/config"
	"honnef.co/go/tools/staticcheck/sa4023"
	"honnef.co/go/tools/verifhooks"
	"verifharness/hx"
)

type Module struct {
	Dir     string
	Sources map[string]string
	Funcs   []hx.NilFunc
	Obs     map[string][5]int // "pkg.Name k" -> returned, outerNil, outerNon, innerNil, innerNon
	Flagged []string          // "pkg.Name k" of results whose comparison with nil SA4023 calls impossible
	RunErr  string
}

var flagRe = regexp.MustCompile(`func C_([ab])_([A-Za-z0-9]+)_(\d+)\(`)

func analyse(dir string, cache string, patterns ...string) ([]hx.NilFunc, []string, error) {
	var flagged []string
	var mu sync.Mutex
	var funcs []hx.NilFunc
	an := &analysis.Analyzer{
		Name:     "verifnil",
		Doc:      "serialises IR and nilness facts",
		Requires: []*analysis.Analyzer{verifhooks.BuildIR, nilness.Analysis},
		Run: func(pass *analysis.Pass) (any, error) {
			if !strings.HasPrefix(pass.Pkg.Path(), "example.com/") {
				return nil, nil
			}
			irp := pass.ResultOf[verifhooks.BuildIR].(*verifhooks.IR)
			res := pass.ResultOf[nilness.Analysis].(*nilness.Result)
			for _, fn := range irp.SrcFuncs {
				f := hx.SerNilFunc(fn, res)
				if f.Unsupported == "no object / no body" || f.Unsupported == "no pointer-like result" {
					continue
				}
				mu.Lock()
				funcs = append(funcs, f)
				mu.Unlock()
			}
			return nil, nil
		},
	}
	results, err := hx.RunAnalyzers(dir, cache, "module", config.DefaultConfig, []*analysis.Analyzer{an, sa4023.Analyzer}, nil, patterns...)
	if err != nil {
		return nil, nil, err
	}
	for _, r := range results {
		if r.Failed {
			return nil, nil, fmt.Errorf("package %s failed: %v", r.Package.ID, r.Errors)
		}
		if !r.Initial {
			continue
		}
		data, err := r.Load()
		if err != nil {
			return nil, nil, err
		}
		for _, d := range data.Diagnostics {
			if !strings.Contains(d.Message, "this comparison is never true") || !strings.HasSuffix(d.Position.Filename, "c.go") {
				continue
			}
			src, _ := os.ReadFile(d.Position.Filename)
			lines := strings.Split(string(src), "\n")
			if d.Position.Line-1 < len(lines) {
				if m := flagRe.FindStringSubmatch(lines[d.Position.Line-1]); m != nil {
					flagged = append(flagged, fmt.Sprintf("%s.%s %s", m[1], m[2], m[3]))
				}
			}
		}
	}
	sort.Slice(funcs, func(i, j int) bool {
		if funcs[i].Pkg != funcs[j].Pkg {
			return funcs[i].Pkg < funcs[j].Pkg
		}
		return funcs[i].Name < funcs[j].Name
	})
	sort.Strings(flagged)
	return funcs, flagged, nil
}

func main() {
	work := flag.String("work", "", "scratch directory")
	out := flag.String("out", "", "output JSON")
	seed := flag.Uint64("seed", 1, "seed")
	nmod := flag.Int("modules", 2, "generated modules")
	na := flag.Int("na", 20, "functions in package a")
	nb := flag.Int("nb", 20, "functions in package b")
	extra := flag.String("extra", "", "additional module directory to analyse (no execution)")
	corpus := flag.String("corpus", "", "corpus module (same layout as a generated module, with its own driver)")
	flag.Parse()
	r := hx.NewRand(*seed)
	var mods []Module
	process := func(dir string, tag string) {
		mod := Module{Dir: dir, Sources: map[string]string{}, Obs: map[string][5]int{}}
		for _, f := range []string{"a/a.go", "b/b.go", "c/c.go"} {
			data, _ := os.ReadFile(filepath.Join(dir, f))
			mod.Sources[f] = string(data)
		}
		funcs, flagged, err := analyse(dir, filepath.Join(*work, "cache-"+tag), "./a", "./b", "./c")
		mod.Flagged = flagged
		if err != nil {
			fmt.Fprintln(os.Stderr, "analysis failed:", err)
			os.Exit(2)
		}
		for i := range funcs {
			funcs[i].Pkg = strings.TrimPrefix(funcs[i].Pkg, "example.com/nilgen/")
		}
		mod.Funcs = funcs
		// execution oracle
		exe := filepath.Join(dir, "prog")
		cmd := exec.Command("go", "build", "-o", exe, ".")
		cmd.Dir = dir
		cmd.Env = hx.GoEnv()
		if outb, err := cmd.CombinedOutput(); err != nil {
			fmt.Fprintf(os.Stderr, "module %s does not build: %v\n%s\n", tag, err, outb)
			os.Exit(2)
		}
		run := exec.Command(exe)
		run.Dir = dir
		outb, err := run.Output()
		if err != nil {
			mod.RunErr = err.Error()
		}
		sc := bufio.NewScanner(strings.NewReader(string(outb)))
		for sc.Scan() {
			var name string
			var k int
			var o [5]int
			if n, _ := fmt.Sscan(sc.Text(), &name, &k, &o[0], &o[1], &o[2], &o[3], &o[4]); n == 7 {
				mod.Obs[fmt.Sprintf("%s %d", name, k)] = o
			}
		}
		os.Remove(exe)
		mods = append(mods, mod)
	}
	if *corpus != "" {
		dir := filepath.Join(*work, "corpus")
		if err := os.CopyFS(dir, os.DirFS(*corpus)); err != nil {
			fmt.Fprintln(os.Stderr, "copy corpus:", err)
			os.Exit(2)
		}
		process(dir, "corpus")
	}
	for m := 0; m < *nmod; m++ {
		dir := filepath.Join(*work, fmt.Sprintf("mod%d", m))
		hx.GenNilModule(r.Fork(), dir, *na, *nb)
		process(dir, fmt.Sprint(m))
	}
	var extraFuncs []hx.NilFunc
	if *extra != "" {
		fs, _, err := analyse(*extra, filepath.Join(*work, "cache-extra"), "./...")
		if err != nil {
			fmt.Fprintln(os.Stderr, "analysis of extra module failed:", err)
			os.Exit(2)
		}
		extraFuncs = fs
	}
	hx.EmitJSON(*out, map[string]any{"Modules": mods, "Extra": extraFuncs})
}
