package main

import (
	"honnef.co/go/tools/lintcmd"
	"honnef.co/go/tools/lintcmd/version"
	"honnef.co/go/tools/simple"
	"honnef.co/go/tools/staticcheck"
	"honnef.co/go/tools/stylecheck"
	"honnef.co/go/tools/unused"
)

// asStaticcheck is cmd/staticcheck's main (minus the two debug flags): the same Command, the same analyzers,
// the same flag parsing, linting, filtering and formatting code. hc10 re-executes itself in this mode so that
// the CLI path is exercised black-box without building a second 16 MB binary.
func asStaticcheck(args []string) {
	cmd := lintcmd.NewCommand("staticcheck")
	cmd.SetVersion(version.Version, version.MachineVersion)
	cmd.ParseFlags(args)
	cmd.AddAnalyzers(simple.Analyzers...)
	cmd.AddAnalyzers(staticcheck.Analyzers...)
	cmd.AddAnalyzers(stylecheck.Analyzers...)
	cmd.AddAnalyzers(unused.Analyzer)
	cmd.Run()
}
