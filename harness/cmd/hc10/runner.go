package main

import (
	"fmt"
	"go/token"
	"os"
	"path/filepath"
	"sort"
	"strings"

	"golang.org/x/tools/go/analysis"
	"honnef.co/go/tools/config"
	"honnef.co/go/tools/lintcmd"
	"honnef.co/go/tools/lintcmd/runner"
	"honnef.co/go/tools/staticcheck"
	"honnef.co/go/tools/unused"
	"verifharness/hx"
)

// stream "runner": the REAL loader + runner (hx.RunAnalyzers) on a scratch package with //lint: comments, under
// analyzer sets with and without U1000. Observable: ResultData.Directives must hold every directive of the package
// whatever analyzers are registered; the recorded diagnostics and directives are then put through filterIgnored and the
// outcome is compared (in coqc) with the model applied to the comment texts themselves.
type RCase struct {
	Set      string
	Allowed  [][2]string
	Comments []CDir // text, position of the comment, position of the line below
	Dirs     []Dir  // what the runner serialised
	Diags    []Diag // what the analyzers reported (input of filterIgnored)
	Out      []Diag // filterIgnored(Diags, serialised directives, Allowed)
}

func findAnalyzer(name string) *analysis.Analyzer {
	if name == "U1000" {
		return unused.Analyzer.Analyzer
	}
	for _, a := range staticcheck.Analyzers {
		if a.Analyzer.Name == name {
			return a.Analyzer
		}
	}
	panic("no analyzer " + name)
}

func noU1000(r *hx.Rand, here []string) string {
	for {
		s := genNames(r, here, []string{"SA4000", "SA4006", "S1002", "ST1003"})
		ok := true
		for _, nm := range strings.Split(s, ",") {
			if m, _ := filepath.Match(strings.ToLower(nm), "u1000"); m {
				ok = false
			}
		}
		if ok {
			return s
		}
	}
}

func runRunner(r *hx.Rand, work string) []RCase {
	dir := filepath.Join(work, "runmod")
	hx.WriteFile(filepath.Join(dir, "go.mod"), "module c10run\n\ngo 1.22\n")
	var comments []CDir
	gen := func(file string, texts []string) {
		var b strings.Builder
		b.WriteString("package p\n\n")
		line := 3
		for i, t := range texts {
			if t != "" {
				b.WriteString(t + "\n")
				comments = append(comments, CDir{Text: t, DPos: Pos{file, line, 1}, NPos: Pos{file, line + 1, 1}})
				line++
			}
			// SA4000 on the declaration's own line; SA4006 on it as well for every third function
			if i%3 == 2 {
				fmt.Fprintf(&b, "func F%s%d(x int) int { y := 1; y = x; if x == x { return y }; return 0 }\n\n", strings.TrimSuffix(file, ".go"), i)
			} else {
				fmt.Fprintf(&b, "func F%s%d(x int) bool { return x == x }\n\n", strings.TrimSuffix(file, ".go"), i)
			}
			line += 2
		}
		hx.WriteFile(filepath.Join(dir, file), b.String())
	}
	texts := []string{
		"//lint:ignore SA4000 reason", "//lint:ignore SA4000", "//lint:ignore SA4000 ", "", "//lint:ignore SA4006 not here",
		"//lint:ignore sa40* because", "//lint:file-ignore XY1234 reason", "//lint:nolint SA4000 reason", "//lint:ignore S1002,SA4006 both",
	}
	for i := 0; i < 8; i++ {
		parts := append([]string{genCmd(r, true), noU1000(r, []string{"SA4000", "SA4006"})}, genReason(r)...)
		texts = append(texts, "//lint:"+strings.Join(parts, " "))
	}
	gen("p.go", texts)
	gen("q.go", []string{"//lint:file-ignore SA4000 generated", "", "//lint:ignore SA4006 x"})

	var out []RCase
	for k, set := range [][]string{{"SA4000"}, {"SA4000", "SA4006"}, {"SA4000", "U1000"}} {
		var as []*analysis.Analyzer
		allowed := map[string]bool{}
		c := RCase{Set: strings.Join(set, ","), Comments: comments}
		for _, n := range set {
			as = append(as, findAnalyzer(n))
			allowed[n] = true
			c.Allowed = append(c.Allowed, [2]string{strings.ToLower(n), "1"})
		}
		res, err := hx.RunAnalyzers(dir, filepath.Join(work, fmt.Sprintf("run-cache-%d", k)), "module", config.DefaultConfig, as, nil, ".")
		if err != nil {
			fmt.Fprintln(os.Stderr, "runner stream:", err)
			os.Exit(2)
		}
		var diags []lintcmd.VerifC10Diag
		var dirs []runner.SerializedDirective
		for _, rr := range res {
			if !rr.Initial {
				continue
			}
			if rr.Failed {
				fmt.Fprintln(os.Stderr, "runner stream: package failed:", rr.Errors)
				os.Exit(2)
			}
			data := hx.Must(rr.Load())
			for _, d := range data.Diagnostics {
				if !allowed[d.Category] {
					continue // lintcmd.success drops what the user did not ask for
				}
				d.Position.Filename = filepath.Base(d.Position.Filename)
				d.Position.Offset = 0
				d.End = token.Position{}
				d.SuggestedFixes, d.Related = nil, nil
				diags = append(diags, lintcmd.VerifC10Diag{Diagnostic: d})
			}
			for _, d := range data.Directives {
				d.DirectivePosition.Filename = filepath.Base(d.DirectivePosition.Filename)
				d.NodePosition.Filename = filepath.Base(d.NodePosition.Filename)
				d.DirectivePosition.Offset, d.NodePosition.Offset = 0, 0
				dirs = append(dirs, d)
			}
		}
		sort.Slice(diags, func(i, j int) bool {
			a, b := diags[i].Position, diags[j].Position
			if a.Filename != b.Filename {
				return a.Filename < b.Filename
			}
			if a.Line != b.Line {
				return a.Line < b.Line
			}
			return a.Column < b.Column
		})
		sort.Slice(dirs, func(i, j int) bool {
			a, b := dirs[i].DirectivePosition, dirs[j].DirectivePosition
			if a.Filename != b.Filename {
				return a.Filename < b.Filename
			}
			return a.Line < b.Line
		})
		for _, d := range diags {
			c.Diags = append(c.Diags, toDiag(d))
		}
		for _, d := range dirs {
			c.Dirs = append(c.Dirs, Dir{d.Command, d.Arguments, Pos{d.DirectivePosition.Filename, d.DirectivePosition.Line, d.DirectivePosition.Column},
				Pos{d.NodePosition.Filename, d.NodePosition.Line, d.NodePosition.Column}})
		}
		filtered, err := lintcmd.VerifC10FilterIgnored(diags, dirs, allowed)
		if err != nil {
			fmt.Fprintln(os.Stderr, "runner stream:", err)
			os.Exit(2)
		}
		for _, d := range filtered {
			c.Out = append(c.Out, toDiag(d))
		}
		out = append(out, c)
	}
	return out
}
