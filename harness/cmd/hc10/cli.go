package main

import (
	"bytes"
	"encoding/json"
	"fmt"
	"os"
	"os/exec"
	"path/filepath"
	"sort"
	"strings"

	"honnef.co/go/tools/analysis/lint"
	"honnef.co/go/tools/simple"
	"honnef.co/go/tools/staticcheck"
	"honnef.co/go/tools/stylecheck"
	"honnef.co/go/tools/unused"
	"verifharness/hx"
)

// ---------------------------------------------------------------- generated program
// A source file as a list of lines; target[i] says that line i (0-based) starts a statement or declaration, so
// that a comment inserted directly above it is attached to a node starting on that line.
type srcFile struct {
	name    string
	lines   []string
	target  []bool
	keepers map[int][]int // 0-based line of an unused object -> lines of the unused objects it is reachable through
}

func (f *srcFile) add(line string, target bool) int {
	f.lines = append(f.lines, line)
	f.target = append(f.target, target)
	return len(f.lines) - 1
}

// snippets: every function is exported (so U1000 stays silent about it) unless it is meant to be unused
func genFile(name string, tag string, kinds []int) *srcFile {
	f := &srcFile{name: name, keepers: map[int][]int{}}
	f.add("package p", true)
	f.add("", false)
	for i, kind := range kinds {
		id := fmt.Sprintf("%s%d", tag, i)
		switch kind {
		case 0: // SA4000 and S1002 on one line
			f.add("func F"+id+"(x int, b bool) int {", true)
			f.add("\tif x == x && b == true {", true)
			f.add("\t\treturn 1", true)
			f.add("\t}", false)
			f.add("\treturn 0", true)
			f.add("}", false)
		case 1: // SA4006
			f.add("func F"+id+"() int {", true)
			f.add("\tx := 1", true)
			f.add("\tx = 2", true)
			f.add("\treturn x", true)
			f.add("}", false)
		case 2: // SA4003 (S1008 is not used: the check itself keeps quiet when a comment is nearby)
			f.add("func F"+id+"(u uint) bool {", true)
			f.add("\tv := u + 1", true)
			f.add("\treturn v < 0", true)
			f.add("}", false)
		case 3: // ST1017
			f.add("func F"+id+"(a int) int {", true)
			f.add("\tif 1 == a {", true)
			f.add("\t\ta++", true)
			f.add("\t}", false)
			f.add("\treturn a", true)
			f.add("}", false)
		case 4: // SA4013
			f.add("func F"+id+"(b bool) int {", true)
			f.add("\tif !!b {", true)
			f.add("\t\treturn 1", true)
			f.add("\t}", false)
			f.add("\treturn 0", true)
			f.add("}", false)
		case 5: // U1000, independent
			f.add("func unused"+id+"() {}", true)
		case 6: // U1000 chain: B is reachable only through A
			a := f.add("func unusedA"+id+"() { unusedB"+id+"() }", true)
			f.add("", false)
			b := f.add("func unusedB"+id+"() {}", true)
			f.keepers[b] = []int{a}
		case 7: // ST1003 (non-default) and S1005
			f.add("func Bad_name"+id+"(xs []int) int {", true)
			f.add("\tn := 0", true)
			f.add("\tfor i, _ := range xs {", true)
			f.add("\t\tn += i", true)
			f.add("\t}", false)
			f.add("\treturn n", true)
			f.add("}", false)
		case 8: // U1000 on a variable and a type
			f.add("var unusedVar"+id+" = 1", true)
			f.add("", false)
			f.add("type unusedType"+id+" struct{}", true)
		case 9: // nothing to report
			f.add("func Clean"+id+"(a, b int) int {", true)
			f.add("\tc := a + b", true)
			f.add("\treturn c * 2", true)
			f.add("}", false)
		case 10: // two problems of the same check on neighbouring lines
			f.add("func F"+id+"(x, y int) int {", true)
			f.add("\tif x == x {", true)
			f.add("\t\treturn 1", true)
			f.add("\t}", false)
			f.add("\tif y == y {", true)
			f.add("\t\treturn 2", true)
			f.add("\t}", false)
			f.add("\treturn 0", true)
			f.add("}", false)
		}
		f.add("", false)
	}
	return f
}

func indentOf(s string) int {
	n := 0
	for n < len(s) && s[n] == '\t' {
		n++
	}
	return n
}

// a "//line name:N[:1]" comment inserted (at column 1) above base line `at` of `file`: every later line of the file is
// displayed as name:N, N+1, ...; without the column part the displayed column is 0 (unknown)
type remap struct {
	file    string
	at      int
	name    string
	n       int
	withCol bool
	raw     int // 1-based line of the //line comment in the variant (filled by write)
}

type insertion struct {
	file string
	at   int // 0-based line of the base file above which the comment goes
	text string
}

// ---------------------------------------------------------------- analyzers and -checks settings
func allAnalyzers() []*lint.Analyzer {
	var as []*lint.Analyzer
	as = append(as, simple.Analyzers...)
	as = append(as, staticcheck.Analyzers...)
	as = append(as, stylecheck.Analyzers...)
	as = append(as, unused.Analyzer)
	return as
}

// allowed set of a -checks argument made of "all", "NAME" and "-NAME" only ("" = flag absent: all default checks)
func allowedFor(checks string) [][2]string {
	m := map[string]bool{}
	if checks == "" {
		for _, a := range allAnalyzers() {
			m[strings.ToLower(a.Analyzer.Name)] = !a.Doc.NonDefault
		}
	} else {
		for _, c := range strings.Split(checks, ",") {
			switch {
			case c == "all":
				for _, a := range allAnalyzers() {
					m[strings.ToLower(a.Analyzer.Name)] = true
				}
			case strings.HasPrefix(c, "-"):
				m[strings.ToLower(c[1:])] = false
			default:
				m[strings.ToLower(c)] = true
			}
		}
	}
	var keys []string
	for k := range m {
		keys = append(keys, k)
	}
	sort.Strings(keys)
	var out [][2]string
	for _, k := range keys {
		v := "0"
		if m[k] {
			v = "1"
		}
		out = append(out, [2]string{k, v})
	}
	return out
}

// ---------------------------------------------------------------- running the command line
type jsonDiag struct {
	Code     string `json:"code"`
	Severity string `json:"severity"`
	Location struct {
		File   string `json:"file"`
		Line   int    `json:"line"`
		Column int    `json:"column"`
	} `json:"location"`
	Message string `json:"message"`
}

func runStaticcheck(dir, cache string, args ...string) map[string][]Diag {
	self, err := os.Executable()
	if err != nil {
		panic(err)
	}
	cmd := exec.Command(self, append([]string{"-as-staticcheck"}, args...)...)
	cmd.Dir = dir
	cmd.Env = append(hx.GoEnv(), "STATICCHECK_CACHE="+cache)
	var stdout, stderr bytes.Buffer
	cmd.Stdout, cmd.Stderr = &stdout, &stderr
	err = cmd.Run()
	if ee, ok := err.(*exec.ExitError); err != nil && !(ok && ee.ExitCode() == 1) {
		fmt.Fprintf(os.Stderr, "staticcheck %v failed: %v\n%s\n", args, err, stderr.String())
		os.Exit(2)
	}
	res := map[string][]Diag{}
	dec := json.NewDecoder(&stdout)
	for dec.More() {
		var j jsonDiag
		if err := dec.Decode(&j); err != nil {
			fmt.Fprintf(os.Stderr, "cannot decode staticcheck output: %v\n", err)
			os.Exit(2)
		}
		sev := 0
		if j.Severity == "ignored" {
			sev = 2
		}
		pkg := filepath.Base(filepath.Dir(j.Location.File))
		res[pkg] = append(res[pkg], Diag{Pos: Pos{filepath.Base(j.Location.File), j.Location.Line, j.Location.Column}, Cat: j.Code, Msg: j.Message, Sev: sev})
	}
	return res
}

func runCli(r *hx.Rand, work string, nvar int, allRuns bool, o *Output) {
	if nvar <= 0 {
		return
	}
	mod := filepath.Join(work, "mod")
	hx.WriteFile(filepath.Join(mod, "go.mod"), "module c10mod\n\ngo 1.22\n")
	// every snippet kind at least once, in random order, spread over two files
	const nkinds = 11
	var deck []int
	for k := 0; k < nkinds; k++ {
		deck = append(deck, k)
	}
	for k := 0; k < 5; k++ {
		deck = append(deck, r.Intn(nkinds))
	}
	for i := range deck {
		j := i + r.Intn(len(deck)-i)
		deck[i], deck[j] = deck[j], deck[i]
	}
	files := []*srcFile{genFile("a.go", "a", deck[:9]), genFile("b.go", "b", deck[9:])}
	write := func(pkg string, ins []insertion, remaps []*remap) (string, map[string][]int) {
		// returns the concatenated source and, per file, the new 1-based line number of every base line
		var all strings.Builder
		shift := map[string][]int{}
		for _, f := range files {
			var b strings.Builder
			newline := make([]int, len(f.lines))
			n := 0
			for i, l := range f.lines {
				for _, rm := range remaps {
					if rm.file == f.name && rm.at == i {
						if rm.withCol {
							fmt.Fprintf(&b, "//line %s:%d:1\n", rm.name, rm.n)
						} else {
							fmt.Fprintf(&b, "//line %s:%d\n", rm.name, rm.n)
						}
						n++
						rm.raw = n
					}
				}
				for _, in := range ins {
					if in.file == f.name && in.at == i {
						b.WriteString(strings.Repeat("\t", indentOf(l)) + in.text + "\n")
						n++
					}
				}
				n++
				newline[i] = n
				b.WriteString(l + "\n")
			}
			shift[f.name] = newline
			hx.WriteFile(filepath.Join(mod, pkg, f.name), b.String())
			fmt.Fprintf(&all, "// ---- %s/%s\n%s", pkg, f.name, b.String())
		}
		return all.String(), shift
	}
	o.Sources = map[string]string{}
	src, _ := write("base", nil, nil)
	o.Sources["base"] = src

	// -checks settings
	o.Flags = map[string]string{"all": "all", "default": ""}
	cache := filepath.Join(work, "sc-cache")
	// a first run to learn which checks fire where (setting "all")
	base := map[string][]Diag{}
	base["all"] = runStaticcheck(mod, cache, "-f", "json", "-show-ignored", "-checks", "all", "./base")["base"]
	if len(base["all"]) == 0 {
		fmt.Fprintln(os.Stderr, "cli stream: base package has no problems")
		os.Exit(2)
	}
	codeSet := map[string]bool{}
	for _, d := range base["all"] {
		codeSet[d.Cat] = true
	}
	var codes []string
	for c := range codeSet {
		codes = append(codes, c)
	}
	sort.Strings(codes)
	// "minus": all but two checks that fire in the base package; "few": three checks that fire
	perm := append([]string{}, codes...)
	for i := range perm {
		j := i + r.Intn(len(perm)-i)
		perm[i], perm[j] = perm[j], perm[i]
	}
	k := 2
	if len(perm) < 2 {
		k = len(perm)
	}
	o.Flags["minus"] = "all,-" + strings.Join(perm[:k], ",-")
	k3 := 3
	if len(perm) < 3 {
		k3 = len(perm)
	}
	o.Flags["few"] = strings.Join(perm[len(perm)-k3:], ",")
	o.Configs = map[string][][2]string{}
	for name, fl := range o.Flags {
		o.Configs[name] = allowedFor(fl)
	}

	// variants
	type variant struct {
		name   string
		ins    []insertion
		shift  map[string][]int
		remaps []*remap
	}
	codesAt := func(file string, line0 int) []string {
		var l []string
		for _, d := range base["all"] {
			if d.Pos.File == file && d.Pos.Line == line0+1 {
				l = append(l, d.Cat)
			}
		}
		return l
	}
	var variants []variant
	for v := 0; v < nvar; v++ {
		var ins []insertion
		used := map[string]bool{}
		nins := 1 + r.Intn(3)
		for len(ins) < nins {
			f := files[r.Intn(len(files))]
			var cand []int
			for i, t := range f.target {
				if t {
					cand = append(cand, i)
				}
			}
			// prefer lines that carry problems
			at := cand[r.Intn(len(cand))]
			if r.Chance(70) {
				var hot []int
				for _, i := range cand {
					if len(codesAt(f.name, i)) > 0 {
						hot = append(hot, i)
					}
				}
				if len(hot) > 0 {
					at = hot[r.Intn(len(hot))]
				}
			}
			key := fmt.Sprintf("%s:%d", f.name, at)
			if used[key] {
				continue
			}
			used[key] = true
			cmd := genCmd(r, true)
			if cmd == "file-ignore" && r.Chance(40) && !used[f.name+":0"] {
				at = 0 // conventional placement: first line of the file, above the package clause
				used[f.name+":0"] = true
			}
			parts := append([]string{cmd, genNames(r, codesAt(f.name, at), codes)}, genReason(r)...)
			if r.Chance(3) {
				parts = parts[:1]
			}
			ins = append(ins, insertion{file: f.name, at: at, text: "//lint:" + strings.Join(parts, " ")})
		}
		name := fmt.Sprintf("v%03d", v)
		// //line-remapped variants (a sample): the region carrying one of the inserted directives is displayed under
		// another file name and line numbering; the control puts the //line comment after directive and code line.
		// Names matching U1000 are avoided there: unused.go compares raw positions among themselves.
		var remaps []*remap
		if r.Chance(45) {
			in := ins[r.Intn(len(ins))]
			var f *srcFile
			for _, g := range files {
				if g.name == in.file {
					f = g
				}
			}
			var before, after []int
			for i, t := range f.target {
				if t && i > 0 && indentOf(f.lines[i]) == 0 {
					if i <= in.at {
						before = append(before, i)
					} else {
						after = append(after, i)
					}
				}
			}
			at := -1
			switch {
			case r.Chance(25) && len(after) > 0: // control
				at = after[r.Intn(len(after))]
			case in.at > 0 && r.Chance(35): // directly above the directive comment
				at = in.at
			case len(before) > 0:
				at = before[r.Intn(len(before))]
			case in.at > 0:
				at = in.at
			}
			if at > 0 {
				remaps = append(remaps, &remap{file: f.name, at: at, name: fmt.Sprintf("remap%d_%s", v, f.name), n: 100 * (1 + r.Intn(9)), withCol: r.Chance(35)})
				for k := range ins {
					for tries := 0; tries < 50; tries++ {
						fields := strings.Split(strings.TrimPrefix(ins[k].text, "//lint:"), " ")
						bad := false
						if len(fields) > 1 {
							for _, nm := range strings.Split(fields[1], ",") {
								if m, _ := filepath.Match(strings.ToLower(nm), "u1000"); m {
									bad = true
								}
							}
						}
						if !bad {
							break
						}
						fields[1] = genNames(r, codesAt(ins[k].file, ins[k].at), codes)
						ins[k].text = "//lint:" + strings.Join(fields, " ")
					}
				}
			}
		}
		src, shift := write(name, ins, remaps)
		o.Sources[name] = src
		variants = append(variants, variant{name, ins, shift, remaps})
	}

	type runCfg struct {
		config string
		show   bool
	}
	runs := []runCfg{{"all", true}, {"default", true}, {"minus", true}, {"few", true}, {"minus", false}}
	if allRuns {
		runs = append(runs, runCfg{"default", false}, runCfg{"all", false}, runCfg{"few", false})
	}
	for _, rc := range runs {
		args := []string{"-f", "json"}
		if rc.show {
			args = append(args, "-show-ignored")
		}
		if o.Flags[rc.config] != "" {
			args = append(args, "-checks", o.Flags[rc.config])
		}
		args = append(args, "./...")
		res := runStaticcheck(mod, cache, args...)
		b := res["base"]
		for _, v := range variants {
			c := CCase{Config: rc.config, Show: rc.show, Variant: v.name}
			// display position (what report.DisplayPosition yields) of a raw position of the variant
			disp := func(p Pos) Pos {
				var best *remap
				for _, rm := range v.remaps {
					if rm.file == p.File && rm.raw < p.Line && (best == nil || rm.raw > best.raw) {
						best = rm
					}
				}
				if best == nil {
					return p
				}
				q := Pos{best.name, best.n + (p.Line - (best.raw + 1)), p.Col}
				if !best.withCol {
					q.Col = 0
				}
				return q
			}
			for _, d := range b {
				nd := d
				nd.Pos.Line = v.shift[d.Pos.File][d.Pos.Line-1]
				nd.Pos = disp(nd.Pos)
				if d.Cat == "U1000" {
					u := UDiag{D: nd}
					for _, f := range files {
						if f.name == d.Pos.File {
							for _, kl := range f.keepers[d.Pos.Line-1] {
								u.Keepers = append(u.Keepers, disp(Pos{f.name, v.shift[f.name][kl], 1}))
							}
						}
					}
					c.U = append(c.U, u)
				} else {
					c.Base = append(c.Base, nd)
				}
			}
			for _, in := range v.ins {
				var f *srcFile
				for _, g := range files {
					if g.name == in.file {
						f = g
					}
				}
				nl := v.shift[in.file][in.at]
				col := indentOf(f.lines[in.at]) + 1
				// several comments above the same line cannot happen (distinct targets), so the comment is on nl-1
				c.Dirs = append(c.Dirs, CDir{Text: in.text, DPos: disp(Pos{in.file, nl - 1, col}), NPos: disp(Pos{in.file, nl, col})})
			}
			for _, rm := range v.remaps {
				c.Remap = "control"
				for _, in := range v.ins {
					if in.file == rm.file && in.at >= rm.at {
						c.Remap = "before"
					}
				}
			}
			c.Out = res[v.name]
			o.Cli = append(o.Cli, c)
		}
	}
}
