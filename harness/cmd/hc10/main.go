// hc10: drives the ignore-directive machinery of /repo for property C10.
//
//	stream "inproc": generated (diagnostics, directives, allowed-checks) triples through
//	                 lintcmd.filterIgnored (hook VerifC10FilterIgnored), input and observed output recorded;
//	stream "parse":  generated comment texts through the real go/parser + lint.ParseDirectives;
//	stream "cli":    a generated module: package base (problems of several checks) and variants of it with
//	                 //lint:ignore and //lint:file-ignore comments inserted above statement/declaration lines; the
//	                 real command line (this binary re-executed as cmd/staticcheck, see sc.go) is run with
//	                 -f json [-show-ignored] under several -checks settings; reports recorded per package.
//
// Nothing is judged here: checks/C10.py turns the records into Gallina literals and coqc evaluates model and
// specification on them.
package main

import (
	"crypto/sha1"
	"encoding/binary"
	"flag"
	"fmt"
	"go/ast"
	"go/parser"
	"go/token"
	"os"
	"sort"
	"strings"

	"honnef.co/go/tools/analysis/lint"
	"honnef.co/go/tools/lintcmd"
	"honnef.co/go/tools/lintcmd/runner"
	"verifharness/hx"
)

// ---------------------------------------------------------------- records
type Pos struct {
	File string
	Line int
	Col  int
}
type Diag struct {
	Pos  Pos
	Cat  string
	Msg  string
	Sev  int   // 0 error, 1 warning, 2 ignored
	Rest int64 // fingerprint of all remaining fields, 0 when they are all zero
}
type Dir struct {
	Cmd  string
	Args []string
	DPos Pos
	NPos Pos
}
type ICase struct {
	Diags   []Diag
	Dirs    []Dir
	Allowed [][2]string // name, "1"/"0"
	Out     []Diag
	Err     string
}
type PCase struct {
	Text string
	Cmd  string
	Args []string
	// line of the comment and line of the node it was attached to
	Line, NodeLine int
}
type UDiag struct {
	D       Diag
	Keepers []Pos
}
type CDir struct {
	Text string
	DPos Pos
	NPos Pos
}
type CCase struct {
	Config  string
	Show    bool
	Variant string
	Remap   string // "" | "before" (a //line comment precedes an inserted directive) | "control" (it follows directive and code line)
	Base    []Diag
	U       []UDiag
	Dirs    []CDir
	Out     []Diag
}
type Output struct {
	Inproc  []ICase
	Parse   []PCase
	Configs map[string][][2]string // config name -> allowed list
	Flags   map[string]string      // config name -> -checks argument ("" = flag absent)
	Cli     []CCase
	Runner  []RCase
	Sources map[string]string // variant -> concatenated source (for replay files)
}

// ---------------------------------------------------------------- generators: names
var pool = []string{"SA4006", "SA4000", "S1002", "ST1003", "S1008", "ST1017", "SA4004", "S1005"}
var globs = []string{"SA*", "S*", "*", "S?00?", "sa40*", "*6", "ST*", "S1*", "SA400?", "?A4006", "*00*", "st1???"}
var u1000s = []string{"U1000", "u1000", "U*", "?1000", "U100?", "u*"}

func mixCase(r *hx.Rand, s string) string {
	switch r.Intn(3) {
	case 0:
		return strings.ToLower(s)
	case 1:
		b := []byte(s)
		for i := range b {
			if r.Bool() {
				b[i] = strings.ToLower(string(b[i]))[0]
			}
		}
		return string(b)
	}
	return s
}

// one name of a directive; here: codes present on the target line (may be empty)
func genName(r *hx.Rand, here []string, others []string) string {
	k := r.Intn(100)
	switch {
	case k < 25 && len(here) > 0:
		return here[r.Intn(len(here))]
	case k < 33 && len(here) > 0:
		return mixCase(r, here[r.Intn(len(here))])
	case k < 41 && len(here) > 0: // a glob derived from a code on the line
		c := here[r.Intn(len(here))]
		switch r.Intn(4) {
		case 0:
			return c[:len(c)-1] + "?"
		case 1:
			return c[:2] + "*"
		case 2:
			return "*" + c[len(c)-2:]
		}
		return strings.ToLower(c[:3]) + "*"
	case k < 55:
		return others[r.Intn(len(others))]
	case k < 62:
		return mixCase(r, others[r.Intn(len(others))])
	case k < 77:
		return globs[r.Intn(len(globs))]
	case k < 91:
		return u1000s[r.Intn(len(u1000s))]
	case k < 95:
		return "XY1234"
	case k < 97:
		return ""
	}
	return "SA9999"
}

func genNames(r *hx.Rand, here, others []string) string {
	n := 1
	if r.Chance(45) {
		n = 2 + r.Intn(2)
	}
	var l []string
	for i := 0; i < n; i++ {
		l = append(l, genName(r, here, others))
	}
	return strings.Join(l, ",")
}

// arguments after the names: none, empty reason(s), proper reasons
func genReason(r *hx.Rand) []string {
	k := r.Intn(100)
	switch {
	case k < 12:
		return nil // no reason at all
	case k < 20:
		return []string{""} // trailing space
	case k < 24:
		return []string{"", ""}
	case k < 30:
		return []string{"", "reason"} // double space before the reason
	case k < 60:
		return []string{"reason"}
	}
	return []string{"some", "longer", "reason"}
}

// cli: the comment ends up in a real source file. go/ast's CommentGroup.Text drops comments of the form
// //[a-z0-9]+:[a-z0-9] (directives) but keeps anything else as documentation, and checks such as ST1000/ST1020-22 then
// react to the comment itself; that is the analyzers' business, not the directive machinery's, so only commands starting
// with a lower-case letter are inserted into source files.
func genCmd(r *hx.Rand, cli bool) string {
	k := r.Intn(100)
	switch {
	case k < 62:
		return "ignore"
	case k < 88:
		return "file-ignore"
	case k < 92:
		if cli {
			return "ignored"
		}
		return "Ignore"
	case k < 96:
		return "nolint"
	}
	return "ignore-file"
}

// ---------------------------------------------------------------- stream 1: in-process triples
func fingerprint(d lintcmd.VerifC10Diag) int64 {
	if d.End == (token.Position{}) && len(d.SuggestedFixes) == 0 && len(d.Related) == 0 && d.MergeIf == 0 && d.BuildName == "" &&
		d.Position.Offset == 0 {
		return 0
	}
	h := sha1.Sum([]byte(fmt.Sprintf("%#v|%#v|%#v|%d|%q|%d", d.End, d.SuggestedFixes, d.Related, d.MergeIf, d.BuildName, d.Position.Offset)))
	return int64(binary.BigEndian.Uint64(h[:8]) >> 34)
}

func toDiag(d lintcmd.VerifC10Diag) Diag {
	return Diag{Pos: Pos{d.Position.Filename, d.Position.Line, d.Position.Column}, Cat: d.Category, Msg: d.Message, Sev: d.Severity, Rest: fingerprint(d)}
}

func genInproc(r *hx.Rand, n int) []ICase {
	files := []string{"a.go", "b.go"}
	var out []ICase
	for i := 0; i < n; i++ {
		var c ICase
		nd := r.Intn(7)
		var in []lintcmd.VerifC10Diag
		for j := 0; j < nd; j++ {
			cat := pool[r.Intn(len(pool))]
			if r.Chance(6) {
				cat = strings.ToLower(cat)
			}
			d := lintcmd.VerifC10Diag{}
			d.Position = token.Position{Filename: files[r.Intn(2)], Line: 1 + r.Intn(6), Column: 1 + r.Intn(5)}
			d.Category = cat
			d.Message = fmt.Sprintf("problem %d", j)
			if r.Chance(50) {
				d.End = token.Position{Filename: d.Position.Filename, Line: d.Position.Line, Column: d.Position.Column + 1 + r.Intn(4)}
			}
			if r.Chance(15) {
				d.Severity = 1
			} else if r.Chance(5) {
				d.Severity = 2
			}
			if r.Chance(30) {
				d.MergeIf = 1
			}
			if r.Chance(20) {
				d.BuildName = "linux"
			}
			if r.Chance(15) {
				d.Related = []runner.RelatedInformation{{Message: "rel"}}
			}
			if r.Chance(15) {
				d.SuggestedFixes = []runner.SuggestedFix{{Message: "fix"}}
			}
			in = append(in, d)
		}
		allowed := map[string]bool{}
		for _, p := range append(append([]string{}, pool...), "U1000") {
			k := r.Intn(100)
			if k < 68 {
				allowed[p] = true
			} else if k < 84 {
				allowed[p] = false
			}
		}
		ndir := r.Intn(5)
		var dirs []runner.SerializedDirective
		for j := 0; j < ndir; j++ {
			var np token.Position
			var here []string
			if len(in) > 0 && r.Chance(75) {
				d := in[r.Intn(len(in))]
				np = token.Position{Filename: d.Position.Filename, Line: d.Position.Line, Column: 1 + r.Intn(3)}
			} else {
				np = token.Position{Filename: files[r.Intn(2)], Line: 1 + r.Intn(7), Column: 1 + r.Intn(3)}
			}
			for _, d := range in {
				if d.Position.Filename == np.Filename && d.Position.Line == np.Line {
					here = append(here, d.Category)
				}
			}
			dp := token.Position{Filename: np.Filename, Line: np.Line - 1, Column: np.Column}
			if r.Chance(10) {
				dp.Line = np.Line // trailing comment
				dp.Column = 20
			}
			for clash := true; clash; { // comments have distinct positions
				clash = false
				for _, e := range dirs {
					if e.DirectivePosition == dp {
						clash = true
						dp.Column++
					}
				}
			}
			var args []string
			if !r.Chance(4) {
				args = append([]string{genNames(r, here, pool)}, genReason(r)...)
			}
			dirs = append(dirs, runner.SerializedDirective{Command: genCmd(r, false), Arguments: args, DirectivePosition: dp, NodePosition: np})
		}
		for _, d := range in {
			c.Diags = append(c.Diags, toDiag(d))
		}
		for _, d := range dirs {
			c.Dirs = append(c.Dirs, Dir{d.Command, d.Arguments, Pos{d.DirectivePosition.Filename, d.DirectivePosition.Line, d.DirectivePosition.Column},
				Pos{d.NodePosition.Filename, d.NodePosition.Line, d.NodePosition.Column}})
		}
		var keys []string
		for k := range allowed {
			keys = append(keys, k)
		}
		sort.Strings(keys)
		for _, k := range keys {
			v := "0"
			if allowed[k] {
				v = "1"
			}
			c.Allowed = append(c.Allowed, [2]string{strings.ToLower(k), v})
		}
		res, err := lintcmd.VerifC10FilterIgnored(in, dirs, allowed)
		if err != nil {
			c.Err = err.Error()
		}
		for _, d := range res {
			c.Out = append(c.Out, toDiag(d))
		}
		out = append(out, c)
	}
	return out
}

// ---------------------------------------------------------------- stream 2: comment texts
func genTexts(r *hx.Rand, n int) []string {
	fixed := []string{
		"//lint:ignore SA4006 reason", "//lint:ignore SA4006", "//lint:ignore SA4006 ", "//lint:ignore SA4006  ",
		"//lint:ignore  SA4006 reason", "//lint:ignore", "//lint:", "//lint:ignore ", "//lint:file-ignore U1000 generated code",
		"//lint:ignore SA4006,S1002 two names", "//lint: ignore SA4006 reason", "//lint:ignore SA4006 reason ", "//lint:ignore   ",
		"//lint:deprecated", "//lint:ignore SA* a  b",
	}
	out := append([]string{}, fixed...)
	for len(out) < n {
		var b strings.Builder
		b.WriteString("//lint:")
		nf := r.Intn(5)
		for i := 0; i <= nf; i++ {
			if i > 0 {
				b.WriteString(" ")
			}
			switch r.Intn(6) {
			case 0: // empty field
			case 1:
				b.WriteString(genCmd(r, false))
			case 2, 3:
				b.WriteString(genNames(r, nil, pool))
			default:
				b.WriteString([]string{"reason", "x", "because,of", "//", "it's"}[r.Intn(5)])
			}
		}
		out = append(out, b.String())
	}
	return out
}

func runParse(r *hx.Rand, n int) []PCase {
	texts := genTexts(r, n)
	var src strings.Builder
	src.WriteString("package p\n\n")
	for i, t := range texts {
		fmt.Fprintf(&src, "%s\nfunc f%d() {}\n\n", t, i)
	}
	fset := token.NewFileSet()
	f, err := parser.ParseFile(fset, "p.go", src.String(), parser.ParseComments)
	if err != nil {
		fmt.Fprintln(os.Stderr, "parse stream: generated file does not parse:", err)
		os.Exit(2)
	}
	dirs := lint.ParseDirectives([]*ast.File{f}, fset)
	var out []PCase
	for _, d := range dirs {
		p := fset.Position(d.Directive.Pos())
		np := fset.Position(d.Node.Pos())
		out = append(out, PCase{Text: d.Directive.Text, Cmd: d.Command, Args: d.Arguments, Line: p.Line, NodeLine: np.Line})
	}
	sort.Slice(out, func(i, j int) bool { return out[i].Line < out[j].Line })
	if len(out) != len(texts) {
		fmt.Fprintf(os.Stderr, "parse stream: %d comment texts but %d directives\n", len(texts), len(out))
		os.Exit(2)
	}
	return out
}

// ---------------------------------------------------------------- main
func main() {
	if len(os.Args) > 1 && os.Args[1] == "-as-staticcheck" {
		asStaticcheck(os.Args[2:])
		return
	}
	work := flag.String("work", "", "scratch directory (outside /repo and /verif)")
	out := flag.String("out", "", "output JSON")
	seed := flag.Uint64("seed", 1, "seed")
	nin := flag.Int("inproc", 2000, "number of in-process triples")
	npar := flag.Int("parse", 200, "number of comment texts")
	nvar := flag.Int("variants", 40, "number of CLI variants")
	allRuns := flag.Bool("allruns", false, "run every -checks setting with and without -show-ignored")
	flag.Parse()
	rnd := hx.NewRand(*seed)
	var o Output
	o.Inproc = genInproc(rnd.Fork(), *nin)
	o.Parse = runParse(rnd.Fork(), *npar)
	runCli(rnd.Fork(), *work, *nvar, *allRuns, &o)
	o.Runner = runRunner(rnd.Fork(), *work)
	hx.EmitJSON(*out, o)
}
