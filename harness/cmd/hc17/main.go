// hc17: C17 harness — exported U1000 graphs of packages, of their permutations (files and declarations reordered,
// analysis repeated) and of extensions by one reference; variant merge through the real runner and the real CLI.
// Writes Gallina bundles (for coq/Model/C17_Check.v), sharded, and a JSON description of every case.
package main

import (
	"flag"
	"fmt"
	"os"
	"path/filepath"
	"reflect"
	"sort"
	"strings"
	"time"

	"verifharness/hx"
	"verifharness/u1000"
)

type caseInfo struct {
	Kind    string // G (graph), P (permutation), M (added reference)
	Index   int    // index inside the bundle
	What    string
	Sources []u1000.SrcFile `json:",omitempty"`
	Other   []u1000.SrcFile `json:",omitempty"`
	Detail  []string        `json:",omitempty"`
}

type bundleInfo struct {
	Pkg   string
	Shard int
	Index int // index inside the shard
	Cases []caseInfo
}

type output struct {
	Bundles []bundleInfo
	Skipped []string
	Stats   map[string]int
	Harness []string // failures detected by the harness itself (analyzer errors, packages that do not load)
	Shards  int
	Variants *u1000.VariantOutput `json:",omitempty"`
}

func main() {
	work := flag.String("work", "", "scratch directory")
	out := flag.String("out", "", "output prefix (writes <out>.json, <out>_<k>.v)")
	seed := flag.Uint64("seed", 1, "seed")
	ngen := flag.Int("gen", 60, "number of generated packages")
	nperm := flag.Int("perms", 2, "permutations per package")
	nmono := flag.Int("mono", 2, "added references per package")
	cperm := flag.Int("cperms", 1, "permutations per corpus package")
	cmono := flag.Int("cmono", 1, "added references per corpus package")
	maxOrders := flag.Int("maxorders", 120, "orders tried per directed package (all orders if it has that few)")
	shards := flag.Int("shards", 8, "number of case files")
	corpus := flag.String("corpus", "", "comma separated dir:pattern+pattern (module roots)")
	maxNodes := flag.Int("maxnodes", 4000, "skip corpus packages whose graph is larger")
	testdata := flag.String("testdata", "", "GOPATH-style testdata directory (<repo>/unused/testdata/src/example.com), copied into a scratch module")
	staticcheck := flag.String("staticcheck", "", "path of the staticcheck binary built from the tree (enables the variant tie)")
	nvar := flag.Int("variants", 8, "number of generated packages with test variants")
	flag.Parse()
	rnd := hx.NewRand(*seed)
	o := output{Stats: map[string]int{}, Shards: *shards}
	texts := make([][]string, *shards)

	process := func(p *u1000.Pkg, across bool, nperm, nmono int, orders [][]u1000.SrcFile) {
		if orders != nil {
			nperm = len(orders)
		}
		bi := bundleInfo{Pkg: p.Name}
		var graphs, perms, monos []string
		addG := func(q *u1000.Pkg, what string) int {
			in := u1000.NewInterner()
			g := u1000.Labelled(q.Nodes, in)
			res := func(r [3][]uint64) string { return fmt.Sprintf("(%s, %s, %s)", nl(r[0]), nl(r[1]), nl(r[2])) }
			r1 := [3][]uint64{u1000.ObjIDs(q.Result.Used, in), u1000.ObjIDs(q.Result.Unused, in), u1000.ObjIDs(q.Result.Quiet, in)}
			r2 := [3][]uint64{u1000.ObjIDs(q.Result2.Used, in), u1000.ObjIDs(q.Result2.Unused, in), u1000.ObjIDs(q.Result2.Quiet, in)}
			graphs = append(graphs, fmt.Sprintf("mkG %s\n %s\n %s", g, res(r1), res(r2)))
			bi.Cases = append(bi.Cases, caseInfo{Kind: "G", Index: len(graphs) - 1, What: what, Sources: q.Sources})
			o.Stats["graphs"]++
			o.Stats["nodes"] += len(q.Nodes)
			for _, n := range q.Nodes {
				o.Stats["use_edges"] += len(n.Uses)
				o.Stats["own_edges"] += len(n.Owns)
			}
			o.Stats["unused_objects"] += len(q.Result.Unused)
			o.Stats["quiet_objects"] += len(q.Result.Quiet)
			return len(graphs) - 1
		}
		g0 := addG(p, "original")
		// --- the analysis repeated, and permutations
		for k := 0; k <= nperm; k++ {
			srcs := p.Sources
			what := "analysis repeated"
			if k > 0 && orders != nil {
				srcs = orders[k-1]
				what = fmt.Sprintf("declarations reordered (order %d of all %d)", k, len(orders))
			} else if k > 0 {
				srcs = p.Permute(rnd, across)
				what = "files and declarations permuted"
			}
			q, errs, _ := u1000.Check(p.Name, p.Path, p.Dir, srcs, p.Imports)
			if len(errs) > 0 {
				o.Skipped = append(o.Skipped, fmt.Sprintf("%s: %s: does not type-check: %v", p.Name, what, errs[0]))
				o.Stats["perm_discarded"]++
				continue
			}
			if err := q.Analyze(); err != nil {
				o.Harness = append(o.Harness, fmt.Sprintf("%s (%s): %v", p.Name, what, err))
				continue
			}
			gj := g0
			if k > 0 || !sameAnalysis(p, q) {
				gj = addG(q, what)
			} else {
				o.Stats["repeat_identical"]++
			}
			pi, pinv, ua, ub := u1000.MatchNodes(p, q, "text")
			in := u1000.NewInterner()
			un1, un2 := p.ResultLabels("text", p.Result.Unused), q.ResultLabels("text", q.Result.Unused)
			us1, us2 := p.ResultLabels("text", p.Result.Used), q.ResultLabels("text", q.Result.Used)
			perms = append(perms, fmt.Sprintf("mkPR %d %d %s %s\n %s %s\n %s %s", g0, gj, nl(pi), nl(pinv),
				nl(u1000.StrIDs(un1, in)), nl(u1000.StrIDs(un2, in)), nl(u1000.StrIDs(us1, in)), nl(u1000.StrIDs(us2, in))))
			ci := caseInfo{Kind: "P", Index: len(perms) - 1, What: what, Sources: p.Sources, Other: q.Sources}
			for _, l := range ua {
				ci.Detail = append(ci.Detail, "node only in the original graph: "+l)
			}
			for _, l := range ub {
				ci.Detail = append(ci.Detail, "node only in the second graph: "+l)
			}
			ci.Detail = append(ci.Detail, diff("reported unused only in the original: ", un1, un2)...)
			ci.Detail = append(ci.Detail, diff("reported unused only in the second: ", un2, un1)...)
			bi.Cases = append(bi.Cases, ci)
			o.Stats["perm_cases"]++
			for i, x := range pi {
				if uint64(i) != x {
					o.Stats["perm_renumbered"]++
					break
				}
			}
		}
		// --- monotonicity
		for k := 0; k < nmono; k++ {
			srcs, ref, ok := p.AddReference(rnd)
			if !ok {
				break
			}
			q, errs, _ := u1000.Check(p.Name, p.Path, p.Dir, srcs, p.Imports)
			if len(errs) > 0 {
				o.Stats["mono_discarded"]++
				o.Skipped = append(o.Skipped, fmt.Sprintf("%s: added reference %q does not type-check: %v", p.Name, ref.Text, errs[0]))
				continue
			}
			if err := q.Analyze(); err != nil {
				o.Harness = append(o.Harness, fmt.Sprintf("%s (+%s): %v", p.Name, ref.Text, err))
				continue
			}
			gj := addG(q, "with "+ref.Text)
			pi, _, _, _ := u1000.MatchNodes(p, q, "index")
			in := u1000.NewInterner()
			u1, u2 := p.ResultLabels("index", p.Result.Used), q.ResultLabels("index", q.Result.Used)
			monos = append(monos, fmt.Sprintf("mkMR %d %d %s\n %s %s", g0, gj, nl(pi), nl(u1000.StrIDs(u1, in)), nl(u1000.StrIDs(u2, in))))
			ci := caseInfo{Kind: "M", Index: len(monos) - 1, What: fmt.Sprintf("added %q (%s) inside used function %q", ref.Text, ref.Kind, ref.From), Sources: p.Sources, Other: q.Sources}
			ci.Detail = diff("used before but not after: ", u1, u2)
			bi.Cases = append(bi.Cases, ci)
			o.Stats["mono_cases"]++
			if len(q.Result.Used) > len(p.Result.Used) {
				o.Stats["mono_used_grew"]++
			}
		}
		sh := len(o.Bundles) % *shards
		bi.Shard, bi.Index = sh, len(texts[sh])
		texts[sh] = append(texts[sh], fmt.Sprintf("mkB [%s]\n [%s]\n [%s]", strings.Join(graphs, ";\n"), strings.Join(perms, ";\n"), strings.Join(monos, ";\n")))
		o.Bundles = append(o.Bundles, bi)
	}

	t0 := time.Now()
	lap := func(what string) {
		fmt.Fprintf(os.Stderr, "[hc17 %.1fs] %s\n", time.Since(t0).Seconds(), what)
	}
	// generated packages
	for i := 0; i < *ngen; i++ {
		name := fmt.Sprintf("gen%03d", i)
		srcs := u1000.GenPackage(rnd, name, 4+rnd.Intn(6), rnd.Chance(30))
		dir := filepath.Join(*work, "gen", name)
		p, errs, _ := u1000.Check(name, "example.com/gen/"+name, dir, srcs, nil)
		if len(errs) > 0 {
			o.Harness = append(o.Harness, fmt.Sprintf("%s: generated package does not type-check: %v", name, errs[0]))
			continue
		}
		p.WriteToDisk()
		if err := p.Analyze(); err != nil {
			o.Skipped = append(o.Skipped, fmt.Sprintf("%s: analyzer failed (not a C07/C17 matter, see C03): %v", name, err))
			o.Stats["analyzer_failed"]++
			continue
		}
		o.Stats["generated"]++
		process(p, true, *nperm, *nmono, nil)
	}
	// directed packages: ALL declaration orders
	{
		dp := u1000.DirectedPackages()
		var names []string
		for n := range dp {
			names = append(names, n)
		}
		sort.Strings(names)
		for _, name := range names {
			dir := filepath.Join(*work, "directed", name)
			p, errs, _ := u1000.Check("directed/"+name, "example.com/directed/"+name, dir, dp[name], nil)
			if len(errs) > 0 {
				o.Harness = append(o.Harness, fmt.Sprintf("directed/%s does not type-check: %v", name, errs[0]))
				continue
			}
			p.WriteToDisk()
			if err := p.Analyze(); err != nil {
				o.Skipped = append(o.Skipped, fmt.Sprintf("directed/%s: analyzer failed: %v", name, err))
				o.Stats["analyzer_failed"]++
				continue
			}
			o.Stats["directed"]++
			process(p, false, 0, 1, p.AllOrders(*maxOrders, rnd))
		}
	}
	lap("generated packages done")
	// corpora on disk
	if *testdata != "" {
		td := filepath.Join(*work, "td")
		if err := u1000.CopyTree(*testdata, td); err != nil {
			o.Harness = append(o.Harness, "copying testdata: "+err.Error())
		} else {
			hx.WriteFile(filepath.Join(td, "go.mod"), "module example.com\n\ngo 1.26\n")
			if *corpus != "" {
				*corpus += ","
			}
			*corpus += td + ":./..."
		}
	}
	if *corpus != "" {
		for _, spec := range strings.Split(*corpus, ",") {
			parts := strings.SplitN(spec, ":", 2)
			pkgs, skipped := u1000.LoadDir(parts[0], strings.Split(parts[1], "+")...)
			o.Skipped = append(o.Skipped, skipped...)
			for _, p := range pkgs {
				if err := p.Analyze(); err != nil {
					o.Skipped = append(o.Skipped, fmt.Sprintf("%s: analyzer failed (not a C07/C17 matter, see C03): %v", p.Name, err))
					o.Stats["analyzer_failed"]++
					continue
				}
				if len(p.Nodes) > *maxNodes {
					o.Skipped = append(o.Skipped, fmt.Sprintf("%s: graph has %d nodes (> %d), left to the thorough tier", p.Name, len(p.Nodes), *maxNodes))
					continue
				}
				o.Stats["corpus"]++
				process(p, false, *cperm, *cmono, nil)
			}
		}
	}
	lap("corpus done")
	for k := range texts {
		var b strings.Builder
		b.WriteString("Definition bundles : list bundle := [\n")
		b.WriteString(strings.Join(texts[k], ";\n"))
		b.WriteString("\n].\n")
		hx.WriteFile(fmt.Sprintf("%s_%d.v", *out, k), b.String())
	}
	if *staticcheck != "" {
		v := u1000.RunVariants(rnd, filepath.Join(*work, "variants"), *staticcheck, *nvar)
		o.Variants = v
		hx.WriteFile(*out+"_V.v", v.Coq)
		hx.WriteFile(*out+"_R.v", v.CoqRunner)
		hx.WriteFile(*out+"_G.v", v.CoqGraph)
		lap("variants done")
	}
	sort.Strings(o.Skipped)
	hx.EmitJSON(*out+".json", o)
	if len(o.Harness) > 0 {
		fmt.Fprintln(os.Stderr, "harness-level failures:", len(o.Harness))
	}
}

// sameAnalysis reports whether two analyses produced literally the same nodes, edges (in order) and result lists.
func sameAnalysis(p, q *u1000.Pkg) bool {
	return reflect.DeepEqual(p.Nodes, q.Nodes) && reflect.DeepEqual(p.Result, q.Result) && reflect.DeepEqual(p.Result2, q.Result2)
}

func nl(xs []uint64) string {
	var b strings.Builder
	b.WriteString("[")
	for i, x := range xs {
		if i > 0 {
			b.WriteString("; ")
		}
		fmt.Fprintf(&b, "%d", x)
	}
	b.WriteString("]")
	return b.String()
}

func diff(prefix string, a, b []string) []string {
	m := map[string]bool{}
	for _, x := range b {
		m[x] = true
	}
	var out []string
	for _, x := range a {
		if !m[x] {
			out = append(out, prefix+x)
		}
	}
	return out
}
