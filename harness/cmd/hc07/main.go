// hc07: C07 harness — for generated packages, unused/testdata and repository packages:
//   * the exported U1000 graph and unused.Result (model correspondence),
//   * every identifier use of the package (types.Info.Uses, implicit fields of Info.Selections) as a reference
//     (declaration it lies in, node carrying the use edge, target) — the hypothesis edges_cover_refs,
//   * the unexported package-level objects no identifier refers to (second half of the property),
//   * really deleting every reported object and type-checking the rest with go/types.
package main

import (
	"flag"
	"fmt"
	"os"
	"path/filepath"
	"sort"
	"strings"
	"time"

	"verifharness/hx"
	"verifharness/u1000"
)

type refInfo struct {
	Write  bool `json:",omitempty"`
	Pos    string
	Name   string
	InDecl string
	Target string
}

type pkgInfo struct {
	Pkg        string
	Shard      int
	Index      int
	Nodes      int
	Refs       []refInfo            `json:",omitempty"`
	WRefs      []refInfo            `json:",omitempty"`
	Candidates []string             `json:",omitempty"` // label -> description, in order of d_cands
	CandLabels []uint64             `json:",omitempty"`
	Deleted    int
	DelSkipped []string             `json:",omitempty"`
	DelErrors  []string             `json:",omitempty"`
	DelWriteOnly []string           `json:",omitempty"`
	Sources    []u1000.SrcFile      `json:",omitempty"`
	Reported   []string             `json:",omitempty"`
}

type output struct {
	Packages []pkgInfo
	Skipped  []string
	Stats    map[string]int
	Harness  []string
	Shards   int
	SameName *u1000.SameNameOutput `json:",omitempty"`
}

func main() {
	work := flag.String("work", "", "scratch directory")
	out := flag.String("out", "", "output prefix")
	seed := flag.Uint64("seed", 1, "seed")
	ngen := flag.Int("gen", 60, "number of generated packages")
	shards := flag.Int("shards", 8, "number of case files")
	corpus := flag.String("corpus", "", "comma separated dir:pattern+pattern")
	testdata := flag.String("testdata", "", "GOPATH-style testdata directory copied into a scratch module")
	maxNodes := flag.Int("maxnodes", 4000, "skip the Coq case (not the deletion test) for larger graphs")
	staticcheck := flag.String("staticcheck", "", "staticcheck binary built from the tree (enables the same-name-packages tie through the CLI)")
	keepSrc := flag.Bool("sources", true, "store sources of generated packages in the JSON (for replay)")
	flag.Parse()
	rnd := hx.NewRand(*seed*7919 + 17)
	o := output{Stats: map[string]int{}, Shards: *shards}
	texts := make([][]string, *shards)
	t0 := time.Now()
	lap := func(what string) { fmt.Fprintf(os.Stderr, "[hc07 %.1fs] %s\n", time.Since(t0).Seconds(), what) }

	process := func(p *u1000.Pkg, generated bool) {
		pi := pkgInfo{Pkg: p.Name, Nodes: len(p.Nodes)}
		if generated && *keepSrc {
			pi.Sources = p.Sources
		}
		for _, ob := range p.Result.Unused {
			pi.Reported = append(pi.Reported, fmt.Sprintf("%s %s @%s:%d", ob.Kind, ob.Name, filepath.Base(ob.Position.Filename), ob.Position.Line))
		}
		o.Stats["packages"]++
		o.Stats["reported"] += len(p.Result.Unused)
		// (ii) really delete and type-check
		rep := p.DeleteReported()
		pi.Deleted, pi.DelSkipped, pi.DelErrors, pi.DelWriteOnly = len(rep.Deleted), rep.Skipped, rep.Errors, rep.WriteOnly
		if len(rep.WriteOnly) > 0 {
			o.Stats["packages_with_write_only_vars"]++
		}
		o.Stats["deleted_objects"] += len(rep.Deleted)
		o.Stats["deletion_skipped_objects"] += len(rep.Skipped)
		if len(rep.Deleted) > 0 {
			o.Stats["packages_with_deletions"]++
		}
		if (len(rep.Errors) > 0 || len(rep.WriteOnly) > 0) && pi.Sources == nil {
			pi.Sources = p.Sources
		}
		// (i) references and candidates into a Coq case
		if len(p.Nodes) <= *maxNodes {
			refs := p.Refs()
			in := u1000.NewInterner()
			g := u1000.Labelled(p.Nodes, in)
			r3 := func(u, un, q []uint64) string {
				return fmt.Sprintf("(%s, %s, %s)", nl(u), nl(un), nl(q))
			}
			r1 := r3(u1000.ObjIDs(p.Result.Used, in), u1000.ObjIDs(p.Result.Unused, in), u1000.ObjIDs(p.Result.Quiet, in))
			r2 := r3(u1000.ObjIDs(p.Result2.Used, in), u1000.ObjIDs(p.Result2.Unused, in), u1000.ObjIDs(p.Result2.Quiet, in))
			var rs, ws []string
			var wrefs []refInfo
			for _, r := range refs {
				ri := refInfo{
					Write:  r.Write,
					Pos:    fmt.Sprintf("%s:%d:%d", filepath.Base(r.Pos.Filename), r.Pos.Line, r.Pos.Column),
					Name:   r.Name,
					InDecl: describe(p, r.A),
					Target: describe(p, r.B),
				}
				if r.Write {
					ws = append(ws, fmt.Sprintf("(%d, %d, %d)", r.A, r.Witness, r.B))
					wrefs = append(wrefs, ri)
				} else {
					rs = append(rs, fmt.Sprintf("(%d, %d, %d)", r.A, r.Witness, r.B))
					pi.Refs = append(pi.Refs, ri)
				}
			}
			pi.WRefs = wrefs
			o.Stats["write_refs"] += len(ws)
			var cands []uint64
			for _, c := range p.ZeroRefCandidates() {
				var label uint64
				if id, ok := p.Objs[c.Obj]; ok {
					label = in.ID(p.Nodes[id].Obj)
				} else {
					label = in.ID("no node: " + c.Obj.String())
				}
				cands = append(cands, label)
				pi.Candidates = append(pi.Candidates, fmt.Sprintf("%s %s @%s:%d", c.Kind, c.Obj.Name(), filepath.Base(c.Pos.Filename), c.Pos.Line))
			}
			pi.CandLabels = cands
			o.Stats["refs"] += len(refs)
			o.Stats["candidates"] += len(cands)
			o.Stats["nodes"] += len(p.Nodes)
			sh := len(o.Packages) % *shards
			pi.Shard, pi.Index = sh, len(texts[sh])
			texts[sh] = append(texts[sh], fmt.Sprintf("mkD (mkG %s\n %s\n %s)\n [%s]\n [%s]\n %s", g, r1, r2, strings.Join(rs, "; "), strings.Join(ws, "; "), nl(cands)))
			o.Stats["coq_cases"]++
		} else {
			pi.Shard, pi.Index = -1, -1
			o.Skipped = append(o.Skipped, fmt.Sprintf("%s: graph has %d nodes (> %d): deletion test only", p.Name, len(p.Nodes), *maxNodes))
		}
		o.Packages = append(o.Packages, pi)
	}

	for i := 0; i < *ngen; i++ {
		name := fmt.Sprintf("gen%03d", i)
		srcs := u1000.GenPackage(rnd, name, 4+rnd.Intn(7), rnd.Chance(30))
		dir := filepath.Join(*work, "gen", name)
		p, errs, _ := u1000.Check(name, "example.com/gen/"+name, dir, srcs, nil)
		if len(errs) > 0 {
			o.Harness = append(o.Harness, fmt.Sprintf("%s: generated package does not type-check: %v", name, errs[0]))
			continue
		}
		p.WriteToDisk()
		if err := p.Analyze(); err != nil {
			o.Skipped = append(o.Skipped, fmt.Sprintf("%s: analyzer failed (not a C07/C17 matter, see C03): %v", name, err))
			o.Stats["analyzer_failed"]++
			continue
		}
		o.Stats["generated"]++
		process(p, true)
	}
	// directed packages (fixed shapes)
	{
		dp := u1000.DirectedPackages()
		var names []string
		for n := range dp {
			names = append(names, n)
		}
		sort.Strings(names)
		for _, name := range names {
			p, errs, _ := u1000.Check("directed/"+name, "example.com/directed/"+name, filepath.Join(*work, "directed", name), dp[name], nil)
			if len(errs) > 0 {
				o.Harness = append(o.Harness, fmt.Sprintf("directed/%s does not type-check: %v", name, errs[0]))
				continue
			}
			p.WriteToDisk()
			if err := p.Analyze(); err != nil {
				o.Skipped = append(o.Skipped, fmt.Sprintf("directed/%s: analyzer failed: %v", name, err))
				o.Stats["analyzer_failed"]++
				continue
			}
			o.Stats["directed"]++
			process(p, true)
		}
	}
	lap("generated packages done")
	if *testdata != "" {
		td := filepath.Join(*work, "td")
		if err := u1000.CopyTree(*testdata, td); err != nil {
			o.Harness = append(o.Harness, "copying testdata: "+err.Error())
		} else {
			hx.WriteFile(filepath.Join(td, "go.mod"), "module example.com\n\ngo 1.26\n")
			if *corpus != "" {
				*corpus += ","
			}
			*corpus += td + ":./..."
		}
	}
	if *corpus != "" {
		for _, spec := range strings.Split(*corpus, ",") {
			parts := strings.SplitN(spec, ":", 2)
			pkgs, skipped := u1000.LoadDir(parts[0], strings.Split(parts[1], "+")...)
			o.Skipped = append(o.Skipped, skipped...)
			for _, p := range pkgs {
				if err := p.Analyze(); err != nil {
					o.Skipped = append(o.Skipped, fmt.Sprintf("%s: analyzer failed (not a C07/C17 matter, see C03): %v", p.Name, err))
					o.Stats["analyzer_failed"]++
					continue
				}
				o.Stats["corpus"]++
				process(p, false)
			}
		}
	}
	lap("corpus done")
	for k := range texts {
		var b strings.Builder
		b.WriteString("Definition cases : list caseD := [\n")
		b.WriteString(strings.Join(texts[k], ";\n"))
		b.WriteString("\n].\n")
		hx.WriteFile(fmt.Sprintf("%s_%d.v", *out, k), b.String())
	}
	if *staticcheck != "" {
		sn := u1000.RunSameName(rnd, filepath.Join(*work, "samename"), *staticcheck)
		o.SameName = sn
		hx.WriteFile(*out+"_L.v", sn.Coq)
		lap("same-name packages through the CLI done")
	}
	sort.Strings(o.Skipped)
	hx.EmitJSON(*out+".json", o)
}

func describe(p *u1000.Pkg, id uint64) string {
	if id == 0 {
		return "(package)"
	}
	ob := p.Nodes[id].Obj
	return fmt.Sprintf("%s %s @%s:%d", ob.Kind, ob.Name, filepath.Base(ob.Position.Filename), ob.Position.Line)
}

func nl(xs []uint64) string {
	var b strings.Builder
	b.WriteString("[")
	for i, x := range xs {
		if i > 0 {
			b.WriteString("; ")
		}
		fmt.Fprintf(&b, "%d", x)
	}
	b.WriteString("]")
	return b.String()
}
