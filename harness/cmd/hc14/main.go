// hc14: for every function of the corpora (generated goto/structured/generic functions, packages of the
// repository, */testdata packages) built by go/ir under builder-mode combinations, record the CFG
// (successor lists, recover block) and the five dominance observables of the exported API:
// Dominates for all ordered pairs, Idom, Dominees, DomPreorder, DomPostorder.
// Output: JSON {Cases: [...], Stats: {...}}; identical (CFG, observation) pairs are emitted once.
package main

import (
	"crypto/sha1"
	"encoding/json"
	"flag"
	"fmt"
	"os"
	"strings"
	"time"

	"honnef.co/go/tools/go/ir"
	"verifharness/hx"
)

type Case struct {
	ID     int
	Corpus string
	Pkg    string
	Func   string
	Mode   string
	CFG    hx.IRCFG
	Dom    hx.IRDom
	Stats  hx.CFGStats
	Dups   int // further (function, mode) pairs with the identical CFG and observation
}

// BigSample: sampled observation of one huge function (beyond the block limit of tree_check), NaiveForm only.
type BigSample struct {
	Func   string
	Blocks int
	Source string // how to regenerate: the function is `nIf` consecutive `if a&k == k { s += k }` statements
	NIf    int
	Pairs  [][7]int // b, c, Dominates(b,c) (0/1), pos of b and c in DomPreorder, pos of b and c in DomPostorder
}

type Out struct {
	Big        *BigSample
	Cases      []*Case
	Functions  int            // (function, mode) pairs observed
	Skipped    int            // functions over the block limit
	ByCorpus   map[string]int // functions per corpus kind
	Modes      []string
	Items      []string
	Gen        hx.GenStats
	MaxBlocks  int
	Sources    map[string]map[string]string // corpus item -> path -> generated source
	LoadErrors []string
}

func main() {
	work := flag.String("work", "", "scratch directory")
	out := flag.String("out", "", "output JSON")
	seed := flag.Uint64("seed", 1, "seed")
	tier := flag.String("tier", "quick", "quick|thorough")
	naiveOnly := flag.Bool("naiveonly", false, "build only NaiveForm modes (used after a crash in a lifted mode: the lifter is not run, so a wrong dominator tree is observed instead of crashing lift)")
	noBig := flag.Bool("nobig", false, "skip the huge-function sample")
	flag.Parse()
	rnd := hx.NewRand(*seed)
	thorough := *tier == "thorough"

	npk, nf, maxBlocks, ntd := 3, 32, 100, 2
	repoPats := []string{"./go/ir", "./config"}
	modes := []ir.BuilderMode{0, ir.NaiveForm, ir.GlobalDebug | ir.InstantiateGenerics, ir.NaiveForm | ir.GlobalDebug | ir.InstantiateGenerics | ir.BuildSerially}
	if thorough {
		npk, nf, maxBlocks, ntd = 40, 60, 700, 0
		repoPats = []string{"./..."}
		modes = hx.AllModes()
	}
	if *naiveOnly {
		var nm []ir.BuilderMode
		for _, m := range modes {
			if m&ir.NaiveForm != 0 {
				nm = append(nm, m)
			}
		}
		modes = nm
	}
	res := &Out{ByCorpus: map[string]int{}, Sources: map[string]map[string]string{}, MaxBlocks: maxBlocks}
	for _, m := range modes {
		res.Modes = append(res.Modes, hx.ModeLetters(m))
	}

	t0 := time.Now()
	lap := func(what string) {
		fmt.Fprintf(os.Stderr, "hc14: %-10s %6.1fs\n", what, time.Since(t0).Seconds())
	}
	var items []*hx.CorpusItem
	gen, err := hx.GenCorpus(rnd.Fork(), *work, npk, nf)
	if err != nil {
		fmt.Fprintln(os.Stderr, "fatal:", err)
		os.Exit(2)
	}
	items = append(items, gen...)
	lap("gen-load")
	repo, err := hx.RepoCorpus(repoPats)
	if err != nil {
		res.LoadErrors = append(res.LoadErrors, "repo: "+err.Error())
	}
	items = append(items, repo...)
	lap("repo-load")
	items = append(items, hx.TestdataCorpus(hx.Sample(rnd.Fork(), hx.TestdataDirs(), ntd))...)

	lap("td-load")
	var buildT time.Duration
	seen := map[[20]byte]*Case{}
	for _, it := range items {
		res.Items = append(res.Items, it.Name)
		if it.Kind == "gen" {
			res.Sources[it.Name] = it.Sources
			res.Gen.GotoFuncs += it.Gen.GotoFuncs
			res.Gen.StructFuncs += it.Gen.StructFuncs
			res.Gen.GenericFuncs += it.Gen.GenericFuncs
			res.Gen.RecoverFuncs += it.Gen.RecoverFuncs
		}
		ms := modes
		if it.Kind != "gen" && !thorough {
			// the CFG does not depend on NaiveForm/GlobalDebug; two modes suffice outside the generated corpus
			ms = []ir.BuilderMode{modes[0], modes[len(modes)-1]}
		}
		for _, m := range ms {
			tb := time.Now()
			hx.WriteFile(*work+"/progress.txt", it.Name+" "+hx.ModeLetters(m)+"\n") // names the input if the builder crashes
			prog, fns := hx.BuildFunctions(it.Pkgs, m)
			buildT += time.Since(tb)
			for _, fn := range fns {
				if it.Kind != "gen" && !strings.HasPrefix(hx.FuncPkgPath(fn), it.Pkgs[0].Types.Path()) && fn.Synthetic == "" {
					continue // functions of dependencies have no bodies anyway
				}
				if len(fn.Blocks) > maxBlocks {
					res.Skipped++
					continue
				}
				res.Functions++
				res.ByCorpus[it.Kind]++
				cfg := hx.CFGOf(fn)
				dom := hx.DomOf(fn)
				blob, _ := json.Marshal([]any{cfg.Succs, cfg.Recover, dom})
				h := sha1.Sum(blob)
				if c, ok := seen[h]; ok {
					c.Dups++
					continue
				}
				c := &Case{ID: len(res.Cases), Corpus: it.Name, Pkg: hx.FuncPkgPath(fn), Func: hx.FuncLabel(prog, fn), Mode: hx.ModeLetters(m), CFG: cfg, Dom: dom, Stats: hx.StatsOf(cfg)}
				seen[h] = c
				res.Cases = append(res.Cases, c)
			}
		}
	}
	if !*noBig {
		res.Big = bigSample(*work, rnd.Fork())
	}
	lap("build+obs")
	fmt.Fprintf(os.Stderr, "hc14: BuildFunctions total %.1fs\n", buildT.Seconds())
	hx.EmitJSON(*out, res)
}

// bigSample builds one function with more than 2^15 basic blocks in NaiveForm and reads sampled Dominates pairs
// and listing positions. Dominance numbering that is truncated or overflows for large functions shows up here.
func bigSample(work string, rnd *hx.Rand) *BigSample {
	nIf := 16600 + rnd.Intn(400)
	var sb strings.Builder
	sb.WriteString("package big\n\nfunc Big(a int) int {\n\ts := 0\n")
	for i := 0; i < nIf; i++ {
		fmt.Fprintf(&sb, "\tif a&%d == %d {\n\t\ts += %d\n\t}\n", i%61+1, i%61+1, i)
	}
	sb.WriteString("\treturn s\n}\n")
	dir := work + "/genbig"
	hx.WriteFile(dir+"/go.mod", "module genbig\n\ngo 1.24\n")
	hx.WriteFile(dir+"/big/big.go", sb.String())
	pkgs, err := hx.LoadSyntax(dir, []string{"GOWORK=off"}, nil, false, "./...")
	if err != nil || len(pkgs) != 1 {
		fmt.Fprintln(os.Stderr, "fatal: big package did not load:", err)
		os.Exit(2)
	}
	hx.WriteFile(work+"/progress.txt", "genbig N\n")
	prog, fns := hx.BuildFunctions(pkgs, ir.NaiveForm)
	var fn *ir.Function
	for _, f := range fns {
		if f.Name() == "Big" {
			fn = f
		}
	}
	if fn == nil {
		fmt.Fprintln(os.Stderr, "fatal: Big not built")
		os.Exit(2)
	}
	n := len(fn.Blocks)
	out := &BigSample{Func: hx.FuncLabel(prog, fn), Blocks: n, NIf: nIf, Source: "package big: func Big(a int) int with NIf consecutive if statements (see hc14 bigSample)"}
	posOf := func(get func() []*ir.BasicBlock) map[*ir.BasicBlock]int {
		first := get()
		for i, j := 0, len(first)-1; i < j; i, j = i+1, j-1 {
			first[i], first[j] = first[j], first[i]
		}
		m := map[*ir.BasicBlock]int{}
		for i, b := range get() {
			m[b] = i
		}
		return m
	}
	pre, post := posOf(fn.DomPreorder), posOf(fn.DomPostorder)
	idx := []int{0, 1, 2, 3, n / 4, n / 2, 32766, 32767, 32768, 32769, 32770, n - 3, n - 2, n - 1}
	for i := 0; i < 6; i++ {
		idx = append(idx, rnd.Intn(n))
	}
	for _, bi := range idx {
		for _, ci := range idx {
			if bi < 0 || bi >= n || ci < 0 || ci >= n {
				continue
			}
			b, c := fn.Blocks[bi], fn.Blocks[ci]
			d := 0
			if b.Dominates(c) {
				d = 1
			}
			pb, ok1 := pre[b]
			pc, ok2 := pre[c]
			qb, ok3 := post[b]
			qc, ok4 := post[c]
			if !(ok1 && ok2 && ok3 && ok4) {
				pb, pc, qb, qc = n, n, n, n // block missing from a listing: positions out of range
			}
			out.Pairs = append(out.Pairs, [7]int{bi, ci, d, pb, pc, qb, qc})
		}
	}
	return out
}
