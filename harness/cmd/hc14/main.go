// hc14: for every function of the corpora (generated goto/structured/generic functions, packages of the
// repository, */testdata packages) built by go/ir under builder-mode combinations, record the CFG
// (successor lists, recover block) and the five dominance observables of the exported API:
// Dominates for all ordered pairs, Idom, Dominees, DomPreorder, DomPostorder.
// Output: JSON {Cases: [...], Stats: {...}}; identical (CFG, observation) pairs are emitted once.
package main

import (
	"crypto/sha1"
	"encoding/json"
	"flag"
	"fmt"
	"os"
	"strings"
	"time"

	"honnef.co/go/tools/go/ir"
	"verifharness/hx"
)

type Case struct {
	ID     int
	Corpus string
	Pkg    string
	Func   string
	Mode   string
	CFG    hx.IRCFG
	Dom    hx.IRDom
	Stats  hx.CFGStats
	Dups   int // further (function, mode) pairs with the identical CFG and observation
}

type Out struct {
	Cases      []*Case
	Functions  int            // (function, mode) pairs observed
	Skipped    int            // functions over the block limit
	ByCorpus   map[string]int // functions per corpus kind
	Modes      []string
	Items      []string
	Gen        hx.GenStats
	MaxBlocks  int
	Sources    map[string]map[string]string // corpus item -> path -> generated source
	LoadErrors []string
}

func main() {
	work := flag.String("work", "", "scratch directory")
	out := flag.String("out", "", "output JSON")
	seed := flag.Uint64("seed", 1, "seed")
	tier := flag.String("tier", "quick", "quick|thorough")
	naiveOnly := flag.Bool("naiveonly", false, "build only NaiveForm modes (used after a crash in a lifted mode: the lifter is not run, so a wrong dominator tree is observed instead of crashing lift)")
	flag.Parse()
	rnd := hx.NewRand(*seed)
	thorough := *tier == "thorough"

	npk, nf, maxBlocks, ntd := 3, 32, 100, 2
	repoPats := []string{"./go/ir", "./config"}
	modes := []ir.BuilderMode{0, ir.NaiveForm, ir.GlobalDebug | ir.InstantiateGenerics, ir.NaiveForm | ir.GlobalDebug | ir.InstantiateGenerics | ir.BuildSerially}
	if thorough {
		npk, nf, maxBlocks, ntd = 40, 60, 700, 0
		repoPats = []string{"./..."}
		modes = hx.AllModes()
	}
	if *naiveOnly {
		var nm []ir.BuilderMode
		for _, m := range modes {
			if m&ir.NaiveForm != 0 {
				nm = append(nm, m)
			}
		}
		modes = nm
	}
	res := &Out{ByCorpus: map[string]int{}, Sources: map[string]map[string]string{}, MaxBlocks: maxBlocks}
	for _, m := range modes {
		res.Modes = append(res.Modes, hx.ModeLetters(m))
	}

	t0 := time.Now()
	lap := func(what string) {
		fmt.Fprintf(os.Stderr, "hc14: %-10s %6.1fs\n", what, time.Since(t0).Seconds())
	}
	var items []*hx.CorpusItem
	gen, err := hx.GenCorpus(rnd.Fork(), *work, npk, nf)
	if err != nil {
		fmt.Fprintln(os.Stderr, "fatal:", err)
		os.Exit(2)
	}
	items = append(items, gen...)
	lap("gen-load")
	repo, err := hx.RepoCorpus(repoPats)
	if err != nil {
		res.LoadErrors = append(res.LoadErrors, "repo: "+err.Error())
	}
	items = append(items, repo...)
	lap("repo-load")
	items = append(items, hx.TestdataCorpus(hx.Sample(rnd.Fork(), hx.TestdataDirs(), ntd))...)

	lap("td-load")
	var buildT time.Duration
	seen := map[[20]byte]*Case{}
	for _, it := range items {
		res.Items = append(res.Items, it.Name)
		if it.Kind == "gen" {
			res.Sources[it.Name] = it.Sources
			res.Gen.GotoFuncs += it.Gen.GotoFuncs
			res.Gen.StructFuncs += it.Gen.StructFuncs
			res.Gen.GenericFuncs += it.Gen.GenericFuncs
			res.Gen.RecoverFuncs += it.Gen.RecoverFuncs
		}
		ms := modes
		if it.Kind != "gen" && !thorough {
			// the CFG does not depend on NaiveForm/GlobalDebug; two modes suffice outside the generated corpus
			ms = []ir.BuilderMode{modes[0], modes[len(modes)-1]}
		}
		for _, m := range ms {
			tb := time.Now()
			hx.WriteFile(*work+"/progress.txt", it.Name+" "+hx.ModeLetters(m)+"\n") // names the input if the builder crashes
			prog, fns := hx.BuildFunctions(it.Pkgs, m)
			buildT += time.Since(tb)
			for _, fn := range fns {
				if it.Kind != "gen" && !strings.HasPrefix(hx.FuncPkgPath(fn), it.Pkgs[0].Types.Path()) && fn.Synthetic == "" {
					continue // functions of dependencies have no bodies anyway
				}
				if len(fn.Blocks) > maxBlocks {
					res.Skipped++
					continue
				}
				res.Functions++
				res.ByCorpus[it.Kind]++
				cfg := hx.CFGOf(fn)
				dom := hx.DomOf(fn)
				blob, _ := json.Marshal([]any{cfg.Succs, cfg.Recover, dom})
				h := sha1.Sum(blob)
				if c, ok := seen[h]; ok {
					c.Dups++
					continue
				}
				c := &Case{ID: len(res.Cases), Corpus: it.Name, Pkg: hx.FuncPkgPath(fn), Func: hx.FuncLabel(prog, fn), Mode: hx.ModeLetters(m), CFG: cfg, Dom: dom, Stats: hx.StatsOf(cfg)}
				seen[h] = c
				res.Cases = append(res.Cases, c)
			}
		}
	}
	lap("build+obs")
	fmt.Fprintf(os.Stderr, "hc14: BuildFunctions total %.1fs\n", buildT.Seconds())
	hx.EmitJSON(*out, res)
}
