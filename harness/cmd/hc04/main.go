// hc04: cache transparency on the REAL staticcheck binary.
//
// A generated module (leaf <- mid <- target, far (imports only mid), rng, test files) is driven through histories built from the
// edit alphabet of property C04; after every step `staticcheck -f json` is run twice with identical arguments and
// environment: once with the history's persistent STATICCHECK_CACHE (warm) and once with a fresh directory (cold).
// All runs set GODEBUG=gocachehash=1, so the real inputs of every cache key are on stderr; they are parsed and
// emitted together with the harness's own knowledge of the package's input dimensions (key correspondence).
//
// Output: JSON (see type Out). Everything random derives from -seed through one PRNG.
package main

import (
	"crypto/sha256"
	"encoding/json"
	"flag"
	"fmt"
	"os"
	"os/exec"
	"path/filepath"
	"regexp"
	"sort"
	"strings"
	"sync"
	"time"

	"honnef.co/go/tools/config"
	"verifharness/hx"
)

// ---------------------------------------------------------------- state of the world

type Conf struct {
	Present      bool
	Malformed    bool
	Checks       string // "" = absent; otherwise TOML list body, e.g. `"inherit", "-SA1019"`
	Initialisms  string
	DotImport    string
	HTTPStatuses string
}

func (c Conf) text() string {
	if c.Malformed {
		return "checks = [\n"
	}
	var b strings.Builder
	if c.Checks != "" {
		fmt.Fprintf(&b, "checks = [%s]\n", c.Checks)
	}
	if c.Initialisms != "" {
		fmt.Fprintf(&b, "initialisms = [%s]\n", c.Initialisms)
	}
	if c.DotImport != "" {
		fmt.Fprintf(&b, "dot_import_whitelist = [%s]\n", c.DotImport)
	}
	if c.HTTPStatuses != "" {
		fmt.Fprintf(&b, "http_status_code_whitelist = [%s]\n", c.HTTPStatuses)
	}
	return b.String()
}

var confLevels = []string{"parent", "root", "target", "leaf"}

type State struct {
	// sources
	LeafDeprecated bool // leaf.T.Old / leaf.Legacy carry a Deprecated: paragraph (comment-only edit)
	LeafTypedNil   bool // leaf.Get returns a typed nil pointer in an error (typedness/nilness fact)
	LeafPure       bool // leaf.Pure has no side effects (purity fact)
	LeafExtra      int  // unrelated edit counter of leaf
	MidExtra       int
	TargetVariant  int // selects extra code with extra findings in the target package
	TestVariant    int
	HTTP           bool   // target has a file importing net/http behind tag httpx (thorough tier)
	GoDirective    string // go.mod
	Conf           map[string]Conf
	// invocation
	FlagGo   string // "" = default (module)
	Tags     string
	Tests    bool
	Checks   string            // "" = flag absent
	GOOS     string            // "" = host
	Godebug  string            // extra GODEBUG token, "" = none
	QF       bool              // -debug.run-quickfix-analyzers
	Patterns []string          // named packages; nil = ./...
	Binary   int               // index into the list of binaries
	ExtraEnv map[string]string // further environment variables (directed flips of unkeyed os.Getenv reads)
	// touches: file -> counter; a change means "set mtime to a new value, content unchanged"
	Touch map[string]int
}

func (s State) clone() State {
	c := s
	c.Conf = map[string]Conf{}
	for k, v := range s.Conf {
		c.Conf[k] = v
	}
	c.Touch = map[string]int{}
	for k, v := range s.Touch {
		c.Touch[k] = v
	}
	c.Patterns = append([]string(nil), s.Patterns...)
	c.ExtraEnv = map[string]string{}
	for k, v := range s.ExtraEnv {
		c.ExtraEnv[k] = v
	}
	return c
}

type srcFile struct {
	Rel     string // relative to the module root
	Content string
	Tag     string // build tag required ("" = none)
	GOOS    string // GOOS required ("" = any)
	Test    bool
}

const modPath = "example.com/m"

func (s State) files() []srcFile {
	var fs []srcFile
	// comment-only AND line-preserving: the compiled package (object code, export data, positions) is identical
	// in both variants, so dependents see the change only through leaf's fact file
	dep := "//\n// No longer discouraged: keep using it.\n"
	if s.LeafDeprecated {
		dep = "//\n// Deprecated: use something else.\n"
	}
	get := "\treturn nil\n"
	if s.LeafTypedNil {
		get = "\tvar p *MyErr\n\treturn p\n"
	}
	pure := "\tcounter++\n\treturn a*b + counter\n"
	if s.LeafPure {
		pure = "\treturn a*b + 1\n"
	}
	leaf := "package leaf\n\nvar counter int\n\ntype T struct{ N int }\n\n// Old does something.\n" + dep +
		"func (t T) Old() int { return t.N }\n\n// Legacy is old.\n" + dep +
		"func Legacy() int { return 1 }\n\ntype MyErr struct{}\n\nfunc (*MyErr) Error() string { return \"x\" }\n\n// Get returns an error.\nfunc Get() error {\n" + get +
		"}\n\n// Pure computes.\n//\n//go:noinline\nfunc Pure(a, b int) int {\n" + pure + "}\n\nfunc Counter() int { return counter }\n\nfunc selfAssign() {\n\tx := 1\n\tx = x\n\t_ = x\n}\n\nvar _ = selfAssign\n"
	for i := 0; i < s.LeafExtra%4; i++ {
		leaf += fmt.Sprintf("\n// Extra%d is filler.\nfunc Extra%d() int { return %d }\n", i, i, i)
	}
	fs = append(fs, srcFile{Rel: "leaf/leaf.go", Content: leaf})

	mid := "package mid\n\nimport \"" + modPath + "/leaf\"\n\nfunc Make() leaf.T { return leaf.T{N: 1} }\n\nfunc Wrap() error { return leaf.Get() }\n\nfunc Calc(a int) int { return leaf.Pure(a, a) }\n\nfunc Old() int { return leaf.Legacy() }\n"
	for i := 0; i < s.MidExtra%3; i++ {
		mid += fmt.Sprintf("\nfunc Filler%d() int { return %d }\n", i, i)
	}
	fs = append(fs, srcFile{Rel: "mid/mid.go", Content: mid})

	tgt := "package target\n\nimport (\n\t\"" + modPath + "/leaf\"\n\t\"" + modPath + "/mid\"\n)\n\nfunc Use(x int) {\n" +
		"\tprintln(mid.Make().Old())\n\tprintln(leaf.Legacy())\n" +
		"\tif leaf.Get() == nil {\n\t\tprintln(\"nil\")\n\t}\n\tif mid.Wrap() == nil {\n\t\tprintln(\"nil\")\n\t}\n" +
		"\tleaf.Pure(1, 2)\n\tmid.Calc(3)\n" +
		"\tif x == 1 {\n\t\tprintln(1)\n\t} else if x == 2 {\n\t\tprintln(2)\n\t} else if x == 3 {\n\t\tprintln(3)\n\t}\n}\n\n" +
		"func getFoo() string { return \"\" }\n\nvar _ = getFoo\n"
	switch s.TargetVariant % 4 {
	case 1:
		tgt += "\nfunc selfAssign() {\n\tx := 1\n\tx = x\n\t_ = x\n}\n\nvar _ = selfAssign\n"
	case 2:
		tgt += "\nfunc again() int { return leaf.Legacy() + leaf.Legacy() }\n\nvar _ = again\n"
	case 3:
		tgt += "\nfunc boolCmp(b bool) bool {\n\tif b == true {\n\t\treturn true\n\t}\n\treturn false\n}\n\nvar _ = boolCmp\n"
	}
	fs = append(fs, srcFile{Rel: "target/target.go", Content: tgt})
	fs = append(fs, srcFile{Rel: "target/dot.go", Content: "package target\n\nimport . \"" + modPath + "/leaf\"\n\nvar _ = T{}\n"})
	fs = append(fs, srcFile{Rel: "target/tagged.go", Tag: "extra", Content: "//go:build extra\n\npackage target\n\nimport \"" + modPath + "/leaf\"\n\nfunc onlyWithTag() int {\n\tleaf.Pure(4, 5)\n\treturn leaf.Legacy()\n}\n\nvar _ = onlyWithTag\n"})
	fs = append(fs, srcFile{Rel: "target/os_windows.go", GOOS: "windows", Content: "package target\n\nimport \"" + modPath + "/mid\"\n\nfunc onlyOnWindows() {\n\tif mid.Wrap() == nil {\n\t\tprintln(\"w\")\n\t}\n\tmid.Calc(9)\n}\n\nvar _ = onlyOnWindows\n"})
	tst := "package target\n\nimport \"" + modPath + "/leaf\"\n\nfunc helperForTests() int {\n\tUse(1)\n\tleaf.Pure(7, 8)\n\treturn leaf.Legacy()\n}\n\nvar _ = helperForTests\n"
	if s.TestVariant%2 == 1 {
		tst += "\nfunc moreTestCode() {\n\ty := 2\n\ty = y\n\t_ = y\n}\n\nvar _ = moreTestCode\n"
	}
	fs = append(fs, srcFile{Rel: "target/target_test.go", Test: true, Content: tst})
	fs = append(fs, srcFile{Rel: "target/ext_test.go", Test: true, Content: "package target_test\n\nimport (\n\t\"" + modPath + "/mid\"\n\t\"" + modPath + "/target\"\n)\n\nfunc extHelper() {\n\ttarget.Use(2)\n\tprintln(mid.Make().Old())\n}\n\nvar _ = extHelper\n"})
	if s.HTTP {
		fs = append(fs, srcFile{Rel: "target/http.go", Tag: "httpx", Content: "//go:build httpx\n\npackage target\n\nimport \"net/http\"\n\nfunc handler(w http.ResponseWriter, r *http.Request) {\n\thttp.Error(w, \"teapot\", 418)\n\thttp.Error(w, \"ok\", 200)\n}\n\nvar _ = handler\n"})
	}
	// far: sees leaf's objects only through mid (does not import leaf): when leaf changes without changing its
	// export data, far's inputs change ONLY through mid's fact file (the vetx chain)
	fs = append(fs, srcFile{Rel: "far/far.go", Content: "package far\n\nimport \"" + modPath + "/mid\"\n\nfunc Use() {\n\tprintln(mid.Make().Old())\n\tif mid.Wrap() == nil {\n\t\tprintln(\"nil\")\n\t}\n\tmid.Calc(3)\n}\n"})
	// deeper chains: deep3 -> hop1 -> mid -> leaf and deep4 -> hop2 -> hop1 -> mid -> leaf, each importing ONLY the next
	// package (the value of type leaf.T travels along as a package-level variable with inferred type). A
	// comment-only edit in leaf leaves the compiled form of leaf, mid, hop1, hop2 unchanged, so deep3/deep4 learn
	// about it only if the CONTENT of the direct dependency's fact file is keyed (a key built from the
	// dependency's package hash sees leaf's build ID only one level down)
	fs = append(fs, srcFile{Rel: "hop1/hop1.go", Content: "package hop1\n\nimport \"" + modPath + "/mid\"\n\nvar V = mid.Make()\n"})
	fs = append(fs, srcFile{Rel: "hop2/hop2.go", Content: "package hop2\n\nimport \"" + modPath + "/hop1\"\n\nvar V = hop1.V\n"})
	fs = append(fs, srcFile{Rel: "deep3/deep3.go", Content: "package deep3\n\nimport \"" + modPath + "/hop1\"\n\nfunc Use() {\n\tprintln(hop1.V.Old())\n}\n"})
	fs = append(fs, srcFile{Rel: "deep4/deep4.go", Content: "package deep4\n\nimport \"" + modPath + "/hop2\"\n\nfunc Use() {\n\tprintln(hop2.V.Old())\n}\n"})
	// rng: compiles only with language version >= go1.22
	fs = append(fs, srcFile{Rel: "rng/rng.go", Content: "package rng\n\nimport \"" + modPath + "/leaf\"\n\nfunc Count() int {\n\tn := leaf.Legacy()\n\tfor i := range 3 {\n\t\tn += i\n\t}\n\treturn n\n}\n"})
	fs = append(fs, srcFile{Rel: "go.mod", Content: "module " + modPath + "\n\ngo " + s.GoDirective + "\n"})
	return fs
}

// confPath: "parent" lives above the module root.
func confPath(hdir, level string) string {
	switch level {
	case "parent":
		return filepath.Join(hdir, "staticcheck.conf")
	case "root":
		return filepath.Join(hdir, "m", "staticcheck.conf")
	default:
		return filepath.Join(hdir, "m", level, "staticcheck.conf")
	}
}

// materialise writes the state into hdir/m (only files whose content differs are rewritten).
func materialise(hdir string, s State, prev *State) {
	root := filepath.Join(hdir, "m")
	want := map[string]string{}
	for _, f := range s.files() {
		want[filepath.Join(root, f.Rel)] = f.Content
	}
	for _, lv := range confLevels {
		if c, ok := s.Conf[lv]; ok && c.Present {
			want[confPath(hdir, lv)] = c.text()
		} else {
			os.Remove(confPath(hdir, lv))
		}
	}
	if !s.HTTP {
		os.Remove(filepath.Join(root, "target/http.go"))
	}
	for p, content := range want {
		old, err := os.ReadFile(p)
		if err == nil && string(old) == content {
			continue
		}
		hx.WriteFile(p, content)
	}
	for f, n := range s.Touch {
		if prev == nil || prev.Touch[f] != n {
			t := time.Now().Add(time.Duration(n) * time.Hour)
			os.Chtimes(filepath.Join(root, f), t, t)
		}
	}
}

// ---------------------------------------------------------------- running the binary

type runOut struct {
	Lines  []string // stdout lines, sorted
	RC     int
	Stderr string
}

var (
	binaries  []string
	goRootBin string
)

func (s State) argv() []string {
	a := []string{"-f", "json"}
	if s.FlagGo != "" {
		a = append(a, "-go", s.FlagGo)
	}
	if s.Tags != "" {
		a = append(a, "-tags", s.Tags)
	}
	a = append(a, fmt.Sprintf("-tests=%v", s.Tests))
	if s.Checks != "" {
		a = append(a, "-checks", s.Checks)
	}
	if s.QF {
		a = append(a, "-debug.run-quickfix-analyzers")
	}
	if len(s.Patterns) == 0 {
		return append(a, "./...")
	}
	return append(a, s.Patterns...)
}

func (s State) envv(cache string, extra []string) []string {
	var env []string
	for _, kv := range os.Environ() {
		k := kv[:strings.IndexByte(kv, '=')]
		switch k {
		case "PATH", "GOTOOLCHAIN", "GOROOT", "GOOS", "GOARCH", "GODEBUG", "STATICCHECK_CACHE", "GOFLAGS", "GOPROXY", "GOCACHEPROG", "VERIF_SEED":
			continue
		}
		env = append(env, kv)
	}
	gd := "gocachehash=1"
	if s.Godebug != "" {
		gd += "," + s.Godebug
	}
	env = append(env, "PATH="+goRootBin+":"+os.Getenv("PATH"), "GOTOOLCHAIN=local", "GOFLAGS=-mod=mod", "GOPROXY=off",
		"GODEBUG="+gd, "STATICCHECK_CACHE="+cache)
	if s.GOOS != "" {
		env = append(env, "GOOS="+s.GOOS)
	}
	if os.Getenv("GOMAXPROCS") == "" {
		// several histories run in parallel; keep each staticcheck / go list from spinning up one thread per core
		// (GOMAXPROCS is not an input of the analysis: it only sizes the runner's semaphore)
		env = append(env, "GOMAXPROCS=4")
	}
	var ks []string
	for k := range s.ExtraEnv {
		ks = append(ks, k)
	}
	sort.Strings(ks)
	for _, k := range ks {
		env = append(env, k+"="+s.ExtraEnv[k])
	}
	return append(env, extra...)
}

func runSC(dir string, s State, cache string, extraEnv []string) runOut {
	cmd := exec.Command(binaries[s.Binary%len(binaries)], s.argv()...)
	cmd.Dir = dir
	cmd.Env = s.envv(cache, extraEnv)
	var so, se strings.Builder
	cmd.Stdout, cmd.Stderr = &so, &se
	err := cmd.Run()
	rc := 0
	if err != nil {
		if ee, ok := err.(*exec.ExitError); ok {
			rc = ee.ExitCode()
		} else {
			rc = -1
		}
	}
	var lines []string
	for _, l := range strings.Split(so.String(), "\n") {
		if l != "" {
			lines = append(lines, l)
		}
	}
	sort.Strings(lines)
	return runOut{Lines: lines, RC: rc, Stderr: se.String()}
}

// non-HASH stderr (warnings, crashes) is part of what a run reports
func plainStderr(s string) []string {
	var out []string
	for _, l := range strings.Split(s, "\n") {
		if l == "" || strings.HasPrefix(l, "HASH") {
			continue
		}
		out = append(out, l)
	}
	sort.Strings(out)
	return out
}

// ---------------------------------------------------------------- key observation

type KeyObs struct {
	Pkg       string            // package path
	Action    string            // hex of the action hash
	PkgHash   string            // hex of the package hash (pkg %x line)
	Dims      map[string]string // the harness's knowledge of the package's inputs (see dimsOf)
	KeyLines  []string          // components of the action hash as written (salt replaced by its digest)
	PkgLines  []string          // components of the package hash
	Ambiguous bool
}

var (
	reHashLine = regexp.MustCompile(`^HASH\[([^\]]*)\]: (.*)$`)
	reHashHead = regexp.MustCompile(`^HASH\[([^\]]*)\]$`)
	reHex64    = regexp.MustCompile(`^[0-9a-f]{64}$`)
)

// parseHashes: name -> list of blocks (each block = written lines + final sum)
type hashBlock struct {
	lines []string
	sum   string
}

func parseHashes(stderr string) map[string][]hashBlock {
	open := map[string]*hashBlock{}
	res := map[string][]hashBlock{}
	amb := map[string]bool{}
	for _, l := range strings.Split(stderr, "\n") {
		if m := reHashHead.FindStringSubmatch(l); m != nil {
			if open[m[1]] != nil {
				amb[m[1]] = true
			}
			open[m[1]] = &hashBlock{}
			continue
		}
		if m := reHashLine.FindStringSubmatch(l); m != nil {
			b := open[m[1]]
			if b == nil {
				continue
			}
			if reHex64.MatchString(m[2]) {
				b.sum = m[2]
				res[m[1]] = append(res[m[1]], *b)
				delete(open, m[1])
			} else {
				b.lines = append(b.lines, m[2])
			}
		}
	}
	for n := range amb {
		res[n] = append(res[n], hashBlock{sum: "AMBIGUOUS"})
	}
	return res
}

func digest(parts ...string) string {
	h := sha256.New()
	for _, p := range parts {
		fmt.Fprintf(h, "%d:%s|", len(p), p)
	}
	return fmt.Sprintf("%x", h.Sum(nil))[:16]
}

// dimsOf: what the harness knows about the inputs of package pkg (non-test variant) in state s.
// Files is the EFFECTIVE set: paths and contents of the files `go list` selects for (tags, GOOS).
func dimsOf(hdir string, s State, pkg string) map[string]string {
	d := map[string]string{}
	d["PkgPath"] = modPath + "/" + pkg
	goos := s.GOOS
	if goos == "" {
		goos = "linux"
	}
	tags := map[string]bool{}
	for _, t := range strings.FieldsFunc(s.Tags, func(r rune) bool { return r == ',' || r == ' ' }) {
		tags[t] = true
	}
	var parts []string
	for _, f := range s.files() {
		if !strings.HasPrefix(f.Rel, pkg+"/") || f.Test {
			continue
		}
		if f.Tag != "" && !tags[f.Tag] {
			continue
		}
		if f.GOOS != "" && f.GOOS != goos {
			continue
		}
		parts = append(parts, filepath.Join(hdir, "m", f.Rel), f.Content)
	}
	d["Files"] = digest(parts...)
	d["GoMod"] = s.GoDirective
	d["Tags"] = "folded-into-Files"
	d["Tests"] = "non-test-variant"
	d["GOOS"] = goos
	d["GOARCH"] = "amd64"
	d["FlagGo"] = s.FlagGo
	if s.FlagGo == "" {
		d["FlagGo"] = "module"
	}
	d["FlagChecks"] = s.Checks
	d["Godebug"] = s.Godebug
	d["Analyzers"] = fmt.Sprint(s.QF)
	d["Binary"] = fmt.Sprint(s.Binary % len(binaries))
	for k, v := range s.ExtraEnv {
		d["Env:"+k] = v
	}
	// the merged configuration, through the real config package
	cfg, err := config.Load(filepath.Join(hdir, "m", pkg))
	if err != nil {
		d["Cfg:error"] = err.Error()
	} else {
		d["Cfg:Checks"] = fmt.Sprintf("%#v", cfg.Checks)
		d["Cfg:Initialisms"] = fmt.Sprintf("%#v", cfg.Initialisms)
		d["Cfg:DotImportWhitelist"] = fmt.Sprintf("%#v", cfg.DotImportWhitelist)
		d["Cfg:HTTPStatusCodeWhitelist"] = fmt.Sprintf("%#v", cfg.HTTPStatusCodeWhitelist)
	}
	return d
}

func observeKeys(hdir string, s State, stderr string) []KeyObs {
	hs := parseHashes(stderr)
	var out []KeyObs
	for _, pkg := range []string{"leaf", "mid", "target", "rng", "far", "hop1", "hop2", "deep3", "deep4"} {
		path := modPath + "/" + pkg
		ab, pb := hs["staticcheck "+path], hs["package "+path]
		if len(ab) != 1 || len(pb) != 1 {
			continue // absent (failed package) or several variants with the same path
		}
		o := KeyObs{Pkg: pkg, Action: ab[0].sum, PkgHash: pb[0].sum, Dims: dimsOf(hdir, s, pkg)}
		var vet, imps []string
		for i, l := range ab[0].lines {
			if i == 0 {
				l = "salt:" + digest(l)
			}
			if strings.HasPrefix(l, `"vetout `) {
				vet = append(vet, l)
			}
			if strings.HasPrefix(l, `"analyzers `) {
				l = `"analyzers ` + digest(l) + `"`
			}
			o.KeyLines = append(o.KeyLines, l)
		}
		for i, l := range pb[0].lines {
			if i == 0 {
				l = "salt:" + digest(l)
			}
			if strings.HasPrefix(l, `"import `) && strings.Count(l, " ") >= 2 {
				imps = append(imps, l)
			}
			o.PkgLines = append(o.PkgLines, l)
		}
		// observed, not known to the harness: the dependencies' export data and fact files
		o.Dims["DepFacts"] = digest(vet...)
		o.Dims["DepTypes"] = digest(imps...)
		out = append(out, o)
	}
	return out
}

// ---------------------------------------------------------------- histories

type Step struct {
	Hist     int
	Index    int
	Kind     string // "directed:<dim>" or "random"
	Edit     string
	State    State
	Argv     []string
	Warm     []string
	Cold     []string
	WarmRC   int
	ColdRC   int
	WarmErr  []string
	ColdErr  []string
	Compared bool // false for the first run of a history on its own fresh cache
	Keys     []KeyObs
	Files    map[string]string `json:",omitempty"` // only filled when warm != cold (for the replay)
	ColdFrom string            `json:",omitempty"`
	WarmSecs float64
	ColdSecs float64
}

type Out struct {
	Seed      uint64
	Steps     []Step
	Binaries  []string
	EnvProbe  *EnvProbe
	Histories int
}

type history struct {
	id    int
	kind  string
	hdir  string
	cache string
	cur   State
	prev  *State
	past  []State
	steps []Step
	n     int
}

func newHistory(work string, id int, kind string, s State) *history {
	hdir := filepath.Join(work, fmt.Sprintf("h%d", id))
	os.MkdirAll(filepath.Join(hdir, "m"), 0o777)
	return &history{id: id, kind: kind, hdir: hdir, cache: filepath.Join(hdir, "cache"), cur: s}
}

// step runs the current state warm (and cold when compare is set). When against is given (a step of this
// history that ran the SAME state on a then-empty cache, i.e. a cold run) it is used as the cold side instead
// of running the binary once more.
func (h *history) step(edit string, compare bool) { h.stepAgainst(edit, compare, nil) }

func (h *history) stepAgainst(edit string, compare bool, against *Step) {
	materialise(h.hdir, h.cur, h.prev)
	dir := filepath.Join(h.hdir, "m")
	t0 := time.Now()
	warm := runSC(dir, h.cur, h.cache, nil)
	t1 := time.Now()
	st := Step{Hist: h.id, Index: h.n, Kind: h.kind, Edit: edit, State: h.cur.clone(), Argv: h.cur.argv(),
		Warm: warm.Lines, WarmRC: warm.RC, WarmErr: plainStderr(warm.Stderr), Compared: compare, WarmSecs: t1.Sub(t0).Seconds()}
	st.Keys = observeKeys(h.hdir, h.cur, warm.Stderr)
	if compare {
		if against != nil {
			st.Cold, st.ColdRC, st.ColdErr = against.Warm, against.WarmRC, against.WarmErr
			st.ColdFrom = fmt.Sprintf("step %d (same state, first run on the then-empty cache)", against.Index)
		} else {
			cold := filepath.Join(h.hdir, fmt.Sprintf("cold%d", h.n))
			c := runSC(dir, h.cur, cold, nil)
			st.ColdSecs = time.Since(t1).Seconds()
			os.RemoveAll(cold)
			st.Cold, st.ColdRC, st.ColdErr = c.Lines, c.RC, plainStderr(c.Stderr)
		}
		if strings.Join(st.Warm, "\n") != strings.Join(st.Cold, "\n") || st.WarmRC != st.ColdRC {
			st.Files = map[string]string{}
			for _, f := range h.cur.files() {
				st.Files[f.Rel] = f.Content
			}
			for _, lv := range confLevels {
				if c, ok := h.cur.Conf[lv]; ok && c.Present {
					st.Files["conf:"+lv] = c.text()
				}
			}
		}
	}
	h.steps = append(h.steps, st)
	h.n++
	p := h.cur.clone()
	h.prev = &p
	h.past = append(h.past, p)
}

func baseState() State {
	return State{LeafDeprecated: true, LeafTypedNil: true, LeafPure: true, GoDirective: "1.22", Conf: map[string]Conf{}, Touch: map[string]int{}, ExtraEnv: map[string]string{}}
}

// directed flippers: name -> (setup of the base state, flip)
type flipper struct {
	dim   string
	setup func(*State)
	flip  func(*State)
}

var envFlips []string

func flippers(thorough bool) []flipper {
	fl := []flipper{
		// the expensive ones first (test variants pull in the testing closure; a new GOOS recompiles everything)
		{"Tests", nil, func(s *State) { s.Tests = true }},
		{"GOOS", nil, func(s *State) { s.GOOS = "windows" }},
		// the set of named packages (initial vs dependency-only is NOT in the key: told apart by the sub-keys present)
		{"Patterns:dependency-then-all", func(s *State) { s.Patterns = []string{"./target"} }, func(s *State) { s.Patterns = nil }},
		{"Patterns:dependency-then-named", func(s *State) { s.Patterns = []string{"./far"} }, func(s *State) { s.Patterns = []string{"./leaf", "./mid"} }},
		{"Patterns:all-then-one", nil, func(s *State) { s.Patterns = []string{"./leaf"} }},
		{"Patterns:subset-grows", func(s *State) { s.Patterns = []string{"./mid"} }, func(s *State) { s.Patterns = []string{"./leaf", "./mid", "./deep4"} }},
		{"Files:target", nil, func(s *State) { s.TargetVariant = 1 }},
		{"DepFacts:deprecated-comment-only", nil, func(s *State) { s.LeafDeprecated = false }},
		{"DepFacts:deprecated-comment-only:reverse", func(s *State) { s.LeafDeprecated = false }, func(s *State) { s.LeafDeprecated = true }},
		{"DepFacts:purity", nil, func(s *State) { s.LeafPure = false }},
		{"DepFacts:typed-nil", nil, func(s *State) { s.LeafTypedNil = false }},
		{"Files:mid", nil, func(s *State) { s.MidExtra = 1 }},
		{"GoMod:go-directive", nil, func(s *State) { s.GoDirective = "1.21" }},
		{"FlagGo", nil, func(s *State) { s.FlagGo = "1.21" }},
		{"Tags", nil, func(s *State) { s.Tags = "extra" }},
		{"FlagChecks", nil, func(s *State) { s.Checks = "SA1019" }},
		{"FlagChecks:widen", func(s *State) { s.Checks = "SA1019" }, func(s *State) { s.Checks = "" }},
		{"Cfg:Checks:widen", func(s *State) { s.Conf["target"] = Conf{Present: true, Checks: `"SA4017"`} }, func(s *State) { delete(s.Conf, "target") }},
		{"Cfg:Checks:root", nil, func(s *State) { s.Conf["root"] = Conf{Present: true, Checks: `"inherit", "-SA1019"`} }},
		{"Cfg:Checks:target", nil, func(s *State) { s.Conf["target"] = Conf{Present: true, Checks: `"SA4017"`} }},
		{"Cfg:Checks:parent", nil, func(s *State) { s.Conf["parent"] = Conf{Present: true, Checks: `"all", "-SA4023"`} }},
		{"Cfg:Initialisms", func(s *State) { s.Checks = "ST1003" }, func(s *State) { s.Conf["root"] = Conf{Present: true, Initialisms: `"inherit", "FOO"`} }},
		{"Cfg:DotImportWhitelist", func(s *State) { s.Checks = "ST1001" }, func(s *State) {
			s.Conf["target"] = Conf{Present: true, DotImport: `"inherit", "` + modPath + `/leaf"`}
		}},
		{"Cfg:HTTPStatusCodeWhitelist", func(s *State) { s.Checks = "all" }, func(s *State) { s.Conf["root"] = Conf{Present: true, HTTPStatuses: `"418"`} }},
		{"Cfg:malformed", nil, func(s *State) { s.Conf["target"] = Conf{Present: true, Malformed: true} }},
		{"Godebug", nil, func(s *State) { s.Godebug = "verifdim=1" }},
		{"Analyzers", func(s *State) { s.Checks = "all" }, func(s *State) { s.QF = true }},
		{"Touch", nil, func(s *State) { s.Touch["target/target.go"]++; s.Touch["leaf/leaf.go"]++; s.Touch["go.mod"]++ }},
	}
	for _, v := range envFlips {
		v := v
		fl = append(fl, flipper{"Env:" + v, func(s *State) { s.ExtraEnv[v] = "a"; s.Checks = "all" }, func(s *State) { s.ExtraEnv[v] = "b" }})
	}
	if thorough {
		fl = append(fl, flipper{"Cfg:HTTPStatusCodeWhitelist:visible", func(s *State) { s.HTTP = true; s.Tags = "httpx"; s.Checks = "ST1013" },
			func(s *State) { s.Conf["root"] = Conf{Present: true, HTTPStatuses: `"418"`} }})
		if len(binaries) > 1 {
			fl = append(fl, flipper{"Binary", nil, func(s *State) { s.Binary = 1 }})
		}
	}
	return fl
}

var checkChoices = []string{"", "SA1019", "all", "inherit,-SA4017", "SA*", "ST1003,ST1001,SA4023", "all,-ST1000,-SA1019", "S1*,SA4*"}
var confChecks = []string{"", `"all"`, `"inherit", "-SA1019"`, `"SA4017", "SA4023"`, `"inherit", "ST1003", "ST1001"`, `"*", "-SA4017"`}
var confInit = []string{"", `"inherit", "FOO"`, `"FOO"`}
var confDot = []string{"", `"inherit", "` + modPath + `/leaf"`}
var confHTTP = []string{"", `"418"`, `"inherit", "418"`}

func randomConf(r *hx.Rand) Conf {
	if r.Chance(25) {
		return Conf{}
	}
	if r.Chance(4) {
		return Conf{Present: true, Malformed: true}
	}
	return Conf{Present: true, Checks: confChecks[r.Intn(len(confChecks))], Initialisms: confInit[r.Intn(len(confInit))],
		DotImport: confDot[r.Intn(len(confDot))], HTTPStatuses: confHTTP[r.Intn(len(confHTTP))]}
}

// randomEdit applies one letter of the edit alphabet; returns its description.
func randomEdit(r *hx.Rand, h *history, thorough bool) string {
	s := &h.cur
	for {
		switch r.Intn(17) {
		case 0:
			s.TargetVariant = (s.TargetVariant + 1 + r.Intn(3)) % 4
			return fmt.Sprintf("edit target file (variant %d)", s.TargetVariant)
		case 1:
			s.LeafDeprecated = !s.LeafDeprecated
			return fmt.Sprintf("edit dependency: deprecation comment -> %v", s.LeafDeprecated)
		case 2:
			s.LeafPure = !s.LeafPure
			return fmt.Sprintf("edit dependency: purity -> %v", s.LeafPure)
		case 3:
			s.LeafTypedNil = !s.LeafTypedNil
			return fmt.Sprintf("edit dependency: typed nil -> %v", s.LeafTypedNil)
		case 4:
			if r.Bool() {
				s.MidExtra++
				return "edit intermediate package"
			}
			s.LeafExtra++
			return "edit dependency (unrelated function)"
		case 5:
			lv := confLevels[r.Intn(len(confLevels))]
			s.Conf[lv] = randomConf(r)
			return fmt.Sprintf("staticcheck.conf at %s := %q", lv, s.Conf[lv].text())
		case 6:
			s.FlagGo = []string{"", "1.21", "1.22", "module", "1.20"}[r.Intn(5)]
			return "-go " + s.FlagGo
		case 7:
			s.Tags = []string{"", "extra", "other", "extra,other"}[r.Intn(4)]
			return "-tags " + s.Tags
		case 8:
			if !thorough && !r.Chance(25) {
				continue // test variants pull in the testing closure: keep them rarer in the quick tier
			}
			s.Tests = !s.Tests
			return fmt.Sprintf("-tests=%v", s.Tests)
		case 9:
			s.Checks = checkChoices[r.Intn(len(checkChoices))]
			return "-checks " + s.Checks
		case 10:
			if s.GOOS == "" {
				s.GOOS = "windows"
			} else {
				s.GOOS = ""
			}
			return "GOOS=" + s.GOOS
		case 11:
			if len(h.past) < 2 {
				continue
			}
			k := r.Intn(len(h.past) - 1)
			t := s.Touch
			*s = h.past[k].clone()
			s.Touch = t
			return fmt.Sprintf("revert to the state of step %d", k)
		case 12:
			f := []string{"target/target.go", "leaf/leaf.go", "mid/mid.go", "go.mod", "target/target_test.go"}[r.Intn(5)]
			s.Touch[f]++
			return "touch " + f
		case 13:
			if s.GoDirective == "1.22" {
				s.GoDirective = "1.21"
			} else {
				s.GoDirective = "1.22"
			}
			return "go.mod: go " + s.GoDirective
		case 14:
			switch r.Intn(3) {
			case 0:
				s.QF = !s.QF
				return fmt.Sprintf("-debug.run-quickfix-analyzers=%v", s.QF)
			case 1:
				if s.Godebug == "" {
					s.Godebug = "verifdim=1"
				} else {
					s.Godebug = ""
				}
				return "GODEBUG extra token: " + s.Godebug
			default:
				s.TestVariant++
				return "edit test file"
			}
		case 15, 16:
			if r.Chance(60) {
				ch := [][]string{nil, {"./target"}, {"./leaf"}, {"./mid"}, {"./far"}, {"./deep3"}, {"./target", "./leaf"}, {"./leaf", "./target"},
					{"./mid", "./far"}, {"./deep4", "./hop1"}, {"./rng", "./mid"}}
				s.Patterns = ch[r.Intn(len(ch))]
				return fmt.Sprintf("named packages := %v", s.Patterns)
			}
			if thorough && len(binaries) > 1 && r.Chance(30) {
				s.Binary = (s.Binary + 1) % len(binaries)
				return fmt.Sprintf("switch to binary %d", s.Binary)
			}
			if thorough && r.Chance(20) {
				s.HTTP = !s.HTTP
				if s.HTTP {
					s.Tags = "httpx"
				}
				return fmt.Sprintf("net/http file present=%v", s.HTTP)
			}
			continue
		}
	}
}

// ---------------------------------------------------------------- environment probe (SA9007)

type EnvProbe struct {
	Var     string
	First   []string // run 1, variable = A, fresh persistent cache
	Warm    []string // run 2, variable = B, same cache
	Cold    []string // run 3, variable = B, empty cache
	Differs bool
}

func envProbe(work string) *EnvProbe {
	hdir := filepath.Join(work, "envprobe")
	hx.WriteFile(filepath.Join(hdir, "e", "go.mod"), "module example.com/e\n\ngo 1.21\n")
	hx.WriteFile(filepath.Join(hdir, "e", "osdel", "osdel.go"), "package osdel\n\nimport \"os\"\n\nfunc Clean() {\n\td, _ := os.UserConfigDir()\n\tos.RemoveAll(d)\n}\n")
	s := baseState()
	dir := filepath.Join(hdir, "e")
	a, b := filepath.Join(hdir, "cfgA"), filepath.Join(hdir, "cfgB")
	p := &EnvProbe{Var: "XDG_CONFIG_HOME"}
	p.First = runSC(dir, s, filepath.Join(hdir, "cache"), []string{"XDG_CONFIG_HOME=" + a}).Lines
	p.Warm = runSC(dir, s, filepath.Join(hdir, "cache"), []string{"XDG_CONFIG_HOME=" + b}).Lines
	p.Cold = runSC(dir, s, filepath.Join(hdir, "cold"), []string{"XDG_CONFIG_HOME=" + b}).Lines
	p.Differs = strings.Join(p.Warm, "\n") != strings.Join(p.Cold, "\n")
	return p
}

// ---------------------------------------------------------------- main

func main() {
	work := flag.String("work", "", "scratch directory (outside /repo and /verif)")
	out := flag.String("out", "", "output JSON")
	seed := flag.Uint64("seed", 1, "seed")
	bins := flag.String("bin", "", "comma separated staticcheck binaries built from the working tree")
	nhist := flag.Int("hist", 8, "random histories")
	nsteps := flag.Int("steps", 6, "steps per random history")
	par := flag.Int("par", 6, "histories run in parallel")
	thorough := flag.Bool("thorough", false, "thorough tier alphabet (net/http file, second binary)")
	only := flag.String("only", "", "comma separated directed dimensions to run (default: all)")
	probe := flag.Bool("envprobe", true, "run the SA9007 environment probe")
	envflip := flag.String("envflip", "", "comma separated environment variables to flip in directed histories")
	flag.Parse()
	for _, v := range strings.Split(*envflip, ",") {
		if v != "" {
			envFlips = append(envFlips, v)
		}
	}
	binaries = strings.Split(*bins, ",")
	// toolchain of the repository the binaries were built from
	for _, kv := range hx.GoEnv() {
		if strings.HasPrefix(kv, "PATH=") {
			goRootBin = strings.SplitN(strings.TrimPrefix(kv, "PATH="), ":", 2)[0]
		}
	}
	rnd := hx.NewRand(*seed)

	var hs []*history
	var plans []func(*history)
	id := 0
	want := map[string]bool{}
	for _, d := range strings.Split(*only, ",") {
		if d != "" {
			want[d] = true
		}
	}
	for _, f := range flippers(*thorough) {
		if len(want) > 0 && !want[f.dim] {
			continue
		}
		f := f
		s := baseState()
		if f.setup != nil {
			f.setup(&s)
		}
		h := newHistory(*work, id, "directed:"+f.dim, s)
		id++
		hs = append(hs, h)
		plans = append(plans, func(h *history) {
			h.step("initial state", false)
			base := h.cur.clone()
			f.flip(&h.cur)
			h.step("flip "+f.dim, true)
			t := h.cur.Touch
			h.cur = base.clone()
			h.cur.Touch = t
			first := h.steps[0]
			h.stepAgainst("flip "+f.dim+" back", true, &first)
		})
	}
	for i := 0; i < *nhist; i++ {
		r := rnd.Fork()
		s := baseState()
		// random initial state
		s.LeafDeprecated, s.LeafPure, s.LeafTypedNil = r.Bool(), r.Bool(), r.Bool()
		s.TargetVariant = r.Intn(4)
		s.Checks = checkChoices[r.Intn(len(checkChoices))]
		if r.Chance(50) {
			s.Conf["root"] = randomConf(r)
		}
		h := newHistory(*work, id, "random", s)
		id++
		hs = append(hs, h)
		n := *nsteps
		th := *thorough
		plans = append(plans, func(h *history) {
			h.step("initial state", false)
			for k := 1; k < n; k++ {
				e := randomEdit(r, h, th)
				h.step(e, true)
			}
		})
	}

	var wg sync.WaitGroup
	sem := make(chan struct{}, *par)
	var ep *EnvProbe
	if *probe {
		wg.Add(1)
		sem <- struct{}{}
		go func() {
			defer wg.Done()
			defer func() { <-sem }()
			ep = envProbe(*work)
		}()
	}
	for i := range hs {
		wg.Add(1)
		sem <- struct{}{}
		go func(i int) {
			defer wg.Done()
			defer func() { <-sem }()
			plans[i](hs[i])
			os.RemoveAll(hs[i].hdir)
		}(i)
	}
	wg.Wait()
	o := Out{Seed: *seed, Binaries: binaries, EnvProbe: ep, Histories: len(hs)}
	for _, h := range hs {
		o.Steps = append(o.Steps, h.steps...)
	}
	f, err := os.Create(*out)
	if err != nil {
		fmt.Fprintln(os.Stderr, err)
		os.Exit(2)
	}
	enc := json.NewEncoder(f)
	if err := enc.Encode(o); err != nil {
		fmt.Fprintln(os.Stderr, err)
		os.Exit(2)
	}
	f.Close()
}
