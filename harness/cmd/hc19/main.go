// hc19: struct types from a seeded grammar, laid out four ways:
//
//	(i)   go/gcsizes in-process (Sizeof / Alignof / Offsetsof, several word-size/max-align settings),
//	(ii)  the structlayout and structlayout-optimize commands built from the repository's working tree,
//	(iii) the gc compiler itself: a generated program printing unsafe.Sizeof/Alignof/Offsetof.
//
// Output: JSON, one record per type, with the Gallina term of the type. The comparison is done in Coq.
package main

import (
	"bytes"
	"encoding/json"
	"flag"
	"fmt"
	"go/ast"
	"go/parser"
	"go/token"
	"go/types"
	"os"
	"os/exec"
	"path/filepath"
	"strings"
	"sync"

	"honnef.co/go/tools/go/gcsizes"
	st "honnef.co/go/tools/structlayout"
	"verifharness/hx"
)

type Entry struct {
	Path  []int // field indices from the top-level struct; nil for padding; [-1] when the name is unknown
	Name  string
	Start int64
	End   int64
	Size  int64
	Align int64
	Pad   bool
}

type Tool struct {
	Ok      bool
	Err     string
	Entries []Entry
}

type Sz struct {
	Word, MaxAlign int64
	Size, Align    int64
	Offsets        []int64
}

type CLeaf struct {
	Path             []int
	Off, Size, Align int64
}

type Compiled struct {
	Size, Align int64
	Offsets     []int64
	Leaves      []CLeaf
}

type Case struct {
	Index    int
	Tools    bool // laid out by the commands as well (otherwise gcsizes and compiler only)
	Name     string
	Src      string
	Nodes    int
	Coq      string
	Gcsizes  []Sz
	Compiler Compiled
	Lay      Tool
	Opt      Tool
	OptR     Tool
	// gcsizes{4,4} against the compiler for GOARCH=386, settled at compile time (386 binaries cannot be run here):
	// "ok", "mismatch: <compiler message>" or "" when the 386 compilation was not attempted
	Arch386 string
}

type unsafeOnly struct{}

func (unsafeOnly) Import(path string) (*types.Package, error) {
	if path == "unsafe" {
		return types.Unsafe, nil
	}
	return nil, fmt.Errorf("unexpected import %q", path)
}

func fatal(a ...any) {
	fmt.Fprintln(os.Stderr, a...)
	os.Exit(2)
}

func main() {
	work := flag.String("work", "", "scratch directory")
	out := flag.String("out", "", "output JSON")
	seed := flag.Uint64("seed", 1, "seed")
	n := flag.Int("n", 150, "number of struct types run through the commands")
	arch386 := flag.Bool("arch386", true, "check gcsizes{4,4} against the 386 compiler at compile time")
	extra := flag.Int("extra", 0, "further struct types laid out by gcsizes and the compiler only")
	bin := flag.String("bin", "", "directory holding structlayout and structlayout-optimize built from the working tree")
	flag.Parse()

	gtypes, decls := generate(*seed, *n+*extra)

	// ---- the package
	var src strings.Builder
	src.WriteString("package t\n\nimport \"unsafe\"\n\nvar _ unsafe.Pointer\n\n")
	for _, d := range decls {
		src.WriteString(d + "\n")
	}
	for i, t := range gtypes {
		fmt.Fprintf(&src, "type T%d %s\n", i, t.Src)
	}
	mod := filepath.Join(*work, "mod")
	hx.WriteFile(filepath.Join(mod, "go.mod"), "module c19types\n\ngo 1.21\n")
	hx.WriteFile(filepath.Join(mod, "t", "types.go"), src.String())

	cases := make([]Case, len(gtypes))
	leaves := make([][]Leaf, len(gtypes))
	for i, t := range gtypes {
		t.Leaves(nil, nil, &leaves[i])
		cases[i] = Case{Index: i, Name: fmt.Sprintf("T%d", i), Src: t.Src, Nodes: t.size(), Coq: t.Coq()}
	}

	// ---- (iii) the compiler
	var prog strings.Builder
	prog.WriteString("package main\n\nimport (\n\t\"fmt\"\n\t\"unsafe\"\n\n\t\"c19types/t\"\n)\n\nfunc main() {\n")
	for i, t := range gtypes {
		fmt.Fprintf(&prog, "\t{\n\t\tvar v t.T%d\n\t\t_ = v\n\t\tfmt.Println(\"T\", %d, unsafe.Sizeof(v), unsafe.Alignof(v))\n", i, i)
		for _, f := range t.Fields {
			fmt.Fprintf(&prog, "\t\tfmt.Println(\"O\", unsafe.Offsetof(v.%s))\n", f.Name)
		}
		for _, l := range leaves[i] {
			var terms []string
			for k := range l.Names {
				terms = append(terms, "unsafe.Offsetof(v."+strings.Join(l.Names[:k+1], ".")+")")
			}
			sel := "v." + strings.Join(l.Names, ".")
			fmt.Fprintf(&prog, "\t\tfmt.Println(\"L\", %s, unsafe.Sizeof(%s), unsafe.Alignof(%s))\n", strings.Join(terms, "+"), sel, sel)
		}
		prog.WriteString("\t}\n")
	}
	prog.WriteString("}\n")
	hx.WriteFile(filepath.Join(mod, "main.go"), prog.String())
	env := hx.GoEnv()
	exe := filepath.Join(*work, "probe")
	cmd := exec.Command("go", "build", "-o", exe, ".")
	cmd.Dir, cmd.Env = mod, env
	if b, err := cmd.CombinedOutput(); err != nil {
		fatal("generated program does not compile:", err, string(b))
	}
	pout, err := exec.Command(exe).Output()
	if err != nil {
		fatal("generated program failed:", err)
	}
	cur := -1
	li := 0
	for _, line := range strings.Split(strings.TrimSpace(string(pout)), "\n") {
		var tag string
		var a, b, c int64
		switch line[0] {
		case 'T':
			fmt.Sscan(line, &tag, &a, &b, &c)
			cur, li = int(a), 0
			cases[cur].Compiler.Size, cases[cur].Compiler.Align = b, c
		case 'O':
			fmt.Sscan(line, &tag, &a)
			cases[cur].Compiler.Offsets = append(cases[cur].Compiler.Offsets, a)
		case 'L':
			fmt.Sscan(line, &tag, &a, &b, &c)
			cases[cur].Compiler.Leaves = append(cases[cur].Compiler.Leaves, CLeaf{Path: leaves[cur][li].Path, Off: a, Size: b, Align: c})
			li++
		}
	}

	// ---- (i) gcsizes in-process
	fset := token.NewFileSet()
	f, err := parser.ParseFile(fset, "types.go", src.String(), 0)
	if err != nil {
		fatal(err)
	}
	pkg, err := (&types.Config{Importer: unsafeOnly{}}).Check("c19types", fset, []*ast.File{f}, nil)
	if err != nil {
		fatal(err)
	}
	host := gcsizes.ForArch("amd64")
	szs := []*gcsizes.Sizes{host, {WordSize: 4, MaxAlign: 4}, {WordSize: 4, MaxAlign: 8}, {WordSize: 8, MaxAlign: 8}}
	for i := range gtypes {
		T := pkg.Scope().Lookup(cases[i].Name).Type()
		stt := T.Underlying().(*types.Struct)
		var fields []*types.Var
		for k := 0; k < stt.NumFields(); k++ {
			fields = append(fields, stt.Field(k))
		}
		for _, s := range szs {
			cases[i].Gcsizes = append(cases[i].Gcsizes, Sz{Word: s.WordSize, MaxAlign: s.MaxAlign, Size: s.Sizeof(T), Align: s.Alignof(T), Offsets: s.Offsetsof(fields)})
		}
	}

	// ---- (iii') GOARCH=386: array-length assertions with gcsizes{WordSize: 4, MaxAlign: 4}'s answers; the package
	// compiles iff every one of them is what the 386 compiler computes
	if *arch386 {
		var a strings.Builder
		a.WriteString("package a386\n\nimport (\n\t\"unsafe\"\n\n\t\"c19types/t\"\n)\n\nvar (\n")
		line := 9
		lineOf := map[int]int{}
		for i, gt := range gtypes {
			g := cases[i].Gcsizes[1]
			emit := func(expr string, v int64) {
				fmt.Fprintf(&a, "\t_ [%d]byte = [%s]byte{}\n", v, expr)
				line++
				lineOf[line] = i
			}
			emit(fmt.Sprintf("unsafe.Sizeof(t.T%d{})", i), g.Size)
			emit(fmt.Sprintf("unsafe.Alignof(t.T%d{})", i), g.Align)
			for k, fl := range gt.Fields {
				emit(fmt.Sprintf("unsafe.Offsetof(t.T%d{}.%s)", i, fl.Name), g.Offsets[k])
			}
		}
		a.WriteString(")\n")
		hx.WriteFile(filepath.Join(mod, "a386", "a.go"), a.String())
		c := exec.Command("go", "build", "-gcflags=-e", "./a386")
		c.Dir, c.Env = mod, append(append([]string(nil), env...), "GOARCH=386")
		b, err := c.CombinedOutput()
		for i := range cases {
			cases[i].Arch386 = "ok"
		}
		if err != nil {
			matched := false
			for _, l := range strings.Split(string(b), "\n") {
				var ln, col int
				if idx := strings.Index(l, "a.go:"); idx >= 0 {
					if n, _ := fmt.Sscanf(l[idx:], "a.go:%d:%d:", &ln, &col); n >= 1 {
						if ti, ok := lineOf[ln]; ok {
							cases[ti].Arch386 = "mismatch: " + strings.TrimSpace(l[idx:])
							matched = true
						}
					}
				}
			}
			if !matched {
				fatal("GOARCH=386 compilation failed for another reason:", err, string(b))
			}
		}
	}

	// ---- (ii) the commands
	pathOf := func(i int, name string) []int {
		parts := strings.Split(name, ".")
		if len(parts) < 2 || parts[0] != cases[i].Name {
			return []int{-1}
		}
		t := gtypes[i]
		var p []int
		for _, part := range parts[1:] {
			found := -1
			if t != nil && t.Kind == "struct" {
				for k, fl := range t.Fields {
					if fl.Name == part {
						found = k
					}
				}
			}
			if found < 0 {
				return []int{-1}
			}
			p = append(p, found)
			t = t.Fields[found].T
		}
		return p
	}
	decode := func(i int, raw []byte, err error, stderr string) Tool {
		if err != nil {
			return Tool{Err: strings.TrimSpace(err.Error() + " " + stderr)}
		}
		if len(bytes.TrimSpace(raw)) == 0 {
			return Tool{Ok: true} // optimize prints nothing for a struct without fields
		}
		var fs []st.Field
		if e := json.Unmarshal(raw, &fs); e != nil {
			return Tool{Err: "output is not JSON: " + e.Error()}
		}
		t := Tool{Ok: true}
		for _, fl := range fs {
			e := Entry{Name: fl.Name, Start: fl.Start, End: fl.End, Size: fl.Size, Align: fl.Align, Pad: fl.IsPadding}
			if !fl.IsPadding {
				e.Path = pathOf(i, fl.Name)
			}
			t.Entries = append(t.Entries, e)
		}
		return t
	}
	run := func(dir string, stdin []byte, name string, args ...string) ([]byte, error, string) {
		c := exec.Command(filepath.Join(*bin, name), args...)
		c.Dir, c.Env = dir, env
		if stdin != nil {
			c.Stdin = bytes.NewReader(stdin)
		}
		var eb bytes.Buffer
		c.Stderr = &eb
		o, err := c.Output()
		return o, err, eb.String()
	}
	var wg sync.WaitGroup
	sem := make(chan struct{}, 16)
	for i := range gtypes {
		if i >= *n {
			continue
		}
		cases[i].Tools = true
		wg.Add(1)
		go func(i int) {
			defer wg.Done()
			sem <- struct{}{}
			defer func() { <-sem }()
			raw, err, se := run(mod, nil, "structlayout", "-json", "./t", cases[i].Name)
			cases[i].Lay = decode(i, raw, err, se)
			if !cases[i].Lay.Ok {
				return
			}
			o, err, se := run(mod, raw, "structlayout-optimize", "-json")
			cases[i].Opt = decode(i, o, err, se)
			o, err, se = run(mod, raw, "structlayout-optimize", "-r", "-json")
			cases[i].OptR = decode(i, o, err, se)
		}(i)
	}
	wg.Wait()
	hx.EmitJSON(*out, cases)
}
