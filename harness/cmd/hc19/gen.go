package main

import (
	"fmt"
	"strings"

	"verifharness/hx"
)

// GType is a generated Go type together with its structure as the Coq model sees it (the underlying
// type with named types and aliases resolved; Src keeps the spelling used in the Go source).
type GType struct {
	Kind   string // basic | ptr | slice | iface | array | struct
	Basic  string // Coq constructor of the basic kind (KInt8 ...)
	Src    string // Go source of the type expression as used at this occurrence
	Len    int64
	Elem   *GType
	Fields []GField
}

type GField struct {
	Name     string
	Embedded bool
	T        *GType
}

var basics = [][2]string{
	{"bool", "KBool"}, {"int8", "KInt8"}, {"int16", "KInt16"}, {"int32", "KInt32"}, {"int64", "KInt64"},
	{"uint8", "KUint8"}, {"uint16", "KUint16"}, {"uint32", "KUint32"}, {"uint64", "KUint64"},
	{"int", "KInt"}, {"uint", "KUint"}, {"uintptr", "KUintptr"},
	{"float32", "KFloat32"}, {"float64", "KFloat64"}, {"complex64", "KComplex64"}, {"complex128", "KComplex128"},
	{"string", "KString"}, {"unsafe.Pointer", "KUnsafePointer"},
	{"byte", "KUint8"}, {"rune", "KInt32"},
}

func B(name string) *GType {
	for _, b := range basics {
		if b[0] == name {
			return &GType{Kind: "basic", Basic: b[1], Src: name}
		}
	}
	panic(name)
}
func P(src string) *GType     { return &GType{Kind: "ptr", Src: src} } // pointer, map, chan, func: one word
func Sl(src string) *GType    { return &GType{Kind: "slice", Src: src} }
func If(src string) *GType    { return &GType{Kind: "iface", Src: src} }
func Arr(n int64, e *GType) *GType {
	return &GType{Kind: "array", Len: n, Elem: e, Src: fmt.Sprintf("[%d]%s", n, e.Src)}
}
func F(name string, t *GType) GField { return GField{Name: name, T: t} }
func S(fs ...GField) *GType {
	t := &GType{Kind: "struct", Fields: fs}
	var b strings.Builder
	b.WriteString("struct{")
	for i, f := range fs {
		if i > 0 {
			b.WriteString("; ")
		}
		if f.Embedded {
			b.WriteString(f.T.Src)
		} else {
			b.WriteString(f.Name + " " + f.T.Src)
		}
	}
	b.WriteString("}")
	t.Src = b.String()
	return t
}

// named returns the same structure spelled by a declared name.
func named(name string, t *GType) *GType {
	c := *t
	c.Src = name
	return &c
}

// Coq renders the structure as a Gallina term of type ty.
func (t *GType) Coq() string {
	switch t.Kind {
	case "basic":
		return "TBasic " + t.Basic
	case "ptr":
		return "TPtr"
	case "slice":
		return "TSlice"
	case "iface":
		return "TIface"
	case "array":
		return fmt.Sprintf("TArray %d (%s)", t.Len, t.Elem.Coq())
	case "struct":
		var fs []string
		for _, f := range t.Fields {
			fs = append(fs, t2(f.T))
		}
		return "TStruct [" + strings.Join(fs, "; ") + "]"
	}
	panic(t.Kind)
}
func t2(t *GType) string { return t.Coq() }

func (t *GType) expands() bool { return t.Kind == "struct" && len(t.Fields) != 0 }

// Leaves lists the paths (field indices) of the leaves in the order structlayout prints them: nested
// structs with at least one field are expanded, everything else (including struct{} and arrays) is a leaf.
func (t *GType) Leaves(prefix []int, names []string, out *[]Leaf) {
	for i, f := range t.Fields {
		p := append(append([]int(nil), prefix...), i)
		n := append(append([]string(nil), names...), f.Name)
		if f.T.expands() {
			f.T.Leaves(p, n, out)
		} else {
			*out = append(*out, Leaf{Path: p, Names: n})
		}
	}
}

type Leaf struct {
	Path  []int
	Names []string
}

func (t *GType) size() int { // number of nodes, used for ordering/reporting only
	n := 1
	if t.Elem != nil {
		n += t.Elem.size()
	}
	for _, f := range t.Fields {
		n += f.T.size()
	}
	return n
}

// ---------------------------------------------------------------------------------------------

type Gen struct {
	r      *hx.Rand
	decls  []string // package-level declarations of named types / aliases
	pool   []*GType // named types usable as field types
	nnamed int
}

func (g *Gen) declare(t *GType, alias bool) *GType {
	name := fmt.Sprintf("N%d", g.nnamed)
	g.nnamed++
	if alias {
		g.decls = append(g.decls, fmt.Sprintf("type %s = %s", name, t.Src))
	} else {
		g.decls = append(g.decls, fmt.Sprintf("type %s %s", name, t.Src))
	}
	n := named(name, t)
	g.pool = append(g.pool, n)
	return n
}

var ptrSrcs = []string{"*int8", "*[4]int64", "map[string]int", "chan int", "func()", "func(int) string", "*struct{ X, Y int64 }", "<-chan struct{}"}
var sliceSrcs = []string{"[]int16", "[]string", "[]struct{}", "[][2]int64"}
var ifaceSrcs = []string{"interface{}", "error", "interface{ M() }", "any"}

func (g *Gen) leafType() *GType {
	r := g.r
	switch x := r.Intn(100); {
	case x < 62:
		return B(basics[r.Intn(len(basics))][0])
	case x < 76:
		return P(ptrSrcs[r.Intn(len(ptrSrcs))])
	case x < 84:
		return Sl(sliceSrcs[r.Intn(len(sliceSrcs))])
	case x < 92:
		return If(ifaceSrcs[r.Intn(len(ifaceSrcs))])
	default:
		return S() // struct{}
	}
}

var arrayLens = []int64{0, 0, 1, 2, 3, 5, 7}

func (g *Gen) typ(depth int) *GType {
	r := g.r
	if depth <= 0 {
		return g.leafType()
	}
	switch x := r.Intn(100); {
	case x < 52:
		return g.leafType()
	case x < 66:
		return Arr(arrayLens[r.Intn(len(arrayLens))], g.typ(depth-1))
	case x < 84:
		return g.structType(depth-1, r.Intn(5))
	default:
		if len(g.pool) > 0 {
			return g.pool[r.Intn(len(g.pool))]
		}
		return g.leafType()
	}
}

func (g *Gen) zeroSized(depth int) *GType {
	switch g.r.Intn(5) {
	case 0:
		return S()
	case 1:
		return Arr(0, B("int64"))
	case 2:
		return Arr(0, g.typ(depth))
	case 3:
		return S(F("E", S()))
	default:
		return Arr(3, S())
	}
}

func (g *Gen) structType(depth, nfields int) *GType {
	r := g.r
	var fs []GField
	used := map[string]bool{}
	for i := 0; i < nfields; i++ {
		var t *GType
		if r.Chance(8) {
			t = g.zeroSized(depth)
		} else {
			t = g.typ(depth)
		}
		f := GField{Name: fmt.Sprintf("F%d", i), T: t}
		// embed a named type now and then (the field's name is the type's name)
		if strings.HasPrefix(t.Src, "N") && !used[t.Src] && t.Kind != "ptr" && t.Basic != "KUnsafePointer" && r.Chance(35) {
			f.Name, f.Embedded = t.Src, true
			used[t.Src] = true
		}
		fs = append(fs, f)
	}
	if nfields > 0 && r.Chance(22) {
		fs = append(fs, GField{Name: fmt.Sprintf("F%d", nfields), T: g.zeroSized(depth)})
	}
	return S(fs...)
}

// directed cases: always generated, whatever the seed (DESIGN 6 C19 "On the current tree" + corner cases)
func directed() []*GType {
	i8, i64 := B("int8"), B("int64")
	inner := S(F("X", i64), F("Y", i8))
	return []*GType{
		S(F("A", S())),                                   // only zero-size fields
		S(F("A", i64), F("B", inner), F("C", i8)),        // nested struct with trailing padding at non-zero base
		S(F("P", Arr(7, i8)), F("A", i8), F("B", i64), F("Q", Arr(7, i8)), F("C", i8), F("D", i64)),
		S(F("A", i8), F("B", inner)),                     // nested struct last
		S(F("A", i8), F("C", B("complex64"))),            // complex64 is aligned like float32
		S(F("A", i8), F("B", S(F("X", S())))),            // trailing zero-size nested struct
		S(F("A", i64), F("Z", Arr(0, i64))),              // trailing zero-size field with alignment 8
		S(F("B", S(F("X", i64), F("Z", Arr(0, i64)))), F("C", i8)),
		S(),                                              // no fields at all
		S(F("A", Arr(0, i64))),                           // size 0, alignment 8
		S(F("A", i8), F("Z", Arr(0, i64)), F("B", i8)),   // zero-size field in the middle
		S(F("A", Arr(3, inner)), F("B", i8)),             // array of padded structs
		S(F("A", B("complex128")), F("B", i8)),
		S(F("A", i8), F("B", S(F("X", i8), F("C", S(F("Y", i64), F("Z", i8))))), F("D", i8)),
		S(F("A", S(F("X", S()))), F("B", i8)),            // zero-size nested struct first
		S(F("A", B("int32")), F("B", S(F("X", i8))), F("C", B("int32")), F("D", S(F("X", i8), F("Y", B("int16")))), F("E", i64)),
		S(F("A", i8), F("B", S(F("X", B("int16")), F("Y", S(F("U", i8), F("V", B("int32")))))), F("C", B("string"))),
		S(F("A", B("float32")), F("B", B("complex64")), F("C", B("complex128")), F("D", B("bool"))),
	}
}

func generate(seed uint64, n int) (types []*GType, decls []string) {
	g := &Gen{r: hx.NewRand(seed)}
	types = append(types, directed()...)
	// a pool of named types / aliases (some structs, some arrays, some zero-sized)
	for i := 0; i < 10; i++ {
		var t *GType
		switch i {
		case 0:
			t = S()
		case 1:
			t = S(F("X", B("int64")), F("Y", B("int8")))
		case 2:
			t = Arr(0, B("int32"))
		default:
			t = g.typ(2)
		}
		g.declare(t, g.r.Chance(30))
	}
	for len(types) < n {
		nf := 1 + g.r.Intn(8)
		depth := 1 + g.r.Intn(3)
		types = append(types, g.structType(depth, nf))
	}
	return types, g.decls
}
