// hc01: differential harness for C01 (IR preserves program semantics).
// For every program (corpus files first, then seeded generated ones):
//   (a) ground truth: prog.go + generated driver.go compiled with `go build`, run, output parsed;
//   (b) go/ir built from the same source in {lifted, naive} x {debug off, on}, serialised to Gallina.
// Output: one JSON record per program with the text of the cases file evaluated by coqc.
package main

import (
	"bytes"
	"context"
	"flag"
	"fmt"
	"go/ast"
	"go/parser"
	"go/token"
	"go/types"
	"os"
	"os/exec"
	"path/filepath"
	"runtime"
	"sort"
	"strings"
	"sync"
	"time"

	"honnef.co/go/tools/go/ir"
	"verifharness/hx"
)

type Form struct {
	Name string
	Mode ir.BuilderMode
}

var forms = []Form{
	{"L", 0},
	{"N", ir.NaiveForm},
	{"LD", ir.GlobalDebug},
	{"ND", ir.NaiveForm | ir.GlobalDebug},
}

type ProgResult struct {
	Name      string
	Seed      uint64
	Origin    string // "corpus" | "generated"
	Src       string
	Driver    string
	Status    string // "ok" | "compile-failed" | "run-failed" | "typecheck-failed" | "no-test-funcs" | "ir-build-panicked"
	Detail    string
	NCases    int
	NFuncs    int
	FuncNames []string
	CaseFn    []int
	CaseIn    []string
	CaseExp   []string // what the compiled program showed (Gallina expectation)
	VText     string
	Kinds     map[string]map[string]int // form -> kind -> count
	Unsupp    map[string]int
	Features  map[string]int
	SameAs    map[string]string // form -> earlier form with textually identical IR
	Panics    int
	NIRFuncs  int
	CFGFuncs  int // functions compared between the lifted and the naive form
	CFGDiff   int // ... whose CFG (blocks, preds, succs in order) differs
	BuildSecs float64
}

func typecheck(fset *token.FileSet, files []*ast.File) (*types.Package, *types.Info, error) {
	info := &types.Info{
		Types: map[ast.Expr]types.TypeAndValue{}, Defs: map[*ast.Ident]types.Object{}, Uses: map[*ast.Ident]types.Object{},
		Implicits: map[ast.Node]types.Object{}, Selections: map[*ast.SelectorExpr]*types.Selection{}, Scopes: map[ast.Node]*types.Scope{},
		Instances: map[*ast.Ident]types.Instance{}, FileVersions: map[*ast.File]string{},
	}
	conf := types.Config{GoVersion: "go1.24"}
	pkg, err := conf.Check("main", fset, files, info)
	return pkg, info, err
}

// pending: a program whose IR has been serialised and whose ground-truth package has been written
type pending struct {
	res   ProgResult
	vt    strings.Builder
	cases []Case
	tb    *Tables
	tfs   []TestFunc
	zeros []string
	ready bool
}

func prepare(name, origin, src string, seed uint64, work string, ncases int) (pd *pending) {
	pd = &pending{}
	pd.res = ProgResult{Name: name, Seed: seed, Origin: origin, Src: src, Kinds: map[string]map[string]int{}, Unsupp: map[string]int{}}
	res := &pd.res
	defer func() {
		if r := recover(); r != nil {
			res.Status = "ir-build-panicked"
			res.Detail = fmt.Sprint(r)
		}
	}()
	fset := token.NewFileSet()
	f, err := parser.ParseFile(fset, "prog.go", src, parser.SkipObjectResolution|parser.ParseComments)
	if err != nil {
		res.Status, res.Detail = "typecheck-failed", err.Error()
		return
	}
	df, _ := parser.ParseFile(fset, "decl.go", externDecls, parser.SkipObjectResolution)
	files := []*ast.File{f, df}
	pkg, info, err := typecheck(fset, files)
	if err != nil {
		res.Status, res.Detail = "typecheck-failed", err.Error()
		return
	}
	// globals in declaration order with the source text of their initialisers
	tb := newTables()
	for _, n := range externOrder {
		tb.extern(n)
	}
	ginit := map[*types.Var]string{}
	for _, dcl := range f.Decls {
		gd, ok := dcl.(*ast.GenDecl)
		if !ok || gd.Tok != token.VAR {
			continue
		}
		for _, sp := range gd.Specs {
			vs := sp.(*ast.ValueSpec)
			for i, id := range vs.Names {
				if id.Name == "_" {
					continue
				}
				v := info.Defs[id].(*types.Var)
				tb.globalIdx[v] = len(tb.globals)
				tb.globals = append(tb.globals, v)
				if len(vs.Values) == len(vs.Names) {
					e := vs.Values[i]
					ginit[v] = src[fset.Position(e.Pos()).Offset:fset.Position(e.End()).Offset]
				} else if len(vs.Values) != 0 {
					res.Status, res.Detail = "typecheck-failed", "multi-value global initialiser"
					return
				}
			}
		}
	}
	tfs := testFuncs(pkg, f, info)
	if len(tfs) == 0 {
		res.Status = "no-test-funcs"
		return
	}
	res.NFuncs = len(tfs)
	rnd := hx.NewRand(seed ^ 0x5151)
	driver, cases, ok := buildDriver(pkg, f, info, src, tfs, tb.globals, ginit, ncases, rnd)
	if !ok {
		res.Status = "no-test-funcs"
		return
	}
	res.Driver = driver

	// (b) IR in four forms (built first: type ids used by the output parser come from the tables)
	vt := &pd.vt
	fmt.Fprintf(vt, "(* program %s (%s), seed %d *)\n", name, origin, seed)
	pfx := name + "_"
	var zeros []string
	cfgSigs := map[string]map[string]string{}
	seenText := map[string]string{}
	sharedFns := map[string]string{}
	res.SameAs = map[string]string{}
	for _, fm := range forms {
		prog := ir.NewProgram(fset, fm.Mode|ir.BareInits|ir.InstantiateGenerics)
		p := prog.CreatePackage(pkg, files, info, true)
		p.Build()
		s := newSer(tb, prog, p)
		roots := []*ir.Function{p.Func("init")}
		for _, tf := range tfs {
			roots = append(roots, p.Func(tf.Obj.Name()))
		}
		s.discover(roots)
		if zeros == nil {
			for _, g := range tb.globals {
				z := "(VInt 0)"
				func() {
					defer func() {
						if r := recover(); r != nil {
							if _, ok := r.(unsupported); !ok {
								panic(r)
							}
						}
					}()
					z = s.zero(g.Type())
				}()
				zeros = append(zeros, z)
			}
		}
		text := s.Program("prog_X", pfx, sharedFns, vt)
		if prev, ok := seenText[text]; ok {
			// textually identical IR (after dropping pseudo-instructions): same behaviour, evaluated once
			res.SameAs[fm.Name] = prev
			fmt.Fprintf(vt, "(* %sprog_%s is identical to %sprog_%s *)\n\n", pfx, fm.Name, pfx, prev)
		} else {
			seenText[text] = fm.Name
			vt.WriteString(strings.Replace(text, "Definition prog_X", "Definition "+pfx+"prog_"+fm.Name, 1))
			vt.WriteString("\n")
		}
		res.Kinds[fm.Name] = s.Kinds
		for k, v := range s.Unsupp {
			res.Unsupp[k] += v
		}
		res.NIRFuncs += len(s.funcs)
		sig := map[string]string{}
		for _, f := range s.funcs {
			var sb strings.Builder
			for _, b := range f.Blocks {
				fmt.Fprintf(&sb, "%d:", b.Index)
				for _, p := range b.Preds {
					fmt.Fprintf(&sb, "p%d", p.Index)
				}
				for _, p := range b.Succs {
					fmt.Fprintf(&sb, "s%d", p.Index)
				}
				sb.WriteString(";")
			}
			sig[f.String()] = sb.String()
		}
		cfgSigs[fm.Name] = sig
	}
	for name, a := range cfgSigs["L"] {
		if b, ok := cfgSigs["N"][name]; ok {
			res.CFGFuncs++
			if a != b {
				res.CFGDiff++
			}
		}
	}

	// (a) ground truth: the program becomes package <name> of the combined module
	dir := filepath.Join(work, "all", name)
	hx.WriteFile(filepath.Join(dir, "prog.go"), strings.Replace(src, "package main", "package "+name, 1))
	drv := strings.Replace(driver, "package main", "package "+name, 1)
	drv = strings.Replace(drv, "func main() {", "func Main() {", 1)
	hx.WriteFile(filepath.Join(dir, "driver.go"), drv)
	pd.cases, pd.tb, pd.tfs, pd.zeros = cases, tb, tfs, zeros
	pd.ready = true
	return
}

// finish parses the output of the compiled program and completes the cases file
func (pd *pending) finish(output string) {
	res := &pd.res
	vt := &pd.vt
	cases, tb, tfs, zeros := pd.cases, pd.tb, pd.tfs, pd.zeros
	pfx := res.Name + "_"
	if err := parseOutput(output, cases, tb); err != nil {
		res.Status, res.Detail = "run-failed", err.Error()
		return
	}
	fmt.Fprintf(vt, "Definition %szeros : list value := [%s].\n\n", pfx, strings.Join(zeros, "; "))
	fmt.Fprintf(vt, "Definition %scases : list case := [\n", pfx)
	for i := range cases {
		sep := ";"
		if i == len(cases)-1 {
			sep = ""
		}
		fmt.Fprintf(vt, "  %s%s\n", cases[i].Coq(), sep)
		if cases[i].Panic != "" {
			res.Panics++
		}
		res.CaseFn = append(res.CaseFn, cases[i].Fn)
		var ins []string
		for _, in := range cases[i].Inputs {
			ins = append(ins, strings.TrimSpace(in.Setup))
		}
		res.CaseIn = append(res.CaseIn, strings.Join(ins, "; "))
		exp := cases[i].Coq()
		res.CaseExp = append(res.CaseExp, exp[strings.Index(exp, "(mkExpect"):])
	}
	vt.WriteString("].\n\n")
	for _, fm := range forms {
		if _, dup := res.SameAs[fm.Name]; dup {
			continue
		}
		fmt.Fprintf(vt, "Definition %sR_%s := Eval vm_compute in run_form fuel %sprog_%s 0 %szeros %scases.\nPrint %sR_%s.\n", pfx, fm.Name, pfx, fm.Name, pfx, pfx, pfx, fm.Name)
		fmt.Fprintf(vt, "Definition %sS_%s := Eval vm_compute in ssa_bad_funcs %sprog_%s.\nPrint %sS_%s.\n", pfx, fm.Name, pfx, fm.Name, pfx, fm.Name)
	}
	res.VText = vt.String()
	res.NCases = len(cases)
	for _, tf := range tfs {
		res.FuncNames = append(res.FuncNames, tf.Obj.Name())
	}
	res.Status = "ok"
}

func tail(s string, n int) string {
	if len(s) > n {
		return s[len(s)-n:]
	}
	return s
}

func main() {
	work := flag.String("work", "", "scratch directory")
	out := flag.String("out", "", "output JSON")
	seed := flag.Uint64("seed", 1, "seed")
	nprog := flag.Int("n", 10, "number of generated programs")
	ncases := flag.Int("cases", 6, "input vectors per function")
	corpus := flag.String("corpus", "", "directory with hand-written/minimised programs (*.go)")
	dump := flag.String("dump", "", "write generated sources to this directory and exit")
	flag.Parse()
	goenv := hx.GoEnv()
	goenv = append(goenv, "GOFLAGS=-mod=mod", "CGO_ENABLED=0")

	type job struct {
		name, origin, src string
		seed              uint64
		feat              map[string]int
	}
	var jobs []job
	if *corpus != "" {
		ms, _ := filepath.Glob(filepath.Join(*corpus, "*.go"))
		sort.Strings(ms)
		for _, m := range ms {
			b := hx.Must(os.ReadFile(m))
			// corpus programs always run on the same inputs (independent of the run's seed)
			jobs = append(jobs, job{"c_" + strings.TrimSuffix(filepath.Base(m), ".go"), "corpus", string(b), 20260923, nil})
		}
	}
	rnd := hx.NewRand(*seed)
	for i := 0; i < *nprog; i++ {
		ps := rnd.Uint64()
		g := newGen(ps)
		src := g.Program()
		jobs = append(jobs, job{fmt.Sprintf("g%d_%d", *seed, i), "generated", src, ps, g.Feat})
	}
	if *dump != "" {
		for _, j := range jobs {
			hx.WriteFile(filepath.Join(*dump, j.name+".go"), j.src)
		}
		return
	}
	pds := make([]*pending, len(jobs))
	var wg sync.WaitGroup
	sem := make(chan struct{}, runtime.GOMAXPROCS(0))
	for i, j := range jobs {
		wg.Add(1)
		go func(i int, j job) {
			defer wg.Done()
			sem <- struct{}{}
			defer func() { <-sem }()
			pds[i] = prepare(j.name, j.origin, j.src, j.seed, *work, *ncases)
			pds[i].res.Features = j.feat
		}(i, j)
	}
	wg.Wait()
	// one module, one binary: package per program, selected by the first argument
	all := filepath.Join(*work, "all")
	hx.WriteFile(filepath.Join(all, "go.mod"), "module p\n\ngo 1.24\n")
	exe := filepath.Join(all, "all.exe")
	for attempt := 0; attempt < 4; attempt++ {
		var mainSrc strings.Builder
		mainSrc.WriteString("package main\n\nimport (\n\t\"os\"\n")
		n := 0
		for _, pd := range pds {
			if pd.ready {
				fmt.Fprintf(&mainSrc, "\t%s \"p/%s\"\n", pd.res.Name, pd.res.Name)
				n++
			}
		}
		mainSrc.WriteString(")\n\nfunc main() {\n\tswitch os.Args[1] {\n")
		for _, pd := range pds {
			if pd.ready {
				fmt.Fprintf(&mainSrc, "\tcase %q:\n\t\t%s.Main()\n", pd.res.Name, pd.res.Name)
			}
		}
		mainSrc.WriteString("\t}\n}\n")
		if n == 0 {
			break
		}
		hx.WriteFile(filepath.Join(all, "main.go"), mainSrc.String())
		cmd := exec.Command("go", "build", "-o", exe, ".")
		cmd.Dir = all
		cmd.Env = goenv
		outb, err := cmd.CombinedOutput()
		if err == nil {
			break
		}
		// drop the packages the compiler complains about and retry
		dropped := false
		for _, pd := range pds {
			if pd.ready && (strings.Contains(string(outb), "p/"+pd.res.Name+"\n") || strings.Contains(string(outb), pd.res.Name+"/prog.go") || strings.Contains(string(outb), pd.res.Name+"/driver.go")) {
				pd.ready = false
				pd.res.Status, pd.res.Detail = "compile-failed", tail(string(outb), 1500)
				os.RemoveAll(filepath.Join(all, pd.res.Name))
				dropped = true
			}
		}
		if !dropped {
			for _, pd := range pds {
				if pd.ready {
					pd.ready = false
					pd.res.Status, pd.res.Detail = "compile-failed", tail(string(outb), 1500)
				}
			}
		}
	}
	for i := range pds {
		if !pds[i].ready {
			continue
		}
		wg.Add(1)
		go func(pd *pending) {
			defer wg.Done()
			sem <- struct{}{}
			defer func() { <-sem }()
			ctx, cancel := context.WithTimeout(context.Background(), 30*time.Second)
			defer cancel()
			run := exec.CommandContext(ctx, exe, pd.res.Name)
			var stderr bytes.Buffer
			run.Stderr = &stderr
			run.Stdout = &stderr
			if err := run.Run(); err != nil {
				pd.res.Status, pd.res.Detail = "run-failed", err.Error()+"\n"+tail(stderr.String(), 2000)
				return
			}
			pd.finish(stderr.String())
		}(pds[i])
	}
	wg.Wait()
	results := make([]ProgResult, len(pds))
	for i, pd := range pds {
		results[i] = pd.res
	}
	hx.EmitJSON(*out, results)
}
