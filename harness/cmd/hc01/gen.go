// Seeded generator of type-correct Go programs in the executable subset of C01.
//
// Discipline that keeps every generated program's behaviour determined by the Go specification
// (so that the gc-compiled binary is a legitimate oracle):
//   - a statement either contains no call with side effects ("calc statement": may read anything, may
//     panic at run time), or every operand besides its calls is "plain": constants and locals that no
//     call can modify (never address-taken, never captured) combined with non-panicking operators;
//     calls among themselves are ordered left to right by the specification;
//   - append results never have an observable spare capacity obtained by growth (appendable slice
//     variables are only appended to, indexed, measured and ranged over);
//   - every loop is bounded (constant trip counts, a per-function fuel counter for condition loops and
//     backward gotos); map iteration order is never observable.
package main

import (
	"fmt"
	"strings"

	"verifharness/hx"
)

type tkind int

const (
	tInt tkind = iota
	tBool
	tString
	tArray
	tSlice
	tStruct
	tPtr
	tFunc
	tMap
	tIface
)

type ty struct {
	k      tkind
	name   string
	elem   *ty
	n      int
	fields []*vr // struct fields
	signed bool
	bits   int
	params []*ty // func
	res    *ty
}

type vr struct {
	name       string
	t          *ty
	unstable   bool // a call may modify it (global, address-taken, captured)
	escapable  bool // local whose address may be taken / that may be captured
	readonly   bool // loop counters
	appendable bool // slice used only through append/index/len/range
	fields     bool
}

type fdecl struct {
	name   string
	params []*ty
	res    []*ty
	pure   bool // no effects, never panics
}

type gen struct {
	rnd     *hx.Rand
	sb      strings.Builder
	ints    []*ty
	tInt    *ty
	tBool   *ty
	tStr    *ty
	tU8     *ty
	arrs    []*ty
	structs []*ty
	slInt   *ty
	ptrInt  *ty
	fnII    *ty
	mapII   *ty
	iface   *ty
	globals []*vr
	funcs   []*fdecl
	pures   []*fdecl
	Feat    map[string]int
	ptrs    map[string]*ty
}

func newGen(seed uint64) *gen {
	g := &gen{rnd: hx.NewRand(seed), Feat: map[string]int{}, ptrs: map[string]*ty{}}
	mk := func(name string, signed bool, bits int) *ty {
		return &ty{k: tInt, name: name, signed: signed, bits: bits}
	}
	g.tInt = mk("int", true, 64)
	g.tU8 = mk("uint8", false, 8)
	g.ints = []*ty{g.tInt, mk("int8", true, 8), g.tU8, mk("int32", true, 32), mk("uint", false, 64), mk("uint16", false, 16), mk("int64", true, 64)}
	g.tBool = &ty{k: tBool, name: "bool"}
	g.tStr = &ty{k: tString, name: "string"}
	g.slInt = &ty{k: tSlice, name: "[]int", elem: g.tInt}
	g.ptrInt = &ty{k: tPtr, name: "*int", elem: g.tInt}
	g.fnII = &ty{k: tFunc, name: "func(int) int", params: []*ty{g.tInt}, res: g.tInt}
	g.mapII = &ty{k: tMap, name: "map[int]int", elem: g.tInt}
	g.iface = &ty{k: tIface, name: "I0"}
	return g
}

func (g *gen) pick(n int) int    { return g.rnd.Intn(n) }
func (g *gen) chance(p int) bool { return g.rnd.Chance(p) }

func (g *gen) arrayOf(e *ty, n int) *ty {
	name := fmt.Sprintf("[%d]%s", n, e.name)
	for _, a := range g.arrs {
		if a.name == name {
			return a
		}
	}
	a := &ty{k: tArray, name: name, elem: e, n: n}
	g.arrs = append(g.arrs, a)
	return a
}

func (g *gen) ptrTo(t *ty) *ty {
	if t == g.tInt {
		return g.ptrInt
	}
	if p, ok := g.ptrs[t.name]; ok {
		return p
	}
	p := &ty{k: tPtr, name: "*" + t.name, elem: t}
	g.ptrs[t.name] = p
	return p
}

// Program generates one program.
func (g *gen) Program() string {
	w := &g.sb
	w.WriteString("package main\n\n")
	// struct types
	ns := 1 + g.pick(2)
	for i := 0; i < ns; i++ {
		st := &ty{k: tStruct, name: fmt.Sprintf("S%d", i)}
		nf := 2 + g.pick(3)
		for j := 0; j < nf; j++ {
			var ft *ty
			switch g.pick(8) {
			case 0, 1, 2:
				ft = g.tInt
			case 3:
				ft = g.ints[g.pick(len(g.ints))]
			case 4:
				ft = g.tStr
			case 5:
				ft = g.tBool
			case 6:
				ft = g.arrayOf(g.tInt, 2+g.pick(2))
			case 7:
				if i > 0 {
					ft = g.structs[0]
				} else {
					ft = g.ptrInt
				}
			}
			st.fields = append(st.fields, &vr{name: fmt.Sprintf("f%d", j), t: ft})
		}
		g.structs = append(g.structs, st)
		fmt.Fprintf(w, "type %s struct {\n", st.name)
		for _, f := range st.fields {
			fmt.Fprintf(w, "\t%s %s\n", f.name, f.t.name)
		}
		w.WriteString("}\n\n")
	}
	// globals
	gts := []*ty{g.tInt, g.tInt, g.arrayOf(g.tInt, 4), g.structs[0], g.tStr, g.slInt, g.ints[1+g.pick(len(g.ints)-1)]}
	for i, t := range gts {
		v := &vr{name: fmt.Sprintf("g%d", i), t: t, unstable: true}
		g.globals = append(g.globals, v)
		if t.k == tInt && g.chance(50) {
			fmt.Fprintf(w, "var %s %s = %d\n", v.name, t.name, g.pick(5))
		} else if t.k == tArray && g.chance(50) {
			fmt.Fprintf(w, "var %s = %s{1, 2}\n", v.name, t.name)
		} else {
			fmt.Fprintf(w, "var %s %s\n", v.name, t.name)
		}
	}
	w.WriteString("var gp *int\n\n")
	fmt.Fprintf(w, "type I0 interface {\n\tM0(x int) int\n\tM1() int\n}\n\ntype T0 struct{ a, b int }\n\ntype T1 struct{ n int }\n\ntype T2 int\n\n")
	fmt.Fprintf(w, "func (t T0) M0(x int) int { return t.a*%d + x }\n\nfunc (t T0) M1() int {\n\temit(7, t.b)\n\treturn t.b\n}\n\n", 1+g.pick(3))
	fmt.Fprintf(w, "func (t *T1) M0(x int) int {\n\tt.n += x\n\treturn t.n\n}\n\nfunc (t *T1) M1() int { return t.n * %d }\n\n", 2+g.pick(3))
	fmt.Fprintf(w, "func (t T2) M0(x int) int { return int(t) - x }\n\nfunc (t T2) M1() int {\n\temit(8, int(t))\n\treturn int(t) + %d\n}\n\n", g.pick(5))
	fmt.Fprintf(w, "func mkI(k int) I0 {\n\tswitch uint(k) %% %d {\n\tcase 0:\n\t\treturn T0{k, %d}\n\tcase 1:\n\t\treturn &T1{k}\n\tcase 2:\n\t\treturn T2(k)\n\t}\n\treturn nil\n}\n\n", 4+g.pick(4), g.pick(9))
	w.WriteString("func esc(p *int) { gp = p }\n\nfunc poke(v int) {\n\tif gp != nil {\n\t\t*gp = v\n\t}\n}\n\nfunc peek() int {\n\tif gp != nil {\n\t\treturn *gp\n\t}\n\treturn -1\n}\n\n")
	w.WriteString("func bump(p *int, d int) int {\n\t*p += d\n\treturn *p\n}\n\n")
	w.WriteString("func iter(n int) func(func(int) bool) {\n\treturn func(yield func(int) bool) {\n\t\tfor i := 0; i < n; i++ {\n\t\t\tif !yield(i) {\n\t\t\t\temit(6, i)\n\t\t\t\treturn\n\t\t\t}\n\t\t}\n\t\temit(6, -1)\n\t}\n}\n\n")
	w.WriteString("func iter2(xs []int) func(func(int, int) bool) {\n\treturn func(yield func(int, int) bool) {\n\t\tfor i, x := range xs {\n\t\t\tif !yield(i, x) {\n\t\t\t\treturn\n\t\t\t}\n\t\t}\n\t}\n}\n\n")
	w.WriteString("func gmax[T int | int8 | uint8 | int32](a, b T) T {\n\tif a > b {\n\t\treturn a\n\t}\n\treturn b\n}\n\n")
	w.WriteString("func gsum[T int | int8 | uint8 | int32](xs ...T) T {\n\tvar s T\n\tfor _, x := range xs {\n\t\ts += x\n\t}\n\treturn s\n}\n\n")
	w.WriteString("func tr(k int) int {\n\temit(9, k)\n\treturn k\n}\n\n")
	w.WriteString("func at(s []int, i int) int {\n\tif len(s) == 0 {\n\t\treturn 0\n\t}\n\treturn s[uint(i)%uint(len(s))]\n}\n\n")
	w.WriteString("func sidx(s string, i int) byte {\n\tif len(s) == 0 {\n\t\treturn 0\n\t}\n\treturn s[uint(i)%uint(len(s))]\n}\n\n")
	g.funcs = append(g.funcs,
		&fdecl{name: "poke", params: []*ty{g.tInt}},
		&fdecl{name: "peek", res: []*ty{g.tInt}},
	)
	// pure helpers
	np := 1 + g.pick(2)
	for i := 0; i < np; i++ {
		fd := &fdecl{name: fmt.Sprintf("h%d", i), pure: true, res: []*ty{g.tInt}}
		n := 1 + g.pick(2)
		fg := g.newFgen(fd)
		var ps []string
		for j := 0; j < n; j++ {
			t := g.tInt
			if g.chance(25) {
				t = g.ints[g.pick(len(g.ints))]
			}
			fd.params = append(fd.params, t)
			v := &vr{name: fmt.Sprintf("a%d", j), t: t}
			fg.declare(v)
			ps = append(ps, v.name+" "+t.name)
		}
		fmt.Fprintf(w, "func %s(%s) int {\n", fd.name, strings.Join(ps, ", "))
		if g.chance(50) {
			fmt.Fprintf(w, "\tif %s {\n\t\treturn %s\n\t}\n", fg.expr(g.tBool, 2, true), fg.expr(g.tInt, 2, true))
		}
		fmt.Fprintf(w, "\treturn %s\n}\n\n", fg.expr(g.tInt, 3, true))
		g.pures = append(g.pures, fd)
	}
	// test functions
	nf := 3 + g.pick(3)
	for i := 0; i < nf; i++ {
		g.function(i)
	}
	return w.String()
}

// ---------------------------------------------------------------- function generator

type label struct {
	name   string
	used   bool
	isLoop bool
}

type fgen struct {
	g        *gen
	fd       *fdecl
	w        *strings.Builder
	ind      int
	scopes   [][]*vr
	nvar     int
	nlabel   int
	loops    []*label // enclosing loops (innermost last); name "" = unlabelled
	fwd      []*label // forward goto targets in scope
	inSwitch int      // nesting of switch statements inside the innermost loop
	depth    int
	budget   int
	results  []*vr // named results (if any)
	hasFuel  bool
	guard    string // condition under which the lvalue just generated is valid
	canDefer bool
	closures []*vr
}

func (g *gen) newFgen(fd *fdecl) *fgen {
	return &fgen{g: g, fd: fd, scopes: [][]*vr{nil}, budget: 40, w: &strings.Builder{}}
}

func (f *fgen) declare(v *vr) { f.scopes[len(f.scopes)-1] = append(f.scopes[len(f.scopes)-1], v) }
func (f *fgen) push()         { f.scopes = append(f.scopes, nil) }
func (f *fgen) pop()          { f.scopes = f.scopes[:len(f.scopes)-1] }

func (f *fgen) line(format string, a ...any) {
	f.w.WriteString(strings.Repeat("\t", f.ind))
	fmt.Fprintf(f.w, format, a...)
	f.w.WriteString("\n")
}

func (f *fgen) fresh(prefix string) string {
	f.nvar++
	return fmt.Sprintf("%s%d", prefix, f.nvar)
}

// vars returns the visible variables satisfying pred (locals, then globals unless plain)
func (f *fgen) vars(plain bool, pred func(*vr) bool) []*vr {
	var res []*vr
	for _, sc := range f.scopes {
		for _, v := range sc {
			if plain && v.unstable {
				continue
			}
			if pred(v) {
				res = append(res, v)
			}
		}
	}
	if !plain && !f.fd.pure {
		for _, v := range f.g.globals {
			if pred(v) {
				res = append(res, v)
			}
		}
	}
	return res
}

func (f *fgen) pickVar(plain bool, pred func(*vr) bool) *vr {
	vs := f.vars(plain, pred)
	if len(vs) == 0 {
		return nil
	}
	// prefer locals and parameters over globals
	nl := 0
	for _, v := range vs {
		if !strings.HasPrefix(v.name, "g") {
			nl++
		}
	}
	if nl > 0 && nl < len(vs) && f.g.chance(65) {
		return vs[f.g.pick(nl)]
	}
	return vs[f.g.pick(len(vs))]
}

// nonConstInt: an int expression that depends on at least one variable
func (f *fgen) nonConstInt(d int) string {
	g := f.g
	v := f.pickVar(false, func(v *vr) bool { return v.t.k == tInt })
	if v == nil {
		return "len(g4)"
	}
	e := v.name
	if v.t != g.tInt {
		e = "int(" + e + ")"
	}
	if d <= 0 || g.chance(30) {
		return e
	}
	ops := []string{"+", "-", "^", "&", "|"}
	return fmt.Sprintf("(%s %s %s)", e, ops[g.pick(len(ops))], f.intExpr(g.tInt, d-1, false))
}

func (g *gen) intConst(t *ty) string {
	pool := []int64{0, 1, 2, 3, 4, 5, 7, 8, 10, 15, 16, 31, 100, 127, 128, 255, 1000}
	v := pool[g.pick(len(pool))]
	if g.chance(20) && t.signed {
		v = -v
	}
	// fit
	if t.bits < 64 {
		lim := int64(1) << (t.bits - 1)
		if !t.signed {
			lim = int64(1) << t.bits
			if v < 0 {
				v = -v
			}
		}
		for v >= lim || v <= -lim {
			v /= 2
		}
	}
	if !t.signed && v < 0 {
		v = -v
	}
	if v < 0 {
		return fmt.Sprintf("(%d)", v)
	}
	return fmt.Sprint(v)
}

var strConsts = []string{`""`, `"a"`, `"go"`, `"xyz"`, `"hello"`, `"hé"`, `"\xffz"`, `"日本語"`}

// expr generates an expression of type t without side-effecting calls.
// plain: only operands no call can change and only operators that cannot panic.
func (f *fgen) expr(t *ty, d int, plain bool) string {
	g := f.g
	switch t.k {
	case tInt:
		return f.intExpr(t, d, plain)
	case tBool:
		if d <= 0 || g.chance(15) {
			if v := f.pickVar(plain, func(v *vr) bool { return v.t == t }); v != nil && g.chance(50) {
				return v.name
			}
			if v := f.pickVar(plain, func(v *vr) bool { return v.t.k == tInt }); v != nil && g.chance(92) {
				ops := []string{"<", "<=", ">", ">=", "==", "!="}
				return fmt.Sprintf("%s %s %s", v.name, ops[g.pick(len(ops))], g.intConst(v.t))
			}
			if g.chance(50) {
				return "true"
			}
			return "false"
		}
		switch g.pick(7) {
		case 0, 1, 2:
			it := g.tInt
			if g.chance(30) {
				it = g.ints[g.pick(len(g.ints))]
			}
			ops := []string{"<", "<=", ">", ">=", "==", "!="}
			return fmt.Sprintf("%s %s %s", f.expr(it, d-1, plain), ops[g.pick(len(ops))], f.expr(it, d-1, plain))
		case 3:
			return fmt.Sprintf("(%s && %s)", f.expr(t, d-1, plain), f.expr(t, d-1, plain))
		case 4:
			return fmt.Sprintf("(%s || %s)", f.expr(t, d-1, plain), f.expr(t, d-1, plain))
		case 5:
			return fmt.Sprintf("!(%s)", f.expr(t, d-1, plain))
		default:
			ops := []string{"<", "==", "!=", ">="}
			return fmt.Sprintf("%s %s %s", f.expr(g.tStr, d-1, plain), ops[g.pick(len(ops))], f.expr(g.tStr, d-1, plain))
		}
	case tString:
		if d <= 0 || g.chance(30) {
			if v := f.pickVar(plain, func(v *vr) bool { return v.t == t }); v != nil && g.chance(70) {
				return v.name
			}
			return strConsts[g.pick(len(strConsts))]
		}
		switch g.pick(6) {
		case 0, 1:
			return fmt.Sprintf("(%s + %s)", f.expr(t, d-1, plain), f.expr(t, d-1, plain))
		case 2:
			if !plain {
				// slicing with clamped bounds never panics; raw bounds may
				if v := f.pickVar(false, func(v *vr) bool { return v.t == t }); v != nil {
					if g.chance(92) {
						return fmt.Sprintf("%s[min(%s, len(%s)):]", v.name, f.smallNat(d-1, plain), v.name)
					}
					return fmt.Sprintf("%s[%s:]", v.name, f.smallNat(d-1, plain))
				}
			}
			return strConsts[g.pick(len(strConsts))]
		case 3:
			return fmt.Sprintf("string(rune(%s))", f.expr(g.tInt, d-1, plain))
		case 4:
			if !plain {
				if v := f.pickVar(false, func(v *vr) bool { return v.t.k == tStruct && hasField(v.t, t) }); v != nil {
					return v.name + "." + fieldOf(g, v.t, t)
				}
			}
			return strConsts[g.pick(len(strConsts))]
		default:
			if v := f.pickVar(plain, func(v *vr) bool { return v.t == t }); v != nil {
				return v.name
			}
			return strConsts[g.pick(len(strConsts))]
		}
	case tMap:
		if v := f.pickVar(plain, func(v *vr) bool { return v.t == t }); v != nil && g.chance(75) {
			return v.name
		}
		if g.chance(20) {
			return t.name + "(nil)"
		}
		return fmt.Sprintf("%s{%d: %s}", t.name, g.pick(5), f.expr(g.tInt, d-1, plain))
	case tIface:
		if v := f.pickVar(plain, func(v *vr) bool { return v.t == t }); v != nil && g.chance(60) {
			return v.name
		}
		return fmt.Sprintf("mkI(%s)", f.expr(g.tInt, d-1, plain))
	case tArray, tStruct, tSlice, tPtr, tFunc:
		if v := f.pickVar(plain, func(v *vr) bool { return v.t == t && !v.appendable }); v != nil && (d <= 0 || g.chance(60)) {
			return v.name
		}
		return f.literal(t, d, plain)
	}
	panic("expr: " + t.name)
}

func hasField(st *ty, t *ty) bool {
	for _, fl := range st.fields {
		if fl.t == t {
			return true
		}
	}
	return false
}

func fieldOf(g *gen, st *ty, t *ty) string {
	var c []string
	for _, fl := range st.fields {
		if fl.t == t {
			c = append(c, fl.name)
		}
	}
	return c[g.pick(len(c))]
}

func (f *fgen) literal(t *ty, d int, plain bool) string {
	g := f.g
	switch t.k {
	case tArray:
		var es []string
		n := g.pick(t.n + 1)
		for i := 0; i < n; i++ {
			es = append(es, f.expr(t.elem, d-1, plain))
		}
		return t.name + "{" + strings.Join(es, ", ") + "}"
	case tStruct:
		var es []string
		for _, fl := range t.fields {
			if g.chance(60) {
				es = append(es, fl.name+": "+f.expr(fl.t, d-1, plain))
			}
		}
		return t.name + "{" + strings.Join(es, ", ") + "}"
	case tSlice:
		if g.chance(15) {
			return t.name + "(nil)"
		}
		var es []string
		n := g.pick(4)
		for i := 0; i < n; i++ {
			es = append(es, f.expr(t.elem, d-1, plain))
		}
		return t.name + "{" + strings.Join(es, ", ") + "}"
	case tPtr:
		if !plain {
			if v := f.pickVar(false, func(v *vr) bool { return v.t == t.elem && v.escapable }); v != nil {
				return "&" + v.name
			}
		}
		if g.chance(85) {
			return "new(" + t.elem.name + ")"
		}
		return "(" + t.name + ")(nil)"
	case tFunc:
		return "(" + t.name + ")(nil)"
	}
	return f.expr(t, 0, plain)
}

// smallNat: a small non-negative int expression (never a negative constant)
func (f *fgen) smallNat(d int, plain bool) string {
	g := f.g
	if d <= 0 || g.chance(40) {
		return fmt.Sprint(g.pick(5))
	}
	return fmt.Sprintf("int(%s %% %d)", f.uintOf(d-1, plain), 2+g.pick(5))
}

// uintOf: uint(<int expression>) where a constant operand is never negative
func (f *fgen) uintOf(d int, plain bool) string {
	e, c := f.intE(f.g.tInt, d, plain)
	if c {
		return fmt.Sprintf("uint(%d)", f.g.pick(9))
	}
	return "uint(" + e + ")"
}

func (f *fgen) intExpr(t *ty, d int, plain bool) string {
	e, _ := f.intE(t, d, plain)
	return e
}

func (f *fgen) intLeaf(t *ty, plain bool) (string, bool) {
	g := f.g
	if v := f.pickVar(plain, func(v *vr) bool { return v.t == t }); v != nil && g.chance(75) {
		return v.name, false
	}
	return t.name + "(" + g.intConst(t) + ")", true
}

// intE returns an integer expression and whether it is a constant expression (constant expressions
// are kept to single literals: folded constants may overflow, which is a compile-time error)
func (f *fgen) intE(t *ty, d int, plain bool) (string, bool) {
	g := f.g
	if d <= 0 || g.chance(12) {
		return f.intLeaf(t, plain)
	}
	n := 16
	if plain {
		n = 9
	}
	switch g.pick(n) {
	case 0, 1, 2:
		ops := []string{"+", "-", "*", "+", "-", "&", "|", "^", "&^"}
		a, ca := f.intE(t, d-1, plain)
		b, cb := f.intE(t, d-1, plain)
		if ca && cb {
			return a, true
		}
		return fmt.Sprintf("(%s %s %s)", a, ops[g.pick(len(ops))], b), false
	case 3:
		return f.intLeaf(t, plain)
	case 4:
		// conversion from another integer type
		o := g.ints[g.pick(len(g.ints))]
		a, ca := f.intE(o, d-1, plain)
		if ca {
			return f.intLeaf(t, plain)
		}
		return fmt.Sprintf("%s(%s)", t.name, a), false
	case 5:
		op := "<<"
		if g.chance(50) {
			op = ">>"
		}
		a, ca := f.intE(t, d-1, plain)
		if ca {
			return a, true
		}
		return fmt.Sprintf("(%s %s (%s & %d))", a, op, f.uintOf(d-1, plain), []int{3, 7, 15, 63, 127}[g.pick(5)]), false
	case 6:
		a, ca := f.intE(t, d-1, plain)
		if ca {
			return a, true
		}
		if g.chance(50) {
			return fmt.Sprintf("(-%s)", a), false
		}
		return fmt.Sprintf("(^%s)", a), false
	case 7:
		// len of something visible
		if v := f.pickVar(plain, func(v *vr) bool { return v.t.k == tString || v.t.k == tSlice }); v != nil {
			if t == g.tInt {
				return "len(" + v.name + ")", false
			}
			return t.name + "(len(" + v.name + "))", false
		}
		return f.intLeaf(t, plain)
	case 8:
		if len(g.pures) > 0 && t == g.tInt {
			h := g.pures[g.pick(len(g.pures))]
			if h != f.fd {
				var as []string
				for _, p := range h.params {
					as = append(as, f.intExpr(p, d-1, plain))
				}
				return fmt.Sprintf("%s(%s)", h.name, strings.Join(as, ", ")), false
			}
		}
		a, ca := f.intE(t, d-1, plain)
		b, cb := f.intE(t, d-1, plain)
		if ca && cb {
			return a, true
		}
		fn := "min"
		if g.chance(50) {
			fn = "max"
		}
		if (t.bits == 64 && t.name == "int" || t.name == "int8" || t.name == "uint8" || t.name == "int32") && g.chance(40) {
			fn = "gmax"
			if g.chance(40) {
				fn = "gsum"
			}
			g.Feat["generic-call"]++
		}
		return fmt.Sprintf("%s(%s, %s)", fn, a, b), false
	// ---- below: may panic / reads memory calls can change
	case 9:
		op := "/"
		if g.chance(50) {
			op = "%"
		}
		a, ca := f.intE(t, d-1, plain)
		den, cd := f.intE(t, d-1, plain)
		if ca && cd {
			return a, true
		}
		if cd || g.chance(93) {
			den = "(" + den + " | 1)"
		}
		if v := f.pickVar(false, func(v *vr) bool { return v.t == t }); v != nil && cd {
			den = "(" + v.name + " | 1)"
		}
		return fmt.Sprintf("(%s %s %s)", a, op, den), false
	case 10:
		// array / slice element
		if v := f.pickVar(false, func(v *vr) bool { return (v.t.k == tArray || v.t.k == tSlice) && v.t.elem == t }); v != nil {
			if v.t.k == tSlice && t == g.tInt && g.chance(88) {
				return fmt.Sprintf("at(%s, %s)", v.name, f.intExpr(g.tInt, d-1, false)), false
			}
			return fmt.Sprintf("%s[%s]", v.name, f.index(v, d-1)), false
		}
		return f.intE(t, d-1, plain)
	case 11:
		// pointer dereference
		if v := f.pickVar(false, func(v *vr) bool { return v.t.k == tPtr && v.t.elem == t }); v != nil {
			return "*" + v.name, false
		}
		return f.intE(t, d-1, plain)
	case 12:
		// struct field (through value or pointer)
		if v := f.pickVar(false, func(v *vr) bool {
			st := v.t
			if st.k == tPtr {
				st = st.elem
			}
			return st.k == tStruct && hasField(st, t)
		}); v != nil {
			st := v.t
			if st.k == tPtr {
				st = st.elem
			}
			return v.name + "." + fieldOf(g, st, t), false
		}
		return f.intE(t, d-1, plain)
	case 13:
		// string byte
		if v := f.pickVar(false, func(v *vr) bool { return v.t.k == tString }); v != nil {
			if g.chance(45) {
				return fmt.Sprintf("%s(sidx(%s, %s))", t.name, v.name, f.intExpr(g.tInt, d-1, false)), false
			}
			if g.chance(10) {
				return fmt.Sprintf("%s(%s[%s])", t.name, v.name, f.smallNat(d-1, plain)), false
			}
			return fmt.Sprintf("%s(len(%s))", t.name, v.name), false
		}
		return f.intE(t, d-1, plain)
	case 14:
		if v := f.pickVar(false, func(v *vr) bool { return v.t.k == tSlice && !v.appendable }); v != nil && t == g.tInt {
			return "cap(" + v.name + ")", false
		}
		return f.intE(t, d-1, plain)
	default:
		if v := f.pickVar(false, func(v *vr) bool { return v.t == t && v.unstable }); v != nil {
			return v.name, false
		}
		return f.intE(t, d-1, plain)
	}
}

// index expression for array/slice variable v: mostly in range; never a constant out of range
func (f *fgen) index(v *vr, d int) string {
	g := f.g
	if v.t.k == tArray {
		e, c := f.intE(g.tInt, d, false)
		if c || g.chance(95) {
			return fmt.Sprintf("%s %% %d", f.uintOf(d, false), v.t.n)
		}
		return e
	}
	e, c := f.intE(g.tInt, d, false)
	if c || g.chance(50) {
		return fmt.Sprint(g.pick(3))
	}
	return e
}

// plainIndex for array variable (cannot panic, plain operands)
func (f *fgen) plainIndex(n int) string {
	return fmt.Sprintf("%s %% %d", f.uintOf(1, true), n)
}

// a boolean expression that is not a constant expression
func (f *fgen) nonConstBool(d int) string {
	g := f.g
	ops := []string{"<", "<=", ">", ">=", "==", "!="}
	v := f.pickVar(false, func(v *vr) bool { return v.t.k == tInt })
	if v == nil {
		return "len(g4) " + ops[g.pick(len(ops))] + " " + fmt.Sprint(g.pick(4))
	}
	return fmt.Sprintf("%s %s %s", v.name, ops[g.pick(len(ops))], f.intExpr(v.t, d, false))
}

// ---------------------------------------------------------------- statements

func (f *fgen) block(n int) {
	f.push()
	f.ind++
	f.depth++
	for i := 0; i < n && f.budget > 0; i++ {
		f.stmt()
	}
	f.depth--
	f.ind--
	f.pop()
}

// an impure call expression with plain arguments; returns expression and its result types
func (f *fgen) callExpr() (string, []*ty) {
	g := f.g
	// candidates: earlier test functions, poke/peek, closures in scope, bump on escapable
	type cand struct {
		s   string
		res []*ty
	}
	var cs []cand
	for _, fd := range g.funcs {
		if fd == f.fd {
			continue
		}
		var as []string
		ok := true
		for _, p := range fd.params {
			switch p.k {
			case tInt, tBool, tString:
				as = append(as, f.expr(p, 1, true))
			case tPtr:
				if v := f.pickVar(false, func(v *vr) bool { return v.t == p.elem && v.escapable }); v != nil && g.chance(70) {
					as = append(as, "&"+v.name)
				} else if v := f.pickVar(true, func(v *vr) bool { return v.t == p }); v != nil {
					as = append(as, v.name)
				} else {
					as = append(as, "new("+p.elem.name+")")
				}
			case tSlice:
				if v := f.pickVar(true, func(v *vr) bool { return v.t == p && !v.appendable }); v != nil {
					as = append(as, v.name)
				} else {
					as = append(as, p.name+"{1, 2, 3}")
				}
			case tArray, tStruct:
				if v := f.pickVar(true, func(v *vr) bool { return v.t == p }); v != nil {
					as = append(as, v.name)
				} else {
					as = append(as, p.name+"{}")
				}
			default:
				ok = false
			}
		}
		if ok {
			cs = append(cs, cand{fmt.Sprintf("%s(%s)", fd.name, strings.Join(as, ", ")), fd.res})
		}
	}
	for _, c := range f.vars(false, func(v *vr) bool { return v.t == g.fnII && v.fields }) {
		cs = append(cs, cand{fmt.Sprintf("%s(%s)", c.name, f.expr(g.tInt, 1, true)), []*ty{g.tInt}})
	}
	if v := f.pickVar(false, func(v *vr) bool { return v.t == g.tInt && v.escapable }); v != nil {
		cs = append(cs, cand{fmt.Sprintf("bump(&%s, %s)", v.name, f.expr(g.tInt, 1, true)), []*ty{g.tInt}})
	}
	c := cs[g.pick(len(cs))]
	return c.s, c.res
}

func (f *fgen) newLocal(t *ty, init string) *vr {
	v := &vr{name: f.fresh("v"), t: t}
	if (t.k == tInt || t.k == tStruct || t.k == tArray) && f.g.chance(35) {
		v.escapable = true
		v.unstable = true
	}
	f.line("%s := %s", v.name, init)
	f.line("_ = %s", v.name)
	f.declare(v)
	return v
}

func (f *fgen) randType() *ty {
	g := f.g
	switch g.pick(12) {
	case 0, 1, 2, 3:
		return g.tInt
	case 4:
		return g.ints[g.pick(len(g.ints))]
	case 5:
		return g.tBool
	case 6:
		return g.tStr
	case 7:
		return g.arrayOf(g.tInt, 2+g.pick(3))
	case 8:
		return g.structs[g.pick(len(g.structs))]
	case 9:
		return g.slInt
	case 10:
		return g.ptrInt
	default:
		return g.tInt
	}
}

// assignable int lvalue in a calc statement
func (f *fgen) lvalue(t *ty) string {
	g := f.g
	for try := 0; try < 4; try++ {
		switch g.pick(6) {
		case 0, 1, 2:
			if v := f.pickVar(false, func(v *vr) bool { return v.t == t && !v.readonly }); v != nil {
				return v.name
			}
		case 3:
			if v := f.pickVar(false, func(v *vr) bool { return (v.t.k == tArray || v.t.k == tSlice) && v.t.elem == t }); v != nil {
				if v.t.k == tSlice && g.chance(90) {
					k := g.pick(3)
					f.guard = fmt.Sprintf("len(%s) > %d", v.name, k)
					return fmt.Sprintf("%s[%d]", v.name, k)
				}
				return fmt.Sprintf("%s[%s]", v.name, f.index(v, 1))
			}
		case 4:
			if v := f.pickVar(false, func(v *vr) bool {
				st := v.t
				if st.k == tPtr {
					st = st.elem
				}
				return st.k == tStruct && hasField(st, t)
			}); v != nil {
				st := v.t
				if st.k == tPtr {
					st = st.elem
				}
				return v.name + "." + fieldOf(g, st, t)
			}
		case 5:
			if v := f.pickVar(false, func(v *vr) bool { return v.t.k == tPtr && v.t.elem == t }); v != nil {
				if g.chance(85) {
					f.guard = v.name + " != nil"
				}
				return "*" + v.name
			}
		}
	}
	return "_"
}

// plain lvalue for call statements: local variable no call can observe, or field/element of one
func (f *fgen) plainLvalue(t *ty) string { return f.plainLv(t, false) }

func (f *fgen) plainLv(t *ty, strict bool) string {
	g := f.g
	if !strict && g.chance(15) {
		if v := f.pickVar(false, func(v *vr) bool { return v.t == t && !v.readonly }); v != nil {
			return v.name // globals / escapable locals: assignment happens after the calls
		}
	}
	if g.chance(25) {
		if v := f.pickVar(true, func(v *vr) bool { return v.t.k == tArray && v.t.elem == t }); v != nil {
			return fmt.Sprintf("%s[%s]", v.name, f.plainIndex(v.t.n))
		}
	}
	if g.chance(20) {
		if v := f.pickVar(true, func(v *vr) bool { return v.t.k == tStruct && hasField(v.t, t) }); v != nil {
			return v.name + "." + fieldOf(g, v.t, t)
		}
	}
	if v := f.pickVar(true, func(v *vr) bool { return v.t == t && !v.readonly }); v != nil {
		return v.name
	}
	return "_"
}

func (f *fgen) useFuel() string {
	f.hasFuel = true
	return "fuel"
}

func (f *fgen) stmt() {
	g := f.g
	f.budget--
	deep := f.depth >= 3
	for {
		k := g.pick(48)
		switch {
		case k < 5: // declaration
			t := f.randType()
			f.newLocal(t, f.expr(t, 2, false))
			g.Feat["decl"]++
			return
		case k < 10: // assignment (calc)
			t := g.tInt
			if g.chance(30) {
				t = f.randType()
			}
			if t.k == tInt {
				f.guard = ""
				lv := f.lvalue(t)
				if f.guard != "" {
					f.line("if %s {", f.guard)
					f.ind++
					defer func() { f.ind--; f.line("}") }()
					f.guard = ""
				}
				if lv == "_" {
					f.line("_ = %s", f.expr(t, 2, false))
				} else if g.chance(35) {
					ops := []string{"+=", "-=", "*=", "|=", "&=", "^="}
					f.line("%s %s %s", lv, ops[g.pick(len(ops))], f.expr(t, 2, false))
					g.Feat["opassign"]++
				} else if g.chance(15) {
					f.line("%s++", lv)
				} else {
					f.line("%s = %s", lv, f.expr(t, 3, false))
				}
			} else if v := f.pickVar(false, func(v *vr) bool { return v.t == t && !v.readonly && !v.appendable }); v != nil {
				f.line("%s = %s", v.name, f.expr(t, 2, false))
			} else {
				continue
			}
			g.Feat["assign"]++
			return
		case k < 13: // emit
			switch g.pick(4) {
			case 0:
				f.line("emits(%d, %s)", g.pick(9), f.expr(g.tStr, 2, false))
			case 1:
				f.line("emitb(%d, %s)", g.pick(9), f.expr(g.tBool, 2, false))
			default:
				f.line("emit(%d, %s)", g.pick(9), f.expr(g.tInt, 2, false))
			}
			g.Feat["emit"]++
			return
		case k < 15: // call statement
			f.callStmt()
			return
		case k < 17: // evaluation-order statement
			f.orderStmt()
			return
		case k < 20 && !deep: // if
			f.ifStmt()
			return
		case k < 23 && !deep: // for
			f.forStmt()
			return
		case k < 25 && !deep: // range
			f.rangeStmt()
			return
		case k < 27 && !deep: // switch
			f.switchStmt()
			return
		case k < 28: // break/continue
			if len(f.loops) == 0 {
				continue
			}
			l := f.loops[g.pick(len(f.loops))]
			kw := "break"
			if g.chance(50) {
				kw = "continue"
			}
			inner := l == f.loops[len(f.loops)-1]
			if inner && (kw == "continue" || f.inSwitch == 0) && g.chance(60) {
				f.line("if %s {", f.expr(g.tBool, 2, false))
				f.line("\t%s", kw)
				f.line("}")
			} else {
				l.used = true
				f.line("if %s {", f.expr(g.tBool, 2, false))
				f.line("\t%s %s", kw, l.name)
				f.line("}")
				g.Feat["labelled-"+kw]++
			}
			return
		case k < 29: // forward goto
			if len(f.fwd) == 0 {
				continue
			}
			l := f.fwd[g.pick(len(f.fwd))]
			l.used = true
			f.line("if %s {", f.expr(g.tBool, 2, false))
			f.line("\tgoto %s", l.name)
			f.line("}")
			g.Feat["goto-forward"]++
			return
		case k < 30 && !deep: // goto region
			f.gotoRegion()
			return
		case k < 31 && !deep: // backward goto loop
			f.backwardGoto()
			return
		case k < 32: // early return
			if f.depth == 0 {
				continue
			}
			f.line("if %s {", f.expr(g.tBool, 2, false))
			f.ind++
			f.ret()
			f.ind--
			f.line("}")
			g.Feat["early-return"]++
			return
		case k < 33: // explicit panic
			pv := "g0"
			if v := f.pickVar(false, func(v *vr) bool { return v.t == g.tInt }); v != nil {
				pv = v.name
			}
			f.line("if %s == %d && %s {", pv, g.pick(6), f.expr(g.tBool, 1, false))
			if g.chance(50) {
				f.line("\tpanic(%d)", g.pick(100))
			} else {
				f.line("\tpanic(%s)", strConsts[1+g.pick(4)])
			}
			f.line("}")
			g.Feat["panic"]++
			return
		case k < 34: // escape patterns
			f.escapeStmt()
			return
		case k < 35 && !deep:
			f.escapeIdiom()
			return
		case k < 37: // closure
			f.closureStmt()
			return
		case k < 40: // slices
			f.sliceStmt()
			return
		case k < 45:
			f.stage2Stmt()
			return
		case k < 46 && !deep:
			f.constIdiom()
			return
		case k < 47:
			f.redeclIdiom()
			return
		default: // multi-assign / swap
			a := f.pickVar(false, func(v *vr) bool { return v.t == g.tInt && !v.readonly })
			b := f.pickVar(false, func(v *vr) bool { return v.t == g.tInt && !v.readonly })
			if a == nil || b == nil || a == b {
				continue
			}
			f.line("%s, %s = %s, %s", a.name, b.name, f.expr(g.tInt, 2, false), a.name)
			g.Feat["multi-assign"]++
			return
		}
	}
}

func (f *fgen) callStmt() {
	g := f.g
	c, res := f.callExpr()
	g.Feat["call"]++
	switch len(res) {
	case 0:
		f.line("%s", c)
	case 1:
		t := res[0]
		switch g.pick(6) {
		case 0:
			f.newLocal(t, c)
		case 1:
			if t.k == tInt {
				// two calls in one expression: ordered left to right
				c2, r2 := f.callExpr()
				if len(r2) == 1 && r2[0] == t {
					f.line("%s = %s - %s", f.plainLvalue(t), c, c2)
					g.Feat["two-calls"]++
					return
				}
			}
			f.line("%s = %s", f.plainLvalue(t), c)
		case 2:
			if t.k == tInt {
				lv := f.plainLv(t, true)
				if lv != "_" {
					f.line("%s += %s", lv, c)
					g.Feat["opassign-call"]++
					return
				}
			}
			f.line("_ = %s", c)
		case 3:
			if t.k == tInt {
				// call results as index and value of an element assignment
				if v := f.pickVar(true, func(v *vr) bool { return v.t.k == tArray && v.t.elem == t }); v != nil {
					c2, r2 := f.callExpr()
					if len(r2) == 1 && r2[0] == t {
						op := "="
						if g.chance(50) {
							op = "+="
						}
						f.line("%s[uint(%s)%%%d] %s %s", v.name, c, v.t.n, op, c2)
						g.Feat["index-call-assign"]++
						return
					}
				}
			}
			f.line("%s = %s", f.plainLvalue(t), c)
		case 4:
			if t.k == tInt {
				f.line("if %s > %s {", c, f.expr(t, 1, true))
				f.block(1 + g.pick(2))
				f.line("}")
				return
			}
			f.line("_ = %s", c)
		default:
			f.line("%s = %s", f.plainLvalue(t), c)
		}
	default:
		var lvs []string
		for _, t := range res {
			lvs = append(lvs, f.plainLvalue(t))
		}
		// the same variable must not be assigned twice
		seen := map[string]bool{}
		for i, l := range lvs {
			if l != "_" && seen[strings.SplitN(l, "[", 2)[0]] {
				lvs[i] = "_"
			}
			seen[strings.SplitN(l, "[", 2)[0]] = true
			seen[strings.SplitN(l, ".", 2)[0]] = true
		}
		f.line("%s = %s", strings.Join(lvs, ", "), c)
		g.Feat["multi-value-call"]++
	}
}

// tr(k) emits k and returns it: statements built from it fix the order in which the specification
// requires calls to happen (all other operands are plain)
func (f *fgen) trc(max int) string {
	g := f.g
	if v := f.pickVar(true, func(v *vr) bool { return v.t == g.tInt }); v != nil && g.chance(30) {
		return fmt.Sprintf("tr(int(uint(%s) %% %d))", v.name, max)
	}
	return fmt.Sprintf("tr(%d)", g.pick(max))
}

func (f *fgen) orderStmt() {
	g := f.g
	g.Feat["order-stmt"]++
	arr := f.pickVar(true, func(v *vr) bool { return v.t.k == tArray && v.t.elem == g.tInt })
	if arr == nil {
		arr = &vr{name: f.fresh("o"), t: g.arrayOf(g.tInt, 3)}
		f.line("var %s %s", arr.name, arr.t.name)
		f.line("_ = %s", arr.name)
		f.declare(arr)
	}
	x := f.pickVar(true, func(v *vr) bool { return v.t == g.tInt && !v.readonly })
	if x == nil {
		x = &vr{name: f.fresh("v"), t: g.tInt}
		f.line("%s := %s", x.name, f.expr(g.tInt, 1, true))
		f.line("_ = %s", x.name)
		f.declare(x)
	}
	ops := []string{"+=", "-=", "|=", "^=", "*="}
	if g.chance(25) {
		// single-level array target whose index is sometimes out of range (-1 .. len): the calls on the
		// right-hand side happen first, the panic when the assignment is carried out
		g.Feat["order-index-range"]++
		tgt, n := arr.name, arr.t.n
		switch g.pick(3) {
		case 0:
			if !f.fd.pure {
				tgt, n = "g2", 4 // global [4]int
			}
		case 1:
			if sv := f.pickVar(true, func(v *vr) bool { return v.t.k == tStruct }); sv != nil {
				for _, fl := range sv.t.fields {
					if fl.t.k == tArray && fl.t.elem == g.tInt {
						tgt, n = sv.name+"."+fl.name, fl.t.n
					}
				}
			}
		}
		iv := f.pickVar(true, func(v *vr) bool { return v.t == g.tInt })
		ix := fmt.Sprintf("%d", g.pick(n+2)-1)
		if iv != nil {
			ix = fmt.Sprintf("int(uint(%s)%%%d) - 1", iv.name, n+2)
		} else if ix == "-1" || ix == fmt.Sprint(n) {
			ix = "0" // a constant index out of range does not compile
		}
		switch g.pick(3) {
		case 0:
			f.line("%s[%s] = %s", tgt, ix, f.trc(9))
		case 1:
			if g.chance(50) {
				f.line("%s[%s], %s = %s, %s", tgt, ix, x.name, f.trc(9), f.trc(9))
			} else {
				f.line("%s, %s[%s] = %s, %s", x.name, tgt, ix, f.trc(9), f.trc(9))
			}
		default:
			f.line("%s[%s] %s %s", tgt, ix, ops[g.pick(len(ops))], f.trc(9))
		}
		return
	}
	switch g.pick(12) {
	case 0, 1:
		f.line("%s[%s] %s %s", arr.name, f.trc(arr.t.n), ops[g.pick(len(ops))], f.trc(9))
	case 2:
		f.line("%s[%s] = %s", arr.name, f.trc(arr.t.n), f.trc(9))
	case 3:
		f.line("%s = %s - %s*%s", x.name, f.trc(9), f.trc(9), f.trc(9))
	case 4:
		f.line("%s[%s], %s = %s, %s", arr.name, f.trc(arr.t.n), x.name, f.trc(9), f.trc(9))
	case 5:
		f.line("if %s < %s && %s > %s || %s == 1 {", f.trc(5), f.trc(5), f.trc(5), f.trc(5), f.trc(3))
		f.block(1)
		f.line("}")
	case 6:
		f.line("%s = %s{%s, %s}[%s]", x.name, g.arrayOf(g.tInt, 2).name, f.trc(9), f.trc(9), f.trc(2))
	case 7:
		f.line("switch %s {", f.trc(4))
		f.line("case %s:", f.trc(4))
		f.block(1)
		f.line("case %s, %s:", f.trc(4), f.trc(4))
		f.block(1)
		f.line("}")
	case 8:
		if s := f.pickVar(false, func(v *vr) bool { return v.appendable }); s != nil {
			f.line("%s = append(%s, %s, %s)", s.name, s.name, f.trc(9), f.trc(9))
		} else {
			f.line("emit(%s, %s)", f.trc(9), f.trc(9))
		}
	case 9:
		f.line("%s %s %s", x.name, ops[g.pick(len(ops))], f.trc(9)+" + "+f.trc(9))
	case 10:
		f.line("%s = min(%s, %s, %s)", x.name, f.trc(9), f.trc(9), f.trc(9))
	default:
		f.line("%s = []int{%s, %s, %s}[%s:%s][0]", x.name, f.trc(9), f.trc(9), f.trc(9), f.trc(2), "2+"+f.trc(2))
	}
}

func (f *fgen) ifStmt() {
	g := f.g
	g.Feat["if"]++
	f.line("if %s {", f.expr(g.tBool, 3, false))
	f.block(1 + g.pick(3))
	if g.chance(25) {
		f.line("} else if %s {", f.expr(g.tBool, 2, false))
		f.block(1 + g.pick(2))
	}
	if g.chance(45) {
		f.line("} else {")
		f.block(1 + g.pick(3))
	}
	f.line("}")
}

func (f *fgen) loopBody(l *label, n int) {
	f.loops = append(f.loops, l)
	saved := f.inSwitch
	f.inSwitch = 0
	f.block(n)
	f.inSwitch = saved
	f.loops = f.loops[:len(f.loops)-1]
}

// emits the loop header with an optional label; the label is only printed if used
func (f *fgen) withLabel(header string, body func(l *label)) {
	g := f.g
	f.nlabel++
	l := &label{name: fmt.Sprintf("L%d", f.nlabel), isLoop: true}
	// generate the body into a temporary buffer to know whether the label was used
	saved := f.w
	f.w = &strings.Builder{}
	body(l)
	inner := f.w.String()
	f.w = saved
	if l.used {
		f.w.WriteString(strings.Repeat("\t", f.ind) + l.name + ":\n")
	}
	f.line("%s", header)
	f.w.WriteString(inner)
	f.line("}")
	_ = g
}

func (f *fgen) forStmt() {
	g := f.g
	switch g.pick(4) {
	case 0, 1:
		g.Feat["for-3clause"]++
		i := f.fresh("i")
		n := 1 + g.pick(5)
		hdr := fmt.Sprintf("for %s := 0; %s < %d; %s++ {", i, i, n, i)
		if g.chance(30) {
			hdr = fmt.Sprintf("for %s := %d; %s > 0; %s -= %d {", i, n+2, i, i, 1+g.pick(2))
		}
		f.withLabel(hdr, func(l *label) {
			f.push()
			f.declare(&vr{name: i, t: g.tInt, readonly: true})
			f.loopBody(l, 1+g.pick(4))
			f.pop()
		})
	case 2:
		g.Feat["for-cond"]++
		fu := f.useFuel()
		f.withLabel(fmt.Sprintf("for %s > 0 && %s {", fu, f.expr(g.tBool, 2, false)), func(l *label) {
			f.ind++
			f.line("%s--", fu)
			f.ind--
			f.loopBody(l, 1+g.pick(4))
		})
	default:
		g.Feat["for-infinite"]++
		fu := f.useFuel()
		f.withLabel("for {", func(l *label) {
			f.ind++
			f.line("%s--", fu)
			f.line("if %s <= 0 || %s {", fu, f.expr(g.tBool, 2, false))
			f.line("\tbreak")
			f.line("}")
			f.ind--
			f.loopBody(l, 1+g.pick(4))
		})
	}
}

func (f *fgen) rangeStmt() {
	g := f.g
	if g.chance(22) {
		// range over an iterator function: the body becomes a synthetic function called by the iterator
		g.Feat["range-func"]++
		i := f.fresh("i")
		if v := f.pickVar(false, func(v *vr) bool { return v.t == g.slInt && !v.appendable }); v != nil && g.chance(40) {
			e := f.fresh("e")
			f.withLabel(fmt.Sprintf("for %s, %s := range iter2(%s) {", i, e, v.name), func(l *label) {
				f.push()
				f.declare(&vr{name: i, t: g.tInt})
				f.declare(&vr{name: e, t: g.tInt})
				f.ind++
				f.line("_, _ = %s, %s", i, e)
				f.ind--
				f.loopBody(l, 1+g.pick(3))
				f.pop()
			})
			return
		}
		f.withLabel(fmt.Sprintf("for %s := range iter(%s) {", i, f.smallNat(2, false)), func(l *label) {
			f.push()
			f.declare(&vr{name: i, t: g.tInt})
			f.ind++
			f.line("_ = %s", i)
			f.ind--
			f.loopBody(l, 1+g.pick(3))
			f.pop()
		})
		return
	}
	switch g.pick(6) {
	case 0, 1: // range over int; the bound is evaluated once even if its operands change in the body
		g.Feat["range-int"]++
		i := f.fresh("i")
		bound := fmt.Sprintf("%d", 1+g.pick(4))
		var bv *vr
		if v := f.pickVar(false, func(v *vr) bool { return v.t == g.tInt && !v.readonly }); v != nil && g.chance(60) {
			bound = fmt.Sprintf("int(uint(%s) %% %d)", v.name, 2+g.pick(4))
			bv = v
		}
		hdr := fmt.Sprintf("for %s := range %s {", i, bound)
		if g.chance(20) {
			hdr = fmt.Sprintf("for range %s {", bound)
			i = ""
		}
		f.withLabel(hdr, func(l *label) {
			f.push()
			if i != "" {
				f.declare(&vr{name: i, t: g.tInt})
				f.ind++
				f.line("_ = %s", i)
				f.ind--
			}
			if bv != nil && g.chance(60) {
				f.ind++
				f.line("%s += %d", bv.name, 1+g.pick(3))
				f.ind--
			}
			f.loopBody(l, 1+g.pick(3))
			f.pop()
		})
	case 2, 3: // range over slice / array
		v := f.pickVar(false, func(v *vr) bool { return (v.t.k == tSlice || v.t.k == tArray) && v.t.elem == g.tInt })
		if v == nil {
			f.line("_ = 0")
			return
		}
		g.Feat["range-"+map[tkind]string{tSlice: "slice", tArray: "array"}[v.t.k]]++
		i, e := f.fresh("i"), f.fresh("e")
		hdr := fmt.Sprintf("for %s, %s := range %s {", i, e, v.name)
		declI, declE := true, true
		switch g.pick(4) {
		case 0:
			hdr = fmt.Sprintf("for %s := range %s {", i, v.name)
			declE = false
		case 1:
			hdr = fmt.Sprintf("for _, %s := range %s {", e, v.name)
			declI = false
		}
		f.withLabel(hdr, func(l *label) {
			f.push()
			f.ind++
			if declI {
				f.declare(&vr{name: i, t: g.tInt})
				f.line("_ = %s", i)
			}
			if declE {
				f.declare(&vr{name: e, t: g.tInt})
				f.line("_ = %s", e)
			}
			f.ind--
			// mutate the ranged-over collection inside the body
			if g.chance(50) && declI {
				f.ind++
				if v.t.k == tArray {
					f.line("%s[(%s+1)%%%d] = %s", v.name, i, v.t.n, f.expr(g.tInt, 1, false))
				} else if !v.appendable {
					f.line("if %s+1 < len(%s) {", i, v.name)
					f.line("\t%s[%s+1] = %s", v.name, i, f.expr(g.tInt, 1, false))
					f.line("}")
				} else {
					f.line("%s = append(%s, %s)", v.name, v.name, f.expr(g.tInt, 1, false))
				}
				f.ind--
				g.Feat["range-mutate"]++
			}
			f.loopBody(l, 1+g.pick(3))
			f.pop()
		})
	default: // range over string
		g.Feat["range-string"]++
		i, c := f.fresh("i"), f.fresh("c")
		f.withLabel(fmt.Sprintf("for %s, %s := range %s {", i, c, f.expr(g.tStr, 2, false)), func(l *label) {
			f.push()
			f.declare(&vr{name: i, t: g.tInt})
			f.declare(&vr{name: c, t: g.ints[3]}) // rune = int32
			f.ind++
			f.line("_, _ = %s, %s", i, c)
			f.ind--
			f.loopBody(l, 1+g.pick(3))
			f.pop()
		})
	}
}

func (f *fgen) switchStmt() {
	g := f.g
	g.Feat["switch"]++
	tagless := g.chance(25)
	n := 2 + g.pick(3)
	if tagless {
		f.line("switch {")
	} else if g.chance(20) {
		x := f.fresh("x")
		f.line("switch %s := %s; %s & 3 {", x, f.nonConstInt(2), x)
	} else if g.chance(50) {
		f.line("switch %s & 7 {", f.nonConstInt(2))
	} else {
		f.line("switch %s {", f.nonConstInt(2))
	}
	used := map[int]bool{}
	// clause kinds: n cases, optionally a default at a random position
	kinds := make([]bool, n) // true = default
	if g.chance(60) {
		pos := g.pick(n + 1)
		kinds = append(kinds, false)
		copy(kinds[pos+1:], kinds[pos:])
		kinds[pos] = true
	}
	f.inSwitch++
	for i, isDef := range kinds {
		switch {
		case isDef:
			f.line("default:")
		case tagless:
			f.line("case %s:", f.nonConstBool(1))
		case g.chance(15):
			if v := f.pickVar(false, func(v *vr) bool { return v.t == g.tInt }); v != nil {
				f.line("case %s + %d:", v.name, g.pick(3))
				g.Feat["switch-nonconst-case"]++
				break
			}
			fallthrough
		default:
			var cs []string
			for j := 0; j < 1+g.pick(2); j++ {
				c := g.pick(9) - 2
				for used[c] {
					c++
				}
				used[c] = true
				cs = append(cs, fmt.Sprint(c))
			}
			f.line("case %s:", strings.Join(cs, ", "))
		}
		f.block(1 + g.pick(2))
		last := i == len(kinds)-1
		if !last && g.chance(25) {
			f.line("\tfallthrough")
			g.Feat["fallthrough"]++
		} else if g.chance(10) {
			f.line("\tif %s {", f.expr(g.tBool, 1, false))
			f.line("\t\tbreak")
			f.line("\t}")
			f.ind++
			f.stmtSimple()
			f.ind--
		}
	}
	f.inSwitch--
	f.line("}")
}

func (f *fgen) stmtSimple() {
	g := f.g
	f.line("emit(%d, %s)", g.pick(9), f.expr(g.tInt, 1, false))
}

func (f *fgen) gotoRegion() {
	g := f.g
	g.Feat["goto-region"]++
	f.nlabel++
	l := &label{name: fmt.Sprintf("G%d", f.nlabel)}
	f.line("{")
	f.ind++
	f.fwd = append(f.fwd, l)
	// all statements of the region live in nested blocks so that no declaration is jumped over
	n := 1 + g.pick(3)
	for i := 0; i < n; i++ {
		f.line("{")
		f.block(1 + g.pick(2))
		f.line("}")
		if g.chance(60) {
			l.used = true
			f.line("if %s {", f.expr(g.tBool, 2, false))
			f.line("\tgoto %s", l.name)
			f.line("}")
		}
	}
	f.fwd = f.fwd[:len(f.fwd)-1]
	if l.used {
		f.w.WriteString(strings.Repeat("\t", f.ind-1) + l.name + ":\n")
		f.stmtSimple()
	}
	f.ind--
	f.line("}")
}

func (f *fgen) backwardGoto() {
	g := f.g
	g.Feat["goto-backward"]++
	f.nlabel++
	name := fmt.Sprintf("B%d", f.nlabel)
	fu := f.useFuel()
	f.line("{")
	f.ind++
	f.w.WriteString(strings.Repeat("\t", f.ind-1) + name + ":\n")
	f.line("{")
	// loops entered by goto are invisible to break/continue
	savedLoops, savedSw := f.loops, f.inSwitch
	f.loops, f.inSwitch = nil, 0
	f.block(1 + g.pick(3))
	f.loops, f.inSwitch = savedLoops, savedSw
	f.line("}")
	f.line("%s--", fu)
	f.line("if %s > 0 && %s {", fu, f.expr(g.tBool, 2, false))
	f.line("\tgoto %s", name)
	f.line("}")
	if g.chance(30) {
		// a second back edge from a later point: two overlapping goto loops
		f.line("{")
		f.loops, f.inSwitch = nil, 0
		f.block(1)
		f.loops, f.inSwitch = savedLoops, savedSw
		f.line("}")
		f.line("%s--", fu)
		f.line("if %s > 0 && %s {", fu, f.expr(g.tBool, 1, false))
		f.line("\tgoto %s", name)
		f.line("}")
	}
	f.ind--
	f.line("}")
}

func (f *fgen) escapeStmt() {
	g := f.g
	v := f.pickVar(false, func(v *vr) bool { return v.t == g.tInt && v.escapable })
	if v == nil {
		v = f.newLocal(g.tInt, f.expr(g.tInt, 1, false))
		v.escapable, v.unstable = true, true
	}
	switch g.pick(6) {
	case 0, 1: // escapes on one path only
		f.line("if %s {", f.expr(g.tBool, 2, false))
		f.line("\tesc(&%s)", v.name)
		f.line("}")
		g.Feat["escape-conditional"]++
	case 2:
		f.line("esc(&%s)", v.name)
		g.Feat["escape"]++
	case 3:
		f.line("poke(%s)", f.expr(g.tInt, 1, true))
		g.Feat["poke"]++
	case 4:
		p := &vr{name: f.fresh("p"), t: g.ptrInt}
		f.line("%s := &%s", p.name, v.name)
		f.line("_ = %s", p.name)
		f.declare(p)
		g.Feat["addr-local"]++
	default:
		if a := f.pickVar(false, func(v *vr) bool { return v.t.k == tArray && v.t.elem == g.tInt && v.escapable }); a != nil {
			f.line("esc(&%s[%d])", a.name, g.pick(a.t.n))
			g.Feat["escape-element"]++
		} else if s := f.pickVar(false, func(v *vr) bool { return v.t.k == tStruct && v.escapable && hasField(v.t, g.tInt) }); s != nil {
			f.line("esc(&%s.%s)", s.name, fieldOf(g, s.t, g.tInt))
			g.Feat["escape-field"]++
		} else {
			f.line("emit(%d, peek())", g.pick(9))
		}
	}
}

// escapeIdiom: a local whose address escapes on some paths only, assigned on the sibling paths,
// then read (and modified through the escaped pointer) after the join
func (f *fgen) escapeIdiom() {
	g := f.g
	g.Feat["escape-idiom"]++
	v := f.pickVar(false, func(v *vr) bool { return v.t == g.tInt && v.escapable && !strings.HasPrefix(v.name, "g") })
	if v == nil || g.chance(50) {
		v = &vr{name: f.fresh("v"), t: g.tInt, escapable: true, unstable: true}
		f.line("%s := %s", v.name, f.expr(g.tInt, 1, false))
		f.declare(v)
	}
	arm := func() {
		f.ind++
		switch g.pick(7) {
		case 0, 1:
			f.line("%s = %s", v.name, f.expr(g.tInt, 2, false))
		case 2:
			f.line("esc(&%s)", v.name)
		case 3:
			f.line("%s += %d", v.name, 1+g.pick(5))
			f.line("esc(&%s)", v.name)
		case 4:
			f.line("esc(&%s)", v.name)
			f.line("%s = %s", v.name, f.expr(g.tInt, 1, false))
		case 5:
			f.line("poke(%d)", g.pick(50))
		default:
			f.line("emit(%d, %s)", g.pick(9), v.name)
		}
		f.ind--
	}
	inLoop := g.chance(35)
	if inLoop {
		f.line("for %s := 0; %s < %d; %s++ {", "k"+v.name, "k"+v.name, 2+g.pick(2), "k"+v.name)
		f.ind++
	}
	if g.chance(50) {
		n := 2 + g.pick(3)
		f.line("switch %s & 3 {", f.nonConstInt(1))
		for i := 0; i < n; i++ {
			f.line("case %d:", i)
			arm()
			if i < n-1 && g.chance(20) {
				f.line("\tfallthrough")
			}
		}
		if g.chance(50) {
			f.line("default:")
			arm()
		}
		f.line("}")
	} else {
		f.line("if %s {", f.nonConstBool(1))
		arm()
		n := g.pick(3)
		for i := 0; i < n; i++ {
			f.line("} else if %s {", f.nonConstBool(1))
			arm()
		}
		if g.chance(70) {
			f.line("} else {")
			arm()
		}
		f.line("}")
	}
	if inLoop {
		if g.chance(50) {
			f.line("%s += %s", v.name, "k"+v.name)
		}
		f.ind--
		f.line("}")
	}
	f.line("emit(%d, %s)", g.pick(9), v.name)
	if g.chance(60) {
		f.line("poke(%d)", 50+g.pick(50))
		f.line("emit(%d, %s)", g.pick(9), v.name)
	}
	if g.chance(30) {
		f.line("%s++", v.name)
		f.line("emit(%d, peek())", g.pick(9))
	}
}

func (f *fgen) closureStmt() {
	g := f.g
	g.Feat["closure"]++
	c := &vr{name: f.fresh("fn"), t: g.fnII, fields: true} // fields=true marks a non-nil closure
	a := f.fresh("a")
	f.line("%s := func(%s int) int {", c.name, a)
	// body: may read/write captured escapable variables
	sub := &fgen{g: g, fd: f.fd, w: &strings.Builder{}, scopes: append(append([][]*vr{}, f.scopesCapturable()...), []*vr{{name: a, t: g.tInt}}), budget: 4, ind: f.ind + 1, nvar: f.nvar + 100, depth: 2}
	sub.hasFuel = false
	for i := 0; i < 1+g.pick(3); i++ {
		switch g.pick(4) {
		case 0:
			if lv := sub.lvalue(g.tInt); lv != "_" {
				sub.line("%s += %s", lv, sub.expr(g.tInt, 1, false))
				continue
			}
			sub.line("emit(%d, %s)", g.pick(9), a)
		case 1:
			sub.line("emit(%d, %s)", g.pick(9), sub.expr(g.tInt, 2, false))
		case 2:
			sub.line("if %s {", sub.expr(g.tBool, 2, false))
			sub.line("\treturn %s", sub.expr(g.tInt, 2, false))
			sub.line("}")
		default:
			if lv := sub.lvalue(g.tInt); lv != "_" {
				sub.line("%s = %s", lv, sub.expr(g.tInt, 2, false))
			}
		}
	}
	sub.line("return %s", sub.expr(g.tInt, 2, false))
	f.w.WriteString(sub.w.String())
	f.line("}")
	f.declare(c)
	if g.chance(50) {
		f.line("emit(%d, %s(%s))", g.pick(9), c.name, f.expr(g.tInt, 1, true))
	} else {
		f.line("_ = %s", c.name)
	}
}

// variables a closure may mention: escapable locals (they are marked unstable) and read-only use of others is avoided
func (f *fgen) scopesCapturable() [][]*vr {
	var res [][]*vr
	for _, sc := range f.scopes {
		var l []*vr
		for _, v := range sc {
			if v.escapable && !v.appendable {
				l = append(l, v)
			}
		}
		res = append(res, l)
	}
	return res
}

func (f *fgen) sliceStmt() {
	g := f.g
	switch g.pick(7) {
	case 0: // new appendable accumulator
		v := &vr{name: f.fresh("acc"), t: g.slInt, appendable: true}
		switch g.pick(3) {
		case 0:
			f.line("var %s []int", v.name)
		case 1:
			f.line("%s := []int{%s}", v.name, f.expr(g.tInt, 1, false))
		default:
			f.line("%s := make([]int, %d)", v.name, g.pick(3))
		}
		f.line("_ = %s", v.name)
		f.declare(v)
		g.Feat["slice-acc"]++
	case 1, 2: // append
		if v := f.pickVar(false, func(v *vr) bool { return v.appendable }); v != nil {
			if g.chance(25) {
				if s := f.pickVar(false, func(v *vr) bool { return v.t == g.slInt && !v.appendable }); s != nil {
					f.line("%s = append(%s, %s...)", v.name, v.name, s.name)
					g.Feat["append-spread"]++
					return
				}
			}
			var es []string
			for i := 0; i < 1+g.pick(2); i++ {
				es = append(es, f.expr(g.tInt, 2, false))
			}
			f.line("%s = append(%s, %s)", v.name, v.name, strings.Join(es, ", "))
			g.Feat["append"]++
			return
		}
		f.line("_ = 0")
	case 3: // fixed slice: make / slicing of an array / reslice
		v := &vr{name: f.fresh("s"), t: g.slInt}
		if a := f.pickVar(false, func(v *vr) bool { return v.t.k == tArray && v.t.elem == g.tInt && v.escapable }); a != nil && g.chance(50) {
			lo := g.pick(a.t.n)
			f.line("%s := %s[%d:%d]", v.name, a.name, lo, lo+g.pick(a.t.n-lo+1))
			g.Feat["slice-of-array"]++
		} else if s := f.pickVar(false, func(v *vr) bool { return v.t == g.slInt && !v.appendable }); s != nil && g.chance(50) {
			if g.chance(50) {
				f.line("%s := %s[min(%d, len(%s)):]", v.name, s.name, g.pick(3), s.name)
			} else {
				if g.chance(80) {
					f.line("%s := %s[min(%d, len(%s)):min(%s+1, len(%s))]", v.name, s.name, g.pick(2), s.name, f.smallNat(2, false), s.name)
				} else {
					f.line("%s := %s[%d:%s]", v.name, s.name, g.pick(2), f.smallNat(2, false)+"+1")
				}
			}
			g.Feat["reslice"]++
		} else {
			ln := g.pick(4)
			f.line("%s := make([]int, %d, %d)", v.name, ln, ln+g.pick(3))
			g.Feat["make-slice"]++
		}
		f.line("_ = %s", v.name)
		f.declare(v)
	case 4: // copy
		d := f.pickVar(false, func(v *vr) bool { return v.t == g.slInt && !v.appendable })
		s := f.pickVar(false, func(v *vr) bool { return v.t == g.slInt })
		if d != nil && s != nil {
			f.line("emit(%d, copy(%s, %s))", g.pick(9), d.name, s.name)
			g.Feat["copy"]++
			return
		}
		f.line("_ = 0")
	case 5: // three-index slice / make with dynamic length
		v := &vr{name: f.fresh("s"), t: g.slInt}
		if g.chance(50) {
			f.line("%s := make([]int, %s, 8)", v.name, f.smallNat(2, false))
			g.Feat["make-dynamic"]++
		} else if s := f.pickVar(false, func(v *vr) bool { return v.t == g.slInt && !v.appendable }); s != nil {
			hi := 1 + g.pick(3)
			if g.chance(80) {
				f.line("%s := %s[0:min(%d, len(%s)):min(%s+%d, cap(%s))]", v.name, s.name, hi, s.name, f.smallNat(2, false), hi, s.name)
			} else {
				f.line("%s := %s[%d:%d:%s+%d]", v.name, s.name, g.pick(2), hi, f.smallNat(2, false), hi)
			}
			g.Feat["slice3"]++
		} else {
			f.line("%s := []int{1, 2, 3}[:2:3]", v.name)
		}
		f.line("_ = %s", v.name)
		f.declare(v)
	default: // bytes and strings
		s := f.expr(g.tStr, 2, false)
		b := f.fresh("b")
		f.line("%s := []byte(%s)", b, s)
		f.line("if len(%s) > 0 {", b)
		f.line("\t%s[0] = %s", b, f.expr(g.tU8, 1, false))
		f.line("}")
		f.line("emits(%d, string(%s))", g.pick(9), b)
		g.Feat["bytes"]++
	}
}

// constIdiom: variables that only ever receive constants on the different paths (flags, selectors):
// after lifting all edges of their phis are constants
func (f *fgen) constIdiom() {
	g := f.g
	g.Feat["const-idiom"]++
	if g.chance(50) {
		v := &vr{name: f.fresh("ok"), t: g.tBool}
		f.line("%s := %v", v.name, g.chance(50))
		f.declare(v)
		switch g.pick(3) {
		case 0:
			f.line("if %s {", f.nonConstBool(1))
			f.line("\t%s = !%s", v.name, v.name)
			f.line("}")
		case 1:
			i := f.fresh("i")
			f.line("for %s := 0; %s < %d; %s++ {", i, i, 2+g.pick(3), i)
			f.line("\tif %s == %s {", f.nonConstInt(1), i)
			f.line("\t\t%s = true", v.name)
			f.line("\t\tbreak")
			f.line("\t}")
			f.line("\t%s = false", v.name)
			f.line("}")
		default:
			f.line("switch %s & 3 {", f.nonConstInt(1))
			f.line("case 0:")
			f.line("\t%s = true", v.name)
			f.line("case 1, 2:")
			f.line("\t%s = false", v.name)
			f.line("}")
		}
		f.line("emitb(%d, %s)", g.pick(9), v.name)
		return
	}
	t := g.tInt
	if g.chance(30) {
		t = g.ints[g.pick(len(g.ints))]
	}
	v := &vr{name: f.fresh("k"), t: t}
	f.line("%s := %s(%s)", v.name, t.name, g.intConst(t))
	f.declare(v)
	switch g.pick(3) {
	case 0:
		f.line("if %s {", f.nonConstBool(1))
		f.line("\t%s = %s", v.name, g.intConst(t))
		f.line("} else if %s {", f.nonConstBool(1))
		f.line("\t%s = %s", v.name, g.intConst(t))
		f.line("}")
	case 1:
		f.line("switch %s & 3 {", f.nonConstInt(1))
		f.line("case 0:")
		f.line("\t%s = %s", v.name, g.intConst(t))
		f.line("case 1:")
		f.line("\t%s = %s", v.name, g.intConst(t))
		f.line("\tfallthrough")
		f.line("case 2:")
		f.line("\temit(%d, int(%s))", g.pick(9), v.name)
		f.line("default:")
		f.line("\t%s = %s", v.name, g.intConst(t))
		f.line("}")
	default:
		i := f.fresh("i")
		f.line("for %s := range %d {", i, 2+g.pick(3))
		f.line("\tif %s == %s {", f.nonConstInt(1), i)
		f.line("\t\t%s = %s", v.name, g.intConst(t))
		f.line("\t\tcontinue")
		f.line("\t}")
		f.line("\t%s = %s", v.name, g.intConst(t))
		f.line("}")
	}
	f.line("emit(%d, int(%s))", g.pick(9), v.name)
}

// redeclIdiom: `x, fresh := <empty / sparse / partially keyed literal>, e` where x is an already
// declared struct or array variable holding non-zero values (sometimes address-taken): the literal
// must replace the whole old value
func (f *fgen) redeclIdiom() {
	g := f.g
	g.Feat["redeclare-literal"]++
	// the redeclared variable must be declared in the scope the statement is emitted in
	var t *ty
	if g.chance(50) {
		t = g.structs[g.pick(len(g.structs))]
	} else {
		t = g.arrayOf(g.tInt, 2+g.pick(3))
	}
	v := &vr{name: f.fresh("w"), t: t}
	// fill with non-zero values
	if t.k == tArray {
		var es []string
		for i := 0; i < t.n; i++ {
			es = append(es, fmt.Sprintf("%s + %d", f.nonConstInt(0), 1+g.pick(50)))
		}
		f.line("%s := %s{%s}", v.name, t.name, strings.Join(es, ", "))
	} else {
		var es []string
		for _, fl := range t.fields {
			switch fl.t.k {
			case tInt:
				es = append(es, fmt.Sprintf("%s: %s(%d)", fl.name, fl.t.name, 1+g.pick(100)))
			case tString:
				es = append(es, fl.name+`: "old"`)
			case tBool:
				es = append(es, fl.name+": true")
			case tArray:
				es = append(es, fmt.Sprintf("%s: %s{%d, %d}", fl.name, fl.t.name, 1+g.pick(9), 1+g.pick(9)))
			case tStruct:
				es = append(es, fmt.Sprintf("%s: %s", fl.name, f.fullLit(fl.t)))
			case tPtr:
				es = append(es, fl.name+": new(int)")
			}
		}
		f.line("%s := %s{%s}", v.name, t.name, strings.Join(es, ", "))
	}
	f.line("_ = %s", v.name)
	switch g.pick(4) {
	case 0: // lives in memory: address taken (a later poke() may change it: not a plain operand)
		v.unstable = true
		if t.k == tArray {
			f.line("esc(&%s[0])", v.name)
		} else if hasField(t, g.tInt) {
			f.line("esc(&%s.%s)", v.name, fieldOf(g, t, g.tInt))
		}
	case 1:
		f.line("emitb(%d, %s == %s{})", g.pick(9), v.name, t.name)
	}
	// the redeclaration
	var lit string
	if t.k == tArray {
		switch g.pick(3) {
		case 0:
			lit = t.name + "{}"
		case 1:
			lit = fmt.Sprintf("%s{%d: %s}", t.name, g.pick(t.n), f.nonConstInt(1))
		default:
			lit = fmt.Sprintf("%s{%s}", t.name, f.nonConstInt(1))
		}
	} else {
		switch g.pick(3) {
		case 0:
			lit = t.name + "{}"
		default:
			var es []string
			for _, fl := range t.fields {
				if !g.chance(35) {
					continue
				}
				switch fl.t.k {
				case tInt, tString, tBool:
					es = append(es, fl.name+": "+f.expr(fl.t, 1, false))
				case tArray:
					es = append(es, fmt.Sprintf("%s: %s{%d: %s}", fl.name, fl.t.name, g.pick(fl.t.n), f.nonConstInt(0)))
				case tStruct:
					es = append(es, fl.name+": "+fl.t.name+"{}")
				}
			}
			lit = t.name + "{" + strings.Join(es, ", ") + "}"
		}
	}
	k := f.fresh("n")
	if g.chance(50) {
		f.line("%s, %s := %s, %s", v.name, k, lit, f.nonConstInt(1))
	} else {
		f.line("%s, %s := %s, %s", k, v.name, f.nonConstInt(1), lit)
	}
	f.line("emit(%d, %s)", g.pick(9), k)
	f.declare(v)
	// observe the whole value
	f.line("emitb(%d, %s == %s{})", g.pick(9), v.name, t.name)
	if t.k == tArray {
		f.line("emit(%d, %s[0]+%s[%d]*3)", g.pick(9), v.name, v.name, t.n-1)
	} else if hasField(t, g.tInt) {
		f.line("emit(%d, %s.%s)", g.pick(9), v.name, fieldOf(g, t, g.tInt))
	}
}

// fullLit: a struct literal with every scalar field non-zero
func (f *fgen) fullLit(t *ty) string {
	g := f.g
	var es []string
	for _, fl := range t.fields {
		switch fl.t.k {
		case tInt:
			es = append(es, fmt.Sprintf("%s: %s(%d)", fl.name, fl.t.name, 1+g.pick(100)))
		case tString:
			es = append(es, fl.name+`: "in"`)
		case tBool:
			es = append(es, fl.name+": true")
		case tArray:
			es = append(es, fmt.Sprintf("%s: %s{%d, %d}", fl.name, fl.t.name, 1+g.pick(9), 1+g.pick(9)))
		}
	}
	return t.name + "{" + strings.Join(es, ", ") + "}"
}

// stage 2: interfaces and methods, maps, deferred calls, closures over per-iteration variables
func (f *fgen) stage2Stmt() {
	g := f.g
	switch g.pick(12) {
	case 0, 1: // interface value + dynamic calls
		iv := f.pickVar(true, func(v *vr) bool { return v.t == g.iface })
		if iv == nil || g.chance(40) {
			iv = &vr{name: f.fresh("iv"), t: g.iface}
			f.line("%s := mkI(%s)", iv.name, f.expr(g.tInt, 1, true))
			f.line("_ = %s", iv.name)
			f.declare(iv)
		}
		g.Feat["iface-invoke"]++
		guard := g.chance(85)
		if guard {
			f.line("if %s != nil {", iv.name)
			f.ind++
		}
		switch g.pick(3) {
		case 0:
			f.line("emit(%d, %s.M0(%s))", g.pick(9), iv.name, f.expr(g.tInt, 1, true))
		case 1:
			f.line("%s = %s.M0(%s) + %s.M1()", f.plainLvalue(g.tInt), iv.name, f.expr(g.tInt, 1, true), iv.name)
		default:
			f.line("emit(%d, %s.M1())", g.pick(9), iv.name)
		}
		if guard {
			f.ind--
			f.line("}")
		}
	case 2: // type switch
		iv := f.pickVar(true, func(v *vr) bool { return v.t == g.iface })
		src := ""
		if iv != nil {
			src = iv.name
		} else {
			src = fmt.Sprintf("mkI(%s)", f.expr(g.tInt, 1, true))
		}
		g.Feat["type-switch"]++
		x := f.fresh("x")
		f.line("switch %s := %s.(type) {", x, src)
		order := []int{0, 1, 2, 3, 4}
		for i := range order {
			j := i + g.pick(len(order)-i)
			order[i], order[j] = order[j], order[i]
		}
		for _, c := range order[:3+g.pick(3)] {
			switch c {
			case 0:
				f.line("case T0:")
				f.line("\temit(%d, %s.a+%s.b)", g.pick(9), x, x)
			case 1:
				f.line("case *T1:")
				f.line("\t%s.n += %d", x, 1+g.pick(4))
				f.line("\temit(%d, %s.n)", g.pick(9), x)
			case 2:
				f.line("case T2:")
				f.line("\temit(%d, int(%s))", g.pick(9), x)
			case 3:
				f.line("case nil:")
				f.line("\t_ = %s", x)
				f.line("\temit(%d, -1)", g.pick(9))
			default:
				f.line("default:")
				f.line("\t_ = %s", x)
				f.line("\temit(%d, -2)", g.pick(9))
			}
		}
		f.line("}")
	case 3: // type assertion
		iv := f.pickVar(true, func(v *vr) bool { return v.t == g.iface })
		if iv == nil {
			f.line("emit(%d, 0)", g.pick(9))
			return
		}
		g.Feat["type-assert"]++
		tn := []string{"T0", "*T1", "T2"}[g.pick(3)]
		if g.chance(85) {
			f.line("if %s, ok := %s.(%s); ok {", "y"+iv.name, iv.name, tn)
			f.line("\temit(%d, %s.M1())", g.pick(9), "y"+iv.name)
			f.line("}")
		} else {
			f.line("emit(%d, %s.(%s).M1())", g.pick(9), iv.name, tn)
		}
	case 4, 5: // maps
		m := f.pickVar(false, func(v *vr) bool { return v.t == g.mapII })
		if m == nil || g.chance(25) {
			m = &vr{name: f.fresh("m"), t: g.mapII}
			switch g.pick(3) {
			case 0:
				f.line("%s := map[int]int{}", m.name)
			case 1:
				f.line("%s := map[int]int{%d: %s, %d: %s}", m.name, g.pick(3), f.expr(g.tInt, 1, false), 3+g.pick(3), f.expr(g.tInt, 1, false))
			default:
				f.line("%s := make(map[int]int)", m.name)
			}
			f.line("_ = %s", m.name)
			f.declare(m)
		}
		g.Feat["map-op"]++
		key := fmt.Sprintf("int(%s %% 5)", f.uintOf(1, false))
		switch g.pick(6) {
		case 0, 1:
			f.line("%s[%s] = %s", m.name, key, f.expr(g.tInt, 2, false))
		case 2:
			f.line("%s[%s] += %s", m.name, key, f.expr(g.tInt, 1, false))
		case 3:
			f.line("delete(%s, %s)", m.name, key)
		case 4:
			f.line("if %s, ok := %s[%s]; ok {", "w"+m.name, m.name, key)
			f.line("\temit(%d, %s)", g.pick(9), "w"+m.name)
			f.line("}")
		default:
			f.line("emit(%d, %s[%s]+len(%s))", g.pick(9), m.name, key, m.name)
		}
	case 6: // range over a map: order-independent accumulation only
		m := f.pickVar(false, func(v *vr) bool { return v.t == g.mapII })
		if m == nil {
			f.line("emit(%d, 1)", g.pick(9))
			return
		}
		g.Feat["range-map"]++
		acc := f.fresh("sum")
		f.line("%s := 0", acc)
		f.line("for k, v := range %s {", m.name)
		f.line("\t%s += k*%d + v", acc, 1+g.pick(3))
		f.line("}")
		f.line("emit(%d, %s)", g.pick(9), acc)
	case 7, 8: // deferred calls
		if !f.canDefer {
			f.line("emit(%d, 2)", g.pick(9))
			return
		}
		g.Feat["defer"]++
		switch g.pick(3) {
		case 0:
			f.line("defer emit(%d, %s)", g.pick(9), f.expr(g.tInt, 2, false))
		case 1:
			if len(f.results) > 0 {
				r := f.results[g.pick(len(f.results))]
				if r.t == g.tInt {
					f.line("defer func() { %s += %d }()", r.name, 1+g.pick(9))
					return
				}
			}
			f.line("defer emits(%d, %s)", g.pick(9), f.expr(g.tStr, 1, false))
		default:
			f.line("defer func() {")
			f.line("\temit(%d, %s)", g.pick(9), f.expr(g.tInt, 1, false))
			f.line("}()")
		}
	case 9: // closures capturing per-iteration loop variables, called after the loop
		g.Feat["closure-loopvar"]++
		fs := f.fresh("fs")
		i := f.fresh("i")
		f.line("var %s []func() int", fs)
		switch g.pick(3) {
		case 0:
			f.line("for %s := 0; %s < %d; %s++ {", i, i, 2+g.pick(2), i)
		case 1:
			f.line("for %s := range %d {", i, 2+g.pick(2))
		default:
			f.line("for _, %s := range []int{%d, %d, %d} {", i, g.pick(9), g.pick(9), g.pick(9))
		}
		if g.chance(50) {
			f.line("\t%s = append(%s, func() int { %s += %d; return %s })", fs, fs, i, 10+g.pick(5), i)
		} else {
			f.line("\t%s = append(%s, func() int { return %s * %d })", fs, fs, i, 2+g.pick(3))
		}
		f.line("}")
		f.line("for _, fn := range %s {", fs)
		f.line("\temit(%d, fn()+fn())", g.pick(9))
		f.line("}")
	default: // struct / array equality
		g.Feat["aggregate-eq"]++
		v := f.pickVar(false, func(v *vr) bool { return (v.t.k == tStruct || v.t.k == tArray) })
		if v == nil {
			f.line("emit(%d, 3)", g.pick(9))
			return
		}
		f.line("emitb(%d, %s == %s)", g.pick(9), v.name, f.expr(v.t, 2, false))
	}
}

func (f *fgen) ret() {
	if len(f.fd.res) == 0 {
		f.line("return")
		return
	}
	var es []string
	for _, t := range f.fd.res {
		es = append(es, f.expr(t, 2, false))
	}
	f.line("return %s", strings.Join(es, ", "))
}

func (g *gen) function(idx int) {
	fd := &fdecl{name: fmt.Sprintf("F%d", idx)}
	f := g.newFgen(fd)
	f.budget = 8 + g.pick(18)
	np := 1 + g.pick(3)
	var ps []string
	ptypes := []*ty{g.tInt, g.tInt, g.tInt, g.ints[g.pick(len(g.ints))], g.tBool, g.tStr, g.slInt, g.ptrInt, g.structs[0], g.arrayOf(g.tInt, 3), g.ptrTo(g.structs[0])}
	for i := 0; i < np; i++ {
		t := ptypes[g.pick(len(ptypes))]
		// pointer-to-struct types must be shared objects to compare by identity
		if t.k == tPtr && t.elem.k == tStruct {
			found := false
			for _, o := range fd.params {
				if o.name == t.name {
					t, found = o, true
				}
			}
			_ = found
		}
		fd.params = append(fd.params, t)
		v := &vr{name: fmt.Sprintf("q%d", i), t: t}
		if (t.k == tInt || t.k == tArray || t.k == tStruct) && g.chance(30) {
			v.escapable, v.unstable = true, true
		}
		f.declare(v)
		ps = append(ps, v.name+" "+t.name)
	}
	nr := 1 + g.pick(3)
	rtypes := []*ty{g.tInt, g.tInt, g.tInt, g.ints[g.pick(len(g.ints))], g.tBool, g.tStr, g.slInt, g.structs[0], g.arrayOf(g.tInt, 3), g.ptrInt, g.mapII, g.iface}
	var rs []string
	withDefer := g.chance(35)
	f.canDefer = withDefer
	for i := 0; i < nr; i++ {
		t := rtypes[g.pick(len(rtypes))]
		fd.res = append(fd.res, t)
		if withDefer {
			r := &vr{name: fmt.Sprintf("r%d", i), t: t, unstable: true, escapable: t.k == tInt}
			f.results = append(f.results, r)
			f.declare(r)
			rs = append(rs, r.name+" "+t.name)
		} else {
			rs = append(rs, t.name)
		}
	}
	f.ind = 1
	f.push()
	if withDefer {
		g.Feat["defer-recover-func"]++
		f.line("defer func() {")
		f.line("\tif e := recover(); e != nil {")
		for _, r := range f.results {
			switch r.t.k {
			case tInt:
				f.line("\t\t%s = %s(%d)", r.name, r.t.name, g.pick(100))
			case tString:
				f.line("\t\t%s += \"!\"", r.name)
			case tBool:
				f.line("\t\t%s = !%s", r.name, r.name)
			}
		}
		f.line("\t\temit(%d, %d)", g.pick(9), g.pick(100))
		if g.chance(15) {
			f.line("\t\tpanic(e)")
		}
		f.line("\t}")
		f.line("}()")
	}
	for f.budget > 0 {
		f.stmt()
	}
	f.ret()
	body := f.w.String()
	fmt.Fprintf(&g.sb, "func %s(%s) (%s) {\n", fd.name, strings.Join(ps, ", "), strings.Join(rs, ", "))
	if f.hasFuel {
		g.sb.WriteString("\tfuel := 12\n")
	}
	g.sb.WriteString(body)
	g.sb.WriteString("}\n\n")
	g.funcs = append(g.funcs, fd)
}
