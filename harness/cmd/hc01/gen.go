package main

import "verifharness/hx"

type gen struct{ rnd *hx.Rand }

func newGen(seed uint64) *gen { return &gen{rnd: hx.NewRand(seed)} }

func (g *gen) Program() string {
	return "package main\n\nfunc F0(x int) int { return x + 1 }\n"
}
