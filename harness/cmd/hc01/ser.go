// Serialisation of go/ir functions into Gallina terms of Verif.Model.C01_IRSem (program, func, block, instr).
// Everything the model needs to know about types is resolved here: integer kinds, zero values,
// dynamic type ids, implementor sets of interfaces, method tables.
package main

import (
	"fmt"
	"go/constant"
	"go/token"
	"go/types"
	"math/big"
	"sort"
	"strings"

	"honnef.co/go/tools/go/ir"
)

// Tables shared by all serialised forms of one source program (so that ids agree between forms and
// with the expectations printed by the compiled program).
type Tables struct {
	typeIDs   map[string]int // types.TypeString -> dynamic type id (>= 1; 0 = runtime.Error)
	typeByID  []types.Type
	methodIDs map[string]int // method Id() -> method id
	externs   map[string]int // name of external (body-less) function -> index in the name table
	externNm  []string
	globals   []*types.Var // package-level variables in declaration order: global i lives in cell i+1
	globalIdx map[*types.Var]int
}

func newTables() *Tables {
	return &Tables{typeIDs: map[string]int{}, typeByID: []types.Type{nil}, methodIDs: map[string]int{}, externs: map[string]int{}, globalIdx: map[*types.Var]int{}}
}

func (t *Tables) typeID(ty types.Type) int {
	k := types.TypeString(ty, nil)
	if id, ok := t.typeIDs[k]; ok {
		return id
	}
	id := len(t.typeByID)
	t.typeIDs[k] = id
	t.typeByID = append(t.typeByID, ty)
	return id
}

func (t *Tables) methodID(f *types.Func) int {
	k := f.Id()
	if id, ok := t.methodIDs[k]; ok {
		return id
	}
	id := len(t.methodIDs)
	t.methodIDs[k] = id
	return id
}

func (t *Tables) extern(name string) int {
	if id, ok := t.externs[name]; ok {
		return id
	}
	id := len(t.externNm)
	t.externs[name] = id
	t.externNm = append(t.externNm, name)
	return id
}

// Ser serialises one built form (one ir.Program) of the package.
type Ser struct {
	tb    *Tables
	prog  *ir.Program
	pkg   *ir.Package
	funcs []*ir.Function
	fidx  map[*ir.Function]int
	// concrete types that are ever put into an interface (closed world for type assertions)
	concrete []types.Type
	conSeen  map[string]bool
	Kinds    map[string]int // static instruction-kind counts
	Unsupp   map[string]int // statically unsupported constructs
}

func newSer(tb *Tables, prog *ir.Program, pkg *ir.Package) *Ser {
	return &Ser{tb: tb, prog: prog, pkg: pkg, fidx: map[*ir.Function]int{}, conSeen: map[string]bool{}, Kinds: map[string]int{}, Unsupp: map[string]int{}}
}

func (s *Ser) addFunc(f *ir.Function) int {
	if i, ok := s.fidx[f]; ok {
		return i
	}
	i := len(s.funcs)
	s.fidx[f] = i
	s.funcs = append(s.funcs, f)
	return i
}

func (s *Ser) addConcrete(t types.Type) {
	k := types.TypeString(t, nil)
	if s.conSeen[k] {
		return
	}
	s.conSeen[k] = true
	s.concrete = append(s.concrete, t)
	s.tb.typeID(t)
}

// discover walks all functions reachable from the roots, collecting functions and concrete types.
func (s *Ser) discover(roots []*ir.Function) {
	for _, r := range roots {
		s.addFunc(r)
	}
	doneF := 0
	doneT := 0
	for doneF < len(s.funcs) || doneT < len(s.concrete) {
		for doneF < len(s.funcs) {
			f := s.funcs[doneF]
			doneF++
			for _, a := range f.AnonFuncs {
				s.addFunc(a)
			}
			for _, b := range f.Blocks {
				for _, ins := range b.Instrs {
					var rands []*ir.Value
					rands = ins.Operands(rands)
					for _, r := range rands {
						if r == nil || *r == nil {
							continue
						}
						if fn, ok := (*r).(*ir.Function); ok {
							s.addFunc(fn)
						}
					}
					if mi, ok := ins.(*ir.MakeInterface); ok {
						s.addConcrete(mi.X.Type())
					}
				}
			}
		}
		for doneT < len(s.concrete) {
			t := s.concrete[doneT]
			doneT++
			ms := s.prog.MethodSets.MethodSet(t)
			for i := 0; i < ms.Len(); i++ {
				if fn := s.prog.MethodValue(ms.At(i)); fn != nil {
					s.addFunc(fn)
				}
			}
		}
	}
}

// ---------------------------------------------------------------- types

func under(t types.Type) types.Type { return t.Underlying() }

func intKind(t types.Type) (string, bool) {
	b, ok := under(t).(*types.Basic)
	if !ok {
		return "", false
	}
	switch b.Kind() {
	case types.Int, types.Int64, types.UntypedInt:
		return "(IK true 64)", true
	case types.Int8:
		return "(IK true 8)", true
	case types.Int16:
		return "(IK true 16)", true
	case types.Int32, types.UntypedRune:
		return "(IK true 32)", true
	case types.Uint, types.Uint64, types.Uintptr:
		return "(IK false 64)", true
	case types.Uint8:
		return "(IK false 8)", true
	case types.Uint16:
		return "(IK false 16)", true
	case types.Uint32:
		return "(IK false 32)", true
	}
	return "", false
}

func isFloatish(t types.Type) bool {
	if b, ok := under(t).(*types.Basic); ok {
		return b.Info()&(types.IsFloat|types.IsComplex) != 0 || b.Kind() == types.UnsafePointer
	}
	return false
}

var shortKinds = map[string]string{"(IK true 64)": "i64", "(IK true 32)": "i32", "(IK true 16)": "i16", "(IK true 8)": "i8",
	"(IK false 64)": "u64", "(IK false 32)": "u32", "(IK false 16)": "u16", "(IK false 8)": "u8"}

func okind(t types.Type) string {
	if k, ok := intKind(t); ok {
		return shortKinds[k]
	}
	if b, ok := under(t).(*types.Basic); ok {
		if b.Info()&types.IsBoolean != 0 {
			return "KBool"
		}
		if b.Info()&types.IsString != 0 {
			return "KStr"
		}
	}
	return "KOther"
}

// cmpShape: "" if values of t compare structurally on all components, else the Gallina cshape that
// leaves out blank struct fields
func cmpShape(t types.Type) string {
	switch u := under(t).(type) {
	case *types.Struct:
		any := false
		var fs []string
		for i := 0; i < u.NumFields(); i++ {
			if u.Field(i).Name() == "_" {
				fs = append(fs, "None")
				any = true
				continue
			}
			sh := cmpShape(u.Field(i).Type())
			if sh == "" {
				fs = append(fs, "(Some CAny)")
			} else {
				fs = append(fs, "(Some "+sh+")")
				any = true
			}
		}
		if any {
			return "(CFields [" + strings.Join(fs, "; ") + "])"
		}
	case *types.Array:
		if sh := cmpShape(u.Elem()); sh != "" {
			return "(CElems " + sh + ")"
		}
	}
	return ""
}

func ckind(t types.Type) string {
	if k, ok := intKind(t); ok {
		return "(CInt " + k + ")"
	}
	switch u := under(t).(type) {
	case *types.Basic:
		if u.Info()&types.IsString != 0 {
			return "CStr"
		}
	case *types.Slice:
		if b, ok := under(u.Elem()).(*types.Basic); ok {
			if b.Kind() == types.Uint8 {
				return "CBytes"
			}
			if b.Kind() == types.Int32 {
				return "CRunes"
			}
		}
	}
	return "COther"
}

type unsupported struct{ what string }

// zero returns the Gallina zero value of t; panics with unsupported for types outside the model.
func (s *Ser) zero(t types.Type) string {
	switch u := under(t).(type) {
	case *types.Basic:
		if _, ok := intKind(t); ok {
			return "(VInt 0)"
		}
		if u.Info()&types.IsBoolean != 0 {
			return "(VBool false)"
		}
		if u.Info()&types.IsString != 0 {
			return "(VStr [])"
		}
		if u.Kind() == types.UntypedNil {
			return "(VIface None)"
		}
		panic(unsupported{"zero:" + u.String()})
	case *types.Pointer:
		return "vnil"
	case *types.Slice:
		return "snil"
	case *types.Map:
		return "(VMap None)"
	case *types.Signature:
		return "VNilFunc"
	case *types.Interface:
		return "(VIface None)"
	case *types.Struct:
		var fs []string
		for i := 0; i < u.NumFields(); i++ {
			fs = append(fs, s.zero(u.Field(i).Type()))
		}
		return "(VAgg [" + strings.Join(fs, "; ") + "])"
	case *types.Array:
		if u.Len() > 256 {
			panic(unsupported{"big array"})
		}
		z := s.zero(u.Elem())
		if z == "(VInt 0)" {
			return fmt.Sprintf("(zi %d)", u.Len())
		}
		return fmt.Sprintf("(za %d %s)", u.Len(), z)
	case *types.Tuple:
		var fs []string
		for i := 0; i < u.Len(); i++ {
			fs = append(fs, s.zero(u.At(i).Type()))
		}
		return "(VAgg [" + strings.Join(fs, "; ") + "])"
	}
	panic(unsupported{"zero:" + t.String()})
}

func bytesLit(b []byte) string {
	if len(b) == 0 {
		return "[]"
	}
	var sb strings.Builder
	sb.WriteString("[")
	for i, c := range b {
		if i > 0 {
			sb.WriteString(";")
		}
		fmt.Fprintf(&sb, "%d", c)
	}
	sb.WriteString("]%N")
	return sb.String()
}

func zlit(v *big.Int) string {
	if v.Sign() < 0 {
		return "(" + v.String() + ")"
	}
	return v.String()
}

func (s *Ser) constant(c *ir.Const) string {
	if c.Value == nil {
		return s.zero(c.Type())
	}
	t := c.Type()
	if _, ok := intKind(t); ok {
		v := constant.ToInt(c.Value)
		bi, ok := constant.Val(v).(*big.Int)
		if !ok {
			i64, _ := constant.Int64Val(v)
			bi = big.NewInt(i64)
		}
		return "(VInt " + zlit(bi) + ")"
	}
	if b, ok := under(t).(*types.Basic); ok {
		if b.Info()&types.IsBoolean != 0 {
			if constant.BoolVal(c.Value) {
				return "(VBool true)"
			}
			return "(VBool false)"
		}
		if b.Info()&types.IsString != 0 {
			return "(VStr " + bytesLit([]byte(constant.StringVal(c.Value))) + ")"
		}
	}
	panic(unsupported{"const:" + t.String()})
}

// implementors of interface type it among the concrete types of the closed world (+0 for runtime.Error)
func (s *Ser) implementors(it types.Type) []int {
	iface, _ := under(it).(*types.Interface)
	var ids []int
	if iface != nil {
		// runtime.Error implements error and interface{}
		okRt := true
		for i := 0; i < iface.NumMethods(); i++ {
			if iface.Method(i).Name() != "Error" {
				okRt = false
			}
		}
		if okRt {
			ids = append(ids, 0)
		}
	}
	for _, t := range s.concrete {
		if iface != nil && types.Implements(t, iface) {
			ids = append(ids, s.tb.typeID(t))
		}
	}
	sort.Ints(ids)
	return ids
}

func nlist(ids []int) string {
	if len(ids) == 0 {
		return "[]"
	}
	var p []string
	for _, i := range ids {
		p = append(p, fmt.Sprint(i))
	}
	return "[" + strings.Join(p, ";") + "]%N"
}

// ---------------------------------------------------------------- functions

type fser struct {
	s    *Ser
	f    *ir.Function
	regs map[ir.Value]int
	next int
}

func (fs *fser) reg(v ir.Value) int {
	if r, ok := fs.regs[v]; ok {
		return r
	}
	fs.next++
	fs.regs[v] = fs.next
	return fs.next
}

func (fs *fser) operand(v ir.Value) string {
	switch v := v.(type) {
	case *ir.Const:
		c := fs.s.constant(v)
		switch {
		case strings.HasPrefix(c, "(VInt "):
			return "(ci " + c[6:]
		case c == "(VBool true)":
			return "ct"
		case c == "(VBool false)":
			return "cf"
		case strings.HasPrefix(c, "(VStr "):
			return "(cs " + c[6:]
		}
		return "(cv " + c + ")"
	case *ir.Global:
		obj, _ := v.Object().(*types.Var)
		gi, ok := fs.s.tb.globalIdx[obj]
		if !ok {
			panic(unsupported{"global:" + v.Name()})
		}
		return fmt.Sprintf("(gl %d)", gi+1)
	case *ir.Function:
		return fmt.Sprintf("(fu %d)", fs.s.addFunc(v))
	case *ir.Builtin:
		panic(unsupported{"builtin as value:" + v.Name()})
	case nil:
		panic(unsupported{"nil operand"})
	}
	r, ok := fs.regs[v]
	if !ok {
		// forward reference (phi edges, or a use textually before the definition): number now
		r = fs.reg(v)
	}
	return fmt.Sprintf("(r %d)", r)
}

func (fs *fser) operands(vs ...ir.Value) string {
	var p []string
	for _, v := range vs {
		p = append(p, fs.operand(v))
	}
	return "[" + strings.Join(p, "; ") + "]"
}

func seqKind(t types.Type) string {
	switch u := under(t).(type) {
	case *types.Basic:
		if u.Info()&types.IsString != 0 {
			return "SqString"
		}
	case *types.Slice:
		return "SqSlice"
	case *types.Array:
		return fmt.Sprintf("(SqArray %d)", u.Len())
	case *types.Pointer:
		if a, ok := under(u.Elem()).(*types.Array); ok {
			return fmt.Sprintf("(SqArrayPtr %d)", a.Len())
		}
	case *types.Map:
		return "SqMap"
	}
	panic(unsupported{"seqkind:" + t.String()})
}

var binops = map[token.Token]string{
	token.ADD: "Add", token.SUB: "Sub", token.MUL: "Mul", token.QUO: "Quo", token.REM: "Rem",
	token.AND: "BAnd", token.OR: "BOr", token.XOR: "BXor", token.SHL: "Shl", token.SHR: "Shr", token.AND_NOT: "AndNot",
	token.EQL: "Eql", token.NEQ: "Neq", token.LSS: "Lss", token.LEQ: "Leq", token.GTR: "Gtr", token.GEQ: "Geq",
}

func containsFloat(t types.Type) bool {
	switch u := under(t).(type) {
	case *types.Basic:
		return isFloatish(t)
	case *types.Chan:
		return true
	case *types.Struct:
		for i := 0; i < u.NumFields(); i++ {
			if containsFloat(u.Field(i).Type()) {
				return true
			}
		}
	case *types.Array:
		return containsFloat(u.Elem())
	case *types.Tuple:
		for i := 0; i < u.Len(); i++ {
			if containsFloat(u.At(i).Type()) {
				return true
			}
		}
	case *types.TypeParam:
		return true
	}
	return false
}

// unsupported-construct codes (EUnsupported n) used by the serialiser: 100 + index in this table
var unsuppNames = []string{"other", "float/complex/chan/typeparam", "Go", "Send", "Recv", "Select", "MakeChan", "MultiConvert",
	"builtin", "defer-builtin", "convert", "zero", "const", "seqkind", "global", "print"}

func unsuppCode(what string) int {
	for i, n := range unsuppNames {
		if strings.HasPrefix(what, n) {
			return 100 + i
		}
	}
	return 100
}

func (fs *fser) unsupp(dst string, what string) string {
	fs.s.Unsupp[what]++
	return fmt.Sprintf("%s (OpUnsupported %d) []", dst, unsuppCode(what))
}

func (fs *fser) instr(ins ir.Instruction) (out string) {
	s := fs.s
	kind := strings.TrimPrefix(fmt.Sprintf("%T", ins), "*ir.")
	dst := "e"
	dn := 0
	if v, ok := ins.(ir.Value); ok {
		dn = fs.reg(v)
		dst = fmt.Sprintf("o %d", dn)
		if containsFloat(v.Type()) {
			s.Kinds[kind]++
			return fs.unsupp(dst, "float/complex/chan/typeparam")
		}
	}
	defer func() {
		if r := recover(); r != nil {
			if u, ok := r.(unsupported); ok {
				out = fs.unsupp(dst, u.what)
				return
			}
			panic(r)
		}
	}()
	op := func(opc string, vs ...ir.Value) string {
		return fmt.Sprintf("%s %s %s", dst, opc, fs.operands(vs...))
	}
	_ = dn
	switch ins := ins.(type) {
	case *ir.Alloc:
		if ins.Heap {
			kind = "Alloc(new)"
		} else {
			kind = "Alloc(local)"
		}
		if ins.Comment() == "split alloc" {
			kind = "Alloc(split)"
		}
		s.Kinds[kind]++
		h := "false"
		if ins.Heap {
			h = "true"
		}
		return fmt.Sprintf("al %d %s %s", dn, h, s.zero(ins.Type().Underlying().(*types.Pointer).Elem()))
	case *ir.Phi:
		s.Kinds[kind]++
		return fmt.Sprintf("ph %d %s", fs.reg(ins), fs.operands(ins.Edges...))
	case *ir.Load:
		if ins.Comment() == "split alloc" {
			kind = "Load(split)"
		}
		s.Kinds[kind]++
		return fmt.Sprintf("ld %d %s", dn, fs.operand(ins.X))
	case *ir.Store:
		if ins.Comment() == "split alloc" {
			kind = "Store(split)"
		}
		s.Kinds[kind]++
		return fmt.Sprintf("st %s %s", fs.operand(ins.Addr), fs.operand(ins.Val))
	case *ir.BlankStore, *ir.DebugRef:
		// pseudo-instructions: "no dynamic effect" (ssa.go); counted, not serialised
		s.Kinds[kind]++
		return ""
	case *ir.BinOp:
		s.Kinds[kind+":"+ins.Op.String()+":"+okindShort(ins.X.Type())]++
		if isFloatish(ins.X.Type()) {
			return fs.unsupp(dst, "float/complex/chan/typeparam")
		}
		xk := okind(ins.X.Type())
		if sh := cmpShape(ins.X.Type()); sh != "" && xk == "KOther" {
			xk = "(KShape " + sh + ")"
		}
		return fmt.Sprintf("bin %d %s %s %s %s %s", dn, binops[ins.Op], xk, okind(ins.Y.Type()), fs.operand(ins.X), fs.operand(ins.Y))
	case *ir.UnOp:
		s.Kinds[kind+":"+ins.Op.String()]++
		var o string
		switch ins.Op {
		case token.NOT:
			o = "UNot"
		case token.SUB:
			o = "UNeg"
		case token.XOR:
			o = "UCompl"
		default:
			panic(unsupported{"other unop " + ins.Op.String()})
		}
		return fmt.Sprintf("un %d %s %s %s", dn, o, okind(ins.X.Type()), fs.operand(ins.X))
	case *ir.Convert:
		f, t := ckind(ins.X.Type()), ckind(ins.Type())
		s.Kinds[kind+":"+strings.Trim(strings.Fields(t)[0], "()")+"<-"+strings.Trim(strings.Fields(f)[0], "()")]++
		if f == "COther" || t == "COther" {
			panic(unsupported{"convert " + ins.Type().String() + "<-" + ins.X.Type().String()})
		}
		return fmt.Sprintf("cnv %d %s %s %s", dn, f, t, fs.operand(ins.X))
	case *ir.ChangeType:
		s.Kinds[kind]++
		return op("OpChangeType", ins.X)
	case *ir.ChangeInterface:
		s.Kinds[kind]++
		return op("OpChangeInterface", ins.X)
	case *ir.MakeInterface:
		s.Kinds[kind]++
		return op(fmt.Sprintf("(OpMakeInterface %d)", s.tb.typeID(ins.X.Type())), ins.X)
	case *ir.TypeAssert:
		s.Kinds[kind]++
		isif := types.IsInterface(ins.AssertedType)
		var tys []int
		if isif {
			tys = s.implementors(ins.AssertedType)
		} else {
			tys = []int{s.tb.typeID(ins.AssertedType)}
		}
		return op(fmt.Sprintf("(OpTypeAssert %v %s %v %s)", isif, nlist(tys), ins.CommaOk, s.zero(ins.AssertedType)), ins.X)
	case *ir.TypeSwitch:
		s.Kinds[kind]++
		var conds, zeros []string
		tup := ins.Type().(*types.Tuple)
		for i, c := range ins.Conds {
			if b, ok := c.(*types.Basic); ok && b.Kind() == types.UntypedNil {
				conds = append(conds, "(true, [])")
			} else if types.IsInterface(c) {
				conds = append(conds, fmt.Sprintf("(true, %s)", nlist(s.implementors(c))))
			} else {
				conds = append(conds, fmt.Sprintf("(false, %s)", nlist([]int{s.tb.typeID(c)})))
			}
			zeros = append(zeros, s.zero(tup.At(i+1).Type()))
		}
		return op(fmt.Sprintf("(OpTypeSwitch [%s] [%s])", strings.Join(conds, "; "), strings.Join(zeros, "; ")), ins.Tag)
	case *ir.MakeClosure:
		s.Kinds[kind]++
		return op(fmt.Sprintf("(OpMakeClosure %d)", s.addFunc(ins.Fn.(*ir.Function))), ins.Bindings...)
	case *ir.MakeSlice:
		s.Kinds[kind]++
		return op(fmt.Sprintf("(OpMakeSlice %s)", s.zero(under(ins.Type()).(*types.Slice).Elem())), ins.Len, ins.Cap)
	case *ir.Slice:
		sk := seqKind(ins.X.Type())
		s.Kinds[kind+":"+strings.Trim(strings.Fields(sk)[0], "()")]++
		vs := []ir.Value{ins.X}
		for _, o := range []ir.Value{ins.Low, ins.High, ins.Max} {
			if o != nil {
				vs = append(vs, o)
			}
		}
		return op(fmt.Sprintf("(OpSlice %s %v %v %v)", sk, ins.Low != nil, ins.High != nil, ins.Max != nil), vs...)
	case *ir.FieldAddr:
		s.Kinds[kind]++
		return fmt.Sprintf("fa %d %d %s", dn, ins.Field, fs.operand(ins.X))
	case *ir.Field:
		s.Kinds[kind]++
		return fmt.Sprintf("fd %d %d %s", dn, ins.Field, fs.operand(ins.X))
	case *ir.IndexAddr:
		sk := seqKind(ins.X.Type())
		s.Kinds[kind+":"+strings.Trim(strings.Fields(sk)[0], "()")]++
		return fmt.Sprintf("ia %d %s %s %s", dn, sk, fs.operand(ins.X), fs.operand(ins.Index))
	case *ir.Index:
		sk := seqKind(ins.X.Type())
		s.Kinds[kind+":"+strings.Trim(strings.Fields(sk)[0], "()")]++
		return fmt.Sprintf("ix %d %s %s %s", dn, sk, fs.operand(ins.X), fs.operand(ins.Index))
	case *ir.StringLookup:
		s.Kinds[kind]++
		return op("OpStringLookup", ins.X, ins.Index)
	case *ir.Extract:
		s.Kinds[kind]++
		return fmt.Sprintf("ex %d %d %s", dn, ins.Index, fs.operand(ins.Tuple))
	case *ir.CompositeValue:
		s.Kinds[kind]++
		n := 0
		switch u := under(ins.Type()).(type) {
		case *types.Struct:
			n = u.NumFields()
		case *types.Array:
			n = int(u.Len())
		}
		if n != len(ins.Values) {
			panic(unsupported{fmt.Sprintf("other: sparse CompositeValue %d/%d", len(ins.Values), n)})
		}
		return op("OpComposite", ins.Values...)
	case *ir.Range:
		sk := seqKind(ins.X.Type())
		s.Kinds[kind+":"+sk]++
		return op(fmt.Sprintf("(OpRange %s)", sk), ins.X)
	case *ir.Next:
		s.Kinds[kind]++
		return op(fmt.Sprintf("(OpNext %v)", ins.IsString), ins.Iter)
	case *ir.MakeMap:
		s.Kinds[kind]++
		return op("OpMakeMap")
	case *ir.MapLookup:
		s.Kinds[kind]++
		el := under(ins.X.Type()).(*types.Map).Elem()
		return op(fmt.Sprintf("(OpMapLookup %v %s)", ins.CommaOk, s.zero(el)), ins.X, ins.Index)
	case *ir.MapUpdate:
		s.Kinds[kind]++
		return op("OpMapUpdate", ins.Map, ins.Key, ins.Value)
	case *ir.SliceToArrayPointer:
		s.Kinds[kind]++
		n := under(under(ins.Type()).(*types.Pointer).Elem()).(*types.Array).Len()
		return op(fmt.Sprintf("(OpSliceToArrayPtr %d)", n), ins.X)
	case *ir.SliceToArray:
		s.Kinds[kind]++
		n := under(ins.Type()).(*types.Array).Len()
		return op(fmt.Sprintf("(OpSliceToArray %d)", n), ins.X)
	case *ir.Call:
		return fs.call(dst, &ins.Call, false, nil)
	case *ir.Defer:
		return fs.call(dst, &ins.Call, true, ins.DeferStack)
	case *ir.RunDefers:
		s.Kinds[kind]++
		return "IRunDefers"
	case *ir.Jump:
		s.Kinds[kind]++
		return "jp"
	case *ir.If:
		s.Kinds[kind]++
		return "br " + fs.operand(ins.Cond)
	case *ir.ConstantSwitch:
		s.Kinds[kind]++
		var cs []string
		for _, c := range ins.Conds {
			if c == nil {
				cs = append(cs, "None")
			} else if k, ok := c.(*ir.Const); ok && k.Value != nil && k.Value.Kind() == constant.Int && isMinusOne(k) && isTypeSwitchTag(ins.Tag) {
				// default branch of a type switch is encoded as the constant -1
				cs = append(cs, "(Some "+fs.operand(c)+")")
			} else {
				cs = append(cs, "(Some "+fs.operand(c)+")")
			}
		}
		return fmt.Sprintf("ISwitch %s [%s]", fs.operand(ins.Tag), strings.Join(cs, "; "))
	case *ir.Return:
		s.Kinds[kind]++
		return "rt " + fs.operands(ins.Results...)
	case *ir.Panic:
		s.Kinds[kind]++
		return "IPanic " + fs.operand(ins.X)
	case *ir.Unreachable:
		s.Kinds[kind]++
		return "IUnreachable"
	case *ir.Go:
		s.Kinds[kind]++
		return fs.unsupp(dst, "Go")
	case *ir.Send:
		s.Kinds[kind]++
		return fs.unsupp(dst, "Send")
	case *ir.Recv:
		s.Kinds[kind]++
		return fs.unsupp(dst, "Recv")
	case *ir.Select:
		s.Kinds[kind]++
		return fs.unsupp(dst, "Select")
	case *ir.MakeChan:
		s.Kinds[kind]++
		return fs.unsupp(dst, "MakeChan")
	case *ir.MultiConvert:
		s.Kinds[kind]++
		return fs.unsupp(dst, "MultiConvert")
	}
	s.Kinds[kind]++
	return fs.unsupp(dst, "other:"+kind)
}

func okindShort(t types.Type) string {
	k := okind(t)
	switch {
	case len(k) >= 2 && (k[0] == 'i' || k[0] == 'u') && k[1] >= '0' && k[1] <= '9':
		return "int"
	case k == "KBool":
		return "bool"
	case k == "KStr":
		return "string"
	}
	return "other"
}

func isMinusOne(c *ir.Const) bool {
	v, ok := constant.Int64Val(constant.ToInt(c.Value))
	return ok && v == -1
}

func isTypeSwitchTag(v ir.Value) bool {
	e, ok := v.(*ir.Extract)
	if !ok {
		return false
	}
	_, ok = e.Tuple.(*ir.TypeSwitch)
	return ok
}

func (fs *fser) call(dst string, c *ir.CallCommon, isDefer bool, deferStack ir.Value) string {
	s := fs.s
	kind := "Call"
	if isDefer {
		kind = "Defer"
	}
	emit := func(mode string, vs ...ir.Value) string {
		if isDefer {
			ds := "None"
			if deferStack != nil {
				ds = "(Some " + fs.operand(deferStack) + ")"
			}
			return fmt.Sprintf("IDefer %s %s %s", mode, ds, fs.operands(vs...))
		}
		if strings.HasPrefix(mode, "(CStatic ") {
			return fmt.Sprintf("cl %s %s %s", dst[2:], strings.TrimSuffix(mode[9:], ")"), fs.operands(vs...))
		}
		if mode == "CValue" {
			return fmt.Sprintf("cvl %s %s", dst[2:], fs.operands(vs...))
		}
		return fmt.Sprintf("ICall (Some %s%%positive) %s %s", dst[2:], mode, fs.operands(vs...))
	}
	if c.IsInvoke() {
		s.Kinds[kind+":invoke"]++
		return emit(fmt.Sprintf("(CInvoke %d)", s.tb.methodID(c.Method)), append([]ir.Value{c.Value}, c.Args...)...)
	}
	switch fn := c.Value.(type) {
	case *ir.Builtin:
		s.Kinds[kind+":builtin:"+fn.Name()]++
		name := fn.Name()
		switch name {
		case "recover":
			return emit("CRecover")
		case "ssa:deferstack":
			return emit("CDeferStack")
		case "panic":
			return emit("CPanicB", c.Args...)
		}
		if isDefer {
			panic(unsupported{"defer-builtin " + name})
		}
		var b string
		switch name {
		case "len":
			b = "(BLen " + seqKind(c.Args[0].Type()) + ")"
		case "cap":
			b = "(BCap " + seqKind(c.Args[0].Type()) + ")"
		case "append":
			el := under(c.Args[0].Type()).(*types.Slice).Elem()
			fromstr := false
			if len(c.Args) > 1 {
				if bt, ok := under(c.Args[1].Type()).(*types.Basic); ok && bt.Info()&types.IsString != 0 {
					fromstr = true
				}
			}
			if len(c.Args) == 1 {
				return fmt.Sprintf("%s OpChangeType %s", dst, fs.operands(c.Args[0]))
			}
			b = fmt.Sprintf("(BAppend %s %v)", s.zero(el), fromstr)
		case "copy":
			fromstr := false
			if bt, ok := under(c.Args[1].Type()).(*types.Basic); ok && bt.Info()&types.IsString != 0 {
				fromstr = true
			}
			b = fmt.Sprintf("(BCopy %v)", fromstr)
		case "min":
			b = "(BMin " + okind(c.Args[0].Type()) + ")"
		case "max":
			b = "(BMax " + okind(c.Args[0].Type()) + ")"
		case "delete":
			b = "BDelete"
		case "clear":
			if _, ok := under(c.Args[0].Type()).(*types.Map); ok {
				b = "BClearMap"
			} else {
				b = "(BClearSlice " + s.zero(under(c.Args[0].Type()).(*types.Slice).Elem()) + ")"
			}
		case "ssa:wrapnilchk":
			b = "BWrapNilChk"
		default:
			panic(unsupported{"builtin " + name})
		}
		return fmt.Sprintf("bi %s %s %s", dst[2:], b, fs.operands(c.Args...))
	case *ir.Function:
		if fn.Signature.Recv() != nil {
			s.Kinds[kind+":static-method"]++
		} else if fn.Blocks == nil {
			s.Kinds[kind+":extern"]++
		} else {
			s.Kinds[kind+":static"]++
		}
		return emit(fmt.Sprintf("(CStatic %d)", s.addFunc(fn)), c.Args...)
	case *ir.MakeClosure:
		s.Kinds[kind+":closure"]++
	default:
		s.Kinds[kind+":dynamic"]++
	}
	return emit("CValue", append([]ir.Value{c.Value}, c.Args...)...)
}

func (s *Ser) function(f *ir.Function) string {
	fs := &fser{s: s, f: f, regs: map[ir.Value]int{}}
	var params, fvs []string
	for _, p := range f.Params {
		params = append(params, fmt.Sprint(fs.reg(p)))
	}
	for _, p := range f.FreeVars {
		fvs = append(fvs, fmt.Sprint(fs.reg(p)))
	}
	plist := func(l []string) string {
		if len(l) == 0 {
			return "[]"
		}
		return "[" + strings.Join(l, ";") + "]%positive"
	}
	name := 0
	if f.Blocks == nil {
		name = s.tb.extern(f.Name())
	}
	res := f.Signature.Results()
	var zr []string
	zeroOK := true
	func() {
		defer func() {
			if r := recover(); r != nil {
				if _, ok := r.(unsupported); ok {
					zeroOK = false
					return
				}
				panic(r)
			}
		}()
		for i := 0; i < res.Len(); i++ {
			zr = append(zr, s.zero(res.At(i).Type()))
		}
	}()
	if !zeroOK {
		zr = nil
	}
	// number all value-defining instructions in block order first, so that registers are dense and stable
	for _, b := range f.Blocks {
		for _, ins := range b.Instrs {
			if v, ok := ins.(ir.Value); ok {
				fs.reg(v)
			}
		}
	}
	var blocks []string
	for _, b := range f.Blocks {
		var preds, succs []int
		for _, p := range b.Preds {
			preds = append(preds, p.Index)
		}
		for _, p := range b.Succs {
			succs = append(succs, p.Index)
		}
		var code []string
		for _, ins := range b.Instrs {
			if c := fs.instr(ins); c != "" {
				code = append(code, c)
			}
		}
		blocks = append(blocks, fmt.Sprintf("   blk %s %s [\n      %s]", nlist(preds), nlist(succs), strings.Join(code, ";\n      ")))
	}
	rec := "None"
	if f.Recover != nil {
		rec = fmt.Sprintf("(Some %d%%N)", f.Recover.Index)
	}
	return fmt.Sprintf("  (* %d: %s *)\n  mkFunc %d %s %s %d [%s] [\n%s] %s", s.fidx[f], strings.ReplaceAll(strings.ReplaceAll(f.String(), "*)", "* )"), "(*", "( *"), name, plist(params), plist(fvs),
		res.Len(), strings.Join(zr, "; "), strings.Join(blocks, ";\n"), rec)
}

// Program serialises all discovered functions (discovery continues while serialising: wrappers etc.).
func (s *Ser) Program(name, pfx string, shared map[string]string, defs *strings.Builder) string {
	var fstr []string
	for i := 0; i < len(s.funcs); i++ {
		text := s.function(s.funcs[i])
		// functions with identical text (across forms) are defined once
		key := text[strings.Index(text, "*)")+2:]
		nm, ok := shared[key]
		if !ok {
			nm = fmt.Sprintf("%sfn_%d", pfx, len(shared))
			shared[key] = nm
			fmt.Fprintf(defs, "Definition %s : func :=\n%s.\n", nm, text)
		}
		fstr = append(fstr, nm)
	}
	var meths []string
	for _, t := range s.concrete {
		ms := s.prog.MethodSets.MethodSet(t)
		for i := 0; i < ms.Len(); i++ {
			sel := ms.At(i)
			fn := s.prog.MethodValue(sel)
			if fn == nil {
				continue
			}
			fi, ok := s.fidx[fn]
			if !ok {
				continue
			}
			meths = append(meths, fmt.Sprintf("(%d, %d, %d)%%N", s.tb.typeID(t), s.tb.methodID(sel.Obj().(*types.Func)), fi))
		}
	}
	return fmt.Sprintf("Definition %s : program := mkProgram [%s]\n  [%s].\n", name, strings.Join(fstr, "; "), strings.Join(meths, "; "))
}
