// Type-driven construction of the ground-truth driver: for a type-checked source file it chooses the
// test functions, draws input vectors, generates driver.go (main + printers + extern functions) and
// parses what the compiled program printed into Gallina expectations.
package main

import (
	"fmt"
	"go/ast"
	"go/types"
	"math/big"
	"sort"
	"strconv"
	"strings"

	"verifharness/hx"
)

// externs available to programs (declared body-less for the IR build, implemented in driver.go)
const externDecls = `package main

func emit(k int, v int)
func emits(k int, s string)
func emitb(k int, b bool)
`

var externOrder = []string{"emit", "emits", "emitb"}

const obsDepth = 6

type Input struct {
	Setup string // Go statements defining the argument variable
	Arg   string // Go expression passed to the function
	Coq   string // Gallina `input`
	IsRef bool
	Type  types.Type
}

type Case struct {
	Fn     int // index of the test function (program function index = Fn+1; 0 is init)
	Inputs []Input
	// filled from the output of the compiled program
	Panic   string // "" | "rt" | obs
	Results []string
	Trace   []string
	Globals []string
	Args    []string
	Seen    bool
}

type drv struct {
	pkg      *types.Package
	qual     types.Qualifier
	rnd      *hx.Rand
	printers map[string]string // type string -> printer function name
	order    []types.Type
	body     strings.Builder
	named    []types.Type // candidate dynamic types for interface printers
}

func (d *drv) tstr(t types.Type) string { return types.TypeString(t, d.qual) }

func (d *drv) printer(t types.Type) string {
	k := d.tstr(t)
	if n, ok := d.printers[k]; ok {
		return n
	}
	n := fmt.Sprintf("pr%d", len(d.printers))
	d.printers[k] = n
	d.order = append(d.order, t)
	return n
}

// supportedValue: can values of this type be printed/constructed by the driver
func supportedObs(t types.Type, seen map[string]bool) bool {
	k := t.String()
	if seen[k] {
		return true
	}
	seen[k] = true
	defer delete(seen, k)
	switch u := t.Underlying().(type) {
	case *types.Basic:
		_, isInt := intKind(t)
		return isInt || u.Info()&(types.IsBoolean|types.IsString) != 0
	case *types.Pointer:
		return supportedObs(u.Elem(), seen)
	case *types.Slice:
		return supportedObs(u.Elem(), seen)
	case *types.Array:
		return supportedObs(u.Elem(), seen)
	case *types.Struct:
		for i := 0; i < u.NumFields(); i++ {
			if u.Field(i).Name() == "_" || !supportedObs(u.Field(i).Type(), seen) {
				return false
			}
		}
		return true
	case *types.Signature:
		return true
	case *types.Interface:
		return true
	case *types.Map:
		kb, ok := u.Key().Underlying().(*types.Basic)
		return ok && kb.Info()&(types.IsInteger|types.IsString|types.IsBoolean) != 0 && supportedObs(u.Elem(), seen)
	}
	return false
}

func (d *drv) genPrinters() {
	for i := 0; i < len(d.order); i++ {
		t := d.order[i]
		name := d.printers[d.tstr(t)]
		ts := d.tstr(t)
		w := &d.body
		fmt.Fprintf(w, "func %s(v %s, d int) {\n\tif d == 0 {\n\t\tprint(\" x\")\n\t\treturn\n\t}\n", name, ts)
		switch u := t.Underlying().(type) {
		case *types.Basic:
			if k, ok := intKind(t); ok {
				if strings.Contains(k, "true") {
					fmt.Fprintf(w, "\tprint(\" i\", int64(v))\n")
				} else {
					fmt.Fprintf(w, "\tprint(\" i\", uint64(v))\n")
				}
			} else if u.Info()&types.IsBoolean != 0 {
				fmt.Fprintf(w, "\tif v {\n\t\tprint(\" b1\")\n\t} else {\n\t\tprint(\" b0\")\n\t}\n")
			} else {
				fmt.Fprintf(w, "\tprint(\" s\")\n\tprhex(string(v))\n")
			}
		case *types.Pointer:
			fmt.Fprintf(w, "\tif v == nil {\n\t\tprint(\" n\")\n\t\treturn\n\t}\n\tprint(\" &\")\n\t%s(*v, d-1)\n", d.printer(u.Elem()))
		case *types.Slice:
			fmt.Fprintf(w, "\tif v == nil {\n\t\tprint(\" n\")\n\t\treturn\n\t}\n\tprint(\" [\")\n\tfor i := range v {\n\t\t%s(v[i], d-1)\n\t}\n\tprint(\" ]\")\n", d.printer(u.Elem()))
		case *types.Array:
			fmt.Fprintf(w, "\tprint(\" (\")\n\tfor i := range v {\n\t\t%s(v[i], d-1)\n\t}\n\tprint(\" )\")\n", d.printer(u.Elem()))
		case *types.Struct:
			fmt.Fprintf(w, "\tprint(\" (\")\n")
			for i := 0; i < u.NumFields(); i++ {
				fmt.Fprintf(w, "\t%s(v.%s, d-1)\n", d.printer(u.Field(i).Type()), u.Field(i).Name())
			}
			fmt.Fprintf(w, "\tprint(\" )\")\n")
		case *types.Signature:
			fmt.Fprintf(w, "\tif v == nil {\n\t\tprint(\" n\")\n\t} else {\n\t\tprint(\" f\")\n\t}\n")
		case *types.Interface:
			fmt.Fprintf(w, "\tif v == nil {\n\t\tprint(\" n\")\n\t\treturn\n\t}\n\tswitch x := any(v).(type) {\n")
			for _, c := range d.named {
				if !types.Implements(c, u) && !(types.IsInterface(c)) {
					continue
				}
				if types.IsInterface(c) {
					continue
				}
				fmt.Fprintf(w, "\tcase %s:\n\t\tprint(\" I\")\n\t\tprhex(%q)\n\t\t%s(x, d-1)\n", d.tstr(c), types.TypeString(c, nil), d.printer(c))
			}
			fmt.Fprintf(w, "\tdefault:\n\t\t_ = x\n\t\tprint(\" I? x\")\n\t}\n")
		case *types.Map:
			kp, vp := d.printer(u.Key()), d.printer(u.Elem())
			fmt.Fprintf(w, "\tif v == nil {\n\t\tprint(\" n\")\n\t\treturn\n\t}\n")
			fmt.Fprintf(w, "\tvar ks []%s\n\tfor k := range v {\n\t\tks = append(ks, k)\n\t}\n", d.tstr(u.Key()))
			less := "ks[j] < ks[j-1]"
			if kb := u.Key().Underlying().(*types.Basic); kb.Info()&types.IsBoolean != 0 {
				less = "!ks[j] && ks[j-1]"
			}
			fmt.Fprintf(w, "\tfor i := 1; i < len(ks); i++ {\n\t\tfor j := i; j > 0 && %s; j-- {\n\t\t\tks[j], ks[j-1] = ks[j-1], ks[j]\n\t\t}\n\t}\n", less)
			fmt.Fprintf(w, "\tprint(\" {\")\n\tfor _, k := range ks {\n\t\t%s(k, d-1)\n\t\t%s(v[k], d-1)\n\t}\n\tprint(\" }\")\n", kp, vp)
		default:
			fmt.Fprintf(w, "\tprint(\" x\")\n")
		}
		fmt.Fprintf(w, "}\n\n")
	}
}

// ---------------------------------------------------------------- inputs

var intPool = []int64{0, 1, 2, 3, 4, 5, 7, 8, -1, -2, -3, -7, 9, 10, 13, 100, 127, 128, 255, 256, -128, -129, 1000, 65535, 1 << 31, -(1 << 31), 1<<63 - 1, -(1 << 63)}

func intRange(t types.Type) (lo, hi *big.Int) {
	k, _ := intKind(t)
	signed := strings.Contains(k, "true")
	bits := 64
	fmt.Sscanf(k[strings.LastIndex(k, " ")+1:], "%d)", &bits)
	one := big.NewInt(1)
	if signed {
		hi = new(big.Int).Sub(new(big.Int).Lsh(one, uint(bits-1)), one)
		lo = new(big.Int).Neg(new(big.Int).Lsh(one, uint(bits-1)))
	} else {
		lo = big.NewInt(0)
		hi = new(big.Int).Sub(new(big.Int).Lsh(one, uint(bits)), one)
	}
	return
}

var strPool = []string{"", "a", "ab", "abc", "hello", "zz", "Az09", "h\u00e9llo", "\u65e5\u672c", "a\xffb", "\xf0\x9f\x98\x80!"}

func goStrLit(s string) string {
	var sb strings.Builder
	sb.WriteString("\"")
	for i := 0; i < len(s); i++ {
		c := s[i]
		if c >= 32 && c < 127 && c != '"' && c != '\\' {
			sb.WriteByte(c)
		} else {
			fmt.Fprintf(&sb, "\\x%02x", c)
		}
	}
	sb.WriteString("\"")
	return sb.String()
}

// value draws a value of (value) type t: Go expression and Gallina value
func (d *drv) value(t types.Type, small bool) (string, string, bool) {
	ts := d.tstr(t)
	switch u := t.Underlying().(type) {
	case *types.Basic:
		if _, ok := intKind(t); ok {
			lo, hi := intRange(t)
			for {
				pool := intPool
				if small {
					pool = intPool[:12]
				}
				v := big.NewInt(pool[d.rnd.Intn(len(pool))])
				if v.Cmp(lo) >= 0 && v.Cmp(hi) <= 0 {
					return fmt.Sprintf("%s(%s)", ts, v.String()), "(VInt " + zlit(v) + ")", true
				}
			}
		}
		if u.Info()&types.IsBoolean != 0 {
			if d.rnd.Bool() {
				return ts + "(true)", "(VBool true)", true
			}
			return ts + "(false)", "(VBool false)", true
		}
		if u.Info()&types.IsString != 0 {
			s := strPool[d.rnd.Intn(len(strPool))]
			return ts + "(" + goStrLit(s) + ")", "(VStr " + bytesLit([]byte(s)) + ")", true
		}
	case *types.Pointer:
		return "(" + ts + ")(nil)", "(VPtr None)", true
	case *types.Slice:
		return ts + "(nil)", "(VSlice None 0 0 0)", true
	case *types.Map:
		return ts + "(nil)", "(VMap None)", true
	case *types.Signature:
		return "(" + ts + ")(nil)", "VNilFunc", true
	case *types.Interface:
		return ts + "(nil)", "(VIface None)", true
	case *types.Array:
		var gs, cs []string
		for i := int64(0); i < u.Len(); i++ {
			g, c, ok := d.value(u.Elem(), small)
			if !ok {
				return "", "", false
			}
			gs = append(gs, g)
			cs = append(cs, c)
		}
		return ts + "{" + strings.Join(gs, ", ") + "}", "(VAgg [" + strings.Join(cs, "; ") + "])", true
	case *types.Struct:
		var gs, cs []string
		for i := 0; i < u.NumFields(); i++ {
			g, c, ok := d.value(u.Field(i).Type(), small)
			if !ok {
				return "", "", false
			}
			gs = append(gs, u.Field(i).Name()+": "+g)
			cs = append(cs, c)
		}
		return ts + "{" + strings.Join(gs, ", ") + "}", "(VAgg [" + strings.Join(cs, "; ") + "])", true
	}
	return "", "", false
}

func (d *drv) input(t types.Type, name string) (Input, bool) {
	ts := d.tstr(t)
	switch u := t.Underlying().(type) {
	case *types.Pointer:
		if d.rnd.Chance(12) {
			break
		}
		g, c, ok := d.value(u.Elem(), false)
		if !ok {
			return Input{}, false
		}
		return Input{Setup: fmt.Sprintf("\tvar %s %s = new(%s)\n\t*%s = %s\n", name, ts, d.tstr(u.Elem()), name, g), Arg: name,
			Coq: "(InPtr " + c + ")", IsRef: true, Type: t}, true
	case *types.Slice:
		if d.rnd.Chance(12) {
			break
		}
		cp := d.rnd.Intn(6)
		ln := d.rnd.Intn(cp + 1)
		var gs, cs []string
		for i := 0; i < cp; i++ {
			g, c, ok := d.value(u.Elem(), true)
			if !ok {
				return Input{}, false
			}
			gs = append(gs, g)
			cs = append(cs, c)
		}
		return Input{Setup: fmt.Sprintf("\tvar %s %s = %s{%s}[:%d:%d]\n", name, ts, ts, strings.Join(gs, ", "), ln, cp), Arg: name,
			Coq: fmt.Sprintf("(InSlice [%s] %d %d)", strings.Join(cs, "; "), ln, cp), IsRef: true, Type: t}, true
	}
	g, c, ok := d.value(t, false)
	if !ok {
		return Input{}, false
	}
	return Input{Setup: fmt.Sprintf("\tvar %s %s = %s\n", name, ts, g), Arg: name, Coq: "(InVal " + c + ")", Type: t}, true
}

// ---------------------------------------------------------------- driver text

type TestFunc struct {
	Obj *types.Func
	Sig *types.Signature
}

// testFuncs: top-level functions named F<digits>... whose parameters can be constructed and results printed
func testFuncs(pkg *types.Package, file *ast.File, info *types.Info) []TestFunc {
	var res []TestFunc
	for _, dcl := range file.Decls {
		fd, ok := dcl.(*ast.FuncDecl)
		if !ok || fd.Recv != nil || fd.Body == nil || !strings.HasPrefix(fd.Name.Name, "F") || fd.Type.TypeParams != nil {
			continue
		}
		obj := info.Defs[fd.Name].(*types.Func)
		sig := obj.Type().(*types.Signature)
		ok = !sig.Variadic()
		for i := 0; i < sig.Params().Len() && ok; i++ {
			t := sig.Params().At(i).Type()
			switch t.Underlying().(type) {
			case *types.Signature, *types.Interface, *types.Map:
				ok = false
			}
			ok = ok && supportedObs(t, map[string]bool{})
		}
		for i := 0; i < sig.Results().Len() && ok; i++ {
			ok = supportedObs(sig.Results().At(i).Type(), map[string]bool{})
		}
		if ok {
			res = append(res, TestFunc{obj, sig})
		}
	}
	return res
}

func buildDriver(pkg *types.Package, file *ast.File, info *types.Info, src string, tfs []TestFunc, globals []*types.Var,
	ginit map[*types.Var]string, ncases int, rnd *hx.Rand) (string, []Case, bool) {
	d := &drv{pkg: pkg, qual: types.RelativeTo(pkg), rnd: rnd, printers: map[string]string{}}
	// candidate dynamic types: basic types and every named non-interface type of the package (and pointers to them)
	for _, k := range []types.BasicKind{types.Int, types.Int8, types.Int16, types.Int32, types.Int64, types.Uint, types.Uint8, types.Uint16, types.Uint32, types.Uint64, types.Bool, types.String} {
		d.named = append(d.named, types.Typ[k])
	}
	names := pkg.Scope().Names()
	sort.Strings(names)
	for _, n := range names {
		if tn, ok := pkg.Scope().Lookup(n).(*types.TypeName); ok && !tn.IsAlias() {
			if _, isIf := tn.Type().Underlying().(*types.Interface); isIf {
				continue
			}
			if nt, ok := tn.Type().(*types.Named); ok && nt.TypeParams().Len() > 0 {
				continue
			}
			if supportedObs(tn.Type(), map[string]bool{}) {
				d.named = append(d.named, tn.Type(), types.NewPointer(tn.Type()))
			}
		}
	}
	var cases []Case
	var main strings.Builder
	var fns strings.Builder
	for fi, tf := range tfs {
		for c := 0; c < ncases; c++ {
			cs := Case{Fn: fi}
			ok := true
			for i := 0; i < tf.Sig.Params().Len(); i++ {
				in, k := d.input(tf.Sig.Params().At(i).Type(), fmt.Sprintf("a%d", i))
				if !k {
					ok = false
					break
				}
				cs.Inputs = append(cs.Inputs, in)
			}
			if !ok {
				return "", nil, false
			}
			idx := len(cases)
			cases = append(cases, cs)
			fmt.Fprintf(&main, "\tcase%d()\n", idx)
			fmt.Fprintf(&fns, "func case%d() {\n\tprint(\"C %d\\n\")\n\tresetGlobals()\n", idx, idx)
			var args []string
			for _, in := range cs.Inputs {
				fns.WriteString(in.Setup)
				args = append(args, in.Arg)
			}
			fmt.Fprintf(&fns, "\tdefer func() {\n\t\tif r := recover(); r != nil {\n\t\t\tprPanic(r)\n\t\t}\n\t\tprint(\"A\")\n")
			for _, in := range cs.Inputs {
				if in.IsRef {
					arg := in.Arg
					if _, isSl := in.Type.Underlying().(*types.Slice); isSl {
						arg = fmt.Sprintf("%s[:cap(%s)]", in.Arg, in.Arg)
					}
					fmt.Fprintf(&fns, "\t\t%s(%s, %d)\n", d.printer(in.Type), arg, obsDepth)
				}
			}
			fmt.Fprintf(&fns, "\t\tprint(\"\\n\")\n\t\tprGlobals()\n\t}()\n")
			var rs []string
			for i := 0; i < tf.Sig.Results().Len(); i++ {
				rs = append(rs, fmt.Sprintf("r%d", i))
			}
			call := fmt.Sprintf("%s(%s)", tf.Obj.Name(), strings.Join(args, ", "))
			if len(rs) > 0 {
				fmt.Fprintf(&fns, "\t%s := %s\n", strings.Join(rs, ", "), call)
			} else {
				fmt.Fprintf(&fns, "\t%s\n", call)
			}
			fmt.Fprintf(&fns, "\tprint(\"R\")\n")
			for i := range rs {
				fmt.Fprintf(&fns, "\t%s(r%d, %d)\n", d.printer(tf.Sig.Results().At(i).Type()), i, obsDepth)
			}
			fmt.Fprintf(&fns, "\tprint(\"\\n\")\n}\n\n")
		}
	}
	var out strings.Builder
	out.WriteString("package main\n\n")
	out.WriteString("type rtErr interface{ RuntimeError() }\n\n")
	out.WriteString("const hexd = \"0123456789abcdef\"\n\nfunc prhex(s string) {\n\tfor i := 0; i < len(s); i++ {\n\t\tprint(string(hexd[s[i]>>4]), string(hexd[s[i]&15]))\n\t}\n}\n\n")
	anyT := types.NewInterfaceType(nil, nil)
	fmt.Fprintf(&out, "func prPanic(r any) {\n\tif e, ok := r.(rtErr); ok {\n\t\tprint(\"# \", e.(error).Error(), \"\\n\")\n\t\tprint(\"P rt\\n\")\n\t\treturn\n\t}\n\tprint(\"P v\")\n\t%s(r, %d)\n\tprint(\"\\n\")\n}\n\n", d.printer(anyT), obsDepth)
	fmt.Fprintf(&out, "func emit(k int, v int) {\n\tprint(\"E 0\")\n\t%s(k, 2)\n\t%s(v, 2)\n\tprint(\"\\n\")\n}\n\n", d.printer(types.Typ[types.Int]), d.printer(types.Typ[types.Int]))
	fmt.Fprintf(&out, "func emits(k int, s string) {\n\tprint(\"E 1\")\n\t%s(k, 2)\n\t%s(s, 2)\n\tprint(\"\\n\")\n}\n\n", d.printer(types.Typ[types.Int]), d.printer(types.Typ[types.String]))
	fmt.Fprintf(&out, "func emitb(k int, b bool) {\n\tprint(\"E 2\")\n\t%s(k, 2)\n\t%s(b, 2)\n\tprint(\"\\n\")\n}\n\n", d.printer(types.Typ[types.Int]), d.printer(types.Typ[types.Bool]))
	out.WriteString("func prGlobals() {\n\tprint(\"G\")\n")
	for _, g := range globals {
		fmt.Fprintf(&out, "\t%s(%s, %d)\n", d.printer(g.Type()), g.Name(), obsDepth)
	}
	out.WriteString("\tprint(\"\\n\")\n}\n\n")
	out.WriteString("func resetGlobals() {\n")
	for _, g := range globals {
		if e, ok := ginit[g]; ok {
			fmt.Fprintf(&out, "\t%s = %s\n", g.Name(), e)
		} else {
			fmt.Fprintf(&out, "\t{\n\t\tvar z %s\n\t\t%s = z\n\t}\n", d.tstr(g.Type()), g.Name())
		}
	}
	out.WriteString("}\n\n")
	out.WriteString(fns.String())
	d.genPrinters()
	out.WriteString(d.body.String())
	out.WriteString("func main() {\n" + main.String() + "}\n")
	return out.String(), cases, true
}

// ---------------------------------------------------------------- parsing the output

type obsParser struct {
	toks []string
	pos  int
	tb   *Tables
	err  error
}

func unhex(s string) []byte {
	b := make([]byte, len(s)/2)
	for i := range b {
		v, _ := strconv.ParseUint(s[2*i:2*i+2], 16, 8)
		b[i] = byte(v)
	}
	return b
}

func (p *obsParser) obs() string {
	if p.pos >= len(p.toks) {
		p.err = fmt.Errorf("unexpected end")
		return "OX"
	}
	t := p.toks[p.pos]
	p.pos++
	switch {
	case t == "x":
		return "OX"
	case t == "n":
		return "ONil"
	case t == "f":
		return "OFn"
	case t == "b0":
		return "(OB false)"
	case t == "b1":
		return "(OB true)"
	case t[0] == 'i':
		v, ok := new(big.Int).SetString(t[1:], 10)
		if !ok {
			p.err = fmt.Errorf("bad int %q", t)
			return "OX"
		}
		return "(OI " + zlit(v) + ")"
	case t[0] == 's':
		return "(OS " + bytesLit(unhex(t[1:])) + ")"
	case t == "&":
		return "(ORef " + p.obs() + ")"
	case t == "(" || t == "[":
		closer := ")"
		ctor := "OAgg"
		if t == "[" {
			closer, ctor = "]", "OSl"
		}
		var items []string
		for p.pos < len(p.toks) && p.toks[p.pos] != closer {
			items = append(items, p.obs())
		}
		p.pos++
		return "(" + ctor + " [" + strings.Join(items, "; ") + "])"
	case t == "{":
		var items []string
		for p.pos < len(p.toks) && p.toks[p.pos] != "}" {
			k := p.obs()
			v := p.obs()
			items = append(items, "("+k+", "+v+")")
		}
		p.pos++
		return "(OMp [" + strings.Join(items, "; ") + "])"
	case t[0] == 'I':
		if t == "I?" {
			p.err = fmt.Errorf("unknown dynamic type in output")
			p.obs()
			return "OX"
		}
		name := string(unhex(t[1:]))
		id, ok := p.tb.typeIDs[name]
		if !ok {
			// a dynamic type the IR never puts into an interface: allocate an id (it can only mismatch)
			id = -1
			for k, v := range p.tb.typeIDs {
				if k == name {
					id = v
				}
			}
			if id < 0 {
				id = 9999
			}
		}
		return fmt.Sprintf("(OIf %d %s)", id, p.obs())
	}
	p.err = fmt.Errorf("bad token %q", t)
	return "OX"
}

func (p *obsParser) list() []string {
	var res []string
	for p.pos < len(p.toks) && p.err == nil {
		res = append(res, p.obs())
	}
	return res
}

// parseOutput fills the cases from the stderr of the compiled program
func parseOutput(out string, cases []Case, tb *Tables) error {
	cur := -1
	for _, line := range strings.Split(out, "\n") {
		line = strings.TrimSpace(line)
		if line == "" {
			continue
		}
		f := strings.Fields(line)
		p := &obsParser{toks: f[1:], tb: tb}
		switch f[0] {
		case "#":
			continue
		case "C":
			cur, _ = strconv.Atoi(f[1])
			if cur < 0 || cur >= len(cases) {
				return fmt.Errorf("bad case index %q", line)
			}
			cases[cur].Seen = true
		case "E":
			if cur < 0 {
				return fmt.Errorf("event outside case")
			}
			p.pos = 1
			args := p.list()
			cases[cur].Trace = append(cases[cur].Trace, fmt.Sprintf("(%s%%N, [%s])", f[1], strings.Join(args, "; ")))
		case "R":
			cases[cur].Results = p.list()
		case "P":
			if f[1] == "rt" {
				cases[cur].Panic = "PRt"
			} else {
				p.pos = 1
				cases[cur].Panic = "(PVal " + p.obs() + ")"
			}
		case "A":
			cases[cur].Args = p.list()
		case "G":
			cases[cur].Globals = p.list()
		default:
			return fmt.Errorf("unexpected output line %q", line)
		}
		if p.err != nil {
			return fmt.Errorf("%v in line %q", p.err, line)
		}
	}
	for i := range cases {
		if !cases[i].Seen {
			return fmt.Errorf("case %d not executed", i)
		}
	}
	return nil
}

func (c *Case) Coq() string {
	var ins []string
	for _, in := range c.Inputs {
		ins = append(ins, in.Coq)
	}
	pan := c.Panic
	if pan == "" {
		pan = "PNone"
	}
	return fmt.Sprintf("mkCase %d [%s] (mkExpect %s [%s] [%s] [%s] [%s])", c.Fn+1, strings.Join(ins, "; "), pan,
		strings.Join(c.Results, "; "), strings.Join(c.Trace, "; "), strings.Join(c.Globals, "; "), strings.Join(c.Args, "; "))
}
