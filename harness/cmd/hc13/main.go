// hc13: drives analysis/dfa/dense.Forward and analysis/dfa's MapLattice / DenseMapLattice through their
// exported generic API on random flow graphs x transfer families x entry maps, and (sparse.go) the sparse
// solver on real ir.Functions. Output: JSON consumed by checks/C13.py (which writes the Coq case files).
package main

import (
	"flag"
	"fmt"
	"iter"
	"os"
	"sort"

	"honnef.co/go/tools/analysis/dfa"
	"honnef.co/go/tools/analysis/dfa/dense"
	"honnef.co/go/tools/analysis/facts/nilness"
	"verifharness/hx"
)

// ---------------------------------------------------------------- graphs

// gr is a digraph over node ids that need not be 0..n-1 (exercises graph.Compact): node k has id ids[k].
type gr[ID comparable] struct {
	ids   []ID
	succs [][]int // compact indices, Out() order, multi-edges allowed
	index map[ID]int
}

func (g *gr[ID]) NumNodes() int { return len(g.ids) }
func (g *gr[ID]) Nodes() iter.Seq[ID] {
	return func(yield func(ID) bool) {
		for _, id := range g.ids {
			if !yield(id) {
				return
			}
		}
	}
}
func (g *gr[ID]) Out(id ID) iter.Seq[ID] {
	return func(yield func(ID) bool) {
		for _, s := range g.succs[g.index[id]] {
			if !yield(g.ids[s]) {
				return
			}
		}
	}
}

func genSuccs(r *hx.Rand) [][]int {
	n := 1 + r.Intn(12)
	succs := make([][]int, n)
	add := func(a, b int) { succs[a] = append(succs[a], b) }
	switch r.Intn(7) {
	case 0: // chain with skips
		for i := 0; i+1 < n; i++ {
			add(i, i+1)
			if i+2 < n && r.Chance(30) {
				add(i, i+2)
			}
		}
	case 1: // diamonds
		for i := 0; i+3 < n; i += 3 {
			add(i, i+1)
			add(i, i+2)
			add(i+1, i+3)
			add(i+2, i+3)
		}
	case 2: // nested loops: chain plus back edges
		for i := 0; i+1 < n; i++ {
			add(i, i+1)
		}
		for k := 0; k < 1+r.Intn(3); k++ {
			a, b := r.Intn(n), r.Intn(n)
			if a < b {
				a, b = b, a
			}
			add(a, b)
		}
	case 3: // irreducible: entry branches into both nodes of a 2-cycle (repeated)
		for i := 0; i+2 < n; i += 3 {
			add(i, i+1)
			add(i, i+2)
			add(i+1, i+2)
			add(i+2, i+1)
			if i+3 < n {
				add(i+1+r.Intn(2), i+3)
			}
		}
	case 4: // sparse random
		for k := 0; k < n+r.Intn(n+1); k++ {
			add(r.Intn(n), r.Intn(n))
		}
	case 5: // dense random
		for a := 0; a < n; a++ {
			for b := 0; b < n; b++ {
				if r.Chance(25) {
					add(a, b)
				}
			}
		}
	case 6: // cycles without any entry + a separate reachable part + isolated nodes
		h := n / 2
		for i := 0; i < h; i++ {
			add(i, (i+1)%h)
		}
		for i := h; i+1 < n; i++ {
			if r.Chance(70) {
				add(i, i+1)
			}
		}
		if h > 0 && h < n && r.Chance(50) {
			add(n-1, r.Intn(h))
		}
	}
	// extras: self loops, duplicated edges (multi-edges), random extra edges
	for a := 0; a < n; a++ {
		if r.Chance(12) {
			add(a, a)
		}
		if len(succs[a]) > 0 && r.Chance(15) {
			add(a, succs[a][r.Intn(len(succs[a]))])
		}
		if r.Chance(10) {
			add(a, r.Intn(n))
		}
	}
	return succs
}

func hasPreds(succs [][]int) []bool {
	hp := make([]bool, len(succs))
	for _, ss := range succs {
		for _, s := range ss {
			hp[s] = true
		}
	}
	return hp
}

// entryNodes picks nodes that get an entry fact: pred-less nodes with high probability, and sometimes
// nodes WITH predecessors (whose entry fact the solver must ignore).
func entryNodes(r *hx.Rand, succs [][]int) []int {
	hp := hasPreds(succs)
	var res []int
	for b := range succs {
		if (!hp[b] && r.Chance(70)) || (hp[b] && r.Chance(15)) {
			res = append(res, b)
		}
	}
	return res
}

const budget = 200000

type diverged struct{}

// solve runs dense.Forward with either int ids (identity or shuffled, sparse numbering) or string ids.
func solve[L dfa.Semilattice[Fact], Fact any](r *hx.Rand, succs [][]int, entry map[int]Fact,
	transfer func(from, to int, f Fact) Fact) (ins []Fact, outs [][]Fact, div bool) {
	n := len(succs)
	calls := 0
	defer func() {
		if e := recover(); e != nil {
			if _, ok := e.(diverged); ok {
				ins, outs, div = nil, nil, true
				return
			}
			panic(e)
		}
	}()
	count := func() {
		calls++
		if calls > budget {
			panic(diverged{})
		}
	}
	switch r.Intn(3) {
	case 0, 1:
		ids := make([]int, n)
		for k := range ids {
			ids[k] = k
		}
		if r.Bool() { // shuffled, non-contiguous ids: Compact must build a real index
			for k := range ids {
				j := k + r.Intn(n-k)
				ids[k], ids[j] = ids[j], ids[k]
			}
			for k := range ids {
				ids[k] = ids[k]*3 + 5
			}
		}
		g := &gr[int]{ids: ids, succs: succs, index: map[int]int{}}
		for k, id := range ids {
			g.index[id] = k
		}
		em := map[int]Fact{}
		for b, f := range entry {
			em[ids[b]] = f
		}
		a := dense.Forward[L](g, em, func(from, to int, f Fact) Fact {
			count()
			return transfer(g.index[from], g.index[to], f)
		})
		for b := 0; b < n; b++ {
			ins = append(ins, a.In(ids[b]))
			var o []Fact
			for _, s := range succs[b] {
				o = append(o, a.Edge(ids[b], ids[s]))
			}
			outs = append(outs, o)
		}
	default:
		ids := make([]string, n)
		for k := range ids {
			ids[k] = fmt.Sprintf("n%d", (k*7+3)%97)
		}
		g := &gr[string]{ids: ids, succs: succs, index: map[string]int{}}
		for k, id := range ids {
			g.index[id] = k
		}
		em := map[string]Fact{}
		for b, f := range entry {
			em[ids[b]] = f
		}
		a := dense.Forward[L](g, em, func(from, to string, f Fact) Fact {
			count()
			return transfer(g.index[from], g.index[to], f)
		})
		for b := 0; b < n; b++ {
			ins = append(ins, a.In(ids[b]))
			var o []Fact
			for _, s := range succs[b] {
				o = append(o, a.Edge(ids[b], ids[s]))
			}
			outs = append(outs, o)
		}
	}
	return
}

// ---------------------------------------------------------------- family A: gen/kill bitsets
type bits uint64
type bitsL struct{}

func (bitsL) Ident() bits          { return 0 }
func (bitsL) Equals(a, b bits) bool { return a == b }
func (bitsL) Merge(a, b bits) bits  { return a | b }

type CaseA struct {
	Succs    [][]int
	Entry    [][2]uint64 // node, fact
	Tr       [][][2]uint64 // per node per out index: gen, kill
	In       []uint64
	Out      [][]uint64
	Diverged bool
}

func genA(r *hx.Rand) CaseA {
	succs := genSuccs(r)
	c := CaseA{Succs: succs}
	w := uint(1 + r.Intn(10))
	rb := func(p int) uint64 {
		var x uint64
		for i := uint(0); i < w; i++ {
			if r.Chance(p) {
				x |= 1 << i
			}
		}
		return x
	}
	type key [2]int
	tr := map[key][2]uint64{}
	c.Tr = make([][][2]uint64, len(succs))
	for a, ss := range succs {
		c.Tr[a] = [][2]uint64{}
		for _, s := range ss {
			k := key{a, s}
			if _, ok := tr[k]; !ok {
				tr[k] = [2]uint64{rb(20), rb(25)}
			}
			c.Tr[a] = append(c.Tr[a], tr[k])
		}
	}
	entry := map[int]bits{}
	for _, b := range entryNodes(r, succs) {
		f := rb(40)
		entry[b] = bits(f)
		c.Entry = append(c.Entry, [2]uint64{uint64(b), f})
	}
	ins, outs, div := solve[bitsL](r, succs, entry, func(from, to int, f bits) bits {
		d := tr[key{from, to}]
		return (f &^ bits(d[1])) | bits(d[0])
	})
	c.Diverged = div
	for _, x := range ins {
		c.In = append(c.In, uint64(x))
	}
	for _, o := range outs {
		row := []uint64{}
		for _, x := range o {
			row = append(row, uint64(x))
		}
		c.Out = append(c.Out, row)
	}
	return c
}

// ---------------------------------------------------------------- family B: constant propagation over dfa.MapLattice
type flat uint8
type flatL struct{}

const flatTop flat = 255

func (flatL) Ident() flat          { return 0 }
func (flatL) Equals(a, b flat) bool { return a == b }
func (flatL) Merge(a, b flat) flat {
	switch {
	case a == 0:
		return b
	case b == 0:
		return a
	case a == b:
		return a
	}
	return flatTop
}

type OpB struct {
	Dst  int
	Kind string // const | copy | inc
	Arg  int
}
type KV struct{ K, V int }
type CaseB struct {
	Succs    [][]int
	Entry    []struct {
		Node int
		Fact []KV
	}
	Tr       [][][]OpB
	In       [][]KV
	Out      [][][]KV
	Diverged bool
}

func mapKV(m map[int]flat) []KV {
	res := []KV{}
	for k, v := range m {
		res = append(res, KV{k, int(v)})
	}
	sort.Slice(res, func(i, j int) bool { return res[i].K < res[j].K })
	return res
}

func flatInc(x flat) flat {
	if x == 0 || x == flatTop {
		return x
	}
	return x%5 + 1
}

func applyB(ops []OpB, in map[int]flat) map[int]flat {
	m := map[int]flat{}
	for k, v := range in {
		m[k] = v
	}
	for _, o := range ops {
		var v flat
		switch o.Kind {
		case "const":
			v = flat(o.Arg)
		case "copy":
			v = m[o.Arg]
		case "inc":
			v = flatInc(m[o.Arg])
		}
		if v == 0 {
			delete(m, o.Dst) // the identity element never appears as a value in the map
		} else {
			m[o.Dst] = v
		}
	}
	if len(m) == 0 {
		return nil
	}
	return m
}

func genOpsB(r *hx.Rand, nv int) []OpB {
	ops := []OpB{}
	for k := 0; k < r.Intn(4); k++ {
		o := OpB{Dst: r.Intn(nv)}
		switch r.Intn(4) {
		case 0:
			o.Kind, o.Arg = "const", r.Intn(6) // 0 = kill (back to bottom)
		case 1:
			o.Kind, o.Arg = "copy", r.Intn(nv)
		default:
			o.Kind, o.Arg = "inc", r.Intn(nv)
		}
		ops = append(ops, o)
	}
	return ops
}

func randMapB(r *hx.Rand, nv int, p int) map[int]flat {
	m := map[int]flat{}
	for k := 0; k < nv; k++ {
		if r.Chance(p) {
			v := flat(1 + r.Intn(5))
			if r.Chance(15) {
				v = flatTop
			}
			m[k] = v
		}
	}
	if len(m) == 0 && r.Bool() {
		return nil
	}
	return m
}

func genB(r *hx.Rand) CaseB {
	succs := genSuccs(r)
	c := CaseB{Succs: succs}
	nv := 1 + r.Intn(5)
	type key [2]int
	tr := map[key][]OpB{}
	c.Tr = make([][][]OpB, len(succs))
	for a, ss := range succs {
		c.Tr[a] = [][]OpB{}
		for _, s := range ss {
			k := key{a, s}
			if _, ok := tr[k]; !ok {
				tr[k] = genOpsB(r, nv)
			}
			c.Tr[a] = append(c.Tr[a], tr[k])
		}
	}
	entry := map[int]map[int]flat{}
	for _, b := range entryNodes(r, succs) {
		f := randMapB(r, nv, 50)
		entry[b] = f
		c.Entry = append(c.Entry, struct {
			Node int
			Fact []KV
		}{b, mapKV(f)})
	}
	ins, outs, div := solve[dfa.MapLattice[int, flat, flatL]](r, succs, entry, func(from, to int, f map[int]flat) map[int]flat {
		return applyB(tr[key{from, to}], f)
	})
	c.Diverged = div
	for _, x := range ins {
		c.In = append(c.In, mapKV(x))
	}
	for _, o := range outs {
		row := [][]KV{}
		for _, x := range o {
			row = append(row, mapKV(x))
		}
		c.Out = append(c.Out, row)
	}
	return c
}

// ---------------------------------------------------------------- family C: the real nilness lattice over dfa.DenseMapLattice
type VN = nilness.ValueNilness
type denseNil = dfa.DenseMapLattice[VN, nilness.VerifLattice]

type OpC struct {
	Dst  int
	Kind string // set | outer | inner | copy
	A, B int    // set: inner, outer; outer/inner: value; copy: src
}
type CaseC struct {
	Succs    [][]int
	Entry    []struct {
		Node int
		Fact [][2]int
	}
	Tr       [][][]OpC
	In       [][][2]int
	Out      [][][][2]int
	Diverged bool
}

func vnList(s []VN) [][2]int {
	res := [][2]int{}
	for _, v := range s {
		res = append(res, [2]int{int(v.Inner), int(v.Outer)})
	}
	return res
}

func dsetC(m []VN, k int, v VN) []VN {
	for len(m) <= k {
		m = append(m, VN{})
	}
	m[k] = v
	return m
}
func dgetC(m []VN, k int) VN {
	if k < len(m) {
		return m[k]
	}
	return VN{}
}

func applyC(ops []OpC, in []VN) []VN {
	m := append([]VN(nil), in...)
	for _, o := range ops {
		switch o.Kind {
		case "set":
			m = dsetC(m, o.Dst, VN{Inner: nilness.Nilness(o.A), Outer: nilness.Nilness(o.B)})
		case "outer":
			v := dgetC(m, o.Dst)
			v.Outer = nilness.Nilness(o.A)
			m = dsetC(m, o.Dst, v)
		case "inner":
			v := dgetC(m, o.Dst)
			v.Inner = nilness.Nilness(o.A)
			m = dsetC(m, o.Dst, v)
		case "copy":
			m = dsetC(m, o.Dst, dgetC(m, o.A))
		}
	}
	return m
}

func genOpsC(r *hx.Rand, nv int) []OpC {
	ops := []OpC{}
	for k := 0; k < r.Intn(4); k++ {
		o := OpC{Dst: r.Intn(nv)}
		switch r.Intn(5) {
		case 0:
			o.Kind, o.A, o.B = "set", r.Intn(5), r.Intn(5)
		case 1:
			o.Kind, o.A = "outer", r.Intn(5)
		case 2:
			o.Kind, o.A = "inner", r.Intn(5)
		default:
			o.Kind, o.A = "copy", r.Intn(nv)
		}
		ops = append(ops, o)
	}
	return ops
}

func randVNs(r *hx.Rand, nv int) []VN {
	var m []VN
	l := r.Intn(nv + 2)
	for k := 0; k < l; k++ {
		if r.Chance(30) {
			m = append(m, VN{})
		} else {
			m = append(m, VN{Inner: nilness.Nilness(r.Intn(5)), Outer: nilness.Nilness(r.Intn(5))})
		}
	}
	return m
}

func genC(r *hx.Rand) CaseC {
	succs := genSuccs(r)
	c := CaseC{Succs: succs}
	nv := 1 + r.Intn(5)
	type key [2]int
	tr := map[key][]OpC{}
	c.Tr = make([][][]OpC, len(succs))
	for a, ss := range succs {
		c.Tr[a] = [][]OpC{}
		for _, s := range ss {
			k := key{a, s}
			if _, ok := tr[k]; !ok {
				tr[k] = genOpsC(r, nv)
			}
			c.Tr[a] = append(c.Tr[a], tr[k])
		}
	}
	entry := map[int][]VN{}
	for _, b := range entryNodes(r, succs) {
		f := randVNs(r, nv)
		entry[b] = f
		c.Entry = append(c.Entry, struct {
			Node int
			Fact [][2]int
		}{b, vnList(f)})
	}
	ins, outs, div := solve[denseNil](r, succs, entry, func(from, to int, f []VN) []VN {
		return applyC(tr[key{from, to}], f)
	})
	c.Diverged = div
	for _, x := range ins {
		c.In = append(c.In, vnList(x))
	}
	for _, o := range outs {
		row := [][][2]int{}
		for _, x := range o {
			row = append(row, vnList(x))
		}
		c.Out = append(c.Out, row)
	}
	return c
}

// ---------------------------------------------------------------- lattice laws through Merge / Equals
type LawMap struct {
	A, B, C                          []KV
	AB, BA, A_BC, AB_C, AA, AId, IdA []KV
	EqAB, EqComm, EqAssoc, EqIdem, EqIdent, EqIdentL, EqAC, EqBC bool
	Panic                            string
}
type LawDense struct {
	A, B, C                          [][2]int
	AB, BA, A_BC, AB_C, AA, AId, IdA [][2]int
	EqAB, EqComm, EqAssoc, EqIdem, EqIdent, EqIdentL, EqAC, EqBC bool
}

func cloneMap(m map[int]flat) map[int]flat {
	if m == nil {
		return nil
	}
	c := map[int]flat{}
	for k, v := range m {
		c[k] = v
	}
	return c
}

func genLawMap(r *hx.Rand) (res LawMap) {
	var l dfa.MapLattice[int, flat, flatL]
	nv := 1 + r.Intn(5)
	a := randMapB(r, nv, 50)
	b := randMapB(r, nv, 50)
	c := randMapB(r, nv, 50)
	switch r.Intn(4) { // related operands so that Equals is exercised on equal and nearly equal maps
	case 0:
		b = cloneMap(a)
	case 1:
		b = cloneMap(a)
		if b == nil {
			b = map[int]flat{}
		}
		b[r.Intn(nv)] = flat(1 + r.Intn(5))
		c = cloneMap(a)
	case 2:
		c = cloneMap(b)
		if len(c) > 0 {
			for k := range c {
				delete(c, k)
				break
			}
		}
	}
	defer func() {
		if e := recover(); e != nil {
			res.Panic = fmt.Sprint(e)
		}
	}()
	res.A, res.B, res.C = mapKV(a), mapKV(b), mapKV(c)
	ab, ba := l.Merge(a, b), l.Merge(b, a)
	abc1, abc2 := l.Merge(a, l.Merge(b, c)), l.Merge(l.Merge(a, b), c)
	aa, aid, ida := l.Merge(a, a), l.Merge(a, l.Ident()), l.Merge(l.Ident(), a)
	res.AB, res.BA, res.A_BC, res.AB_C, res.AA, res.AId, res.IdA = mapKV(ab), mapKV(ba), mapKV(abc1), mapKV(abc2), mapKV(aa), mapKV(aid), mapKV(ida)
	res.EqAB, res.EqAC, res.EqBC = l.Equals(a, b), l.Equals(a, c), l.Equals(b, c)
	res.EqComm, res.EqAssoc = l.Equals(ab, ba), l.Equals(abc1, abc2)
	res.EqIdem, res.EqIdent, res.EqIdentL = l.Equals(aa, a), l.Equals(aid, a), l.Equals(ida, a)
	return
}

func genLawDense(r *hx.Rand) (res LawDense) {
	var l denseNil
	nv := 1 + r.Intn(5)
	a, b, c := randVNs(r, nv), randVNs(r, nv), randVNs(r, nv)
	pad := func(x []VN) []VN { // same element up to trailing identities
		y := append([]VN(nil), x...)
		for k := 0; k < 1+r.Intn(3); k++ {
			y = append(y, VN{})
		}
		return y
	}
	switch r.Intn(5) {
	case 0:
		b = pad(a)
	case 1:
		b = pad(a)
		c = pad(b)
	case 2: // differs only beyond the shorter length
		b = append(append([]VN(nil), a...), VN{}, VN{Inner: nilness.Nilness(1 + r.Intn(4)), Outer: nilness.Nilness(r.Intn(5))})
		c = append([]VN(nil), a...)
	case 3: // trailing identities then a difference inside the common prefix
		b = pad(a)
		if len(a) > 0 {
			b[r.Intn(len(a))] = VN{Inner: nilness.Nilness(r.Intn(5)), Outer: nilness.Nilness(r.Intn(5))}
		}
	}
	res.A, res.B, res.C = vnList(a), vnList(b), vnList(c)
	ab, ba := l.Merge(a, b), l.Merge(b, a)
	abc1, abc2 := l.Merge(a, l.Merge(b, c)), l.Merge(l.Merge(a, b), c)
	aa, aid, ida := l.Merge(a, a), l.Merge(a, l.Ident()), l.Merge(l.Ident(), a)
	res.AB, res.BA, res.A_BC, res.AB_C, res.AA, res.AId, res.IdA = vnList(ab), vnList(ba), vnList(abc1), vnList(abc2), vnList(aa), vnList(aid), vnList(ida)
	res.EqAB, res.EqAC, res.EqBC = l.Equals(a, b), l.Equals(a, c), l.Equals(b, c)
	res.EqComm, res.EqAssoc = l.Equals(ab, ba), l.Equals(abc1, abc2)
	res.EqIdem, res.EqIdent, res.EqIdentL = l.Equals(aa, a), l.Equals(aid, a), l.Equals(ida, a)
	return
}

type Output struct {
	A         []CaseA
	B         []CaseB
	C         []CaseC
	LawsMap   []LawMap
	LawsDense []LawDense
	Table     [][3]int // a, b, real lattice.Merge on the Outer component (and Inner checked equal)
	Sparse    []SparseCase
	SparseNote string
}

func main() {
	out := flag.String("out", "", "output JSON")
	seed := flag.Uint64("seed", 1, "seed")
	ngraphs := flag.Int("graphs", 240, "graphs per transfer family")
	nlaws := flag.Int("laws", 400, "law triples per lattice")
	nsparse := flag.Int("sparse", 40, "generated functions for the sparse solver (0 = skip)")
	work := flag.String("work", "", "scratch directory for generated modules")
	flag.Parse()
	r := hx.NewRand(*seed)
	var o Output
	ra, rb, rc, rl, rs := r.Fork(), r.Fork(), r.Fork(), r.Fork(), r.Fork()
	for i := 0; i < *ngraphs; i++ {
		o.A = append(o.A, genA(ra))
		o.B = append(o.B, genB(rb))
		o.C = append(o.C, genC(rc))
	}
	for i := 0; i < *nlaws; i++ {
		o.LawsMap = append(o.LawsMap, genLawMap(rl))
		o.LawsDense = append(o.LawsDense, genLawDense(rl))
	}
	var nl nilness.VerifLattice
	for a := 0; a < 5; a++ {
		for b := 0; b < 5; b++ {
			m := nl.Merge(VN{Inner: nilness.Nilness(a), Outer: nilness.Nilness(a)}, VN{Inner: nilness.Nilness(b), Outer: nilness.Nilness(b)})
			if m.Inner != m.Outer {
				fmt.Fprintln(os.Stderr, "lattice.Merge treats Inner and Outer differently")
				os.Exit(2)
			}
			o.Table = append(o.Table, [3]int{a, b, int(m.Outer)})
		}
	}
	if *nsparse > 0 {
		o.Sparse, o.SparseNote = runSparse(rs, *work, *nsparse)
	}
	hx.EmitJSON(*out, o)
}
