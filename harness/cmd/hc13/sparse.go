package main

// Sparse solver tie: analysis/dfa/sparse.Instance.Forward is driven on real ir.Functions (built by the real
// buildir pass from generated Go sources) with a harness transfer function over a bitset lattice that writes
// only the instruction's own value and reads only its operands (the writes_self premise).

import (
	"fmt"
	"hash/fnv"
	"os"
	"path/filepath"
	"sort"
	"sync"

	"golang.org/x/tools/go/analysis"
	"honnef.co/go/tools/analysis/dfa/sparse"
	"honnef.co/go/tools/config"
	"honnef.co/go/tools/go/ir"
	"honnef.co/go/tools/verifhooks"
	"verifharness/hx"
)

type SDesc struct {
	Kind      string // none | gen | copy
	Gen, Kill uint64
}
type SInstr struct {
	Ops  []int
	Phi  bool
	Desc SDesc
}
type SparseCase struct {
	Name     string
	Instrs   []SInstr
	Ext      [][2]uint64
	Impl     [][2]uint64
	Diverged bool
}

func sparseOne(seed uint64, fn *ir.Function) (c SparseCase) {
	h := fnv.New64a()
	h.Write([]byte(fn.String()))
	r := hx.NewRand(seed ^ h.Sum64())
	instrs, sk, exts := hx.SparseSkeleton(fn)
	c.Name = fn.String()
	idx := map[ir.Instruction]int{}
	for i, in := range instrs {
		idx[in] = i
	}
	rb := func(p int) uint64 {
		var x uint64
		for i := uint(0); i < 8; i++ {
			if r.Chance(p) {
				x |= 1 << i
			}
		}
		return x
	}
	// operand values per instruction, in skeleton order
	opVals := make([][]ir.Value, len(instrs))
	var ops []*ir.Value
	for i, in := range instrs {
		if phi, ok := in.(*ir.Phi); ok {
			opVals[i] = append(opVals[i], phi.Edges...)
			continue
		}
		ops = in.Operands(ops[:0])
		for _, p := range ops {
			if *p != nil {
				opVals[i] = append(opVals[i], *p)
			}
		}
	}
	c.Instrs = make([]SInstr, len(instrs))
	for i, in := range instrs {
		c.Instrs[i] = SInstr{Ops: sk[i].Ops, Phi: sk[i].Phi, Desc: SDesc{Kind: "none"}}
		if _, ok := in.(ir.Value); !ok || sk[i].Phi {
			continue
		}
		switch k := r.Intn(12); {
		case k < 4:
			c.Instrs[i].Desc = SDesc{Kind: "gen", Gen: rb(15), Kill: rb(20)}
		case k < 7 && len(sk[i].Ops) > 0:
			c.Instrs[i].Desc = SDesc{Kind: "copy"}
		case k < 10 && len(sk[i].Ops) > 0:
			// the usual idiom: nothing to say while every input is still bottom
			c.Instrs[i].Desc = SDesc{Kind: "lazy", Gen: rb(15), Kill: rb(20)}
		}
	}
	// loop-carried values that are bottom on loop entry and become non-bottom only through the back edge, read by
	// transfer functions that say nothing while their inputs are bottom (one step: a user of the phi; two steps: a
	// user of a copy of the phi)
	for i := range instrs {
		if !sk[i].Phi {
			continue
		}
		for _, o := range sk[i].Ops {
			if o > i && o < len(instrs) && !sk[o].Phi {
				if _, ok := instrs[o].(ir.Value); ok && r.Chance(70) {
					c.Instrs[o].Desc = SDesc{Kind: "gen", Gen: rb(15) | 1<<uint(r.Intn(8)), Kill: rb(20)}
				}
			}
		}
	}
	for i, in := range instrs {
		if _, ok := in.(ir.Value); !ok || sk[i].Phi {
			continue
		}
		for _, o := range sk[i].Ops {
			if o < len(instrs) && sk[o].Phi && c.Instrs[i].Desc.Kind != "gen" && r.Chance(60) {
				if r.Chance(70) {
					c.Instrs[i].Desc = SDesc{Kind: "lazy", Gen: rb(15), Kill: rb(20)}
				} else {
					c.Instrs[i].Desc = SDesc{Kind: "copy"}
				}
			}
		}
	}
	ins := &sparse.Instance[bitsL, bits]{Mapping: map[ir.Value]sparse.Mapping[bits]{}}
	for k, v := range exts {
		if r.Chance(30) {
			b := rb(30)
			if b != 0 {
				ins.Set(v, bits(b))
				c.Ext = append(c.Ext, [2]uint64{uint64(len(instrs) + k), b})
			}
		}
	}
	calls := 0
	ins.Transfer = func(ins *sparse.Instance[bitsL, bits], in ir.Instruction) []sparse.Mapping[bits] {
		calls++
		if calls > budget {
			panic(diverged{})
		}
		i := idx[in]
		v, ok := in.(ir.Value)
		if !ok {
			return nil
		}
		switch d := c.Instrs[i].Desc; d.Kind {
		case "gen":
			var u bits
			for _, o := range opVals[i] {
				u |= ins.Value(o)
			}
			return []sparse.Mapping[bits]{{Value: v, State: bits(d.Gen) | (u &^ bits(d.Kill))}}
		case "copy":
			return []sparse.Mapping[bits]{{Value: v, State: ins.Value(opVals[i][0])}}
		case "lazy":
			var u bits
			for _, o := range opVals[i] {
				u |= ins.Value(o)
			}
			if u == 0 {
				return nil
			}
			return []sparse.Mapping[bits]{{Value: v, State: bits(d.Gen) | (u &^ bits(d.Kill))}}
		}
		return nil
	}
	func() {
		defer func() {
			if e := recover(); e != nil {
				if _, ok := e.(diverged); ok {
					c.Diverged = true
					return
				}
				panic(e)
			}
		}()
		ins.Forward(fn)
	}()
	for i, in := range instrs {
		if v, ok := in.(ir.Value); ok {
			if m, ok := ins.Mapping[v]; ok && m.State != 0 {
				c.Impl = append(c.Impl, [2]uint64{uint64(i), uint64(m.State)})
			}
		}
	}
	return
}

func runSparse(r *hx.Rand, work string, n int) ([]SparseCase, string) {
	dir := filepath.Join(work, "sparsemod")
	hx.GenNilModule(r.Fork(), dir, (n+1)/2, (n+1)/2)
	seed := r.Uint64()
	var mu sync.Mutex
	var cases []SparseCase
	an := &analysis.Analyzer{
		Name:     "verifsparse",
		Doc:      "drives the sparse solver",
		Requires: []*analysis.Analyzer{verifhooks.BuildIR},
		Run: func(pass *analysis.Pass) (any, error) {
			if pass.Pkg.Path() != "example.com/nilgen/a" && pass.Pkg.Path() != "example.com/nilgen/b" {
				return nil, nil
			}
			irp := pass.ResultOf[verifhooks.BuildIR].(*verifhooks.IR)
			for _, fn := range irp.SrcFuncs {
				if fn.Blocks == nil {
					continue
				}
				c := sparseOne(seed, fn)
				mu.Lock()
				cases = append(cases, c)
				mu.Unlock()
			}
			return nil, nil
		},
	}
	res, err := hx.RunAnalyzers(dir, filepath.Join(work, "sparsecache"), "module", config.DefaultConfig, []*analysis.Analyzer{an}, nil, "./a", "./b")
	if err != nil {
		fmt.Fprintln(os.Stderr, "sparse: run failed:", err)
		os.Exit(2)
	}
	for _, x := range res {
		if x.Failed {
			fmt.Fprintln(os.Stderr, "sparse: package failed:", x.Errors)
			os.Exit(2)
		}
	}
	sort.Slice(cases, func(i, j int) bool { return cases[i].Name < cases[j].Name })
	return cases, "sparse.Instance.Forward on real ir.Functions built by buildir from generated sources; referrers are the IR's own Referrers() lists, the model derives them from operands"
}
