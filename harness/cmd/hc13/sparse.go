package main

import "verifharness/hx"

type SparseCase struct{}

func runSparse(r *hx.Rand, work string, n int) ([]SparseCase, string) { return nil, "not built yet" }
