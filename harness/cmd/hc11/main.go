// hc11: drives check selection (filterAnalyzerNames), list.Set, config merging (Config.Merge, config.Load on
// real staticcheck.conf trees) and the exit-status / formatter part of printDiagnostics in-process through the
// verif hook of lintcmd, and the real staticcheck binary black-box on a generated module with
// staticcheck.conf files for combinations of -checks / -fail / -f / -show-ignored.
// Output: JSON, one record per case with the inputs and everything the implementation was observed to do.
package main

import (
	"bytes"
	"encoding/json"
	"flag"
	"fmt"
	"net/url"
	"os"
	"os/exec"
	"path/filepath"
	"regexp"
	"sort"
	"strconv"
	"strings"
	"sync"

	"honnef.co/go/tools/config"
	"honnef.co/go/tools/lintcmd"
	"verifharness/hx"
)

type Rendered struct {
	File      string
	Line, Col int
	Cat, Msg  string
	Sev       string `json:",omitempty"` // json formatter only
}

type Problem struct {
	File      string
	Line, Col int
	Cat, Msg  string
	Ignored   bool
}

type KV struct {
	K string
	V bool
}

type Pkg struct {
	Kind     string // cone cases: named | faileddep | cleandep
	Dir      string
	Chain    [][]string // outermost first; HasChain[i] false = no checks key at that level
	HasChain []bool
	Problems []Problem
}

type Case struct {
	T string // filter | parse | merge | load | loadbad | exit | cli | cone

	All, Sel []string // filter (raw, mixed case); All also for load/exit/cli
	Map      []KV     // filter: observed map

	S         string   // parse
	Parsed    []string // parse
	ParsedNil bool

	Default   []string   // merge/load
	Chain     [][]string // merge/load, outermost first
	HasChain  []bool
	Cli       []string
	HasCli    bool
	Effective []string // merge/load: observed
	ConfKinds []string // loadbad: per level absent | ok | syntax | mistyped (outermost first)
	LoadErr   bool     // loadbad: config.Load returned an error

	Format          string // exit/cli
	Fail            []string
	ShowIgnored     bool
	NoCompileErrors bool
	Problems        []Problem
	Exit            int
	Out             []Rendered

	ChecksFlag, FailFlag       string // cli: raw flag values
	HasChecksFlag, HasFailFlag bool
	Pkgs                       []Pkg
	Note                       string
}

func fatal(err error) {
	fmt.Fprintln(os.Stderr, "hc11:", err)
	os.Exit(2)
}

// ---------------------------------------------------------------- output parsers

var textRe = regexp.MustCompile(`(?s)^(?:-|(.*?):(\d+):(\d+)): (.*) \((\S+)\)$`)
var stylishRow = regexp.MustCompile(`^  \((\d+), (\d+)\)\s+(\S+)\s+(.*)$`)

// firstLine: messages of compile errors span several lines; every parser keeps the first line only.
func firstLine(s string) string {
	if i := strings.IndexByte(s, '\n'); i >= 0 {
		return s[:i]
	}
	return s
}

func parseText(out []byte) ([]Rendered, error) {
	var rs []Rendered
	pending := ""
	for _, line := range strings.Split(strings.TrimRight(string(out), "\n"), "\n") {
		if pending == "" && (line == "" || strings.HasPrefix(line, "\t")) {
			continue
		}
		if pending != "" {
			line = pending + "\n" + line
		}
		m := textRe.FindStringSubmatch(line)
		if m == nil {
			pending = line // a message that continues on the next line
			continue
		}
		pending = ""
		l, _ := strconv.Atoi(m[2])
		c, _ := strconv.Atoi(m[3])
		rs = append(rs, Rendered{File: m[1], Line: l, Col: c, Msg: firstLine(m[4]), Cat: m[5]})
	}
	if pending != "" {
		return nil, fmt.Errorf("unparsable text output %q", pending)
	}
	return rs, nil
}

func parseStylish(out []byte) ([]Rendered, error) {
	var rs []Rendered
	file := ""
	for _, line := range strings.Split(string(out), "\n") {
		switch {
		case line == "" || strings.HasPrefix(line, " ✖"):
		case strings.HasPrefix(line, "    ("): // related information
		case strings.HasPrefix(line, "  ("):
			m := stylishRow.FindStringSubmatch(line)
			if m == nil {
				return nil, fmt.Errorf("unparsable stylish row %q", line)
			}
			l, _ := strconv.Atoi(m[1])
			c, _ := strconv.Atoi(m[2])
			rs = append(rs, Rendered{File: file, Line: l, Col: c, Cat: m[3], Msg: m[4]})
		default:
			file = line // (the continuation line of a multi-line message also lands here; a real header follows before the next row)
			if file == "-" {
				file = ""
			}
		}
	}
	return rs, nil
}

func parseJSON(out []byte) ([]Rendered, error) {
	var rs []Rendered
	dec := json.NewDecoder(bytes.NewReader(out))
	for dec.More() {
		var p struct {
			Code     string `json:"code"`
			Severity string `json:"severity"`
			Location struct {
				File   string `json:"file"`
				Line   int    `json:"line"`
				Column int    `json:"column"`
			} `json:"location"`
			Message string `json:"message"`
		}
		if err := dec.Decode(&p); err != nil {
			return nil, err
		}
		rs = append(rs, Rendered{File: p.Location.File, Line: p.Location.Line, Col: p.Location.Column, Cat: p.Code, Msg: firstLine(p.Message), Sev: p.Severity})
	}
	return rs, nil
}

func parseSarif(out []byte) ([]Rendered, error) {
	var log struct {
		Runs []struct {
			Results []struct {
				RuleID  string `json:"ruleId"`
				Message struct {
					Text string `json:"text"`
				} `json:"message"`
				Locations []struct {
					PhysicalLocation struct {
						ArtifactLocation struct {
							URI string `json:"uri"`
						} `json:"artifactLocation"`
						Region struct {
							StartLine   int `json:"startLine"`
							StartColumn int `json:"startColumn"`
						} `json:"region"`
					} `json:"physicalLocation"`
				} `json:"locations"`
			} `json:"results"`
		} `json:"runs"`
	}
	if err := json.Unmarshal(out, &log); err != nil {
		return nil, err
	}
	var rs []Rendered
	for _, run := range log.Runs {
		for _, r := range run.Results {
			if len(r.Locations) != 1 {
				return nil, fmt.Errorf("sarif result with %d locations", len(r.Locations))
			}
			pl := r.Locations[0].PhysicalLocation
			file := pl.ArtifactLocation.URI
			if u, err := url.Parse(file); err == nil {
				file = u.Path
			}
			rs = append(rs, Rendered{File: file, Line: pl.Region.StartLine, Col: pl.Region.StartColumn, Cat: r.RuleID, Msg: firstLine(r.Message.Text)})
		}
	}
	return rs, nil
}

func parseOut(format string, out []byte) ([]Rendered, error) {
	switch format {
	case "text":
		return parseText(out)
	case "stylish":
		return parseStylish(out)
	case "json":
		return parseJSON(out)
	case "sarif":
		return parseSarif(out)
	case "null":
		if len(bytes.TrimSpace(out)) != 0 {
			return nil, fmt.Errorf("null formatter wrote %q", out)
		}
		return nil, nil
	}
	return nil, fmt.Errorf("format %q", format)
}

// ---------------------------------------------------------------- generators

var smallNames = []string{"SA1000", "SA1001", "SA4006", "S1000", "S1001", "ST1000", "ST1003", "QF1001", "U1000", "nodigit"}

var tokens = []string{"SA1000", "sa1001", "St1003", "S1000", "U1000", "-U1000", "-sa4006", "all", "ALL", "*", "-all", "-*",
	"inherit", "S*", "s*", "SA*", "-SA*", "SA1*", "-sa1*", "sa10*", "ST*", "-ST*", "S1*", "QF*", "U*", "-S*", "-", "", "nosuch", "-nosuch",
	"nodigit", "nodigit*", "-no*", "*1000", "S**", "1*", "--S*", "-S1000", "SA4006", "-ST1003", "st1*", "-qf1001", "a*"}

func pickList(rnd *hx.Rand, maxLen int, pool []string) []string {
	n := rnd.Intn(maxLen + 1)
	l := make([]string, 0, n)
	for i := 0; i < n; i++ {
		if len(l) > 0 && rnd.Chance(10) {
			l = append(l, l[len(l)-1]) // adjacent duplicate
		} else {
			l = append(l, pool[rnd.Intn(len(pool))])
		}
	}
	return l
}

func genFilter(rnd *hx.Rand, realNames []string) Case {
	c := Case{T: "filter", All: smallNames}
	if rnd.Chance(4) && len(realNames) > 0 {
		c.All = realNames
	} else if rnd.Chance(20) {
		c.All = pickList(rnd, 6, smallNames)
	}
	c.Sel = pickList(rnd, 7, tokens)
	m := lintcmd.VerifC11FilterAnalyzerNames(c.All, c.Sel)
	for k, v := range m {
		c.Map = append(c.Map, KV{k, v})
	}
	sort.Slice(c.Map, func(i, j int) bool { return c.Map[i].K < c.Map[j].K })
	return c
}

func genParse(rnd *hx.Rand) Case {
	var b strings.Builder
	n := rnd.Intn(5)
	for i := 0; i < n; i++ {
		if i > 0 {
			b.WriteString(",")
		}
		b.WriteString(strings.Repeat(" ", rnd.Intn(3)))
		if !rnd.Chance(10) {
			b.WriteString(tokens[rnd.Intn(len(tokens))])
		}
		if rnd.Chance(5) {
			b.WriteString(" x")
		}
		b.WriteString(strings.Repeat(" ", rnd.Intn(2)))
	}
	c := Case{T: "parse", S: b.String()}
	c.Parsed = lintcmd.VerifC11ParseList(c.S)
	c.ParsedNil = c.Parsed == nil
	return c
}

var confTokens = []string{"inherit", "inherit", "all", "-S*", "SA*", "-SA1*", "SA1000", "-ST1003", "ST1003", "U1000", "-U1000", "*", "-all", "S1*", "nosuch", "-", "ST*"}

func genChain(rnd *hx.Rand, c *Case) {
	c.Default = []string{"all"}
	for _, n := range []string{"ST1000", "ST1003", "SA4006"} {
		if rnd.Bool() {
			c.Default = append(c.Default, "-"+n)
		}
	}
	if rnd.Chance(10) {
		c.Default = pickList(rnd, 3, []string{"all", "-S*", "SA1000", "-U1000", "ST*"})
	}
	depth := rnd.Intn(5)
	for i := 0; i < depth; i++ {
		if rnd.Chance(35) {
			c.Chain = append(c.Chain, nil)
			c.HasChain = append(c.HasChain, false)
		} else {
			c.Chain = append(c.Chain, pickList(rnd, 5, confTokens))
			c.HasChain = append(c.HasChain, true)
		}
	}
	switch rnd.Intn(4) {
	case 0: // flag value "": nil list
	case 1:
		c.Cli, c.HasCli = []string{"inherit"}, true
	default:
		c.Cli, c.HasCli = pickList(rnd, 4, confTokens), true
	}
}

func optList(l []string, has bool) []string {
	if !has {
		return nil
	}
	if l == nil {
		return []string{}
	}
	return l
}

func genMerge(rnd *hx.Rand) Case {
	c := Case{T: "merge"}
	genChain(rnd, &c)
	cfg := config.Config{Checks: c.Default}
	for i := range c.Chain {
		cfg = cfg.Merge(config.Config{Checks: optList(c.Chain[i], c.HasChain[i])})
	}
	cfg = cfg.Merge(config.Config{Checks: optList(c.Cli, c.HasCli)})
	c.Effective = cfg.Checks
	return c
}

func tomlList(l []string) string {
	q := make([]string, len(l))
	for i, s := range l {
		q[i] = strconv.Quote(s)
	}
	return "checks = [" + strings.Join(q, ", ") + "]\n"
}

func writeChain(root string, chain [][]string, has []bool) string {
	dir := root
	for i := range chain {
		dir = filepath.Join(dir, fmt.Sprintf("d%d", i))
		if has[i] {
			hx.WriteFile(filepath.Join(dir, "staticcheck.conf"), tomlList(chain[i]))
		} else if i%2 == 0 {
			hx.WriteFile(filepath.Join(dir, "staticcheck.conf"), "initialisms = [\"inherit\", \"XYZ\"]\n") // a file that does not set checks
		} else {
			os.MkdirAll(dir, 0o777) // no file at this level
		}
	}
	return dir
}

func genLoad(rnd *hx.Rand, work string, idx int) Case {
	c := Case{T: "load", All: smallNames}
	genChain(rnd, &c)
	root := filepath.Join(work, fmt.Sprintf("load%d", idx))
	os.MkdirAll(root, 0o777)
	dir := writeChain(root, c.Chain, c.HasChain)
	saved := config.DefaultConfig.Checks
	config.DefaultConfig.Checks = c.Default
	cfg, err := config.Load(dir)
	config.DefaultConfig.Checks = saved
	if err != nil {
		fatal(err)
	}
	cfg = cfg.Merge(config.Config{Checks: optList(c.Cli, c.HasCli)})
	c.Effective = cfg.Checks
	os.RemoveAll(root)
	return c
}

// staticcheck.conf contents that are valid TOML but give an option a value of the wrong type, for each of the
// four list options, and contents with a syntax error
var mistypedConfs = []string{
	"checks = \"SA4018\"\n", "checks = [\"SA4000\", 3]\n", "[checks]\nx = 1\n", "checks = 7\n", "checks = [[\"all\"]]\n",
	"initialisms = 5\n", "initialisms = \"ID\"\n", "initialisms = [\"ID\", true]\n",
	"dot_import_whitelist = [1]\n", "dot_import_whitelist = \"x\"\n", "[dot_import_whitelist]\nx = 1\n",
	"http_status_code_whitelist = true\n", "http_status_code_whitelist = [200]\n", "http_status_code_whitelist = 2.5\n",
	"checks = [\"all\"]\ninitialisms = 1979-05-27\n",
}
var syntaxConfs = []string{"checks = [\"all\", oops\n", "checks = \n", "= 3\n"}

func genLoadBad(rnd *hx.Rand, work string, idx int) Case {
	c := Case{T: "loadbad"}
	root := filepath.Join(work, fmt.Sprintf("loadbad%d", idx))
	dir := root
	depth := 1 + rnd.Intn(4)
	bad := rnd.Intn(depth + 1) // == depth: no bad file at all
	for i := 0; i < depth; i++ {
		dir = filepath.Join(dir, fmt.Sprintf("d%d", i))
		os.MkdirAll(dir, 0o777)
		kind, content := "absent", ""
		switch {
		case i == bad && rnd.Chance(75):
			kind, content = "mistyped", mistypedConfs[rnd.Intn(len(mistypedConfs))]
		case i == bad:
			kind, content = "syntax", syntaxConfs[rnd.Intn(len(syntaxConfs))]
		case rnd.Bool():
			kind, content = "ok", tomlList(pickList(rnd, 3, confTokens))
		}
		if kind != "absent" {
			hx.WriteFile(filepath.Join(dir, "staticcheck.conf"), content)
		}
		c.ConfKinds = append(c.ConfKinds, kind)
		c.Note += fmt.Sprintf("%s:%q ", kind, content)
	}
	_, err := config.Load(dir)
	c.LoadErr = err != nil
	os.RemoveAll(root)
	return c
}

// genBadConf: the binary on a module whose directory a/ has an undecodable staticcheck.conf; packages a and a/b
// fail to load and contribute one load error (identical errors are merged by printDiagnostics), the root package is
// linted as usual. The load error is canonicalised (its text comes from the TOML library, its category is whatever
// failed() assigns: both compile and config count as load errors for the exit status).
func genBadConf(rnd *hx.Rand, exe, work string, names []string) []Case {
	var cases []Case
	cache := filepath.Join(work, "sc-cache")
	os.MkdirAll(cache, 0o777)
	for mi, conf := range []string{mistypedConfs[rnd.Intn(len(mistypedConfs))], mistypedConfs[0], syntaxConfs[rnd.Intn(len(syntaxConfs))]} {
		root := filepath.Join(work, fmt.Sprintf("badconf%d", mi))
		hx.WriteFile(filepath.Join(root, "go.mod"), fmt.Sprintf("module example.com/badconf%d\n\ngo 1.22\n", mi))
		for i, d := range []string{".", "a", "a/b"} {
			name := []string{"root", "a", "b"}[i]
			hx.WriteFile(filepath.Join(root, d, name+".go"), fmt.Sprintf("package %s\n\nfunc F(x int) bool { return x == x }\n", name))
		}
		hx.WriteFile(filepath.Join(root, "a", "staticcheck.conf"), conf)
		canon := func(rs []Rendered) []Rendered {
			var out []Rendered
			seen := false
			for _, r := range rs {
				if (r.Cat == "compile" || r.Cat == "config") && (strings.HasPrefix(r.Msg, "toml:") || strings.HasSuffix(r.File, "staticcheck.conf") || strings.Contains(r.Msg, "staticcheck.conf")) {
					if !seen { // one load error per undecodable file, however it is positioned and worded
						out = append(out, Rendered{Cat: "config", Msg: "<staticcheck.conf cannot be decoded>"})
					}
					seen = true
					continue
				}
				out = append(out, r)
			}
			return out
		}
		out, _ := runStaticcheck(exe, root, cache, []string{"-checks", "*", "-f", "json", "./..."})
		base, err := parseJSON(out)
		if err != nil {
			fatal(err)
		}
		var rootProblems []Problem
		for _, r := range relTo(root, base) {
			if filepath.Dir(r.File) == "." && r.File != "" && r.Cat != "compile" && r.Cat != "config" {
				rootProblems = append(rootProblems, Problem{File: r.File, Line: r.Line, Col: r.Col, Cat: r.Cat, Msg: r.Msg})
			}
		}
		pkgs := []Pkg{
			{Kind: "named", Dir: ".", Chain: [][]string{nil}, HasChain: []bool{false}, Problems: rootProblems},
			// a and a/b: failed packages; their identical load errors are printed once
			{Kind: "faileddep", Dir: "a", Chain: [][]string{nil}, HasChain: []bool{false}, Problems: []Problem{{Cat: "config", Msg: "<staticcheck.conf cannot be decoded>"}}},
		}
		for _, f := range formats[:4] {
			c := Case{T: "cone", All: names, Format: f, Pkgs: pkgs, Note: fmt.Sprintf("badconf a/staticcheck.conf=%q ./...", conf)}
			out, code := runStaticcheck(exe, root, cache, []string{"-f", f, "./..."})
			rs, err := parseOut(f, out)
			if err != nil {
				fatal(err)
			}
			c.Out, c.Exit = canon(relTo(root, rs)), code
			cases = append(cases, c)
		}
	}
	return cases
}

var exitCats = []string{"SA1000", "SA1001", "SA4006", "S1000", "ST1003", "U1000", "compile", "config", "staticcheck", "XX9999", "sa1000"}
var exitMsgs = []string{"m0", "m1", "unused value of x", "should omit comparison"}
var formats = []string{"text", "stylish", "json", "sarif", "null"}

func genProblems(rnd *hx.Rand) []Problem {
	n := rnd.Intn(6)
	var ps []Problem
	// printDiagnostics first merges problems with the same position, category (up to case) and message
	// (that is C12's subject); C11's cases hand it pairwise different problems
	seen := map[string]bool{}
	for i := 0; i < n; i++ {
		p := Problem{File: []string{"a.go", "dir/b.go"}[rnd.Intn(2)], Line: 1 + rnd.Intn(4), Col: 1 + rnd.Intn(3),
			Cat: exitCats[rnd.Intn(len(exitCats))], Msg: exitMsgs[rnd.Intn(len(exitMsgs))], Ignored: rnd.Chance(25)}
		key := fmt.Sprintf("%s:%d:%d:%s:%s", p.File, p.Line, p.Col, strings.ToLower(p.Cat), p.Msg)
		if seen[key] {
			continue
		}
		seen[key] = true
		ps = append(ps, p)
	}
	return ps
}

func genExit(rnd *hx.Rand) Case {
	c := Case{T: "exit", All: smallNames, Format: formats[rnd.Intn(len(formats))]}
	c.Fail = pickList(rnd, 4, tokens)
	if rnd.Chance(40) {
		c.Fail = []string{"all"}
	}
	c.ShowIgnored = rnd.Chance(30)
	c.NoCompileErrors = rnd.Chance(15)
	c.Problems = genProblems(rnd)
	var ds []lintcmd.VerifC12Diag
	for _, p := range c.Problems {
		d := lintcmd.VerifC12Diag{File: p.File, Line: p.Line, Col: p.Col, Category: p.Cat, Message: p.Msg}
		if p.Ignored {
			d.Severity = 2
		}
		ds = append(ds, d)
	}
	out, exit, err := lintcmd.VerifC11PrintDiagnostics(lintcmd.VerifC11PrintOpts{Formatter: c.Format, Fail: c.Fail, ShowIgnored: c.ShowIgnored,
		NoCompileErrors: c.NoCompileErrors, Analyzers: c.All}, ds)
	if err != nil {
		fatal(err)
	}
	c.Exit = exit
	if c.Out, err = parseOut(c.Format, out); err != nil {
		fatal(fmt.Errorf("%s output: %v", c.Format, err))
	}
	return c
}

// ---------------------------------------------------------------- black box: the staticcheck binary

// the generated module: three nested packages, each with problems of several checks in the categories
// S, SA, ST and U, one problem suppressed by a //lint:ignore directive, a malformed directive in one package
const pkgSrc = `package %s

func Compare%s(x int, ch chan int) bool {
	select {
	case <-ch:
	}
	//lint:ignore SA4000 this comparison is deliberate
	if x == x {
		return true
	}
	if 5 == x {
		return false
	}
	return x != x
}

func Under_score%s() {}

func unused%s() {}
`
const malformed = `
//lint:ignore SA4000
var V = 1
`

func runStaticcheck(exe, dir, cache string, args []string) ([]byte, int) {
	cmd := exec.Command(exe, args...)
	cmd.Dir = dir
	env := hx.GoEnv()
	env = append(env, "STATICCHECK_CACHE="+cache, "XDG_CACHE_HOME="+cache)
	cmd.Env = env
	var stdout, stderr bytes.Buffer
	cmd.Stdout, cmd.Stderr = &stdout, &stderr
	err := cmd.Run()
	code := 0
	if ee, ok := err.(*exec.ExitError); ok {
		code = ee.ExitCode()
	} else if err != nil {
		fatal(fmt.Errorf("staticcheck %v: %v", args, err))
	}
	if code > 1 {
		fatal(fmt.Errorf("staticcheck %v: exit %d: %s", args, code, stderr.String()))
	}
	return stdout.Bytes(), code
}

func relTo(root string, rs []Rendered) []Rendered {
	for i := range rs {
		f := rs[i].File
		if f == "" {
			continue
		}
		if !filepath.IsAbs(f) {
			f = filepath.Join(root, f)
		}
		if rel, err := filepath.Rel(root, f); err == nil {
			f = rel
		}
		rs[i].File = filepath.ToSlash(f)
	}
	return rs
}

func genCLI(rnd *hx.Rand, exe, work string, nmods, nruns int, names []string) []Case {
	var cases []Case
	cache := filepath.Join(work, "sc-cache")
	os.MkdirAll(cache, 0o777)
	for mi := 0; mi < nmods; mi++ {
		root := filepath.Join(work, fmt.Sprintf("mod%d", mi))
		hx.WriteFile(filepath.Join(root, "go.mod"), fmt.Sprintf("module example.com/mod%d\n\ngo 1.22\n", mi))
		// configuration files at the module root, a and a/b
		var chain [][]string
		var has []bool
		dirs := []string{".", "a", "a/b"}
		for i, d := range dirs {
			if rnd.Chance(35) {
				chain, has = append(chain, nil), append(has, false)
			} else {
				l := pickList(rnd, 4, confTokens)
				chain, has = append(chain, l), append(has, true)
				hx.WriteFile(filepath.Join(root, d, "staticcheck.conf"), tomlList(l))
			}
			name := []string{"root", "a", "b"}[i]
			src := fmt.Sprintf(pkgSrc, name, name, name, name)
			if i == 1 && mi%2 == 0 {
				src += malformed
			}
			if i == 2 && mi%3 == 1 {
				src += "\nvar broken int = \"not an int\"\n" // compile error variant
			}
			hx.WriteFile(filepath.Join(root, d, name+".go"), src)
		}
		// baseline: everything every check reports, with the ignored status
		out, _ := runStaticcheck(exe, root, cache, []string{"-checks", "*", "-show-ignored", "-f", "json", "./..."})
		base, err := parseJSON(out)
		if err != nil {
			fatal(err)
		}
		base = relTo(root, base)
		var pkgs []Pkg
		for i, d := range dirs {
			p := Pkg{Dir: d, Chain: chain[:i+1], HasChain: has[:i+1]}
			for _, r := range base {
				if filepath.ToSlash(filepath.Dir(r.File)) == d {
					p.Problems = append(p.Problems, Problem{File: r.File, Line: r.Line, Col: r.Col, Cat: r.Cat, Msg: r.Msg, Ignored: r.Sev == "ignored"})
				}
			}
			pkgs = append(pkgs, p)
		}
		runs := make([]Case, nruns)
		argv := make([][]string, nruns)
		for k := range runs {
			c := Case{T: "cli", All: names, Format: formats[rnd.Intn(4)], Pkgs: pkgs, Note: fmt.Sprintf("mod%d", mi)}
			var args []string
			if !rnd.Chance(25) {
				c.HasChecksFlag = true
				l := pickList(rnd, 4, confTokens)
				c.ChecksFlag = strings.Join(l, []string{",", ", ", " ,"}[rnd.Intn(3)])
				args = append(args, "-checks", c.ChecksFlag)
			}
			if !rnd.Chance(40) {
				c.HasFailFlag = true
				l := pickList(rnd, 3, []string{"all", "-S*", "SA*", "-SA4000", "S1000", "-U1000", "ST*", "-all", "U1000", "-ST1017"})
				c.FailFlag = strings.Join(l, ",")
				args = append(args, "-fail", c.FailFlag)
			}
			if rnd.Chance(30) {
				c.ShowIgnored = true
				args = append(args, "-show-ignored")
			}
			args = append(args, "-f", c.Format, "./...")
			runs[k], argv[k] = c, args
		}
		var wg sync.WaitGroup
		sem := make(chan struct{}, 8)
		for k := range runs {
			wg.Add(1)
			go func(k int) {
				defer wg.Done()
				sem <- struct{}{}
				defer func() { <-sem }()
				out, code := runStaticcheck(exe, root, cache, argv[k])
				rs, err := parseOut(runs[k].Format, out)
				if err != nil {
					fatal(fmt.Errorf("%v: %v", argv[k], err))
				}
				runs[k].Out, runs[k].Exit = relTo(root, rs), code
			}(k)
		}
		wg.Wait()
		cases = append(cases, runs...)
	}
	return cases
}

// genCone: patterns that name an importer but not the package it imports. app imports internal/dep whose
// staticcheck.conf is malformed (config error), app2 imports internal/dep2 which has a type error (compile
// error), app3 imports internal/ok which loads and has a problem of its own (not to be printed for ./app3).
// The problems of every package are taken from one `./...` run; each pattern is run with all four formats.
func genCone(exe, work string, names []string) []Case {
	root := filepath.Join(work, "cone")
	mod := "example.com/cone"
	hx.WriteFile(filepath.Join(root, "go.mod"), "module "+mod+"\n\ngo 1.22\n")
	imp := func(name, dep string) string {
		return fmt.Sprintf("package %s\n\nimport %q\n\nfunc Use%s(x int) bool {\n\t%s.F()\n\treturn x == x\n}\n", name, mod+"/internal/"+dep, name, dep)
	}
	hx.WriteFile(filepath.Join(root, "app/app.go"), imp("app", "dep"))
	hx.WriteFile(filepath.Join(root, "app2/app2.go"), imp("app2", "dep2"))
	hx.WriteFile(filepath.Join(root, "app3/app3.go"), imp("app3", "ok"))
	hx.WriteFile(filepath.Join(root, "internal/dep/dep.go"), "package dep\n\nfunc F() {}\n")
	hx.WriteFile(filepath.Join(root, "internal/dep/staticcheck.conf"), "checks = [\"all\", oops\n")
	hx.WriteFile(filepath.Join(root, "internal/dep2/dep.go"), "package dep2\n\nfunc F() {}\n\nvar broken int = \"not an int\"\n")
	hx.WriteFile(filepath.Join(root, "internal/ok/ok.go"), "package ok\n\nfunc F() {}\n\nfunc G(x int) bool { return x != x }\n")
	cache := filepath.Join(work, "sc-cache")
	os.MkdirAll(cache, 0o777)
	out, _ := runStaticcheck(exe, root, cache, []string{"-checks", "*", "-show-ignored", "-f", "json", "./..."})
	base, err := parseJSON(out)
	if err != nil {
		fatal(err)
	}
	base = relTo(root, base)
	byDir := map[string][]Problem{}
	for _, r := range base {
		dir := filepath.ToSlash(filepath.Dir(r.File))
		if r.File == "" { // errors of the compiler carry the import path in the message: "# example.com/cone/internal/dep2"
			dir = strings.TrimPrefix(strings.TrimPrefix(r.Msg, "# "+mod), "/")
		}
		byDir[dir] = append(byDir[dir], Problem{File: r.File, Line: r.Line, Col: r.Col, Cat: r.Cat, Msg: r.Msg, Ignored: r.Sev == "ignored"})
	}
	type pat struct {
		arg  string
		pkgs []Pkg
	}
	mk := func(kind, dir string) Pkg {
		return Pkg{Kind: kind, Dir: dir, Chain: [][]string{nil}, HasChain: []bool{false}, Problems: byDir[dir]}
	}
	pats := []pat{
		{"./app", []Pkg{mk("named", "app"), mk("faileddep", "internal/dep")}},
		{"./app2", []Pkg{mk("named", "app2"), mk("faileddep", "internal/dep2")}},
		{"./app3", []Pkg{mk("named", "app3"), mk("cleandep", "internal/ok")}},
	}
	var cases []Case
	var argv [][]string
	for _, p := range pats {
		for _, f := range formats[:4] {
			cases = append(cases, Case{T: "cone", All: names, Format: f, Pkgs: p.pkgs, Note: "cone " + p.arg})
			argv = append(argv, []string{"-f", f, p.arg})
		}
	}
	var wg sync.WaitGroup
	sem := make(chan struct{}, 8)
	for k := range cases {
		wg.Add(1)
		go func(k int) {
			defer wg.Done()
			sem <- struct{}{}
			defer func() { <-sem }()
			out, code := runStaticcheck(exe, root, cache, argv[k])
			rs, err := parseOut(cases[k].Format, out)
			if err != nil {
				fatal(fmt.Errorf("%v: %v", argv[k], err))
			}
			cases[k].Out, cases[k].Exit = relTo(root, rs), code
		}(k)
	}
	wg.Wait()
	return cases
}

func main() {
	out := flag.String("out", "", "output JSON")
	work := flag.String("work", "", "scratch directory")
	seed := flag.Uint64("seed", 1, "seed")
	n := flag.Int("n", 3000, "number of in-process cases")
	nmods := flag.Int("mods", 3, "number of generated modules for the black-box runs")
	nruns := flag.Int("runs", 16, "staticcheck runs per module")
	exe := flag.String("staticcheck", "", "staticcheck binary built from the tree under test (empty: no black-box cases)")
	namesFile := flag.String("names", "", "file with the registered check names, one per line")
	flag.Parse()
	rnd := hx.NewRand(*seed)
	var realNames []string
	if *namesFile != "" {
		b, err := os.ReadFile(*namesFile)
		if err != nil {
			fatal(err)
		}
		realNames = strings.Fields(string(b))
	}
	var cases []Case
	for i := 0; i < *n; i++ {
		switch k := i % 10; {
		case k < 4:
			cases = append(cases, genFilter(rnd, realNames))
		case k < 5:
			cases = append(cases, genParse(rnd))
		case k < 6:
			cases = append(cases, genMerge(rnd))
		case k < 7 && (i/10)%3 == 2:
			cases = append(cases, genLoadBad(rnd, *work, i))
		case k < 7:
			cases = append(cases, genLoad(rnd, *work, i))
		default:
			cases = append(cases, genExit(rnd))
		}
	}
	if *exe != "" {
		cases = append(cases, genCLI(rnd, *exe, *work, *nmods, *nruns, realNames)...)
		cases = append(cases, genCone(*exe, *work, realNames)...)
		cases = append(cases, genBadConf(rnd, *exe, *work, realNames)...)
	}
	hx.EmitJSON(*out, cases)
}
