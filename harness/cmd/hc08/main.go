// hc08: for every pattern (the ones compiled into the checks, extracted from pattern.MustParse call
// sites, plus generated ones) and every package (generated packages exercising call forms, plus real
// packages) an analyzer computes code.Matches (entry-kind filter, symbol index, root call symbols) and
// the brute-force pattern match over EVERY node of the pass, and reports the matches that the filtered
// search dropped. It also emits what the real Parser computed for each pattern (EntryNodes,
// SymbolsPattern, RootCallSymbols) for comparison with the Coq model.
package main

import (
	"flag"
	"fmt"
	"go/ast"
	"go/parser"
	"go/token"
	"go/types"
	"os"
	"path/filepath"
	"reflect"
	"sort"
	"strconv"
	"strings"
	"sync"

	"golang.org/x/tools/go/analysis"
	"honnef.co/go/tools/analysis/code"
	"honnef.co/go/tools/config"
	"honnef.co/go/tools/pattern"
	"honnef.co/go/tools/verifhooks"
	"verifharness/hx"
)

type PatInfo struct {
	ID     int
	Src    string
	Origin string // shipped:<file> | generated
	PatV   string // parsed root as a Gallina pat
	Entry  []string
	SymV   string // SymbolsPattern as a Gallina sympat
	Roots  [][3]string
	Syms   [][3]string // every IndexSymbol occurring in SymbolsPattern
}

type Drop struct {
	Kind   string
	Pos    string
	Src    string
	Reason string // which filter lost it, and the language feature involved
}

type Run struct {
	Pkg        string
	Pattern    int
	Brute      int // nodes (of a kind in the universe) on which the pattern matches
	Filtered   int // nodes yielded by code.Matches
	Dups       int // nodes yielded more than once
	Dropped    []Drop
	NDropped   int
	Extra      int  // yielded but not a brute-force match (cannot happen)
	Could      bool // CouldMatchAny
	SymHas     []bool
	Declared   bool // a symbol of the pattern is declared in the analysed package (outside the property's premise)
	WrapDiff   int  // wrapper node on which Match differs from Match on the node it wraps
	Panics     int
	NodesTried int
}

type Output struct {
	Patterns []PatInfo
	Runs     []Run
	Universe []string
	Skipped  map[string]int
}

// the go/ast kinds the pattern language has a node for and that can start a match (fixed here, on purpose
// independent of /repo's tables): the 41 kinds of the pinned allTypes
var universe = map[string]bool{}

func init() {
	for _, k := range strings.Fields(`RangeStmt AssignStmt IndexExpr Ident ValueSpec GenDecl BinaryExpr ForStmt ArrayType DeferStmt
		MapType ReturnStmt SliceExpr StarExpr UnaryExpr SendStmt SelectStmt ImportSpec IfStmt GoStmt Field SelectorExpr StructType
		KeyValueExpr FuncType FuncLit FuncDecl ChanType CallExpr CaseClause CommClause CompositeLit EmptyStmt SwitchStmt
		TypeSwitchStmt TypeAssertExpr TypeSpec InterfaceType BranchStmt IncDecStmt BasicLit`) {
		universe[k] = true
	}
}

func kindOf(n ast.Node) string { return reflect.TypeOf(n).Elem().Name() }

// kinds outside the 41 at which particular pattern nodes can start a match (pinned facts, like the universe):
// a node of such a kind is in scope when an alternative of the pattern headed by that node matches it on its own
var extraKinds = map[string]map[string]bool{
	"Symbol": {"IndexListExpr": true},
	"List":   {"BlockStmt": true, "FieldList": true},
}

// leaves: the alternatives of a pattern's root, through Or and through bindings with a node
func leaves(n pattern.Node) []pattern.Node {
	switch n := n.(type) {
	case pattern.Or:
		var out []pattern.Node
		for _, c := range n.Nodes {
			out = append(out, leaves(c)...)
		}
		return out
	case pattern.Binding:
		if n.Node != nil {
			if _, isNil := n.Node.(pattern.Nil); !isNil {
				return leaves(n.Node)
			}
		}
	}
	return []pattern.Node{n}
}

func symOf(n pattern.Node, acc *[][3]string) string {
	switch n := n.(type) {
	case nil:
		return "SNone"
	case pattern.Any:
		return "SAny"
	case pattern.Or:
		var l []string
		for _, c := range n.Nodes {
			l = append(l, symOf(c, acc))
		}
		return "(SOr " + coqList(l) + ")"
	case pattern.And:
		var l []string
		for _, c := range n.Nodes {
			l = append(l, symOf(c, acc))
		}
		return "(SAnd " + coqList(l) + ")"
	case pattern.IndexSymbol:
		*acc = append(*acc, [3]string{n.Path, n.Type, n.Ident})
		return fmt.Sprintf("(SSym %s %s %s)", coqStr(n.Path), coqStr(n.Type), coqStr(n.Ident))
	}
	return fmt.Sprintf("(SOther %s)", coqStr(fmt.Sprintf("%T", n)))
}

func shipped(repo string) (pats [][2]string) {
	for _, dir := range []string{"simple", "staticcheck", "stylecheck", "quickfix", "analysis", "unused", "internal"} {
		filepath.Walk(filepath.Join(repo, dir), func(path string, info os.FileInfo, err error) error {
			if err != nil || info.IsDir() || !strings.HasSuffix(path, ".go") || strings.HasSuffix(path, "_test.go") || strings.Contains(path, "testdata") {
				return nil
			}
			fset := token.NewFileSet()
			f, err := parser.ParseFile(fset, path, nil, 0)
			if err != nil {
				return nil
			}
			ast.Inspect(f, func(n ast.Node) bool {
				call, ok := n.(*ast.CallExpr)
				if !ok || len(call.Args) != 1 {
					return true
				}
				sel, ok := call.Fun.(*ast.SelectorExpr)
				if !ok || sel.Sel.Name != "MustParse" {
					return true
				}
				if id, ok := sel.X.(*ast.Ident); !ok || id.Name != "pattern" {
					return true
				}
				if s, ok := constString(call.Args[0]); ok {
					rel, _ := filepath.Rel(repo, path)
					pats = append(pats, [2]string{s, "shipped:" + rel})
				}
				return true
			})
			return nil
		})
	}
	sort.Slice(pats, func(i, j int) bool { return pats[i][1]+pats[i][0] < pats[j][1]+pats[j][0] })
	return
}

func constString(e ast.Expr) (string, bool) {
	switch e := e.(type) {
	case *ast.BasicLit:
		if e.Kind == token.STRING {
			s, err := strconv.Unquote(e.Value)
			return s, err == nil
		}
	case *ast.BinaryExpr:
		if e.Op == token.ADD {
			a, ok1 := constString(e.X)
			b, ok2 := constString(e.Y)
			return a + b, ok1 && ok2
		}
	case *ast.ParenExpr:
		return constString(e.X)
	}
	return "", false
}

const lib = "example.com/m/lib"

// generated patterns: root Or / Not / Binding, Symbol under Or / Binding, function, generic, method, type,
// variable, constant and builtin symbols, entry kinds of every struct node
func generated(r *hx.Rand) []string {
	syms := []string{lib + ".F", lib + ".G", lib + ".Pair", "(" + lib + ".T).M", "(*" + lib + ".T).P", lib + ".T", lib + ".A", lib + ".V", lib + ".C",
		lib + ".Fn", "(" + lib + ".E).M", "(" + lib + ".I).Q", "example.com/m/lib2.B", "example.com/m/lib2.H", "len", "append", "fmt.Sprintf", "(*bytes.Buffer).String",
		"strings.ToUpper", lib + ".Missing", "example.com/m/nowhere.F"}
	var out []string
	for _, s := range syms {
		q := fmt.Sprintf("(Symbol %q)", s)
		out = append(out,
			fmt.Sprintf("(CallExpr %s _)", q),
			fmt.Sprintf("(CallExpr fn@%s args)", q),
			fmt.Sprintf("(CallExpr (Binding \"fn\" %s) _)", q),
			q,
			fmt.Sprintf("(Or %s)", q),
			fmt.Sprintf("(Binding \"s\" %s)", q),
			// a start-anywhere alternative next to a Symbol: the entry kinds are allTypes PLUS what only Symbol contributes
			fmt.Sprintf("(Or _ %s)", q),
			fmt.Sprintf("(Or %s x)", q),
			fmt.Sprintf("(Or (TrulyConstantExpression _) %s)", q),
			fmt.Sprintf("(Binding \"b\" (Or _ %s))", q),
			// a root call whose callee mixes a Symbol with other alternatives: no root call symbols
			fmt.Sprintf("(CallExpr (Or %s (Ident \"f\")) _)", q),
			fmt.Sprintf("(CallExpr (Or (Builtin \"len\") %s) _)", q),
			fmt.Sprintf("(CallExpr (Or %s (SelectorExpr _ (Ident \"M\"))) _)", q),
			fmt.Sprintf("(CallExpr (Or %s fn@(Symbol %q)) _)", q, syms[r.Intn(len(syms))]),
			fmt.Sprintf("(CallExpr (Or (Ident \"m\") (Ident \"g\")) _)"),
			fmt.Sprintf("(TypeAssertExpr _ %s)", q),
			fmt.Sprintf("(Or (CallExpr %s _) (GoStmt (CallExpr %s _)))", q, q),
			fmt.Sprintf("(CallExpr (Or %s (Symbol %q)) _)", q, syms[r.Intn(len(syms))]),
			fmt.Sprintf("(CallExpr (Symbol (Or %q %q)) _)", s, syms[r.Intn(len(syms))]),
			fmt.Sprintf("(CallExpr (Symbol name@(Or %q %q)) _)", s, syms[r.Intn(len(syms))]),
			fmt.Sprintf("(AssignStmt _ _ (CallExpr %s _))", q),
			fmt.Sprintf("(CompositeLit %s _)", q),
			fmt.Sprintf("(CallExpr _ [(CallExpr %s _)])", q),
			fmt.Sprintf("(CallExpr (Not %s) _)", q),
		)
	}
	out = append(out,
		`(Not (Ident "x"))`, `(Not (CallExpr _ _))`, `(Or (Not (Ident _)))`, `(Binding "x" (Not (BasicLit _ _)))`,
		`(Or x)`, `(Binding "x" nil)`, `(Binding "x" _)`, `(Or _)`, `(Or nil)`, `(Or (Ident "t") (Not (Ident _)))`,
		`(Or (CallExpr _ _) (SelectorExpr _ _))`, `(Binding "c" (CallExpr (Builtin "len") _))`, `(CallExpr (Builtin "len") _)`,
		`(Builtin "nil")`, `(Object "t")`, `(IntegerLiteral _)`, `(TrulyConstantExpression _)`, `(Or (IntegerLiteral "1") (BasicLit "STRING" _))`,
		`(SelectorExpr _ (Ident "M"))`, `(IndexExpr (Symbol "`+lib+`.G") _)`, `(List _ _)`, `(Or [(ReturnStmt _)])`, `(Or (ExprStmt _))`,
		`(UnaryExpr "&" _)`, `(StarExpr _)`, `(KeyValueExpr _ _)`, `(FuncLit _ _)`, `(GoStmt _)`, `(DeferStmt (CallExpr (Symbol "`+lib+`.F") _))`,
	)
	// one pattern per struct node kind (cross-check of the regenerated entry table)
	for name, T := range patStructs {
		args := strings.Repeat(" _", T.NumField())
		out = append(out, "("+name+args+")")
	}
	sort.Strings(out[len(out)-len(patStructs):])
	return out
}

var patStructs = map[string]reflect.Type{}

func init() {
	for _, n := range []pattern.Node{
		pattern.RangeStmt{}, pattern.AssignStmt{}, pattern.IndexExpr{}, pattern.Ident{}, pattern.ValueSpec{},
		pattern.GenDecl{}, pattern.BinaryExpr{}, pattern.ForStmt{}, pattern.ArrayType{}, pattern.DeferStmt{},
		pattern.MapType{}, pattern.ReturnStmt{}, pattern.SliceExpr{}, pattern.StarExpr{}, pattern.UnaryExpr{},
		pattern.SendStmt{}, pattern.SelectStmt{}, pattern.ImportSpec{}, pattern.IfStmt{}, pattern.GoStmt{},
		pattern.Field{}, pattern.SelectorExpr{}, pattern.StructType{}, pattern.KeyValueExpr{}, pattern.FuncType{},
		pattern.FuncLit{}, pattern.FuncDecl{}, pattern.ChanType{}, pattern.CallExpr{}, pattern.CaseClause{},
		pattern.CommClause{}, pattern.CompositeLit{}, pattern.EmptyStmt{}, pattern.SwitchStmt{},
		pattern.TypeSwitchStmt{}, pattern.TypeAssertExpr{}, pattern.TypeSpec{}, pattern.InterfaceType{},
		pattern.BranchStmt{}, pattern.IncDecStmt{}, pattern.BasicLit{},
	} {
		patStructs[reflect.TypeOf(n).Name()] = reflect.TypeOf(n)
	}
}

func writeModule(dir string) {
	hx.WriteFile(filepath.Join(dir, "go.mod"), "module example.com/m\n\ngo 1.23\n")
	hx.WriteFile(filepath.Join(dir, "lib", "lib.go"), `package lib

func F(x int) int { return x }
func G[T any](x T) T { return x }
func Pair[A, B any](a A, b B) A { return a }

type T struct{ N int }

func (t T) M(x int) int { return x }
func (t *T) P()         {}

type A = T
type E struct{ T }
type I interface{ Q() }
type Fn func(int) int

var V int

const C = 1

func Missing() {}
`)
	hx.WriteFile(filepath.Join(dir, "lib2", "lib2.go"), `package lib2

import "example.com/m/lib"

type B = lib.T

var H = lib.F
`)
	hx.WriteFile(filepath.Join(dir, "app", "app.go"), `package app

import (
	"bytes"
	"fmt"
	"strings"

	"example.com/m/lib"
	l2 "example.com/m/lib"
	"example.com/m/lib2"
)

type local struct{ lib.T }

func calls(i lib.I, x int) {
	lib.F(1)
	(lib.F)(2)
	((lib.F))(3)
	l2.F(4)
	f := lib.F
	f(5)
	lib.G[int](1)
	lib.G(2)
	(lib.G[int])(3)
	g := lib.G[string]
	g("s")
	lib.Pair[int, string](1, "a")
	pf := lib.Pair[int, string]
	pf(2, "b")
	lib.Pair(3, "c")
	(lib.Pair[int, string])(4, "d")
	var t lib.T
	t.M(1)
	(t.M)(2)
	lib.T.M(t, 3)
	(lib.T).M(t, 4)
	m := t.M
	m(5)
	(&t).P()
	(*lib.T).P(&t)
	t.P()
	var e lib.E
	e.M(6)
	var lo local
	lo.M(7)
	lo.T.M(8)
	var a lib.A
	a.M(9)
	var b lib2.B
	b.M(10)
	lib2.H(11)
	i.Q()
	_ = lib.V + lib.C
	_ = lib.T{N: 1}
	_ = lib.A{N: 2}
	_ = lib2.B{N: 3}
	_ = lib.Fn(nil)
	_ = lib.T(t)
	_ = len("x") + len([]int{1})
	_ = -1 + +2 - (-3)
	_ = append([]int(nil), 1)
	_ = fmt.Sprintf("%d", lib.F(x))
	var buf bytes.Buffer
	_ = buf.String()
	_ = (&buf).String()
	_ = strings.ToUpper("a")
	defer lib.F(6)
	go lib.F(7)
	go func() { lib.F(8) }()
	{
		lib := struct{ F func(int) int }{F: func(int) int { return 0 }}
		lib.F(9) // not the symbol
	}
	if lib.F(10) > 0 && (lib.F(11)) < 0 {
	L:
		for {
			break L
		}
	}
}
`)
	hx.WriteFile(filepath.Join(dir, "app", "dot.go"), `package app

import . "example.com/m/lib"

func dot() {
	F(1)
	(F)(2)
	G[int](3)
	G(4)
	var t T
	t.M(5)
	T.M(t, 6)
	_ = T{}
	_ = V
	var len = func(string) int { return 0 }
	_ = len("shadowed")
}
`)
	// reaches lib.T only through an alias declared in a third package (lib is neither imported nor reached
	// through a field or method)
	hx.WriteFile(filepath.Join(dir, "app2", "app2.go"), `package app2

import "example.com/m/lib2"

var X = lib2.B{}

func conv(x any) { _ = x.(lib2.B); _ = lib2.B(X) }
`)
	// imports lib (and uses another object of it) but writes lib.T only through the alias lib2.B: the index knows
	// lib.T, yet no identifier of the package resolves to it
	hx.WriteFile(filepath.Join(dir, "app3", "app3.go"), `package app3

import (
	"example.com/m/lib"
	"example.com/m/lib2"
)

var Y = lib2.B{}

func conv(x any) int { _ = x.(lib2.B); _ = lib2.B(Y); var z lib2.B; _ = z; return lib.C + lib.F(1) }
`)
	// a package that declares symbols the patterns name (outside the property's premise; counted, not judged)
	hx.WriteFile(filepath.Join(dir, "selfuse", "selfuse.go"), `package selfuse

import "example.com/m/lib"

func use() { lib.F(1); lib.Missing() }
`)
}

// reason names the filter that lost the brute-force match n and, where it can be told, the language
// feature involved; it becomes the key of the violation.
func reason(pass *analysis.Pass, info PatInfo, could bool, n ast.Node) string {
	// identifiers of n that resolve to an alias, a builtin, a type name
	var alias, builtin string
	ast.Inspect(n, func(x ast.Node) bool {
		id, ok := x.(*ast.Ident)
		if !ok {
			return true
		}
		switch obj := pass.TypesInfo.Uses[id].(type) {
		case *types.TypeName:
			if obj.IsAlias() && alias == "" && obj.Pkg() != nil {
				if named, ok := types.Unalias(obj.Type()).(*types.Named); ok && named.Obj().Pkg() != nil {
					alias = obj.Pkg().Path() + "." + obj.Name() + "->" + named.Obj().Pkg().Path() + "." + named.Obj().Name()
				}
			}
		case *types.Builtin:
			if builtin == "" {
				builtin = obj.Name()
			}
		}
		return true
	})
	emptyPath := false
	for _, s := range info.Syms {
		if s[0] == "" {
			emptyPath = true
		}
	}
	if !could {
		switch {
		case emptyPath && builtin != "":
			return "prefilter-builtin:" + builtin
		case alias != "":
			return "prefilter-alias:" + alias + "@" + pass.Pkg.Path()
		}
		return "prefilter"
	}
	if len(info.Roots) > 0 {
		if call, ok := n.(*ast.CallExpr); ok {
			fun := ast.Unparen(call.Fun)
			var id *ast.Ident
			switch f := fun.(type) {
			case *ast.Ident:
				id = f
			case *ast.SelectorExpr:
				id = f.Sel
			}
			if id != nil {
				switch pass.TypesInfo.Uses[id].(type) {
				case *types.TypeName:
					return "rootcalls-conversion"
				case *types.Builtin:
					return "rootcalls-builtin"
				}
			}
		}
		return "rootcalls"
	}
	for _, k := range info.Entry {
		if k == kindOf(n) {
			return "entry-kind-present?"
		}
	}
	root := info.Src
	if i := strings.IndexAny(root, " )"); i > 0 {
		root = root[1:i]
	}
	return "entry-kind:" + kindOf(n) + ":root-" + root
}

func main() {
	repo := flag.String("repo", "/repo", "repository root (for the shipped patterns and the real packages)")
	work := flag.String("work", "", "scratch directory")
	out := flag.String("out", "", "output JSON")
	seed := flag.Uint64("seed", 1, "seed")
	real := flag.String("real", "./pattern,./analysis/code,./lintcmd/cache", "comma separated real packages of the repository to analyse")
	flag.Parse()
	rnd := hx.NewRand(*seed)

	o := Output{Skipped: map[string]int{}}
	for k := range universe {
		o.Universe = append(o.Universe, k)
	}
	sort.Strings(o.Universe)

	type cpat struct {
		info PatInfo
		pat  pattern.Pattern
	}
	var pats []cpat
	add := func(src, origin string) {
		var pat pattern.Pattern
		var perr error
		func() {
			defer func() {
				if r := recover(); r != nil {
					perr = fmt.Errorf("panic: %v", r)
				}
			}()
			p := &pattern.Parser{AllowTypeInfo: true}
			pat, perr = p.Parse(src)
		}()
		if perr != nil {
			o.Skipped["parse: "+perr.Error()]++
			return
		}
		info := PatInfo{ID: len(pats), Src: src, Origin: origin}
		if err := try(func() { info.PatV = patOf(pat.Root) }); err != nil {
			o.Skipped["unserialisable pattern"]++
			return
		}
		for _, n := range pat.EntryNodes {
			info.Entry = append(info.Entry, kindOf(n))
		}
		sort.Strings(info.Entry)
		info.SymV = symOf(pat.SymbolsPattern, &info.Syms)
		for _, s := range pat.RootCallSymbols {
			info.Roots = append(info.Roots, [3]string{s.Path, s.Type, s.Ident})
		}
		pats = append(pats, cpat{info, pat})
	}
	for _, p := range shipped(*repo) {
		add(p[0], p[1])
	}
	nshipped := len(pats)
	for _, p := range generated(rnd) {
		add(p, "generated")
	}
	fmt.Fprintf(os.Stderr, "hc08: %d shipped + %d generated patterns\n", nshipped, len(pats)-nshipped)

	var mu sync.Mutex
	an := &analysis.Analyzer{
		Name:     "verifc08",
		Doc:      "code.Matches vs brute force",
		Requires: code.RequiredAnalyzers,
		Run: func(pass *analysis.Pass) (any, error) {
			// every node of the pass, with the node a transparent wrapper wraps
			var nodes []ast.Node
			for _, f := range pass.Files {
				ast.Inspect(f, func(n ast.Node) bool {
					if n != nil {
						nodes = append(nodes, n)
					}
					return true
				})
			}
			pos := func(n ast.Node) string {
				p := pass.Fset.Position(n.Pos())
				return fmt.Sprintf("%s:%d:%d", filepath.Base(p.Filename), p.Line, p.Column)
			}
			var runs []Run
			for _, cp := range pats {
				q := cp.pat
				r := Run{Pkg: pass.Pkg.Path(), Pattern: cp.info.ID}
				index := pass.ResultOf[verifhooks.TypeIndex].(*verifhooks.Index)
				for _, s := range cp.info.Syms {
					if s[0] == pass.Pkg.Path() {
						r.Declared = true
					}
					if s[1] == "" {
						r.SymHas = append(r.SymHas, index.Object(s[0], s[2]) != nil)
					} else {
						r.SymHas = append(r.SymHas, index.Selection(s[0], s[1], s[2]) != nil)
					}
				}
				match := func(n ast.Node) (ok bool, panicked bool) {
					defer func() {
						if e := recover(); e != nil {
							ok, panicked = false, true
						}
					}()
					_, ok = code.Match(pass, q, n)
					return
				}
				brute := map[ast.Node]bool{}
				for _, n := range nodes {
					ok, pn := match(n)
					if pn {
						r.Panics++
					}
					r.NodesTried++
					if ok {
						brute[n] = true
					}
					// a transparent wrapper matches iff the node it wraps does
					var inner ast.Node
					switch w := n.(type) {
					case *ast.ParenExpr:
						inner = w.X
					case *ast.ExprStmt:
						inner = w.X
					case *ast.DeclStmt:
						inner = w.Decl
					case *ast.LabeledStmt:
						inner = w.Stmt
					}
					if inner != nil {
						ok2, _ := match(inner)
						if ok2 != ok {
							r.WrapDiff++
						}
					}
				}
				filtered := map[ast.Node]int{}
				func() {
					defer func() {
						if e := recover(); e != nil {
							r.Panics++
						}
					}()
					r.Could = code.CouldMatchAny(pass, q)
					for n := range code.Matches(pass, q) {
						filtered[n]++
					}
				}()
				for n, c := range filtered {
					if c > 1 {
						r.Dups++
					}
					if !brute[n] {
						r.Extra++
					}
				}
				r.Filtered = len(filtered)
				var dropped []ast.Node
				inScope := func(n ast.Node) bool {
					k := kindOf(n)
					if universe[k] {
						return true
					}
					for _, lf := range leaves(q.Root) {
						if lf == nil || !extraKinds[reflect.TypeOf(lf).Name()][k] {
							continue
						}
						alone := pattern.Pattern{Root: lf, Bindings: q.Bindings}
						ok := false
						func() {
							defer func() { recover() }()
							_, ok = code.Match(pass, alone, n)
						}()
						if ok {
							return true
						}
					}
					return false
				}
				for n := range brute {
					if !inScope(n) {
						continue
					}
					r.Brute++
					if filtered[n] == 0 {
						dropped = append(dropped, n)
					}
				}
				sort.Slice(dropped, func(i, j int) bool { return dropped[i].Pos() < dropped[j].Pos() })
				r.NDropped = len(dropped)
				for i, n := range dropped {
					if i >= 3 {
						break
					}
					r.Dropped = append(r.Dropped, Drop{Kind: kindOf(n), Pos: pos(n), Src: nodeSrc(pass.Fset, n), Reason: reason(pass, cp.info, r.Could, n)})
				}
				runs = append(runs, r)
			}
			mu.Lock()
			o.Runs = append(o.Runs, runs...)
			mu.Unlock()
			return nil, nil
		},
	}

	mod := filepath.Join(*work, "m")
	writeModule(mod)
	check := func(dir, cache string, pkgs ...string) {
		res, err := hx.RunAnalyzers(dir, filepath.Join(*work, cache), "module", config.DefaultConfig, []*analysis.Analyzer{an}, nil, pkgs...)
		if err != nil {
			fmt.Fprintln(os.Stderr, "run failed:", err)
			os.Exit(2)
		}
		for _, r := range res {
			if r.Initial && (r.Failed || len(r.Errors) > 0) {
				fmt.Fprintf(os.Stderr, "package %s failed to load: %v\n", r.Package.ID, r.Errors)
				os.Exit(2)
			}
		}
	}
	check(mod, "cache1", "./app", "./app2", "./app3", "./selfuse")
	if *real != "" {
		check(*repo, "cache2", strings.Split(*real, ",")...)
	}
	// keep only initial packages' runs is not needed: the analyzer only runs on initial packages
	sort.Slice(o.Runs, func(i, j int) bool {
		if o.Runs[i].Pkg != o.Runs[j].Pkg {
			return o.Runs[i].Pkg < o.Runs[j].Pkg
		}
		return o.Runs[i].Pattern < o.Runs[j].Pattern
	})
	for _, cp := range pats {
		o.Patterns = append(o.Patterns, cp.info)
	}
	hx.EmitJSON(*out, o)
}
