// Reflective serialisation of go/ast values and parsed pattern nodes into Gallina literals
// (types of coq/Model/C09_Types.v). The encoding follows what pattern/match.go itself looks at:
// struct fields by name, token.Pos / *ast.Object / *ast.CommentGroup fields dropped (as matchAST does),
// typed nil pointers, nil-ness and element kind of slices kept.
package main

import (
	"fmt"
	"go/ast"
	"go/printer"
	"go/token"
	"reflect"
	"sort"
	"strings"

	"honnef.co/go/tools/pattern"
)

var (
	rtPos          = reflect.TypeFor[token.Pos]()
	rtObject       = reflect.TypeFor[*ast.Object]()
	rtCommentGroup = reflect.TypeFor[*ast.CommentGroup]()
	rtTok          = reflect.TypeFor[token.Token]()
	rtExprSlice    = reflect.TypeFor[[]ast.Expr]()
	rtStmtSlice    = reflect.TypeFor[[]ast.Stmt]()
	rtFieldSlice   = reflect.TypeFor[[]*ast.Field]()
	rtReflectValue = reflect.TypeFor[reflect.Value]()
	rtNode         = reflect.TypeFor[ast.Node]()
)

type unserialisable struct{ why string }

func bad(format string, args ...any) { panic(unserialisable{fmt.Sprintf(format, args...)}) }

func coqStr(s string) string {
	var b strings.Builder
	b.WriteByte('"')
	for _, r := range s {
		switch {
		case r == '"':
			b.WriteString(`""`)
		case r >= 32 && r < 127:
			b.WriteRune(r)
		default:
			bad("non-printable character in string %q", s)
		}
	}
	b.WriteByte('"')
	return b.String()
}

func coqList(items []string) string { return "[" + strings.Join(items, "; ") + "]" }

func coqZ(n int64) string {
	if n < 0 {
		return fmt.Sprintf("(%d)%%Z", n)
	}
	return fmt.Sprintf("%d%%Z", n)
}

// valOf renders a Go value that can appear on the right-hand side of pattern.match (or in Matcher.State).
func valOf(x any) string {
	if x == nil {
		return "VNil"
	}
	return valOfRV(reflect.ValueOf(x))
}

func valOfRV(v reflect.Value) string {
	if !v.IsValid() {
		return "VNil"
	}
	t := v.Type()
	if t == rtReflectValue {
		return `(VOpaque "reflect.Value")`
	}
	switch v.Kind() {
	case reflect.Interface:
		if v.IsNil() {
			return "VNil"
		}
		return valOfRV(v.Elem())
	case reflect.Pointer:
		if t.Elem().Kind() != reflect.Struct || t.Elem().PkgPath() != "go/ast" {
			bad("pointer to %s", t.Elem())
		}
		name := t.Elem().Name()
		if v.IsNil() {
			return "(VNilPtr " + coqStr(name) + ")"
		}
		s := v.Elem()
		var fs []string
		for i := 0; i < s.NumField(); i++ {
			ft := s.Field(i).Type()
			if ft == rtPos || ft == rtObject || ft == rtCommentGroup {
				continue
			}
			fs = append(fs, "("+coqStr(t.Elem().Field(i).Name)+", "+valOfRV(s.Field(i))+")")
		}
		return "(VNode " + coqStr(name) + " " + coqList(fs) + ")"
	case reflect.Slice:
		k := "LOther"
		switch t {
		case rtExprSlice:
			k = "LExpr"
		case rtStmtSlice:
			k = "LStmt"
		case rtFieldSlice:
			k = "LField"
		}
		var es []string
		for i := 0; i < v.Len(); i++ {
			es = append(es, valOfRV(v.Index(i)))
		}
		isnil := "false"
		if v.IsNil() {
			isnil = "true"
		}
		return "(VList " + k + " " + isnil + " " + coqList(es) + ")"
	case reflect.String:
		return "(VStr " + coqStr(v.String()) + ")"
	case reflect.Bool:
		if v.Bool() {
			return "(VBool true)"
		}
		return "(VBool false)"
	case reflect.Int:
		if t == rtTok {
			return "(VTok " + coqZ(v.Int()) + ")"
		}
		return "(VInt " + coqZ(v.Int()) + ")"
	}
	bad("value of type %s", t)
	return ""
}

var typeAware = map[string]bool{"Symbol": true, "Builtin": true, "Object": true, "IntegerLiteral": true, "TrulyConstantExpression": true}

// patOf renders a parsed pattern node, including the idx the parser assigned to each Binding
// (unexported field, read with reflect.Value.Int()).
func patOf(n pattern.Node) string {
	if n == nil {
		return "PNone"
	}
	switch n := n.(type) {
	case pattern.Any:
		return "PAny"
	case pattern.Nil:
		return "PNil"
	case pattern.String:
		return "(PString " + coqStr(string(n)) + ")"
	case pattern.Token:
		return "(PToken " + coqZ(int64(n)) + ")"
	case pattern.Binding:
		idx := reflect.ValueOf(n).FieldByName("idx").Int()
		return fmt.Sprintf("(PBinding %s %d %s)", coqStr(n.Name), idx, patOf(n.Node))
	case pattern.List:
		return "(PList " + patOf(n.Head) + " " + patOf(n.Tail) + ")"
	case pattern.Or:
		var ps []string
		for _, c := range n.Nodes {
			ps = append(ps, patOf(c))
		}
		return "(POr " + coqList(ps) + ")"
	case pattern.Not:
		return "(PNot " + patOf(n.Node) + ")"
	}
	v := reflect.ValueOf(n)
	t := v.Type()
	if t.Kind() != reflect.Struct {
		bad("pattern node %T", n)
	}
	if typeAware[t.Name()] {
		return "(PTypeAware " + coqStr(t.Name()) + " " + patOf(v.Field(0).Interface().(pattern.Node)) + ")"
	}
	var fs []string
	for i := 0; i < v.NumField(); i++ {
		var sub pattern.Node
		if f := v.Field(i).Interface(); f != nil {
			sub = f.(pattern.Node)
		}
		fs = append(fs, "("+coqStr(t.Field(i).Name)+", "+patOf(sub)+")")
	}
	return "(PNode " + coqStr(t.Name()) + " " + coqList(fs) + ")"
}

func stateOf(st pattern.State) string {
	var names []string
	for k := range st {
		names = append(names, k)
	}
	sort.Strings(names)
	var es []string
	for _, k := range names {
		es = append(es, "("+coqStr(k)+", "+valOf(st[k])+")")
	}
	return coqList(es)
}

func stringsOf(l []string) string {
	var es []string
	for _, s := range l {
		es = append(es, coqStr(s))
	}
	return coqList(es)
}

// try runs f and converts an unserialisable panic into an error.
func try(f func()) (err error) {
	defer func() {
		if r := recover(); r != nil {
			if u, ok := r.(unserialisable); ok {
				err = fmt.Errorf("%s", u.why)
				return
			}
			panic(r)
		}
	}()
	f()
	return nil
}

func nodeSrc(fset *token.FileSet, n ast.Node) string {
	var b strings.Builder
	printer.Fprint(&b, fset, n)
	s := strings.Join(strings.Fields(b.String()), " ")
	if len(s) > 120 {
		s = s[:120] + "..."
	}
	return s
}
