// hcgen: self-test of the program generator shared by hc14/hc02: for each seed in [from,to] generate the
// packages, type-check them through go/packages and build IR once. Prints one line per seed; exit 1 if a
// generated package does not load. Not part of any check; used when the generator is changed.
package main

import (
	"flag"
	"fmt"
	"os"

	"verifharness/hx"
)

func main() {
	from := flag.Uint64("from", 1, "first seed")
	to := flag.Uint64("to", 10, "last seed")
	npk := flag.Int("pkgs", 3, "packages per seed")
	nf := flag.Int("funcs", 30, "functions per package")
	flag.Parse()
	bad := 0
	for seed := *from; seed <= *to; seed++ {
		work, _ := os.MkdirTemp("", "hcgen-")
		rnd := hx.NewRand(seed)
		items, err := hx.GenCorpus(rnd.Fork(), work, *npk, *nf)
		if err != nil {
			fmt.Printf("seed %d: FAIL %v\n", seed, err)
			bad++
		} else {
			n := 0
			for _, it := range items {
				_, fns := hx.BuildFunctions(it.Pkgs, 0)
				n += len(fns)
			}
			fmt.Printf("seed %d: ok, %d functions\n", seed, n)
		}
		os.RemoveAll(work)
	}
	if bad > 0 {
		os.Exit(1)
	}
}
