package main

// Generator of multi-package programs that make the per-package IR builders meet on shared functions:
// cross-package generic instances (gen, gen2, and generics local to user packages), methods of types of a
// package that is only an indirect dependency (deep, reached through mid), promoted methods through
// embedded structs/interfaces (wrappers), method values (bounds) and method expressions (thunks),
// range-over-func iterators and closures. No standard-library imports: the packages are type-checked
// in-process with a map importer.

import (
	"fmt"
	"strings"

	"verifharness/hx"
)

type genPkg struct {
	Path    string
	Name    string
	Src     string
	Imports []string
}

const srcGen = `package gen

type Number interface{ ~int | ~int64 | ~float64 }

type Box[T any] struct{ V T }

func (b Box[T]) Get() T                 { return b.V }
func (b *Box[T]) Set(v T)               { b.V = v }
func (b Box[T]) With(f func(T) T) Box[T] { return Wrap(f(b.V)) }

type Pair[K comparable, V any] struct {
	Key K
	Val V
}

func MkPair[K comparable, V any](k K, v V) Pair[K, V] { return Pair[K, V]{k, v} }
func (p *Pair[K, V]) SetVal(v V)                      { p.Val = v }
func (p Pair[K, V]) Name() string                     { return "pair" }

type node[T any] struct {
	v    T
	next *node[T]
}

type List[T any] struct {
	head *node[T]
	n    int
}

func (l *List[T]) Push(v T) { l.head = &node[T]{v, l.head}; l.n++ }
func (l *List[T]) Len() int { return l.n }
func (l *List[T]) Each(f func(T)) {
	for n := l.head; n != nil; n = n.next {
		f(n.v)
	}
}
func (l *List[T]) All() func(yield func(T) bool) {
	return func(yield func(T) bool) {
		for n := l.head; n != nil; n = n.next {
			if !yield(n.v) {
				return
			}
		}
	}
}

func Wrap[T any](v T) Box[T] { return Box[T]{V: v} }

func Map[T, U any](xs []T, f func(T) U) []U {
	var out []U
	for _, x := range xs {
		out = append(out, f(x))
	}
	return out
}

func Sum[T Number](xs []T) T {
	var s T
	for _, x := range xs {
		s += x
	}
	return s
}

func Apply[T any](b Box[T], f func(T) T) Box[T] { return Wrap(f(b.Get())) }
func Twice[T any](v T) Pair[int, Box[T]]         { return MkPair(2, Wrap(v)) }

func Fold[T, A any](l *List[T], a A, f func(A, T) A) A {
	l.Each(func(v T) { a = f(a, v) })
	return a
}

func Keys[K comparable, V any](m map[K]V) []K {
	var ks []K
	for k := range m {
		ks = append(ks, k)
	}
	return ks
}

// Pick and Other have identical signatures up to parameter names.
func Pick[T any](first, second T) T { return first }
func Other[T any](a, b T) T        { return b }

func First[T any](l *List[T]) (T, bool) {
	for v := range l.All() {
		return v, true
	}
	var z T
	return z, false
}
`

const srcGen2 = `package gen2

import "c18/gen"

func Lift[T any](v T) gen.Box[gen.Box[T]] { return gen.Wrap(gen.Wrap(v)) }

func SumBoxes[T gen.Number](bs []gen.Box[T]) T {
	return gen.Sum(gen.Map(bs, func(b gen.Box[T]) T { return b.Get() }))
}

type Stack[T any] struct{ gen.List[T] }

func (s *Stack[T]) Top() (T, bool) { return gen.First(&s.List) }
func (s *Stack[T]) Count() int {
	return gen.Fold(&s.List, 0, func(a int, _ T) int { return a + 1 })
}

type Named[T any] struct {
	gen.Pair[string, T]
	Extra gen.Box[T]
}

func MkNamed[T any](n string, v T) Named[T] {
	return Named[T]{gen.MkPair(n, v), gen.Wrap(v)}
}
`

const srcBase = `package base

type Shape interface {
	Area() int
	Name() string
}

type Namer interface{ Name() string }

type Named struct{ N string }

func (n Named) Name() string    { return n.N }
func (n *Named) Rename(s string) { n.N = s }

type Rect struct {
	Named
	W, H int
}

func (r Rect) Area() int    { return r.W * r.H }
func (r *Rect) Scale(k int) { r.W *= k; r.H *= k }

type Circle struct {
	*Named
	R int
}

func (c Circle) Area() int { return 3 * c.R * c.R }

type Logger interface{ Log(string) }

type Sink struct{ Lines []string }

func (s *Sink) Log(m string) { s.Lines = append(s.Lines, m) }

func Total(ss []Shape) int {
	t := 0
	for _, s := range ss {
		t += s.Area()
	}
	return t
}
`

const srcDeep = `package deep

type Counter struct{ n int }

func (c *Counter) Inc() int  { c.n++; return c.n }
func (c Counter) Value() int { return c.n }

type Tagged[T any] struct{ Tag T }

func (t Tagged[T]) Get() T   { return t.Tag }
func (t *Tagged[T]) Put(v T) { t.Tag = v }

type Meter interface{ Inc() int }
`

const srcMid = `package mid

import "c18/deep"

func NewCounter() *deep.Counter        { return &deep.Counter{} }
func Tag[T any](v T) deep.Tagged[T]    { return deep.Tagged[T]{Tag: v} }
func AsMeter(c *deep.Counter) deep.Meter { return c }

type Holder struct{ deep.Counter }

type TagHolder struct{ deep.Tagged[int] }
`

// type arguments the user packages draw from; (expression, needs import)
var typePool = []string{"int", "string", "float64", "base.Rect", "*base.Rect", "gen.Box[int]", "[]int", "base.Shape", "mid.Holder", "gen.Pair[string, int]", "func(int) int", "int64"}
var numPool = []string{"int", "int64", "float64"}

type progSpec struct {
	Pkgs      []genPkg
	UserPaths []string
}

// genProgram returns the packages in dependency order.
func genProgram(r *hx.Rand) progSpec {
	spec := progSpec{}
	spec.Pkgs = append(spec.Pkgs,
		genPkg{Path: "c18/gen", Name: "gen", Src: srcGen},
		genPkg{Path: "c18/gen2", Name: "gen2", Src: srcGen2, Imports: []string{"c18/gen"}},
		genPkg{Path: "c18/base", Name: "base", Src: srcBase},
		genPkg{Path: "c18/deep", Name: "deep", Src: srcDeep},
		genPkg{Path: "c18/mid", Name: "mid", Src: srcMid, Imports: []string{"c18/deep"}},
	)
	nuser := 3 + r.Intn(4)
	// a few type arguments every user package shares, so that the same instances are wanted everywhere
	shared := []string{typePool[r.Intn(len(typePool))], typePool[r.Intn(len(typePool))], typePool[r.Intn(len(typePool))]}
	for k := 1; k <= nuser; k++ {
		name := fmt.Sprintf("u%d", k)
		var b strings.Builder
		imports := []string{"c18/gen", "c18/gen2", "c18/base", "c18/mid"}
		prev := ""
		if k > 1 && r.Chance(60) {
			prev = fmt.Sprintf("u%d", 1+r.Intn(k-1))
			imports = append(imports, "c18/"+prev)
		}
		fmt.Fprintf(&b, "package %s\n\nimport (\n", name)
		for _, im := range imports {
			fmt.Fprintf(&b, "\t%q\n", im)
		}
		b.WriteString(")\n\n")
		b.WriteString("var (\n\t_ gen.Box[int]\n\t_ gen2.Stack[int]\n\t_ base.Rect\n\t_ mid.Holder\n)\n\n")
		if prev != "" {
			fmt.Fprintf(&b, "var _ %s.W\n\n", prev)
		}
		// embedding type with promoted methods through struct, pointer and interface fields
		fmt.Fprintf(&b, "type W struct {\n\tbase.Rect\n\tbase.Logger\n\tC *mid.Holder\n}\n\n")
		fmt.Fprintf(&b, "func (w W) Own() int { return w.Area() + %d }\n\n", k)
		if prev != "" && r.Bool() {
			fmt.Fprintf(&b, "type WW struct {\n\t%s.W\n\tgen.Box[int]\n}\n\n", prev)
		}
		fmt.Fprintf(&b, "type G[T any] struct{ gen.Box[T] }\n\nfunc (g G[T]) Both() (T, T) { return g.Get(), g.V }\n\n")
		fmt.Fprintf(&b, "func Local[T any](v T) gen.Box[T] {\n\treturn gen.Apply(gen.Wrap(v), func(x T) T { return x })\n}\n\n")
		pick := func() string {
			if r.Chance(55) {
				return shared[r.Intn(len(shared))]
			}
			return typePool[r.Intn(len(typePool))]
		}
		nf := 6 + r.Intn(10)
		for i := 0; i < nf; i++ {
			a, c := pick(), pick()
			n := numPool[r.Intn(len(numPool))]
			fn := fmt.Sprintf("f%d", i)
			switch r.Intn(16) {
			case 0:
				fmt.Fprintf(&b, "func %s() int {\n\tvar z %s\n\txs := gen.Map([]%s{z}, func(a %s) %s { var y %s; return y })\n\treturn len(xs)\n}\n\n", fn, a, a, a, c, c)
			case 1:
				fmt.Fprintf(&b, "func %s() {\n\tvar z %s\n\tb := gen.Wrap(z)\n\tb.Set(z)\n\tf := b.Get\n\tg := gen.Box[%s].Get\n\th := (*gen.Box[%s]).Set\n\t_ = f()\n\t_ = g(b)\n\th(&b, z)\n}\n\n", fn, a, a, a)
			case 2:
				fmt.Fprintf(&b, "func %s() %s {\n\treturn gen.Sum([]%s{1, 2, 3}) + gen2.SumBoxes([]gen.Box[%s]{gen.Wrap[%s](4)})\n}\n\n", fn, n, n, n, n)
			case 3:
				fmt.Fprintf(&b, "func %s() int {\n\tvar z %s\n\tl := gen2.Lift(z)\n\tvar s gen2.Stack[%s]\n\ts.Push(z)\n\ts.Each(func(%s) {})\n\tn := 0\n\tfor range s.All() {\n\t\tn++\n\t}\n\t_, _ = s.Top()\n\t_ = l.Get().Get()\n\treturn n + s.Count() + s.Len()\n}\n\n", fn, a, a, a)
			case 4:
				fmt.Fprintf(&b, "func %s() int {\n\tvar w W\n\tvar s base.Shape = w\n\tvar p base.Shape = &w\n\tf := w.Area\n\tg := W.Area\n\th := (*W).Scale\n\ti := base.Shape.Area\n\tj := w.Name\n\th(&w, 2)\n\treturn f() + g(w) + i(s) + p.Area() + len(j())\n}\n\n", fn)
			case 5:
				fmt.Fprintf(&b, "func %s(l base.Logger) func(string) {\n\tw := W{Logger: l}\n\tk := w.Log\n\tm := base.Logger.Log\n\tm(l, \"x\")\n\tw.Rename(\"y\")\n\tr := w.Rename\n\tr(\"z\")\n\treturn k\n}\n\n", fn)
			case 6:
				fmt.Fprintf(&b, "func %s() int {\n\tc := mid.NewCounter()\n\tc.Inc()\n\tv := c.Value\n\tm := mid.AsMeter(c)\n\ti := m.Inc\n\treturn v() + i()\n}\n\n", fn)
			case 7:
				fmt.Fprintf(&b, "func %s() %s {\n\tvar z %s\n\tt := mid.Tag(z)\n\tt.Put(z)\n\tg := t.Get\n\treturn g()\n}\n\n", fn, a, a)
			case 8:
				fmt.Fprintf(&b, "func %s() int {\n\tvar h mid.Holder\n\th.Inc()\n\tvar th mid.TagHolder\n\tth.Put(3)\n\tw := W{C: &h}\n\tf := w.C.Inc\n\treturn h.Value() + th.Get() + f()\n}\n\n", fn)
			case 9:
				fmt.Fprintf(&b, "func %s() func() %s {\n\treturn func() %s {\n\t\tdefer func() { _ = gen.Twice[%s] }()\n\t\treturn gen.Sum([]%s{1})\n\t}\n}\n\n", fn, n, n, a, n)
			case 10:
				fmt.Fprintf(&b, "func %s() (%s, %s) {\n\tvar z %s\n\tg := G[%s]{Local(z)}\n\tb := g.Both\n\t_ = G[%s].Get\n\treturn b()\n}\n\n", fn, a, a, a, a, a)
			case 11:
				if prev != "" {
					fmt.Fprintf(&b, "func %s() int {\n\tvar z %s\n\tb := %s.Local(z)\n\tvar w %s.W\n\tf := w.Own\n\t_ = b.Get()\n\treturn f() + w.Area()\n}\n\n", fn, a, prev, prev)
				} else {
					fmt.Fprintf(&b, "func %s() int {\n\tvar z %s\n\tb := Local(z)\n\t_ = b.With(func(x %s) %s { return x })\n\treturn 1\n}\n\n", fn, a, a, a)
				}
			case 12:
				fmt.Fprintf(&b, "func %s() int {\n\tvar z %s\n\tp := gen.MkPair(\"k\", z)\n\tp.SetVal(z)\n\tn := gen2.MkNamed(\"n\", z)\n\tf := n.Name\n\tvar nm base.Namer = n\n\tks := gen.Keys(map[string]%s{\"a\": z})\n\treturn len(f()) + len(nm.Name()) + len(ks) + len(p.Name())\n}\n\n", fn, a, a)
			case 13:
				fmt.Fprintf(&b, "func %s() int {\n\tss := []base.Shape{base.Rect{W: 1, H: 2}, base.Circle{R: 1}, W{}}\n\tvar l gen.List[base.Shape]\n\tfor _, s := range ss {\n\t\tl.Push(s)\n\t}\n\treturn gen.Fold(&l, 0, func(a int, s base.Shape) int { return a + s.Area() }) + base.Total(ss)\n}\n\n", fn)
			case 14:
				fmt.Fprintf(&b, "func %s() any {\n\tvar z %s\n\tvar y %s\n\treturn []any{gen.Wrap(z), gen.Twice(y), gen2.Lift(y), mid.Tag(z), Local(y)}\n}\n\n", fn, a, c)
			default:
				fmt.Fprintf(&b, "var v%d = gen.Wrap[%s]\n\nfunc %s() int {\n\tvar z %s\n\tgo func() { _ = v%d(z) }()\n\tdefer gen.Wrap(z).With(func(x %s) %s { return x })\n\treturn 0\n}\n\n", i, a, fn, a, i, a, a)
			}
		}
		spec.Pkgs = append(spec.Pkgs, genPkg{Path: "c18/" + name, Name: name, Src: b.String(), Imports: imports})
		spec.UserPaths = append(spec.UserPaths, "c18/"+name)
	}
	return spec
}

// aliasProgram is the directed probe for two recorded findings (both: first come, first kept):
//   - the name (and printed types) of a generic instance are those spelled by whichever package requested it
//     first, so with alias-typed type arguments they depend on the order in which packages are built (a map
//     iteration even when serial);
//   - the Signature of a generic function's instance is the canonical representative of its type, i.e. the
//     first identical signature canonicalised: gen.Pick[string] (first, second) and gen.Other[string] (a, b)
//     share one *types.Signature and both print the parameter names of whichever was instantiated first.
func aliasProgram() progSpec {
	return progSpec{Pkgs: []genPkg{
		{Path: "c18/gen", Name: "gen", Src: srcGen},
		{Path: "c18/al1", Name: "al1", Imports: []string{"c18/gen"}, Src: `package al1

import "c18/gen"

type A = int
type S = []string

func F() int {
	b := gen.Wrap[A](0)
	var l gen.List[S]
	l.Push(nil)
	return b.Get() + l.Len() + len(gen.Map([]A{1}, func(a A) S { return nil })) + len(gen.Pick("x", "y"))
}
`},
		{Path: "c18/al2", Name: "al2", Imports: []string{"c18/gen"}, Src: `package al2

import "c18/gen"

func G() int {
	b := gen.Wrap[int](0)
	var l gen.List[[]string]
	l.Push(nil)
	return b.Get() + l.Len() + len(gen.Map([]int{1}, func(a int) []string { return nil })) + len(gen.Other("x", "y"))
}
`},
		{Path: "c18/al3", Name: "al3", Imports: []string{"c18/gen", "c18/al1"}, Src: `package al3

import (
	"c18/al1"
	"c18/gen"
)

type B = al1.A

func H() int {
	b := gen.Wrap[B](0)
	return b.Get() + al1.F()
}
`},
	}, UserPaths: []string{"c18/al1", "c18/al2", "c18/al3"}}
}
