// hc18: builds the IR of generated multi-package programs (and a few packages of the repository) under
// many schedules and compares everything observable (DESIGN §6 C18):
//
//   - serial (ir.BuildSerially), parallel with GOMAXPROCS in {1,2,4,16} (one child process per value, since
//     go/ir sizes its CPU semaphore at start-up), concurrent Package.Build/Program.Build calls from many
//     goroutines, repeated Build calls, concurrent MethodValue calls after the build;
//   - every function (members, methods, wrappers, bounds, thunks, instances, anonymous) is dumped with
//     ir.WriteFunction, values renumbered canonically, and the dumps are compared as multisets per name;
//   - when a Package.Build call returns, every function of that package and every shared function reachable
//     from it must be fully built; shared functions must exist once; MethodValue must return one object;
//   - the task/builder event log of every build (hook go/ir/verif_c18.go) is exported for replay in Coq.
//
// Parent mode (default) runs the scenarios as child processes and merges their outputs.
package main

import (
	"bytes"
	"crypto/sha1"
	"encoding/json"
	"flag"
	"fmt"
	"go/ast"
	"go/parser"
	"go/token"
	"go/types"
	"os"
	"os/exec"
	"regexp"
	"runtime"
	"runtime/debug"
	"sort"
	"strconv"
	"strings"
	"sync"
	"time"

	"golang.org/x/tools/go/packages"
	"golang.org/x/tools/go/types/typeutil"
	"honnef.co/go/tools/go/ir"
	"verifharness/hx"
)

// ---------------------------------------------------------------- data exchanged between child and parent

type Ev struct {
	K  int    `json:"k"`
	W  int    `json:"w,omitempty"`
	X  int    `json:"x,omitempty"`
	Y  int    `json:"y,omitempty"`
	Ys []int  `json:"ys,omitempty"`
	F  int    `json:"f,omitempty"`
	P  string `json:"p,omitempty"`
}

type Problem struct {
	Kind   string // unbuilt-on-return | duplicate-shared | methodvalue-identity | rebuilt | panic
	Detail string
	Func   string
}

type BuildOut struct {
	Prog     string // program id: g<n> (generated) or repo
	Mode     string // builder mode letters
	Variant  string // which packages were created how
	Scenario string
	Rep      int
	Dump     map[string][]string // function name -> sorted canonical dumps (multiset)
	DumpN    map[string][]string // the same with parameters renamed positionally and the signature line dropped
	RTypes   []string            // number of Program.RuntimeTypes()
	Events   []Ev                // one continuous log: build, repeated Build calls, then the MethodValue phase
	MVStart  int                 // index in Events where the MethodValue phase starts
	Problems []Problem
	NFuncs   int
	NShared  int         // functions created as potentially shared (instances, wrappers, on-demand methods)
	NWanted2 int         // shared functions referenced from more than one package
	Aliases  [][2]string // (printed spelling of an alias, printed spelling of the type it stands for), longest first
}

type ChildOut struct {
	Scenario string
	Procs    int
	Builds   []BuildOut
}

// ---------------------------------------------------------------- loading

type loaded struct {
	Path  string
	Types *types.Package
	Files []*ast.File
	Info  *types.Info
}

type program struct {
	ID      string
	Fset    *token.FileSet
	Pkgs    []*loaded // dependency order
	Gen     bool
	Initial map[string]bool // repo program: the packages built from syntax
}

type mapImporter map[string]*types.Package

func (m mapImporter) Import(path string) (*types.Package, error) {
	if p, ok := m[path]; ok {
		return p, nil
	}
	return nil, fmt.Errorf("package %q not generated", path)
}

func newInfo() *types.Info {
	return &types.Info{
		Types:        make(map[ast.Expr]types.TypeAndValue),
		Defs:         make(map[*ast.Ident]types.Object),
		Uses:         make(map[*ast.Ident]types.Object),
		Implicits:    make(map[ast.Node]types.Object),
		Scopes:       make(map[ast.Node]*types.Scope),
		Selections:   make(map[*ast.SelectorExpr]*types.Selection),
		Instances:    make(map[*ast.Ident]types.Instance),
		FileVersions: make(map[*ast.File]string),
	}
}

func loadGenerated(id string, spec progSpec) *program {
	p := &program{ID: id, Fset: token.NewFileSet(), Gen: true}
	imp := mapImporter{}
	for _, gp := range spec.Pkgs {
		f, err := parser.ParseFile(p.Fset, gp.Path+"/"+gp.Name+".go", gp.Src, parser.ParseComments|parser.SkipObjectResolution)
		if err != nil {
			fatal("generated package %s does not parse: %v\n%s", gp.Path, err, gp.Src)
		}
		info := newInfo()
		conf := types.Config{Importer: imp, GoVersion: "go1.24"}
		tp, err := conf.Check(gp.Path, p.Fset, []*ast.File{f}, info)
		if err != nil {
			fatal("generated package %s does not type-check: %v\n%s", gp.Path, err, numbered(gp.Src))
		}
		imp[gp.Path] = tp
		p.Pkgs = append(p.Pkgs, &loaded{Path: gp.Path, Types: tp, Files: []*ast.File{f}, Info: info})
	}
	return p
}

func numbered(s string) string {
	var b strings.Builder
	for i, l := range strings.Split(s, "\n") {
		fmt.Fprintf(&b, "%3d %s\n", i+1, l)
	}
	return b.String()
}

// repoDepsFromSource: also build the IR of every dependency (standard library included) from syntax.
var repoDepsFromSource = false

func loadRepo(repo string, patterns []string) *program {
	cfg := &packages.Config{
		// initial packages from source, everything else from export data (one type universe, see go/packages)
		Mode: packages.NeedName | packages.NeedFiles | packages.NeedCompiledGoFiles | packages.NeedImports |
			packages.NeedTypes | packages.NeedSyntax | packages.NeedTypesInfo | packages.NeedTypesSizes,
		Dir: repo,
		Env: hx.GoEnv(),
	}
	if repoDepsFromSource {
		cfg.Mode |= packages.NeedDeps
	}
	initial, err := packages.Load(cfg, patterns...)
	if err != nil {
		fatal("packages.Load: %v", err)
	}
	p := &program{ID: "repo", Initial: map[string]bool{}}
	for _, pp := range initial {
		p.Initial[pp.PkgPath] = true
	}
	seen := map[*packages.Package]bool{}
	var visit func(pp *packages.Package)
	visit = func(pp *packages.Package) {
		if seen[pp] {
			return
		}
		seen[pp] = true
		paths := make([]string, 0, len(pp.Imports))
		for k := range pp.Imports {
			paths = append(paths, k)
		}
		sort.Strings(paths)
		for _, k := range paths {
			visit(pp.Imports[k])
		}
		if pp.Types == nil || len(pp.Errors) > 0 || (p.Initial[pp.PkgPath] && pp.IllTyped) {
			if pp.PkgPath != "unsafe" {
				fatal("repository package %s did not load cleanly: %v", pp.PkgPath, pp.Errors)
			}
		}
		if p.Fset == nil {
			p.Fset = pp.Fset
		}
		if repoDepsFromSource && len(pp.Syntax) > 0 {
			p.Initial[pp.PkgPath] = true
		}
		p.Pkgs = append(p.Pkgs, &loaded{Path: pp.PkgPath, Types: pp.Types, Files: pp.Syntax, Info: pp.TypesInfo})
	}
	sort.Slice(initial, func(i, j int) bool { return initial[i].PkgPath < initial[j].PkgPath })
	for _, pp := range initial {
		visit(pp)
	}
	return p
}

// ---------------------------------------------------------------- creating and building

type variant struct {
	Name string
	// how to create package path: 0 = with syntax, 1 = without syntax (as if from export data), 2 = not at all
	How func(path string) int
}

var variants = []variant{
	{"all", func(string) int { return 0 }},
	// mid as if loaded from export data, its import deep not created at all: methods of deep's types are
	// created on demand from type information (Program.objectMethods) by whichever builder asks first
	{"nodeep", func(p string) int {
		if p == "c18/deep" {
			return 2
		}
		if p == "c18/mid" {
			return 1
		}
		return 0
	}},
	{"deepbin", func(p string) int {
		if p == "c18/deep" || p == "c18/base" {
			return 1
		}
		return 0
	}},
}

// external[pkg]: created without syntax; Package.Build does nothing for it and its functions keep no body
// ("from type information"), as documented.
var external = map[*ir.Package]bool{}

func create(p *program, mode ir.BuilderMode, v variant) (*ir.Program, []*ir.Package) {
	prog := ir.NewProgram(p.Fset, mode)
	external = map[*ir.Package]bool{}
	var pkgs []*ir.Package
	for _, l := range p.Pkgs {
		how := v.How(l.Path)
		if !p.Gen && !p.Initial[l.Path] {
			how = 1 // dependencies of the chosen repository packages: types only (export data)
		}
		switch how {
		case 0:
			if len(l.Files) == 0 {
				pk := prog.CreatePackage(l.Types, nil, nil, true)
				external[pk] = true
				pkgs = append(pkgs, pk)
			} else {
				pkgs = append(pkgs, prog.CreatePackage(l.Types, l.Files, l.Info, true))
			}
		case 1:
			pk := prog.CreatePackage(l.Types, nil, nil, true)
			external[pk] = true
			pkgs = append(pkgs, pk)
		}
	}
	return prog, pkgs
}

var valueName = regexp.MustCompile(`\bt[0-9]+\b`)

// canonical renumbers value names in order of first appearance.
func canonical(text string) string {
	m := map[string]string{}
	return valueName.ReplaceAllStringFunc(text, func(s string) string {
		if r, ok := m[s]; ok {
			return r
		}
		r := "v" + strconv.Itoa(len(m))
		m[s] = r
		return r
	})
}

func dumpFn(fn *ir.Function) (s string) {
	defer func() {
		if r := recover(); r != nil {
			s = fmt.Sprintf("PANIC while printing %s: %v", fn.String(), r)
		}
	}()
	var buf bytes.Buffer
	ir.WriteFunction(&buf, fn)
	return canonical(buf.String())
}

var sigLine = regexp.MustCompile(`(?m)^func .*:\n`)

// paramNormal: parameters renamed by position, signature line dropped. Used only to recognise the recorded
// finding that an instance's Signature (hence the names of its parameters) is the first identical signature
// the program's type canonicaliser happened to see.
func paramNormal(fn *ir.Function, text string) string {
	for i, p := range fn.Params {
		if n := p.Name(); n != "" && n != "_" {
			text = regexp.MustCompile(`\b`+regexp.QuoteMeta(n)+`\b`).ReplaceAllLiteralString(text, "p"+strconv.Itoa(i)+"_")
		}
	}
	return sigLine.ReplaceAllLiteralString(text, "")
}

// reachableFuncs: closure of roots under anonymous functions and function-valued operands.
// follow(fn) decides whether to look inside fn.
func reachableFuncs(roots []*ir.Function, follow func(*ir.Function) bool) []*ir.Function {
	seen := map[*ir.Function]bool{}
	var order []*ir.Function
	var visit func(fn *ir.Function)
	visit = func(fn *ir.Function) {
		if fn == nil || seen[fn] {
			return
		}
		seen[fn] = true
		order = append(order, fn)
		if !follow(fn) {
			return
		}
		for _, a := range fn.AnonFuncs {
			visit(a)
		}
		var buf [10]*ir.Value
		for _, b := range fn.Blocks {
			if b == nil {
				continue
			}
			for _, ins := range b.Instrs {
				if ins == nil {
					continue
				}
				for _, op := range ins.Operands(buf[:0]) {
					if op == nil || *op == nil {
						continue
					}
					if f, ok := (*op).(*ir.Function); ok {
						visit(f)
					}
				}
			}
		}
	}
	for _, r := range roots {
		visit(r)
	}
	return order
}

func pkgRoots(p *ir.Package) []*ir.Function {
	var roots []*ir.Function
	roots = append(roots, p.Functions...)
	names := make([]string, 0, len(p.Members))
	for n := range p.Members {
		names = append(names, n)
	}
	sort.Strings(names)
	for _, n := range names {
		if f, ok := p.Members[n].(*ir.Function); ok {
			roots = append(roots, f)
		}
	}
	return roots
}

// checkReturned: p.Build() has just returned. Every function of p and every shared function
// (Pkg == nil: instance, wrapper, on-demand method) reachable from them must be fully built.
// Functions that belong to another package are that package's business.
func checkReturned(p *ir.Package) (probs []Problem) {
	defer func() {
		if r := recover(); r != nil {
			probs = append(probs, Problem{Kind: "unbuilt-on-return", Detail: fmt.Sprintf("panic while walking the functions of %s right after its Build returned: %v", p.Pkg.Path(), r)})
		}
	}()
	if external[p] {
		return nil
	}
	// only functions p's builder is responsible for are inspected (another package's function may be under
	// construction by its own builder right now)
	fns := reachableFuncs(pkgRoots(p), func(fn *ir.Function) bool {
		return (fn.Pkg == nil || fn.Pkg == p) && ir.VerifBuilt(fn)
	})
	for _, fn := range fns {
		if (fn.Pkg == nil || fn.Pkg == p) && !ir.VerifBuilt(fn) {
			probs = append(probs, Problem{Kind: "unbuilt-on-return", Func: fn.String(),
				Detail: fmt.Sprintf("Package(%s).Build returned while %s (synthetic %q, shared=%v) was not fully built", p.Pkg.Path(), fn.String(), fn.Synthetic, ir.VerifShared(fn))})
		}
	}
	return probs
}

func convEvents(evs []ir.VerifC18Event, pkgIdx map[string]int) []Ev {
	out := make([]Ev, 0, len(evs))
	for _, e := range evs {
		ev := Ev{K: int(e.Kind), W: e.W, X: e.X, Y: e.Y, Ys: e.Ys, F: e.F, P: e.P}
		sort.Ints(ev.Ys)
		out = append(out, ev)
	}
	return out
}

type buildCfg struct {
	mode     ir.BuilderMode
	modeName string
	v        variant
	scenario string // serial | parallel | concurrent
	rep      int
	perturb  uint64
}

func identicalLists(a, b []types.Type) bool {
	if len(a) != len(b) {
		return false
	}
	for i := range a {
		if !types.Identical(a[i], b[i]) {
			return false
		}
	}
	return true
}

func buildOne(p *program, cfg buildCfg) BuildOut {
	out := BuildOut{Prog: p.ID, Mode: cfg.modeName, Variant: cfg.v.Name, Scenario: cfg.scenario, Rep: cfg.rep, Dump: map[string][]string{}, DumpN: map[string][]string{}}
	mode := cfg.mode
	if cfg.scenario == "serial" {
		mode |= ir.BuildSerially
	}
	t0 := time.Now()
	lap := func(what string) {
		if os.Getenv("HC18_TIMING") != "" {
			fmt.Fprintf(os.Stderr, "  [%s %s %s] %-12s %v\n", p.ID, cfg.modeName, cfg.v.Name, what, time.Since(t0))
		}
		t0 = time.Now()
	}
	prog, pkgs := create(p, mode, cfg.v)
	lap("create")
	var mu sync.Mutex
	addProbs := func(ps []Problem) {
		mu.Lock()
		out.Problems = append(out.Problems, ps...)
		mu.Unlock()
	}
	ir.VerifC18Perturb(cfg.perturb)
	ir.VerifC18Start()
	switch cfg.scenario {
	case "serial", "parallel":
		prog.Build()
	case "concurrent":
		start := make(chan struct{})
		var wg sync.WaitGroup
		for _, pk := range pkgs {
			for k := 0; k < 2; k++ {
				wg.Add(1)
				go func(pk *ir.Package) {
					defer wg.Done()
					<-start
					pk.Build()
					addProbs(checkReturned(pk))
				}(pk)
			}
		}
		for k := 0; k < 2; k++ {
			wg.Add(1)
			go func() {
				defer wg.Done()
				<-start
				prog.Build()
				for _, pk := range pkgs {
					addProbs(checkReturned(pk))
				}
			}()
		}
		close(start)
		wg.Wait()
	}
	ir.VerifC18Perturb(0)
	lap("build")
	for _, pk := range pkgs {
		addProbs(checkReturned(pk))
	}
	// what the first build produced
	collectAll := func() []*ir.Function {
		var roots []*ir.Function
		for _, pk := range pkgs {
			if !external[pk] {
				roots = append(roots, pkgRoots(pk)...)
			}
		}
		return reachableFuncs(roots, func(*ir.Function) bool { return true })
	}
	first := collectAll()
	firstDump := map[*ir.Function]string{}
	for _, fn := range first {
		firstDump[fn] = dumpFn(fn)
	}
	lap("dump1")
	// Build again, whole program and per package: must be without effect.
	prog.Build()
	for _, pk := range pkgs {
		pk.Build()
	}
	second := collectAll()
	if len(second) != len(first) {
		out.Problems = append(out.Problems, Problem{Kind: "rebuilt", Detail: fmt.Sprintf("a second Build changed the number of functions reachable from the packages: %d -> %d", len(first), len(second))})
	}
	for _, fn := range second {
		d, ok := firstDump[fn]
		if !ok {
			out.Problems = append(out.Problems, Problem{Kind: "rebuilt", Func: fn.String(), Detail: "function object appeared only after the second Build: " + fn.String()})
			continue
		}
		if d2 := dumpFn(fn); d2 != d {
			out.Problems = append(out.Problems, Problem{Kind: "rebuilt", Func: fn.String(), Detail: "a second Build changed the body of " + fn.String() + "\n--- first\n" + d + "\n--- second\n" + d2})
		}
	}

	lap("rebuild+dump2")
	// MethodValue from several goroutines: the same object for the same (type, method), built when returned.
	type selKey struct {
		T  string
		ID string
	}
	var sels []*types.Selection
	var tmap typeutil.Map
	addType := func(T types.Type) {
		if T == nil || types.IsInterface(T) || tmap.At(T) != nil {
			return
		}
		tmap.Set(T, true)
		ms := prog.MethodSets.MethodSet(T)
		for i := 0; i < ms.Len(); i++ {
			sels = append(sels, ms.At(i))
		}
	}
	for _, l := range p.Pkgs {
		if cfg.v.How(l.Path) != 0 || len(l.Files) == 0 {
			continue
		}
		if !p.Gen && !p.Initial[l.Path] {
			continue
		}
		scope := l.Types.Scope()
		for _, n := range scope.Names() {
			if tn, ok := scope.Lookup(n).(*types.TypeName); ok && !tn.IsAlias() {
				if named, ok := tn.Type().(*types.Named); ok && named.TypeParams().Len() == 0 {
					addType(named)
					addType(types.NewPointer(named))
				}
			}
		}
		// instantiated named types mentioned in the package
		var insts []types.Type
		for _, tv := range l.Info.Types {
			T := tv.Type
			if ptr, ok := T.(*types.Pointer); ok {
				T = ptr.Elem()
			}
			if named, ok := T.(*types.Named); ok && named.TypeArgs().Len() > 0 && !hasTypeParam(named) {
				insts = append(insts, named)
			}
		}
		sort.Slice(insts, func(i, j int) bool { return insts[i].String() < insts[j].String() })
		for _, T := range insts {
			addType(T)
			addType(types.NewPointer(T))
		}
	}
	// RuntimeTypes keeps, among identical types, whichever spelling its map iteration meets first
	// (os.FileMode / io/fs.FileMode) and then skips the element types of an alias-spelled one, so neither its
	// content nor its size is a function of the build. It is not used to choose the MethodValue calls and is
	// not compared; it is called here, and concurrently below, for thread safety (race detector) only.
	out.RTypes = []string{strconv.Itoa(len(prog.RuntimeTypes()))}
	lap("selections")
	out.MVStart = ir.VerifC18Len()
	const nG = 4
	results := make([][]*ir.Function, nG)
	var wg sync.WaitGroup
	for g := 0; g < nG; g++ {
		wg.Add(1)
		go func(g int) {
			defer wg.Done()
			defer func() {
				if r := recover(); r != nil {
					addProbs([]Problem{{Kind: "panic", Detail: fmt.Sprintf("MethodValue panicked: %v\n%s", r, debug.Stack())}})
				}
			}()
			res := make([]*ir.Function, len(sels))
			_ = prog.RuntimeTypes()
			for i := range sels {
				j := i
				if g%2 == 1 {
					j = len(sels) - 1 - i
				}
				fn := prog.MethodValue(sels[j])
				res[j] = fn
				if fn != nil {
					// the wrapper and every shared function it reaches must be built now
					for _, f := range reachableFuncs([]*ir.Function{fn}, func(f *ir.Function) bool { return f.Pkg == nil && ir.VerifBuilt(f) }) {
						if f.Pkg == nil && !ir.VerifBuilt(f) {
							addProbs([]Problem{{Kind: "unbuilt-on-return", Func: f.String(), Detail: fmt.Sprintf("MethodValue(%s) returned while %s was not fully built", sels[j], f.String())}})
						}
					}
				}
			}
			results[g] = res
		}(g)
	}
	wg.Wait()
	out.Events = convEvents(ir.VerifC18Stop(), nil)
	lap("methodvalue")
	var mvFuncs []*ir.Function
	for i := range sels {
		for g := 1; g < nG; g++ {
			if results[g] != nil && results[0] != nil && results[g][i] != results[0][i] {
				out.Problems = append(out.Problems, Problem{Kind: "methodvalue-identity", Func: fmt.Sprint(sels[i]),
					Detail: fmt.Sprintf("concurrent MethodValue(%s) returned two different function objects", sels[i])})
			}
		}
		if results[0] != nil && results[0][i] != nil {
			mvFuncs = append(mvFuncs, results[0][i])
			if again := prog.MethodValue(sels[i]); again != results[0][i] {
				out.Problems = append(out.Problems, Problem{Kind: "methodvalue-identity", Func: fmt.Sprint(sels[i]),
					Detail: fmt.Sprintf("MethodValue(%s) returned a different function object when called again", sels[i])})
			}
		}
	}

	// everything, dumped
	var roots []*ir.Function
	for _, pk := range pkgs {
		if !external[pk] {
			roots = append(roots, pkgRoots(pk)...)
		}
	}
	roots = append(roots, mvFuncs...)
	all := reachableFuncs(roots, func(*ir.Function) bool { return true })
	out.NFuncs = len(all)
	byOrigin := map[*ir.Function][]*ir.Function{}
	byObject := map[types.Object][]*ir.Function{}
	for _, fn := range all {
		if !ir.VerifBuilt(fn) && fn.Parent() == nil && !external[fn.Pkg] {
			out.Problems = append(out.Problems, Problem{Kind: "unbuilt-on-return", Func: fn.String(),
				Detail: fmt.Sprintf("%s (synthetic %q, package %v) is not fully built although Program.Build and every Package.Build have returned", fn.String(), fn.Synthetic, fn.Pkg)})
		}
		key := fn.String()
		text := dumpFn(fn)
		out.Dump[key] = append(out.Dump[key], text)
		out.DumpN[key] = append(out.DumpN[key], paramNormal(fn, text))
		if fn.Parent() == nil {
			if ir.VerifShared(fn) {
				out.NShared++
			}
			if o, _, _ := ir.VerifInstance(fn); o != nil {
				byOrigin[o] = append(byOrigin[o], fn)
			}
			if fn.Synthetic == "from type information (on demand)" && fn.Object() != nil {
				byObject[fn.Object()] = append(byObject[fn.Object()], fn)
			}
		}
	}
	for k := range out.Dump {
		sort.Strings(out.Dump[k])
		sort.Strings(out.DumpN[k])
	}
	for o, is := range byOrigin {
		for i := 0; i < len(is); i++ {
			for j := i + 1; j < len(is); j++ {
				_, r1, t1 := ir.VerifInstance(is[i])
				_, r2, t2 := ir.VerifInstance(is[j])
				if identicalLists(r1, r2) && identicalLists(t1, t2) {
					out.Problems = append(out.Problems, Problem{Kind: "duplicate-shared", Func: is[i].String(),
						Detail: fmt.Sprintf("two distinct instances of %s with identical type arguments exist: %s and %s", o.String(), is[i].String(), is[j].String())})
				}
			}
		}
	}
	for o, fs := range byObject {
		if len(fs) > 1 {
			out.Problems = append(out.Problems, Problem{Kind: "duplicate-shared", Func: fs[0].String(),
				Detail: fmt.Sprintf("%d distinct on-demand functions exist for method %s", len(fs), o)})
		}
	}
	// shared functions wanted by more than one package (what makes the builders meet)
	wanted := map[*ir.Function]map[*ir.Package]bool{}
	for _, pk := range pkgs {
		for _, fn := range reachableFuncs(pkgRoots(pk), func(f *ir.Function) bool { return f.Pkg == pk }) {
			if fn.Pkg == nil && fn.Parent() == nil {
				if wanted[fn] == nil {
					wanted[fn] = map[*ir.Package]bool{}
				}
				wanted[fn][pk] = true
			}
		}
	}
	for _, ps := range wanted {
		if len(ps) > 1 {
			out.NWanted2++
		}
	}
	out.Aliases = aliasTable(p)
	lap("final")
	return out
}

// aliasTable lists the alias type names declared or used in the program with the type they denote, both as
// go/ir prints them from outside their package.
func aliasTable(p *program) [][2]string {
	seen := map[*types.TypeName]bool{}
	var tab [][2]string
	add := func(o types.Object) {
		tn, ok := o.(*types.TypeName)
		if !ok || !tn.IsAlias() || seen[tn] || tn.Pkg() == nil {
			return
		}
		seen[tn] = true
		tab = append(tab, [2]string{tn.Pkg().Path() + "." + tn.Name(), types.TypeString(types.Unalias(tn.Type()), nil)})
	}
	for _, l := range p.Pkgs {
		if l.Info == nil {
			continue
		}
		for _, o := range l.Info.Defs {
			add(o)
		}
		for _, o := range l.Info.Uses {
			add(o)
		}
	}
	sort.Slice(tab, func(i, j int) bool {
		if len(tab[i][0]) != len(tab[j][0]) {
			return len(tab[i][0]) > len(tab[j][0])
		}
		return tab[i][0] < tab[j][0]
	})
	return tab
}

func hasTypeParam(T types.Type) bool {
	found := false
	var visit func(T types.Type, depth int)
	visit = func(T types.Type, depth int) {
		if found || depth > 6 {
			return
		}
		switch t := T.(type) {
		case *types.TypeParam:
			found = true
		case *types.Named:
			for i := 0; i < t.TypeArgs().Len(); i++ {
				visit(t.TypeArgs().At(i), depth+1)
			}
		case *types.Pointer:
			visit(t.Elem(), depth+1)
		case *types.Slice:
			visit(t.Elem(), depth+1)
		case *types.Array:
			visit(t.Elem(), depth+1)
		case *types.Map:
			visit(t.Key(), depth+1)
			visit(t.Elem(), depth+1)
		case *types.Chan:
			visit(t.Elem(), depth+1)
		case *types.Signature:
			for i := 0; i < t.Params().Len(); i++ {
				visit(t.Params().At(i).Type(), depth+1)
			}
			for i := 0; i < t.Results().Len(); i++ {
				visit(t.Results().At(i).Type(), depth+1)
			}
		case *types.Struct:
			for i := 0; i < t.NumFields(); i++ {
				visit(t.Field(i).Type(), depth+1)
			}
		case *types.Tuple:
			for i := 0; i < t.Len(); i++ {
				visit(t.At(i).Type(), depth+1)
			}
		}
	}
	visit(T, 0)
	return found
}

func sortedTypes(ts []types.Type) []types.Type {
	sort.SliceStable(ts, func(i, j int) bool { return ts[i].String() < ts[j].String() })
	return ts
}

// ---------------------------------------------------------------- child

var modes = []struct {
	name string
	m    ir.BuilderMode
}{
	{"I", ir.InstantiateGenerics},
	{"-", 0},
	{"IN", ir.InstantiateGenerics | ir.NaiveForm},
	{"ID", ir.InstantiateGenerics | ir.GlobalDebug},
}

func programs(seed uint64, nprogs int, repo string, repoPkgs []string) []*program {
	rnd := hx.NewRand(seed)
	var ps []*program
	for i := 0; i < nprogs; i++ {
		ps = append(ps, loadGenerated(fmt.Sprintf("g%d", i), genProgram(rnd.Fork())))
	}
	ps = append(ps, loadGenerated("alias", aliasProgram()))
	if len(repoPkgs) > 0 {
		ps = append(ps, loadRepo(repo, repoPkgs))
	}
	return ps
}

func child(scenario string, seed uint64, nprogs, reps, nmodes int, repo string, repoPkgs []string, outPath string) {
	co := ChildOut{Scenario: scenario, Procs: runtime.GOMAXPROCS(0)}
	ps := programs(seed, nprogs, repo, repoPkgs)
	prnd := hx.NewRand(seed ^ 0xC18)
	kind := scenario
	if i := strings.IndexByte(scenario, ':'); i >= 0 {
		kind = scenario[:i]
	}
	for pi, p := range ps {
		for mi, m := range modes {
			if mi >= nmodes {
				break
			}
			vs := variants
			if p.ID == "alias" {
				vs = variants[:1]
			}
			if !p.Gen {
				vs = variants[:1]
				if mi > 0 {
					break
				}
			}
			for vi, v := range vs {
				// not every (mode, variant) pair in every program: the pair is chosen by the program index so
				// that all scenarios build the same configurations
				if p.Gen && (pi+mi+vi)%2 == 1 && !(mi == 0 && vi == 0) {
					continue
				}
				for rep := 0; rep < reps; rep++ {
					cfg := buildCfg{mode: m.m, modeName: m.name, v: v, scenario: kind, rep: rep}
					if kind != "serial" {
						cfg.perturb = prnd.Uint64() | 1
					}
					co.Builds = append(co.Builds, buildOne(p, cfg))
				}
			}
		}
	}
	hx.EmitJSON(outPath, co)
}

// ---------------------------------------------------------------- parent

type Diff struct {
	Prog, Mode, Variant string
	Func                string
	A, B                string // scenario labels
	TextA, TextB        []string
	Why                 string // params | alias | alias+params: the builds agree after that normalisation; other: they do not
}

type RTDiff struct {
	A, B         string
	OnlyA, OnlyB []string
}

func minus(a, b []string) []string {
	in := map[string]int{}
	for _, x := range b {
		in[x]++
	}
	var out []string
	for _, x := range a {
		if in[x] > 0 {
			in[x]--
		} else {
			out = append(out, x)
		}
	}
	return out
}

var wrapNilChkConst = regexp.MustCompile(`(ssa:wrapnilchk\([A-Za-z0-9_]+, )"[^"]*":string`)
var pkgHeader = regexp.MustCompile(`(?m)^# Package: (\S+)$`)

// unaliasText spells aliases out. Inside a function of package P (header "# Package: P") go/ir prints P's
// own names unqualified, so there the bare alias names of P are replaced as well. The receiver-type string
// constant of a wrapper's nil check is dropped (it is printed truncated).
func unaliasText(s string, tab [][2]string) string {
	var bare [][2]string
	if m := pkgHeader.FindStringSubmatch(s); m != nil {
		for _, a := range tab {
			if strings.HasPrefix(a[0], m[1]+".") && !strings.Contains(a[0][len(m[1])+1:], ".") {
				bare = append(bare, [2]string{a[0][len(m[1])+1:], a[1]})
			}
		}
	}
	for i := 0; i < 4; i++ {
		t := s
		for _, a := range tab {
			t = strings.ReplaceAll(t, a[0], a[1])
		}
		for _, a := range bare {
			t = regexp.MustCompile(`\b`+regexp.QuoteMeta(a[0])+`\b`).ReplaceAllLiteralString(t, a[1])
		}
		if t == s {
			break
		}
		s = t
	}
	return wrapNilChkConst.ReplaceAllString(s, `${1}"_":string`)
}

// normalised dump: names and bodies with aliases spelled out, lines re-aligned (the dump right-aligns types)
func unaliasDump(d map[string][]string, tab [][2]string) map[string][]string {
	out := map[string][]string{}
	for n, ts := range d {
		k := unaliasText(n, tab)
		for _, t := range ts {
			out[k] = append(out[k], strings.Join(strings.Fields(unaliasText(t, tab)), " "))
		}
	}
	for k := range out {
		sort.Strings(out[k])
	}
	return out
}

func sameDump(a, b map[string][]string) bool {
	if len(a) != len(b) {
		return false
	}
	for k, x := range a {
		if strings.Join(x, "\x00") != strings.Join(b[k], "\x00") {
			return false
		}
	}
	return true
}

type Case struct {
	Label     string
	Events    []Ev
	MVStart   int
	PkgBuilds []string
}

type ParentOut struct {
	Scenarios []string
	Diffs     []Diff
	RTDiffs   []RTDiff
	Problems  []struct {
		Label   string
		Problem Problem
	}
	Crashes    []struct{ Scenario, Log string }
	Cases      []Case
	Builds     int
	Functions  int // dumps compared
	Shared     int
	Wanted2    int
	Configs    int
	DumpDigest string
}

func main() {
	work := flag.String("work", "", "scratch directory")
	out := flag.String("out", "", "output JSON")
	seed := flag.Uint64("seed", 1, "seed")
	nprogs := flag.Int("progs", 3, "generated programs")
	reps := flag.Int("reps", 2, "repetitions per configuration and scenario")
	nmodes := flag.Int("modes", 2, "number of builder modes")
	repo := flag.String("repo", "/repo", "repository root")
	repoPkgs := flag.String("repopkgs", "", "comma-separated package patterns of the repository to build as one more program")
	scen := flag.String("scenarios", "serial:4,parallel:1,parallel:2,parallel:4,parallel:16,concurrent:16,concurrent:2", "kind:GOMAXPROCS list")
	flag.BoolVar(&repoDepsFromSource, "repodeps", false, "build the dependencies of the repository packages from syntax too (standard library included)")
	childScenario := flag.String("child", "", "(internal) run one scenario")
	repoScen := flag.String("reposcen", "", "comma-separated scenarios that also build the repository program (default: all)")
	timeout := flag.Duration("timeout", 150*time.Second, "per child")
	showProg := flag.Int("show", -1, "print generated program N and exit")
	flag.Parse()
	var rp []string
	if *repoPkgs != "" {
		rp = strings.Split(*repoPkgs, ",")
	}
	if *showProg >= 0 {
		rnd := hx.NewRand(*seed)
		for i := 0; ; i++ {
			spec := genProgram(rnd.Fork())
			if i == *showProg {
				for _, p := range spec.Pkgs {
					fmt.Printf("// ---- %s\n%s\n", p.Path, p.Src)
				}
				return
			}
		}
	}
	if *childScenario != "" {
		child(*childScenario, *seed, *nprogs, *reps, *nmodes, *repo, rp, *out)
		return
	}
	if *work == "" || *out == "" {
		fatal("usage: hc18 -work DIR -out FILE")
	}
	po := ParentOut{}
	var outs []ChildOut
	for _, sc := range strings.Split(*scen, ",") {
		parts := strings.Split(sc, ":")
		procs := "4"
		if len(parts) > 1 {
			procs = parts[1]
		}
		po.Scenarios = append(po.Scenarios, sc)
		cout := fmt.Sprintf("%s/child-%s-%s.json", *work, parts[0], procs)
		rpk := *repoPkgs
		if *repoScen != "" && !strings.Contains(","+*repoScen+",", ","+sc+",") {
			rpk = ""
		}
		cmd := exec.Command(os.Args[0], "-child", sc, "-seed", fmt.Sprint(*seed), "-progs", fmt.Sprint(*nprogs), "-reps", fmt.Sprint(*reps),
			"-modes", fmt.Sprint(*nmodes), "-repo", *repo, "-repopkgs", rpk, "-repodeps="+fmt.Sprint(repoDepsFromSource), "-out", cout)
		cmd.Env = append(os.Environ(), "GOMAXPROCS="+procs)
		var buf bytes.Buffer
		cmd.Stdout = &buf
		cmd.Stderr = &buf
		if err := cmd.Start(); err != nil {
			fatal("start child: %v", err)
		}
		done := make(chan error, 1)
		go func() { done <- cmd.Wait() }()
		var err error
		select {
		case err = <-done:
		case <-time.After(*timeout):
			cmd.Process.Signal(os.Interrupt)
			time.Sleep(200 * time.Millisecond)
			cmd.Process.Kill()
			<-done
			err = fmt.Errorf("no result after %v (deadlock or livelock?)", *timeout)
		}
		if err != nil {
			log := buf.String()
			if len(log) > 6000 {
				log = log[:3000] + "\n...\n" + log[len(log)-3000:]
			}
			po.Crashes = append(po.Crashes, struct{ Scenario, Log string }{sc, fmt.Sprintf("%v\n%s", err, log)})
			continue
		}
		var co ChildOut
		data, err := os.ReadFile(cout)
		if err != nil {
			fatal("child output: %v", err)
		}
		if err := json.Unmarshal(data, &co); err != nil {
			fatal("child output: %v", err)
		}
		co.Scenario = sc
		outs = append(outs, co)
	}
	// compare every build with the reference build of its configuration (first scenario, rep 0)
	type ckey struct{ Prog, Mode, Variant string }
	ref := map[ckey]*BuildOut{}
	refLabel := map[ckey]string{}
	h := sha1.New()
	for ci := range outs {
		for bi := range outs[ci].Builds {
			b := &outs[ci].Builds[bi]
			label := fmt.Sprintf("%s/%s/%s/%s#%d", b.Prog, b.Mode, b.Variant, outs[ci].Scenario, b.Rep)
			po.Builds++
			k := ckey{b.Prog, b.Mode, b.Variant}
			for _, pr := range b.Problems {
				po.Problems = append(po.Problems, struct {
					Label   string
					Problem Problem
				}{label, pr})
			}
			var pb []string
			for _, e := range b.Events {
				if e.K == int(ir.VerifEvPkgBuild) {
					pb = append(pb, e.P)
				}
			}
			po.Cases = append(po.Cases, Case{Label: label, Events: b.Events, MVStart: b.MVStart, PkgBuilds: pb})
			r, ok := ref[k]
			if !ok {
				ref[k] = b
				refLabel[k] = label
				po.Configs++
				po.Shared += b.NShared
				po.Wanted2 += b.NWanted2
				names := make([]string, 0, len(b.Dump))
				for n := range b.Dump {
					names = append(names, n)
				}
				sort.Strings(names)
				for _, n := range names {
					fmt.Fprintf(h, "%s\x00%s\x00", n, strings.Join(b.Dump[n], "\x01"))
				}
				continue
			}
			names := map[string]bool{}
			for n := range r.Dump {
				names[n] = true
			}
			for n := range b.Dump {
				names[n] = true
			}
			sorted := make([]string, 0, len(names))
			for n := range names {
				sorted = append(sorted, n)
			}
			sort.Strings(sorted)
			// classification of a difference: exact | parameter names of instance signatures | alias spelling | other
			why := ""
			if !sameDump(r.Dump, b.Dump) {
				switch {
				case sameDump(r.DumpN, b.DumpN):
					why = "params"
				case len(b.Aliases) > 0 && sameDump(unaliasDump(r.Dump, b.Aliases), unaliasDump(b.Dump, b.Aliases)):
					why = "alias"
				case len(b.Aliases) > 0 && sameDump(unaliasDump(r.DumpN, b.Aliases), unaliasDump(b.DumpN, b.Aliases)):
					why = "alias+params"
				default:
					why = "other"
				}
			}
			reported := false
			for _, n := range sorted {
				po.Functions++
				a, c := r.Dump[n], b.Dump[n]
				if strings.Join(a, "\x00") != strings.Join(c, "\x00") {
					if why != "other" && reported {
						continue // one example per pair of builds is enough for a recorded finding
					}
					reported = true
					if len(po.Diffs) < 60 {
						po.Diffs = append(po.Diffs, Diff{Prog: b.Prog, Mode: b.Mode, Variant: b.Variant, Func: n, A: refLabel[k], B: label, TextA: a, TextB: c, Why: why})
					}
				}
			}
			// Program.RuntimeTypes is NOT compared across builds: its result varies between two calls on one
			// unchanged, fully built program (map iteration inside RuntimeTypes + the alias case of
			// typesinternal.ForEachElement: when the alias spelling of a type is met first its element types are
			// never visited). It is no observable of the build; see design.d/C18.md §6.
		}
	}
	po.DumpDigest = fmt.Sprintf("%x", h.Sum(nil))
	hx.EmitJSON(*out, po)
}

func fatal(format string, a ...any) {
	fmt.Fprintf(os.Stderr, "hc18: "+format+"\n", a...)
	os.Exit(2)
}
