// hc05: drives the real lintcmd/cache against op histories with injected crashes and faults (C05).
//
//	-mode hist    seeded op histories (Put, interleaved writers paused at every byte of the second pass through the
//	              io.ReadSeeker, writer death, death between data and index write, Truncate, Delete, Touch, Trim,
//	              Get/GetFile/GetBytes) on a real cache directory, cache re-opened for every op; emits the histories,
//	              the observed results and the directory listing after every op (JSON) for the Coq model to replay
//	-mode codec   entry bytes (real, truncated, foreign, mutated, extended) through the real Get
//	-mode stress  k OS processes (this binary re-executed) doing random ops on one directory; writers die by os.Exit
//	-mode e2e     a real staticcheck binary on a small module; the cache directory is damaged between runs
package main

import (
	"bytes"
	"crypto/sha256"
	"encoding/hex"
	"encoding/json"
	"flag"
	"fmt"
	"io"
	"math"
	"os"
	"os/exec"
	"path/filepath"
	"sort"
	"strconv"
	"strings"
	"sync"
	"time"

	"honnef.co/go/tools/lintcmd/cache"
	"verifharness/hx"
)

// ---------------------------------------------------------------------------------------------- common

type ID = [cache.HashSize]byte

func keyID(i int) ID { return sha256.Sum256([]byte(fmt.Sprintf("verif-c05-key-%d", i))) }

func fileOf(dir string, id ID, kind string) string {
	h := hex.EncodeToString(id[:])
	return filepath.Join(dir, h[:2], h+"-"+kind)
}

type Path struct {
	Kind string // "a" | "d"
	Id   string // hex
}

func (p Path) file(dir string) string { return filepath.Join(dir, p.Id[:2], p.Id+"-"+p.Kind) }

type Res struct {
	Kind string // "", "blocked", "finished", "miss", "entry", "file", "bytes"
	Out  string `json:",omitempty"` // hex output id
	Size int64  `json:",omitempty"`
	Time int64  `json:",omitempty"`
	Data []int  `json:",omitempty"`
}

type DiffEntry struct {
	Path Path
	Gone bool
	Data []int
	Age  int64
}

type Op struct {
	Op   string // Put Begin Adv CrashW PutNoIndex Trunc TruncAny Delete Touch SetTrim Trim Get GetFile GetBytes
	W    int    `json:",omitempty"`
	K    int    // key index
	X    int    // content index (-1 none)
	T    int64  // time stamp of the index entry written by this op (0 if none)
	Path *Path  `json:",omitempty"`
	N    int    `json:",omitempty"`
	Age  int64  // Touch: hours; SetTrim: hours, -1 = remove
	Res  Res
	Diff []DiffEntry
}

type Case struct {
	Kind      string
	Shared    bool // stores of this history share ONE *DiskCache handle (as the goroutines of one runner do)
	PremiseOK bool
	Ops       []Op
	Stray     []string // unexpected files found in the directory at the end
}

func ints(b []byte) []int {
	r := make([]int, len(b))
	for i, c := range b {
		r[i] = int(c)
	}
	return r
}

func bytesOf(a []int) []byte {
	r := make([]byte, len(a))
	for i, c := range a {
		r[i] = byte(c)
	}
	return r
}

func must(err error) {
	if err != nil {
		fmt.Fprintln(os.Stderr, "hc05 fatal:", err)
		os.Exit(2)
	}
}

func openCache(dir string) *cache.DiskCache {
	c, err := cache.Open(dir)
	must(err)
	return c
}

// ---------------------------------------------------------------------------------------------- controlled writer

type crashSentinel struct{}

// ctlReader serves one byte per Read. In the second pass (after the second Seek) every Read first reports
// "blocked" and waits for the driver: resume (true) or die (false).
type ctlReader struct {
	data    []byte
	pos     int
	pass    int
	blocked chan struct{}
	resume  chan bool
}

func (c *ctlReader) Seek(off int64, whence int) (int64, error) {
	if off != 0 || whence != 0 {
		panic("hc05: unexpected Seek")
	}
	c.pass++
	c.pos = 0
	return 0, nil
}

func (c *ctlReader) Read(p []byte) (int, error) {
	if c.pass >= 2 {
		c.blocked <- struct{}{}
		if !<-c.resume {
			panic(crashSentinel{})
		}
	}
	if c.pos >= len(c.data) {
		return 0, io.EOF
	}
	if len(p) == 0 {
		return 0, nil
	}
	p[0] = c.data[c.pos]
	c.pos++
	return 1, nil
}

type writer struct {
	rd   *ctlReader
	done chan string
	key  int
}

func startWriter(dir string, shared *cache.DiskCache, id ID, data []byte) *writer {
	w := &writer{rd: &ctlReader{data: data, blocked: make(chan struct{}), resume: make(chan bool)}, done: make(chan string, 1)}
	go func() {
		defer func() {
			if r := recover(); r != nil {
				if _, ok := r.(crashSentinel); ok {
					w.done <- "crashed"
					return
				}
				panic(r)
			}
		}()
		c := shared
		if c == nil {
			c = openCache(dir)
		}
		_, _, err := c.Put(id, w.rd)
		if err != nil {
			w.done <- "error: " + err.Error()
			return
		}
		w.done <- "finished"
	}()
	return w
}

// wait until the writer blocks at a second-pass Read or ends
func (w *writer) wait() string {
	select {
	case <-w.rd.blocked:
		return "blocked"
	case s := <-w.done:
		return s
	}
}

// ---------------------------------------------------------------------------------------------- histories

type world struct {
	shared   *cache.DiskCache // non-nil: every store of this history goes through this one handle
	dir      string
	keys     []ID
	contents [][]byte
	cands    []Path            // files whose state is tracked
	last     map[Path]string   // serialised (data, age) of the previous snapshot
	writers  map[int]*writer
	now      time.Time
}

func (w *world) outID(x int) ID { return sha256.Sum256(w.contents[x]) }

func (w *world) snapshot() []DiffEntry {
	var diff []DiffEntry
	for _, p := range w.cands {
		f := p.file(w.dir)
		st, err := os.Stat(f)
		var cur string
		var de DiffEntry
		if err != nil {
			cur = "gone"
			de = DiffEntry{Path: p, Gone: true}
		} else {
			data, err := os.ReadFile(f)
			must(err)
			age := int64(math.Round(time.Since(st.ModTime()).Hours()))
			cur = fmt.Sprintf("%x/%d", data, age)
			de = DiffEntry{Path: p, Data: ints(data), Age: age}
		}
		if prev, ok := w.last[p]; (ok && prev == cur) || (!ok && cur == "gone") {
			w.last[p] = cur
			continue
		}
		w.last[p] = cur
		diff = append(diff, de)
	}
	return diff
}

func entryStamp(dir string, id ID) int64 {
	data, err := os.ReadFile(fileOf(dir, id, "a"))
	if err != nil || len(data) < 175 {
		return 0
	}
	t, err := strconv.ParseInt(strings.TrimSpace(string(data[154:174])), 10, 64)
	if err != nil {
		return 0
	}
	return t
}

func lookup(dir string, op string, id ID) Res {
	c := openCache(dir)
	switch op {
	case "Get":
		e, err := c.Get(id)
		if err != nil {
			return Res{Kind: "miss"}
		}
		return Res{Kind: "entry", Out: hex.EncodeToString(e.OutputID[:]), Size: e.Size, Time: e.Time.UnixNano()}
	case "GetFile":
		file, e, err := cache.GetFile(c, id)
		if err != nil {
			return Res{Kind: "miss"}
		}
		data, err := os.ReadFile(file)
		if err != nil {
			return Res{Kind: "file-unreadable"}
		}
		if want := fileOf(dir, e.OutputID, "d"); file != want {
			return Res{Kind: "file-wrong-path"}
		}
		return Res{Kind: "file", Out: hex.EncodeToString(e.OutputID[:]), Size: e.Size, Data: ints(data)}
	case "GetBytes":
		data, _, err := cache.GetBytes(c, id)
		if err != nil {
			return Res{Kind: "miss"}
		}
		return Res{Kind: "bytes", Data: ints(data)}
	}
	panic(op)
}

// run executes one op against the real directory, filling in Res, T and Diff
func (w *world) handle() *cache.DiskCache {
	if w.shared != nil {
		return w.shared
	}
	return openCache(w.dir)
}

func (w *world) run(op *Op) {
	switch op.Op {
	case "Put":
		c := w.handle()
		out, _, err := c.Put(w.keys[op.K], bytes.NewReader(w.contents[op.X]))
		must(err)
		op.T = entryStamp(w.dir, w.keys[op.K])
		// what runner.writeCacheReader's caller does next: after Put returned nil, use the file of OutputFile(out)
		// without any validation. Read through the plain path (OutputFile would also touch the mtime).
		data, rerr := os.ReadFile(fileOf(w.dir, out, "d"))
		if rerr != nil {
			op.Res = Res{Kind: "put-output-missing"}
		} else {
			op.Res = Res{Kind: "bytes", Data: ints(data)}
		}
	case "Begin":
		wr := startWriter(w.dir, w.shared, w.keys[op.K], w.contents[op.X])
		wr.key = op.K
		w.writers[op.W] = wr
		st := wr.wait()
		op.Res.Kind = st
		if st == "finished" {
			op.T = entryStamp(w.dir, w.keys[op.K])
			delete(w.writers, op.W)
		} else if st != "blocked" {
			must(fmt.Errorf("writer: %s", st))
		}
	case "Adv":
		wr := w.writers[op.W]
		wr.rd.resume <- true
		st := wr.wait()
		op.Res.Kind = st
		if st == "finished" {
			op.T = entryStamp(w.dir, w.keys[wr.key])
			delete(w.writers, op.W)
		} else if st != "blocked" {
			must(fmt.Errorf("writer: %s", st))
		}
	case "CrashW":
		wr := w.writers[op.W]
		wr.rd.resume <- false
		if st := <-wr.done; st != "crashed" {
			must(fmt.Errorf("writer did not crash: %s", st))
		}
		delete(w.writers, op.W)
	case "PutNoIndex":
		// the writer dies after copyFile returned and before putIndexEntry opens the entry: run the whole Put and
		// put the index file back into the state it had before
		af := fileOf(w.dir, w.keys[op.K], "a")
		old, err := os.ReadFile(af)
		var mt time.Time
		if err == nil {
			st, _ := os.Stat(af)
			mt = st.ModTime()
		}
		c := w.handle()
		_, _, perr := c.Put(w.keys[op.K], bytes.NewReader(w.contents[op.X]))
		must(perr)
		if err != nil {
			os.Remove(af)
		} else {
			must(os.WriteFile(af, old, 0o666))
			must(os.Chtimes(af, mt, mt))
		}
	case "Trunc", "TruncAny":
		f := op.Path.file(w.dir)
		must(os.Truncate(f, int64(op.N)))
		now := time.Now()
		must(os.Chtimes(f, now, now))
	case "Delete":
		os.Remove(op.Path.file(w.dir))
	case "Touch":
		t := time.Now().Add(-time.Duration(op.Age) * time.Hour)
		os.Chtimes(op.Path.file(w.dir), t, t)
	case "SetTrim":
		f := filepath.Join(w.dir, "trim.txt")
		if op.Age < 0 {
			os.Remove(f)
		} else {
			must(os.WriteFile(f, []byte(strconv.FormatInt(time.Now().Add(-time.Duration(op.Age)*time.Hour).Unix(), 10)), 0o666))
		}
	case "Trim":
		openCache(w.dir).Trim()
	case "Get", "GetFile", "GetBytes":
		op.Res = lookup(w.dir, op.Op, w.keys[op.K])
	default:
		panic(op.Op)
	}
	op.Diff = w.snapshot()
}

type gen struct {
	rnd *hx.Rand
	w   *world
	ops []Op
	nw  int
}

func (g *gen) do(op Op) *Op {
	if op.Op != "Put" && op.Op != "Begin" && op.Op != "PutNoIndex" {
		if op.X == 0 {
			op.X = -1
		}
	}
	g.w.run(&op)
	g.ops = append(g.ops, op)
	return &g.ops[len(g.ops)-1]
}

func (g *gen) put(k, x int) { g.do(Op{Op: "Put", K: k, X: x}) }
func (g *gen) lookups(k int) {
	g.do(Op{Op: "GetFile", K: k, X: -1})
	g.do(Op{Op: "GetBytes", K: k, X: -1})
}
func (g *gen) begin(k, x int) (int, bool) {
	g.nw++
	op := g.do(Op{Op: "Begin", W: g.nw, K: k, X: x})
	return g.nw, op.Res.Kind == "blocked"
}
func (g *gen) adv(wid int) bool {
	op := g.do(Op{Op: "Adv", W: wid, X: -1})
	return op.Res.Kind == "blocked"
}
func (g *gen) crash(wid int) { g.do(Op{Op: "CrashW", W: wid, X: -1}) }
func (g *gen) apath(k int) *Path {
	return &Path{"a", hex.EncodeToString(g.w.keys[k][:])}
}
func (g *gen) dpath(x int) *Path {
	o := g.w.outID(x)
	return &Path{"d", hex.EncodeToString(o[:])}
}
func (g *gen) size(p *Path) int {
	st, err := os.Stat(p.file(g.w.dir))
	if err != nil {
		return -1
	}
	return int(st.Size())
}

// files some blocked writer holds open (the data file of its content)
func (g *gen) held(p *Path) bool {
	for _, wr := range g.w.writers {
		o := sha256.Sum256(wr.rd.data)
		if p.Kind == "d" && p.Id == hex.EncodeToString(o[:]) {
			return true
		}
	}
	return false
}

func (g *gen) finishWriters() {
	var ids []int
	for id := range g.w.writers {
		ids = append(ids, id)
	}
	sort.Ints(ids)
	for _, id := range ids {
		g.crash(id)
	}
}

func runHist(work string, seed uint64, nrandom int, maxops int, thorough bool, out string) {
	rnd := hx.NewRand(seed)
	dir := filepath.Join(work, "cache")
	must(os.MkdirAll(dir, 0o777))
	keys := []ID{keyID(0), keyID(1), keyID(2)}
	type output struct {
		Keys     []string
		Contents [][]int
		Hashes   []string
		Cases    []Case
	}
	var o output
	for _, k := range keys {
		o.Keys = append(o.Keys, hex.EncodeToString(k[:]))
	}
	// content pool: related contents (prefixes, same length, zeros, empty)
	var pool [][]byte
	addc := func(b []byte) int {
		for i, c := range pool {
			if bytes.Equal(c, b) {
				return i
			}
		}
		pool = append(pool, b)
		return len(pool) - 1
	}
	addc([]byte{})
	addc([]byte{7})
	addc([]byte{1, 2, 3, 4, 5})
	addc([]byte{1, 2, 3})
	addc([]byte{1, 2, 3, 4, 6})
	addc([]byte{0, 0, 3})
	addc([]byte{0, 0, 0, 0, 5})
	addc([]byte{9, 9})
	for i := 0; i < 6; i++ {
		n := 1 + rnd.Intn(9)
		b := make([]byte, n)
		for j := range b {
			b[j] = byte(rnd.Intn(256))
		}
		addc(b)
	}
	for _, c := range pool {
		o.Contents = append(o.Contents, ints(c))
		h := sha256.Sum256(c)
		o.Hashes = append(o.Hashes, hex.EncodeToString(h[:]))
	}
	var cands []Path
	for _, k := range o.Keys {
		cands = append(cands, Path{"a", k})
	}
	for _, h := range o.Hashes {
		cands = append(cands, Path{"d", h})
	}

	sharedNext := false
	newCase := func(kind string, premise bool, body func(g *gen)) {
		// clean the directory
		for _, p := range cands {
			os.Remove(p.file(dir))
		}
		os.Remove(filepath.Join(dir, "trim.txt"))
		w := &world{dir: dir, keys: keys, contents: pool, cands: cands, last: map[Path]string{}, writers: map[int]*writer{}}
		if sharedNext {
			w.shared = openCache(dir)
		}
		g := &gen{rnd: rnd, w: w}
		body(g)
		g.finishWriters()
		c := Case{Kind: kind, Shared: sharedNext, PremiseOK: premise, Ops: g.ops}
		sharedNext = false
		// stray files
		known := map[string]bool{}
		for _, p := range cands {
			known[p.file(dir)] = true
		}
		filepath.Walk(dir, func(path string, info os.FileInfo, err error) error {
			if err == nil && !info.IsDir() && !known[path] && filepath.Base(path) != "trim.txt" {
				c.Stray = append(c.Stray, path)
				os.Remove(path)
			}
			return nil
		})
		o.Cases = append(o.Cases, c)
	}

	// ---- directed histories
	sweepContents := []int{2, 5, 1}
	if thorough {
		sweepContents = nil
		for i := range pool {
			if len(pool[i]) > 0 {
				sweepContents = append(sweepContents, i)
			}
		}
	}
	for _, x := range sweepContents {
		n := len(pool[x])
		for j := 0; j < n; j++ {
			j := j
			newCase("crash-sweep", true, func(g *gen) {
				if rnd.Bool() {
					g.put(0, 3) // an older committed entry under the same key
				}
				wid, bl := g.begin(0, x)
				for i := 0; i < j && bl; i++ {
					bl = g.adv(wid)
				}
				if bl {
					g.crash(wid)
				}
				g.lookups(0)
				g.do(Op{Op: "Get", K: 0, X: -1})
				g.put(0, x)
				g.lookups(0)
			})
		}
	}
	for _, x := range []int{0, 1, 2} {
		newCase("crash-before-index", true, func(g *gen) {
			g.do(Op{Op: "PutNoIndex", K: 0, X: x})
			g.lookups(0)
			g.put(0, 3)
			g.do(Op{Op: "PutNoIndex", K: 0, X: x})
			g.lookups(0)
			g.put(1, x)
			g.lookups(1)
			g.lookups(0)
		})
	}
	// truncation classes of data and index files
	for _, x := range []int{2, 1, 0} {
		n := len(pool[x])
		for _, kind := range []string{"d", "a"} {
			var classes []int
			if kind == "d" {
				classes = []int{0, 1, n / 2, n - 1}
			} else {
				classes = []int{0, 1, 87, 174}
			}
			for _, cl := range classes {
				if cl < 0 {
					continue
				}
				cl := cl
				newCase("truncate-"+kind, true, func(g *gen) {
					g.put(0, x)
					p := g.dpath(x)
					if kind == "a" {
						p = g.apath(0)
					}
					if cl <= g.size(p) {
						g.do(Op{Op: "Trunc", Path: p, N: cl, X: -1})
					}
					g.do(Op{Op: "Get", K: 0, X: -1})
					g.lookups(0)
					g.put(0, x)
					g.lookups(0)
				})
			}
		}
	}
	// index entry committed, data file later removed/truncated and being rewritten by another writer
	for _, j := range []int{0, 1, 2, 3, 4} {
		j := j
		newCase("index-ahead-of-data", true, func(g *gen) {
			g.put(0, 2)
			if j%2 == 0 {
				g.do(Op{Op: "Delete", Path: g.dpath(2), X: -1})
			} else {
				g.do(Op{Op: "Trunc", Path: g.dpath(2), N: 0, X: -1})
			}
			wid, bl := g.begin(1, 2)
			for i := 0; i < j && bl; i++ {
				bl = g.adv(wid)
			}
			g.lookups(0)
			g.do(Op{Op: "Get", K: 0, X: -1})
			g.lookups(1)
			for bl {
				bl = g.adv(wid)
			}
			g.lookups(0)
			g.lookups(1)
		})
	}
	// two writers of the same content, interleaved; one dies
	for v := 0; v < 4; v++ {
		v := v
		newCase("same-content-writers", true, func(g *gen) {
			w1, b1 := g.begin(0, 2)
			if b1 {
				b1 = g.adv(w1)
				b1 = g.adv(w1)
			}
			w2, b2 := g.begin(1, 2)
			if b2 {
				b2 = g.adv(w2)
			}
			switch v {
			case 0:
				for b1 {
					b1 = g.adv(w1)
				}
				g.lookups(0)
				g.lookups(1)
				for b2 {
					b2 = g.adv(w2)
				}
			case 1:
				g.crash(w1)
				for b2 {
					b2 = g.adv(w2)
				}
			case 2:
				for b2 {
					b2 = g.adv(w2)
				}
				g.lookups(1)
				g.crash(w1)
			case 3:
				g.do(Op{Op: "Delete", Path: g.dpath(2), X: -1}) // unlink while both hold the inode
				for b1 {
					b1 = g.adv(w1)
				}
				g.lookups(0)
				w3, b3 := g.begin(2, 2)
				for b3 {
					b3 = g.adv(w3)
				}
			}
			g.lookups(0)
			g.lookups(1)
			g.lookups(2)
		})
	}
	// Trim with aged mtimes
	for v := 0; v < 3; v++ {
		v := v
		newCase("trim", true, func(g *gen) {
			g.put(0, 2)
			g.put(1, 3)
			g.put(2, 1)
			g.do(Op{Op: "Touch", Path: g.dpath(2), Age: 130, X: -1})
			g.do(Op{Op: "Touch", Path: g.apath(1), Age: 300, X: -1})
			g.do(Op{Op: "Touch", Path: g.dpath(1), Age: 100, X: -1})
			switch v {
			case 1:
				g.do(Op{Op: "SetTrim", Age: 1, X: -1}) // trimmed an hour ago: Trim does nothing
			case 2:
				g.do(Op{Op: "SetTrim", Age: 30, X: -1})
				g.lookups(0) // used() refreshes the aged data file first
			}
			g.do(Op{Op: "Trim", X: -1})
			g.lookups(0)
			g.lookups(1)
			g.lookups(2)
			g.do(Op{Op: "Trim", X: -1})
		})
	}
	// OUTSIDE the premise: truncation while a writer holds the data file (documents midwrite_truncate_refuted)
	for _, j := range []int{1, 2, 4} {
		j := j
		newCase("midwrite-truncate", false, func(g *gen) {
			wid, bl := g.begin(0, 2)
			for i := 0; i < j && bl; i++ {
				bl = g.adv(wid)
			}
			g.do(Op{Op: "TruncAny", Path: g.dpath(2), N: 0, X: -1})
			for bl {
				bl = g.adv(wid)
			}
			g.lookups(0)
		})
	}
	// two goroutines of ONE process sharing ONE cache handle store the same content under two action ids: A is
	// paused mid-copy; B's Put returns nil while A is still paused; the file named by OutputFile(out) must then be
	// complete (the runner hands that path on without validation), and lookups must be sound
	for _, x := range []int{2, 9} {
		for j := 0; j < len(pool[x]); j++ {
			j, x := j, x
			sharedNext = true
			newCase("same-handle-writers", true, func(g *gen) {
				wa, bl := g.begin(0, x)
				for i := 0; i < j && bl; i++ {
					bl = g.adv(wa)
				}
				g.put(1, x) // Res of Put = content of OutputFile(out) right after Put returned nil
				g.lookups(1)
				g.do(Op{Op: "Get", K: 1, X: -1})
				g.put(2, x)
				if j%2 == 0 {
					for bl {
						bl = g.adv(wa)
					}
				} else if bl {
					g.crash(wa)
				}
				g.lookups(0)
				g.lookups(1)
				g.lookups(2)
			})
		}
	}
	// ---- random histories
	for i := 0; i < nrandom; i++ {
		sharedNext = i%3 == 1
		newCase("random", true, func(g *gen) {
			// restrict to a few contents so that collisions of names happen
			n := 4 + rnd.Intn(maxops-3)
			sub := []int{rnd.Intn(len(pool)), rnd.Intn(len(pool)), rnd.Intn(len(pool)), 2, 3}
			full := g.w.contents
			_ = full
			pick := func() int { return sub[rnd.Intn(len(sub))] }
			for len(g.ops) < n {
				before := len(g.ops)
				// bias content choice by temporarily mapping random content indices into sub
				g.randomOpWith(pick)
				if len(g.ops) == before {
					continue
				}
			}
		})
	}
	hx.EmitJSON(out, o)
}

// randomOpWith is randomOp with the content index drawn from pick
func (g *gen) randomOpWith(pick func() int) {
	saved := g.w.contents
	_ = saved
	r := g.rnd
	nk := len(g.w.keys)
	var blocked []int
	for id := range g.w.writers {
		blocked = append(blocked, id)
	}
	sort.Ints(blocked)
	randPath := func() *Path {
		if r.Bool() {
			return g.apath(r.Intn(nk))
		}
		return g.dpath(pick())
	}
	switch c := r.Intn(100); {
	case c < 16:
		g.put(r.Intn(nk), pick())
	case c < 26:
		if len(blocked) < 3 {
			g.begin(r.Intn(nk), pick())
		}
	case c < 44:
		if len(blocked) > 0 {
			g.adv(blocked[r.Intn(len(blocked))])
		} else {
			g.begin(r.Intn(nk), pick())
		}
	case c < 49:
		if len(blocked) > 0 {
			g.crash(blocked[r.Intn(len(blocked))])
		}
	case c < 54:
		g.do(Op{Op: "PutNoIndex", K: r.Intn(nk), X: pick()})
	case c < 62:
		p := randPath()
		if n := g.size(p); n >= 0 && !g.held(p) {
			cls := []int{0, 1, n / 2, n - 1, n}
			k := cls[r.Intn(len(cls))]
			if k < 0 {
				k = 0
			}
			if k > n {
				k = n // truncation shortens (or keeps) a file; it never extends it
			}
			g.do(Op{Op: "Trunc", Path: p, N: k, X: -1})
		}
	case c < 67:
		g.do(Op{Op: "Delete", Path: randPath(), X: -1})
	case c < 72:
		ages := []int64{0, 2, 100, 130, 300}
		g.do(Op{Op: "Touch", Path: randPath(), Age: ages[r.Intn(len(ages))], X: -1})
	case c < 74:
		ages := []int64{-1, 1, 30}
		g.do(Op{Op: "SetTrim", Age: ages[r.Intn(len(ages))], X: -1})
	case c < 79:
		g.do(Op{Op: "Trim", X: -1})
	case c < 82:
		g.do(Op{Op: "Get", K: r.Intn(nk), X: -1})
	case c < 92:
		g.do(Op{Op: "GetFile", K: r.Intn(nk), X: -1})
	default:
		g.do(Op{Op: "GetBytes", K: r.Intn(nk), X: -1})
	}
}

// ---------------------------------------------------------------------------------------------- codec

type CodecCase struct {
	Key    string
	Base   int      // index of the real entry (Format) the bytes are derived from
	Prefix int      // -1: whole base, else first Prefix bytes
	Patch  [][2]int // (position, byte) overwritten afterwards
	Ext    []int    // bytes appended afterwards
	Bytes  []int
	Kind   int // 0 arbitrary, 1 strict prefix of a real entry, 2 real entry of another key, 3 real entry of this key
	Hit    bool
	Out    string
	Size   int64
	Time   int64
	ExpOut string
	ExpSz  int64
}

type FormatCase struct {
	Key, Out string
	Size, T  int64
	Bytes    []int
}

func runCodec(work string, seed uint64, nmut int, out string) {
	rnd := hx.NewRand(seed ^ 0xC0DEC)
	dir := filepath.Join(work, "codec")
	must(os.MkdirAll(dir, 0o777))
	type output struct {
		Codec  []CodecCase
		Format []FormatCase
	}
	var o output
	var real [][]byte
	probe := func(k ID, base int, b []byte, kind int, expOut string, expSz int64) {
		f := fileOf(dir, k, "a")
		must(os.WriteFile(f, b, 0o666))
		c := openCache(dir)
		e, err := c.Get(k)
		cc := CodecCase{Key: hex.EncodeToString(k[:]), Base: base, Prefix: -1, Bytes: ints(b), Kind: kind, ExpOut: expOut, ExpSz: expSz}
		// recipe relative to the base entry: prefix, patches, extension
		bb := real[base]
		n := len(b)
		if n < len(bb) {
			cc.Prefix = n
		} else {
			n = len(bb)
			cc.Ext = ints(b[n:])
		}
		for i := 0; i < n; i++ {
			if b[i] != bb[i] {
				cc.Patch = append(cc.Patch, [2]int{i, int(b[i])})
			}
		}
		if err == nil {
			cc.Hit, cc.Out, cc.Size, cc.Time = true, hex.EncodeToString(e.OutputID[:]), e.Size, e.Time.UnixNano()
		}
		o.Codec = append(o.Codec, cc)
	}
	var realKeys []ID
	sizes := []int{0, 1, 5, 9, 10, 99, 100, 12345}
	for i, n := range sizes {
		k := keyID(100 + i)
		data := make([]byte, n)
		for j := range data {
			data[j] = byte(rnd.Intn(256))
		}
		c := openCache(dir)
		outID, sz, err := c.Put(k, bytes.NewReader(data))
		must(err)
		e, err := os.ReadFile(fileOf(dir, k, "a"))
		must(err)
		real = append(real, e)
		realKeys = append(realKeys, k)
		t := int64(0)
		if len(e) >= 175 {
			t, _ = strconv.ParseInt(strings.TrimSpace(string(e[154:174])), 10, 64)
		}
		o.Format = append(o.Format, FormatCase{Key: hex.EncodeToString(k[:]), Out: hex.EncodeToString(outID[:]), Size: sz, T: t, Bytes: ints(e)})
		probe(k, i, e, 3, hex.EncodeToString(outID[:]), sz)
	}
	// every strict prefix of two real entries, sampled prefixes of the others
	for i, e := range real {
		for n := 0; n < len(e); n++ {
			if i < 2 || n < 4 || n > len(e)-4 || rnd.Intn(8) == 0 {
				probe(realKeys[i], i, e[:n], 1, "", 0)
			}
		}
	}
	// entries of other keys
	for i := range real {
		for j := range real {
			if i != j && (i+j)%3 == 0 {
				probe(realKeys[i], j, real[j], 2, "", 0)
			}
		}
	}
	// extended entries
	for i, e := range real[:3] {
		for _, ext := range [][]byte{{'\n'}, {' '}, {0}, []byte("v1 "), e} {
			probe(realKeys[i], i, append(append([]byte{}, e...), ext...), 0, "", 0)
		}
	}
	// field quirks of strconv.ParseInt and hex.Decode
	setField := func(e []byte, start int, s string) []byte {
		b := append([]byte{}, e...)
		f := fmt.Sprintf("%20s", s)
		copy(b[start:start+20], f[len(f)-20:])
		return b
	}
	quirks := []string{"+5", "-0", "-1", "+0", "0x10", "1_0", "", "+", "-", "99999999999999999999", "9223372036854775807",
		"9223372036854775808", "-9223372036854775808", "-9223372036854775809", "00000000000000000007", "+0000000000000000007",
		"1 2", "12 ", "1e3", "٣", "18446744073709551616", "18446744073709551615", "-00"}
	for _, q := range quirks {
		probe(realKeys[2], 2, setField(real[2], 133, q), 0, "", 0)
		probe(realKeys[2], 2, setField(real[2], 154, q), 0, "", 0)
	}
	{
		e := append([]byte{}, real[2]...)
		up := bytes.ToUpper(e[3:67])
		copy(e[3:67], up)
		probe(realKeys[2], 2, e, 0, "", 0)
		e2 := append([]byte{}, real[2]...)
		copy(e2[68:132], bytes.ToUpper(e2[68:132]))
		probe(realKeys[2], 2, e2, 0, "", 0)
		// left-justified size
		e3 := append([]byte{}, real[2]...)
		copy(e3[133:153], []byte(fmt.Sprintf("%-20d", 5)))
		probe(realKeys[2], 2, e3, 0, "", 0)
	}
	// random mutations
	alphabet := []byte("0123456789abcdefABCDEFgG +-_\nv1\x00\xffxX")
	for i := 0; i < nmut; i++ {
		j := rnd.Intn(len(real))
		e := append([]byte{}, real[j]...)
		nm := 1 + rnd.Intn(3)
		for m := 0; m < nm; m++ {
			pos := rnd.Intn(len(e))
			if rnd.Intn(3) == 0 {
				// header positions more often
				hp := []int{0, 1, 2, 67, 132, 153, 174, 3, 66, 68, 131, 133, 152, 154, 173}
				pos = hp[rnd.Intn(len(hp))]
			}
			e[pos] = alphabet[rnd.Intn(len(alphabet))]
		}
		probe(realKeys[j], j, e, 0, "", 0)
	}
	hx.EmitJSON(out, o)
}

// ---------------------------------------------------------------------------------------------- stress (OS processes)

type exitReader struct {
	data   []byte
	pos    int
	pass   int
	dieAt  int // die when the second pass is about to deliver byte dieAt (-1: never)
}

func (c *exitReader) Seek(off int64, whence int) (int64, error) { c.pass++; c.pos = 0; return 0, nil }
func (c *exitReader) Read(p []byte) (int, error) {
	if c.pass >= 2 && c.dieAt >= 0 && c.pos >= c.dieAt {
		os.Exit(7) // the writer dies here: descriptors closed by the OS, no deferred functions run
	}
	if c.pos >= len(c.data) {
		return 0, io.EOF
	}
	p[0] = c.data[c.pos]
	c.pos++
	return 1, nil
}

func stressContent(k, v int) []byte {
	n := 40 + (k*7+v*13)%120
	b := make([]byte, n)
	for i := range b {
		b[i] = byte((i*31 + k*17 + v*101) % 251)
	}
	if v == 3 {
		// shared between keys
		for i := range b {
			b[i] = byte(i % 7)
		}
		b = b[:60]
	}
	if v == 4 {
		return []byte{}
	}
	return b
}

type slog struct {
	Op   string
	K    int
	V    int    `json:",omitempty"`
	Known int   // lookups (set by the parent): index v with Data == stressContent(K, v) for the same K, -1 if none
	Data []int  `json:",omitempty"`
	File bool   `json:",omitempty"`
	Hit  bool   `json:",omitempty"`
}

func runChild(dir string, seed uint64, nops int, logPath string) {
	rnd := hx.NewRand(seed)
	lf, err := os.OpenFile(logPath, os.O_CREATE|os.O_WRONLY|os.O_APPEND, 0o666)
	must(err)
	enc := json.NewEncoder(lf)
	const nk, nv = 3, 5
	for i := 0; i < nops; i++ {
		k := rnd.Intn(nk)
		id := keyID(200 + k)
		switch c := rnd.Intn(100); {
		case c < 30:
			v := rnd.Intn(nv)
			data := stressContent(k, v)
			enc.Encode(slog{Op: "put", K: k, V: v})
			die := -1
			if rnd.Intn(12) == 0 && len(data) > 0 {
				die = rnd.Intn(len(data))
			}
			cc := openCache(dir)
			if _, _, err := cc.Put(id, &exitReader{data: data, dieAt: die}); err != nil {
				enc.Encode(slog{Op: "put-error", K: k, V: v})
			}
		case c < 55:
			cc := openCache(dir)
			file, _, err := cache.GetFile(cc, id)
			if err != nil {
				enc.Encode(slog{Op: "getfile", K: k})
				continue
			}
			data, err := os.ReadFile(file)
			if err != nil {
				enc.Encode(slog{Op: "getfile-enoent", K: k})
				continue
			}
			enc.Encode(slog{Op: "getfile", K: k, Hit: true, File: true, Data: ints(data)})
		case c < 75:
			cc := openCache(dir)
			data, _, err := cache.GetBytes(cc, id)
			if err != nil {
				enc.Encode(slog{Op: "getbytes", K: k})
				continue
			}
			enc.Encode(slog{Op: "getbytes", K: k, Hit: true, Data: ints(data)})
		case c < 85:
			// remove a cache file
			var f string
			if rnd.Bool() {
				f = fileOf(dir, id, "a")
			} else {
				f = fileOf(dir, sha256.Sum256(stressContent(k, rnd.Intn(nv))), "d")
			}
			os.Remove(f)
			enc.Encode(slog{Op: "delete", K: k})
		default:
			// age some files and trim
			for j := 0; j < 3; j++ {
				var f string
				if rnd.Bool() {
					f = fileOf(dir, keyID(200+rnd.Intn(nk)), "a")
				} else {
					f = fileOf(dir, sha256.Sum256(stressContent(rnd.Intn(nk), rnd.Intn(nv))), "d")
				}
				t := time.Now().Add(-200 * time.Hour)
				os.Chtimes(f, t, t)
			}
			os.Remove(filepath.Join(dir, "trim.txt"))
			openCache(dir).Trim()
			enc.Encode(slog{Op: "trim", K: k})
		}
	}
}

func runStress(work string, seed uint64, procs, rounds, nops int, out string) {
	dir := filepath.Join(work, "stress")
	must(os.MkdirAll(dir, 0o777))
	openCache(dir)
	self, err := os.Executable()
	must(err)
	rnd := hx.NewRand(seed ^ 0x57E55)
	var logs []string
	died := 0
	for r := 0; r < rounds; r++ {
		var wg sync.WaitGroup
		var mu sync.Mutex
		for p := 0; p < procs; p++ {
			lp := filepath.Join(work, fmt.Sprintf("stress-%d-%d.log", r, p))
			logs = append(logs, lp)
			cs := rnd.Uint64()
			wg.Add(1)
			go func() {
				defer wg.Done()
				// a child that dies in a crash-put is replaced until the op budget of this slot is used up
				for attempt := 0; attempt < 6; attempt++ {
					cmd := exec.Command(self, "-mode", "child", "-dir", dir, "-seed", strconv.FormatUint(cs+uint64(attempt), 10),
						"-ops", strconv.Itoa(nops/(attempt+1)), "-log", lp)
					cmd.Stderr = os.Stderr
					err := cmd.Run()
					if err == nil {
						return
					}
					if ee, ok := err.(*exec.ExitError); ok && ee.ExitCode() == 7 {
						mu.Lock()
						died++
						mu.Unlock()
						continue
					}
					must(fmt.Errorf("child failed: %v", err))
				}
			}()
		}
		wg.Wait()
	}
	type output struct {
		Puts    map[string][][]int // key index -> values ever put
		PutIdx  map[string][]int   // key index -> content indices v ever put
		Lookups []slog
		Died    int
		Ops     int
		Enoent  int
	}
	o := output{Puts: map[string][][]int{}, PutIdx: map[string][]int{}, Died: died}
	seen := map[string]bool{}
	for _, lp := range logs {
		f, err := os.Open(lp)
		if err != nil {
			continue
		}
		dec := json.NewDecoder(f)
		for {
			var l slog
			if err := dec.Decode(&l); err != nil {
				break
			}
			o.Ops++
			switch l.Op {
			case "put":
				key := fmt.Sprintf("%d/%d", l.K, l.V)
				if !seen[key] {
					seen[key] = true
					ks := strconv.Itoa(l.K)
					o.Puts[ks] = append(o.Puts[ks], ints(stressContent(l.K, l.V)))
					o.PutIdx[ks] = append(o.PutIdx[ks], l.V)
				}
			case "getfile", "getbytes":
				if l.Hit {
					l.Known = -1
					for v := 0; v < 5; v++ {
						if bytes.Equal(bytesOf(l.Data), stressContent(l.K, v)) {
							l.Known = v
							l.Data = nil
							break
						}
					}
					o.Lookups = append(o.Lookups, l)
				}
			case "getfile-enoent":
				o.Enoent++
			}
		}
		f.Close()
	}
	hx.EmitJSON(out, o)
}

// ---------------------------------------------------------------------------------------------- end to end

func runE2E(work string, seed uint64, bin string, thorough bool, out string) {
	rnd := hx.NewRand(seed ^ 0xE2E)
	mod := filepath.Join(work, "e2emod")
	hx.WriteFile(filepath.Join(mod, "go.mod"), "module example.com/e2e\n\ngo 1.21\n")
	hx.WriteFile(filepath.Join(mod, "a", "a.go"), `package a

// F does nothing.
//
// Deprecated: use G.
func F() {}

// G returns one.
func G() int { return 1 }

func unusedInA() {}

// Pure has no side effects.
func Pure(x int) int { return x * 2 }
`)
	hx.WriteFile(filepath.Join(mod, "b", "b.go"), `package b

import "example.com/e2e/a"

// H calls a deprecated function and discards a pure result.
func H(x bool) int {
	a.F()
	a.Pure(3)
	if x == true {
		return a.G()
	}
	return 0
}

type T struct{ n int }

func (t T) Set(n int) { t.n = n }
`)
	hx.WriteFile(filepath.Join(mod, "c", "c.go"), `package c

import (
	"example.com/e2e/a"
	"example.com/e2e/b"
)

func K() int {
	var t b.T
	t.Set(1)
	a.F()
	x := b.H(false)
	x = 2
	return a.Pure(1)
}

func unusedInC() int { return b.H(true) }
`)
	cdir := filepath.Join(work, "e2ecache")
	run := func(cacheDir string) string {
		cmd := exec.Command(bin, "-f", "json", "-checks", "all", "./...")
		cmd.Dir = mod
		cmd.Env = append(hx.GoEnv(), "STATICCHECK_CACHE="+cacheDir, "HOME="+work)
		var stdout, stderr bytes.Buffer
		cmd.Stdout, cmd.Stderr = &stdout, &stderr
		err := cmd.Run()
		code := 0
		if ee, ok := err.(*exec.ExitError); ok {
			code = ee.ExitCode()
		} else if err != nil {
			must(err)
		}
		lines := strings.Split(strings.TrimSpace(stdout.String()), "\n")
		sort.Strings(lines)
		return fmt.Sprintf("exit=%d\n%s\nstderr=%s", code, strings.Join(lines, "\n"), strings.TrimSpace(stderr.String()))
	}
	type runrec struct {
		Damage string
		Files  int
		Equal  bool
		Output string `json:",omitempty"`
	}
	type output struct {
		Cold        string
		Diagnostics int
		Runs        []runrec
	}
	var o output
	o.Cold = run(filepath.Join(work, "e2ecold"))
	o.Diagnostics = strings.Count(o.Cold, `"code"`)
	first := run(cdir)
	o.Runs = append(o.Runs, runrec{Damage: "none (first run with the shared directory)", Equal: first == o.Cold, Output: diffOut(first, o.Cold)})
	cacheFiles := func(suffix string) []string {
		var fs []string
		filepath.Walk(cdir, func(path string, info os.FileInfo, err error) error {
			if err == nil && !info.IsDir() && strings.HasSuffix(path, suffix) {
				fs = append(fs, path)
			}
			return nil
		})
		sort.Strings(fs)
		return fs
	}
	type damage struct {
		name string
		f    func() int
	}
	truncAll := func(suffix string, class string) func() int {
		return func() int {
			n := 0
			for _, f := range cacheFiles(suffix) {
				st, err := os.Stat(f)
				if err != nil {
					continue
				}
				sz := st.Size()
				var to int64
				switch class {
				case "0":
					to = 0
				case "1":
					to = 1
				case "half":
					to = sz / 2
				case "n-1":
					to = sz - 1
				}
				if to < 0 || to > sz {
					continue
				}
				must(os.Truncate(f, to))
				n++
			}
			return n
		}
	}
	deleteSome := func(suffix string, pct int) func() int {
		return func() int {
			n := 0
			for _, f := range cacheFiles(suffix) {
				if rnd.Intn(100) < pct {
					os.Remove(f)
					n++
				}
			}
			return n
		}
	}
	mixed := func() int {
		n := 0
		for _, f := range cacheFiles("") {
			if !strings.HasSuffix(f, "-a") && !strings.HasSuffix(f, "-d") {
				continue
			}
			st, err := os.Stat(f)
			if err != nil {
				continue
			}
			switch rnd.Intn(5) {
			case 0:
				os.Remove(f)
				n++
			case 1:
				must(os.Truncate(f, int64(rnd.Intn(int(st.Size())+1))))
				n++
			case 2:
				if st.Size() > 0 {
					must(os.Truncate(f, st.Size()-1))
					n++
				}
			}
		}
		return n
	}
	damages := []damage{
		{"truncate every data file to n-1", truncAll("-d", "n-1")},
		{"truncate every data file to n/2", truncAll("-d", "half")},
		{"truncate every index file to n-1", truncAll("-a", "n-1")},
		{"delete half of the data files", deleteSome("-d", 50)},
		{"random mix of delete/truncate over all files", mixed},
	}
	if thorough {
		damages = append(damages,
			damage{"truncate every data file to 0", truncAll("-d", "0")},
			damage{"truncate every data file to 1", truncAll("-d", "1")},
			damage{"truncate every index file to 0", truncAll("-a", "0")},
			damage{"truncate every index file to 1", truncAll("-a", "1")},
			damage{"truncate every index file to n/2", truncAll("-a", "half")},
			damage{"delete half of the index files", deleteSome("-a", 50)},
			damage{"delete all data files", deleteSome("-d", 100)},
			damage{"random mix (2)", mixed}, damage{"random mix (3)", mixed}, damage{"random mix (4)", mixed},
		)
	}
	for _, d := range damages {
		n := d.f()
		got := run(cdir)
		o.Runs = append(o.Runs, runrec{Damage: d.name, Files: n, Equal: got == o.Cold, Output: diffOut(got, o.Cold)})
	}
	hx.EmitJSON(out, o)
}

func diffOut(got, want string) string {
	if got == want {
		return ""
	}
	if len(got) > 4000 {
		got = got[:4000]
	}
	return got
}

// ---------------------------------------------------------------------------------------------- main

func main() {
	mode := flag.String("mode", "hist", "hist | codec | stress | child | e2e")
	work := flag.String("work", "", "scratch directory")
	out := flag.String("out", "", "output JSON")
	seed := flag.Uint64("seed", 1, "seed")
	nrandom := flag.Int("random", 150, "number of random histories")
	maxops := flag.Int("maxops", 14, "max ops per random history")
	nmut := flag.Int("mutations", 600, "codec: random mutations")
	thorough := flag.Bool("thorough", false, "thorough tier")
	procs := flag.Int("procs", 4, "stress: processes per round")
	rounds := flag.Int("rounds", 3, "stress: rounds")
	nops := flag.Int("ops", 150, "stress/child: ops per process")
	dir := flag.String("dir", "", "child: cache directory")
	logp := flag.String("log", "", "child: log file")
	bin := flag.String("staticcheck", "", "e2e: staticcheck binary")
	flag.Parse()
	switch *mode {
	case "hist":
		runHist(*work, *seed, *nrandom, *maxops, *thorough, *out)
	case "codec":
		runCodec(*work, *seed, *nmut, *out)
	case "stress":
		runStress(*work, *seed, *procs, *rounds, *nops, *out)
	case "child":
		runChild(*dir, *seed, *nops, *logp)
	case "e2e":
		runE2E(*work, *seed, *bin, *thorough, *out)
	default:
		fmt.Fprintln(os.Stderr, "unknown mode")
		os.Exit(2)
	}
}
