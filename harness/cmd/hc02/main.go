// hc02: serialises every function of the corpora built by go/ir under builder-mode combinations
// (blocks with preds/succs/Index, recover block, instructions with operands as value references,
// referrer lists, type ids with a per-group type table precomputed through go/types) and writes
//   <out>.json         metadata per case (corpus item, function, mode, sizes, group, shard)
//   <work>/cases/gNNN.v one Gallina file per group = (corpus item, mode): type table + functions
// Identical function bodies within one corpus item (e.g. BuildSerially on/off) are emitted once.
package main

import (
	"crypto/sha1"
	"flag"
	"fmt"
	"os"
	"path/filepath"
	"sort"
	"strings"

	"honnef.co/go/tools/go/ir"
	"verifharness/hx"
)

type Case struct {
	ID     int
	Group  int
	Corpus string
	Pkg    string
	Func   string
	Mode   string
	Blocks int
	Instrs int
	Phis   int
	Kinds  map[string]int
	Dups   int
}

type Group struct {
	ID     int
	Corpus string
	Mode   string
	File   string
	Cases  int
	Instrs int
	Types  int
}

type Out struct {
	Cases      []*Case
	Groups     []*Group
	Functions  int
	Skipped    int
	ByCorpus   map[string]int
	KindTotals map[string]int
	Modes      []string
	Items      []string
	Gen        hx.GenStats
	MaxInstrs  int
	Sources    map[string]map[string]string
	LoadErrors []string
	Crashes    []string // "<item> <mode>: <panic message>" (only with -serial)
}

func main() {
	work := flag.String("work", "", "scratch directory")
	out := flag.String("out", "", "output JSON")
	seed := flag.Uint64("seed", 1, "seed")
	tier := flag.String("tier", "quick", "quick|thorough")
	serial := flag.Bool("serial", false, "fallback after a builder crash: add BuildSerially to every mode and recover from panics per (item, mode), recording them in Crashes")
	only := flag.String("only", "", "restrict to one corpus item (replay)")
	repoFlag := flag.String("repo", "", "comma separated repository package patterns overriding the tier's list (exploration)")
	noGen := flag.Bool("nogen", false, "skip generated and testdata corpora (exploration)")
	dumpFunc := flag.String("dumpfunc", "", "print the IR of the function with this label (replay/debugging)")
	dumpMode := flag.String("dumpmode", "", "mode letters for -dumpfunc")
	flag.Parse()
	rnd := hx.NewRand(*seed)
	thorough := *tier == "thorough"

	npk, nf, maxInstrs, ntd := 2, 7, 300, 2
	repoPats := []string{"./config", "./go/gcsizes"}
	allModes := hx.AllModes()
	// outside the generated corpus the quick tier uses 4 of the 16 mode combinations
	fewModes := []ir.BuilderMode{0, ir.NaiveForm, ir.GlobalDebug | ir.InstantiateGenerics, ir.NaiveForm | ir.GlobalDebug | ir.InstantiateGenerics | ir.BuildSerially}
	if thorough {
		// all 16 combinations on the generated corpus, 4 on every repository and testdata package
		npk, nf, maxInstrs, ntd = 8, 40, 3000, 0
		repoPats = []string{"./..."}
	}
	if *repoFlag != "" {
		repoPats = strings.Split(*repoFlag, ",")
	}
	if *noGen {
		npk, ntd = 0, -1
	}
	res := &Out{ByCorpus: map[string]int{}, KindTotals: map[string]int{}, Sources: map[string]map[string]string{}, MaxInstrs: maxInstrs}
	for _, m := range allModes {
		res.Modes = append(res.Modes, hx.ModeLetters(m))
	}
	var items []*hx.CorpusItem
	gen, err := hx.GenCorpus(rnd.Fork(), *work, npk, nf)
	if err != nil {
		fmt.Fprintln(os.Stderr, "fatal:", err)
		os.Exit(2)
	}
	items = append(items, gen...)
	if strings.HasPrefix(*only, "gen/") {
		repoPats, ntd = nil, -1 // replaying a generated item: the other corpora are not needed
	}
	rndTD := rnd.Fork()
	var repo []*hx.CorpusItem
	if len(repoPats) > 0 {
		repo, err = hx.RepoCorpus(repoPats)
	}
	if err != nil {
		res.LoadErrors = append(res.LoadErrors, "repo: "+err.Error())
	}
	items = append(items, repo...)
	if ntd >= 0 {
		items = append(items, hx.TestdataCorpus(hx.Sample(rndTD, hx.TestdataDirs(), ntd))...)
	}

	seen := map[[20]byte]*Case{} // identical (label, body, types) are evaluated once, across items and modes
	casedir := filepath.Join(*work, "cases")
	os.MkdirAll(casedir, 0o777)
	for _, it := range items {
		if *only != "" && it.Name != *only {
			continue
		}
		res.Items = append(res.Items, it.Name)
		if it.Kind == "gen" {
			res.Sources[it.Name] = it.Sources
			res.Gen.GotoFuncs += it.Gen.GotoFuncs
			res.Gen.StructFuncs += it.Gen.StructFuncs
			res.Gen.GenericFuncs += it.Gen.GenericFuncs
			res.Gen.RecoverFuncs += it.Gen.RecoverFuncs
		}
		modes := allModes
		if it.Kind != "gen" || (it.Name != "gen/p0" && !thorough) {
			modes = fewModes // quick tier: all 16 combinations on the first generated package only
		}
		for _, m := range modes {
			hx.WriteFile(*work+"/progress.txt", it.Name+" "+hx.ModeLetters(m)+"\n")
			if *serial {
				m |= ir.BuildSerially
			}
			var prog *ir.Program
			var fns []*ir.Function
			func() {
				if *serial {
					defer func() {
						if r := recover(); r != nil {
							res.Crashes = append(res.Crashes, fmt.Sprintf("%s %s: %v", it.Name, hx.ModeLetters(m), r))
							fns = nil
						}
					}()
				}
				prog, fns = hx.BuildFunctions(it.Pkgs, m)
			}()
			tt := hx.NewTypeTable()
			type pending struct {
				c *Case
				f *hx.IRFunc
			}
			var pend []pending
			used := map[int]bool{}
			for _, fn := range fns {
				if it.Kind != "gen" && !strings.HasPrefix(hx.FuncPkgPath(fn), it.Pkgs[0].Types.Path()) && fn.Synthetic == "" {
					continue
				}
				if *dumpFunc != "" {
					if hx.FuncLabel(prog, fn) == *dumpFunc && hx.ModeLetters(m) == *dumpMode {
						dtt := hx.NewTypeTable()
						d := hx.SerFunc(fn, dtt, true)
						fn.WriteTo(os.Stdout)
						for _, t := range dtt.Types {
							fmt.Printf("type %d %s %q under=%d core=%d elem=%d key=%d fields=%v params=%v results=%v flags=%d\n", t.ID, t.Kind, t.Str, t.Under, t.Core, t.Elem, t.Key, t.Fields, t.Params, t.Results, t.Flags)
						}
						for bi, b := range d.Blocks {
							fmt.Printf("block %d (Index %d) preds %v succs %v\n", bi, b.Index, b.Preds, b.Succs)
							for _, in := range b.Instrs {
								fmt.Printf("  #%d id=%d %-14s %s   ops=%v refs=%v(%v) ty=%d aux=%v\n", in.Seq, in.ID, in.Kind, in.Str, in.Ops, in.Refs, in.HasRefs, in.Type, in.Aux)
							}
						}
					}
					continue
				}
				sf := hx.SerFunc(fn, tt, false)
				if sf.NInstr > maxInstrs {
					res.Skipped++
					continue
				}
				res.Functions++
				res.ByCorpus[it.Kind]++
				// identical bodies (same function, different mode with no effect) are evaluated once; the hash
				// covers the structure and the type strings
				sf.UsedTypes(used)
				g := sf.Gallina(nil)
				var tyStr strings.Builder
				u := map[int]bool{}
				sf.UsedTypes(u)
				var ids []int
				for id := range u {
					ids = append(ids, id)
				}
				sort.Ints(ids)
				for _, id := range ids {
					if id > 0 {
						fmt.Fprintf(&tyStr, "%d=%s;", id, tt.Types[id-1].Str)
					}
				}
				h := sha1.Sum([]byte(hx.FuncLabel(prog, fn) + "\x00" + g + "\x00" + tyStr.String()))
				if c, ok := seen[h]; ok {
					c.Dups++
					continue
				}
				c := &Case{Corpus: it.Name, Pkg: hx.FuncPkgPath(fn), Func: hx.FuncLabel(prog, fn), Mode: hx.ModeLetters(m), Blocks: len(sf.Blocks), Instrs: sf.NInstr, Kinds: map[string]int{}}
				for _, b := range sf.Blocks {
					for _, in := range b.Instrs {
						c.Kinds[in.Kind]++
						res.KindTotals[in.Kind]++
						if in.Kind == "Phi" {
							c.Phis++
						}
					}
				}
				seen[h] = c
				pend = append(pend, pending{c, sf})
			}
			if len(pend) == 0 {
				continue
			}
			u2 := map[int]bool{}
			for _, p := range pend {
				p.f.UsedTypes(u2)
			}
			types, remap := hx.CompactTypes(tt, u2, 4)
			grp := &Group{ID: len(res.Groups), Corpus: it.Name, Mode: hx.ModeLetters(m), Types: len(types)}
			grp.File = fmt.Sprintf("g%03d.v", grp.ID)
			var sb strings.Builder
			fmt.Fprintf(&sb, "Definition T%d : tytable :=\n %s.\n", grp.ID, hx.GallinaTypes(types))
			fmt.Fprintf(&sb, "Definition F%d : list fcase := [\n", grp.ID)
			for i, p := range pend {
				p.c.ID = len(res.Cases)
				p.c.Group = grp.ID
				res.Cases = append(res.Cases, p.c)
				if i > 0 {
					sb.WriteString(";\n")
				}
				fmt.Fprintf(&sb, "mkC %d (%s)", p.c.ID, p.f.Gallina(remap))
				grp.Instrs += p.c.Instrs
			}
			sb.WriteString("].\n")
			grp.Cases = len(pend)
			hx.WriteFile(filepath.Join(casedir, grp.File), sb.String())
			res.Groups = append(res.Groups, grp)
		}
	}
	hx.EmitJSON(*out, res)
}

