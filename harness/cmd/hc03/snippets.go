package main

// The fixed part of the generated corpus: small import-free programs (only "unsafe") that together use every
// statement / expression / declaration form of go/ast, every ir.Instruction kind go/ir constructs, every builtin,
// every comparison operator against a zero-valued constant, and a number of legal-but-unusual spellings.
// Most functions have a pointer-like result so that the nilness fact analysis looks at their bodies.
// `__` in an identifier is replaced by a per-snippet suffix so that several snippets can share one package.

type snippet struct {
	Name    string
	Imports []string
	Solo    bool     // never combined with other snippets in one package (redeclares predeclared identifiers / imports std)
	Targets []string // universe members this snippet is the directed program for (e.g. "builtin:recover")
	Src     string
}

var snippets = []snippet{
	// ---------------------------------------------------------------- builtins (one per pointer-like builtin)
	{Name: "builtin_recover", Targets: []string{"builtin:recover"}, Src: `
// F__ returns what recover returns.
func F__() any { return recover() }

// G__ uses recover in a deferred closure.
func G__() (err any, p *int) {
	defer func() { err = recover() }()
	return nil, p
}
`},
	{Name: "builtin_append", Targets: []string{"builtin:append"}, Src: `
// F__ appends.
func F__(s []int, t ...int) []int { s = append(s, 1); s = append(s, t...); return append([]int(nil), s...) }

// B__ appends a string to bytes.
func B__(b []byte, s string) []byte { return append(b, s...) }
`},
	{Name: "builtin_unsafe", Imports: []string{"unsafe"},
		Targets: []string{"builtin:UnsafeAdd", "builtin:UnsafeSlice", "builtin:UnsafeSliceData", "builtin:UnsafeStringData", "builtin:UnsafeString"}, Src: `
// Add__ does pointer arithmetic.
func Add__(p unsafe.Pointer) unsafe.Pointer { return unsafe.Add(p, 8) }

// Slice__ builds a slice.
func Slice__(p *int) []int { return unsafe.Slice(p, 2) }

// SliceData__ returns the data pointer.
func SliceData__(s []int) *int { return unsafe.SliceData(s) }

// StringData__ returns the data pointer.
func StringData__(s string) *byte { return unsafe.StringData(s) }

// String__ builds a string.
func String__(p *byte) (string, *byte) { return unsafe.String(p, 1), p }

type sz__ struct {
	a int
	b string
}

// Sizes__ uses the constant-folded unsafe builtins.
func Sizes__(x sz__) (uintptr, *int) {
	return unsafe.Sizeof(x) + unsafe.Alignof(x) + unsafe.Offsetof(x.b), nil
}

// Conv__ converts between uintptr and unsafe.Pointer.
func Conv__(u uintptr, p *int) (unsafe.Pointer, uintptr) {
	return unsafe.Pointer(u), uintptr(unsafe.Pointer(p))
}
`},
	{Name: "builtin_misc", Targets: []string{"builtin:len", "builtin:cap", "builtin:copy", "builtin:clear", "builtin:close", "builtin:delete",
		"builtin:print", "builtin:println", "builtin:complex", "builtin:real", "builtin:imag", "builtin:max", "builtin:min", "builtin:make", "builtin:new", "builtin:panic"}, Src: `
// Misc__ calls the remaining builtins.
func Misc__(s []int, m map[string]int, c chan int, p *int) (*int, []int) {
	n := len(s) + cap(s) + copy(s, s) + len(m) + max(1, len(s)) + min(2, cap(s), 7)
	clear(s)
	clear(m)
	delete(m, "a")
	close(c)
	print(n)
	println(n, "x")
	z := complex(1.0, float64(n))
	_ = real(z) + imag(z)
	q := new(int)
	r := make([]int, n)
	_ = make(map[int]int)
	_ = make(map[int]int, n)
	_ = make(chan int, 1)
	_ = make(chan int)
	_ = make([]int, 2, 8)
	_ = make([]int, n, 2*n)
	if n > 100 {
		panic("x")
	}
	*q = n
	return q, r
}

// NewExpr__ uses new with an expression operand.
func NewExpr__(n int) *int { return new(n + 1) }

// MaxStr__ takes the maximum of strings.
func MaxStr__(a, b string) (string, *int) { return max(a, b), nil }

// GenMax__ is generic.
func GenMax__[T ~int | ~float64](a, b T) (T, *T) { m := max(a, b); return m, &m }

// GenMake__ makes a generic slice.
func GenMake__[S ~[]E, E any](n int) S { return make(S, n) }

// GenAppend__ appends generically.
func GenAppend__[S ~[]E, E any](s S, e E) S { return append(s, e) }

// GenLen__ takes the length of a generic value.
func GenLen__[S ~[]int | ~string](s S) (int, *int) { return len(s), nil }

// ArrLen__ takes the length of an array pointer returned by a call.
func ArrLen__(f func() *[4]int) (int, *int) { return len(f()) + cap(f()), nil }
`},
	// ---------------------------------------------------------------- nil comparisons
	{Name: "nil_compare", Targets: []string{"token:EQL", "token:NEQ"}, Src: `
type e__ struct{ next *e__ }

// Eq__ compares with nil in all spellings.
func Eq__(p *int, s []int, m map[int]int, c chan int, f func(), i any, e error) *e__ {
	if p == nil || nil == p {
		return nil
	}
	if s != nil && nil != s {
		return &e__{}
	}
	if m == nil {
		return nil
	}
	if !(c != nil) {
		return nil
	}
	if f == nil {
		return nil
	}
	if i == nil {
		return nil
	} else if e != nil {
		return &e__{next: nil}
	}
	x := &e__{}
	for x.next != nil {
		x = x.next
	}
	return x
}

// Zero__ compares composite values with their zero value.
func Zero__(a [2]int, b struct{ x, y int }, p *int) *int {
	if a == [2]int{} {
		return nil
	}
	if b != (struct{ x, y int }{}) {
		return p
	}
	return p
}
`},
	// ---------------------------------------------------------------- every instruction kind, in functions nilness analyses
	{Name: "instr_memory", Targets: []string{"instr:Alloc", "instr:Load", "instr:Store", "instr:FieldAddr", "instr:Field", "instr:IndexAddr", "instr:Index", "instr:BlankStore", "instr:CompositeValue"}, Src: `
type pt__ struct {
	x, y int
	next *pt__
	arr  [3]int
}

func mk__() pt__ { return pt__{x: 1} }

func arr__() [3]int { return [3]int{1, 2, 3} }

// Mem__ exercises loads, stores, field and index addressing.
func Mem__(p *pt__, s []int, a [3]int, i int) (*pt__, *int) {
	var local pt__
	local.x = p.x
	local.arr[i] = s[i] + a[i]
	q := &local.arr[1]
	*q = mk__().y + arr__()[2]
	_ = p.next.next
	_ = a
	var blank int
	_ = blank
	v := pt__{x: i, y: 2}
	w := [3]int{0: i, 2: 3}
	_, _ = v, w
	pp := &p
	(*pp).next = &local
	return *pp, &s[0]
}
`},
	{Name: "instr_convert", Targets: []string{"instr:Convert", "instr:ChangeType", "instr:MultiConvert", "instr:ChangeInterface", "instr:MakeInterface", "instr:TypeAssert", "instr:SliceToArray", "instr:SliceToArrayPointer", "instr:UnOp", "instr:BinOp"}, Src: `
type myInt__ int
type myPtr__ *int
type str__ interface{ String() string }
type strE__ interface {
	str__
	Error() string
}
type impl__ struct{}

func (impl__) String() string { return "" }
func (impl__) Error() string  { return "" }

// Conv__ exercises conversions.
func Conv__(i int, f float64, p *int, s []int, e strE__, a any) (myPtr__, str__, *[2]int, any) {
	m := myInt__(i) + myInt__(f)
	var st str__ = e
	var ifc any = m
	arr := [2]int(s)
	ap := (*[2]int)(s)
	_ = arr
	n, ok := a.(int)
	_, _ = n, ok
	t := a.(str__)
	_ = t
	u := -i ^ i
	b := !(i < 3) && f > 1.5
	_, _ = u, b
	if v, ok := a.(strE__); ok {
		return myPtr__(p), v, ap, ifc
	}
	return myPtr__(p), st, ap, impl__{}
}

// Multi__ converts a type parameter.
func Multi__[T ~int | ~float64, U ~[]byte | ~string](x T, u U) (float64, []byte) {
	return float64(x), []byte(u)
}

// GenArr__ converts to generic array pointers.
func GenArr__[P ~*[2]int | ~*[3]int](s []int) P { return P(s) }
`},
	{Name: "instr_make", Targets: []string{"instr:MakeMap", "instr:MakeSlice", "instr:MakeChan", "instr:MakeClosure", "instr:MapLookup", "instr:MapUpdate", "instr:Slice", "instr:Send", "instr:Recv"}, Src: `
// Make__ exercises make, maps, channels, slicing and closures.
func Make__(n int, str string, arr *[8]int) (map[string][]int, chan *int, func() *int, []int, string) {
	m := make(map[string][]int, n)
	m["a"] = make([]int, n)
	m["b"] = append(m["a"], 1)
	v, ok := m["c"]
	_ = ok
	c := make(chan *int, 1)
	x := n
	c <- &x
	y := <-c
	z, ok2 := <-c
	_, _ = z, ok2
	f := func() *int { x++; return y }
	s := v[1:n]
	s = s[:2:3]
	s = arr[2:]
	t := str[1:]
	var full [8]int
	s = full[:]
	return m, c, f, s, t
}
`},
	{Name: "instr_control", Targets: []string{"instr:If", "instr:Jump", "instr:Phi", "instr:Return", "instr:Panic", "instr:Unreachable", "instr:ConstantSwitch", "instr:Range", "instr:Next", "instr:Extract", "instr:Call"}, Src: `
func two__() (int, *int) { return 0, nil }

func exit__() { panic("no") }

// Ctl__ exercises control flow.
func Ctl__(n int, s string, m map[string]*int, p *int) (res *int, err error) {
	switch n {
	case 1, 2:
		res = p
	case 3:
		res = nil
		fallthrough
	case 4:
		n++
	default:
		n--
	}
	switch {
	case n > 3:
		return nil, nil
	}
	switch x := n * 2; x {
	}
	for i, r := range s {
		if r == 'x' {
			continue
		}
		n += i
	}
	for k, v := range m {
		if k == "" {
			break
		}
		res = v
	}
	a, b := two__()
	_, _ = a, b
	if n < 0 {
		panic("negative")
	}
	if n == 77 {
		exit__()
	}
	var q *int
	if n > 5 {
		q = p
	} else {
		q = res
	}
	return q, err
}
`},
	{Name: "instr_concurrency", Targets: []string{"instr:Go", "instr:Defer", "instr:RunDefers", "instr:Select", "instr:TypeSwitch"}, Src: `
type lk__ struct{ n int }

func (l *lk__) Lock()   { l.n++ }
func (l *lk__) Unlock() { l.n-- }

// Conc__ exercises go, defer, select and type switches.
func Conc__(c chan int, d chan<- *int, r <-chan string, l *lk__, v any) (out *int, s fmtS__) {
	l.Lock()
	defer l.Unlock()
	defer func() { out = nil }()
	go func(x int) { c <- x }(1)
	go l.Lock()
	select {
	case x := <-c:
		out = &x
	case x, ok := <-r:
		_, _ = x, ok
	case d <- out:
	case <-c:
	default:
	}
	select {
	case v := <-c:
		_ = v
	}
	var i int
	select {
	case i = <-c:
	case c <- i:
	}
	for n := range c {
		_ = n
	}
	switch t := v.(type) {
	case nil:
		return nil, nil
	case int, string:
		_ = t
	case *int:
		return t, nil
	case fmtS__:
		return nil, t
	case error:
		_ = t.Error()
	default:
		_ = t
	}
	switch v.(type) {
	case int:
	}
	return out, nil
}

type fmtS__ interface{ String() string }

// Spin__ blocks forever.
func Spin__() *int {
	select {}
}
`},
	{Name: "range_forms", Targets: []string{"stmt:RangeStmt"}, Src: `
// Range__ ranges over every rangeable type.
func Range__(a [3]int, pa *[3]int, s []string, str string, m map[int]bool, c chan int, n int, seq func(func(int) bool), seq2 func(func(int, *int) bool), seq0 func(func() bool)) *int {
	var last *int
	for range a {
	}
	for i := range pa {
		_ = i
	}
	for i, v := range pa {
		_, _ = i, v
	}
	for _, v := range s {
		_ = v
	}
	for i := range str {
		_ = i
	}
	for k := range m {
		_ = k
	}
	for v := range c {
		_ = v
	}
	for i := range n {
		_ = i
	}
	for range 10 {
	}
	for v := range seq {
		if v > 3 {
			break
		}
	}
	for k, v := range seq2 {
		if k > 3 {
			continue
		}
		last = v
	}
	for range seq0 {
		return last
	}
	var i int
	var x struct{ f int }
	for i, x.f = range a {
	}
	_ = i
	return last
}

// GenRange__ ranges over type parameters.
func GenRange__[S ~[]E, E any, M ~map[K]V, K comparable, V any, N ~int](s S, m M, n N) *E {
	var last *E
	for i := range s {
		last = &s[i]
	}
	for range m {
	}
	for range n {
	}
	return last
}
`},
	// ---------------------------------------------------------------- statements and declarations of go/ast
	{Name: "stmt_forms", Targets: []string{"stmt:LabeledStmt", "stmt:BranchStmt", "stmt:IncDecStmt", "stmt:DeclStmt", "stmt:EmptyStmt", "stmt:BlockStmt", "stmt:ExprStmt", "stmt:SendStmt"}, Src: `
// Stmts__ uses the remaining statement forms.
func Stmts__(n int, c chan int, p *int) *int {
	var (
		a, b int = 1, 2
		d        = "x"
	)
	const k = 3
	type local struct{ v int }
	var l local
	l.v++
	(*p)--
	n += a + b + k + len(d)
	n <<= 1
	n &^= 2
	;
	{
		n := n
		_ = n
	}
outer:
	for i := 0; i < n; i++ {
	inner:
		for {
			if i > 3 {
				break outer
			}
			if i > 2 {
				continue outer
			}
			if i > 1 {
				break inner
			}
			goto done
		}
	}
done:
	c <- n
	func() {}()
	if x := n; x > 1 {
	} else if y := x; y > 2 {
	} else {
	}
	for n < 10 {
		n++
	}
	for ; ; n++ {
		break
	}
	return p
}
`},
	{Name: "decl_forms", Imports: []string{"unsafe"}, Targets: []string{"decl:GenDecl", "decl:FuncDecl", "spec:ImportSpec", "spec:TypeSpec", "spec:ValueSpec"}, Src: `
const (
	c0__ = iota
	c1__
	_
	c3__ uint8 = 1 << iota
)

const single__, other__ = "s", 2.5

var (
	v0__, v1__ = 1, "one"
	v2__       *int
	_          = v2__
)

var fn__ = func() *int { return v2__ }

var multi__, err__ = two__()

func two__() (*int, error) { return nil, nil }

type (
	named__   int
	alias__   = named__
	ptr__     *named__
	fnT__     func(int, ...string) (n int, err error)
	chT__     chan<- <-chan int
	mapT__    map[string][]*named__
	arrT__    [c3__]int
	gen__[T any] struct {
		val  T
		next *gen__[T]
	}
	pair__[K comparable, V any] struct {
		k K
		v V
	}
	iface__ interface {
		M(int) string
		~int | ~string
	}
	cons__[T any] interface {
		comparable
		Get() T
	}
	embed__ struct {
		named__
		*gen__[int]
		pair__[string, int]
		alias__ ` + "`json:\"a\"`" + `
		unsafePtr unsafe.Pointer
		_         int
	}
	galias__[T any] = gen__[T]
)

func (g *gen__[T]) Get() T { return g.val }

func (g gen__[_]) Len() int { return 0 }

func (p pair__[K, V]) Key() K { return p.k }

func useCons__[T cons__[int], U iface__](t T, u U) (int, string) { return t.Get(), u.M(1) }

func init() { v2__ = new(int) }

func init() {}

func _() {}

var _ = use__(c0__, c1__, c3__, single__, other__, v0__, v1__, multi__, err__, fn__)

func use__(...any) *int { return nil }

// Decls__ refers to the declared types.
func Decls__(e embed__, f fnT__, c chT__, m mapT__, a arrT__, p ptr__, ga galias__[string]) (*gen__[int], interface{ Get() int }) {
	var pr pair__[string, int]
	_ = pr.Key()
	_ = e.named__
	_ = e.val
	_, _ = f(1, "a", "b")
	_, _, _, _, _ = c, m, a, p, ga
	g := &gen__[int]{val: 1}
	return g, g
}
`},
	{Name: "expr_forms", Targets: []string{"expr:FuncLit", "expr:CompositeLit", "expr:KeyValueExpr", "expr:Ellipsis", "expr:IndexListExpr", "expr:SliceExpr", "expr:StarExpr", "expr:ParenExpr", "expr:TypeAssertExpr", "expr:SelectorExpr", "expr:BinaryExpr", "expr:UnaryExpr", "expr:BasicLit",
		"expr:ArrayType", "expr:StructType", "expr:FuncType", "expr:InterfaceType", "expr:MapType", "expr:ChanType"}, Src: `
type tt__ struct {
	a int
	b *tt__
	c []tt__
	d map[string]tt__
	e [2]*tt__
	f func(int) *tt__
}

func (t tt__) val() int   { return t.a }
func (t *tt__) ptr() *int { return &t.a }

func both__[A, B any](a A, b B) (A, B) { return a, b }

// Exprs__ uses every expression form.
func Exprs__(x tt__, s []int, v ...*tt__) (r *tt__, arr [3]int) {
	lit := tt__{1, nil, nil, nil, [2]*tt__{}, nil}
	keyed := tt__{a: 1, c: []tt__{{a: 2}, {}}, d: map[string]tt__{"k": {a: 3}}, e: [2]*tt__{{a: 4}, nil}}
	nested := []*tt__{{a: 5}, nil}
	auto := [...]string{2: "x", "y"}
	anon := struct {
		p, q int
		fn   func() bool
	}{p: 1}
	fnv := func(a int, b ...string) (n int, err error) { return a + len(b), nil }
	mv := x.val
	me := tt__.val
	mp := (*tt__).ptr
	a, b := both__[int, string](1, "s")
	c, d := both__(2.5, 'r')
	_, _, _, _ = a, b, c, d
	var (
		ch   chan<- int
		rch  <-chan int
		fnt  func(...int)
		ifc  interface{ M() }
		mp2  map[[2]int]struct{}
		star = *(&x.a)
	)
	_, _, _, _, _, _ = ch, rch, fnt, ifc, mp2, star
	n, _ := fnv(1, "a")
	n = ((n)) + (s[0]*2-3)/4%5&6|7^8<<1>>1&^1
	ok := n == 1 || n != 2 && n < 3 || n <= 4 || n > 5 || n >= 6
	str := "a" + ` + "`b`" + ` + string(rune(65)) + rn__('c').String__()
	_ = 1.5e3 + 0x1p-2 + 1i
	_, _, _, _, _, _, _ = lit, keyed, nested, auto, anon, ok, str
	_ = s[1:2:3]
	_ = mv() + me(x) + *mp(&x)
	if len(v) > 0 {
		return v[0].b.f(1), arr
	}
	return x.f(n), [3]int{}
}

type rn__ rune

func (r rn__) String__() string { return string(r) }
`},
	{Name: "generics", Targets: []string{"expr:IndexExpr"}, Src: `
type num__ interface{ ~int | ~int64 | ~float64 }

type list__[T any] struct {
	head *node__[T]
}

type node__[T any] struct {
	v    T
	next *node__[T]
}

func (l *list__[T]) Push(v T) *node__[T] {
	n := &node__[T]{v: v, next: l.head}
	l.head = n
	return n
}

func (l *list__[T]) All() func(func(T) bool) {
	return func(yield func(T) bool) {
		for n := l.head; n != nil; n = n.next {
			if !yield(n.v) {
				return
			}
		}
	}
}

// Sum__ sums.
func Sum__[T num__](xs ...T) (s T, p *T) {
	for _, x := range xs {
		s += x
	}
	return s, &s
}

// Map__ maps.
func Map__[S ~[]E, E, R any](s S, f func(E) R) []R {
	var out []R
	for _, e := range s {
		out = append(out, f(e))
	}
	return out
}

// Ptr__ returns a pointer to the zero value.
func Ptr__[T any, PT interface{ *T }]() PT { return PT(new(T)) }

// Zero__ returns zero values.
func Zero__[T any, P ~*T, I interface{ M() }]() (T, P, I) {
	var t T
	var p P
	var i I
	if p == nil && any(i) == nil {
		return t, nil, i
	}
	return t, p, i
}

// Use__ instantiates.
func Use__() (*node__[string], []string, *int) {
	var l list__[string]
	n := l.Push("a")
	for v := range l.All() {
		_ = v
	}
	_, _ = Sum__(1, 2, 3)
	_, _ = Sum__[float64]()
	f := Map__[[]int, int, string]
	return n, f(nil, nil), Ptr__[int]()
}
`},
	// ---------------------------------------------------------------- legal but unusual spellings
	{Name: "odd_parens", Targets: []string{"odd:paren-receiver", "odd:paren-types"}, Src: `
// T__ is a type.
type T__ int

// Does something.
func (t (T__)) M() {}

// Does something else.
func (t *(T__)) N() {}

// And a third thing.
func (t (*T__)) O() {}

// G__ is generic.
type G__[A any] struct{ a (A) }

// Q does things.
func (g (*G__[A])) Q() (*A) { return (&g.a) }

// Parens__ parenthesises types and operands.
func Parens__(a (int), b ([](int)), c (map[(string)](*int))) ((*int), (error)) {
	var x (int) = (a)
	var y = ([](int))(b)
	(x) = (y)[(0)]
	((c))[("k")] = (&x)
	type (
		in (int)
	)
	return (c)[("k")], (nil)
}
`},
	{Name: "odd_idents", Targets: []string{"odd:shadowed-builtins", "odd:blank"}, Src: `
// Shadow__ shadows predeclared identifiers.
func Shadow__(len int, nil *int, true bool) (cap *int, new any) {
	append := func(s []int, v int) []int { return s }
	recover := func() any { return nil }
	make := recover()
	_ = append(nil2__, len)
	if nil == cap && true {
		return nil, make
	}
	type int string
	var string int = "s"
	_ = string
	return cap, new
}

var nil2__ []int

type _ struct{ _ int }

var _, _ = 1, 2

const _ = 0

func _(_ int, _ ...string) (_ *int) { return }

// Named__ has named results and bare returns.
func Named__(a int) (p *int, _ error) {
	if a > 0 {
		p = &a
		return
	}
	return
}
`},
	{Name: "odd_equal", Targets: []string{"odd:equal-functype", "expr:FuncType"}, Src: `
// Chain__ is an if-else chain over a type assertion whose type contains a function type.
func Chain__(x any, a, b interface{ M() }) *int {
	if x.(interface{ M() }) == a {
		return nil
	} else if x.(interface{ M() }) == b {
		return nil
	}
	return nil
}

// Chain2__ compares conversions to function types with nil.
func Chain2__(x any, y func(int) string) int {
	if x.(func(int) string) == nil || x.(func(int) string) == nil {
		return 1
	}
	if (func(int) string)(y) == nil {
		return 2
	} else if (func(int) string)(y) == nil {
		return 3
	}
	return 0
}

// Tagged__ compares assertions to struct types that differ in a tag only.
func Tagged__(x any, a struct{ A int }, at struct {
	A int ` + "`t`" + `
}) int {
	if x.(struct {
		A int ` + "`t`" + `
	}) == at {
		return 1
	} else if x.(struct{ A int }) == a {
		return 2
	}
	return 0
}
`},
	{Name: "odd_methods", Targets: []string{"odd:method-values"}, Src: `
type base__ struct{ n *int }

func (b base__) Get() *int   { return b.n }
func (b *base__) Set(p *int) { b.n = p }

type mid__ struct{ *base__ }
type top__ struct {
	mid__
	extra interface{ Get() *int }
}

// Promote__ uses promoted methods, method values and interface method values.
func Promote__(t top__, i interface{ Get() *int }) (*int, func() *int, func(*int)) {
	g := t.Get
	s := t.Set
	h := i.Get
	k := (*base__).Set
	k(t.base__, h())
	defer t.Set(nil)
	go t.extra.Get()
	var nilIface interface{ Get() *int }
	if i == nil {
		return nilIface.Get(), g, s
	}
	return t.mid__.base__.n, g, s
}
`},
	{Name: "odd_control", Targets: []string{"odd:labels"}, Src: `
// Odd__ has unusual control flow.
func Odd__(n int, p *int) *int {
L1:
L2:
	switch {
	case n > 0:
		n--
		goto L1
	case n < 0:
		break L2
	}
	for {
		select {
		default:
			return p
		}
	}
}

// Dead__ has unreachable code and an infinite loop.
func Dead__(p *int) *int {
	for {
	}
	return p
}

// Shadowed__ panics with a nil pointer on purpose.
func Shadowed__() *int {
	var p *int
	_ = *p
	var m map[string]int
	m["a"] = 1
	var f func()
	f()
	var c chan int
	c <- 1
	return p
}

// Recur__ is mutually recursive with pointer results.
func Recur__(n int) *int {
	if n == 0 {
		return nil
	}
	return recur2__(n - 1)
}

func recur2__(n int) *int { return Recur__(n) }

// Closure__ returns closures capturing results.
func Closure__() (f func() *int, g func() func() *int) {
	x := 1
	f = func() *int { return &x }
	g = func() func() *int { return func() *int { return f() } }
	return
}
`},
	{Name: "odd_structs", Targets: []string{"odd:struct-conversion"}, Src: `
type sa__ struct {
	A int
	b string
}
type sb__ struct {
	A int
	b string
}

// SConv__ converts between identical structs and through pointers.
func SConv__(a sa__, pa *sa__) (sb__, *sb__, *int) {
	b := sb__(a)
	pb := (*sb__)(pa)
	anon := struct {
		A int
		b string
	}(a)
	_ = anon
	arr := [1]sa__{a}
	if arr == [1]sa__{} || a == (sa__{}) {
		return b, pb, nil
	}
	return b, pb, &pb.A
}

type empty__ struct{}
type zst__ [0]int

// Zst__ uses zero-sized values.
func Zst__(e empty__, z zst__, s []int) (*empty__, *zst__, *[0]int) {
	return &e, &z, (*[0]int)(s)
}
`},
	{Name: "odd_parens2", Targets: []string{"odd:paren-operands"}, Src: `
type pp__ struct {
	f  *int
	fn func() *int
}

func (p *pp__) m() *int { return p.f }

// Parens2__ parenthesises operands in every position.
func Parens2__(p *pp__, c chan *int, s []*int, a any, f func(int) *int) (r *int) {
	var i int
	(r) = (p).f
	(*(p)).f = (r)
	(i), (r) = 1, (nil)
	(i)++
	((s)[(i)]) = <-(c)
	(c) <- (*(&(r)))
	r = (f)(((i)))
	r = ((p).m)()
	r = ((*pp__).m)((p))
	defer (p.fn)()
	go (f)(1)
	for (i) = range s {
	}
	for (i), (r) = range (s) {
	}
	switch y := (a).(type) {
	case (*int):
		r = (y)
	case (interface{ M() }):
	}
	switch (a).(type) {
	}
	select {
	case (r) = <-(c):
	case (s[0]) = <-c:
	case ((c)) <- (r):
	}
	if v, ok := (a).((*int)); (ok) && ((v) != (nil)) {
		return (v)
	}
	if ((r) == (nil)) || ((nil) != (r)) {
		return ((*int)(nil))
	}
	_ = (func() *int)(nil)
	_ = (chan int)(nil)
	_ = ([]int)(nil)
	_ = (*pp__)(nil).f
	return (r)
}
`},
	{Name: "odd_universe", Solo: true, Targets: []string{"odd:redeclared-universe"}, Src: `
type error interface{ Error() string }

type any = interface{}

type myString__ string

func len(s []int) *int { return nil }

func cap(s []int) int { return 0 }

func panic(v any) {}

func print(v ...any) *int { return nil }

func new(p *int) *int { return p }

func append(s []int, v ...int) []int { return s }

func copy(a, b []int) *int { return nil }

func min(a, b *int) *int { return a }

var true = 1 == 1

const iota = 7

// Univ__ calls package-level functions that shadow builtins.
func Univ__(s []int, e error, a any) (*int, error, any) {
	p := len(s)
	panic(cap(s))
	q := print(p, e, a)
	r := new(q)
	s = append(s, iota)
	if true {
		return copy(s, s), e, a
	}
	return min(p, r), nil, myString__("x")
}
`},
	{Name: "odd_types", Targets: []string{"odd:type-forms"}, Src: `
type (
	rec1__ struct{ next *rec2__ }
	rec2__ struct{ prev *rec1__ }
	fnrec__ func() fnrec__
	slrec__ []slrec__
	maprec__ map[string]maprec__
	chrec__ chan chrec__
	ifrec__ interface{ Next() ifrec__ }
	gself__[T interface{ Less(T) bool }] struct{ v T }
	emptyI__ interface{}
	unionI__ interface{ ~int | ~uint | string }
	methU__ interface {
		~int
		M()
	}
	arrOfArr__ [2][3][0]*int
	fnTup__ func(a, b int, _ string, rest ...interface{}) (x, y *int, _ error)
	anonEmb__ struct {
		st             struct{ inner *int }
		interfaceField interface{ M() *int }
	}
)

type aliasP__ = *rec1__
type aliasF__ = func(aliasP__) aliasP__
type galias2__[K comparable] = map[K]*rec1__

// Types__ uses recursive and anonymous types.
func Types__(a fnrec__, b slrec__, c maprec__, d chrec__, e ifrec__, f aliasF__, g galias2__[string], h anonEmb__, k arrOfArr__) (aliasP__, *int, fnTup__) {
	_ = a()()
	_ = b[0][0]
	_ = c["a"]["b"]
	_ = <-<-d
	_ = e.Next().Next()
	x := struct{ inner *int }{}
	h.st = x
	var t fnTup__
	if t != nil {
		p, q, _ := t(1, 2, "", nil, 3)
		_, _ = p, q
	}
	return f(g["k"]), k[1][2][0:0:0][0:][0], t
}
`},
	{Name: "odd_consts", Targets: []string{"odd:constants"}, Src: `
const (
	big__   = 1 << 100
	small__ = big__ >> 98
	fl__    = 1e400 / 1e399
	cplx__  = 2i * 2i
	str__   = "a" + "b"
	bl__    = str__ == "ab" && small__ == 4
	typed__ int8 = -128
	rn__    = 'x' + 1
)

// Consts__ uses constant expressions, constant conditions and zero-size operations.
func Consts__(p *int, s []int) (*int, [small__]int) {
	var arr [small__]int
	if bl__ {
		arr[small__-1] = int(fl__) + int(real(cplx__)) + len(str__) + int(typed__) + rn__
	}
	if false {
		return nil, arr
	}
	for false {
	}
	switch 1 {
	case 1:
	case 2:
	}
	switch "a" + "b" {
	case str__:
	}
	x := 0
	_ = s[x:x]
	_ = s[:0]
	_ = s[0:0:0]
	_ = p == p
	x = x
	_ = x &^ x
	_ = 1 << uint(x)
	_ = -(-x)
	_ = !(!bl__)
	var z [0]int
	for range z {
	}
	var e struct{}
	_ = e == struct{}{}
	return p, arr
}
`},
	{Name: "std_calls", Solo: true, Imports: []string{"bytes", "errors", "fmt", "os", "sort", "strconv", "strings", "sync", "time", "unicode/utf8"}, Targets: []string{"std:calls"}, Src: `
type mu__ struct {
	sync.Mutex
	once sync.Once
	wg   sync.WaitGroup
	m    map[string]*int
}

var errSentinel__ = errors.New("sentinel")

type myErr__ struct{ op string }

func (e *myErr__) Error() string { return e.op }

// Std__ calls standard library functions many checks have rules for.
func Std__(m *mu__, args []string, b []byte, t time.Time, d time.Duration) (res *int, err error) {
	m.Lock()
	defer m.Unlock()
	m.once.Do(func() { m.m = map[string]*int{} })
	m.wg.Add(1)
	go func() { defer m.wg.Done() }()
	m.wg.Wait()
	n, err := strconv.Atoi(strings.TrimSpace(args[0]))
	if err != nil {
		return nil, fmt.Errorf("parsing %q: %w", args[0], err)
	}
	u, _ := strconv.ParseUint("12", 10, 64)
	f, _ := strconv.ParseFloat("1.5", 64)
	s := fmt.Sprintf("%d %s %v %5.2f %x %T %p %%", n, args, b, f, u, m, res)
	fmt.Println(strings.Repeat("x", n), strings.Contains(s, "a"), strings.Index(s, "b") != -1, strings.ToLower(s) == strings.ToLower(args[0]))
	fmt.Fprintln(os.Stderr, bytes.Equal(b, []byte(s)), bytes.Compare(b, nil) == 0, string(b) == s, utf8.RuneCountInString(s))
	sort.Slice(args, func(i, j int) bool { return args[i] < args[j] })
	sort.Strings(args)
	if t.Sub(time.Now()) > d*time.Second || time.Since(t) < 5*time.Millisecond {
		time.Sleep(d)
	}
	var me *myErr__
	if errors.As(err, &me) || errors.Is(err, errSentinel__) || err == errSentinel__ {
		return m.m[me.op], me
	}
	var sb strings.Builder
	sb.WriteString(fmt.Sprint(n))
	var buf bytes.Buffer
	buf.Write([]byte(sb.String()))
	fmt.Fprintf(&buf, "%s", buf.String())
	if x, ok := m.m[s]; ok {
		return x, nil
	}
	if len(os.Args) > 1 && os.Getenv("X") != "" {
		os.Exit(1)
	}
	return &n, nil
}
`},
	{Name: "std_checked_calls", Solo: true, Imports: []string{"bytes", "context", "encoding/binary", "encoding/json", "errors", "net/url", "os", "os/signal", "regexp", "sort", "strconv", "strings", "sync/atomic", "time"},
		Targets: []string{"std:checked-calls-defer-go"}, Src: `
type key__ string

var cnt__ struct {
	a int32
	b int64
}

// Calls__ calls functions that have argument rules (valid and invalid arguments) as statements, deferred, as
// goroutines, through function values and with spread arguments.
func Calls__(xs []string, buf *bytes.Buffer, ctx context.Context, ch chan os.Signal, err error) {
	_ = strings.NewReplacer("a")
	defer strings.NewReplacer("a")
	go strings.NewReplacer("a", "b", "c")
	defer strings.NewReplacer(xs...)
	f := strings.NewReplacer
	f("x")
	_ = strings.NewReplacer(xs[:3]...)
	defer func() { _ = strings.NewReplacer("q") }()

	_ = regexp.MustCompile("(")
	defer regexp.MustCompile("[")
	go regexp.Compile("(a")
	_, _ = regexp.Compile("a(b")
	defer regexp.MatchString("a(", "x")

	_, _ = time.Parse("2006-13-45", "x")
	defer time.Parse("1-2-3", "x")
	go time.Parse("Foo", "x")

	_, _ = strconv.ParseInt("1", 99, 64)
	defer strconv.ParseInt("1", 10, 128)
	go strconv.FormatInt(1, 99)
	_, _ = strconv.ParseFloat("1", 16)
	defer strconv.ParseUint("1", 1, 7)

	_ = strings.Replace("a", "b", "c", 0)
	defer strings.Replace("a", "b", "c", 0)
	go strings.Trim("a", "aa")
	_ = strings.TrimLeft("a", "abca")
	defer bytes.Replace(nil, nil, nil, 0)

	sort.Slice([3]int{}, func(i, j int) bool { return false })
	defer sort.Slice([3]int{}, func(i, j int) bool { return false })
	go sort.SliceStable(1, func(i, j int) bool { return false })

	_ = context.WithValue(ctx, "k", 1)
	defer context.WithValue(ctx, "k", 1)
	go context.WithValue(ctx, key__("k"), 1)

	_ = errors.Is(os.ErrNotExist, err)
	defer errors.Is(os.ErrNotExist, err)
	go errors.Is(os.ErrNotExist, err)

	atomic.AddInt64(&cnt__.b, 1)
	defer atomic.AddInt64(&cnt__.b, 1)
	go atomic.LoadInt64(&cnt__.b)

	_ = binary.Write(buf, binary.LittleEndian, 1)
	defer binary.Write(buf, binary.LittleEndian, xs)
	go binary.Write(buf, binary.LittleEndian, struct{ a int }{})

	_, _ = url.Parse(":")
	defer url.Parse("%gh")
	go url.Parse("http://a b")

	signal.Notify(ch, os.Kill)
	defer signal.Notify(make(chan os.Signal), os.Interrupt)
	go signal.Ignore(os.Kill)

	var v struct{ X int }
	_ = json.Unmarshal(nil, v)
	defer json.Unmarshal(nil, v)
	go json.Unmarshal(nil, &v)
	_, _ = json.Marshal(make(chan int))
	defer json.Marshal(func() {})

	t := time.NewTimer(time.Second)
	defer t.Reset(time.Second)
	go t.Stop()
	defer buf.WriteString("x")
	defer time.Sleep(1)
	go time.Sleep(time.Duration(len(xs)))
}
`},
	{Name: "odd_directives", Solo: true, Targets: []string{"odd:degenerate-lint-directives"}, Src: degenerateDirectives},
}

// directed programs for the comparison-operator switches of nilness: one per operator, the right operand being the
// zero value of a type parameter with a mixed type set (an *ir.Const whose Value is nil)
func cmpSnippets() []snippet {
	ops := []struct{ tok, op string }{{"LSS", "<"}, {"LEQ", "<="}, {"GTR", ">"}, {"GEQ", ">="}, {"EQL", "=="}, {"NEQ", "!="}}
	var out []snippet
	for _, o := range ops {
		out = append(out, snippet{Name: "cmp_zero_" + o.tok, Targets: []string{"token:" + o.tok}, Src: `
// Cmp__ compares with the zero value of a type parameter that has no constant representation.
func Cmp__[T ~int | ~string](x T, p *int) *int {
	var z T
	if x ` + o.op + ` z {
		return nil
	}
	if z ` + o.op + ` x {
		return p
	}
	return p
}
`})
	}
	return out
}

// Comments that look like linter directives but are degenerate. Only forms that the linter accepts silently are
// listed (a malformed //lint:ignore legitimately yields a "malformed linter directive" problem, which is the user's
// error and not part of this corpus). lint.ParseDirectives sees every one of them: in the directives analyzer and in
// the runner itself, outside any analyzer.
var degenerateDirectives = "\n" +
	"//lint:\nvar v0__ = 0\n\n" +
	"//lint: \nvar v1__ = 1\n\n" +
	"//lint:\t\nvar v2__ = 2\n\n" +
	"//lint:  \t \nvar v3__ = 3\n\n" +
	"//lint:unknown x y\nvar v4__ = 4\n\n" +
	"//lint:ignore  SA1000  two  spaces\nvar v5__ = 5\n\n" +
	"// lint:ignore\nvar v6__ = 6\n\n" +
	"/*lint:ignore SA1000 x*/\nvar v7__ = 7\n\n" +
	"//lint:x\nvar v8__ = 8\n\n" +
	"//lint:ignore\tSA1000\treason\nvar v9__ = 9\n\n" +
	"// Dirs__ has directive-like comments in a body.\nfunc Dirs__(p *int) *int {\n\t//lint:\n\tif p == nil { //lint: \n\t\treturn nil\n\t}\n\t/*lint:*/ _ = v0__ + v1__ + v2__ + v3__ + v4__ + v5__ + v6__ + v7__ + v8__ + v9__\n\treturn p //lint:\t\n}\n\n//lint:\n"
