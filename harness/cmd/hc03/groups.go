package main

import (
	"fmt"
	"strings"

	"verifharness/hx"
)

// Multi-package programs: a group is a small import DAG written below <module>/<group>/<pkg>. The in-process driver
// type-checks the packages in order with a sibling importer and lets facts flow from a package to its importers, as
// the real runner does; groups that import the standard library are analysed by the real binary only.
// In sources, `@` stands for the import path prefix of the group ("example.com/c03gen/<group>").

type gpkg struct {
	Name string // directory and package name
	Src  string // whole file, without the package clause
}

type group struct {
	Name    string
	Targets []string
	Pkgs    []gpkg // in dependency order (imported packages first)
}

const leafNilness = `
// E is an error.
type E struct{}

func (*E) Error() string { return "" }

// T has methods with every kind of nilness.
type T struct{ N int }

// Err never returns nil.
func (t T) Err() error {
	if t.N > 1 {
		println(t.N)
	}
	return &E{}
}

// PErr never returns nil.
func (t *T) PErr() error {
	if t.N > 1 {
		println(t.N)
	}
	return &E{}
}

// Nil always returns nil.
func (t T) Nil() error {
	if t.N > 1 {
		println(t.N)
	}
	return nil
}

// Ptr never returns nil.
func (t T) Ptr() *int {
	if t.N > 1 {
		println(t.N)
	}
	return new(int)
}

// Maybe may return nil.
func (t T) Maybe(p *int) *int {
	if t.N > 1 {
		return nil
	}
	return p
}

// Any wraps a pointer.
func (t *T) Any() any {
	if t.N > 1 {
		println(t.N)
	}
	return &t.N
}

// I is implemented by T.
type I interface{ Err() error }

// G is generic.
type G[X any] struct{ V X }

// Err never returns nil.
func (g G[X]) Err() error {
	if any(g.V) == nil {
		println("nil")
	}
	return &E{}
}

// Ptr never returns nil.
func (g *G[X]) Ptr() *X {
	if any(g.V) == nil {
		println("nil")
	}
	return &g.V
}

// Free never returns nil.
func Free() error {
	if len(Names) > 1 {
		println("x")
	}
	return &E{}
}

// Names is a variable.
var Names []string
`

const midNilness = `
import "@/c"

// Get returns a value.
func Get() c.T { return c.T{} }

// GetP returns a pointer.
func GetP() *c.T { return &c.T{} }

// GetI returns an interface.
func GetI() c.I { return c.T{} }

// GetG returns an instantiated generic value.
func GetG() c.G[int] { return c.G[int]{} }

// GetGP returns a pointer to an instantiated generic value.
func GetGP() *c.G[string] { return &c.G[string]{} }

// Emb embeds a type of c.
type Emb struct{ c.T }

// EmbP embeds a pointer to a type of c.
type EmbP struct{ *c.T }

// GetE returns a struct embedding c.T.
func GetE() Emb { return Emb{} }

// GetEP returns a struct embedding *c.T.
func GetEP() EmbP { return EmbP{&c.T{}} }

// GetF returns a function of c.
func GetF() func() error { return c.Free }

// Alias is an alias of a type of c.
type Alias = c.T

// GetA returns an alias-typed value.
func GetA() Alias { return Alias{} }
`

// accessor expression of package b -> the methods (name, result kind, needs an addressable receiver) callable on it
type nmeth struct {
	call string // method call text after the receiver
	addr bool   // pointer receiver: the operand must be addressable or a pointer
}

var nilnessAccessors = []struct {
	expr    string
	ptr     bool // the accessor yields a pointer (pointer-receiver methods callable directly)
	methods []nmeth
}{
	{"b.Get()", false, []nmeth{{"Err()", false}, {"PErr()", true}, {"Nil()", false}, {"Ptr()", false}, {"Maybe(nil)", false}, {"Any()", true}}},
	{"b.GetP()", true, []nmeth{{"Err()", false}, {"PErr()", true}, {"Nil()", false}, {"Ptr()", false}, {"Any()", true}}},
	{"b.GetI()", true, []nmeth{{"Err()", false}}},
	{"b.GetG()", false, []nmeth{{"Err()", false}, {"Ptr()", true}}},
	{"b.GetGP()", true, []nmeth{{"Err()", false}, {"Ptr()", true}}},
	{"b.GetE()", false, []nmeth{{"Err()", false}, {"PErr()", true}, {"Nil()", false}, {"Ptr()", false}}},
	{"b.GetEP()", true, []nmeth{{"Err()", false}, {"PErr()", true}, {"Any()", true}}},
	{"b.GetA()", false, []nmeth{{"Err()", false}, {"Nil()", false}, {"Maybe(nil)", false}}},
}

// topNilness writes package a: n functions, each comparing with nil the result of a method of a type that a only
// knows through b (c is an INDIRECT import of a).
func topNilness(r *hx.Rand, n int) string {
	var b strings.Builder
	b.WriteString("\nimport \"@/b\"\n")
	// the fixed shape of the original report first
	b.WriteString("\n// F0 is the reported shape.\nfunc F0() bool {\n\treturn b.Get().Err() == nil\n}\n")
	for i := 1; i <= n; i++ {
		acc := nilnessAccessors[r.Intn(len(nilnessAccessors))]
		m := acc.methods[r.Intn(len(acc.methods))]
		op := []string{"==", "!="}[r.Intn(2)]
		viaVar := m.addr && !acc.ptr || r.Chance(40)
		fmt.Fprintf(&b, "\n// F%d is generated.\nfunc F%d() (bool, *int) {\n", i, i)
		recv := acc.expr
		if viaVar {
			fmt.Fprintf(&b, "\tv := %s\n", acc.expr)
			recv = "v"
		}
		call := recv + "." + m.call
		switch r.Intn(4) {
		case 0:
			fmt.Fprintf(&b, "\treturn %s %s nil, nil\n", call, op)
		case 1:
			fmt.Fprintf(&b, "\treturn nil %s %s, nil\n", op, call)
		case 2:
			fmt.Fprintf(&b, "\tif x := %s; x %s nil {\n\t\treturn true, nil\n\t}\n\treturn false, new(int)\n", call, op)
		default:
			i := strings.Index(m.call, "(")
			fmt.Fprintf(&b, "\tf := %s.%s\n\treturn f%s %s nil, nil\n", recv, m.call[:i], m.call[i:], op)
		}
		b.WriteString("}\n")
	}
	b.WriteString("\n// FF calls a function value obtained through b.\nfunc FF() bool { return b.GetF()() == nil }\n")
	return b.String()
}

const depLeaf = `
// G is generic and has a deprecated field whose type does not depend on the type parameter.
type G[T any] struct {
	// Deprecated: don't use.
	Old int
	V   T
}

// OldM is a method.
//
// Deprecated: don't use.
func (G[T]) OldM() {}

// P has two type parameters.
type P[K comparable, V any] struct {
	// Deprecated: don't use.
	Old K
	// Deprecated: don't use either.
	Older int
	Val   V
}

// OldF is a generic function.
//
// Deprecated: gone.
func OldF[T any]() T { var z T; return z }

// OldT is a generic type.
//
// Deprecated: gone.
type OldT[T any] struct{ X T }

// OldV is a variable.
//
// Deprecated: gone.
var OldV = 1

// N is not generic.
type N struct {
	// Deprecated: don't use.
	Old int
	In  struct {
		// Deprecated: don't use.
		Old int
	}
}

// S is an alias of an anonymous struct.
type S = struct {
	// Deprecated: don't use.
	Old int
}

// Y uses the fields inside the declaring package.
var Y = G[int]{Old: 1}

// Z uses the fields inside the declaring package.
var Z = []P[int, string]{{Old: 1, Older: 2}}
`

const depTop = `
import "@/b"

// X1 is the reported shape.
var X1 = b.G[int]{Old: 1}

// X2 takes the address.
var X2 = &b.G[string]{Old: 1, V: "s"}

// X3 instantiates with two arguments.
var X3 = b.P[int, string]{Old: 1, Older: 2}

// X4 elides the element type.
var X4 = []b.G[int]{{Old: 1}, {V: 2}}

// X5 elides the value type.
var X5 = map[string]b.P[int, int]{"k": {Old: 2}}

// X6 elides a pointer element type.
var X6 = []*b.N{{Old: 1}}

// A is an alias of an instantiated type.
type A = b.G[int]

// X7 uses the alias.
var X7 = A{Old: 1}

// X8 is not generic.
var X8 = b.N{Old: 1, In: struct{ Old int }{Old: 2}}

// X9 uses an alias of an anonymous struct.
var X9 = b.S{Old: 1}

// L is a local generic type with a deprecated field.
type L[T any] struct {
	// Deprecated: don't use.
	Old T
}

// X10 is local.
var X10 = L[int]{Old: 1}

// X11 is an array of arrays.
var X11 = [...][1]b.G[int]{{{Old: 1}}}

// Use uses deprecated objects of generic types.
func Use() (int, *b.OldT[int]) {
	b.G[int]{}.OldM()
	g := b.G[int]{}
	g.Old = 2
	g.OldM()
	f := b.G[string].OldM
	f(b.G[string]{})
	var t b.OldT[int]
	u := b.OldT[string]{X: "x"}
	_ = u
	return b.OldF[int]() + b.OldV + X1.Old + X3.Old + X3.Older + X4[0].Old + X8.In.Old + X9.Old + g.Old, &t
}

// Gen is generic itself.
func Gen[T any](v T) b.G[T] {
	return b.G[T]{Old: 1, V: v}
}

// Gen2 instantiates with its own parameters.
func Gen2[K comparable, V any](k K) *b.P[K, V] {
	return &b.P[K, V]{Old: k}
}
`

func groups(r *hx.Rand, nNil int) []group {
	return []group{
		{Name: "indirect_nilness", Targets: []string{"group:indirect-import-nilness"}, Pkgs: []gpkg{
			{"c", leafNilness}, {"b", midNilness}, {"a", topNilness(r, nNil)}}},
		{Name: "generic_complit", Targets: []string{"group:instantiated-generic-literal"}, Pkgs: []gpkg{
			{"b", depLeaf}, {"a", depTop}}},
	}
}
