package main

import (
	"fmt"
	"strings"

	"verifharness/hx"
)

// Seeded generator of well-typed, import-free functions. Every function has pointer-like results (so the nilness
// analysis runs over it) and is assembled from typed statement templates over a fixed variable environment:
//   n, k int; p, q *int; s []int; m map[string]*int; c chan *int; a any; e error; st *rec; str string; f func() *int
// Expressions and conditions are drawn recursively; all templates are valid for any choice.

type rgen struct {
	r     *hx.Rand
	depth int
	lbl   int
	b     strings.Builder
	ind   string
}

func (g *rgen) pick(xs ...string) string { return xs[g.r.Intn(len(xs))] }

func (g *rgen) intExpr(d int) string {
	if d <= 0 || g.r.Chance(35) {
		return g.pick("n", "k", "1", "0", "len(s)", "cap(s)", "len(m)", "len(str)", "*p", "st.val", "s[0]", "int(str[0])", "st.arr[1]", "min(n, k)", "max(k, 3)")
	}
	op := g.pick("+", "-", "*", "/", "%", "&", "|", "^", "<<", ">>", "&^")
	if op == "/" || op == "%" {
		return fmt.Sprintf("(%s %s (1 + %s&7))", g.intExpr(d-1), op, g.intExpr(d-1))
	}
	if op == "<<" || op == ">>" {
		return fmt.Sprintf("(%s %s uint(%s&3))", g.intExpr(d-1), op, g.intExpr(d-1))
	}
	return fmt.Sprintf("(%s %s %s)", g.intExpr(d-1), op, g.intExpr(d-1))
}

func (g *rgen) ptrExpr(d int) string {
	if d <= 0 || g.r.Chance(40) {
		return g.pick("p", "q", "nil", "&n", "&k", "m[str]", "st.ptr", "&st.val", "&s[0]", "f()", "new(int)", "&st.arr[0]", "st.next.ptr", "(*int)(nil)")
	}
	switch g.r.Intn(4) {
	case 0:
		return fmt.Sprintf("pick__(%s, %s, %s)", g.cond(d-1), g.ptrExpr(d-1), g.ptrExpr(d-1))
	case 1:
		return fmt.Sprintf("func() *int { return %s }()", g.ptrExpr(d-1))
	case 2:
		return "<-c"
	default:
		return fmt.Sprintf("m[%s]", g.strExpr())
	}
}

func (g *rgen) strExpr() string {
	return g.pick("str", `"a"`, `str + "b"`, "str[1:]", "string(rune(n))", `e.Error()`)
}

func (g *rgen) anyExpr(d int) string {
	return g.pick("a", "e", "any(p)", "any(nil)", "any(n)", "any(st)", "error(nil)", "any(s)", "recover()", "any(f)", "any(&k)")
}

func (g *rgen) cond(d int) string {
	if d <= 0 || g.r.Chance(45) {
		switch g.r.Intn(9) {
		case 0:
			return fmt.Sprintf("%s %s nil", g.pick("p", "q", "m[str]", "st.ptr", "f()", "st.next.ptr", "<-c"), g.pick("==", "!="))
		case 1:
			return fmt.Sprintf("nil %s %s", g.pick("==", "!="), g.pick("p", "q", "s", "m", "c", "a", "e", "f", "st"))
		case 2:
			return fmt.Sprintf("%s %s %s", g.intExpr(1), g.pick("==", "!=", "<", "<=", ">", ">="), g.intExpr(1))
		case 3:
			return fmt.Sprintf("%s %s nil", g.pick("s", "m", "c", "a", "e", "f", "st", "st.next"), g.pick("==", "!="))
		case 4:
			return fmt.Sprintf("%s %s %s", g.pick("p", "q"), g.pick("==", "!="), g.pick("p", "q", "&n"))
		case 5:
			return fmt.Sprintf("%s %s %s", g.strExpr(), g.pick("==", "!=", "<", ">="), g.strExpr())
		case 6:
			return fmt.Sprintf("%s %s %s", g.anyExpr(0), g.pick("==", "!="), g.anyExpr(0))
		case 7:
			return "*st == (rec__{})"
		default:
			return g.pick("true", "false", "len(s) > 0", "st != nil && st.ptr != nil")
		}
	}
	switch g.r.Intn(3) {
	case 0:
		return fmt.Sprintf("(%s && %s)", g.cond(d-1), g.cond(d-1))
	case 1:
		return fmt.Sprintf("(%s || %s)", g.cond(d-1), g.cond(d-1))
	default:
		return fmt.Sprintf("!(%s)", g.cond(d-1))
	}
}

func (g *rgen) line(format string, args ...any) {
	g.b.WriteString(g.ind)
	fmt.Fprintf(&g.b, format, args...)
	g.b.WriteString("\n")
}

func (g *rgen) block(d int, inLoop bool) {
	old := g.ind
	g.ind += "\t"
	n := 1 + g.r.Intn(4)
	for i := 0; i < n; i++ {
		g.stmt(d, inLoop)
	}
	g.ind = old
}

func (g *rgen) stmt(d int, inLoop bool) {
	k := g.r.Intn(26)
	if d <= 0 && k >= 12 {
		k = g.r.Intn(12)
	}
	switch k {
	case 0:
		g.line("%s = %s", g.pick("p", "q", "st.ptr", "m[str]"), g.ptrExpr(2))
	case 1:
		g.line("%s = %s", g.pick("n", "k", "st.val", "s[0]", "st.arr[2]"), g.intExpr(2))
	case 2:
		g.line("%s %s %s", g.pick("n", "k"), g.pick("+=", "-=", "*=", "|=", "&^="), g.intExpr(1))
	case 3:
		g.line("a = %s", g.anyExpr(1))
	case 4:
		g.line("s = %s", g.pick("append(s, n)", "s[1:]", "s[:k]", "s[n:k:len(s)]", "make([]int, n)", "nil", "st.arr[:]", "append([]int(nil), s...)", "[]int{1, n}"))
	case 5:
		g.line("%s", g.pick("n++", "k--", "st.val++", "(*p)++", "clear(m)", "delete(m, str)", "_ = copy(s, s)", "c <- p", "_ = <-c", "st = st.next", "st = &rec__{ptr: p}", "*st = rec__{}", "f = func() *int { return q }"))
	case 6:
		g.line("if %s {", g.cond(1))
		g.line("\treturn %s, %s", g.ptrExpr(1), g.anyExpr(0))
		g.line("}")
	case 7:
		g.line("if v, ok := a.(*int); ok && v != nil {")
		g.line("\tp = v")
		g.line("}")
	case 8:
		g.line("if v, ok := m[%s]; ok {", g.strExpr())
		g.line("\tq = v")
		g.line("}")
	case 9:
		g.line("_ = *%s", g.pick("p", "q", "st.ptr"))
	case 10:
		g.line("defer func() { _ = recover(); p = %s }()", g.ptrExpr(0))
	case 11:
		g.line("go func(x *int) { c <- x }(%s)", g.ptrExpr(1))
	case 12:
		g.line("if %s {", g.cond(2))
		g.block(d-1, inLoop)
		if g.r.Chance(50) {
			g.line("} else if %s {", g.cond(1))
			g.block(d-1, inLoop)
		}
		if g.r.Chance(50) {
			g.line("} else {")
			g.block(d-1, inLoop)
		}
		g.line("}")
	case 13:
		g.line("for i := 0; i < %s; i++ {", g.intExpr(1))
		g.block(d-1, true)
		g.line("}")
	case 14:
		iv := g.pick("_", "i")
		g.line("for %s, v := range %s {", iv, g.pick("s", "st.arr", "&st.arr"))
		g.line("\t_ = v")
		if iv == "i" {
			g.line("\tn += i")
		}
		g.block(d-1, true)
		g.line("}")
	case 15:
		g.line("for key, v := range m {")
		g.line("\t_, q = key, v")
		g.block(d-1, true)
		g.line("}")
	case 16:
		g.line("switch %s {", g.pick("n", "k % 3", "len(s)"))
		g.line("case 0, 1:")
		g.block(d-1, inLoop)
		g.line("case 2:")
		g.block(d-1, inLoop)
		if g.r.Chance(50) {
			g.line("\tfallthrough")
			g.line("case 3:")
			g.block(d-1, inLoop)
		}
		if g.r.Chance(60) {
			g.line("default:")
			g.block(d-1, inLoop)
		}
		g.line("}")
	case 17:
		g.line("switch v := %s.(type) {", g.pick("a", "any(e)"))
		g.line("case nil:")
		g.block(d-1, inLoop)
		g.line("case *int:")
		g.line("\tp = v")
		g.line("case error, fmtS__:")
		g.line("\ta = v")
		if g.r.Chance(60) {
			g.line("default:")
			g.line("\t_ = v")
			g.block(d-1, inLoop)
		}
		g.line("}")
	case 18:
		g.line("select {")
		g.line("case v := <-c:")
		g.line("\tq = v")
		g.line("case c <- %s:", g.ptrExpr(1))
		g.block(d-1, inLoop)
		if g.r.Chance(50) {
			g.line("default:")
			g.block(d-1, inLoop)
		}
		g.line("}")
	case 19:
		g.line("switch {")
		g.line("case %s:", g.cond(1))
		g.block(d-1, inLoop)
		g.line("case %s:", g.cond(1))
		g.block(d-1, inLoop)
		g.line("}")
	case 20:
		if inLoop {
			g.line("if %s {", g.cond(1))
			g.line("\t%s", g.pick("break", "continue"))
			g.line("}")
		} else {
			g.line("{")
			g.block(d-1, inLoop)
			g.line("}")
		}
	case 21:
		g.line("for v := range c {")
		g.line("\tif v == nil {")
		g.line("\t\tbreak")
		g.line("\t}")
		g.block(d-1, true)
		g.line("}")
	case 22:
		g.line("for range %s {", g.pick("n", "3", "str"))
		g.block(d-1, true)
		g.line("}")
	case 23:
		g.lbl++
		g.line("lbl%d:", g.lbl)
		g.line("for %s {", g.cond(1))
		g.line("\tfor {")
		g.line("\t\tif %s {", g.cond(1))
		g.line("\t\t\tbreak lbl%d", g.lbl)
		g.line("\t\t}")
		g.line("\t\tcontinue lbl%d", g.lbl)
		g.line("\t}")
		g.line("}")
	case 24:
		g.line("p, a = two__(%s)", g.ptrExpr(1))
	default:
		g.line("if %s {", g.cond(1))
		g.line("\tpanic(%s)", g.pick(`"x"`, "e", "a", "n"))
		g.line("}")
	}
}

const randPrelude = `
type rec__ struct {
	val  int
	ptr  *int
	next *rec__
	arr  [4]int
}

type fmtS__ interface{ String() string }

func pick__(c bool, a, b *int) *int {
	if c {
		return a
	}
	return b
}

func two__(p *int) (*int, any) { return p, p }
`

// randSnippet returns a package-level chunk with nfuncs random functions.
func randSnippet(r *hx.Rand, idx, nfuncs int) snippet {
	var b strings.Builder
	b.WriteString(randPrelude)
	for i := 0; i < nfuncs; i++ {
		g := &rgen{r: r.Fork()}
		fmt.Fprintf(&b, "\n// R%d__ is generated.\nfunc R%d__(n, k int, p, q *int, s []int, m map[string]*int, c chan *int, a any, e error, st *rec__, str string, f func() *int) (*int, any) {\n", i, i)
		g.ind = ""
		g.block(3, false)
		b.WriteString(g.b.String())
		fmt.Fprintf(&b, "\treturn %s, %s\n}\n", g.ptrExpr(2), g.anyExpr(1))
	}
	return snippet{Name: fmt.Sprintf("rand_%d", idx), Targets: []string{"random"}, Src: b.String()}
}
