// hc03: harness of property C03 (analysis is total).
//
//	-mode universes : the universes of the registered switches obtained from the COMPILED packages (go/types
//	                  export data: types.Implements, the Universe/Unsafe scopes), to be compared with genmodel's tables
//	-mode direct    : feeds one instance of every ast.Expr implementor through the real astutil.Equal,
//	                  astutil.CopyExpr and code.MayHaveSideEffects under recover (observed dispatch table)
//	-mode gen       : writes the generated corpus (fixed snippets + seeded random programs, alone and mixed) as a
//	                  module, and runs every registered analyzer over every package in process, each under recover;
//	                  measures IR instruction-kind / AST-kind / builtin coverage from the built IR
package main

import (
	"flag"
	"fmt"
	"go/ast"
	"go/parser"
	"go/token"
	"go/types"
	"os"
	"path/filepath"
	"reflect"
	"sort"
	"strings"

	"golang.org/x/tools/go/analysis"
	"golang.org/x/tools/go/packages"
	"honnef.co/go/tools/analysis/code"
	"honnef.co/go/tools/analysis/facts/nilness"
	"honnef.co/go/tools/analysis/lint"
	"honnef.co/go/tools/go/ast/astutil"
	"honnef.co/go/tools/go/ir"
	"honnef.co/go/tools/go/loader"
	"honnef.co/go/tools/go/types/typeutil"
	"honnef.co/go/tools/quickfix"
	"honnef.co/go/tools/simple"
	"honnef.co/go/tools/staticcheck"
	"honnef.co/go/tools/stylecheck"
	"honnef.co/go/tools/unused"
	"honnef.co/go/tools/verifhooks"
	"verifharness/hx"
)

func main() {
	mode := flag.String("mode", "gen", "universes | direct | gen")
	work := flag.String("work", "", "scratch directory (outside /repo and /verif)")
	out := flag.String("out", "", "output JSON")
	seed := flag.Uint64("seed", 1, "seed")
	nrand := flag.Int("rand", 12, "number of random packages")
	nmixed := flag.Int("mixed", 6, "number of packages mixing several snippets")
	repo := flag.String("repo", "/repo", "repository root (for -mode universes)")
	flag.Parse()
	switch *mode {
	case "universes":
		hx.EmitJSON(*out, universes(*repo))
	case "direct":
		hx.EmitJSON(*out, direct())
	case "gen":
		hx.EmitJSON(*out, gen(*work, *seed, *nrand, *nmixed))
	default:
		fmt.Fprintln(os.Stderr, "unknown mode")
		os.Exit(2)
	}
}

// ---------------------------------------------------------------------------------------------- universes

type universesOut struct {
	Universes map[string][]string // interface -> implementors ("*pkg.T"), from the type checker
	Builtins  []string            // names go/ir gives to builtins: Universe scope + "Unsafe"+name for package unsafe
}

func universes(repo string) universesOut {
	cfg := &packages.Config{Mode: packages.NeedTypes | packages.NeedName, Dir: repo, Env: hx.GoEnv()}
	pkgs, err := packages.Load(cfg, "honnef.co/go/tools/go/ir", "go/ast", "go/types", "honnef.co/go/tools/go/types/typeutil")
	if err != nil {
		fmt.Fprintln(os.Stderr, "load:", err)
		os.Exit(2)
	}
	byName := map[string]*types.Package{}
	for _, p := range pkgs {
		if len(p.Errors) > 0 || p.Types == nil {
			fmt.Fprintln(os.Stderr, "load:", p.PkgPath, p.Errors)
			os.Exit(2)
		}
		byName[p.Types.Name()] = p.Types
	}
	res := universesOut{Universes: map[string][]string{}}
	impl := func(ifacePkg, iface string, from ...string) {
		obj := byName[ifacePkg].Scope().Lookup(iface)
		it := obj.Type().Underlying().(*types.Interface)
		var ms []string
		for _, pn := range from {
			sc := byName[pn].Scope()
			for _, n := range sc.Names() {
				tn, ok := sc.Lookup(n).(*types.TypeName)
				if !ok || tn.IsAlias() || types.IsInterface(tn.Type()) {
					continue
				}
				if strings.HasPrefix(n, "Verif") || strings.HasPrefix(n, "verif") {
					continue // types of `//go:build verif` hook files
				}
				if pn == "types" && !tn.Exported() {
					continue
				}
				if types.Implements(tn.Type(), it) {
					ms = append(ms, pn+"."+n) // value type implements: would be a second dynamic type
				}
				if types.Implements(types.NewPointer(tn.Type()), it) {
					ms = append(ms, "*"+pn+"."+n)
				}
			}
		}
		sort.Strings(ms)
		res.Universes[ifacePkg+"."+iface] = ms
	}
	for _, i := range []string{"Instruction", "Value", "CallInstruction", "Node", "Member", "Constant"} {
		impl("ir", i, "ir")
	}
	for _, i := range []string{"Expr", "Stmt", "Decl", "Spec", "Node"} {
		impl("ast", i, "ast")
	}
	impl("types", "Type", "types", "typeutil")
	impl("types", "Object", "types")
	for _, n := range types.Universe.Names() {
		if _, ok := types.Universe.Lookup(n).(*types.Builtin); ok {
			res.Builtins = append(res.Builtins, n)
		}
	}
	for _, n := range types.Unsafe.Scope().Names() {
		if _, ok := types.Unsafe.Scope().Lookup(n).(*types.Builtin); ok {
			res.Builtins = append(res.Builtins, "Unsafe"+n)
		}
	}
	sort.Strings(res.Builtins)
	return res
}

// ---------------------------------------------------------------------------------------------- direct

// one source expression per ast.Expr implementor; the instance is found by walking the parsed expression
var exprSamples = map[string]string{
	"*ast.ArrayType":      "[]int{}",
	"*ast.BasicLit":       "1",
	"*ast.BinaryExpr":     "a + b",
	"*ast.CallExpr":       "f(a)",
	"*ast.ChanType":       "make(chan int)",
	"*ast.CompositeLit":   "T{1}",
	"*ast.Ellipsis":       "func(a ...int) {}",
	"*ast.FuncLit":        "func() {}",
	"*ast.FuncType":       "x.(func(int) string)",
	"*ast.Ident":          "a",
	"*ast.IndexExpr":      "a[1]",
	"*ast.IndexListExpr":  "f[int, string]",
	"*ast.InterfaceType":  "x.(interface{ M() })",
	"*ast.KeyValueExpr":   "T{a: 1}",
	"*ast.MapType":        "map[int]string{}",
	"*ast.ParenExpr":      "(a)",
	"*ast.SelectorExpr":   "a.b",
	"*ast.SliceExpr":      "a[1:2]",
	"*ast.StarExpr":       "*a",
	"*ast.StructType":     "struct{ a int }{}",
	"*ast.TypeAssertExpr": "a.(T)",
	"*ast.UnaryExpr":      "-a",
}

type directObs struct {
	Func    string // "astutil.Equal" ...
	Member  string
	Sample  string
	Handled bool
	Panic   string
}

func findInstance(src, member string) ast.Node {
	e, err := parser.ParseExpr(src)
	if err != nil {
		return nil
	}
	var found ast.Node
	ast.Inspect(e, func(n ast.Node) bool {
		if n != nil && found == nil && fmt.Sprintf("%T", n) == member {
			found = n
		}
		return found == nil
	})
	return found
}

func direct() []directObs {
	var res []directObs
	var members []string
	for m := range exprSamples {
		members = append(members, m)
	}
	members = append(members, "*ast.BadExpr")
	sort.Strings(members)
	call := func(fn, member, sample string, f func()) {
		o := directObs{Func: fn, Member: member, Sample: sample, Handled: true}
		func() {
			defer func() {
				if x := recover(); x != nil {
					o.Handled = false
					o.Panic = fmt.Sprint(x)
				}
			}()
			f()
		}()
		res = append(res, o)
	}
	for _, m := range members {
		var a, b ast.Node
		sample := exprSamples[m]
		if m == "*ast.BadExpr" {
			a, b = &ast.BadExpr{}, &ast.BadExpr{}
			sample = "(constructed)"
		} else {
			a, b = findInstance(sample, m), findInstance(sample, m) // two distinct but equal trees
		}
		if a == nil {
			res = append(res, directObs{Func: "sample", Member: m, Sample: sample, Handled: false, Panic: "no instance found in sample"})
			continue
		}
		call("go/ast/astutil/util.go:Equal:a.(type)", m, sample, func() { astutil.Equal(a, b) })
		call("go/ast/astutil/util.go:CopyExpr:node.(type)", m, sample, func() { astutil.CopyExpr(a.(ast.Expr)) })
		call("analysis/code/code.go:MayHaveSideEffects:expr.(type)", m, sample, func() { code.MayHaveSideEffects(nil, a.(ast.Expr), nil) })
	}
	return res
}

// ---------------------------------------------------------------------------------------------- gen

type panicRec struct {
	Analyzer string
	Value    string
	Stack    string
}

type pkgRec struct {
	Name        string
	Dir         string
	Snippets    []string
	Targets     []string
	BuildErr    string
	BinaryOnly  bool // imports the standard library: written for the real binary only
	Panics      []panicRec
	Errors      []string        // analyzers that returned a non-panic error
	Analyzers   int             // root analyzers run
	Diagnostics int             // diagnostics reported (not part of the oracle)
	Instr       map[string]int  // instruction kind -> count, all source functions
	InstrNil    map[string]int  // ... restricted to functions the nilness analysis runs its transfer function on
	Builtins    map[string]bool // name of *ir.Builtin callee of an *ir.Call -> result can be pointer-like
	CmpZero     map[string]int  // comparison token -> count of If conditions comparing against a Value==nil constant (in InstrNil functions)
	Ast         map[string]int  // ast node kind -> count
}

type genOut struct {
	Seed      uint64
	Module    string
	Packages  []pkgRec
	Analyzers []string
}

func allAnalyzers() []*analysis.Analyzer {
	var as []*analysis.Analyzer
	as = append(as, verifhooks.BuildIR, nilness.Analysis)
	add := func(l []*lint.Analyzer) {
		for _, a := range l {
			as = append(as, a.Analyzer)
		}
	}
	add(staticcheck.Analyzers)
	add(simple.Analyzers)
	add(stylecheck.Analyzers)
	add(quickfix.Analyzers)
	as = append(as, unused.Analyzer.Analyzer)
	return as
}

func render(s snippet, suffix string) string {
	return strings.ReplaceAll(s.Src, "__", "_"+suffix)
}

func writePkg(dir, name string, ss []snippet) []string {
	imports := map[string]bool{}
	for _, s := range ss {
		for _, i := range s.Imports {
			imports[i] = true
		}
	}
	var b strings.Builder
	fmt.Fprintf(&b, "// Package %s is generated by the C03 harness.\npackage %s\n\n", name, name)
	var il []string
	for i := range imports {
		il = append(il, i)
	}
	sort.Strings(il)
	for _, i := range il {
		fmt.Fprintf(&b, "import %q\n", i)
	}
	for k, s := range ss {
		suffix := fmt.Sprintf("s%d", k)
		b.WriteString(render(s, suffix))
	}
	fn := filepath.Join(dir, name+".go")
	hx.WriteFile(fn, b.String())
	return []string{fn}
}

func pointerLikeResult(fn *ir.Function) bool {
	for v := range fn.Signature.Results().Variables() {
		if typeutil.IsPointerLike(v.Type()) {
			return true
		}
	}
	return false
}

func measure(rec *pkgRec, u *pkgUnit, irres *verifhooks.IR) {
	for _, f := range u.files {
		ast.Inspect(f, func(n ast.Node) bool {
			if n != nil {
				rec.Ast[fmt.Sprintf("%T", n)]++
			}
			return true
		})
	}
	if irres == nil {
		return
	}
	for _, fn := range irres.SrcFuncs {
		// nilness.impl runs its transfer function on functions with an object, a body and a pointer-like result
		analysed := fn.Object() != nil && fn.Blocks != nil && pointerLikeResult(fn)
		for _, b := range fn.Blocks {
			for _, ins := range b.Instrs {
				k := reflect.TypeOf(ins).String()
				rec.Instr[k]++
				if analysed {
					rec.InstrNil[k]++
				}
				if call, ok := ins.(*ir.Call); ok {
					if bi, ok := call.Call.Value.(*ir.Builtin); ok {
						pl := false
						res := call.Common().Signature().Results()
						for v := range res.Variables() {
							if typeutil.IsPointerLike(v.Type()) {
								pl = true
							}
						}
						rec.Builtins[bi.Name()] = rec.Builtins[bi.Name()] || pl
					}
				}
				if iff, ok := ins.(*ir.If); ok && analysed {
					if bo, ok := iff.Cond.(*ir.BinOp); ok {
						isNil := func(v ir.Value) bool { k, ok := v.(*ir.Const); return ok && k.Value == nil }
						if isNil(bo.X) || isNil(bo.Y) {
							rec.CmpZero["token."+tokName(bo.Op)]++
						}
					}
				}
			}
		}
	}
}

func tokName(t token.Token) string {
	switch t {
	case token.EQL:
		return "EQL"
	case token.NEQ:
		return "NEQ"
	case token.LSS:
		return "LSS"
	case token.LEQ:
		return "LEQ"
	case token.GTR:
		return "GTR"
	case token.GEQ:
		return "GEQ"
	}
	return t.String()
}

func gen(work string, seed uint64, nrand, nmixed int) genOut {
	rnd := hx.NewRand(seed)
	mod := filepath.Join(work, "gen")
	hx.WriteFile(filepath.Join(mod, "go.mod"), "module example.com/c03gen\n\ngo 1.26\n")
	all := append([]snippet{}, snippets...)
	all = append(all, cmpSnippets()...)
	for i := 0; i < nrand; i++ {
		all = append(all, randSnippet(rnd.Fork(), i, 2+rnd.Intn(3)))
	}
	type plan struct {
		name string
		ss   []snippet
	}
	var plans []plan
	for _, s := range all {
		plans = append(plans, plan{s.Name, []snippet{s}})
	}
	// mixed packages: random subsets of the snippets in one package (interactions inside one unused graph / one IR program)
	for i := 0; i < nmixed; i++ {
		k := 2 + rnd.Intn(5)
		perm := make([]int, len(all))
		for j := range perm {
			perm[j] = j
		}
		for j := range perm {
			x := j + rnd.Intn(len(perm)-j)
			perm[j], perm[x] = perm[x], perm[j]
		}
		var ss []snippet
		for _, j := range perm {
			if len(ss) < k && !all[j].Solo {
				ss = append(ss, all[j])
			}
		}
		plans = append(plans, plan{fmt.Sprintf("mixed_%d", i), ss})
	}
	analyzers := allAnalyzers()
	o := genOut{Seed: seed, Module: mod}
	// packages that exist only as tests / have an external test package (real binary only: they import "testing")
	hx.WriteFile(filepath.Join(mod, "only_tests", "only_tests_test.go"), "package only_tests\n\nimport \"testing\"\n\nfunc helper(p *int) *int {\n\tif p == nil {\n\t\treturn nil\n\t}\n\treturn p\n}\n\nfunc TestX(t *testing.T) {\n\tif helper(nil) != nil {\n\t\tt.Fatal(\"x\")\n\t}\n}\n")
	hx.WriteFile(filepath.Join(mod, "ext_tests", "ext_tests.go"), "// Package ext_tests has an external test package.\npackage ext_tests\n\n// F returns its argument.\nfunc F(p *int) *int { return p }\n")
	hx.WriteFile(filepath.Join(mod, "ext_tests", "ext_tests_test.go"), "package ext_tests_test\n\nimport (\n\t\"testing\"\n\n\t\"example.com/c03gen/ext_tests\"\n)\n\nfunc TestF(t *testing.T) {\n\tif ext_tests.F(nil) != nil {\n\t\tt.Fatal(\"x\")\n\t}\n}\n")
	// a package with a source file of loader.MaxFileSize bytes (the loader then falls back to export data and the
	// runner marks the package skipped), a package importing it, and an unrelated one
	var big strings.Builder
	big.WriteString("// Package big has an oversized source file.\npackage big\n\n// N is a constant.\nconst N = 1\n\n// P returns a pointer.\nfunc P() *int { return new(int) }\n\n")
	pad := "// " + strings.Repeat("padding ", 15) + "\n"
	for big.Len() < loader.MaxFileSize+len(pad) {
		big.WriteString(pad)
	}
	hx.WriteFile(filepath.Join(mod, "bigfile", "big", "big.go"), big.String())
	hx.WriteFile(filepath.Join(mod, "bigfile", "use", "use.go"), "// Package use imports the oversized package.\npackage use\n\nimport \"example.com/c03gen/bigfile/big\"\n\n// F uses big.\nfunc F() *int {\n\tif big.N > 0 {\n\t\treturn big.P()\n\t}\n\treturn nil\n}\n")
	hx.WriteFile(filepath.Join(mod, "bigfile", "top", "top.go"), "// Package top imports the importer of the oversized package.\npackage top\n\nimport \"example.com/c03gen/bigfile/use\"\n\n// G uses use.\nfunc G() bool { return use.F() == nil }\n")
	hx.WriteFile(filepath.Join(mod, "bigfile", "solo", "solo.go"), "// Package solo is unrelated to the oversized package.\npackage solo\n\n// H returns its argument.\nfunc H(p *int) *int { return p }\n")
	for _, n := range []string{"bigfile/big", "bigfile/use", "bigfile/top", "bigfile/solo"} {
		o.Packages = append(o.Packages, pkgRec{Name: n, Dir: filepath.Join(mod, n), Snippets: []string{n}, Targets: []string{"pkg:oversized-file"}, BinaryOnly: true})
	}
	// a package made of many small files and an importer (linted a second time under a low descriptor limit)
	for i := 0; i < 400; i++ {
		doc := ""
		if i == 0 {
			doc = "// Package many has many files.\n"
		}
		hx.WriteFile(filepath.Join(mod, "manyfiles", "many", fmt.Sprintf("f%03d.go", i)),
			fmt.Sprintf("%spackage many\n\n// F%d returns its argument unless it is nil.\nfunc F%d(p *int) *int {\n\tif p == nil {\n\t\treturn new(int)\n\t}\n\treturn p\n}\n", doc, i, i))
	}
	hx.WriteFile(filepath.Join(mod, "manyfiles", "use", "use.go"), "// Package use imports the package with many files.\npackage use\n\nimport \"example.com/c03gen/manyfiles/many\"\n\n// G calls many.\nfunc G() *int { return many.F399(many.F0(nil)) }\n")
	for _, n := range []string{"manyfiles/many", "manyfiles/use"} {
		o.Packages = append(o.Packages, pkgRec{Name: n, Dir: filepath.Join(mod, n), Snippets: []string{n}, Targets: []string{"pkg:many-files"}, BinaryOnly: true})
	}
	for _, n := range []string{"only_tests", "ext_tests"} {
		o.Packages = append(o.Packages, pkgRec{Name: n, Dir: filepath.Join(mod, n), Snippets: []string{n}, Targets: []string{"pkg:" + n}, BinaryOnly: true})
	}
	for _, a := range analyzers {
		o.Analyzers = append(o.Analyzers, a.Name)
	}
	// multi-package groups
	for _, g := range groups(rnd.Fork(), 10) {
		prefix := "example.com/c03gen/" + g.Name
		siblings := map[string]*types.Package{}
		facts := newFactStore()
		inproc := true
		for _, gp := range g.Pkgs {
			if strings.Contains(strings.ReplaceAll(gp.Src, "\"@/", ""), "import \"") || strings.Contains(gp.Src, "import (") {
				inproc = false // imports something outside the group
			}
		}
		for _, gp := range g.Pkgs {
			dir := filepath.Join(mod, g.Name, gp.Name)
			fn := filepath.Join(dir, gp.Name+".go")
			hx.WriteFile(fn, fmt.Sprintf("// Package %s is generated by the C03 harness (group %s).\npackage %s\n", gp.Name, g.Name, gp.Name)+strings.ReplaceAll(gp.Src, "\"@/", "\""+prefix+"/"))
			rec := pkgRec{Name: g.Name + "/" + gp.Name, Dir: dir, Snippets: []string{g.Name + "/" + gp.Name}, Targets: g.Targets,
				Instr: map[string]int{}, InstrNil: map[string]int{}, Builtins: map[string]bool{}, CmpZero: map[string]int{}, Ast: map[string]int{}}
			if !inproc {
				rec.BinaryOnly = true
				o.Packages = append(o.Packages, rec)
				continue
			}
			u := loadUnitWith(prefix+"/"+gp.Name, []string{fn}, "go1.26", siblings)
			if u.err != nil {
				rec.BuildErr = u.err.Error()
				o.Packages = append(o.Packages, rec)
				inproc = false
				continue
			}
			siblings[prefix+"/"+gp.Name] = u.pkg
			runAll(&rec, u, newRunCtxWith(u, facts), analyzers)
			o.Packages = append(o.Packages, rec)
		}
	}
	for _, p := range plans {
		dir := filepath.Join(mod, p.name)
		files := writePkg(dir, p.name, p.ss)
		rec := pkgRec{Name: p.name, Dir: dir, Instr: map[string]int{}, InstrNil: map[string]int{}, Builtins: map[string]bool{}, CmpZero: map[string]int{}, Ast: map[string]int{}}
		for _, s := range p.ss {
			rec.Snippets = append(rec.Snippets, s.Name)
			rec.Targets = append(rec.Targets, s.Targets...)
		}
		binaryOnly := false
		for _, s := range p.ss {
			for _, i := range s.Imports {
				if i != "unsafe" {
					binaryOnly = true // the in-process driver has no importer for other packages; the real binary analyses it
				}
			}
		}
		if binaryOnly {
			rec.BinaryOnly = true
			o.Packages = append(o.Packages, rec)
			continue
		}
		u := loadUnit("example.com/c03gen/"+p.name, files, "go1.26")
		if u.err != nil {
			rec.BuildErr = u.err.Error()
			o.Packages = append(o.Packages, rec)
			continue
		}
		runAll(&rec, u, newRunCtx(u), analyzers)
		o.Packages = append(o.Packages, rec)
	}
	return o
}

// runAll runs every analyzer over the unit (each root under its own recover) and fills the record.
func runAll(rec *pkgRec, u *pkgUnit, ctx *runCtx, analyzers []*analysis.Analyzer) {
	for _, a := range analyzers {
		_, err := ctx.run(a)
		rec.Analyzers++
		if err != nil {
			if pe, ok := err.(*panicErr); ok {
				dup := false
				for _, q := range rec.Panics {
					if q.Analyzer == pe.analyzer && q.Value == pe.value {
						dup = true
					}
				}
				if !dup {
					rec.Panics = append(rec.Panics, panicRec{pe.analyzer, pe.value, pe.stack})
				}
			} else {
				rec.Errors = append(rec.Errors, a.Name+": "+err.Error())
			}
		}
	}
	rec.Diagnostics = ctx.diags
	var irres *verifhooks.IR
	if r, ok := ctx.results[verifhooks.BuildIR].(*verifhooks.IR); ok {
		irres = r
	}
	measure(rec, u, irres)
}
