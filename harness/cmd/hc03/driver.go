package main

// A tiny single-package go/analysis driver: type-checks one import-free (except "unsafe") package from source and
// runs analyzers over it IN PROCESS, each root analyzer under its own recover, so that a panic is attributed to
// (analyzer, program) instead of killing the process.  It is a search and measurement tool; the oracle of record
// is the real staticcheck binary, which the check runs over the same files.

import (
	"fmt"
	"go/ast"
	"go/parser"
	"go/token"
	"go/types"
	"os"
	"reflect"
	"runtime/debug"
	"strings"

	"golang.org/x/tools/go/analysis"
)

type pkgUnit struct {
	fset  *token.FileSet
	files []*ast.File
	pkg   *types.Package
	info  *types.Info
	err   error // parse or type error: the program is not buildable (a generator bug, never a violation)
}

func loadUnit(path string, filenames []string, goVersion string) *pkgUnit {
	return loadUnitWith(path, filenames, goVersion, nil)
}

// loadUnitWith type-checks a package whose imports are "unsafe" or packages of the same generated group that have
// been type-checked before (siblings: import path -> package).
func loadUnitWith(path string, filenames []string, goVersion string, siblings map[string]*types.Package) *pkgUnit {
	u := &pkgUnit{fset: token.NewFileSet()}
	for _, fn := range filenames {
		f, err := parser.ParseFile(u.fset, fn, nil, parser.ParseComments|parser.SkipObjectResolution)
		if err != nil {
			u.err = err
			return u
		}
		u.files = append(u.files, f)
	}
	u.info = &types.Info{
		Types:        map[ast.Expr]types.TypeAndValue{},
		Defs:         map[*ast.Ident]types.Object{},
		Uses:         map[*ast.Ident]types.Object{},
		Implicits:    map[ast.Node]types.Object{},
		Instances:    map[*ast.Ident]types.Instance{},
		Scopes:       map[ast.Node]*types.Scope{},
		Selections:   map[*ast.SelectorExpr]*types.Selection{},
		FileVersions: map[*ast.File]string{},
	}
	conf := types.Config{GoVersion: goVersion, Sizes: types.SizesFor("gc", "amd64"), Importer: unsafeOnly{siblings}}
	u.pkg, u.err = conf.Check(path, u.fset, u.files, u.info)
	return u
}

type factKey struct {
	obj types.Object
	typ reflect.Type
}

type runCtx struct {
	u        *pkgUnit
	results  map[*analysis.Analyzer]any
	errs     map[*analysis.Analyzer]error
	done     map[*analysis.Analyzer]bool
	objFacts map[factKey]analysis.Fact    // shared by the packages of one group (facts flow to importers)
	pkgFacts map[pkgFactKey]analysis.Fact // likewise
	diags    int
}

type pkgFactKey struct {
	pkg *types.Package
	typ reflect.Type
}

type factStore struct {
	obj map[factKey]analysis.Fact
	pkg map[pkgFactKey]analysis.Fact
}

func newFactStore() *factStore {
	return &factStore{obj: map[factKey]analysis.Fact{}, pkg: map[pkgFactKey]analysis.Fact{}}
}

func newRunCtx(u *pkgUnit) *runCtx { return newRunCtxWith(u, newFactStore()) }

func newRunCtxWith(u *pkgUnit, fs *factStore) *runCtx {
	return &runCtx{u: u, results: map[*analysis.Analyzer]any{}, errs: map[*analysis.Analyzer]error{}, done: map[*analysis.Analyzer]bool{},
		objFacts: fs.obj, pkgFacts: fs.pkg}
}

type panicErr struct {
	analyzer string
	value    string
	stack    string
}

func (p *panicErr) Error() string { return "panic in " + p.analyzer + ": " + p.value }

// run executes a (and, first, everything it requires); a panic inside any Run is recovered and returned as *panicErr.
func (c *runCtx) run(a *analysis.Analyzer) (res any, err error) {
	if c.done[a] {
		return c.results[a], c.errs[a]
	}
	defer func() {
		c.done[a] = true
		c.results[a], c.errs[a] = res, err
	}()
	resultOf := map[*analysis.Analyzer]any{}
	for _, req := range a.Requires {
		r, err := c.run(req)
		if err != nil {
			return nil, err
		}
		resultOf[req] = r
	}
	pass := &analysis.Pass{
		Analyzer:   a,
		Fset:       c.u.fset,
		Files:      c.u.files,
		Pkg:        c.u.pkg,
		TypesInfo:  c.u.info,
		TypesSizes: types.SizesFor("gc", "amd64"),
		ResultOf:   resultOf,
		Report:     func(analysis.Diagnostic) { c.diags++ },
		ReadFile:   os.ReadFile,
		ImportObjectFact: func(obj types.Object, f analysis.Fact) bool {
			if v, ok := c.objFacts[factKey{obj, reflect.TypeOf(f)}]; ok {
				reflect.ValueOf(f).Elem().Set(reflect.ValueOf(v).Elem())
				return true
			}
			return false
		},
		ExportObjectFact: func(obj types.Object, f analysis.Fact) { c.objFacts[factKey{obj, reflect.TypeOf(f)}] = f },
		ImportPackageFact: func(p *types.Package, f analysis.Fact) bool {
			if v, ok := c.pkgFacts[pkgFactKey{p, reflect.TypeOf(f)}]; ok {
				reflect.ValueOf(f).Elem().Set(reflect.ValueOf(v).Elem())
				return true
			}
			return false
		},
		ExportPackageFact: func(f analysis.Fact) { c.pkgFacts[pkgFactKey{c.u.pkg, reflect.TypeOf(f)}] = f },
		AllObjectFacts: func() []analysis.ObjectFact {
			var out []analysis.ObjectFact
			for k, v := range c.objFacts {
				for _, ft := range a.FactTypes {
					if reflect.TypeOf(ft) == k.typ {
						out = append(out, analysis.ObjectFact{Object: k.obj, Fact: v})
					}
				}
			}
			return out
		},
		AllPackageFacts: func() []analysis.PackageFact { return nil },
	}
	defer func() {
		if x := recover(); x != nil {
			st := string(debug.Stack())
			res, err = nil, &panicErr{analyzer: a.Name, value: fmt.Sprint(x), stack: trimStack(st)}
		}
	}()
	return a.Run(pass)
}

// keep the frames below the recover machinery, at most 12 lines
func trimStack(s string) string {
	lines := strings.Split(s, "\n")
	start := 0
	for i, l := range lines {
		if strings.HasPrefix(l, "panic(") {
			start = i + 2
			break
		}
	}
	lines = lines[start:]
	if len(lines) > 12 {
		lines = lines[:12]
	}
	return strings.Join(lines, "\n")
}

// the generated programs import nothing but "unsafe"
type unsafeOnly struct{ siblings map[string]*types.Package }

func (u unsafeOnly) Import(path string) (*types.Package, error) {
	if path == "unsafe" {
		return types.Unsafe, nil
	}
	if p := u.siblings[path]; p != nil {
		return p, nil
	}
	return nil, fmt.Errorf("generated programs must not import %q", path)
}
