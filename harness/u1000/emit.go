package u1000

import (
	"fmt"
	"strings"

	"honnef.co/go/tools/unused"
)

// Gallina literals for coq/Model/C17_Graph.v, C17_Check.v, C07_Check.v.

func nlist(xs []uint64) string {
	var b strings.Builder
	b.WriteString("[")
	for i, x := range xs {
		if i > 0 {
			b.WriteString("; ")
		}
		fmt.Fprintf(&b, "%d", x)
	}
	b.WriteString("]")
	return b.String()
}

// CGraph renders the exported nodes as a cgraph: list of (uses, owns), index = node id.
func CGraph(nodes []unused.VerifNode) string {
	var b strings.Builder
	b.WriteString("[")
	for i, n := range nodes {
		if i > 0 {
			b.WriteString(";\n  ")
		}
		if uint64(i) != n.ID {
			panic("node ids are not consecutive")
		}
		fmt.Fprintf(&b, "(%s, %s)", nlist(n.Uses), nlist(n.Owns))
	}
	b.WriteString("]")
	return b.String()
}

// Interner maps values to small numbers.
type Interner struct {
	m map[any]uint64
}

func NewInterner() *Interner { return &Interner{m: map[any]uint64{}} }
func (in *Interner) ID(v any) uint64 {
	if id, ok := in.m[v]; ok {
		return id
	}
	id := uint64(len(in.m))
	in.m[v] = id
	return id
}

// Labelled renders the graph with the interned Object of every node: list (label, (uses, owns)).
func Labelled(nodes []unused.VerifNode, in *Interner) string {
	var b strings.Builder
	b.WriteString("[")
	for i, n := range nodes {
		if i > 0 {
			b.WriteString(";\n  ")
		}
		fmt.Fprintf(&b, "(%d, (%s, %s))", in.ID(n.Obj), nlist(n.Uses), nlist(n.Owns))
	}
	b.WriteString("]")
	return b.String()
}

func ObjIDs(objs []unused.Object, in *Interner) []uint64 {
	out := make([]uint64, 0, len(objs))
	for _, o := range objs {
		out = append(out, in.ID(o))
	}
	return out
}

// CaseA: exported graph + the analyzer's Result.
func CaseA(nodes []unused.VerifNode, res unused.Result) string {
	in := NewInterner()
	g := Labelled(nodes, in)
	return fmt.Sprintf("mkA %s\n  %s\n  %s\n  %s", g, nlist(ObjIDs(res.Used, in)), nlist(ObjIDs(res.Unused, in)), nlist(ObjIDs(res.Quiet, in)))
}

func StrIDs(ss []string, in *Interner) []uint64 {
	out := make([]uint64, 0, len(ss))
	for _, s := range ss {
		out = append(out, in.ID(s))
	}
	return out
}

func CoqString(s string) string {
	var b strings.Builder
	b.WriteByte('"')
	for _, c := range []byte(s) {
		switch {
		case c == '"':
			b.WriteString(`""`)
		case c >= 32 && c < 127:
			b.WriteByte(c)
		default:
			b.WriteByte('?')
		}
	}
	b.WriteByte('"')
	return b.String()
}
