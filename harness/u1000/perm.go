package u1000

import (
	"fmt"
	"go/ast"
	"go/token"
	"go/types"
	"sort"
	"strings"

	"verifharness/hx"
)

// Permute returns a copy of the package's sources with the files reordered and the top-level declarations reordered
// within files and (when allowed) across files. Declarations are moved as whole-line chunks, verbatim.
// Across-file moves are restricted to declarations that do not mention an imported package and to files that are
// neither generated, nor test files (unless both are), nor carry file-level directives or build constraints.
func (p *Pkg) Permute(r *hx.Rand, acrossFiles bool) []SrcFile {
	headers, chunks, tails := p.Chunks("text")
	n := len(p.Sources)
	movable := make([]bool, n)
	for i, s := range p.Sources {
		movable[i] = acrossFiles && !strings.Contains(s.Src, "Code generated") && !strings.Contains(s.Src, "lint:file-ignore") &&
			!strings.Contains(s.Src, "//go:build") && !strings.Contains(s.Src, "+build") && !strings.Contains(s.Src, "import \"C\"")
	}
	isTest := func(i int) bool { return strings.HasSuffix(p.Sources[i].Name, "_test.go") }
	type piece struct {
		text string
	}
	per := make([][]piece, n)
	for fi := range chunks {
		for _, c := range chunks[fi] {
			text := p.Sources[fi].Src[c.Start:c.End]
			if !strings.HasSuffix(text, "\n") {
				text += "\n"
			}
			dst := fi
			if movable[fi] && !c.UsesPkgName && r.Chance(40) {
				var cands []int
				for j := 0; j < n; j++ {
					if movable[j] && isTest(j) == isTest(fi) && p.Files[j].Name.Name == p.Files[fi].Name.Name {
						cands = append(cands, j)
					}
				}
				if len(cands) > 0 {
					dst = cands[r.Intn(len(cands))]
				}
			}
			per[dst] = append(per[dst], piece{text})
		}
	}
	var out []SrcFile
	for fi := 0; fi < n; fi++ {
		ps := per[fi]
		for k := len(ps) - 1; k > 0; k-- {
			j := r.Intn(k + 1)
			ps[k], ps[j] = ps[j], ps[k]
		}
		var b strings.Builder
		b.WriteString(headers[fi])
		if !strings.HasSuffix(headers[fi], "\n") {
			b.WriteString("\n")
		}
		for _, pc := range ps {
			b.WriteString("\n")
			b.WriteString(pc.text)
		}
		b.WriteString(tails[fi])
		out = append(out, SrcFile{Name: p.Sources[fi].Name, Src: b.String()})
	}
	// file order
	for k := len(out) - 1; k > 0; k-- {
		j := r.Intn(k + 1)
		out[k], out[j] = out[j], out[k]
	}
	return out
}

// AddedRef describes one reference added to a package.
type AddedRef struct {
	Kind   string // "stmt" (inside the body of From) or "var" (new package-level `var _ = ...`)
	From   string // name of the used function the statement was added to
	Target string // object referred to
	Text   string
}

// AddReference returns the sources with one reference to a package-level object added inside code that is used:
// either a statement at the end of the body of a function the analyzer marked used, or a new `var _ = o`.
// ok is false when the package offers no suitable (function, object) pair.
func (p *Pkg) AddReference(r *hx.Rand) (srcs []SrcFile, ref AddedRef, ok bool) {
	usedPos := map[token.Position]bool{}
	for _, o := range p.Result.Used {
		usedPos[o.Position] = true
	}
	type fn struct {
		file int
		decl *ast.FuncDecl
	}
	var fns []fn
	for fi, f := range p.Files {
		for _, d := range f.Decls {
			if fd, ok := d.(*ast.FuncDecl); ok && fd.Body != nil {
				obj := p.Info.Defs[fd.Name]
				if obj != nil && usedPos[p.Fset.PositionFor(obj.Pos(), false)] {
					fns = append(fns, fn{fi, fd})
				}
			}
		}
	}
	// candidate targets: package-level, non-generic
	var targets []types.Object
	names := p.Types.Scope().Names()
	sort.Strings(names)
	for _, n := range names {
		o := p.Types.Scope().Lookup(n)
		if n == "_" || n == "init" || n == "main" {
			continue
		}
		switch o := o.(type) {
		case *types.Func:
			if o.Type().(*types.Signature).TypeParams().Len() > 0 {
				continue
			}
		case *types.TypeName:
			if nt, ok := types.Unalias(o.Type()).(*types.Named); ok && nt.TypeParams().Len() > 0 && nt.TypeArgs().Len() == 0 {
				continue
			}
			if u, ok := o.Type().Underlying().(*types.Interface); ok && !u.IsMethodSet() {
				continue
			}
		case *types.Var, *types.Const:
		default:
			continue
		}
		targets = append(targets, o)
	}
	if len(targets) == 0 {
		return nil, ref, false
	}
	t := targets[r.Intn(len(targets))]
	expr := t.Name()
	if _, isType := t.(*types.TypeName); isType {
		expr = "(*" + t.Name() + ")(nil)"
	}
	srcs = append([]SrcFile(nil), p.Sources...)
	if len(fns) > 0 && r.Chance(70) {
		f := fns[r.Intn(len(fns))]
		off := p.Fset.File(f.decl.Pos()).Offset(f.decl.Body.Lbrace) + 1
		s := srcs[f.file].Src
		text := "\n\t_ = " + expr + "\n"
		srcs[f.file].Src = s[:off] + text + s[off:]
		return srcs, AddedRef{"stmt", f.decl.Name.Name, t.Name(), strings.TrimSpace(text)}, true
	}
	// new declaration at the very end of the last non-test, non-generated file (so that declaration indices are stable)
	fi := -1
	for i := len(srcs) - 1; i >= 0; i-- {
		if !strings.HasSuffix(srcs[i].Name, "_test.go") && !strings.Contains(srcs[i].Src, "Code generated") {
			fi = i
			break
		}
	}
	if fi < 0 {
		return nil, ref, false
	}
	text := fmt.Sprintf("\nvar _ = %s\n", expr)
	srcs[fi].Src += text
	return srcs, AddedRef{"var", "", t.Name(), strings.TrimSpace(text)}, true
}

// MatchNodes computes the node correspondence between two analyses of (variants of) one package by label.
// pi[i] = node of b with the label of node i of a, or len(b.Nodes) when there is none; pinv likewise.
func MatchNodes(a, b *Pkg, keyMode string) (pi, pinv []uint64, unmatchedA, unmatchedB []string) {
	la, lb := a.NodeLabels(keyMode), b.NodeLabels(keyMode)
	idxB := map[string]int{}
	for i, l := range lb {
		idxB[l] = i
	}
	idxA := map[string]int{}
	for i, l := range la {
		idxA[l] = i
	}
	for _, l := range la {
		if j, ok := idxB[l]; ok {
			pi = append(pi, uint64(j))
		} else {
			pi = append(pi, uint64(len(lb)))
			unmatchedA = append(unmatchedA, l)
		}
	}
	for _, l := range lb {
		if j, ok := idxA[l]; ok {
			pinv = append(pinv, uint64(j))
		} else {
			pinv = append(pinv, uint64(len(la)))
			unmatchedB = append(unmatchedB, l)
		}
	}
	return
}


// AllOrders returns every ordering of the top-level declarations of a single-file package (at most max orders;
// the identity order is skipped).
func (p *Pkg) AllOrders(max int, r *hx.Rand) [][]SrcFile {
	headers, chunks, tails := p.Chunks("text")
	if len(p.Sources) != 1 {
		// several files: both/all rotations of the file order, then random permutations within and across files
		var out [][]SrcFile
		for k := 1; k < len(p.Sources); k++ {
			rot := append(append([]SrcFile(nil), p.Sources[k:]...), p.Sources[:k]...)
			out = append(out, rot)
		}
		for len(out) < max && len(out) < 40 {
			out = append(out, p.Permute(r, true))
		}
		return out
	}
	fact := 1
	for i := 2; i <= len(chunks[0]); i++ {
		fact *= i
		if fact > 100000 {
			break
		}
	}
	if fact-1 > max {
		// too many orders: a random sample
		var out [][]SrcFile
		for len(out) < max && len(out) < 40 {
			out = append(out, p.Permute(r, false))
		}
		return out
	}
	n := len(chunks[0])
	texts := make([]string, n)
	for i, c := range chunks[0] {
		t := p.Sources[0].Src[c.Start:c.End]
		if !strings.HasSuffix(t, "\n") {
			t += "\n"
		}
		texts[i] = t
	}
	var out [][]SrcFile
	idx := make([]int, n)
	for i := range idx {
		idx[i] = i
	}
	var rec func(k int)
	rec = func(k int) {
		if len(out) >= max {
			return
		}
		if k == n {
			ident := true
			for i, x := range idx {
				if i != x {
					ident = false
				}
			}
			if ident {
				return
			}
			var b strings.Builder
			b.WriteString(headers[0])
			for _, i := range idx {
				b.WriteString("\n")
				b.WriteString(texts[i])
			}
			b.WriteString(tails[0])
			out = append(out, []SrcFile{{Name: p.Sources[0].Name, Src: b.String()}})
			return
		}
		for i := k; i < n; i++ {
			idx[k], idx[i] = idx[i], idx[k]
			rec(k + 1)
			idx[k], idx[i] = idx[i], idx[k]
		}
	}
	rec(0)
	return out
}
