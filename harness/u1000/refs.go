package u1000

import (
	"go/ast"
	"go/token"
	"go/types"
	"sort"
	"strings"
)

func origin(obj types.Object) types.Object {
	switch o := obj.(type) {
	case *types.Var:
		return o.Origin()
	case *types.Func:
		return o.Origin()
	}
	return obj
}

// Ref is one identifier (or implicit field selection) of the package that resolves to an in-package object with a node.
type Ref struct {
	A       uint64 // node of the innermost enclosing declared object that has a node (the identifier disappears iff A is deleted)
	Witness uint64 // A or an owns-ancestor of A that has the use edge to B (hint checked inside Coq); = A when none found
	B       uint64 // node of the object referred to
	Pos     token.Position
	Name    string
	Write   bool // the identifier is only assigned to here (x = v, x++, x += v, range ... = ): rule 9.7 records no use
}

// Refs lists, for every identifier use recorded by go/types (Info.Uses) and every implicit field of a selection
// path (Info.Selections), the reference (A, B). Identifiers outside any declaration with a node are attributed to
// the root (node 0), which is never deleted.
func (p *Pkg) Refs() []Ref {
	uses := map[uint64]map[uint64]bool{}
	parents := map[uint64][]uint64{}
	for _, n := range p.Nodes {
		m := map[uint64]bool{}
		for _, u := range n.Uses {
			m[u] = true
		}
		uses[n.ID] = m
		for _, o := range n.Owns {
			parents[o] = append(parents[o], n.ID)
		}
	}
	witness := func(a, b uint64) uint64 {
		seen := map[uint64]bool{}
		stack := []uint64{a}
		for len(stack) > 0 {
			x := stack[len(stack)-1]
			stack = stack[:len(stack)-1]
			if seen[x] {
				continue
			}
			seen[x] = true
			if uses[x][b] {
				return x
			}
			stack = append(stack, parents[x]...)
		}
		return a
	}
	nodeOf := func(o types.Object) (uint64, bool) {
		if o == nil || o.Pkg() != p.Types {
			return 0, false
		}
		id, ok := p.Objs[origin(o)]
		return id, ok
	}
	var refs []Ref
	writes := map[*ast.Ident]bool{}
	markWrite := func(e ast.Expr) {
		for {
			if pe, ok := e.(*ast.ParenExpr); ok {
				e = pe.X
				continue
			}
			break
		}
		if id, ok := e.(*ast.Ident); ok {
			writes[id] = true
		}
	}
	for _, f := range p.Files {
		ast.Inspect(f, func(n ast.Node) bool {
			switch n := n.(type) {
			case *ast.AssignStmt:
				if n.Tok != token.DEFINE {
					for _, l := range n.Lhs {
						markWrite(l)
					}
				}
			case *ast.IncDecStmt:
				markWrite(n.X)
			case *ast.RangeStmt:
				if n.Tok == token.ASSIGN {
					if n.Key != nil {
						markWrite(n.Key)
					}
					if n.Value != nil {
						markWrite(n.Value)
					}
				}
			}
			return true
		})
	}
	for _, f := range p.Files {
		// stack of sets of declared objects (a spec with several names declares several)
		var stack [][]types.Object
		var nodeStack []ast.Node
		push := func(n ast.Node, ids []*ast.Ident) {
			var objs []types.Object
			for _, id := range ids {
				if o := p.Info.Defs[id]; o != nil {
					objs = append(objs, o)
				}
			}
			stack = append(stack, objs)
			nodeStack = append(nodeStack, n)
		}
		enclosing := func() []uint64 {
			for i := len(stack) - 1; i >= 0; i-- {
				var ids []uint64
				for _, o := range stack[i] {
					if id, ok := nodeOf(o); ok {
						ids = append(ids, id)
					}
				}
				if len(ids) > 0 {
					return ids
				}
			}
			return []uint64{0}
		}
		add := func(pos token.Pos, name string, target types.Object, write bool) {
			b, ok := nodeOf(target)
			if !ok {
				return
			}
			for _, a := range enclosing() {
				refs = append(refs, Ref{A: a, Witness: witness(a, b), B: b, Pos: p.Fset.PositionFor(pos, false), Name: name, Write: write})
			}
		}
		var pushedStack []bool
		valueOwner := map[ast.Expr]*ast.Ident{}
		ast.Inspect(f, func(n ast.Node) bool {
			if n == nil {
				if pushedStack[len(pushedStack)-1] {
					stack = stack[:len(stack)-1]
					nodeStack = nodeStack[:len(nodeStack)-1]
				}
				pushedStack = pushedStack[:len(pushedStack)-1]
				return true
			}
			pushed := false
			if e, ok := n.(ast.Expr); ok {
				if name, ok := valueOwner[e]; ok {
					// one value per name: the value belongs to its own name only
					push(n, []*ast.Ident{name})
					pushed = true
					if id, ok := n.(*ast.Ident); ok {
						if o := p.Info.Uses[id]; o != nil {
							if _, isPkg := o.(*types.PkgName); !isPkg {
								add(id.Pos(), id.Name, o, writes[id])
							}
						}
					}
					pushedStack = append(pushedStack, pushed)
					return true
				}
			}
			switch n := n.(type) {
			case *ast.FuncDecl:
				push(n, []*ast.Ident{n.Name})
				pushed = true
			case *ast.ValueSpec:
				push(n, n.Names)
				pushed = true
				if len(n.Values) == len(n.Names) {
					for i, v := range n.Values {
						valueOwner[v] = n.Names[i]
					}
				}
			case *ast.TypeSpec:
				push(n, []*ast.Ident{n.Name})
				pushed = true
			case *ast.Field:
				if len(n.Names) > 0 {
					push(n, n.Names)
					pushed = true
				} else if id := embeddedIdent(n.Type); id != nil {
					// an embedded field's identifier defines the field (unnamed parameters define nothing)
					if v, isVar := p.Info.Defs[id].(*types.Var); isVar && v.IsField() {
						push(n, []*ast.Ident{id})
						pushed = true
					}
				}
			case *ast.Ident:
				if o := p.Info.Uses[n]; o != nil {
					if _, isPkg := o.(*types.PkgName); !isPkg {
						add(n.Pos(), n.Name, o, writes[n])
					}
				}
			case *ast.SelectorExpr:
				if sel, ok := p.Info.Selections[n]; ok {
					// implicit fields on the path
					idx := sel.Index()
					base := sel.Recv()
					for _, i := range idx[:len(idx)-1] {
						t := base
						if pt, ok := t.Underlying().(*types.Pointer); ok {
							t = pt.Elem()
						}
						st, ok := t.Underlying().(*types.Struct)
						if !ok {
							break
						}
						fld := st.Field(i)
						add(n.Sel.Pos(), "(implicit)"+fld.Name(), fld, false)
						base = fld.Type()
					}
				}
			}
			pushedStack = append(pushedStack, pushed)
			return true
		})
	}
	sort.SliceStable(refs, func(i, j int) bool {
		if refs[i].Pos.Filename != refs[j].Pos.Filename {
			return refs[i].Pos.Filename < refs[j].Pos.Filename
		}
		return refs[i].Pos.Offset < refs[j].Pos.Offset
	})
	return refs
}

func embeddedIdent(e ast.Expr) *ast.Ident {
	for {
		switch x := e.(type) {
		case *ast.Ident:
			return x
		case *ast.StarExpr:
			e = x.X
		case *ast.SelectorExpr:
			return x.Sel
		case *ast.IndexExpr:
			e = x.X
		case *ast.IndexListExpr:
			e = x.X
		case *ast.ParenExpr:
			e = x.X
		default:
			return nil
		}
	}
}

// Candidate is an unexported package-level func/type/var/stand-alone const without any exemption that no identifier
// of the package refers to; the property demands that it is reported.
type Candidate struct {
	Obj  types.Object
	Pos  token.Position
	Kind string
}

// ZeroRefCandidates computes, independently of the analyzer's rules, the objects of the second half of C07.
func (p *Pkg) ZeroRefCandidates() []Candidate {
	if strings.HasSuffix(p.Types.Path(), ".test") {
		return nil
	}
	referred := map[types.Object]bool{}
	for _, o := range p.Info.Uses {
		referred[origin(o)] = true
	}
	var out []Candidate
	// a //go:linkname directive in any file of the package exempts the named object
	linknamed := map[string]bool{}
	for _, f := range p.Files {
		for _, cg := range f.Comments {
			for _, c := range cg.List {
				if strings.HasPrefix(c.Text, "//go:linkname ") {
					if fs := strings.Fields(c.Text); len(fs) >= 2 {
						linknamed[fs[1]] = true
					}
				}
			}
		}
	}
	for _, f := range p.Files {
		tf := p.Fset.File(f.Pos())
		path := tf.Name()
		src := ""
		for i := range p.Files {
			if p.Files[i] == f {
				src = p.Sources[i].Src
			}
		}
		// file-level exemptions: generated, cgo, file-ignore
		if isGeneratedSrc(src) || strings.Contains(src, "lint:file-ignore") || strings.Contains(src, "import \"C\"") {
			continue
		}
		_ = path
		for _, d := range f.Decls {
			// ignore directives anywhere in or directly above the declaration exempt the whole declaration
			ds, de := tf.Offset(d.Pos()), tf.Offset(d.End())
			lineStart := strings.LastIndexByte(src[:ds], '\n') + 1
			// include the comment block directly above
			for lineStart > 0 {
				prev := strings.LastIndexByte(src[:lineStart-1], '\n') + 1
				if strings.HasPrefix(strings.TrimSpace(src[prev:lineStart]), "//") {
					lineStart = prev
				} else {
					break
				}
			}
			end := de
			if i := strings.IndexByte(src[de:], '\n'); i >= 0 {
				end = de + i
			}
			if strings.Contains(src[lineStart:end], "lint:ignore") {
				continue
			}
			consider := func(id *ast.Ident, kind string) {
				o := p.Info.Defs[id]
				if o == nil || id.Name == "_" || token.IsExported(id.Name) || linknamed[id.Name] {
					return
				}
				if o.Parent() != p.Types.Scope() {
					return
				}
				if referred[o] {
					return
				}
				out = append(out, Candidate{Obj: o, Pos: p.Fset.PositionFor(o.Pos(), false), Kind: kind})
			}
			switch d := d.(type) {
			case *ast.FuncDecl:
				if d.Recv != nil || d.Name.Name == "init" || (d.Name.Name == "main" && p.Types.Name() == "main") {
					continue
				}
				if d.Doc != nil && strings.Contains(d.Doc.Text()+commentText(d.Doc), "go:cgo_export_") {
					continue
				}
				if d.Body == nil {
					continue // implemented elsewhere (assembly, linkname push)
				}
				if p.Types.Path() == "runtime" || p.Types.Path() == "runtime/coverage" {
					continue
				}
				consider(d.Name, "func")
			case *ast.GenDecl:
				switch d.Tok {
				case token.VAR:
					for _, s := range d.Specs {
						for _, n := range s.(*ast.ValueSpec).Names {
							consider(n, "var")
						}
					}
				case token.TYPE:
					for _, s := range d.Specs {
						ts := s.(*ast.TypeSpec)
						if ts.Assign.IsValid() {
							continue // an alias is not a named type
						}
						consider(ts.Name, "type")
					}
				case token.CONST:
					// stand-alone constants only: a declaration of exactly one named constant
					cnt := 0
					for _, s := range d.Specs {
						cnt += len(s.(*ast.ValueSpec).Names)
					}
					if cnt == 1 {
						consider(d.Specs[0].(*ast.ValueSpec).Names[0], "const")
					}
				}
			}
		}
	}
	return out
}

func commentText(cg *ast.CommentGroup) string {
	var b strings.Builder
	for _, c := range cg.List {
		b.WriteString(c.Text)
		b.WriteString("\n")
	}
	return b.String()
}

func isGeneratedSrc(src string) bool {
	for _, line := range strings.Split(src, "\n") {
		line = strings.TrimSuffix(line, "\r")
		if strings.HasPrefix(line, "// Code generated ") && strings.HasSuffix(line, " DO NOT EDIT.") {
			return true
		}
		if line == "// Created by cgo - DO NOT EDIT" {
			return true
		}
	}
	return false
}
