package u1000

// Second half of C07 through the real linter path (the staticcheck binary): a module with several packages of the
// SAME NAME (package main under cmd/first, cmd/second, ...; package util under a/util, b/util), the same file base
// name and the same objects on the same lines; each package uses a different subset of its copies. Every zero-reference
// candidate computed per package from go/types must be printed by the CLI for that package's file.

import (
	"bytes"
	"encoding/json"
	"fmt"
	"os/exec"
	"path/filepath"
	"sort"
	"strings"

	"verifharness/hx"
)

type SameNameOutput struct {
	Module   []SrcFile
	Expected []CLIProblem
	CLI      []CLIProblem
	Missing  []CLIProblem
	Errors   []string
	Coq      string `json:"-"`
	Stats    map[string]int
}

func genSameNameModule(r *hx.Rand) []SrcFile {
	out := []SrcFile{{"go.mod", "module example.com/w\n\ngo 1.22\n"}}
	type obj struct{ decl, use string }
	objs := []obj{
		{"func usage() {}", "usage()"},
		{"func helper() int { return 1 }", "_ = helper()"},
		{"var verbose int", "_ = verbose"},
		{"const limit = 3", "_ = limit"},
		{"type opts struct{ n int }", "var _ opts"},
		{"func report() {}", "report()"},
		{"var level = limit2()", "_ = level"},
		{"func limit2() int { return 2 }", "_ = limit2()"},
	}
	gen := func(dir, pkg, file, entry string, first bool) {
		var b strings.Builder
		b.WriteString("package " + pkg + "\n\n")
		for _, o := range objs {
			b.WriteString(o.decl + "\n\n")
		}
		b.WriteString("func " + entry + "() {\n")
		n := 0
		for i, o := range objs {
			// the first package of a group uses everything, the others random subsets (at least one object unused)
			if first || (r.Chance(45) && !(i == 0)) {
				b.WriteString("\t" + o.use + "\n")
				n++
			}
		}
		b.WriteString("}\n")
		out = append(out, SrcFile{filepath.Join(dir, file), b.String()})
	}
	names := []string{"first", "second", "third", "fourth"}
	nm := 2 + r.Intn(3)
	for i := 0; i < nm; i++ {
		gen("cmd/"+names[i], "main", "main.go", "main", i == 0)
	}
	libs := []string{"a", "b", "c"}
	nl := 2 + r.Intn(2)
	for i := 0; i < nl; i++ {
		gen(libs[i]+"/util", "util", "util.go", "Use", i == 0)
	}
	return out
}

// RunSameName generates the module, computes the candidates per package and runs the real CLI over ./... .
func RunSameName(r *hx.Rand, dir, staticcheck string) *SameNameOutput {
	so := &SameNameOutput{Stats: map[string]int{}}
	mod := genSameNameModule(r)
	so.Module = mod
	root := filepath.Join(dir, "w")
	for _, f := range mod {
		hx.WriteFile(filepath.Join(root, f.Name), f.Src)
	}
	pkgs, skipped := LoadDir(root, "./...")
	for _, s := range skipped {
		so.Errors = append(so.Errors, "load: "+s)
	}
	for _, p := range pkgs {
		so.Stats["packages"]++
		for _, c := range p.ZeroRefCandidates() {
			so.Expected = append(so.Expected, CLIProblem{
				File: strings.TrimPrefix(c.Pos.Filename, root+"/"), Line: c.Pos.Line, Column: c.Pos.Column,
				Message: fmt.Sprintf("%s %s is unused", c.Kind, c.Obj.Name()),
			})
		}
	}
	cmd := exec.Command(staticcheck, "-f", "json", "./...")
	cmd.Dir = root
	cmd.Env = append(hx.GoEnv(), "STATICCHECK_CACHE="+filepath.Join(dir, "cli-cache-w"))
	var stdout, stderr bytes.Buffer
	cmd.Stdout, cmd.Stderr = &stdout, &stderr
	err := cmd.Run()
	if ee, ok := err.(*exec.ExitError); err != nil && (!ok || ee.ExitCode() > 1) {
		so.Errors = append(so.Errors, fmt.Sprintf("staticcheck: %v: %s", err, stderr.String()))
	}
	dec := json.NewDecoder(&stdout)
	for dec.More() {
		var d struct {
			Code     string
			Location struct {
				File   string
				Line   int
				Column int
			}
			Message string
		}
		if err := dec.Decode(&d); err != nil {
			so.Errors = append(so.Errors, "CLI output: "+err.Error())
			break
		}
		if d.Code == "compile" {
			so.Errors = append(so.Errors, "CLI reports a compile error: "+d.Message)
		}
		if d.Code == "U1000" {
			so.CLI = append(so.CLI, CLIProblem{strings.TrimPrefix(d.Location.File, root+"/"), d.Location.Line, d.Location.Column, d.Message})
		}
	}
	have := map[CLIProblem]bool{}
	for _, c := range so.CLI {
		have[c] = true
	}
	for _, e := range so.Expected {
		if !have[e] {
			so.Missing = append(so.Missing, e)
		}
	}
	sort.Slice(so.Expected, func(i, j int) bool { return so.Expected[i].File+fmt.Sprint(so.Expected[i].Line) < so.Expected[j].File+fmt.Sprint(so.Expected[j].Line) })
	so.Stats["expected"] = len(so.Expected)
	so.Stats["cli_problems"] = len(so.CLI)
	lit := func(ps []CLIProblem) string {
		var parts []string
		for _, p := range ps {
			parts = append(parts, fmt.Sprintf("(%s, %d, %d, %s)", CoqString(p.File), p.Line, p.Column, CoqString(p.Message)))
		}
		return "[" + strings.Join(parts, ";\n ") + "]"
	}
	so.Coq = "Definition casesL : list caseL := [\nmkL " + lit(so.Expected) + "\n " + lit(so.CLI) + "\n].\n"
	return so
}
