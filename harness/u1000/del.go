package u1000

import (
	"fmt"
	"go/ast"
	"go/parser"
	"go/token"
	"go/types"
	"path/filepath"
	"strings"

	"honnef.co/go/tools/unused"
)

// DeletionReport is the outcome of really deleting every reported object and type-checking what is left.
type DeletionReport struct {
	Deleted  []string // "kind name @file:line"
	Skipped  []string // reported objects this deleter has no rule for (left in place)
	Errors   []string // type errors of the remaining package (other than unused imports and WriteOnly)
	WriteOnly []string // "undefined: x" where the remaining identifier is only assigned to (x = v, x++): rule 9.7
	Sources  []SrcFile
}

// DeleteReported removes every object in Result.Unused (functions, methods, package-level and local vars/consts/types,
// struct fields) from a fresh parse of the sources, then type-checks the remaining ASTs. Objects declared inside a
// removed declaration disappear with it. Unused-import errors are ignored.
func (p *Pkg) DeleteReported() DeletionReport {
	var rep DeletionReport
	fset := token.NewFileSet()
	var files []*ast.File
	for _, s := range p.Sources {
		f, err := parser.ParseFile(fset, filepath.Join(p.Dir, s.Name), s.Src, parser.SkipObjectResolution)
		if err != nil {
			rep.Errors = append(rep.Errors, "reparse: "+err.Error())
			return rep
		}
		files = append(files, f)
	}
	type key struct {
		file         string
		line, column int
	}
	want := map[key]unused.Object{}
	for _, o := range p.Result.Unused {
		want[key{o.Position.Filename, o.Position.Line, o.Position.Column}] = o
	}
	found := map[key]bool{}
	hit := func(id *ast.Ident) (unused.Object, bool) {
		if id == nil {
			return unused.Object{}, false
		}
		pos := fset.PositionFor(id.Pos(), false)
		k := key{pos.Filename, pos.Line, pos.Column}
		o, ok := want[k]
		if ok && (o.ShortName == id.Name) {
			found[k] = true
			return o, true
		}
		return o, false
	}
	note := func(o unused.Object) {
		rep.Deleted = append(rep.Deleted, fmt.Sprintf("%s %s @%s:%d", o.Kind, o.Name, filepath.Base(o.Position.Filename), o.Position.Line))
	}

	// genDecl rewrites a var/const/type declaration; returns false if nothing is left of it
	full := map[*ast.ValueSpec]bool{}
	var genDecl func(d *ast.GenDecl) bool
	var block func(list []ast.Stmt) []ast.Stmt
	var inspectFuncs func(n ast.Node)
	structType := func(st *ast.StructType) {
		if st == nil || st.Fields == nil {
			return
		}
		var keep []*ast.Field
		for _, fld := range st.Fields.List {
			if len(fld.Names) == 0 {
				if o, ok := hit(embeddedIdent(fld.Type)); ok {
					note(o)
					continue
				}
				keep = append(keep, fld)
				continue
			}
			var names []*ast.Ident
			for _, n := range fld.Names {
				if o, ok := hit(n); ok {
					note(o)
					continue
				}
				names = append(names, n)
			}
			if len(names) == 0 {
				continue
			}
			fld.Names = names
			keep = append(keep, fld)
		}
		st.Fields.List = keep
	}
	genDecl = func(d *ast.GenDecl) bool {
		var specs []ast.Spec
		for _, s := range d.Specs {
			switch s := s.(type) {
			case *ast.TypeSpec:
				if o, ok := hit(s.Name); ok {
					note(o)
					continue
				}
				inspectFuncs(s.Type)
				specs = append(specs, s)
			case *ast.ValueSpec:
				var del []bool
				n := 0
				for _, name := range s.Names {
					o, ok := hit(name)
					if ok {
						note(o)
						n++
					}
					del = append(del, ok)
				}
				switch {
				case n == 0:
					specs = append(specs, s)
				case n == len(s.Names):
					if d.Tok == token.CONST && d.Lparen.IsValid() {
						// inside a constant group the expression may be repeated implicitly by later constants;
						// decided below
						full[s] = true
						specs = append(specs, s)
					}
				case len(s.Values) == len(s.Names):
					var names []*ast.Ident
					var vals []ast.Expr
					for i := range s.Names {
						if !del[i] {
							names = append(names, s.Names[i])
							vals = append(vals, s.Values[i])
						}
					}
					s.Names, s.Values = names, vals
					specs = append(specs, s)
				default:
					for i := range s.Names {
						if del[i] {
							s.Names[i].Name = "_"
						}
					}
					specs = append(specs, s)
				}
				for _, v := range s.Values {
					inspectFuncs(v)
				}
				inspectFuncs(s.Type)
			default:
				specs = append(specs, s)
			}
		}
		if d.Tok == token.CONST && d.Lparen.IsValid() {
			// fully deleted specifications are removed, literally. A blank-only specification (`_`) that thereby loses
			// the expression it repeated implicitly goes with them (nobody can refer to it); a NAMED constant that is
			// kept but loses its expression is left as it is, and the type checker reports "missing init expr".
			var out []ast.Spec
			for _, sp := range specs {
				vs := sp.(*ast.ValueSpec)
				if full[vs] {
					continue
				}
				if len(out) == 0 && len(vs.Values) == 0 {
					blank := true
					for _, name := range vs.Names {
						if name.Name != "_" {
							blank = false
						}
					}
					if blank {
						continue
					}
				}
				out = append(out, vs)
			}
			specs = out
		}
		d.Specs = specs
		return len(specs) > 0
	}
	block = func(list []ast.Stmt) []ast.Stmt {
		var out []ast.Stmt
		for _, st := range list {
			if ds, ok := st.(*ast.DeclStmt); ok {
				if gd, ok := ds.Decl.(*ast.GenDecl); ok {
					if !genDecl(gd) {
						continue
					}
				}
			}
			out = append(out, st)
		}
		return out
	}
	// walk into function bodies and type expressions to handle local declarations and struct types anywhere
	inspectFuncs = func(n ast.Node) {
		if n == nil {
			return
		}
		ast.Inspect(n, func(c ast.Node) bool {
			switch c := c.(type) {
			case *ast.BlockStmt:
				c.List = block(c.List)
			case *ast.CaseClause:
				c.Body = block(c.Body)
			case *ast.CommClause:
				c.Body = block(c.Body)
			case *ast.StructType:
				structType(c)
			}
			return true
		})
	}
	for _, f := range files {
		var decls []ast.Decl
		for _, d := range f.Decls {
			switch d := d.(type) {
			case *ast.FuncDecl:
				if o, ok := hit(d.Name); ok {
					note(o)
					continue
				}
				inspectFuncs(d.Type)
				inspectFuncs(d.Body)
				decls = append(decls, d)
			case *ast.GenDecl:
				if d.Tok == token.IMPORT || genDecl(d) {
					decls = append(decls, d)
				}
			default:
				decls = append(decls, d)
			}
		}
		f.Decls = decls
		f.Comments = nil
	}
	for k, o := range want {
		if !found[k] {
			rep.Skipped = append(rep.Skipped, fmt.Sprintf("%s %s @%s:%d", o.Kind, o.Name, filepath.Base(o.Position.Filename), o.Position.Line))
		}
	}
	writePos := map[string]bool{}
	for _, r := range p.Refs() {
		if r.Write {
			writePos[fmt.Sprintf("%s:%d:%d", r.Pos.Filename, r.Pos.Line, r.Pos.Column)] = true
		}
	}
	conf := types.Config{
		Importer:  mapImporter(p.Imports),
		GoVersion: "go1.26",
		Error: func(err error) {
			msg := err.Error()
			if strings.Contains(msg, "imported and not used") || (strings.Contains(msg, "imported as") && strings.Contains(msg, "and not used")) {
				return
			}
			if te, ok := err.(types.Error); ok && strings.HasPrefix(te.Msg, "undefined: ") {
				pos := fset.PositionFor(te.Pos, false)
				if writePos[fmt.Sprintf("%s:%d:%d", pos.Filename, pos.Line, pos.Column)] {
					rep.WriteOnly = append(rep.WriteOnly, msg)
					return
				}
			}
			rep.Errors = append(rep.Errors, msg)
		},
	}
	conf.Check(p.Path, fset, files, newInfo())
	if len(rep.Errors) > 0 {
		rep.Sources = p.Sources
	}
	return rep
}

