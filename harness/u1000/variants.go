package u1000

// Variant merge (C17): packages with in-package and external tests, objects used only by tests.
// The per-variant unused.Result lists are obtained from the REAL runner (the same call lintcmd makes), the merged
// U1000 output from the REAL staticcheck binary built from the tree, with tests on (default) and -tests=false.

import (
	"bytes"
	"encoding/json"
	"fmt"
	"os"
	"os/exec"
	"path/filepath"
	"sort"
	"strings"

	"golang.org/x/tools/go/analysis"
	"golang.org/x/tools/go/packages"
	"honnef.co/go/tools/config"
	"honnef.co/go/tools/lintcmd"
	"honnef.co/go/tools/lintcmd/cache"
	"honnef.co/go/tools/lintcmd/runner"
	"honnef.co/go/tools/unused"
	"verifharness/hx"
)

type VariantRun struct {
	Tests    bool
	Cache    string // cold / warm CLI cache
	Variants []VariantResult
	CLI      []CLIProblem
	Stderr   string `json:",omitempty"`
}
type VariantResult struct {
	ID      string
	PkgPath string
	Allowed bool
	Used    int
	Unused  []string
}
type CLIProblem struct {
	File    string
	Line    int
	Column  int
	Message string
}
type VariantOutput struct {
	Runs       []VariantRun
	Module     []SrcFile // the generated module (paths relative to the module root)
	Coq        string    `json:"-"`
	Errors     []string
	Notes      []string // differences between the runner's loaded results and the direct analysis
	Stats      map[string]int
	CoqRunner  string   `json:"-"`
	CoqGraph   string   `json:"-"`
	GraphMerge []string // description of the graph-merge cases
}

func genVariantModule(r *hx.Rand, npkgs int) []SrcFile {
	var out []SrcFile
	out = append(out, SrcFile{"go.mod", "module example.com/v\n\ngo 1.22\n"})
	for k := 0; k < npkgs; k++ {
		pk := fmt.Sprintf("p%d", k)
		nf := 4 + r.Intn(5)
		nv := 1 + r.Intn(3)
		// objects: functions f0.., vars v0.., consts c0.., type t0 with fields and methods
		var objs []string
		for i := 0; i < nf; i++ {
			objs = append(objs, fmt.Sprintf("f%d()", i))
		}
		for i := 0; i < nv; i++ {
			objs = append(objs, fmt.Sprintf("_ = v%d", i), fmt.Sprintf("_ = c%d", i))
		}
		objs = append(objs, "_ = t0{}.a", "_ = t0{}.b", "t0{}.m0()", "t0{}.m1()", "var _ t1", "t1{}.m0()", "var _ t3")
		refs := func(n int, extra []string) string {
			var b strings.Builder
			pool := append(append([]string(nil), objs...), extra...)
			for i := 0; i < n; i++ {
				b.WriteString("\t" + pool[r.Intn(len(pool))] + "\n")
			}
			return b.String()
		}
		var a, bfile strings.Builder
		a.WriteString("package " + pk + "\n\n")
		bfile.WriteString("package " + pk + "\n\n")
		// t0.a and t2.a are always used; t1.a (same file, other line) and t3.a (other file, same line) never:
		// the merge key must keep same-named objects apart by file and by line
		a.WriteString("func F0() {\n\t_ = t0{}.a\n\t_ = t2{}.a\n" + refs(1+r.Intn(3), nil) + "}\n\n")
		if r.Bool() {
			a.WriteString("func init() {\n" + refs(r.Intn(3), nil) + "}\n\n")
		}
		for i := 0; i < nf; i++ {
			w := &a
			if r.Bool() {
				w = &bfile
			}
			fmt.Fprintf(w, "func f%d() {\n%s}\n\n", i, refs(r.Intn(3), nil))
		}
		for i := 0; i < nv; i++ {
			w := &a
			if r.Bool() {
				w = &bfile
			}
			fmt.Fprintf(w, "var v%d int\n\nconst c%d = %d\n\n", i, i, i)
		}
		bfile.WriteString("type t0 struct {\n\ta int\n\tb int\n}\n\nfunc (t0) m0() {}\n\nfunc (t0) m1() {\n" + refs(r.Intn(2), nil) + "}\n\n// t1 repeats names of t0 on other lines: the merge key must keep them apart\ntype t1 struct {\n\tx int\n\ta int\n}\n\nfunc (t1) m0() {}\n\n")
		la, lb := strings.Count(a.String(), "\n"), strings.Count(bfile.String(), "\n")
		for ; la < lb; la++ {
			a.WriteString("\n")
		}
		for ; lb < la; lb++ {
			bfile.WriteString("\n")
		}
		a.WriteString("type t2 struct {\n\ta int\n}\n")
		bfile.WriteString("type t3 struct {\n\ta int\n}\n")
		hasIn, hasExt := r.Chance(75), r.Chance(50)
		if k == 0 {
			hasIn = true
		}
		lineRefs := []string(nil)
		if hasIn {
			// objects used only by the in-package test, one before and one after a //line directive (the key is built
			// from the raw position, the problem is printed at the adjusted one), and a truly unused one after it
			bfile.WriteString("\nfunc beforeLine() {}\n\n//line p_tmpl.go:100\nfunc viaLine() {}\n\nfunc viaLineUnused() {}\n")
			lineRefs = []string{"beforeLine()", "viaLine()"}
		}
		out = append(out, SrcFile{pk + "/a.go", a.String()}, SrcFile{pk + "/b.go", bfile.String()})
		// unexported types with EXPORTED methods (sort.Interface style, pointer receivers, embedded in another unexported
		// struct), referenced only from the in-package test / only from the external test (through export_test.go)
		out = append(out, SrcFile{pk + "/c.go", "package " + pk + `

type byName []int

func (b byName) Len() int           { return len(b) }
func (b byName) Less(i, j int) bool { return b[i] < b[j] }
func (b byName) Swap(i, j int)      { b[i], b[j] = b[j], b[i] }
func (b byName) lower()             {}

type byPtr struct{ n int }

func (p *byPtr) Reset()     { p.n = 0 }
func (p *byPtr) Count() int { return p.n }

type inner struct{}

func (inner) Describe() string { return "" }

type outer struct{ inner }

type byExt []int

func (b byExt) Len() int           { return len(b) }
func (b byExt) Less(i, j int) bool { return false }
func (b byExt) Swap(i, j int)      {}
`})
		// NOT gofmt'd: declared names in column 1 inside var/type/const declarations (an indented control next to each),
		// used only from the in-package test
		out = append(out, SrcFile{pk + "/d.go", "package " + pk + "\n\nvar (\ncol1Var int\n\tindentedVar int\n)\n\ntype (\ncol1Type struct{}\n\tindentedType struct{}\n)\n\nconst (\ncol1Const = 1\n\n\tindentedConst = 2\n)\n"})
		if hasIn {
			lineRefs = append(lineRefs, "_ = byName{}", "_ = &byPtr{}", "_ = outer{}",
				"_ = col1Var", "_ = indentedVar", "var _ col1Type", "var _ indentedType", "_ = col1Const", "_ = indentedConst")
		}
		if hasIn {
			var t strings.Builder
			t.WriteString("package " + pk + "\n\nimport \"testing\"\n\n")
			t.WriteString("func TestA(t *testing.T) {\n\t" + strings.Join(lineRefs, "\n\t") + "\n" + refs(1+r.Intn(4), []string{"th0()", "_ = tv0"}) + "}\n\n")
			t.WriteString("func th0() {\n" + refs(r.Intn(2), nil) + "}\n\nfunc th1() {}\n\nvar tv0 int\n\n")
			if r.Bool() {
				// sink: a write in a test file counts as a use
				t.WriteString("func BenchmarkA(b *testing.B) {\n\tv0 = 1\n}\n\n")
			}
			out = append(out, SrcFile{pk + "/a_test.go", t.String()})
		}
		if hasExt {
			var t strings.Builder
			t.WriteString("package " + pk + "_test\n\nimport (\n\t\"testing\"\n\n\t\"example.com/v/" + pk + "\"\n)\n\n")
			t.WriteString("func TestX(t *testing.T) {\n\t" + pk + ".F0()\n\text0()\n\t_ = " + pk + ".NewByExt().Len()\n}\n\nfunc ext0() {}\n\nfunc ext1() {}\n\n")
			out = append(out, SrcFile{pk + "/x_test.go", t.String()})
			out = append(out, SrcFile{pk + "/export_test.go", "package " + pk + "\n\nfunc NewByExt() interface{ Len() int } { return byExt{} }\n"})
		}
		if r.Chance(20) {
			out = append(out, SrcFile{pk + "/staticcheck.conf", "checks = [\"all\", \"-U1000\"]\n"})
		}
	}
	return out
}

// RunVariants generates a module, obtains per-variant results through the runner and merged output through the CLI.
func RunVariants(r *hx.Rand, dir, staticcheck string, npkgs int) *VariantOutput {
	vo := &VariantOutput{Stats: map[string]int{}}
	mod := genVariantModule(r, npkgs)
	vo.Module = mod
	root := filepath.Join(dir, "v")
	for _, f := range mod {
		hx.WriteFile(filepath.Join(root, f.Name), f.Src)
	}
	var cases, rcases, gcases []string
	for _, tests := range []bool{true, false} {
		run := VariantRun{Tests: tests}
		// --- per-variant results from the real runner
		cdir := filepath.Join(dir, fmt.Sprintf("cache-%v", tests))
		os.MkdirAll(cdir, 0o777)
		c, err := cache.Open(cdir)
		if err != nil {
			vo.Errors = append(vo.Errors, err.Error())
			continue
		}
		rn, err := runner.New(config.Config{Checks: []string{"inherit"}}, c)
		if err != nil {
			vo.Errors = append(vo.Errors, err.Error())
			continue
		}
		rn.GoVersion = "module"
		pcfg := &packages.Config{Dir: root, Env: hx.GoEnv(), Tests: tests}
		results, err := rn.Run(pcfg, []*analysis.Analyzer{unused.Analyzer.Analyzer}, []string{"./..."})
		if err != nil {
			vo.Errors = append(vo.Errors, "runner: "+err.Error())
			continue
		}
		// ground truth: every variant analysed directly (unused.Analyzer.Run on the type-checked variant), independent
		// of the runner's serialisation and cache
		direct := map[string]*Pkg{}
		dpkgs, dskipped := LoadDirTests(root, tests, "./...")
		for _, sk := range dskipped {
			vo.Errors = append(vo.Errors, "direct load: "+sk)
		}
		for _, dp := range dpkgs {
			if err := dp.Analyze(); err != nil {
				vo.Errors = append(vo.Errors, fmt.Sprintf("direct analysis of %s: %v", dp.Name, err))
				continue
			}
			direct[dp.Name] = dp
		}
		if tests {
			gcases = append(gcases, graphMergeCases(direct, root, vo)...)
		}
		var vres, dres []string
		for _, res := range results {
			if res.Failed {
				vo.Errors = append(vo.Errors, fmt.Sprintf("package %s failed: %v", res.Package.ID, res.Errors))
				continue
			}
			if res.Skipped || !res.Initial {
				continue
			}
			data, err := res.Load()
			if err != nil {
				vo.Errors = append(vo.Errors, err.Error())
				continue
			}
			allowed := lintcmd.VerifC11FilterAnalyzerNames([]string{"U1000", "SA4006", "S1000", "ST1000"}, res.Config.Checks)["u1000"]
			vr := VariantResult{ID: res.Package.ID, PkgPath: res.Package.PkgPath, Allowed: allowed, Used: len(data.Unused.Used)}
			for _, o := range data.Unused.Unused {
				vr.Unused = append(vr.Unused, fmt.Sprintf("%s %s @%s:%d", o.Kind, o.Name, filepath.Base(o.Position.Filename), o.Position.Line))
			}
			run.Variants = append(run.Variants, vr)
			vres = append(vres, fmt.Sprintf("mkRes %s %v %s %s", CoqString(res.Package.PkgPath), allowed, coqObjs(data.Unused.Used, root), coqObjs(data.Unused.Unused, root)))
			if dp, ok := direct[res.Package.ID]; ok {
				dres = append(dres, fmt.Sprintf("mkRes %s %v %s %s", CoqString(res.Package.PkgPath), allowed, coqObjs(dp.Result.Used, root), coqObjs(dp.Result.Unused, root)))
				vo.Stats["variants_direct"]++
				if len(dp.Result.Used) != len(data.Unused.Used) || len(dp.Result.Unused) != len(data.Unused.Unused) {
					vo.Notes = append(vo.Notes, fmt.Sprintf("%s: runner result after Load has %d used / %d unused objects, direct analysis %d / %d",
						res.Package.ID, len(data.Unused.Used), len(data.Unused.Unused), len(dp.Result.Used), len(dp.Result.Unused)))
				}
			} else if !strings.HasSuffix(res.Package.ID, ".test") {
				vo.Errors = append(vo.Errors, "no direct analysis for variant "+res.Package.ID)
			}
			vo.Stats["variants"]++
			vo.Stats["unused_listed"] += len(data.Unused.Unused)
		}
		// --- the merged output of the real CLI
		args := []string{"-f", "json"}
		if !tests {
			args = append(args, "-tests=false")
		}
		args = append(args, "./...")
		for _, temp := range []string{"cold", "warm"} {
			cmd := exec.Command(staticcheck, args...)
			cmd.Dir = root
			cmd.Env = append(hx.GoEnv(), "STATICCHECK_CACHE="+filepath.Join(dir, fmt.Sprintf("cli-cache-%v", tests)))
			var stdout, stderr bytes.Buffer
			cmd.Stdout, cmd.Stderr = &stdout, &stderr
			err = cmd.Run()
			if ee, ok := err.(*exec.ExitError); err != nil && (!ok || ee.ExitCode() > 1) {
				vo.Errors = append(vo.Errors, fmt.Sprintf("staticcheck %v: %v: %s", args, err, stderr.String()))
				continue
			}
			run := run
			run.CLI = nil
			run.Cache = temp
			run.Stderr = stderr.String()
			var cli []string
			dec := json.NewDecoder(&stdout)
			for dec.More() {
				var d struct {
					Code     string
					Location struct {
						File   string
						Line   int
						Column int
					}
					Message string
				}
				if err := dec.Decode(&d); err != nil {
					vo.Errors = append(vo.Errors, "CLI output: "+err.Error())
					break
				}
				if d.Code == "compile" {
					vo.Errors = append(vo.Errors, "CLI reports a compile error: "+d.Message)
				}
				if d.Code != "U1000" {
					continue
				}
				run.CLI = append(run.CLI, CLIProblem{d.Location.File, d.Location.Line, d.Location.Column, d.Message})
				cli = append(cli, fmt.Sprintf("(%s, %d, %d, %s)", CoqString(strings.TrimPrefix(d.Location.File, root+"/")), d.Location.Line, d.Location.Column, CoqString(d.Message)))
				vo.Stats["cli_problems"]++
			}
			sort.Slice(run.CLI, func(i, j int) bool {
				a, b := run.CLI[i], run.CLI[j]
				if a.File != b.File {
					return a.File < b.File
				}
				return a.Line < b.Line
			})
			cases = append(cases, fmt.Sprintf("mkV [%s]\n [%s]", strings.Join(dres, ";\n "), strings.Join(cli, ";\n ")))
			rcases = append(rcases, fmt.Sprintf("mkV [%s]\n [%s]", strings.Join(vres, ";\n "), strings.Join(cli, ";\n ")))
			vo.Runs = append(vo.Runs, run)
		}
	}
	vo.Coq = "Definition casesV : list caseV := [\n" + strings.Join(cases, ";\n") + "\n].\n"
	vo.CoqGraph = "Definition casesG : list caseV := [\n" + strings.Join(gcases, ";\n") + "\n].\n"
	vo.CoqRunner = "Definition casesR : list caseV := [\n" + strings.Join(rcases, ";\n") + "\n].\n"
	return vo
}

func coqObjs(objs []unused.Object, root string) string {
	var parts []string
	for _, o := range objs {
		parts = append(parts, fmt.Sprintf("mkObj %s %d %d %s %s %s %d %d", CoqString(strings.TrimPrefix(o.Position.Filename, root+"/")), o.Position.Line, o.Position.Column, CoqString(o.Name), CoqString(o.Kind),
			CoqString(strings.TrimPrefix(o.DisplayPosition.Filename, root+"/")), o.DisplayPosition.Line, o.DisplayPosition.Column))
	}
	return "[" + strings.Join(parts, "; ") + "]"
}

// graphMergeCases merges the serialized graphs of the variants of each package with the REAL SerializedGraph.Merge
// (what internal/cmd/unused does) in both orders and renders, per order, a caseV: the per-variant results of the direct
// analysis against the objects Results() reports after the merge.
func graphMergeCases(direct map[string]*Pkg, root string, vo *VariantOutput) []string {
	groups := map[string][]*Pkg{}
	var paths []string
	for _, p := range direct {
		if _, ok := groups[p.Path]; !ok {
			paths = append(paths, p.Path)
		}
		groups[p.Path] = append(groups[p.Path], p)
	}
	sort.Strings(paths)
	// Merge traces every node to stderr
	saved := os.Stderr
	if devnull, err := os.OpenFile(os.DevNull, os.O_WRONLY, 0); err == nil {
		os.Stderr = devnull
		defer func() { os.Stderr = saved; devnull.Close() }()
	}
	var out []string
	for _, path := range paths {
		g := groups[path]
		if len(g) < 2 {
			continue
		}
		sort.Slice(g, func(i, j int) bool { return g[i].Name < g[j].Name })
		var vres []string
		for _, p := range g {
			vres = append(vres, fmt.Sprintf("mkRes %s true %s %s", CoqString(path), coqObjs(p.Result.Used, root), coqObjs(p.Result.Unused, root)))
		}
		for _, order := range [][]int{{0, 1}, {1, 0}} {
			var sg unused.SerializedGraph
			func() {
				defer func() {
					if r := recover(); r != nil {
						vo.Errors = append(vo.Errors, fmt.Sprintf("SerializedGraph.Merge panicked on %s: %v", path, r))
					}
				}()
				for _, i := range order {
					if i < len(g) {
						sg.Merge(g[i].FreshNodes())
					}
				}
			}()
			res := sg.Results()
			var probs []string
			for _, o := range res.Unused {
				probs = append(probs, fmt.Sprintf("(%s, %d, %d, %s)", CoqString(strings.TrimPrefix(o.DisplayPosition.Filename, root+"/")),
					o.DisplayPosition.Line, o.DisplayPosition.Column, CoqString(o.Kind+" "+o.Name+" is unused")))
			}
			out = append(out, fmt.Sprintf("mkV [%s]\n [%s]", strings.Join(vres, ";\n "), strings.Join(probs, ";\n ")))
			vo.GraphMerge = append(vo.GraphMerge, fmt.Sprintf("%s: variants %s merged in order %v: %d unused after Merge+Results", path, g[0].Name+" | "+g[1].Name, order, len(res.Unused)))
			vo.Stats["graph_merges"]++
		}
	}
	return out
}
