package u1000

// Random declaration graphs: functions, methods, fields, embedded fields, interfaces with implicit satisfaction,
// generics, const groups, struct conversions, aliases, closures, method values, local declarations, unsafe
// conversions, test files, generated files, ignore directives, linkname.
//
// Two phases: (1) declarations with empty bodies are generated and type-checked; (2) bodies and initialisers are
// filled with statements chosen with the help of go/types queries on the phase-1 package (so that every statement is
// well-typed by construction); the result is type-checked again and discarded if it does not compile.

import (
	"fmt"
	"go/types"
	"sort"
	"strings"

	"verifharness/hx"
)

type genDecl struct {
	text   string // source with %BODYn% / %INITn% placeholders
	file   int
	unsafe bool // needs import "unsafe"
}

type Gen struct {
	r        *hx.Rand
	nfiles   int
	decls    []*genDecl
	bodies   int            // number of body placeholders
	inits    []string       // type of each init placeholder ("" = int)
	fileName []string
	pkgName  string
	structs  []string
	twins    [][2]string
	ifaces   []string
	named    []string
	funcs    []string
	nlocal   int
	generic  bool
}

var methodPool = []struct{ name, params, results, call string }{
	{"m0", "()", "", "()"},
	{"m1", "()", " int", "()"},
	{"m2", "(x int)", "", "(1)"},
	{"M3", "()", "", "()"},
	{"m4", "()", " string", "()"},
	{"M5", "(x int)", " int", "(2)"},
}

func (g *Gen) pick(l []string) string { return l[g.r.Intn(len(l))] }

func (g *Gen) add(file int, text string) *genDecl {
	if file < 0 {
		file = g.r.Intn(g.nfiles)
	}
	d := &genDecl{text: text, file: file}
	g.decls = append(g.decls, d)
	return d
}

func (g *Gen) body() string {
	g.bodies++
	return fmt.Sprintf("%%BODY%d%%", g.bodies-1)
}

func (g *Gen) initExpr(typ string) string {
	g.inits = append(g.inits, typ)
	return fmt.Sprintf("%%INIT%d%%", len(g.inits)-1)
}

// fieldType picks a type for a struct field / parameter among what has been declared so far.
func (g *Gen) someType(valueStructs []string) string {
	switch g.r.Intn(12) {
	case 0, 1:
		return "int"
	case 2:
		return "string"
	case 3:
		if len(g.structs) > 0 {
			return "*" + g.pick(g.structs)
		}
	case 4:
		if len(valueStructs) > 0 {
			return g.pick(valueStructs)
		}
	case 5:
		if len(g.structs) > 0 {
			return "[]" + g.pick(g.structs)
		}
	case 6:
		if len(g.ifaces) > 0 {
			return g.pick(g.ifaces)
		}
	case 7:
		if len(g.named) > 0 {
			return g.pick(g.named)
		}
	case 8:
		return "func()"
	case 9:
		if g.generic {
			return "G0[int]"
		}
	case 10:
		if len(valueStructs) > 0 {
			return "map[string]" + g.pick(valueStructs)
		}
	}
	return "int"
}

// GenPackage returns the sources of a random package. withTest adds an in-package _test.go file.
func GenPackage(r *hx.Rand, name string, size int, withTest bool) []SrcFile {
	for try := 0; ; try++ {
		g := &Gen{r: r.Fork(), pkgName: "p"}
		if g.r.Chance(15) {
			g.pkgName = "main"
		}
		srcs, ok := g.generate(size, withTest)
		if ok {
			return srcs
		}
		if try > 20 {
			panic("generator keeps producing packages that do not compile: " + name)
		}
	}
}

func (g *Gen) generate(size int, withTest bool) ([]SrcFile, bool) {
	r := g.r
	g.nfiles = 1 + r.Intn(3)
	for i := 0; i < g.nfiles; i++ {
		g.fileName = append(g.fileName, fmt.Sprintf("f%d.go", i))
	}
	testFile := -1
	if withTest {
		testFile = g.nfiles
		g.fileName = append(g.fileName, "f9_test.go")
		g.nfiles++
	}
	genFile := -1
	if r.Chance(12) && g.nfiles > 1 {
		genFile = r.Intn(g.nfiles)
	}
	g.generic = r.Chance(60)

	// ---- named non-struct types, interfaces, structs
	nNamed := r.Intn(3)
	for i := 0; i < nNamed; i++ {
		n := fmt.Sprintf("t%d", i)
		if r.Chance(25) {
			n = fmt.Sprintf("T%d", i)
		}
		g.named = append(g.named, n)
	}
	nIface := r.Intn(4)
	for i := 0; i < nIface; i++ {
		n := fmt.Sprintf("i%d", i)
		if r.Chance(25) {
			n = fmt.Sprintf("I%d", i)
		}
		var ms []string
		for _, m := range methodPool {
			if r.Chance(30) {
				ms = append(ms, "\t"+m.name+m.params+m.results)
			}
		}
		if i > 0 && r.Chance(35) {
			ms = append(ms, "\t"+g.ifaces[r.Intn(i)])
		}
		g.add(-1, fmt.Sprintf("type %s interface {\n%s\n}", n, strings.Join(ms, "\n")))
		g.ifaces = append(g.ifaces, n)
	}
	if g.generic {
		g.add(-1, "type c0 interface {\n\t~int | ~string\n}")
		flds := "\tv T\n\tw int\n"
		g.add(-1, "type G0[T any] struct {\n"+flds+"}")
		g.add(-1, "func (g G0[T]) m0() {"+g.body()+"}")
		g.add(-1, "func (g *G0[T]) set(v T) { g.v = v }")
		if r.Chance(50) {
			g.add(-1, "func (g *G0[T]) get() T { return g.v }")
		}
		g.add(-1, "type g1[T c0] []T")
		g.add(-1, "func gf0[T any](x T) T {"+g.body()+"\n\treturn x\n}")
		g.add(-1, "func gf1[T c0, U any](x T, y U) {"+g.body()+"}")
		if len(g.ifaces) > 0 {
			g.add(-1, fmt.Sprintf("func gf2[T %s](x T) { _ = x }", g.ifaces[0]))
		}
	}
	for i, n := range g.named {
		var def string
		switch r.Intn(4) {
		case 0:
			def = "int"
		case 1:
			def = "[]int"
		case 2:
			def = "func() int"
		default:
			def = "map[string]int"
		}
		if i > 0 && r.Chance(30) {
			def = "[]" + g.named[0]
		}
		g.add(-1, fmt.Sprintf("type %s %s", n, def))
	}
	nStruct := 1 + r.Intn(size/3+1)
	var valueOK []string
	for i := 0; i < nStruct; i++ {
		n := fmt.Sprintf("s%d", i)
		if r.Chance(25) {
			n = fmt.Sprintf("S%d", i)
		}
		var flds []string
		nf := r.Intn(4)
		for k := 0; k < nf; k++ {
			fn := fmt.Sprintf("s%da%d", i, k)
			if r.Chance(20) {
				fn = fmt.Sprintf("S%dA%d", i, k)
			}
			if r.Chance(6) {
				fn = "_"
			}
			flds = append(flds, "\t"+fn+" "+g.someType(valueOK))
		}
		if len(valueOK) > 0 && r.Chance(35) {
			e := g.pick(valueOK)
			if r.Chance(30) {
				e = "*" + e
			}
			flds = append(flds, "\t"+e)
		}
		if len(g.ifaces) > 0 && r.Chance(15) {
			flds = append(flds, "\t"+g.pick(g.ifaces))
		}
		r0 := hx.NewRand(r.Uint64())
		for k := len(flds) - 1; k > 0; k-- {
			j := r0.Intn(k + 1)
			flds[k], flds[j] = flds[j], flds[k]
		}
		body := strings.Join(flds, "\n")
		if len(flds) > 0 {
			body = "\n" + body + "\n"
		}
		doc := ""
		if r.Chance(5) {
			doc = "//lint:ignore U1000 kept on purpose\n"
		}
		g.add(-1, fmt.Sprintf("%stype %s struct {%s}", doc, n, body))
		g.structs = append(g.structs, n)
		valueOK = append(valueOK, n)
		if r.Chance(30) {
			// twin with an identical field list (convertible), or a defined type over it
			tn := fmt.Sprintf("s%dx", i)
			if r.Chance(50) {
				g.add(-1, fmt.Sprintf("type %s struct {%s}", tn, body))
			} else {
				g.add(-1, fmt.Sprintf("type %s %s", tn, n))
			}
			g.structs = append(g.structs, tn)
			valueOK = append(valueOK, tn)
			g.twins = append(g.twins, [2]string{n, tn})
		}
		// methods
		for _, m := range methodPool {
			if r.Chance(30) {
				recv := n
				if r.Chance(40) {
					recv = "*" + n
				}
				rn := "r "
				if r.Chance(15) {
					rn = ""
				}
				ret := ""
				switch m.results {
				case " int":
					ret = "\n\treturn 0\n"
				case " string":
					ret = "\n\treturn \"\"\n"
				}
				g.add(-1, fmt.Sprintf("func (%s%s) %s%s%s {%s%s}", rn, recv, m.name, m.params, m.results, g.body(), ret))
			}
		}
	}
	for i, n := range g.named {
		if r.Chance(50) {
			m := methodPool[r.Intn(len(methodPool))]
			ret := ""
			switch m.results {
			case " int":
				ret = "\n\treturn 0\n"
			case " string":
				ret = "\n\treturn \"\"\n"
			}
			g.add(-1, fmt.Sprintf("func (r %s) %s%s%s {%s%s}", n, m.name, m.params, m.results, g.body(), ret))
		}
		_ = i
	}
	// mutually embedding structs (through pointers); the exported field lives in ONE member only, a third struct
	// embeds the other member and never selects it explicitly (rule 6.5 must see through the cycle in every
	// declaration order). These types are kept out of the statement pools so that only rule 6.5 keeps them alive.
	nCyc := 0
	if r.Chance(45) {
		nCyc = 1 + r.Intn(2)
	}
	for c := 0; c < nCyc; c++ {
		a, b, h := fmt.Sprintf("cy%da", c), fmt.Sprintf("cy%db", c), fmt.Sprintf("cy%dh", c)
		g.add(-1, fmt.Sprintf("type %s struct {\n\t*%s\n\tcy%dn int\n}", a, b, c))
		g.add(-1, fmt.Sprintf("type %s struct {\n\t*%s\n\tCy%dX int\n}", b, a, c))
		emb := a
		if r.Chance(30) {
			emb = "*" + a
		}
		g.add(-1, fmt.Sprintf("type %s struct {\n\t%s\n}", h, emb))
		switch r.Intn(3) {
		case 0:
			g.add(-1, "var _ "+h)
		case 1:
			g.add(-1, fmt.Sprintf("var _ = %s{}", h))
		default:
			g.add(-1, fmt.Sprintf("func Cy%dUse() { var x %s; _ = x }", c, h))
		}
		if r.Chance(25) {
			// a three-member cycle
			m := fmt.Sprintf("cy%dm", c)
			g.add(-1, fmt.Sprintf("type %s struct {\n\t*%s\n\t*%s\n}", m, a, b))
		}
	}
	// identically spelled interface literals with different meaning: the same text `interface{ cyput(T) }` under type
	// parameters with different constraints (as generic named interface, as literal in a generic function body, as
	// constraint), and a used type whose unexported method satisfies only one of them (rule 8.2 must not depend on
	// which spelling is met first)
	if r.Chance(45) {
		cons := []string{"~int", "~string", "~float64"}
		for k := len(cons) - 1; k > 0; k-- {
			j := r.Intn(k + 1)
			cons[k], cons[j] = cons[j], cons[k]
		}
		nI := 2 + r.Intn(2)
		for c := 0; c < nI; c++ {
			switch r.Intn(3) {
			case 0:
				g.add(-1, fmt.Sprintf("type cyi%d[T %s] interface {\n\tcyput(T)\n}", c, cons[c]))
			case 1:
				g.add(-1, fmt.Sprintf("func cyif%d[T %s]() {\n\tvar x interface{ cyput(T) }\n\t_ = x\n}", c, cons[c]))
				g.add(-1, fmt.Sprintf("var _ = cyif%d[%s]", c, strings.TrimPrefix(cons[c], "~")))
			default:
				g.add(-1, fmt.Sprintf("func cyig%d[T %s, U interface{ cyput(T) }](u U) {}", c, cons[c]))
			}
		}
		pick := r.Intn(nI)
		arg := strings.TrimPrefix(cons[pick], "~")
		g.add(-1, "type cyn struct{}")
		if r.Bool() {
			g.add(-1, fmt.Sprintf("func (cyn) cyput(x %s) {}", arg))
			g.add(-1, "var _ cyn")
		} else {
			// the satisfying type is used ONLY through the matching interface, which is never instantiated explicitly
			// (through another type parameter and inference): deleting cyput must not be suggested
			g.add(-1, fmt.Sprintf("type cyisink[T %s] interface {\n\tcyput(T)\n}", cons[pick]))
			g.add(-1, fmt.Sprintf("func cyfeed[T %s, K cyisink[T]](k K) {}", cons[pick]))
			g.add(-1, fmt.Sprintf("func (*cyn) cyput(x %s) {}", arg))
			g.add(-1, fmt.Sprintf("func CyFeedUse() {\n\tcyfeed[%s](&cyn{})\n}", arg))
		}
	}
	// interface literals over function-local aliases of the same name but different meaning
	if r.Chance(35) {
		g.add(-1, "func CyLocA() {\n\ttype cyunit = int\n\tvar x interface{ cyset(cyunit) }\n\t_ = x\n}")
		g.add(-1, "func CyLocB() {\n\ttype cyunit = string\n\tvar x interface{ cyset(cyunit) } = &cycell{}\n\t_ = x\n}")
		g.add(-1, "type cycell struct{}")
		g.add(-1, "func (*cycell) cyset(s string) {}")
	}
	// the same struct type in unkeyed literals at several sites, some of them in dead objects; fields referenced
	// nowhere else
	if r.Chance(50) {
		g.add(-1, "type cyuk struct {\n\tcyuka int\n\tcyukb string\n}")
		nd := 1 + r.Intn(3)
		for i := 0; i < nd; i++ {
			switch r.Intn(3) {
			case 0:
				g.add(-1, fmt.Sprintf("func cyukdead%d() {\n\t_ = cyuk{%d, \"d\"}\n}", i, i))
			case 1:
				g.add(-1, fmt.Sprintf("var cyuktab%d = []cyuk{{%d, \"t\"}, {7, \"u\"}}", i, i))
			default:
				g.add(-1, fmt.Sprintf("func cyukouter%d() {\n\tcyukinner%d()\n}", i, i))
				g.add(-1, fmt.Sprintf("func cyukinner%d() {\n\t_ = func() cyuk { return cyuk{%d, \"c\"} }\n}", i, i))
			}
		}
		if r.Chance(85) {
			if r.Bool() {
				g.add(-1, "func CyUkLive() cyuk {\n\treturn cyuk{9, \"live\"}\n}")
			} else {
				g.add(-1, "var _ = cyuk{8, \"live\"}")
			}
		}
	}
	// embedding through type aliases of types with pointer-receiver methods (by value and by pointer, one and two
	// levels, alias of a generic instance); the outer type has no pointer method of its own and is used only through an
	// interface that *outer satisfies (rule 6.3 / 8.2 on the method set of *outer)
	if r.Chance(50) {
		inner, alias := "cypi", "cypa"
		if r.Chance(35) {
			g.add(-1, "type cypg[T any] struct {\n\tv T\n}")
			g.add(-1, "func (p *cypg[T]) cypm() {}")
			g.add(-1, "type cypa = cypg[int]")
			inner = "cypg"
		} else {
			g.add(-1, "type cypi struct {\n\tn int\n}")
			g.add(-1, "func (p *cypi) cypm() {}")
			g.add(-1, "type cypa = cypi")
		}
		_ = inner
		emb := alias
		if r.Chance(20) {
			emb = "*" + alias
		}
		outerEmb := emb
		if r.Chance(40) {
			g.add(-1, "type cypmid struct {\n\t"+emb+"\n\tk int\n}")
			outerEmb = "cypmid"
		}
		g.add(-1, "type cypo struct {\n\t"+outerEmb+"\n}")
		if r.Chance(25) {
			g.add(-1, "func (cypo) cypv() {}") // a value method does not change the picture
		}
		g.add(-1, "type cypif interface {\n\tcypm()\n}")
		switch r.Intn(3) {
		case 0:
			g.add(-1, "var _ cypif = &cypo{}")
		case 1:
			g.add(-1, "func CypUse() cypif { return &cypo{} }")
		default:
			g.add(-1, "func CypUse() {\n\tvar i cypif = new(cypo)\n\ti.cypm()\n}")
		}
	}
	// unkeyed ELIDED pointer literals: the inner literal's type is *T inside []*T / [N]*T / map[K]*T
	if r.Chance(45) {
		g.add(-1, "type cyel struct {\n\tcyela int\n\tcyelb string\n}")
		switch r.Intn(4) {
		case 0:
			g.add(-1, "var _ = []*cyel{{1, \"x\"}, {2, \"y\"}}")
		case 1:
			g.add(-1, "var _ = [2]*cyel{{1, \"x\"}}")
		case 2:
			g.add(-1, "var _ = map[string]*cyel{\"k\": {1, \"x\"}}")
		default:
			g.add(-1, "func CyElUse() []*cyel {\n\treturn []*cyel{{3, \"z\"}}\n}")
		}
	}
	// embedded generic instances with 1, 2 or 3 type arguments whose arguments are types used nowhere else
	if r.Chance(45) {
		n := 1 + r.Intn(3)
		var tps, flds, args []string
		for i := 0; i < n; i++ {
			tps = append(tps, fmt.Sprintf("T%d any", i))
			flds = append(flds, fmt.Sprintf("\tCyF%d T%d", i, i))
			args = append(args, fmt.Sprintf("cyarg%d", i))
			g.add(-1, fmt.Sprintf("type cyarg%d %s", i, []string{"int", "string", "struct{}"}[r.Intn(3)]))
		}
		g.add(-1, fmt.Sprintf("type cygen[%s] struct {\n%s\n}", strings.Join(tps, ", "), strings.Join(flds, "\n")))
		emb := fmt.Sprintf("cygen[%s]", strings.Join(args, ", "))
		if r.Chance(30) {
			emb = "*" + emb
		}
		g.add(-1, "type cygh struct {\n\t"+emb+"\n}")
		g.add(-1, "var _ cygh")
	}
	// aliases
	if r.Chance(50) {
		g.add(-1, "type a0 = "+g.pick(g.structs))
		g.structs = append(g.structs, "a0")
	}
	if r.Chance(25) {
		g.add(-1, "type a1 = *"+g.pick(g.structs))
	}
	if g.generic && r.Chance(30) {
		g.add(-1, "type a2 = G0[string]")
	}
	if len(g.ifaces) > 0 && r.Chance(25) {
		g.add(-1, "type a3 = "+g.pick(g.ifaces))
	}

	// ---- constants
	nConst := r.Intn(4)
	for i := 0; i < nConst; i++ {
		n := fmt.Sprintf("c%d", i)
		if r.Chance(20) {
			n = fmt.Sprintf("C%d", i)
		}
		typ := ""
		if len(g.named) > 0 && r.Chance(20) {
			typ = "" // typed constants need an integer kind; keep them untyped
		}
		g.add(-1, fmt.Sprintf("const %s%s = %d", n, typ, i+1))
	}
	nGroups := r.Intn(3)
	for gi := 0; gi < nGroups; gi++ {
		var lines []string
		k := 2 + r.Intn(3)
		for j := 0; j < k; j++ {
			n := fmt.Sprintf("k%d_%d", gi, j)
			if r.Chance(10) {
				n = "_"
			}
			if j == 0 {
				lines = append(lines, "\t"+n+" = iota")
			} else if r.Chance(20) {
				lines = append(lines, "", "\t"+n+" = iota + 10") // blank line: a new group for rule 10.1
			} else {
				lines = append(lines, "\t"+n)
			}
		}
		g.add(-1, "const (\n"+strings.Join(lines, "\n")+"\n)")
	}

	// const groups in which a NON-first specification spans several lines and is followed by implicit repetitions;
	// only a late member is referenced (rule 10.1: the group is one unit whatever the layout of its specifications)
	nML := 0
	if r.Chance(55) {
		nML = 1 + r.Intn(2)
	}
	for c := 0; c < nML; c++ {
		typ := ""
		if r.Chance(30) {
			if c == 0 {
				g.add(-1, "type cyenum int")
			}
			if c == 0 {
				typ = " cyenum"
			}
		}
		multi := []string{
			"iota *\n\t\t10",
			"int(\n\t\tiota,\n\t) + 1",
			"iota + // scaled\n\t\t// further down\n\t\t2",
			"(iota +\n\t\t1) *\n\t\t3",
		}[r.Intn(4)]
		if typ != "" {
			multi = strings.Replace(multi, "int(", "cyenum(", 1)
		}
		var lines []string
		first := fmt.Sprintf("\tcyk%d_0%s = iota", c, typ)
		lines = append(lines, first)
		pos := 1
		if r.Chance(30) {
			lines = append(lines, fmt.Sprintf("\tcyk%d_1", c))
			pos = 2
		}
		if r.Chance(25) {
			// the multi-line specification opens a second group
			lines = append(lines, "")
		}
		lines = append(lines, fmt.Sprintf("\tcyk%d_%d%s = %s", c, pos, typ, multi))
		nrep := 1 + r.Intn(3)
		for j := 0; j < nrep; j++ {
			lines = append(lines, fmt.Sprintf("\tcyk%d_%d", c, pos+1+j))
		}
		last := fmt.Sprintf("cyk%d_%d", c, pos+nrep)
		block := "const (\n" + strings.Join(lines, "\n") + "\n)"
		if r.Chance(25) {
			// the same inside a function
			g.add(-1, fmt.Sprintf("func CyK%d() int {\n\t%s\n\treturn int(%s)\n}", c, strings.ReplaceAll(block, "\n", "\n\t"), last))
		} else {
			g.add(-1, block)
			g.add(-1, fmt.Sprintf("var _ = %s", last))
		}
	}

	// ---- functions
	nFunc := 2 + r.Intn(size)
	for i := 0; i < nFunc; i++ {
		n := fmt.Sprintf("f%d", i)
		if r.Chance(20) {
			n = fmt.Sprintf("F%d", i)
		}
		var params []string
		np := r.Intn(3)
		for k := 0; k < np; k++ {
			pn := fmt.Sprintf("p%d ", k)
			if r.Chance(15) {
				pn = "_ "
			}
			params = append(params, pn+g.someType(valueOK))
		}
		res, ret := "", ""
		if r.Chance(35) {
			t := g.someType(valueOK)
			res = " " + t
			ret = "\n\treturn *new(" + t + ")\n"
		}
		doc := ""
		if r.Chance(4) {
			doc = "//lint:ignore U1000 kept on purpose\n"
		}
		g.add(-1, fmt.Sprintf("%sfunc %s(%s)%s {%s%s}", doc, n, strings.Join(params, ", "), res, g.body(), ret))
		g.funcs = append(g.funcs, n)
	}
	g.add(-1, "func pair() (int, string) {"+g.body()+"\n\treturn 0, \"\"\n}")
	nInit := r.Intn(3)
	for i := 0; i < nInit; i++ {
		g.add(-1, "func init() {"+g.body()+"}")
	}
	if g.pkgName == "main" {
		g.add(-1, "func main() {"+g.body()+"}")
	}
	if r.Chance(8) {
		g.add(-1, "func _() {"+g.body()+"}")
	}

	// ---- variables
	nVar := r.Intn(5)
	for i := 0; i < nVar; i++ {
		n := fmt.Sprintf("v%d", i)
		if r.Chance(20) {
			n = fmt.Sprintf("V%d", i)
		}
		t := g.someType(valueOK)
		switch r.Intn(3) {
		case 0:
			g.add(-1, fmt.Sprintf("var %s %s", n, t))
		default:
			g.add(-1, fmt.Sprintf("var %s %s = %s", n, t, g.initExpr(t)))
		}
	}
	if r.Chance(40) {
		g.add(-1, "var w0, w1 = pair()")
	}
	if r.Chance(30) {
		g.add(-1, "var w2, w3 = 1, "+g.initExpr("int"))
	}
	nBlank := 1 + r.Intn(2)
	for i := 0; i < nBlank; i++ {
		g.add(-1, "var _ = "+g.initExpr("int"))
	}
	if r.Chance(30) {
		g.add(-1, "var (\n\tx0 = "+g.initExpr("int")+"\n\tx1 int\n)")
	}
	if r.Chance(10) && len(g.funcs) > 0 {
		d := g.add(-1, fmt.Sprintf("//go:linkname %s runtime.%s_linked\nvar lk0 int", g.pick(g.funcs), g.pick(g.funcs)))
		d.unsafe = true
	}
	// test-only declarations
	if testFile >= 0 {
		g.add(testFile, "func init() {"+g.body()+"}")
		g.add(testFile, "func testHelper0() {"+g.body()+"}")
		if r.Chance(60) {
			g.add(testFile, "func testHelper1() int {"+g.body()+"\n\treturn 0\n}")
		}
		if r.Chance(50) {
			g.add(testFile, "var _ = "+g.initExpr("int"))
		}
	}

	// ---- phase 1: type-check declarations with empty bodies
	usesUnsafe := make([]bool, g.nfiles)
	render := func(fill func(kind string, i int, file int) string) []SrcFile {
		per := make([][]string, g.nfiles)
		for _, d := range g.decls {
			t := d.text
			for strings.Contains(t, "%BODY") || strings.Contains(t, "%INIT") {
				a := strings.Index(t, "%BODY")
				kind := "BODY"
				if b := strings.Index(t, "%INIT"); a < 0 || (b >= 0 && b < a) {
					a, kind = b, "INIT"
				}
				e := a + 1 + strings.Index(t[a+1:], "%")
				var idx int
				fmt.Sscanf(t[a+1+4:e], "%d", &idx)
				t = t[:a] + fill(kind, idx, d.file) + t[e+1:]
			}
			if d.unsafe {
				usesUnsafe[d.file] = true
			}
			per[d.file] = append(per[d.file], t)
		}
		var out []SrcFile
		for i := 0; i < g.nfiles; i++ {
			hdr := ""
			if i == genFile {
				hdr = "// Code generated by hc07. DO NOT EDIT.\n\n"
			}
			hdr += "package " + g.pkgName + "\n\n"
			if usesUnsafe[i] {
				hdr += "import \"unsafe\"\n\nvar _ unsafe.Pointer\n\n"
			}
			out = append(out, SrcFile{Name: g.fileName[i], Src: hdr + strings.Join(per[i], "\n\n") + "\n"})
		}
		return out
	}
	// shuffle declaration order (deterministically)
	for k := len(g.decls) - 1; k > 0; k-- {
		j := r.Intn(k + 1)
		g.decls[k], g.decls[j] = g.decls[j], g.decls[k]
	}
	phase1 := render(func(kind string, i, file int) string {
		if kind == "INIT" {
			t := g.inits[i]
			return "*new(" + t + ")"
		}
		return ""
	})
	p1, errs, _ := Check("gen", "example.com/gen", "/nonexistent", phase1, nil)
	if len(errs) > 0 {
		return nil, false
	}
	// ---- phase 2
	sg := &stmtGen{g: g, r: r, pkg: p1.Types}
	sg.collect()
	fileUnsafe := make([]bool, g.nfiles)
	for i := range fileUnsafe {
		fileUnsafe[i] = r.Chance(25)
	}
	bodies := map[string]string{}
	phase2 := render(func(kind string, i, file int) string {
		key := fmt.Sprintf("%s%d", kind, i)
		if s, ok := bodies[key]; ok {
			return s
		}
		var s string
		if kind == "INIT" {
			s = sg.initExpr(g.inits[i], fileUnsafe[file], file == testFile)
		} else {
			n := r.Intn(4)
			var lines []string
			for k := 0; k < n; k++ {
				lines = append(lines, "\t"+sg.stmt(2, fileUnsafe[file], file == testFile))
			}
			if len(lines) > 0 {
				s = "\n" + strings.Join(lines, "\n") + "\n"
			}
		}
		bodies[key] = s
		return s
	})
	for i := range fileUnsafe {
		if fileUnsafe[i] {
			usesUnsafe[i] = true
		}
	}
	phase2 = render(func(kind string, i, file int) string { return bodies[fmt.Sprintf("%s%d", kind, i)] })
	_, errs, soft := Check("gen", "example.com/gen", "/nonexistent", phase2, nil)
	if len(errs) > 0 || len(soft) > 0 {
		if debugGen {
			fmt.Println("generator: discarded package:", errs, soft)
			for _, f := range phase2 {
				fmt.Println("----", f.Name)
				fmt.Println(f.Src)
			}
		}
		return nil, false
	}
	return phase2, true
}

var debugGen = false

// ------------------------------------------------------------------ statements

type stmtGen struct {
	g      *Gen
	r      *hx.Rand
	pkg    *types.Package
	types  []*types.TypeName // non-generic named types and aliases
	strs   []*types.TypeName // with struct underlying
	ifs    []*types.TypeName // interfaces with methods only (usable as ordinary types)
	funcs  []*types.Func     // non-generic package-level functions (not init/main/_)
	vars   []*types.Var
	consts []*types.Const
	fields []string // all field names
	nloc   int
}

func ts(t types.Type) string { return types.TypeString(t, func(*types.Package) string { return "" }) }
func zero(t types.Type) string { return "*new(" + ts(t) + ")" }

func (s *stmtGen) collect() {
	sc := s.pkg.Scope()
	names := sc.Names()
	sort.Strings(names)
	fieldSet := map[string]bool{}
	for _, n := range names {
		switch o := sc.Lookup(n).(type) {
		case *types.TypeName:
			if strings.HasPrefix(n, "cy") {
				continue // embedding cycles: referenced only through rule 6.5
			}
			if nt, ok := types.Unalias(o.Type()).(*types.Named); ok && nt.TypeParams().Len() > 0 && nt.TypeArgs().Len() == 0 {
				continue // uninstantiated generic
			}
			if u, ok := o.Type().Underlying().(*types.Interface); ok && !u.IsMethodSet() {
				continue // constraint interface
			}
			if _, ok := types.Unalias(o.Type()).(*types.Named); !ok {
				if _, ok := types.Unalias(o.Type()).(*types.Pointer); !ok {
					continue
				}
			}
			s.types = append(s.types, o)
			switch u := o.Type().Underlying().(type) {
			case *types.Struct:
				s.strs = append(s.strs, o)
				for i := 0; i < u.NumFields(); i++ {
					if u.Field(i).Name() != "_" {
						fieldSet[u.Field(i).Name()] = true
					}
				}
			case *types.Interface:
				if u.IsMethodSet() {
					s.ifs = append(s.ifs, o)
				}
			}
		case *types.Func:
			sig := o.Type().(*types.Signature)
			if sig.TypeParams().Len() == 0 && n != "init" && n != "main" && n != "_" {
				s.funcs = append(s.funcs, o)
			}
		case *types.Var:
			s.vars = append(s.vars, o)
		case *types.Const:
			if strings.HasPrefix(n, "cy") {
				continue
			}
			s.consts = append(s.consts, o)
		}
	}
	for f := range fieldSet {
		s.fields = append(s.fields, f)
	}
	sort.Strings(s.fields)
}

func (s *stmtGen) local() string { s.nloc++; return fmt.Sprintf("l%d", s.nloc) }

func (s *stmtGen) args(sig *types.Signature) string {
	var a []string
	for i := 0; i < sig.Params().Len(); i++ {
		a = append(a, zero(sig.Params().At(i).Type()))
	}
	return strings.Join(a, ", ")
}

func (s *stmtGen) callStmt(expr string, sig *types.Signature) string {
	call := expr + "(" + s.args(sig) + ")"
	switch sig.Results().Len() {
	case 0:
		return call
	case 1:
		if s.r.Bool() {
			return "_ = " + call
		}
		return call
	default:
		return "_, _ = " + call
	}
}

func (s *stmtGen) initExpr(typ string, unsafeOK, inTest bool) string {
	if typ == "int" {
		switch s.r.Intn(5) {
		case 0:
			if len(s.consts) > 0 {
				c := s.consts[s.r.Intn(len(s.consts))]
				if b, ok := c.Type().Underlying().(*types.Basic); ok && b.Info()&types.IsInteger != 0 {
					return "int(" + c.Name() + ")"
				}
			}
		case 1:
			return "func() int {\n\t" + s.stmt(1, unsafeOK, inTest) + "\n\treturn 0\n}()"
		case 2:
			for _, f := range s.funcs {
				sig := f.Type().(*types.Signature)
				if sig.Results().Len() == 1 && ts(sig.Results().At(0).Type()) == "int" && s.r.Chance(50) {
					return f.Name() + "(" + s.args(sig) + ")"
				}
			}
		}
		return fmt.Sprintf("%d", s.r.Intn(9))
	}
	switch s.r.Intn(3) {
	case 0:
		return "func() " + typ + " {\n\t" + s.stmt(1, unsafeOK, inTest) + "\n\treturn *new(" + typ + ")\n}()"
	case 1:
		for _, f := range s.funcs {
			sig := f.Type().(*types.Signature)
			if sig.Results().Len() == 1 && ts(sig.Results().At(0).Type()) == typ && s.r.Chance(60) {
				return f.Name() + "(" + s.args(sig) + ")"
			}
		}
	}
	return "*new(" + typ + ")"
}

// stmt produces one well-typed statement. depth bounds nesting of closures.
func (s *stmtGen) stmt(depth int, unsafeOK, inTest bool) string {
	r := s.r
	for tries := 0; tries < 30; tries++ {
		switch r.Intn(24) {
		case 0, 1: // call a function
			if len(s.funcs) == 0 {
				continue
			}
			f := s.funcs[r.Intn(len(s.funcs))]
			return s.callStmt(f.Name(), f.Type().(*types.Signature))
		case 2: // read a variable
			if len(s.vars) == 0 {
				continue
			}
			return "_ = " + s.vars[r.Intn(len(s.vars))].Name()
		case 3: // write a variable (a use only in test files)
			if len(s.vars) == 0 {
				continue
			}
			v := s.vars[r.Intn(len(s.vars))]
			if r.Chance(30) {
				if b, ok := v.Type().Underlying().(*types.Basic); ok && b.Info()&types.IsInteger != 0 {
					return v.Name() + "++"
				}
			}
			return v.Name() + " = " + zero(v.Type())
		case 4: // constant
			if len(s.consts) == 0 {
				continue
			}
			return "_ = " + s.consts[r.Intn(len(s.consts))].Name()
		case 5, 6, 7: // field read / write, possibly promoted through embedded fields
			if len(s.strs) == 0 || len(s.fields) == 0 {
				continue
			}
			t := s.strs[r.Intn(len(s.strs))]
			fn := s.fields[r.Intn(len(s.fields))]
			obj, _, _ := types.LookupFieldOrMethod(t.Type(), true, s.pkg, fn)
			fv, ok := obj.(*types.Var)
			if !ok {
				continue
			}
			x := s.local()
			decl := fmt.Sprintf("var %s %s; ", x, t.Name())
			if r.Chance(30) {
				decl = fmt.Sprintf("%s := new(%s); ", x, t.Name())
			}
			switch r.Intn(4) {
			case 0:
				return decl + fmt.Sprintf("%s.%s = %s", x, fn, zero(fv.Type()))
			case 1:
				if b, ok := fv.Type().Underlying().(*types.Basic); ok && b.Info()&types.IsInteger != 0 {
					return decl + fmt.Sprintf("%s.%s++", x, fn)
				}
				fallthrough
			default:
				return decl + fmt.Sprintf("_ = %s.%s", x, fn)
			}
		case 8, 9: // method call / method value / method expression
			if len(s.types) == 0 {
				continue
			}
			t := s.types[r.Intn(len(s.types))]
			if _, isPtr := types.Unalias(t.Type()).(*types.Pointer); isPtr {
				continue
			}
			m := methodPool[r.Intn(len(methodPool))]
			names := []string{m.name, "set", "get"}
			mn := names[0]
			if r.Chance(15) {
				mn = names[1+r.Intn(2)]
			}
			obj, _, _ := types.LookupFieldOrMethod(t.Type(), true, s.pkg, mn)
			fo, ok := obj.(*types.Func)
			if !ok {
				continue
			}
			sig := fo.Type().(*types.Signature)
			x := s.local()
			if types.IsInterface(t.Type()) {
				return fmt.Sprintf("var %s %s; if %s != nil { %s }", x, t.Name(), x, s.callStmt(x+"."+mn, sig))
			}
			switch r.Intn(4) {
			case 0:
				return fmt.Sprintf("var %s %s; _ = %s.%s", x, t.Name(), x, mn) // method value
			case 1:
				if types.NewMethodSet(t.Type()).Lookup(s.pkg, mn) != nil {
					return fmt.Sprintf("_ = %s.%s", t.Name(), mn) // method expression
				}
				return fmt.Sprintf("_ = (*%s).%s", t.Name(), mn)
			default:
				return fmt.Sprintf("var %s %s; %s", x, t.Name(), s.callStmt(x+"."+mn, sig))
			}
		case 10: // keyed / unkeyed composite literal
			if len(s.strs) == 0 {
				continue
			}
			t := s.strs[r.Intn(len(s.strs))]
			st := t.Type().Underlying().(*types.Struct)
			if st.NumFields() == 0 {
				return "_ = " + t.Name() + "{}"
			}
			if r.Chance(40) {
				var vs []string
				for i := 0; i < st.NumFields(); i++ {
					vs = append(vs, zero(st.Field(i).Type()))
				}
				return "_ = " + t.Name() + "{" + strings.Join(vs, ", ") + "}"
			}
			f := st.Field(r.Intn(st.NumFields()))
			if f.Name() == "_" {
				continue
			}
			amp := ""
			if r.Chance(30) {
				amp = "&"
			}
			return fmt.Sprintf("_ = %s%s{%s: %s}", amp, t.Name(), f.Name(), zero(f.Type()))
		case 11, 12: // conversion between struct types
			if len(s.strs) < 2 {
				continue
			}
			a, b := s.strs[r.Intn(len(s.strs))], s.strs[r.Intn(len(s.strs))]
			if a == b || !types.ConvertibleTo(a.Type(), b.Type()) {
				if len(s.g.twins) == 0 {
					continue
				}
				tw := s.g.twins[r.Intn(len(s.g.twins))]
				oa, _ := s.pkg.Scope().Lookup(tw[0]).(*types.TypeName)
				ob, _ := s.pkg.Scope().Lookup(tw[1]).(*types.TypeName)
				if oa == nil || ob == nil {
					continue
				}
				a, b = oa, ob
				if r.Bool() {
					a, b = b, a
				}
			}
			if r.Chance(30) {
				return fmt.Sprintf("_ = (*%s)(new(%s))", b.Name(), a.Name())
			}
			return fmt.Sprintf("_ = %s(%s)", b.Name(), zero(a.Type()))
		case 13, 14: // implicit interface satisfaction
			if len(s.ifs) == 0 || len(s.types) == 0 {
				continue
			}
			it := s.ifs[r.Intn(len(s.ifs))]
			t := s.types[r.Intn(len(s.types))]
			var val string
			if types.IsInterface(t.Type()) {
				continue
			}
			if types.AssignableTo(t.Type(), it.Type()) {
				val = zero(t.Type())
			} else if types.AssignableTo(types.NewPointer(t.Type()), it.Type()) {
				val = "new(" + t.Name() + ")"
			} else {
				continue
			}
			x := s.local()
			out := fmt.Sprintf("var %s %s = %s; ", x, it.Name(), val)
			iface := it.Type().Underlying().(*types.Interface)
			switch r.Intn(4) {
			case 0:
				if iface.NumMethods() > 0 {
					m := iface.Method(r.Intn(iface.NumMethods()))
					return out + s.callStmt(x+"."+m.Name(), m.Type().(*types.Signature))
				}
			case 1:
				if types.AssignableTo(t.Type(), it.Type()) {
					return out + fmt.Sprintf("_, _ = %s.(%s)", x, t.Name())
				}
			case 2:
				if types.AssignableTo(t.Type(), it.Type()) {
					y := s.local()
					return out + fmt.Sprintf("switch %s := %s.(type) { case %s: _ = %s }", y, x, t.Name(), y)
				}
			}
			return out + "_ = " + x
		case 15: // closures
			if depth == 0 {
				continue
			}
			inner := s.stmt(depth-1, unsafeOK, inTest)
			switch r.Intn(4) {
			case 0:
				return "func() { " + inner + " }()"
			case 1:
				return "defer func() { " + inner + " }()"
			case 2:
				x := s.local()
				return x + " := func() { " + inner + " }; " + x + "()"
			default:
				x := s.local()
				return x + " := func() { " + inner + " }; _ = " + x
			}
		case 16: // generics
			if !s.g.generic {
				continue
			}
			x := s.local()
			targ := "int"
			if len(s.strs) > 0 && r.Bool() {
				targ = s.strs[r.Intn(len(s.strs))].Name()
			}
			switch r.Intn(7) {
			case 0:
				return "_ = gf0[" + targ + "]"
			case 1:
				return "_ = gf0(" + "*new(" + targ + "))"
			case 2:
				return fmt.Sprintf("var %s G0[%s]; _ = %s.v", x, targ, x)
			case 3:
				return fmt.Sprintf("var %s G0[%s]; %s.m0()", x, targ, x)
			case 4:
				return fmt.Sprintf("%s := G0[%s]{}; %s.set(*new(%s))", x, targ, x, targ)
			case 5:
				return "gf1(1, " + "*new(" + targ + "))"
			default:
				return fmt.Sprintf("var %s g1[string]; _ = %s", x, x)
			}
		case 17: // any named type or alias
			if len(s.types) == 0 {
				continue
			}
			t := s.types[r.Intn(len(s.types))]
			x := s.local()
			if r.Bool() {
				return fmt.Sprintf("var %s %s; _ = %s", x, t.Name(), x)
			}
			return fmt.Sprintf("_ = (*%s)(nil)", t.Name())
		case 18: // local declarations
			x := s.local()
			switch r.Intn(4) {
			case 0:
				ft := "int"
				if len(s.strs) > 0 {
					ft = s.strs[r.Intn(len(s.strs))].Name()
				}
				return fmt.Sprintf("type %s struct{ q %s }; var %sv %s; _ = %sv.q", x, ft, x, x, x)
			case 1:
				return fmt.Sprintf("type %s int", x)
			case 2:
				if len(s.consts) > 0 {
					return fmt.Sprintf("const %s = %s", x, s.consts[r.Intn(len(s.consts))].Name())
				}
				return fmt.Sprintf("const %s = 1", x)
			default:
				return fmt.Sprintf("const %s = 2; _ = %s", x, x)
			}
		case 19: // reference to a function without calling it
			if len(s.funcs) == 0 {
				continue
			}
			return "_ = " + s.funcs[r.Intn(len(s.funcs))].Name()
		case 20: // unsafe conversions (rule 5.2)
			if !unsafeOK || len(s.strs) == 0 {
				continue
			}
			t := s.strs[r.Intn(len(s.strs))]
			if r.Bool() {
				return "_ = unsafe.Pointer(new(" + t.Name() + "))"
			}
			return "_ = (*" + t.Name() + ")(unsafe.Pointer(new(int)))"
		case 21: // anonymous struct
			ft := "int"
			if len(s.types) > 0 {
				ft = s.types[r.Intn(len(s.types))].Name()
			}
			x := s.local()
			return fmt.Sprintf("var %s struct{ a %s; b int }; _ = %s.b", x, ft, x)
		case 22: // conversion to a named non-struct type / generic instantiation of an alias
			if len(s.g.named) == 0 {
				continue
			}
			n := s.g.named[r.Intn(len(s.g.named))]
			return "_ = (*" + n + ")(nil)"
		default:
			if inTest && len(s.vars) > 0 {
				v := s.vars[r.Intn(len(s.vars))]
				return v.Name() + " = " + zero(v.Type())
			}
			return "_ = 0"
		}
	}
	return "_ = 0"
}


// DirectedPackages are small fixed packages whose declarations are permuted over ALL orders by the C17 tie.
func DirectedPackages() map[string][]SrcFile {
	return map[string][]SrcFile{
		// rule 6.5 through a cycle of embedded pointers: the exported field is in edge only, holder embeds node and
		// never selects it. In every declaration order holder.node, node and edge must be used.
		"embedcycle": {{Name: "a.go", Src: `package p

type node struct {
	*edge
	id int
}

type edge struct {
	*node
	Exported int
}

type holder struct {
	node
}

var _ holder
`}},
		"embedcycle3": {{Name: "a.go", Src: `package p

type n1 struct {
	*n2
}

type n2 struct {
	*n3
	w int
}

type n3 struct {
	*n1
	Visible string
}

type keep struct {
	*n1
}

func Use() { var k keep; _ = k }
`}},
		// rule 8.2 with identically spelled generic interfaces: names.put satisfies only strBox (T = string does not
		// satisfy ~int); it must be used in every declaration order
		"samespelling": {{Name: "a.go", Src: `package p

type intBox[T ~int] interface {
	put(T)
}

type strBox[T ~string] interface {
	put(T)
}

type names struct{}

func (names) put(s string) {}

var _ names
`}},
		// the same over two files (file order matters as well)
		"samespelling2": {{Name: "a.go", Src: `package p

func first[T ~int]() {
	var x interface{ put(T) }
	_ = x
}

var _ = first[int]
`}, {Name: "b.go", Src: `package p

type strBox[T ~string] interface {
	put(T)
}

type names struct{}

func (names) put(s string) {}

var _ names
`}},
		// rule 6.3 through an alias: *outer implements iface only through the pointer method of inner, which is embedded
		// by value under an alias name, two levels down
		"aliasembed": {{Name: "a.go", Src: `package p

type inner struct{ n int }

func (p *inner) m() {}

type innerAlias = inner

type mid struct {
	innerAlias
}

type outer struct {
	mid
}

type iface interface {
	m()
}

var _ iface = &outer{}
`}},
		"aliasembedgeneric": {{Name: "a.go", Src: `package p

type box[T any] struct{ v T }

func (b *box[T]) m() {}

type intBox = box[int]

type outer struct {
	intBox
}

func Use() interface{ m() } { return &outer{} }
`}},
		// an unkeyed literal in dead code comes first, a live one later: the fields are used by the live literal
		"unkeyeddeadfirst": {{Name: "a.go", Src: `package p

type row struct {
	id   int
	name string
}

func dead() {
	_ = row{1, "a"}
}

var deadTable = []row{{2, "b"}}

func deadOuter() { deadInner() }

func deadInner() { _ = row{3, "c"} }

func Live() row {
	return row{4, "d"}
}
`}},
		// identically spelled generic interfaces, never instantiated explicitly; *names satisfies only the LATER one and
		// is used only through it
		"samespellingsink": {{Name: "a.go", Src: `package p

type intSink[T ~int] interface {
	put(T)
}

type strSink[T ~string] interface {
	put(T)
}

func drainInts[T ~int, K intSink[T]](k K) {}

func feed[T ~string, K strSink[T]](k K) {}

type names struct{}

func (*names) put(s string) {}

func Use() {
	feed[string](&names{})
}
`}},
		// interface literals over local aliases with the same name and different meaning
		"samespellinglocal": {{Name: "a.go", Src: `package p

func A() {
	type unit = int
	var x interface{ set(unit) }
	_ = x
}

func B() {
	type unit = string
	var x interface{ set(unit) } = &cell{}
	_ = x
}

type cell struct{}

func (*cell) set(s string) {}
`}},
		// unkeyed literals with the &T elided: every field of T is used by the literal
		"elidedptr": {{Name: "a.go", Src: `package p

type pt struct {
	a int
	b int
}

type named struct {
	x string
	y int
}

var _ = []*pt{{1, 2}}

var _ = [1]*pt{{3, 4}}

var _ = map[string]*named{"k": {"s", 5}}
`}},
		// embedded generic instances: the type arguments are used by the embedded field
		"embedgeneric": {{Name: "a.go", Src: `package p

type one[A any] struct{ First A }

type pair[K comparable, V any] struct {
	Key K
	Val V
}

type triple[A, B, C any] struct {
	X A
	Y B
	Z C
}

type a1 int

type ka int

type va string

type t1 int

type t2 int

type t3 int

type holder struct {
	one[a1]
	pair[ka, va]
	*triple[t1, t2, t3]
}

var _ holder
`}},
		// rule 10.1 with a multi-line specification in the middle of the group; only the last member is referenced
		"constmultiline": {{Name: "a.go", Src: `package p

type level int

const (
	kA level = iota
	kB level = iota *
		10
	kC
	kD
)

func Use() int {
	const (
		la = iota
		lb = iota + // note
			1
		lc
	)
	return int(kD) + lc
}
`}},
		// rule 10.1 / 5.1 / 8.2 in one small package
		"mixed": {{Name: "a.go", Src: `package p

const (
	ka = iota
	kb
)

type src struct {
	f int
}

type dst struct {
	f int
}

type shape interface {
	area() int
}

type sq struct{}

func (sq) area() int { return kb }

func Conv(s src) dst { return dst(s) }

var _ shape = sq{}
`}},
	}
}
