package u1000

import (
	"fmt"
	"go/types"
	"os"
	"path/filepath"
	"sort"
	"strings"

	"golang.org/x/tools/go/packages"
	"verifharness/hx"
)

// LoadDir loads the packages matching patterns in module directory dir with the go command (types of dependencies
// come from export data) and re-checks each of them from its sources with the same importer, so that variants
// (permutations, deletions) of the package can be checked the same way. Packages with errors, cgo or no Go files are
// skipped (reported in skipped).
func LoadDir(dir string, patterns ...string) (pkgs []*Pkg, skipped []string) {
	return LoadDirTests(dir, false, patterns...)
}

// LoadDirTests is LoadDir with the test variants of the packages (p, p [p.test], p_test [p.test]; the synthesized
// p.test main packages are left out). Pkg.Name is the go list ID of the variant.
func LoadDirTests(dir string, tests bool, patterns ...string) (pkgs []*Pkg, skipped []string) {
	cfg := &packages.Config{
		Tests: tests,
		Mode: packages.NeedName | packages.NeedFiles | packages.NeedCompiledGoFiles | packages.NeedImports |
			packages.NeedTypes | packages.NeedSyntax | packages.NeedTypesInfo | packages.NeedTypesSizes | packages.NeedModule,
		Dir: dir,
		Env: hx.GoEnv(),
	}
	lp, err := packages.Load(cfg, patterns...)
	if err != nil {
		return nil, []string{fmt.Sprintf("%s %v: %v", dir, patterns, err)}
	}
	sort.Slice(lp, func(i, j int) bool { return lp[i].ID < lp[j].ID })
	for _, l := range lp {
		if tests && strings.HasSuffix(l.ID, ".test") {
			continue
		}
		if len(l.Errors) > 0 {
			skipped = append(skipped, fmt.Sprintf("%s: %v", l.ID, l.Errors[0]))
			continue
		}
		if len(l.GoFiles) == 0 || len(l.CompiledGoFiles) != len(l.GoFiles) || l.Types == nil {
			skipped = append(skipped, fmt.Sprintf("%s: no Go files or cgo", l.ID))
			continue
		}
		imports := map[string]*types.Package{}
		for _, ip := range l.Types.Imports() {
			imports[ip.Path()] = ip
		}
		for path, ip := range l.Imports {
			if ip.Types != nil {
				imports[path] = ip.Types
			}
		}
		var srcs []SrcFile
		ok := true
		for _, f := range l.GoFiles {
			b, err := os.ReadFile(f)
			if err != nil || filepath.Dir(f) != filepath.Dir(l.GoFiles[0]) {
				ok = false
				break
			}
			if strings.Contains(string(b), "import \"C\"") {
				ok = false
				break
			}
			srcs = append(srcs, SrcFile{Name: filepath.Base(f), Src: string(b)})
		}
		if !ok {
			skipped = append(skipped, fmt.Sprintf("%s: unreadable or cgo", l.ID))
			continue
		}
		p, errs, _ := Check(l.ID, l.PkgPath, filepath.Dir(l.GoFiles[0]), srcs, imports)
		if len(errs) > 0 {
			skipped = append(skipped, fmt.Sprintf("%s: re-check from source failed: %v", l.ID, errs[0]))
			continue
		}
		pkgs = append(pkgs, p)
	}
	return
}

// CopyTree copies a directory tree (regular files only).
func CopyTree(src, dst string) error {
	return filepath.Walk(src, func(path string, info os.FileInfo, err error) error {
		if err != nil {
			return err
		}
		rel, _ := filepath.Rel(src, path)
		if info.IsDir() {
			return os.MkdirAll(filepath.Join(dst, rel), 0o777)
		}
		if !info.Mode().IsRegular() {
			return nil
		}
		b, err := os.ReadFile(path)
		if err != nil {
			return err
		}
		return os.WriteFile(filepath.Join(dst, rel), b, 0o666)
	})
}
