// Package u1000: shared harness code for C07 and C17 (the use/own graph of unused, U1000).
//
// A Pkg is one package variant (a set of files type-checked together). Analyze runs the REAL analyzer
// (unused.Analyzer.Analyzer.Run, with the results of the real generated/directives analyzers) and, through hook H2
// (unused.VerifGraph / VerifNodes / VerifResults), exports the graph the analyzer built.
package u1000

import (
	"crypto/sha1"
	"fmt"
	"go/ast"
	"go/parser"
	"go/token"
	"go/types"
	"os"
	"path/filepath"
	"sort"
	"strings"

	"golang.org/x/tools/go/analysis"
	"honnef.co/go/tools/analysis/facts/directives"
	"honnef.co/go/tools/analysis/facts/generated"
	"honnef.co/go/tools/analysis/lint"
	"honnef.co/go/tools/unused"
)

// SrcFile is one source file (name relative to the package directory).
type SrcFile struct {
	Name string
	Src  string
}

// Pkg is a parsed and type-checked package variant.
type Pkg struct {
	Name    string // for reports
	Path    string // package path used for type checking
	Dir     string // directory the files (are supposed to) live in
	Sources []SrcFile
	Fset    *token.FileSet
	Files   []*ast.File
	Types   *types.Package
	Info    *types.Info
	Imports map[string]*types.Package // importer for re-checking variants of this package

	// filled by Analyze
	Result  unused.Result            // from the real analyzer's Run
	Result2 unused.Result            // VerifResults over the hook-exported graph (second, independent construction)
	Nodes   []unused.VerifNode       // the exported graph
	Objs    map[types.Object]uint64  // go/types object -> node id
	ObjOf   map[uint64]types.Object  // inverse

	labelers map[string]*Labeler
	dirs     []lint.Directive
	gen      map[string]generated.Generator
}

type mapImporter map[string]*types.Package

func (m mapImporter) Import(path string) (*types.Package, error) {
	if path == "unsafe" {
		return types.Unsafe, nil
	}
	if p, ok := m[path]; ok {
		return p, nil
	}
	return nil, fmt.Errorf("import %q not available", path)
}

func newInfo() *types.Info {
	return &types.Info{
		Types:        map[ast.Expr]types.TypeAndValue{},
		Defs:         map[*ast.Ident]types.Object{},
		Uses:         map[*ast.Ident]types.Object{},
		Implicits:    map[ast.Node]types.Object{},
		Selections:   map[*ast.SelectorExpr]*types.Selection{},
		Scopes:       map[ast.Node]*types.Scope{},
		Instances:    map[*ast.Ident]types.Instance{},
		FileVersions: map[*ast.File]string{},
	}
}

// Check parses and type-checks sources (in the given order) as one package. Errors are returned, soft "imported and
// not used" errors are returned separately.
func Check(name, path, dir string, srcs []SrcFile, imports map[string]*types.Package) (*Pkg, []error, []error) {
	p := &Pkg{Name: name, Path: path, Dir: dir, Sources: srcs, Fset: token.NewFileSet(), Imports: imports}
	var hard, unusedImports []error
	for _, s := range srcs {
		f, err := parser.ParseFile(p.Fset, filepath.Join(dir, s.Name), s.Src, parser.ParseComments|parser.SkipObjectResolution)
		if err != nil {
			return p, []error{err}, nil
		}
		p.Files = append(p.Files, f)
	}
	p.Info = newInfo()
	conf := types.Config{
		Importer:  mapImporter(imports),
		GoVersion: "go1.26",
		Error: func(err error) {
			msg := err.Error()
			if strings.Contains(msg, "imported and not used") || (strings.Contains(msg, "imported as") && strings.Contains(msg, "and not used")) {
				unusedImports = append(unusedImports, err)
				return
			}
			hard = append(hard, err)
		},
	}
	tp, _ := conf.Check(path, p.Fset, p.Files, p.Info)
	p.Types = tp
	return p, hard, unusedImports
}

// Analyze runs the real analyzer and exports its graph.
func (p *Pkg) Analyze() (err error) {
	defer func() {
		if r := recover(); r != nil {
			err = fmt.Errorf("analyzer panicked: %v", r)
		}
	}()
	pass := &analysis.Pass{Fset: p.Fset, Files: p.Files, Pkg: p.Types, TypesInfo: p.Info, ResultOf: map[*analysis.Analyzer]any{}}
	gen, err := generated.Analyzer.Run(pass)
	if err != nil {
		return err
	}
	dirs := lint.ParseDirectives(p.Files, p.Fset)
	pass.ResultOf[generated.Analyzer] = gen
	pass.ResultOf[directives.Analyzer] = dirs
	pass.Analyzer = unused.Analyzer.Analyzer
	res, err := unused.Analyzer.Analyzer.Run(pass)
	if err != nil {
		return err
	}
	p.Result = res.(unused.Result)
	p.dirs, p.gen = dirs, gen.(map[string]generated.Generator)
	nodes, objs := unused.VerifGraph(p.Fset, p.Files, p.Types, p.Info, dirs, gen.(map[string]generated.Generator), unused.DefaultOptions)
	p.Nodes = unused.VerifNodes(nodes)
	p.Result2 = unused.VerifResults(nodes)
	p.Objs = objs
	p.ObjOf = map[uint64]types.Object{}
	for o, id := range objs {
		p.ObjOf[id] = o
	}
	return nil
}

// WriteToDisk writes the sources below p.Dir (the generated-file detector reads the files themselves).
func (p *Pkg) WriteToDisk() {
	for _, s := range p.Sources {
		path := filepath.Join(p.Dir, s.Name)
		os.MkdirAll(filepath.Dir(path), 0o777)
		if err := os.WriteFile(path, []byte(s.Src), 0o666); err != nil {
			panic(err)
		}
	}
}

// ------------------------------------------------------------------ position-independent labels

// Chunk is a top-level declaration (never an import) with the whole source lines it occupies.
type Chunk struct {
	File      int
	Decl      ast.Decl
	Start     int // byte offsets into the file's source: [Start, End) are whole lines
	End       int
	DeclStart int // offset of decl.Pos()
	DeclEnd   int
	Key       string // identity of the declaration
	UsesPkgName bool
}

// Chunks splits every file into header (package clause, imports) and declaration chunks made of whole lines.
// Comments between two declarations go with the following declaration, a trailing comment on the last line of a
// declaration stays with it. Two declarations sharing a line are merged into one chunk (Decl = the first).
func (p *Pkg) Chunks(keyMode string) (headers []string, chunks [][]Chunk, tails []string) {
	for fi, f := range p.Files {
		src := p.Sources[fi].Src
		tf := p.Fset.File(f.Pos())
		off := func(pos token.Pos) int { return tf.Offset(pos) }
		eol := func(o int) int { // offset just after the newline that ends the line containing o
			i := strings.IndexByte(src[o:], '\n')
			if i < 0 {
				return len(src)
			}
			return o + i + 1
		}
		var decls []ast.Decl
		hdrEnd := eol(off(f.Name.End()))
		for _, d := range f.Decls {
			if gd, ok := d.(*ast.GenDecl); ok && gd.Tok == token.IMPORT {
				if e := eol(off(gd.End()) - 1); e > hdrEnd {
					hdrEnd = e
				}
				continue
			}
			decls = append(decls, d)
		}
		var cs []Chunk
		prevEnd := hdrEnd
		for _, d := range decls {
			ds, de := off(d.Pos()), off(d.End())
			if ds < prevEnd && len(cs) > 0 {
				// starts on a line already taken by the previous chunk: merge
				c := &cs[len(cs)-1]
				if e := eol(de - 1); e > c.End {
					c.End = e
				}
				prevEnd = c.End
				continue
			}
			c := Chunk{File: fi, Decl: d, Start: prevEnd, End: eol(de - 1), DeclStart: ds, DeclEnd: de}
			cs = append(cs, c)
			prevEnd = c.End
		}
		for i := range cs {
			c := &cs[i]
			ast.Inspect(c.Decl, func(n ast.Node) bool {
				if id, ok := n.(*ast.Ident); ok {
					if _, ok := p.Info.Uses[id].(*types.PkgName); ok {
						c.UsesPkgName = true
					}
				}
				return true
			})
		}
		headers = append(headers, src[:hdrEnd])
		chunks = append(chunks, cs)
		tails = append(tails, src[prevEnd:])
	}
	// keys
	switch keyMode {
	case "index":
		for fi := range chunks {
			for i := range chunks[fi] {
				chunks[fi][i].Key = fmt.Sprintf("%s#%d", p.Sources[fi].Name, i)
			}
		}
	default: // "text": name + hash of the chunk text (preserved verbatim by permutations); ordinal among equal texts
		seen := map[string]int{}
		type ref struct{ fi, i int }
		var order []ref
		for fi := range chunks {
			for i := range chunks[fi] {
				order = append(order, ref{fi, i})
			}
		}
		sort.SliceStable(order, func(a, b int) bool {
			return p.Sources[order[a].fi].Name < p.Sources[order[b].fi].Name
		})
		for _, r := range order {
			c := &chunks[r.fi][r.i]
			h := sha1.Sum([]byte(p.Sources[r.fi].Src[c.DeclStart:c.DeclEnd]))
			k := fmt.Sprintf("%s:%x", declName(c.Decl), h[:6])
			seen[k]++
			c.Key = fmt.Sprintf("%s/%d", k, seen[k])
		}
	}
	return
}

func declName(d ast.Decl) string {
	switch d := d.(type) {
	case *ast.FuncDecl:
		if d.Recv != nil && len(d.Recv.List) == 1 {
			return "func(" + exprString(d.Recv.List[0].Type) + ")." + d.Name.Name
		}
		return "func " + d.Name.Name
	case *ast.GenDecl:
		var names []string
		for _, s := range d.Specs {
			switch s := s.(type) {
			case *ast.ValueSpec:
				for _, n := range s.Names {
					names = append(names, n.Name)
				}
			case *ast.TypeSpec:
				names = append(names, s.Name.Name)
			}
		}
		if len(names) > 3 {
			names = names[:3]
		}
		return d.Tok.String() + " " + strings.Join(names, ",")
	}
	return "?"
}

func exprString(e ast.Expr) string {
	switch e := e.(type) {
	case *ast.Ident:
		return e.Name
	case *ast.StarExpr:
		return "*" + exprString(e.X)
	case *ast.IndexExpr:
		return exprString(e.X)
	case *ast.IndexListExpr:
		return exprString(e.X)
	case *ast.ParenExpr:
		return exprString(e.X)
	}
	return "?"
}

// Labeler maps positions of this package to position-independent labels "declkey@rank": the declaration chunk the
// position lies in and the rank of the position among the positions of all graph nodes inside that chunk
// (declarations are moved verbatim by permutations, and adding a statement without declarations keeps ranks).
type Labeler struct {
	p      *Pkg
	chunks [][]Chunk
	byFile map[string]int
	rank   map[string]map[int]int // chunk key -> offset -> rank
}

func (p *Pkg) Labeler(keyMode string) *Labeler {
	if l, ok := p.labelers[keyMode]; ok {
		return l
	}
	_, cs, _ := p.Chunks(keyMode)
	l := &Labeler{p: p, chunks: cs, byFile: map[string]int{}, rank: map[string]map[int]int{}}
	for i, f := range p.Files {
		l.byFile[p.Fset.File(f.Pos()).Name()] = i
	}
	offs := map[string][]int{}
	for _, n := range p.Nodes[1:] {
		if c := l.chunkOf(n.Obj.Position.Filename, n.Obj.Position.Offset); c != nil {
			offs[c.Key] = append(offs[c.Key], n.Obj.Position.Offset)
		}
	}
	for k, os := range offs {
		sort.Ints(os)
		m := map[int]int{}
		for _, o := range os {
			if _, ok := m[o]; !ok {
				m[o] = len(m)
			}
		}
		l.rank[k] = m
	}
	if p.labelers == nil {
		p.labelers = map[string]*Labeler{}
	}
	p.labelers[keyMode] = l
	return l
}

func (l *Labeler) chunkOf(filename string, offset int) *Chunk {
	fi, ok := l.byFile[filename]
	if !ok {
		return nil
	}
	for i := range l.chunks[fi] {
		c := &l.chunks[fi][i]
		if offset >= c.Start && offset < c.End {
			return c
		}
	}
	return nil
}

// Label of a file offset; "" if the position is outside every declaration chunk.
func (l *Labeler) Label(filename string, offset int) string {
	c := l.chunkOf(filename, offset)
	if c == nil {
		return ""
	}
	r, ok := l.rank[c.Key][offset]
	if !ok {
		return fmt.Sprintf("%s+%d", c.Key, offset-c.DeclStart)
	}
	return fmt.Sprintf("%s@%d", c.Key, r)
}

func (l *Labeler) ObjLabel(o unused.Object) string {
	return l.Label(o.Position.Filename, o.Position.Offset) + "|" + o.Kind + " " + o.Name
}

// NodeLabels returns one label per node (index = node id; root = "ROOT"), made unique by an ordinal among
// nodes with the same base label (in node order).
func (p *Pkg) NodeLabels(keyMode string) []string {
	l := p.Labeler(keyMode)
	out := make([]string, len(p.Nodes))
	cnt := map[string]int{}
	for i, n := range p.Nodes {
		if i == 0 {
			out[i] = "ROOT"
			continue
		}
		b := l.ObjLabel(n.Obj)
		cnt[b]++
		out[i] = fmt.Sprintf("%s~%d", b, cnt[b])
	}
	return out
}

// ResultLabels converts a list of result objects into sorted, de-duplicated labels.
func (p *Pkg) ResultLabels(keyMode string, objs []unused.Object) []string {
	l := p.Labeler(keyMode)
	set := map[string]bool{}
	for _, o := range objs {
		set[l.ObjLabel(o)] = true
	}
	var out []string
	for s := range set {
		out = append(out, s)
	}
	sort.Strings(out)
	return out
}


// FreshNodes builds the graph once more with the exported API (unused.Graph), for SerializedGraph.Merge, which
// rewrites the node slices it is given.
func (p *Pkg) FreshNodes() []unused.Node {
	return unused.Graph(p.Fset, p.Files, p.Types, p.Info, p.dirs, p.gen, unused.DefaultOptions)
}
