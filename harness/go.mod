module verifharness

go 1.26.0

require (
	golang.org/x/exp/typeparams v0.0.0-20231108232855-2478ac86f678
	golang.org/x/tools v0.44.1-0.20260420230617-19499e7caabc
	honnef.co/go/tools v0.0.0
)

require (
	github.com/BurntSushi/toml v1.4.1-0.20240526193622-a339e1f7089c // indirect
	golang.org/x/exp v0.0.0-20231110203233-9a3e6036ecaa // indirect
	golang.org/x/mod v0.35.0 // indirect
	golang.org/x/sync v0.20.0 // indirect
)

replace honnef.co/go/tools => /repo
