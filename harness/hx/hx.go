// Package hx: helpers shared by the per-property harness commands.
package hx

import (
	"encoding/json"
	"fmt"
	"os"
	"os/exec"
	"strings"
	"path/filepath"
	"sort"

	"golang.org/x/tools/go/analysis"
	"golang.org/x/tools/go/packages"
	"honnef.co/go/tools/config"
	"honnef.co/go/tools/lintcmd/cache"
	"honnef.co/go/tools/lintcmd/runner"
)

// PRNG: splitmix64; every random choice of a harness derives from one seed so that runs replay exactly.
type Rand struct{ s uint64 }

func NewRand(seed uint64) *Rand { return &Rand{s: seed*0x9E3779B97F4A7C15 + 0x1234567} }
func (r *Rand) Uint64() uint64 {
	r.s += 0x9E3779B97F4A7C15
	z := r.s
	z = (z ^ (z >> 30)) * 0xBF58476D1CE4E5B9
	z = (z ^ (z >> 27)) * 0x94D049BB133111EB
	return z ^ (z >> 31)
}
func (r *Rand) Intn(n int) int {
	if n <= 0 {
		return 0
	}
	return int(r.Uint64() % uint64(n))
}
func (r *Rand) Bool() bool     { return r.Uint64()&1 == 1 }
func (r *Rand) Chance(p int) bool { return r.Intn(100) < p } // p percent
func (r *Rand) Fork() *Rand    { return NewRand(r.Uint64()) }

// RunResult is the outcome of running analyzers over the packages of a directory with the REAL runner.
type RunResult struct {
	Results []runner.Result
}

// RunAnalyzers runs the given analyzers through lintcmd/runner (real loader, real scheduler, real
// cache protocol) on patterns resolved in dir. cacheDir must be a directory owned by the caller.
func RunAnalyzers(dir, cacheDir, goVersion string, cfg config.Config, analyzers []*analysis.Analyzer, env []string, patterns ...string) ([]runner.Result, error) {
	if err := os.MkdirAll(cacheDir, 0o777); err != nil {
		return nil, err
	}
	c, err := cache.Open(cacheDir)
	if err != nil {
		return nil, err
	}
	r, err := runner.New(cfg, c)
	if err != nil {
		return nil, err
	}
	r.GoVersion = goVersion
	pcfg := &packages.Config{Dir: dir, Env: append(GoEnv(), env...)}
	res, err := r.Run(pcfg, analyzers, patterns)
	if err != nil {
		return nil, err
	}
	sort.Slice(res, func(i, j int) bool { return res[i].Package.ID < res[j].Package.ID })
	return res, nil
}

var goEnv []string

// GoEnv returns an environment in which `go` is the toolchain /repo is built with (go.mod's version,
// resolved once through `go env GOROOT` in /repo) with GOTOOLCHAIN=local, so that scratch modules with
// any go directive up to that version load offline without a toolchain download.
func GoEnv() []string {
	if goEnv != nil {
		return append([]string(nil), goEnv...)
	}
	repo := os.Getenv("VERIF_REPO")
	if repo == "" {
		repo = "/repo"
	}
	cmd := exec.Command("go", "env", "GOROOT")
	cmd.Dir = repo
	out, err := cmd.Output()
	if err != nil {
		panic(fmt.Sprintf("go env GOROOT: %v", err))
	}
	root := strings.TrimSpace(string(out))
	var env []string
	for _, kv := range os.Environ() {
		if strings.HasPrefix(kv, "PATH=") || strings.HasPrefix(kv, "GOTOOLCHAIN=") || strings.HasPrefix(kv, "GOROOT=") {
			continue
		}
		env = append(env, kv)
	}
	env = append(env, "PATH="+filepath.Join(root, "bin")+":"+os.Getenv("PATH"), "GOTOOLCHAIN=local", "GOFLAGS=-mod=mod", "GOPROXY=off")
	// exec.Command resolves "go" through THIS process's PATH, so set it here as well.
	os.Setenv("PATH", filepath.Join(root, "bin")+":"+os.Getenv("PATH"))
	os.Setenv("GOTOOLCHAIN", "local")
	goEnv = env
	return append([]string(nil), goEnv...)
}

func WriteFile(path, content string) {
	if err := os.MkdirAll(filepath.Dir(path), 0o777); err != nil {
		panic(err)
	}
	if err := os.WriteFile(path, []byte(content), 0o666); err != nil {
		panic(err)
	}
}

func EmitJSON(path string, v any) {
	f, err := os.Create(path)
	if err != nil {
		panic(err)
	}
	defer f.Close()
	enc := json.NewEncoder(f)
	enc.SetIndent("", " ")
	if err := enc.Encode(v); err != nil {
		panic(err)
	}
}

func Must[T any](v T, err error) T {
	if err != nil {
		fmt.Fprintln(os.Stderr, "fatal:", err)
		os.Exit(2)
	}
	return v
}
