package hx

// Serialiser from go/ir functions to the mini-IR of coq/Model/C15.v (Gallina literals), together with the
// nilness facts the real analysis produced. Also exposes the def-use skeleton used by the C13 sparse tie.

import (
	"fmt"
	"go/constant"
	"go/token"
	"go/types"
	"slices"
	"strings"

	"golang.org/x/exp/typeparams"
	"honnef.co/go/tools/analysis/facts/nilness"
	"honnef.co/go/tools/go/ir"
	"honnef.co/go/tools/go/types/typeutil"
)

type NilFunc struct {
	Pkg, Name   string
	Coq         string   // mkF ... literal
	Facts       [][2]int // observed Result.Nilness per result: inner, outer
	ResultInfo  [][2]bool
	Unsupported string // non-empty: outside the mini-IR (skipped by the model tie)
	HasRecover  bool
	NBlocks     int
	NInstrs     int
	Kinds       map[string]int // instruction kinds occurring (coverage)
	// assume-guarantee bookkeeping: for each static call site with a recorded callee fact
	Assumed []NilAssume
	Text    string // printed IR (for replay files)
}

type NilAssume struct {
	Callee    string
	Idx       int
	Used      [2]int // normalize(calleeNilness[idx]) as used by the caller
	Final     [2]int // Result.Nilness(callee, idx) after the pass
	HasRecord bool
}

type nilSer struct {
	fn     *ir.Function
	ids    map[ir.Value]int
	vals   []string
	kinds  map[string]int
	unsup  string
	seed   []int
	seeded map[int]bool
	res    *nilness.Result
	assume []NilAssume
}

func cb(b bool) string {
	if b {
		return "true"
	}
	return "false"
}

func (s *nilSer) bad(why string) {
	if s.unsup == "" {
		s.unsup = why
	}
}

func (s *nilSer) id(v ir.Value) int {
	if v == nil {
		s.bad("nil operand")
		return 0
	}
	if n, ok := s.ids[v]; ok {
		return n
	}
	n := len(s.vals)
	s.ids[v] = n
	kind := "VInstr"
	ptr := typeutil.IsPointerLike(v.Type())
	switch v := v.(type) {
	case *ir.Parameter:
		kind = "VParam"
	case *ir.Builtin:
		kind = "VBuiltin"
	case *ir.Function:
		kind = "VFunction"
	case *ir.Global:
		kind = "VGlobal"
	case *ir.Const:
		if ptr {
			kind = "VNilConst"
			if v.Value != nil && !(v.Value.Kind() == constant.Int && constant.Sign(v.Value) == 0) {
				// e.g. unsafe.Pointer(uintptr(8)) folded to a constant: the analysis calls it nil
				s.bad("pointer-like constant with a non-zero value")
			}
		} else {
			kind = "VConst"
		}
	case *ir.FreeVar:
		s.bad("free variable")
		kind = "VParam"
	case *ir.AggregateConst:
		kind = "VConst"
		if ptr {
			s.bad("pointer-like aggregate constant")
		}
	default:
		if _, ok := v.(ir.Instruction); !ok {
			s.bad(fmt.Sprintf("value kind %T", v))
		}
	}
	if _, ok := v.Type().Underlying().(*types.Interface); ok && typeparams.IsTypeParam(v.Type()) {
		s.bad("type parameter")
	}
	s.vals = append(s.vals, fmt.Sprintf("mkV %s %s %s", kind, cb(ptr), cb(types.IsInterface(v.Type()))))
	return n
}

func vnCoq(v nilness.ValueNilness) string {
	names := []string{"NoNil", "NeverNil", "AlwaysNil", "MaybeNilGlobal", "MaybeNil"}
	return fmt.Sprintf("(%s, %s)", names[v.Inner], names[v.Outer])
}

func (s *nilSer) callres(call *ir.Call, idx int) string {
	typ := call.Common().Signature().Results().At(idx).Type()
	if !typeutil.IsPointerLike(typ) {
		return "RDynamic"
	}
	if b, ok := call.Call.Value.(*ir.Builtin); ok {
		arg0 := 0
		if len(call.Call.Args) > 0 {
			arg0 = s.id(call.Call.Args[0])
		}
		kind := ""
		switch b.Name() {
		case "append":
			kind = "BAppend"
		case "UnsafeSlice", "UnsafeSliceData":
			kind = "BCopy0"
		case "UnsafeStringData", "UnsafeAdd":
			kind = "BMaybe"
		case "ssa:deferstack", "ssa:wrapnilchk":
			kind = "BNever"
		case "recover":
			kind = "BRecover"
		default:
			s.bad("builtin " + b.Name())
			kind = "BMaybe"
		}
		return fmt.Sprintf("(RBuiltin %s %d)", kind, arg0)
	}
	callee := call.Common().StaticCallee()
	if callee == nil {
		return "RDynamic"
	}
	rets, ok := nilness.VerifCalleeFact(call)
	iface := types.IsInterface(typ)
	as := NilAssume{Callee: callee.String(), Idx: idx, HasRecord: ok}
	defer func() { s.assume = append(s.assume, as) }()
	final := nilness.ValueNilness{Inner: nilness.MaybeNil, Outer: nilness.MaybeNil}
	if obj, ok := callee.Object().(*types.Func); ok && obj != nil {
		final = s.res.Nilness(obj, idx)
	}
	if !iface {
		// Result.Nilness normalises with the callee's declared result type (a type parameter counts as an
		// interface there); the caller normalises with the instantiated result type of the call
		final.Inner = nilness.MaybeNil
	}
	as.Final = [2]int{int(final.Inner), int(final.Outer)}
	if !ok {
		// never recorded: the block was not processed by the analysis (no path to it matters); model it as unknown
		as.Used = [2]int{4, 4}
		return "RDynamic"
	}
	if len(rets) > idx {
		u := rets[idx]
		// normalize as the caller does
		if u.Inner == 0 || !iface {
			u.Inner = nilness.MaybeNil
		}
		if u.Outer == 0 {
			u.Outer = nilness.MaybeNil
		}
		as.Used = [2]int{int(u.Inner), int(u.Outer)}
		return fmt.Sprintf("(RFact (Some %s) %s)", vnCoq(rets[idx]), cb(iface))
	}
	as.Used = [2]int{4, 4}
	return fmt.Sprintf("(RFact None %s)", cb(iface))
}

func isNilConst(v ir.Value) bool {
	k, ok := v.(*ir.Const)
	return ok && k.Value == nil
}

func (s *nilSer) instr(instr ir.Instruction) []string {
	k := func(name string) { s.kinds[name]++ }
	switch v := instr.(type) {
	case *ir.Convert:
		k("Convert")
		intop := false
		if typeutil.IsPointerLike(v.Type()) && typeutil.Any(v.X.Type(), func(term *types.Term) bool {
			b, ok := term.Type().Underlying().(*types.Basic)
			return ok && b.Info()&types.IsInteger != 0
		}) {
			intop = true
			k("Convert-int-to-pointer")
		}
		return []string{fmt.Sprintf("IConvert %d %d %s", s.id(v), s.id(v.X), cb(intop))}
	case *ir.ChangeType:
		k("ChangeType")
		return []string{fmt.Sprintf("ICopy %d %d", s.id(v), s.id(v.X))}
	case *ir.ChangeInterface:
		k("ChangeInterface")
		return []string{fmt.Sprintf("ICopy %d %d", s.id(v), s.id(v.X))}
	case *ir.MultiConvert:
		s.bad("MultiConvert")
		return []string{fmt.Sprintf("ICopy %d %d", s.id(v), s.id(v.X))}
	case *ir.SliceToArrayPointer:
		k("SliceToArrayPointer")
		nz := typeutil.All(v.Type(), func(term *types.Term) bool {
			ptr := term.Type().Underlying().(*types.Pointer).Elem()
			return typeutil.All(ptr, func(inner *types.Term) bool {
				return inner.Type().Underlying().(*types.Array).Len() != 0
			})
		})
		return []string{fmt.Sprintf("IS2AP %d %d %s", s.id(v), s.id(v.X), cb(nz))}
	case *ir.SliceToArray:
		k("SliceToArray")
		nz := typeutil.All(v.Type(), func(term *types.Term) bool {
			return term.Type().Underlying().(*types.Array).Len() != 0
		})
		return []string{fmt.Sprintf("IS2A %d %d %s", s.id(v), s.id(v.X), cb(nz))}
	case *ir.Slice:
		k("Slice")
		isarray := typeutil.All(v.X.Type(), typeutil.IsType[*types.Array])
		checkBound := func(b ir.Value) bool {
			if b == nil {
				return false
			}
			if c, ok := b.(*ir.Const); ok {
				kv, ok := constant.Int64Val(c.Value)
				return !ok || kv != 0
			}
			return false
		}
		nz := checkBound(v.Low) || checkBound(v.High) || checkBound(v.Max)
		xk := ""
		switch t := v.X.Type().Underlying().(type) {
		case *types.Slice:
			xk = "XSlice"
		case *types.Pointer:
			xk = "XArrPtr"
		case *types.Basic:
			xk = "XString"
			_ = t
		default:
			s.bad("slice of " + v.X.Type().String())
			xk = "XSlice"
		}
		for _, b := range []ir.Value{v.Low, v.High, v.Max} {
			if b != nil {
				s.id(b)
			}
		}
		if nz {
			k("Slice-nonzero-bound")
		}
		return []string{fmt.Sprintf("ISlice %d %d %s %s %s", s.id(v), s.id(v.X), xk, cb(isarray), cb(nz))}
	case *ir.If:
		binop, ok := v.Cond.(*ir.BinOp)
		if !ok {
			return []string{"INop"}
		}
		var target ir.Value
		if isNilConst(binop.X) {
			target = binop.Y
		} else if isNilConst(binop.Y) {
			target = binop.X
		} else {
			return []string{"INop"}
		}
		switch binop.Op {
		case token.EQL, token.NEQ:
			k("If-nil-comparison")
			return []string{fmt.Sprintf("IIf %d %s", s.id(target), cb(binop.Op == token.EQL))}
		case token.LSS, token.LEQ, token.GTR, token.GEQ:
			return []string{"INop"}
		}
		s.bad("If on nil constant with operator " + binop.Op.String())
		return []string{"INop"}
	case *ir.Load:
		k("Load")
		_, glob := v.X.(*ir.Global)
		return []string{fmt.Sprintf("ILoad %d %d %s", s.id(v), s.id(v.X), cb(glob))}
	case *ir.FieldAddr:
		k("FieldAddr")
		return []string{fmt.Sprintf("IAddr %d %d", s.id(v), s.id(v.X))}
	case *ir.IndexAddr:
		k("IndexAddr")
		s.id(v.Index)
		return []string{fmt.Sprintf("IAddr %d %d", s.id(v), s.id(v.X))}
	case *ir.Alloc, *ir.MakeMap, *ir.MakeSlice, *ir.MakeClosure, *ir.MakeChan:
		k(strings.TrimPrefix(fmt.Sprintf("%T", v), "*ir."))
		return []string{fmt.Sprintf("INew %d", s.id(v.(ir.Value)))}
	case *ir.MapUpdate:
		k("MapUpdate")
		return []string{fmt.Sprintf("IDeref %d", s.id(v.Map))}
	case *ir.Store:
		k("Store")
		s.id(v.Val)
		return []string{fmt.Sprintf("IDeref %d", s.id(v.Addr))}
	case *ir.Send:
		k("Send")
		return []string{fmt.Sprintf("IDeref %d", s.id(v.Chan))}
	case ir.CallInstruction:
		fv := "None"
		if !v.Common().IsInvoke() {
			fv = fmt.Sprintf("(Some %d)", s.id(v.Common().Value))
		}
		call, ok := v.(*ir.Call)
		switch v.(type) {
		case *ir.Defer:
			k("Defer")
		case *ir.Go:
			k("Go")
		}
		if !ok || call.Common().Signature().Results().Len() != 1 {
			if ok {
				k("Call-multi-or-none")
			}
			return []string{fmt.Sprintf("ICall %s None", fv)}
		}
		cr := s.callres(call, 0)
		k("Call-" + strings.Fields(strings.Trim(cr, "()"))[0])
		return []string{fmt.Sprintf("ICall %s (Some (%d, %s))", fv, s.id(call), cr)}
	case *ir.Recv:
		k("Recv")
		return []string{fmt.Sprintf("IRecv %d %d", s.id(v), s.id(v.Chan))}
	case *ir.MakeInterface:
		k("MakeInterface")
		return []string{fmt.Sprintf("IMakeIface %d %d", s.id(v), s.id(v.X))}
	case *ir.TypeAssert:
		if v.CommaOk {
			k("TypeAssert-commaok")
			return []string{fmt.Sprintf("IDef %d", s.id(v))}
		}
		toiface := types.IsInterface(v.Type()) && !typeparams.IsTypeParam(v.Type())
		k("TypeAssert")
		return []string{fmt.Sprintf("ITypeAssert %d %d %s", s.id(v), s.id(v.X), cb(toiface))}
	case *ir.TypeSwitch:
		k("TypeSwitch")
		s.id(v.Tag)
		return []string{fmt.Sprintf("IDef %d", s.id(v))}
	case *ir.MapLookup:
		k("MapLookup")
		return []string{fmt.Sprintf("IMapLookup %d %d", s.id(v), s.id(v.X))}
	case *ir.Field:
		k("Field")
		return []string{fmt.Sprintf("IFieldIdx %d %d", s.id(v), s.id(v.X))}
	case *ir.Index:
		k("Index")
		return []string{fmt.Sprintf("IFieldIdx %d %d", s.id(v), s.id(v.X))}
	case *ir.Extract:
		switch tuple := v.Tuple.(type) {
		case *ir.TypeAssert:
			if v.Index == 0 {
				k("Extract-TypeAssert")
				return []string{fmt.Sprintf("ISetMaybe %d", s.id(v))}
			}
			return []string{fmt.Sprintf("IDef %d", s.id(v))}
		case *ir.Call:
			cr := s.callres(tuple, v.Index)
			k("Extract-Call-" + strings.Fields(strings.Trim(cr, "()"))[0])
			return []string{fmt.Sprintf("IExtractCall %d %s", s.id(v), cr)}
		case *ir.TypeSwitch:
			if v.Index == 0 {
				return []string{fmt.Sprintf("IExtractTS %d %d TSIndex", s.id(v), s.id(tuple.Tag))}
			}
			idx := v.Index - 1
			if idx >= len(tuple.Conds) {
				hasNil := slices.ContainsFunc(tuple.Conds, func(typ types.Type) bool {
					b, ok := typ.(*types.Basic)
					return ok && b.Kind() == types.UntypedNil
				})
				k("Extract-TypeSwitch-default")
				return []string{fmt.Sprintf("IExtractTS %d %d (TSDefault %s)", s.id(v), s.id(tuple.Tag), cb(hasNil))}
			}
			typ := tuple.Conds[idx]
			if !types.Identical(v.Type(), typ) {
				// clause with several types: the bound variable is the switched-over value itself
				b, ok := typ.(*types.Basic)
				k("Extract-TypeSwitch-multi")
				return []string{fmt.Sprintf("IExtractTS %d %d (TSMulti %s)", s.id(v), s.id(tuple.Tag), cb(ok && b.Kind() == types.UntypedNil))}
			}
			toiface := types.IsInterface(typ) && !typeparams.IsTypeParam(typ)
			k("Extract-TypeSwitch-case")
			return []string{fmt.Sprintf("IExtractTS %d %d (TSCase %s)", s.id(v), s.id(tuple.Tag), cb(toiface))}
		default:
			k("Extract-other")
			return []string{fmt.Sprintf("ISetMaybe %d", s.id(v))}
		}
	case *ir.Select:
		k("Select")
		if v.Blocking && len(v.States) == 1 {
			return []string{fmt.Sprintf("IDeref %d", s.id(v.States[0].Chan))}
		}
		return []string{"INop"}
	case *ir.Phi:
		k("Phi")
		var es []string
		for _, e := range v.Edges {
			es = append(es, fmt.Sprint(s.id(e)))
		}
		return []string{fmt.Sprintf("IPhi %d [%s]", s.id(v), strings.Join(es, "; "))}
	case *ir.Return:
		var rs []string
		for _, r := range v.Results {
			rs = append(rs, fmt.Sprint(s.id(r)))
		}
		return []string{fmt.Sprintf("IReturn [%s]", strings.Join(rs, "; "))}
	case *ir.DebugRef, *ir.Jump, *ir.BlankStore, *ir.Panic, *ir.RunDefers, *ir.Unreachable, *ir.ConstantSwitch:
		return []string{"INop"}
	case *ir.UnOp, *ir.BinOp, *ir.CompositeValue, *ir.Range, *ir.Next:
		val := v.(ir.Value)
		if typeutil.IsPointerLike(val.Type()) {
			s.bad(fmt.Sprintf("pointer-like %T", v))
		}
		return []string{fmt.Sprintf("IDef %d", s.id(val))}
	}
	s.bad(fmt.Sprintf("instruction %T", instr))
	return []string{"INop"}
}

// SerNilFunc serialises fn; res is the nilness result of the pass.
func SerNilFunc(fn *ir.Function, res *nilness.Result) NilFunc {
	out := NilFunc{Name: fn.Name(), Kinds: map[string]int{}}
	if fn.Pkg != nil {
		out.Pkg = fn.Pkg.Pkg.Path()
	}
	obj, _ := fn.Object().(*types.Func)
	if obj == nil || fn.Blocks == nil {
		out.Unsupported = "no object / no body"
		return out
	}
	sig := fn.Signature
	anyPtr := false
	for i := 0; i < sig.Results().Len(); i++ {
		t := sig.Results().At(i).Type()
		p := typeutil.IsPointerLike(t)
		if typeparams.IsTypeParam(t) {
			// whatever the analysis thinks of the type parameter, an instantiation may be pointer-like: keep the
			// function so that its fact is compared with executions of its instantiations
			p = true
		}
		anyPtr = anyPtr || p
		out.ResultInfo = append(out.ResultInfo, [2]bool{p, types.IsInterface(t) && !typeparams.IsTypeParam(t)})
		n := res.Nilness(obj, i)
		out.Facts = append(out.Facts, [2]int{int(n.Inner), int(n.Outer)})
	}
	if !anyPtr {
		out.Unsupported = "no pointer-like result"
		return out
	}
	s := &nilSer{fn: fn, ids: map[ir.Value]int{}, kinds: out.Kinds, seeded: map[int]bool{}, res: res}
	if fn.TypeParams().Len() > 0 || len(fn.TypeArgs()) > 0 {
		s.bad("generic function")
	}
	if len(fn.FreeVars) > 0 {
		s.bad("free variables")
	}
	addSeed := func(v ir.Value) {
		n := s.id(v)
		if !s.seeded[n] {
			s.seeded[n] = true
			s.seed = append(s.seed, n)
		}
	}
	for _, p := range fn.Params {
		s.id(p)
		if typeutil.IsPointerLike(p.Type()) {
			addSeed(p)
		}
	}
	var ops []*ir.Value
	for _, b := range fn.Blocks {
		for _, instr := range b.Instrs {
			ops = instr.Operands(ops[:0])
			for _, pop := range ops {
				switch op := (*pop).(type) {
				case *ir.Const:
					if typeutil.IsPointerLike(op.Type()) {
						addSeed(op)
					}
				case *ir.Global, *ir.Function, *ir.Builtin:
					if typeutil.IsPointerLike(op.Type()) {
						addSeed(op)
					}
				}
			}
		}
	}
	var blocks []string
	for _, b := range fn.Blocks {
		if len(b.Preds) == 0 && b.Index != 0 {
			if b == fn.Recover {
				out.HasRecover = true
			} else {
				s.bad("dead block")
			}
		}
		var is []string
		for _, instr := range b.Instrs {
			is = append(is, s.instr(instr)...)
			out.NInstrs++
		}
		for i := range is {
			is[i] = "(" + is[i] + ")"
		}
		var succs, preds []string
		for _, x := range b.Succs {
			succs = append(succs, fmt.Sprint(x.Index))
		}
		for _, x := range b.Preds {
			preds = append(preds, fmt.Sprint(x.Index))
		}
		blocks = append(blocks, fmt.Sprintf("mkB [%s] [%s] [%s]", strings.Join(is, "; "), strings.Join(succs, "; "), strings.Join(preds, "; ")))
	}
	out.NBlocks = len(fn.Blocks)
	var seeds, results []string
	for _, n := range s.seed {
		seeds = append(seeds, fmt.Sprint(n))
	}
	for _, r := range out.ResultInfo {
		results = append(results, fmt.Sprintf("(%s, %s)", cb(r[0]), cb(r[1])))
	}
	out.Coq = fmt.Sprintf("mkF [%s]\n  [%s]\n  [%s] [%s]", strings.Join(s.vals, "; "), strings.Join(blocks, ";\n   "), strings.Join(seeds, "; "), strings.Join(results, "; "))
	out.Unsupported = s.unsup
	out.Assumed = s.assume
	var sb strings.Builder
	fn.WriteTo(&sb)
	out.Text = sb.String()
	return out
}

// ---- def-use skeleton for the sparse solver tie (C13)

type SparseInstr struct {
	Ops []int
	Phi bool
}

// SparseSkeleton numbers the instructions of fn in block order (value id = instruction index) and every other
// operand value from len(instrs) upwards. It returns the instructions (in the same order), the skeleton and the
// external values in id order.
func SparseSkeleton(fn *ir.Function) ([]ir.Instruction, []SparseInstr, []ir.Value) {
	var instrs []ir.Instruction
	idx := map[ir.Instruction]int{}
	for _, b := range fn.Blocks {
		for _, in := range b.Instrs {
			idx[in] = len(instrs)
			instrs = append(instrs, in)
		}
	}
	ext := map[ir.Value]int{}
	var exts []ir.Value
	sk := make([]SparseInstr, len(instrs))
	var ops []*ir.Value
	for i, in := range instrs {
		_, sk[i].Phi = in.(*ir.Phi)
		sk[i].Ops = []int{}
		if phi, ok := in.(*ir.Phi); ok {
			// the solver merges phi.Edges in order
			for _, e := range phi.Edges {
				sk[i].Ops = append(sk[i].Ops, valID(e, idx, ext, &exts, len(instrs)))
			}
			continue
		}
		ops = in.Operands(ops[:0])
		for _, p := range ops {
			if *p == nil {
				continue
			}
			sk[i].Ops = append(sk[i].Ops, valID(*p, idx, ext, &exts, len(instrs)))
		}
	}
	return instrs, sk, exts
}

func valID(v ir.Value, idx map[ir.Instruction]int, ext map[ir.Value]int, exts *[]ir.Value, n int) int {
	if in, ok := v.(ir.Instruction); ok {
		if k, ok := idx[in]; ok {
			return k
		}
	}
	if k, ok := ext[v]; ok {
		return k
	}
	k := n + len(*exts)
	ext[v] = k
	*exts = append(*exts, v)
	return k
}
