// irser.go — loading packages, building go/ir under a given BuilderMode and serialising functions.
// Owner: builder of C14/C02.  Reusable by other IR-level checks (C01, C13, C15): the JSON shapes
// below (IRFunc, IRBlock, IRInstr, IRVal, IRType) are documented in /verif/design.d/C02.md.
//
// Only the exported API of honnef.co/go/tools/go/ir is used (no hooks).
package hx

import (
	"fmt"
	"go/token"
	"go/types"
	"math/big"
	"sort"
	"strings"

	"golang.org/x/tools/go/packages"
	"honnef.co/go/tools/go/ir"
	"honnef.co/go/tools/go/ir/irutil"
)

// ModeLetters renders the four mode bits the properties quantify over: N(aive) D(ebug) G(enerics) L(serial).
func ModeLetters(m ir.BuilderMode) string {
	s := ""
	if m&ir.NaiveForm != 0 {
		s += "N"
	}
	if m&ir.GlobalDebug != 0 {
		s += "D"
	}
	if m&ir.InstantiateGenerics != 0 {
		s += "G"
	}
	if m&ir.BuildSerially != 0 {
		s += "L"
	}
	if s == "" {
		s = "-"
	}
	return s
}

// AllModes returns the 16 combinations of NaiveForm x GlobalDebug x InstantiateGenerics x BuildSerially.
func AllModes() []ir.BuilderMode {
	var res []ir.BuilderMode
	for i := 0; i < 16; i++ {
		var m ir.BuilderMode
		if i&1 != 0 {
			m |= ir.NaiveForm
		}
		if i&2 != 0 {
			m |= ir.GlobalDebug
		}
		if i&4 != 0 {
			m |= ir.InstantiateGenerics
		}
		if i&8 != 0 {
			m |= ir.BuildSerially
		}
		res = append(res, m)
	}
	return res
}

// LoadSyntax loads the packages matching patterns in dir with syntax and type information
// (dependencies from export data). overlay may be nil. Packages with errors are dropped.
func LoadSyntax(dir string, extraEnv []string, overlay map[string][]byte, tests bool, patterns ...string) ([]*packages.Package, error) {
	cfg := &packages.Config{
		Mode:    packages.NeedName | packages.NeedFiles | packages.NeedCompiledGoFiles | packages.NeedImports | packages.NeedTypes | packages.NeedTypesSizes | packages.NeedSyntax | packages.NeedTypesInfo | packages.NeedDeps,
		Dir:     dir,
		Env:     append(GoEnv(), extraEnv...),
		Overlay: overlay,
		Tests:   tests,
		Fset:    token.NewFileSet(),
	}
	// NeedDeps with NeedTypes type-checks dependencies from source only when NeedSyntax is requested for
	// them, which go/packages does for LoadAllSyntax; to keep loads fast we drop NeedDeps and let the
	// dependencies come from export data.
	cfg.Mode &^= packages.NeedDeps
	pkgs, err := packages.Load(cfg, patterns...)
	if err != nil {
		return nil, err
	}
	var ok []*packages.Package
	for _, p := range pkgs {
		if len(p.Errors) > 0 || p.Types == nil || p.IllTyped || len(p.Syntax) == 0 {
			continue
		}
		ok = append(ok, p)
	}
	sort.Slice(ok, func(i, j int) bool { return ok[i].ID < ok[j].ID })
	return ok, nil
}

// BuildFunctions builds IR for pkgs under mode and returns every function that has a body:
// package members, methods, anonymous functions, and the synthetic wrappers/thunks/instances
// that irutil.AllFunctions discovers. The order is deterministic.
func BuildFunctions(pkgs []*packages.Package, mode ir.BuilderMode) (*ir.Program, []*ir.Function) {
	prog, irpkgs := irutil.Packages(pkgs, mode)
	prog.Build()
	seen := map[*ir.Function]bool{}
	var visit func(fn *ir.Function)
	visit = func(fn *ir.Function) {
		if fn == nil || seen[fn] {
			return
		}
		seen[fn] = true
		for _, a := range fn.AnonFuncs {
			visit(a)
		}
	}
	for fn := range irutil.AllFunctions(prog) {
		visit(fn)
	}
	for _, p := range irpkgs {
		if p == nil {
			continue
		}
		for _, fn := range p.Functions {
			visit(fn)
		}
	}
	// operands may mention further functions (instances created while building)
	for changed := true; changed; {
		changed = false
		for fn := range seen {
			for _, b := range fn.Blocks {
				for _, instr := range b.Instrs {
					for _, op := range instr.Operands(nil) {
						if f, ok := (*op).(*ir.Function); ok && !seen[f] {
							visit(f)
							changed = true
						}
					}
				}
			}
		}
	}
	var fns []*ir.Function
	for fn := range seen {
		if len(fn.Blocks) > 0 {
			fns = append(fns, fn)
		}
	}
	key := func(fn *ir.Function) string {
		pos := prog.Fset.Position(fn.Pos())
		return fmt.Sprintf("%s\x00%s\x00%s:%09d:%05d\x00%s", FuncPkgPath(fn), fn.String(), pos.Filename, pos.Line, pos.Column, fn.Synthetic)
	}
	keys := make(map[*ir.Function]string, len(fns))
	for _, fn := range fns {
		keys[fn] = key(fn)
	}
	sort.SliceStable(fns, func(i, j int) bool { return keys[fns[i]] < keys[fns[j]] })
	return prog, fns
}

func FuncPkgPath(fn *ir.Function) string {
	for f := fn; f != nil; f = f.Parent() {
		if f.Pkg != nil && f.Pkg.Pkg != nil {
			return f.Pkg.Pkg.Path()
		}
	}
	return "(shared)"
}

// ---------------------------------------------------------------------------- CFG + dominance

// IRCFG is the control-flow graph of one function as go/ir exposes it.
type IRCFG struct {
	Succs   [][]int
	Preds   [][]int
	Recover int // block index or -1
}

// IRDom holds the five observables of C14 for one function.
type IRDom struct {
	Dominates []string // row b: decimal of the bit set { c | Blocks[b].Dominates(Blocks[c]) }
	Idom      []int    // -1 = nil
	Dominees  [][]int
	Pre       []int // DomPreorder as block indices (second of two calls, see DomOf)
	Post      []int // DomPostorder
	Aliased   bool  // two successive calls of a listing returned the same backing array
}

// BlockIndex resolves a block to its position in fn.Blocks by identity (not by the Index field, which
// is itself under test); -1 if the block is not a member of fn.Blocks.
func BlockIndex(pos map[*ir.BasicBlock]int, b *ir.BasicBlock) int {
	if b == nil {
		return -1
	}
	if i, ok := pos[b]; ok {
		return i
	}
	return -2
}

func BlockPositions(fn *ir.Function) map[*ir.BasicBlock]int {
	pos := make(map[*ir.BasicBlock]int, len(fn.Blocks))
	for i, b := range fn.Blocks {
		pos[b] = i
	}
	return pos
}

func CFGOf(fn *ir.Function) IRCFG {
	pos := BlockPositions(fn)
	g := IRCFG{Recover: BlockIndex(pos, fn.Recover)}
	for _, b := range fn.Blocks {
		s := make([]int, 0, len(b.Succs))
		for _, c := range b.Succs {
			s = append(s, BlockIndex(pos, c))
		}
		p := make([]int, 0, len(b.Preds))
		for _, c := range b.Preds {
			p = append(p, BlockIndex(pos, c))
		}
		g.Succs = append(g.Succs, s)
		g.Preds = append(g.Preds, p)
	}
	return g
}

func DomOf(fn *ir.Function) IRDom {
	pos := BlockPositions(fn)
	var d IRDom
	for _, b := range fn.Blocks {
		row := new(big.Int)
		for j, c := range fn.Blocks {
			if b.Dominates(c) {
				row.SetBit(row, j, 1)
			}
		}
		d.Dominates = append(d.Dominates, row.String())
		d.Idom = append(d.Idom, BlockIndex(pos, b.Idom()))
		kids := []int{}
		for _, c := range b.Dominees() {
			kids = append(kids, BlockIndex(pos, c))
		}
		d.Dominees = append(d.Dominees, kids)
	}
	// "DomPreorder returns a new slice": every call must return a fresh, correct listing. The first result is
	// reversed in place (as a client doing a bottom-up walk would), then the listing is queried again and the
	// SECOND result is what gets checked; the two results must not share storage.
	query := func(get func() []*ir.BasicBlock) []int {
		first := get()
		for i, j := 0, len(first)-1; i < j; i, j = i+1, j-1 {
			first[i], first[j] = first[j], first[i]
		}
		second := get()
		if len(first) > 0 && len(second) > 0 && &first[0] == &second[0] {
			d.Aliased = true
		}
		var res []int
		for _, b := range second {
			res = append(res, BlockIndex(pos, b))
		}
		return res
	}
	d.Pre = query(fn.DomPreorder)
	d.Post = query(fn.DomPostorder)
	return d
}

// CFGStats classifies a CFG for the coverage report.
type CFGStats struct {
	Blocks, Edges int
	Join          bool // some block has >= 2 predecessors
	Cycle         bool
	Irreducible   bool // has a cycle that survives T1/T2 reduction
}

func StatsOf(g IRCFG) CFGStats {
	n := len(g.Succs)
	st := CFGStats{Blocks: n}
	for i := range g.Succs {
		st.Edges += len(g.Succs[i])
		if len(g.Preds[i]) >= 2 {
			st.Join = true
		}
	}
	// cycle detection (iterative colouring)
	color := make([]int, n)
	var dfs func(int) bool
	dfs = func(u int) bool {
		color[u] = 1
		for _, v := range g.Succs[u] {
			if v < 0 || v >= n {
				continue
			}
			if color[v] == 1 || (color[v] == 0 && dfs(v)) {
				return true
			}
		}
		color[u] = 2
		return false
	}
	for u := 0; u < n && !st.Cycle; u++ {
		if color[u] == 0 && dfs(u) {
			st.Cycle = true
		}
	}
	if st.Cycle {
		st.Irreducible = !reducible(g)
	}
	return st
}

// reducible: T1 (remove self loops) / T2 (merge a node with its unique predecessor) to a single node,
// on the part reachable from the entry.
func reducible(g IRCFG) bool {
	n := len(g.Succs)
	succ := make([]map[int]bool, n)
	pred := make([]map[int]bool, n)
	alive := make([]bool, n)
	var mark func(int)
	mark = func(u int) {
		alive[u] = true
		for _, v := range g.Succs[u] {
			if v >= 0 && v < n && !alive[v] {
				mark(v)
			}
		}
	}
	if n == 0 {
		return true
	}
	mark(0)
	for i := 0; i < n; i++ {
		succ[i], pred[i] = map[int]bool{}, map[int]bool{}
	}
	for u := 0; u < n; u++ {
		if !alive[u] {
			continue
		}
		for _, v := range g.Succs[u] {
			if v >= 0 && v < n && u != v {
				succ[u][v] = true
				pred[v][u] = true
			}
		}
	}
	cnt := 0
	for _, a := range alive {
		if a {
			cnt++
		}
	}
	for changed := true; changed && cnt > 1; {
		changed = false
		for v := 1; v < n; v++ {
			if !alive[v] || len(pred[v]) != 1 {
				continue
			}
			var u int
			for p := range pred[v] {
				u = p
			}
			// merge v into u
			delete(succ[u], v)
			for w := range succ[v] {
				delete(pred[w], v)
				if w != u {
					succ[u][w] = true
					pred[w][u] = true
				}
			}
			alive[v] = false
			cnt--
			changed = true
		}
	}
	return cnt == 1
}

// FuncLabel is a stable human-readable identification of a function inside a corpus item.
func FuncLabel(prog *ir.Program, fn *ir.Function) string {
	pos := prog.Fset.Position(fn.Pos())
	s := fn.String()
	if fn.Synthetic != "" {
		s += " [" + fn.Synthetic + "]"
	}
	if pos.IsValid() {
		f := pos.Filename
		if i := strings.LastIndex(f, "/"); i >= 0 {
			f = f[i+1:]
		}
		s += fmt.Sprintf(" @%s:%d", f, pos.Line)
	}
	return s
}



// ---------------------------------------------------------------------------- instructions, values, types
//
// Serialised form of one function (JSON field names = Go field names; Gallina constructors in
// coq/Model/C02.v carry the same data in the same order):
//
//   IRFunc  { Blocks []IRBlock; Recover int; Params, FreeVars, Anons []IRLocal; Results []int; Types []IRType }
//   IRBlock { Index int (the BasicBlock.Index field); Preds, Succs []int (positions in fn.Blocks); Instrs []IRInstr }
//   IRInstr { Seq int (0-based position in block order, the id other records refer to); ID int (Instruction.ID());
//             Kind string (Go type name: "Store", "Phi", ...); Ops []IRVal; Refs []int (Seq of referrers; -1 = an
//             instruction that is not in the function); HasRefs bool (Referrers() != nil); Type int; Aux []int }
//   IRVal   { K string: i(nstruction Seq) p(aram idx) f(reevar idx) a(non. function idx) c(onst) g(lobal) F(unction)
//             b(uiltin) n(il) x(foreign: instruction/param/freevar of another function, or unknown); N int; T int (type id) }
//   IRLocal { Type int; Refs []int }                      (a value without position: Parameter, FreeVar, anonymous Function)
//   IRType  { ID int (1-based; 0 = no type); Kind string; Str string; Under, Core, Elem, Key int; Fields, Params, Results []int;
//             Variadic bool; Dir int; Len int64; Flags int (basic: 1 boolean 2 integer 4 unsigned 8 float 16 complex 32 string 64 untyped 128 unsafe.Pointer) }
//
// Type ids are equal iff go/types.Identical holds (interned through typeutil.Map); opaque types of go/ir
// (deferStack, iter) are interned by name. Under/Core/Elem/... are ids of the go/types accessors' results.

type IRVal struct {
	K string
	N int
	T int
}

type IRInstr struct {
	Seq     int
	ID      int
	Kind    string
	Ops     []IRVal
	Refs    []int
	HasRefs bool
	Type    int
	Aux     []int
	Str     string `json:",omitempty"`
}

type IRBlock struct {
	Index  int
	Preds  []int
	Succs  []int
	Instrs []IRInstr
}

type IRLocal struct {
	Type int
	Refs []int
}

type IRType struct {
	ID      int
	Kind    string
	Str     string
	Under   int
	Core    int
	Elem    int
	Key     int
	Fields  []int
	Params  []int
	Results []int
	Variadic bool
	Dir     int
	Len     int64
	Flags   int
}

type IRFunc struct {
	Blocks   []IRBlock
	Recover  int
	Params   []IRLocal
	FreeVars []IRLocal
	Anons    []IRLocal
	Results  []int
	NInstr   int
}

// TypeTable interns types for one ir.Program.
type TypeTable struct {
	m      typeutilMap
	opaque map[string]int
	Types  []*IRType
}

func NewTypeTable() *TypeTable {
	return &TypeTable{m: newTypeutilMap(), opaque: map[string]int{}}
}

func isStdType(t types.Type) bool {
	switch t.(type) {
	case *types.Basic, *types.Named, *types.Pointer, *types.Slice, *types.Array, *types.Map, *types.Chan, *types.Struct,
		*types.Tuple, *types.Signature, *types.Interface, *types.TypeParam, *types.Alias, *types.Union:
		return true
	}
	return false
}

// coreOf: for a type parameter the single underlying type shared by all terms of its constraint (nil if
// none); for every other type its underlying type.
func coreOf(t types.Type) types.Type {
	tp, ok := types.Unalias(t).(*types.TypeParam)
	if !ok {
		return t.Underlying()
	}
	var terms []types.Type
	var walk func(t types.Type, depth int) bool
	walk = func(t types.Type, depth int) bool {
		if depth > 8 {
			return false
		}
		switch u := t.Underlying().(type) {
		case *types.Interface:
			if p, ok := types.Unalias(t).(*types.TypeParam); ok && depth > 0 {
				return walk(p.Constraint(), depth+1)
			}
			any := false
			for i := 0; i < u.NumEmbeddeds(); i++ {
				et := u.EmbeddedType(i)
				if un, ok := types.Unalias(et).(*types.Union); ok {
					for j := 0; j < un.Len(); j++ {
						if !walk(un.Term(j).Type(), depth+1) {
							return false
						}
						any = true
					}
				} else if _, isIface := et.Underlying().(*types.Interface); isIface {
					if !walk(et, depth+1) {
						return false
					}
				} else {
					terms = append(terms, et.Underlying())
					any = true
				}
			}
			_ = any
			return true
		default:
			terms = append(terms, u)
			return true
		}
	}
	if !walk(tp.Constraint(), 0) || len(terms) == 0 {
		return nil
	}
	for _, x := range terms[1:] {
		if !types.Identical(x, terms[0]) {
			return nil
		}
	}
	return terms[0]
}

// containsNonStd reports whether t mentions (outside named types) a type that is not one of go/types'
// own kinds, e.g. go/ir's opaque deferStack / iter types; typeutil.Map cannot hash those.
func containsNonStd(t types.Type) bool {
	if t == nil {
		return false
	}
	if !isStdType(t) {
		return true
	}
	switch u := types.Unalias(t).(type) {
	case *types.Pointer:
		return containsNonStd(u.Elem())
	case *types.Slice:
		return containsNonStd(u.Elem())
	case *types.Array:
		return containsNonStd(u.Elem())
	case *types.Chan:
		return containsNonStd(u.Elem())
	case *types.Map:
		return containsNonStd(u.Key()) || containsNonStd(u.Elem())
	case *types.Tuple:
		for i := 0; i < u.Len(); i++ {
			if containsNonStd(u.At(i).Type()) {
				return true
			}
		}
	case *types.Signature:
		return containsNonStd(u.Params()) || containsNonStd(u.Results())
	case *types.Struct:
		for i := 0; i < u.NumFields(); i++ {
			if containsNonStd(u.Field(i).Type()) {
				return true
			}
		}
	}
	return false
}

func (tt *TypeTable) ID(t types.Type) int {
	if t == nil {
		return 0
	}
	if tu, ok := t.(*types.Tuple); ok && tu == nil {
		// go/types represents the empty tuple as a nil *Tuple (types.NewTuple() and Signature.Results() return it)
		if id, ok := tt.opaque["tuple()"]; ok {
			return id
		}
		e := &IRType{ID: len(tt.Types) + 1, Kind: "tuple", Str: "()"}
		tt.Types = append(tt.Types, e)
		tt.opaque["tuple()"] = e.ID
		e.Under, e.Core = e.ID, e.ID
		return e.ID
	}
	if !isStdType(t) {
		if id, ok := tt.opaque[t.String()]; ok {
			return id
		}
		e := &IRType{ID: len(tt.Types) + 1, Kind: "opaque", Str: t.String()}
		tt.Types = append(tt.Types, e)
		tt.opaque[t.String()] = e.ID
		e.Under, e.Core = e.ID, e.ID
		return e.ID
	}
	nonstd := containsNonStd(t)
	nskey := "composite:" + t.String()
	if sig, ok := t.(*types.Signature); ok && (sig.TypeParams().Len() > 0 || sig.RecvTypeParams().Len() > 0) {
		// types.Identical unifies the type parameters of two generic signatures positionally, so distinct generic
		// functions would share one entry whose Params/Results mention the type parameters of only one of them:
		// generic signatures are interned by object identity instead
		nonstd = true
		nskey = fmt.Sprintf("gsig:%p", sig)
	}
	if nonstd {
		if id, ok := tt.opaque[nskey]; ok {
			return id
		}
	} else if id, ok := tt.m.At(t); ok {
		return id
	}
	e := &IRType{ID: len(tt.Types) + 1, Str: types.TypeString(t, func(p *types.Package) string { return p.Name() })}
	tt.Types = append(tt.Types, e)
	if nonstd {
		tt.opaque[nskey] = e.ID
	} else {
		tt.m.Set(t, e.ID)
	}
	switch u := types.Unalias(t).(type) {
	case *types.Named:
		e.Kind = "named"
	case *types.TypeParam:
		e.Kind = "tparam"
	case *types.Basic:
		e.Kind = "basic"
		info := u.Info()
		if info&types.IsBoolean != 0 {
			e.Flags |= 1
		}
		if info&types.IsInteger != 0 {
			e.Flags |= 2
		}
		if info&types.IsUnsigned != 0 {
			e.Flags |= 4
		}
		if info&types.IsFloat != 0 {
			e.Flags |= 8
		}
		if info&types.IsComplex != 0 {
			e.Flags |= 16
		}
		if info&types.IsString != 0 {
			e.Flags |= 32
		}
		if info&types.IsUntyped != 0 {
			e.Flags |= 64
		}
		if u.Kind() == types.UnsafePointer {
			e.Flags |= 128
		}
	case *types.Pointer:
		e.Kind = "pointer"
		e.Elem = tt.ID(u.Elem())
	case *types.Slice:
		e.Kind = "slice"
		e.Elem = tt.ID(u.Elem())
	case *types.Array:
		e.Kind = "array"
		e.Elem = tt.ID(u.Elem())
		e.Len = u.Len()
	case *types.Map:
		e.Kind = "map"
		e.Key = tt.ID(u.Key())
		e.Elem = tt.ID(u.Elem())
	case *types.Chan:
		e.Kind = "chan"
		e.Elem = tt.ID(u.Elem())
		e.Dir = int(u.Dir())
	case *types.Struct:
		e.Kind = "struct"
		for i := 0; i < u.NumFields(); i++ {
			e.Fields = append(e.Fields, tt.ID(u.Field(i).Type()))
		}
	case *types.Tuple:
		e.Kind = "tuple"
		for i := 0; i < u.Len(); i++ {
			e.Fields = append(e.Fields, tt.ID(u.At(i).Type()))
		}
	case *types.Signature:
		e.Kind = "sig"
		for i := 0; i < u.Params().Len(); i++ {
			e.Params = append(e.Params, tt.ID(u.Params().At(i).Type()))
		}
		for i := 0; i < u.Results().Len(); i++ {
			e.Results = append(e.Results, tt.ID(u.Results().At(i).Type()))
		}
		e.Variadic = u.Variadic()
	case *types.Interface:
		e.Kind = "iface"
	case *types.Union:
		e.Kind = "union"
	default:
		e.Kind = "other"
	}
	e.Under = tt.ID(t.Underlying())
	if c := coreOf(t); c != nil {
		e.Core = tt.ID(c)
	}
	return e.ID
}

// SerFunc serialises fn. Instructions are numbered by position (block order); every reference to an
// instruction is resolved by pointer identity against that numbering.
func SerFunc(fn *ir.Function, tt *TypeTable, withStr bool) *IRFunc {
	pos := BlockPositions(fn)
	seq := map[ir.Instruction]int{}
	n := 0
	for _, b := range fn.Blocks {
		for _, instr := range b.Instrs {
			if instr != nil {
				seq[instr] = n
			}
			n++
		}
	}
	params := map[*ir.Parameter]int{}
	for i, p := range fn.Params {
		params[p] = i
	}
	frees := map[*ir.FreeVar]int{}
	for i, p := range fn.FreeVars {
		frees[p] = i
	}
	anons := map[*ir.Function]int{}
	for i, p := range fn.AnonFuncs {
		anons[p] = i
	}
	refsOf := func(v ir.Value) ([]int, bool) {
		rp := v.Referrers()
		if rp == nil {
			return nil, false
		}
		res := make([]int, 0, len(*rp))
		for _, r := range *rp {
			if s, ok := seq[r]; ok && r != nil {
				res = append(res, s)
			} else {
				res = append(res, -1)
			}
		}
		return res, true
	}
	val := func(v ir.Value) IRVal {
		if v == nil {
			return IRVal{K: "n"}
		}
		t := tt.ID(v.Type())
		switch v := v.(type) {
		case *ir.Parameter:
			if i, ok := params[v]; ok {
				return IRVal{"p", i, t}
			}
			return IRVal{"x", 0, t}
		case *ir.FreeVar:
			if i, ok := frees[v]; ok {
				return IRVal{"f", i, t}
			}
			return IRVal{"x", 1, t}
		case *ir.Const, *ir.AggregateConst:
			return IRVal{"c", 0, t}
		case *ir.Global:
			return IRVal{"g", 0, t}
		case *ir.Builtin:
			return IRVal{"b", 0, t}
		case *ir.Function:
			if i, ok := anons[v]; ok {
				return IRVal{"a", i, t}
			}
			if v.Parent() != nil {
				return IRVal{"x", 2, t} // anonymous function of another function used as an operand
			}
			return IRVal{"F", 0, t}
		}
		if instr, ok := v.(ir.Instruction); ok {
			if s, ok := seq[instr]; ok {
				return IRVal{"i", s, t}
			}
			return IRVal{"x", 3, t}
		}
		return IRVal{"x", 4, t}
	}
	out := &IRFunc{Recover: BlockIndex(pos, fn.Recover), NInstr: n}
	for _, p := range fn.Params {
		r, _ := refsOf(p)
		out.Params = append(out.Params, IRLocal{tt.ID(p.Type()), r})
	}
	for _, p := range fn.FreeVars {
		r, _ := refsOf(p)
		out.FreeVars = append(out.FreeVars, IRLocal{tt.ID(p.Type()), r})
	}
	for _, p := range fn.AnonFuncs {
		r, _ := refsOf(p)
		out.Anons = append(out.Anons, IRLocal{tt.ID(p.Type()), r})
	}
	for i := 0; i < fn.Signature.Results().Len(); i++ {
		out.Results = append(out.Results, tt.ID(fn.Signature.Results().At(i).Type()))
	}
	b2i := func(b bool) int {
		if b {
			return 1
		}
		return 0
	}
	callAux := func(c *ir.CallCommon) []int {
		// [mode, receiver type of the callee's signature (0 = none), method signature (invoke mode)]
		if c.IsInvoke() {
			return []int{1, 0, tt.ID(c.Method.Type())}
		}
		if _, ok := c.Value.(*ir.Builtin); ok {
			return []int{2, 0, 0}
		}
		recv := 0
		if c.Value != nil {
			if sig, ok := coreOf(c.Value.Type()).(*types.Signature); ok && sig.Recv() != nil {
				recv = tt.ID(sig.Recv().Type())
			}
		}
		return []int{0, recv, 0}
	}
	k := 0
	for _, b := range fn.Blocks {
		sb := IRBlock{Index: b.Index, Preds: []int{}, Succs: []int{}}
		for _, c := range b.Preds {
			sb.Preds = append(sb.Preds, BlockIndex(pos, c))
		}
		for _, c := range b.Succs {
			sb.Succs = append(sb.Succs, BlockIndex(pos, c))
		}
		for _, instr := range b.Instrs {
			si := IRInstr{Seq: k}
			k++
			if instr == nil {
				si.Kind = "Nil"
				sb.Instrs = append(sb.Instrs, si)
				continue
			}
			si.ID = int(instr.ID())
			si.Kind = strings.TrimPrefix(fmt.Sprintf("%T", instr), "*ir.")
			if withStr {
				si.Str = instr.String()
			}
			for _, op := range instr.Operands(nil) {
				si.Ops = append(si.Ops, val(*op))
			}
			if v, ok := instr.(ir.Value); ok {
				si.Type = tt.ID(v.Type())
				si.Refs, si.HasRefs = refsOf(v)
			}
			if instr.Block() != b {
				si.Aux = append(si.Aux, -1) // Block() does not point back to the containing block
				si.Kind = "Misplaced:" + si.Kind
			}
			switch x := instr.(type) {
			case *ir.BinOp:
				si.Aux = []int{int(x.Op)}
			case *ir.UnOp:
				si.Aux = []int{int(x.Op)}
			case *ir.FieldAddr:
				si.Aux = []int{x.Field}
			case *ir.Field:
				si.Aux = []int{x.Field}
			case *ir.Extract:
				si.Aux = []int{x.Index}
			case *ir.MapLookup:
				si.Aux = []int{b2i(x.CommaOk)}
			case *ir.Recv:
				si.Aux = []int{b2i(x.CommaOk)}
			case *ir.TypeAssert:
				si.Aux = []int{b2i(x.CommaOk), tt.ID(x.AssertedType)}
			case *ir.Call:
				si.Aux = callAux(&x.Call)
			case *ir.Go:
				si.Aux = callAux(&x.Call)
			case *ir.Defer:
				si.Aux = callAux(&x.Call)
			case *ir.MakeClosure:
				if f, ok := x.Fn.(*ir.Function); ok {
					for _, fv := range f.FreeVars {
						si.Aux = append(si.Aux, tt.ID(fv.Type()))
					}
				} else {
					si.Aux = []int{-1}
				}
			case *ir.Select:
				si.Aux = []int{b2i(x.Blocking)}
				for _, st := range x.States {
					si.Aux = append(si.Aux, int(st.Dir))
				}
			case *ir.Alloc:
				si.Aux = []int{b2i(x.Heap)}
			case *ir.Next:
				si.Aux = []int{b2i(x.IsString)}
			case *ir.DebugRef:
				si.Aux = []int{b2i(x.IsAddr)}
			}
			sb.Instrs = append(sb.Instrs, si)
		}
		out.Blocks = append(out.Blocks, sb)
	}
	return out
}
