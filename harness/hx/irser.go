// irser.go — loading packages, building go/ir under a given BuilderMode and serialising functions.
// Owner: builder of C14/C02.  Reusable by other IR-level checks (C01, C13, C15): the JSON shapes
// below (IRFunc, IRBlock, IRInstr, IRVal, IRType) are documented in /verif/design.d/C02.md.
//
// Only the exported API of honnef.co/go/tools/go/ir is used (no hooks).
package hx

import (
	"fmt"
	"go/token"
	"go/types"
	"math/big"
	"sort"
	"strings"

	"golang.org/x/tools/go/packages"
	"honnef.co/go/tools/go/ir"
	"honnef.co/go/tools/go/ir/irutil"
)

// ModeLetters renders the four mode bits the properties quantify over: N(aive) D(ebug) G(enerics) L(serial).
func ModeLetters(m ir.BuilderMode) string {
	s := ""
	if m&ir.NaiveForm != 0 {
		s += "N"
	}
	if m&ir.GlobalDebug != 0 {
		s += "D"
	}
	if m&ir.InstantiateGenerics != 0 {
		s += "G"
	}
	if m&ir.BuildSerially != 0 {
		s += "L"
	}
	if s == "" {
		s = "-"
	}
	return s
}

// AllModes returns the 16 combinations of NaiveForm x GlobalDebug x InstantiateGenerics x BuildSerially.
func AllModes() []ir.BuilderMode {
	var res []ir.BuilderMode
	for i := 0; i < 16; i++ {
		var m ir.BuilderMode
		if i&1 != 0 {
			m |= ir.NaiveForm
		}
		if i&2 != 0 {
			m |= ir.GlobalDebug
		}
		if i&4 != 0 {
			m |= ir.InstantiateGenerics
		}
		if i&8 != 0 {
			m |= ir.BuildSerially
		}
		res = append(res, m)
	}
	return res
}

// LoadSyntax loads the packages matching patterns in dir with syntax and type information
// (dependencies from export data). overlay may be nil. Packages with errors are dropped.
func LoadSyntax(dir string, extraEnv []string, overlay map[string][]byte, tests bool, patterns ...string) ([]*packages.Package, error) {
	cfg := &packages.Config{
		Mode:    packages.NeedName | packages.NeedFiles | packages.NeedCompiledGoFiles | packages.NeedImports | packages.NeedTypes | packages.NeedTypesSizes | packages.NeedSyntax | packages.NeedTypesInfo | packages.NeedDeps,
		Dir:     dir,
		Env:     append(GoEnv(), extraEnv...),
		Overlay: overlay,
		Tests:   tests,
		Fset:    token.NewFileSet(),
	}
	// NeedDeps with NeedTypes type-checks dependencies from source only when NeedSyntax is requested for
	// them, which go/packages does for LoadAllSyntax; to keep loads fast we drop NeedDeps and let the
	// dependencies come from export data.
	cfg.Mode &^= packages.NeedDeps
	pkgs, err := packages.Load(cfg, patterns...)
	if err != nil {
		return nil, err
	}
	var ok []*packages.Package
	for _, p := range pkgs {
		if len(p.Errors) > 0 || p.Types == nil || p.IllTyped || len(p.Syntax) == 0 {
			continue
		}
		ok = append(ok, p)
	}
	sort.Slice(ok, func(i, j int) bool { return ok[i].ID < ok[j].ID })
	return ok, nil
}

// BuildFunctions builds IR for pkgs under mode and returns every function that has a body:
// package members, methods, anonymous functions, and the synthetic wrappers/thunks/instances
// that irutil.AllFunctions discovers. The order is deterministic.
func BuildFunctions(pkgs []*packages.Package, mode ir.BuilderMode) (*ir.Program, []*ir.Function) {
	prog, irpkgs := irutil.Packages(pkgs, mode)
	prog.Build()
	seen := map[*ir.Function]bool{}
	var visit func(fn *ir.Function)
	visit = func(fn *ir.Function) {
		if fn == nil || seen[fn] {
			return
		}
		seen[fn] = true
		for _, a := range fn.AnonFuncs {
			visit(a)
		}
	}
	for fn := range irutil.AllFunctions(prog) {
		visit(fn)
	}
	for _, p := range irpkgs {
		if p == nil {
			continue
		}
		for _, fn := range p.Functions {
			visit(fn)
		}
	}
	// operands may mention further functions (instances created while building)
	for changed := true; changed; {
		changed = false
		for fn := range seen {
			for _, b := range fn.Blocks {
				for _, instr := range b.Instrs {
					for _, op := range instr.Operands(nil) {
						if f, ok := (*op).(*ir.Function); ok && !seen[f] {
							visit(f)
							changed = true
						}
					}
				}
			}
		}
	}
	var fns []*ir.Function
	for fn := range seen {
		if len(fn.Blocks) > 0 {
			fns = append(fns, fn)
		}
	}
	key := func(fn *ir.Function) string {
		pos := prog.Fset.Position(fn.Pos())
		return fmt.Sprintf("%s\x00%s\x00%s:%09d:%05d\x00%s", FuncPkgPath(fn), fn.String(), pos.Filename, pos.Line, pos.Column, fn.Synthetic)
	}
	keys := make(map[*ir.Function]string, len(fns))
	for _, fn := range fns {
		keys[fn] = key(fn)
	}
	sort.SliceStable(fns, func(i, j int) bool { return keys[fns[i]] < keys[fns[j]] })
	return prog, fns
}

func FuncPkgPath(fn *ir.Function) string {
	for f := fn; f != nil; f = f.Parent() {
		if f.Pkg != nil && f.Pkg.Pkg != nil {
			return f.Pkg.Pkg.Path()
		}
	}
	return "(shared)"
}

// ---------------------------------------------------------------------------- CFG + dominance

// IRCFG is the control-flow graph of one function as go/ir exposes it.
type IRCFG struct {
	Succs   [][]int
	Preds   [][]int
	Recover int // block index or -1
}

// IRDom holds the five observables of C14 for one function.
type IRDom struct {
	Dominates []string // row b: decimal of the bit set { c | Blocks[b].Dominates(Blocks[c]) }
	Idom      []int    // -1 = nil
	Dominees  [][]int
	Pre       []int // DomPreorder as block indices
	Post      []int // DomPostorder
}

// BlockIndex resolves a block to its position in fn.Blocks by identity (not by the Index field, which
// is itself under test); -1 if the block is not a member of fn.Blocks.
func BlockIndex(pos map[*ir.BasicBlock]int, b *ir.BasicBlock) int {
	if b == nil {
		return -1
	}
	if i, ok := pos[b]; ok {
		return i
	}
	return -2
}

func BlockPositions(fn *ir.Function) map[*ir.BasicBlock]int {
	pos := make(map[*ir.BasicBlock]int, len(fn.Blocks))
	for i, b := range fn.Blocks {
		pos[b] = i
	}
	return pos
}

func CFGOf(fn *ir.Function) IRCFG {
	pos := BlockPositions(fn)
	g := IRCFG{Recover: BlockIndex(pos, fn.Recover)}
	for _, b := range fn.Blocks {
		s := make([]int, 0, len(b.Succs))
		for _, c := range b.Succs {
			s = append(s, BlockIndex(pos, c))
		}
		p := make([]int, 0, len(b.Preds))
		for _, c := range b.Preds {
			p = append(p, BlockIndex(pos, c))
		}
		g.Succs = append(g.Succs, s)
		g.Preds = append(g.Preds, p)
	}
	return g
}

func DomOf(fn *ir.Function) IRDom {
	pos := BlockPositions(fn)
	var d IRDom
	for _, b := range fn.Blocks {
		row := new(big.Int)
		for j, c := range fn.Blocks {
			if b.Dominates(c) {
				row.SetBit(row, j, 1)
			}
		}
		d.Dominates = append(d.Dominates, row.String())
		d.Idom = append(d.Idom, BlockIndex(pos, b.Idom()))
		kids := []int{}
		for _, c := range b.Dominees() {
			kids = append(kids, BlockIndex(pos, c))
		}
		d.Dominees = append(d.Dominees, kids)
	}
	for _, b := range fn.DomPreorder() {
		d.Pre = append(d.Pre, BlockIndex(pos, b))
	}
	for _, b := range fn.DomPostorder() {
		d.Post = append(d.Post, BlockIndex(pos, b))
	}
	return d
}

// CFGStats classifies a CFG for the coverage report.
type CFGStats struct {
	Blocks, Edges int
	Join          bool // some block has >= 2 predecessors
	Cycle         bool
	Irreducible   bool // has a cycle that survives T1/T2 reduction
}

func StatsOf(g IRCFG) CFGStats {
	n := len(g.Succs)
	st := CFGStats{Blocks: n}
	for i := range g.Succs {
		st.Edges += len(g.Succs[i])
		if len(g.Preds[i]) >= 2 {
			st.Join = true
		}
	}
	// cycle detection (iterative colouring)
	color := make([]int, n)
	var dfs func(int) bool
	dfs = func(u int) bool {
		color[u] = 1
		for _, v := range g.Succs[u] {
			if v < 0 || v >= n {
				continue
			}
			if color[v] == 1 || (color[v] == 0 && dfs(v)) {
				return true
			}
		}
		color[u] = 2
		return false
	}
	for u := 0; u < n && !st.Cycle; u++ {
		if color[u] == 0 && dfs(u) {
			st.Cycle = true
		}
	}
	if st.Cycle {
		st.Irreducible = !reducible(g)
	}
	return st
}

// reducible: T1 (remove self loops) / T2 (merge a node with its unique predecessor) to a single node,
// on the part reachable from the entry.
func reducible(g IRCFG) bool {
	n := len(g.Succs)
	succ := make([]map[int]bool, n)
	pred := make([]map[int]bool, n)
	alive := make([]bool, n)
	var mark func(int)
	mark = func(u int) {
		alive[u] = true
		for _, v := range g.Succs[u] {
			if v >= 0 && v < n && !alive[v] {
				mark(v)
			}
		}
	}
	if n == 0 {
		return true
	}
	mark(0)
	for i := 0; i < n; i++ {
		succ[i], pred[i] = map[int]bool{}, map[int]bool{}
	}
	for u := 0; u < n; u++ {
		if !alive[u] {
			continue
		}
		for _, v := range g.Succs[u] {
			if v >= 0 && v < n && u != v {
				succ[u][v] = true
				pred[v][u] = true
			}
		}
	}
	cnt := 0
	for _, a := range alive {
		if a {
			cnt++
		}
	}
	for changed := true; changed && cnt > 1; {
		changed = false
		for v := 1; v < n; v++ {
			if !alive[v] || len(pred[v]) != 1 {
				continue
			}
			var u int
			for p := range pred[v] {
				u = p
			}
			// merge v into u
			delete(succ[u], v)
			for w := range succ[v] {
				delete(pred[w], v)
				if w != u {
					succ[u][w] = true
					pred[w][u] = true
				}
			}
			alive[v] = false
			cnt--
			changed = true
		}
	}
	return cnt == 1
}

// FuncLabel is a stable human-readable identification of a function inside a corpus item.
func FuncLabel(prog *ir.Program, fn *ir.Function) string {
	pos := prog.Fset.Position(fn.Pos())
	s := fn.String()
	if fn.Synthetic != "" {
		s += " [" + fn.Synthetic + "]"
	}
	if pos.IsValid() {
		f := pos.Filename
		if i := strings.LastIndex(f, "/"); i >= 0 {
			f = f[i+1:]
		}
		s += fmt.Sprintf(" @%s:%d", f, pos.Line)
	}
	return s
}

var _ = types.Identical
