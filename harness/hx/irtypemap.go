package hx

import (
	"go/types"

	"golang.org/x/tools/go/types/typeutil"
)

// typeutilMap wraps x/tools' typeutil.Map (keys compared with types.Identical) as a types.Type -> int map.
type typeutilMap struct{ m *typeutil.Map }

func newTypeutilMap() typeutilMap { return typeutilMap{m: new(typeutil.Map)} }

func (t typeutilMap) At(k types.Type) (int, bool) {
	v := t.m.At(k)
	if v == nil {
		return 0, false
	}
	return v.(int), true
}

func (t typeutilMap) Set(k types.Type, v int) { t.m.Set(k, v) }
