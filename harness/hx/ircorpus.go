// ircorpus.go — the corpora shared by hc14 / hc02: generated packages, packages of the repository
// under test, and */testdata packages, each loaded once and built under several builder modes.
// Owner: builder of C14/C02.
package hx

import (
	"fmt"
	"os"
	"path/filepath"
	"sort"
	"strings"
	"sync"

	"golang.org/x/tools/go/packages"
)

// CorpusItem is a set of packages loaded together (one go/packages.Load call).
type CorpusItem struct {
	Name    string // e.g. "gen/p3", "repo/pattern", "testdata/staticcheck/sa4006/go1.0"
	Kind    string // gen | repo | testdata
	Dir     string
	Pkgs    []*packages.Package
	Sources map[string]string // generated sources (path -> text), for replay
	Gen     GenStats
}

func RepoDir() string {
	if r := os.Getenv("VERIF_REPO"); r != "" {
		return r
	}
	return "/repo"
}

// GenCorpus writes npkgs generated packages of nfuncs functions each under work/gen and loads them.
func GenCorpus(r *Rand, work string, npkgs, nfuncs int) ([]*CorpusItem, error) {
	dir := filepath.Join(work, "gen")
	WriteFile(filepath.Join(dir, "go.mod"), "module gen\n\ngo 1.24\n")
	srcs := map[string]map[string]string{}
	stats := map[string]GenStats{}
	for i := 0; i < npkgs; i++ {
		name := fmt.Sprintf("p%d", i)
		src, st := GenPackage(r.Fork(), name, nfuncs)
		path := filepath.Join(dir, name, name+".go")
		WriteFile(path, src)
		srcs["gen/"+name] = map[string]string{path: src}
		stats["gen/"+name] = st
	}
	pkgs, err := LoadSyntax(dir, []string{"GOWORK=off"}, nil, false, "./...")
	if err != nil {
		return nil, err
	}
	if len(pkgs) != npkgs {
		// a generated package failed to type-check: that is a harness bug, report loudly
		all, _ := packages.Load(&packages.Config{Mode: packages.NeedName | packages.NeedTypes | packages.NeedSyntax | packages.NeedTypesInfo | packages.NeedImports | packages.NeedFiles | packages.NeedCompiledGoFiles, Dir: dir, Env: append(GoEnv(), "GOWORK=off")}, "./...")
		var sb strings.Builder
		for _, p := range all {
			for _, e := range p.Errors {
				fmt.Fprintf(&sb, "%s: %v\n", p.ID, e)
			}
		}
		return nil, fmt.Errorf("generated packages do not type-check (%d of %d loaded):\n%s", len(pkgs), npkgs, sb.String())
	}
	var items []*CorpusItem
	for _, p := range pkgs {
		name := "gen/" + p.Name
		items = append(items, &CorpusItem{Name: name, Kind: "gen", Dir: dir, Pkgs: []*packages.Package{p}, Sources: srcs[name], Gen: stats[name]})
	}
	return items, nil
}

// RepoCorpus loads packages of the repository under test (patterns relative to its root), one item per package.
func RepoCorpus(patterns []string) ([]*CorpusItem, error) {
	pkgs, err := LoadSyntax(RepoDir(), nil, nil, false, patterns...)
	if err != nil {
		return nil, err
	}
	var items []*CorpusItem
	for _, p := range pkgs {
		items = append(items, &CorpusItem{Name: "repo/" + strings.TrimPrefix(p.PkgPath, "honnef.co/go/tools/"), Kind: "repo", Dir: RepoDir(), Pkgs: []*packages.Package{p}})
	}
	return items, nil
}

// TestdataDirs lists the <analyzer>/testdata/go1.N directories of the repository (the layout the
// repository's own analyzer tests load with an overlay go.mod).
func TestdataDirs() []string {
	var dirs []string
	root := RepoDir()
	for _, top := range []string{"staticcheck", "simple", "stylecheck", "quickfix", "unused"} {
		ms, _ := filepath.Glob(filepath.Join(root, top, "*", "testdata", "go1.*"))
		dirs = append(dirs, ms...)
		ms, _ = filepath.Glob(filepath.Join(root, top, "testdata", "go1.*"))
		dirs = append(dirs, ms...)
	}
	sort.Strings(dirs)
	return dirs
}

// TestdataCorpus loads the given testdata directories (in parallel); directories that do not load are skipped.
func TestdataCorpus(dirs []string) []*CorpusItem {
	items := make([]*CorpusItem, len(dirs))
	var wg sync.WaitGroup
	sem := make(chan struct{}, 8)
	root := RepoDir()
	for i, d := range dirs {
		wg.Add(1)
		go func(i int, d string) {
			defer wg.Done()
			sem <- struct{}{}
			defer func() { <-sem }()
			vers := strings.TrimPrefix(filepath.Base(d), "go")
			overlay := map[string][]byte{filepath.Join(d, "go.mod"): []byte("module example.com\ngo " + vers + "\n")}
			pkgs, err := LoadSyntax(d, []string{"GOWORK=off", "GOFLAGS=-mod=mod"}, overlay, false, "./...")
			if err != nil || len(pkgs) == 0 {
				return
			}
			rel, _ := filepath.Rel(root, d)
			items[i] = &CorpusItem{Name: "testdata/" + strings.Replace(rel, "/testdata", "", 1), Kind: "testdata", Dir: d, Pkgs: pkgs}
		}(i, d)
	}
	wg.Wait()
	var res []*CorpusItem
	for _, it := range items {
		if it != nil {
			res = append(res, it)
		}
	}
	return res
}

// Sample picks k elements of xs (all if k <= 0 or k >= len) with r, preserving order.
func Sample[T any](r *Rand, xs []T, k int) []T {
	if k <= 0 || k >= len(xs) {
		return xs
	}
	idx := make([]int, len(xs))
	for i := range idx {
		idx[i] = i
	}
	for i := 0; i < k; i++ {
		j := i + r.Intn(len(idx)-i)
		idx[i], idx[j] = idx[j], idx[i]
	}
	pick := idx[:k]
	sort.Ints(pick)
	res := make([]T, 0, k)
	for _, i := range pick {
		res = append(res, xs[i])
	}
	return res
}
