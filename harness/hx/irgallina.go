// irgallina.go — Gallina rendering of the serialised IR (constructors of coq/Model/C02.v).
// Owner: builder of C14/C02.
package hx

import (
	"fmt"
	"go/token"
	"strings"
)

var irKinds = map[string]bool{}

func init() {
	for _, k := range strings.Fields("Alloc Phi Call BinOp UnOp Load ChangeType Convert MultiConvert ChangeInterface SliceToArrayPointer SliceToArray MakeInterface MakeClosure MakeMap MakeChan MakeSlice Slice FieldAddr Field IndexAddr Index MapLookup StringLookup Select Range Next TypeAssert Extract CompositeValue TypeSwitch Jump Unreachable If ConstantSwitch Return Panic RunDefers Go Defer Send Recv Store BlankStore MapUpdate DebugRef") {
		irKinds[k] = true
	}
}

func gKind(k string) string {
	if irKinds[k] {
		return "K" + k
	}
	if k == "Nil" || strings.HasPrefix(k, "Misplaced:") {
		return "KBad"
	}
	return "KOther"
}

func nl(xs []int) string {
	var sb strings.Builder
	sb.WriteByte('[')
	for i, x := range xs {
		if i > 0 {
			sb.WriteByte(';')
		}
		fmt.Fprintf(&sb, "%d", x)
	}
	sb.WriteByte(']')
	return sb.String()
}

// typeRefs lists the positions at which an instruction's Aux holds type ids.
func auxTypePositions(kind string, aux []int) []int {
	switch kind {
	case "TypeAssert":
		return []int{1}
	case "Call", "Go", "Defer":
		return []int{1, 2}
	case "MakeClosure":
		var r []int
		for i := range aux {
			r = append(r, i)
		}
		return r
	}
	return nil
}

func binopClass(op int) int {
	switch token.Token(op) {
	case token.SHL, token.SHR:
		return 1
	case token.EQL, token.NEQ, token.LSS, token.LEQ, token.GTR, token.GEQ:
		return 2
	}
	return 0
}

// UsedTypes adds every type id mentioned by f to used.
func (f *IRFunc) UsedTypes(used map[int]bool) {
	for _, b := range f.Blocks {
		for _, in := range b.Instrs {
			used[in.Type] = true
			for _, o := range in.Ops {
				used[o.T] = true
			}
			for _, p := range auxTypePositions(in.Kind, in.Aux) {
				if p < len(in.Aux) && in.Aux[p] > 0 {
					used[in.Aux[p]] = true
				}
			}
		}
	}
	for _, ls := range [][]IRLocal{f.Params, f.FreeVars, f.Anons} {
		for _, l := range ls {
			used[l.Type] = true
		}
	}
	for _, r := range f.Results {
		used[r] = true
	}
}

// CompactTypes returns the entries of tt reachable from used through the accessors (Under, Core, Elem, Key,
// Fields, Params, Results) up to the given depth, renumbered densely from 1, and the renumbering.
// Accessor ids that fall outside the set become 0.
func CompactTypes(tt *TypeTable, used map[int]bool, depth int) ([]IRType, map[int]int) {
	level := map[int]int{}
	var frontier []int
	for id := range used {
		if id > 0 {
			level[id] = 0
			frontier = append(frontier, id)
		}
	}
	for d := 0; d < depth; d++ {
		var next []int
		for _, id := range frontier {
			t := tt.Types[id-1]
			succ := append([]int{t.Under, t.Core, t.Elem, t.Key}, t.Fields...)
			succ = append(succ, t.Params...)
			succ = append(succ, t.Results...)
			for _, s := range succ {
				if s > 0 {
					if _, ok := level[s]; !ok {
						level[s] = d + 1
						next = append(next, s)
					}
				}
			}
		}
		frontier = next
	}
	remap := map[int]int{0: 0}
	var ids []int
	for id := 1; id <= len(tt.Types); id++ {
		if _, ok := level[id]; ok {
			ids = append(ids, id)
			remap[id] = len(ids)
		}
	}
	mapl := func(xs []int) []int {
		r := make([]int, len(xs))
		for i, x := range xs {
			r[i] = remap[x]
		}
		return r
	}
	var out []IRType
	for _, id := range ids {
		t := *tt.Types[id-1]
		t.ID = remap[id]
		t.Under, t.Core, t.Elem, t.Key = remap[t.Under], remap[t.Core], remap[t.Elem], remap[t.Key]
		t.Fields, t.Params, t.Results = mapl(t.Fields), mapl(t.Params), mapl(t.Results)
		out = append(out, t)
	}
	return out, remap
}

var gTKind = map[string]string{"basic": "TBasic", "named": "TNamed", "tparam": "TTParam", "pointer": "TPointer", "slice": "TSlice", "array": "TArray",
	"map": "TMap", "chan": "TChan", "struct": "TStruct", "tuple": "TTuple", "sig": "TSig", "iface": "TIface", "union": "TUnion", "opaque": "TOpaque"}

// GallinaTypes renders a compacted type table as a `tytable` literal.
func GallinaTypes(ts []IRType) string {
	var sb strings.Builder
	sb.WriteString("[")
	for i, t := range ts {
		if i > 0 {
			sb.WriteString(";\n ")
		}
		k := gTKind[t.Kind]
		if k == "" {
			k = "TOther"
		}
		v := "false"
		if t.Variadic {
			v = "true"
		}
		fmt.Fprintf(&sb, "mkT %s %d %d %d %d %s %s %s %s %d", k, t.Under, t.Core, t.Elem, t.Key, nl(t.Fields), nl(t.Params), nl(t.Results), v, t.Flags)
	}
	sb.WriteString("]")
	return sb.String()
}

// Gallina renders f as a `func` literal; type ids go through remap.
func (f *IRFunc) Gallina(remapIn map[int]int) string {
	var sb strings.Builder
	total := f.NInstr
	remap := func(x int) int {
		if remapIn == nil {
			return x // identity
		}
		return remapIn[x]
	}
	refs := func(rs []int) string {
		out := make([]int, len(rs))
		for i, r := range rs {
			if r < 0 {
				r = total
			}
			out[i] = r
		}
		return nl(out)
	}
	val := func(v IRVal) string {
		t := remap(v.T)
		switch v.K {
		case "i":
			return fmt.Sprintf("(VI %d,%d)", v.N, t)
		case "p":
			return fmt.Sprintf("(VP %d,%d)", v.N, t)
		case "f":
			return fmt.Sprintf("(VF %d,%d)", v.N, t)
		case "a":
			return fmt.Sprintf("(VA %d,%d)", v.N, t)
		case "c":
			return fmt.Sprintf("(VC,%d)", t)
		case "g":
			return fmt.Sprintf("(VG,%d)", t)
		case "F":
			return fmt.Sprintf("(VFn,%d)", t)
		case "b":
			return fmt.Sprintf("(VB,%d)", t)
		case "n":
			return "(VN,0)"
		}
		return fmt.Sprintf("(VX,%d)", t)
	}
	locals := func(ls []IRLocal) string {
		var p []string
		for _, l := range ls {
			p = append(p, fmt.Sprintf("mkL %d %s", remap(l.Type), refs(l.Refs)))
		}
		return "[" + strings.Join(p, ";") + "]"
	}
	sb.WriteString("mkF [")
	for bi, b := range f.Blocks {
		if bi > 0 {
			sb.WriteString(";\n  ")
		}
		idx := func(xs []int) []int {
			r := make([]int, len(xs))
			for i, x := range xs {
				if x < 0 {
					x = len(f.Blocks) // dangling block: out of range
				}
				r[i] = x
			}
			return r
		}
		bindex := b.Index
		if bindex < 0 {
			bindex = len(f.Blocks)
		}
		fmt.Fprintf(&sb, "mkB %d %s %s [", bindex, nl(idx(b.Preds)), nl(idx(b.Succs)))
		for ii, in := range b.Instrs {
			if ii > 0 {
				sb.WriteString(";\n    ")
			}
			var ops []string
			for _, o := range in.Ops {
				ops = append(ops, val(o))
			}
			r := "None"
			if in.HasRefs {
				r = "(Some " + refs(in.Refs) + ")"
			}
			aux := append([]int(nil), in.Aux...)
			if in.Kind == "BinOp" && len(aux) == 1 {
				aux[0] = binopClass(aux[0])
			}
			if in.Kind == "UnOp" && len(aux) == 1 { // 0 = logical negation (!), 1 = any other unary operator
				if token.Token(aux[0]) == token.NOT {
					aux[0] = 0
				} else {
					aux[0] = 1
				}
			}
			for _, p := range auxTypePositions(in.Kind, aux) {
				if p < len(aux) && aux[p] > 0 {
					aux[p] = remap(aux[p])
				}
			}
			for i := range aux {
				if aux[i] < 0 {
					aux[i] = 0
				}
			}
			id := in.ID
			if id < 0 {
				id = 0
			}
			fmt.Fprintf(&sb, "mkI %d %d %s [%s] %s %d %s", in.Seq, id, gKind(in.Kind), strings.Join(ops, ";"), r, remap(in.Type), nl(aux))
		}
		sb.WriteString("]")
	}
	rec := "None"
	if f.Recover >= 0 {
		rec = fmt.Sprintf("(Some %d)", f.Recover)
	} else if f.Recover < -1 {
		rec = fmt.Sprintf("(Some %d)", len(f.Blocks))
	}
	res := make([]int, len(f.Results))
	for i, r := range f.Results {
		res[i] = remap(r)
	}
	fmt.Fprintf(&sb, "]\n %s %s %s %s %s", rec, locals(f.Params), locals(f.FreeVars), locals(f.Anons), nl(res))
	return sb.String()
}
