// irgen.go — seeded generator of type-correct Go packages that exercise the IR builder:
//   * goto-built functions realising arbitrary (incl. irreducible) digraphs, with address-taken and
//     closure-captured locals living across the graph, optional defer/recover (Recover block);
//   * structured functions (if/for/range/switch/select/labelled break+continue, short-circuit
//     conditions, closures, range-over-func, type switches, named results, panics);
//   * generic functions with several instantiations (for InstantiateGenerics).
// Owner: builder of C14/C02. Everything derives from the *Rand passed in.
package hx

import (
	"fmt"
	"strings"
)

type GenStats struct {
	GotoFuncs, StructFuncs, GenericFuncs, RecoverFuncs int
}

type gen struct {
	r   *Rand
	sb  strings.Builder
	id  int
	st  GenStats
	ret string // return statement valid in the function being generated
}

func (g *gen) p(format string, a ...any) { fmt.Fprintf(&g.sb, format, a...) }

// GenPackage returns the source of one file of package name with about nfuncs functions.
func GenPackage(r *Rand, name string, nfuncs int) (string, GenStats) {
	g := &gen{r: r}
	g.p("package %s\n\n", name)
	g.p("type T struct { a, b int; next *T; f func(int) int }\n")
	g.p("type I interface { M(int) int }\n")
	g.p("type S []int\n")
	g.p("func (t *T) M(x int) int { if t == nil { return x }; return t.a + x }\n")
	g.p("func (s S) M(x int) int { if len(s) > 0 { return s[0] + x }; return x }\n")
	g.p("func ext(x int) int { return x ^ 5 }\n")
	g.p("var extf = func(x int) int { return x + 1 }\n")
	g.p("func iter(n int) func(func(int, int) bool) { return func(yield func(int, int) bool) { for i := 0; i < n; i++ { if !yield(i, i*i) { return } } } }\n")
	g.p("type Num interface { ~int | ~int64 | ~float64 }\n")
	g.p("func arrf() [4]int { return [4]int{1, 2, 3, 4} }\n")
	g.p("func tf() T { return T{a: 1, b: 2} }\n")
	g.p("var G int\nvar GP = &G\nvar GT T\n\n")
	for i := 0; i < nfuncs; i++ {
		switch k := g.r.Intn(10); {
		case k < 5:
			g.gotoFunc()
		case k < 9:
			g.structFunc()
		default:
			g.genericFunc()
		}
	}
	// always present: constraint methods obtained by promotion through embedded fields; dead defer statements
	g.promotedFuncs(strings.HasSuffix(name, "1") || strings.HasSuffix(name, "3") || strings.HasSuffix(name, "5") || strings.HasSuffix(name, "7") || strings.HasSuffix(name, "9"))
	g.deadDeferFuncs()
	// always present: named boolean types feeding &&, ||, ! and == directly, struct fields of named bool type, ~bool generics
	g.flagFuncs()
	// always present: range-over-func loops whose body defers (the yield closure captures the enclosing defer stack)
	for v := 0; v < 2; v++ {
		g.rfDeferFunc(v)
	}
	// always present: Lengauer-Tarjan "relative dominator" chains: fixed directed shapes, then randomised ones
	g.domDirected()
	for v := 0; v < 3; v++ {
		g.domChainFunc()
	}
	// always present: the "partially escaping local + side exit + join from an undominated predecessor" idiom
	for v := 0; v < 3; v++ {
		g.escFunc(v)
	}
	return g.sb.String(), g.st
}

// escFunc: a local declared in a non-entry block A has a liftable load, is LATER address-taken in a block U that
// leaves through a side exit (goto / break outer) to a landing block J; J has another predecessor Q that is
// reachable from A, not dominated by A and not reachable from U. The lifter splits the Alloc and must place
// the propagating load/store only in predecessors that the Alloc's block dominates.
func (g *gen) escFunc(variant int) {
	g.st.GotoFuncs++
	name := g.fresh("Esc")
	k1, k2 := 2+g.r.Intn(9), 3+g.r.Intn(9)
	extra := []string{"s += a", "s ^= 5", "s = s*3 + 1", "if a > 7 { s-- }"}[g.r.Intn(4)]
	switch variant {
	case 0: // goto out of the address-taking block; Q is entered from the entry block as well
		g.p("func %s(a int, c bool) int {\n\tvar p *int\n\ts := 0\n\tif c { goto Q }\n", name)
		g.p("\t{\n\t\tx := a + %d\n\t\ts += x\n\t\t%s\n\t\tif s > %d { goto Q }\n\t\tp = &x\n\t\ts += 2\n\t\tgoto J\n\t}\n", k1, extra, k2)
		g.p("Q:\n\ts++\n\t%s\nJ:\n\tif p != nil { s += *p }\n\treturn s\n}\n\n", extra)
	case 1: // two nested loops: the address-taking block always leaves both loops; the outer loop head also reaches J
		g.p("func %s(a int, c bool) int {\n\tvar p *int\n\ts := 0\nouter:\n\tfor i := 0; i < a; i++ {\n\t\tfor j := 0; j < a; j++ {\n", name)
		g.p("\t\t\tx := i + j + %d\n\t\t\ts += x\n\t\t\t%s\n\t\t\tif s > %d { continue }\n\t\t\tif c && s == %d { break }\n\t\t\tp = &x\n\t\t\tbreak outer\n\t\t}\n\t}\n", k1, extra, k2, k1)
		g.p("\tif p != nil { s += *p }\n\treturn s\n}\n\n")
	default: // irreducible region {L, M} entered at both nodes
		g.p("func %s(a int, c bool) int {\n\tvar p *int\n\ts := 0\n\tif c { goto M }\n", name)
		g.p("L:\n\t{\n\t\tx := a + %d\n\t\ts += x\n\t\t%s\n\t\tif s > %d { goto M }\n\t\tp = &x\n\t\tgoto J\n\t}\n", k1, extra, k2)
		g.p("M:\n\ts++\n\tif s < %d { goto L }\nJ:\n\tif p != nil { s += *p }\n\treturn s\n}\n\n", k2+5)
	}
}

// promotedFuncs: generic functions calling constraint methods (value and pointer receivers) on type-parameter values,
// instantiated with struct types that obtain the method by promotion through one or two embedded fields, by value
// and by pointer (the instance must emit the implicit Field/FieldAddr/Load path before the static call).
// withSet: the pointer-receiver variant (GenSet) is emitted only in odd-numbered packages, so that a builder that
// cannot build it still builds the value-receiver variant in the even-numbered ones.
func (g *gen) promotedFuncs(withSet bool) {
	g.st.GenericFuncs += 3
	k := 1 + g.r.Intn(9)
	g.p(`type Inner struct{ v int }

func (i Inner) Get() int   { return i.v }
func (i *Inner) Set(n int) { i.v = n }

type Mid struct {
	Inner
	k int
}
type Outer struct {
	Mid
	z int
}
type OuterP struct {
	*Mid
	z int
}
type OuterPP struct {
	*OuterP
}
type Getter interface{ Get() int }
type GetSetter[T any] interface {
	*T
	Get() int
	Set(int)
}

func GenGet[T Getter](x T, n int) int { return x.Get() + n }
func GenGetPtr[T Getter](x *T, n int) int { y := *x; return y.Get() * n }
`)
	if withSet {
		g.p(`func GenSet[T any, P GetSetter[T]](x *T, n int) int {
	P(x).Set(n)
	f := P(x).Get
	return P(x).Get() + f()
}
`)
	}
	g.p("func usePromoted(a int) int {\n\to := Outer{Mid: Mid{Inner: Inner{v: a}, k: %d}}\n\top := OuterP{Mid: &Mid{Inner: Inner{v: %d}}}\n\topp := OuterPP{&op}\n", k, k+1)
	g.p("\tr := GenGet(o, a) + GenGet(op, a) + GenGet(opp, 1) + GenGet(&o, 2) + GenGet(Mid{}, 1) + GenGet(Inner{v: 3}, a)\n")
	g.p("\tr += GenGetPtr(&o, a) + GenGetPtr(&op, 2)\n")
	if withSet {
		g.p("\tr += GenSet(&o, a) + GenSet(&op, %d) + GenSet(&opp, 1) + GenSet(&Mid{}, 2) + GenSet(&Inner{}, a)\n", k)
	}
	g.p("\treturn r\n}\n\n")
}

// deadDeferFuncs: functions whose only defer statements are dead code (after a return, after an endless loop), with
// named and unnamed results: a Recover block is created although no Defer instruction survives.
func (g *gen) deadDeferFuncs() {
	g.st.RecoverFuncs += 4
	k := 2 + g.r.Intn(7)
	g.p("func DeadDeferA(a int) (res int) {\n\tres = a + %d\n\tif a > 3 { res *= 2 }\n\treturn\n\tdefer func() { recover() }()\n\treturn\n}\n", k)
	g.p("func DeadDeferB(a int) int {\n\ts := a\n\tfor {\n\t\ts++\n\t\tif s > %d { return s }\n\t}\n\tdefer func() { G++ }()\n\treturn s\n}\n", k*3)
	g.p("func DeadDeferC(a int, b []int) (n int, err error) {\n\tfor _, x := range b { if x > a { n += x } }\n\tif n > %d { return n, nil }\n\treturn\n\tdefer func() { if r := recover(); r != nil { n = -1 } }()\n\tn++\n\treturn\n}\n", k)
	g.p("func DeadDeferD(a int) (res int) {\n\tx := a * %d\n\tgoto done\n\tdefer println(x)\ndone:\n\tres = x + 1\n\treturn res\n}\n\n", k)
}

// flagFuncs: comparisons whose go/types type is a NAMED boolean type, used as direct operands of operators.
func (g *gen) flagFuncs() {
	g.st.StructFuncs += 6
	k := 2 + g.r.Intn(7)
	g.p("type Flag bool\ntype Opt struct { Strict Flag; Limit int }\n")
	g.p("func (o Opt) ok(n int) Flag { return o.Strict && n < o.Limit }\n")
	g.p("func flagNot(f Flag, a, b int) Flag { return !(a < b+%d) || f }\n", k)
	g.p("func flagEq(f Flag, a, b int) bool { return f == (a >= b) || (a != %d) != f }\n", k)
	g.p("func flagMix(o *Opt, xs []int) (r Flag) {\n\tfor _, x := range xs {\n\t\tif o.Strict && x > o.Limit || !o.Strict && x == %d { r = !r }\n\t}\n\tvar q Flag = len(xs) > %d && !r\n\treturn r == (len(xs) > 2) || q\n}\n", k, k)
	g.p("func GenFlag[B ~bool](b B, x, y int) B { return b && x < y || !b && x == y+%d }\n", k)
	g.p("func useFlag(a int) bool {\n\to := Opt{Strict: a > 1, Limit: %d}\n\treturn bool(o.ok(a)) || bool(GenFlag(Flag(a == 2), a, 3)) || GenFlag(a < 0, 1, a) || flagEq(flagNot(o.Strict, a, 1), a, 2) || bool(flagMix(&o, []int{a}))\n}\n\n", k+1)
}

// rfDeferFunc: a range-over-func loop with a `defer` in its body: the synthetic yield function defers onto the
// enclosing function's defer stack, so the enclosing function's defer$stack cell is captured (escapes), while
// other locals of the enclosing function (n, w) stay liftable.
func (g *gen) rfDeferFunc(variant int) {
	g.st.StructFuncs++
	name := g.fresh("RfDefer")
	k := 2 + g.r.Intn(7)
	if variant == 0 {
		g.p("func %s(a int, b []int) (res int) {\n\tn := a + %d\n\tw := 0\n", name, k)
		g.p("\tfor i, v := range iter(a) {\n\t\tdefer func() { G += i }()\n\t\tif v > %d { break }\n\t\tres += v\n\t}\n", k*k)
		g.p("\tfor _, x := range b { if x > n { w += x } else { n++ } }\n\treturn n*2 + w\n}\n\n")
	} else {
		g.p("func %s(a int, b []int) (res int) {\n\tn, w := a, 1\n\tdefer func() { if recover() != nil { res = -1 } }()\n", name)
		g.p("\tif a > %d { n -= %d } else { w = n * 3 }\nouter:\n\tfor i := range iter(a) {\n\t\tfor j, v := range iter(i) {\n", k, k)
		g.p("\t\t\tdefer func() { G += j + v }()\n\t\t\tif v == %d { continue outer }\n\t\t\tif j > %d { return j }\n\t\t\tres++\n\t\t}\n\t}\n", k, k+3)
		g.p("\tfor n < w { n += 2 }\n\treturn n + w\n}\n\n")
	}
}

// domDirected: deterministic instances (no random choice affects the shape or the label order).
// DomSeedA: W's immediate dominator is resolved in LT step 4 through its relative dominator X, X's through U, and
// label W is written BEFORE label X, so W has the smaller block index although X precedes W in the DFS.
// DomSeedB/C: the gadget of domChainFunc with the labels written in reverse DFS order / deferred blocks first.
func (g *gen) domDirected() {
	g.st.GotoFuncs += 3
	g.p(`func DomSeedA(a int) int {
	s := 0
	if a&1 == 1 {
		goto S
	}
	goto M2
S:
	s += 1
	if a&2 == 2 {
		goto U
	}
	goto M
W:
	s += 4
	return s
U:
	s += 2
	if a&4 == 4 {
		goto X
	}
	goto W
X:
	s += 3
	goto W
M:
	s += 5
	goto X
M2:
	s += 6
	goto U
}

func DomSeedB(a int) int {
	s := 0
	if a&1 == 1 {
		goto A
	}
	goto H
D:
	s += 4
	return s
C:
	s += 3
	goto D
F:
	s += 5
	goto D
G:
	s += 6
	goto C
B:
	s += 2
	if a&4 == 4 {
		goto C
	}
	goto F
H:
	s += 7
	goto B
A:
	s += 1
	if a&2 == 2 {
		goto B
	}
	goto G
}

func DomSeedC(a int) int {
	s := 0
	if a&1 == 1 {
		goto A
	}
	goto H
D2:
	s += 14
	return s
D:
	s += 4
	if a&64 == 64 {
		goto A2
	}
	goto H2
C2:
	s += 13
	goto D2
C:
	s += 3
	goto D
A:
	s += 1
	if a&2 == 2 {
		goto B
	}
	goto G
B:
	s += 2
	if a&4 == 4 {
		goto C
	}
	goto F
F:
	s += 5
	goto D
G:
	s += 6
	goto C
H:
	s += 7
	goto B
A2:
	s += 11
	if a&8 == 8 {
		goto B2
	}
	goto G2
B2:
	s += 12
	if a&16 == 16 {
		goto C2
	}
	goto F2
F2:
	s += 15
	goto D2
G2:
	s += 16
	goto C2
H2:
	s += 17
	goto B2
}

`)
}

// domChainFunc: goto-built acyclic CFGs in which several blocks have a semidominator different from their
// immediate dominator, chained (the block that defers to a relative dominator whose own dominator is deferred
// too), one or two such gadgets in sequence, with the labels written in a random order.
//
//	gadget(r, exit): r->a,h  a->b,g  b->c,f  c->d  h->b  g->c  f->d  d->exit
//	sdom(b)=r, sdom(c)=a, sdom(d)=b; idom(b)=idom(c)=idom(d)=r, c and d resolved through relative dominators
func (g *gen) domChainFunc() {
	g.st.GotoFuncs++
	name := g.fresh("Dom")
	n := 0
	var succ [][]int
	node := func() int { succ = append(succ, nil); n++; return n - 1 }
	gadget := func(r int) int {
		a, b, c, d, f, gg, h := node(), node(), node(), node(), node(), node(), node()
		if g.r.Bool() {
			succ[r] = []int{a, h}
		} else {
			succ[r] = []int{h, a}
		}
		succ[a] = []int{b, gg}
		succ[b] = []int{c, f}
		succ[c] = []int{d}
		succ[h] = []int{b}
		succ[gg] = []int{c}
		succ[f] = []int{d}
		if g.r.Chance(40) { // extra cross edges keep the shape but vary the semidominators
			succ[h] = append(succ[h], f)
		}
		if g.r.Chance(30) {
			succ[a], succ[b] = []int{gg, b}, []int{f, c}
		}
		return d
	}
	r := node()
	d := gadget(r)
	if g.r.Chance(60) {
		d = gadget(d)
	}
	if g.r.Chance(30) {
		succ[d] = []int{r} // make it a loop
		e := node()
		succ[succ[r][0]] = append(succ[succ[r][0]], e)
		d = e
	}
	order := make([]int, 0, n)
	for u := 1; u < n; u++ {
		order = append(order, u)
	}
	if g.r.Chance(40) {
		for i, j := 0, len(order)-1; i < j; i, j = i+1, j-1 {
			order[i], order[j] = order[j], order[i]
		}
	} else {
		for i := len(order) - 1; i > 0; i-- {
			j := g.r.Intn(i + 1)
			order[i], order[j] = order[j], order[i]
		}
	}
	order = append([]int{0}, order...)
	g.p("func %s(a int, b []int) int {\n\ts, t := 0, 1\n\tvar p *int = &t\n\t_ = p\n", name)
	targeted := make([]bool, n)
	for _, out := range succ {
		for _, v := range out {
			targeted[v] = true
		}
	}
	for _, u := range order {
		if targeted[u] {
			g.p("L%d:\n", u)
		}
		switch g.r.Intn(4) {
		case 0:
			g.p("\ts += a + %d\n", u)
		case 1:
			g.p("\tt = s*%d + len(b)\n", u+2)
		case 2:
			g.p("\t*p += s\n")
		default:
			g.p("\tif len(b) > %d { s += b[%d] }\n", u, u)
		}
		switch out := succ[u]; len(out) {
		case 0:
			g.p("\treturn s + t\n")
		case 1:
			g.p("\tgoto L%d\n", out[0])
		case 2:
			g.p("\tif (a>>%d)&1 == 1 { goto L%d }\n\tgoto L%d\n", u%20, out[0], out[1])
		default:
			g.p("\tswitch (a + s) %% %d {\n", len(out))
			for j := 0; j < len(out)-1; j++ {
				g.p("\tcase %d: goto L%d\n", j, out[j])
			}
			g.p("\t}\n\tgoto L%d\n", out[len(out)-1])
		}
	}
	g.p("}\n\n")
}

func (g *gen) fresh(prefix string) string {
	g.id++
	return fmt.Sprintf("%s%d", prefix, g.id)
}

var conds = []string{"a > s", "s%3 == 0", "t < 5", "a&1 == 1", "s+t > 20", "len(b) > 2", "p != nil", "*p > 3", "a > 0 && t < 7", "s == 1 || t == 2 || a == 3", "q != nil && *q > a", "arr[a&3] < s"}

func (g *gen) cond() string { return conds[g.r.Intn(len(conds))] }

// simple statements over the fixed variable set of a goto function / structured function:
//   a int, b []int, q *int (params); s, t int; arr [4]int; p *int; f func() int; m map[int]int; tt T; ii I
func (g *gen) simple(depth int) string {
	switch g.r.Intn(43) {
	case 40:
		// go1.22 loop whose variable escapes (the loop header keeps its phi) and whose post statement is unreachable
		return "for i := 0; i < a; i++ { f = func() int { return i + s }; break }"
	case 41:
		return "for i := a; i > 0; i-- { p = &i; if s > 3 { break }; t++; break }"
	case 42:
		return "for i, j := 0, a; i < j; i, j = i+1, j-1 { f = func() int { return i * j }; if t > s { continue }; s++ }"
	case 26:
		// loop whose post statement is unreachable: the loop header loses a predecessor in deleteUnreachableBlocks
		return "for i := 0; i < a; i++ { t += i; break }"
	case 27:
		return "for i := 0; i < len(b); i++ { if b[i] > s { s = b[i] }; break }"
	case 28:
		return "go func() { G++ }()"
	case 29:
		return "{ c2 := make(chan int, 1); c2 <- s; t = <-c2; if v, ok := <-c2; ok { s = v } }"
	case 30:
		return "t = arrf()[a&3] + tf().b"
	case 31:
		return "{ fl := float64(s) * 1.5; t = int(fl); _ = S(b) }"
	case 32:
		return "for _, r := range \"h\\u00e9llo\" { s += int(r) }"
	case 33:
		return "t = int(\"abc\"[a&1])"
	case 34:
		return "if v, ok := ii.(*T); ok && v != nil { s += v.b } else if w, ok := ii.(S); ok { t += len(w) }"
	case 35:
		return "if len(b) >= 2 { pa := (*[2]int)(b); s += pa[1] }"
	case 36:
		return "{ sl := make([]int, a&7, 8); sl = append(sl, b...); b = sl[1:len(sl):cap(sl)] }"
	case 37:
		return "{ x := a > 0 && t < 3; y := x || s == 7; if y { t++ } }"
	case 38:
		return "{ l := &T{a: s, next: &tt}; l.next.b = t; s = l.next.a + l.a }"
	case 39:
		return "{ fn := tt.M; t = fn(s); var e any = s; if n, ok := e.(int); ok { s = n } }"
	case 0:
		return "s += a"
	case 1:
		return "t = s*2 + 1"
	case 2:
		return "arr[t&3] = s"
	case 3:
		return "*p = t"
	case 4:
		return "p = &t"
	case 5:
		return "p = &s"
	case 6:
		return "b = append(b, s)"
	case 7:
		return "f = func() int { s++; return s + t }"
	case 8:
		return "if f != nil { t = f() }"
	case 9:
		return fmt.Sprintf("if %s { t-- } else { t++ }", g.cond())
	case 10:
		return "for i := 0; i < 3; i++ { s += i; if s > 100 { break } }"
	case 11:
		return "for i, v := range b { s += i + v }"
	case 12:
		return "m[s] = t"
	case 13:
		return "if v, ok := m[a]; ok { s = v }"
	case 14:
		return "tt.a = s; tt.b += t"
	case 15:
		return "s = tt.M(t)"
	case 16:
		return "if ii != nil { s = ii.M(s) }"
	case 17:
		return "ii = S(b)"
	case 18:
		return "ii = &tt"
	case 19:
		return "if a == 77 { panic(\"x\") }"
	case 20:
		return "{ x := s; y := &x; *y += t; t = x }"
	case 21:
		return "G += s; *GP = t"
	case 22:
		if g.r.Bool() {
			return "s = extf(t)"
		}
		return "s = ext(t)"
	case 23:
		return "switch { case s < 3: t = 1; case s < 9: t = 2; fallthrough; default: t += 3 }"
	case 24:
		return "if q != nil { *q = s }"
	default:
		if depth > 0 {
			return fmt.Sprintf("if %s { %s; %s }", g.cond(), g.simple(depth-1), g.simple(depth-1))
		}
		return "t ^= s"
	}
}

const preamble = `	var s, t int
	var arr [4]int
	var p *int = &arr[0]
	var f func() int
	var tt T
	var ii I
	m := map[int]int{}
	_, _, _, _, _, _, _, _ = s, t, arr, p, f, tt, ii, m
`

// gotoFunc realises a random digraph with k nodes; node i has out-degree 0..3.
func (g *gen) gotoFunc() {
	g.st.GotoFuncs++
	k := 2 + g.r.Intn(9)
	if g.r.Chance(10) {
		k = 12 + g.r.Intn(14)
	}
	succ := make([][]int, k)
	for i := range succ {
		d := 0
		switch x := g.r.Intn(10); {
		case x < 1:
			d = 0
		case x < 4:
			d = 1
		case x < 9:
			d = 2
		default:
			d = 3 + g.r.Intn(2)
		}
		for j := 0; j < d; j++ {
			succ[i] = append(succ[i], g.r.Intn(k))
		}
	}
	// make sure something returns
	if len(succ[k-1]) > 0 && g.r.Chance(70) {
		succ[k-1] = nil
	}
	targeted := make([]bool, k)
	reach := make([]bool, k)
	var mark func(int)
	mark = func(u int) {
		reach[u] = true
		for _, v := range succ[u] {
			targeted[v] = true
			if !reach[v] {
				mark(v)
			}
		}
	}
	mark(0)
	for i := range targeted {
		targeted[i] = false
	}
	for u := 0; u < k; u++ {
		if reach[u] {
			for _, v := range succ[u] {
				targeted[v] = true
			}
		}
	}
	named := g.r.Chance(50)
	rec := g.r.Chance(30)
	name := g.fresh("Goto")
	if named {
		g.p("func %s(a int, b []int, q *int) (res int, err error) {\n", name)
	} else {
		g.p("func %s(a int, b []int, q *int) int {\n", name)
	}
	g.sb.WriteString(preamble)
	if rec {
		g.st.RecoverFuncs++
		if named {
			g.p("\tdefer func() { if r := recover(); r != nil { res = -1; s++ } }()\n")
		} else {
			g.p("\tdefer func() { recover() }()\n")
		}
	} else if g.r.Chance(15) {
		g.p("\tdefer func() { G++ }()\n")
	}
	ret := func() string {
		if named {
			switch g.r.Intn(3) {
			case 0:
				return "return"
			case 1:
				return "return s + t, nil"
			default:
				return "res = s; return"
			}
		}
		if g.r.Chance(15) {
			return "panic(s)"
		}
		return "return s + t + arr[0]"
	}
	// emission order: block indices follow the order in which labels are first met, so emitting the nodes in an
	// order unrelated to (often the reverse of) their position in the CFG makes block index and DFS preorder disagree
	order := make([]int, 0, k)
	for u := 1; u < k; u++ {
		order = append(order, u)
	}
	switch g.r.Intn(3) {
	case 0: // textual = numeric
	case 1: // reversed
		for i, j := 0, len(order)-1; i < j; i, j = i+1, j-1 {
			order[i], order[j] = order[j], order[i]
		}
	default: // shuffled
		for i := len(order) - 1; i > 0; i-- {
			j := g.r.Intn(i + 1)
			order[i], order[j] = order[j], order[i]
		}
	}
	order = append([]int{0}, order...)
	for _, u := range order {
		if !reach[u] {
			continue
		}
		if targeted[u] {
			g.p("L%d:\n", u)
		}
		for j, ns := 0, g.r.Intn(4); j < ns; j++ {
			g.p("\t%s\n", g.simple(1))
		}
		out := succ[u]
		switch len(out) {
		case 0:
			g.p("\t%s\n", ret())
		case 1:
			g.p("\tgoto L%d\n", out[0])
		case 2:
			g.p("\tif %s { goto L%d }\n\tgoto L%d\n", g.cond(), out[0], out[1])
		default:
			g.p("\tswitch (s + t + a) %% %d {\n", len(out))
			for j := 0; j < len(out)-1; j++ {
				g.p("\tcase %d: goto L%d\n", j, out[j])
			}
			g.p("\t}\n\tgoto L%d\n", out[len(out)-1])
		}
	}
	g.p("}\n\n")
}

// structured statements --------------------------------------------------------------------------

func (g *gen) block(depth int, inLoop bool, label string) string {
	var sb strings.Builder
	n := 1 + g.r.Intn(3)
	for i := 0; i < n; i++ {
		sb.WriteString(g.stmt(depth, inLoop, label))
		sb.WriteString("\n")
	}
	return sb.String()
}

func (g *gen) stmt(depth int, inLoop bool, label string) string {
	if depth <= 0 {
		return g.simple(0)
	}
	switch g.r.Intn(16) {
	case 0, 1:
		return fmt.Sprintf("if %s {\n%s} else {\n%s}", g.cond(), g.block(depth-1, inLoop, label), g.block(depth-1, inLoop, label))
	case 2:
		return fmt.Sprintf("if %s {\n%s}", g.cond(), g.block(depth-1, inLoop, label))
	case 3:
		l := g.fresh("Lp")
		return fmt.Sprintf("%s:\nfor i := 0; i < a; i++ {\ns += i\n%sif s > 1000 { break %s }\n}", l, g.block(depth-1, true, l), l)
	case 4:
		l := g.fresh("Lp")
		return fmt.Sprintf("%s:\nfor _, v := range b {\nt += v\n%sif t > 1000 { continue %s }\n}", l, g.block(depth-1, true, l), l)
	case 5:
		l := g.fresh("Lp")
		return fmt.Sprintf("%s:\nfor %s {\ns++\n%sif s > 50 { break %s }\n}", l, g.cond(), g.block(depth-1, true, l), l)
	case 6:
		l := g.fresh("Lp")
		return fmt.Sprintf("%s:\nfor k, v := range m {\ns += k\nt += v\n%sif s > 1000 { break %s }\n}", l, g.block(depth-1, true, l), l)
	case 7:
		l := g.fresh("Lp")
		return fmt.Sprintf("%s:\nfor i, v := range iter(a) {\ns += i + v\n%sif s > 1000 { break %s }\n}", l, g.block(depth-1, true, l), l)
	case 8:
		return fmt.Sprintf("switch s %% 4 {\ncase 0:\n%scase 1, 2:\n%sdefault:\n%s}", g.block(depth-1, inLoop, label), g.block(depth-1, inLoop, label), g.block(depth-1, inLoop, label))
	case 9:
		return fmt.Sprintf("switch x := ii.(type) {\ncase *T:\ns += x.a\n%scase S:\nt += len(x)\ncase nil:\n%sdefault:\n_ = x\n}", g.block(depth-1, inLoop, label), g.block(depth-1, inLoop, label))
	case 10:
		return fmt.Sprintf("select {\ncase v := <-ch:\ns += v\n%scase ch <- t:\n%sdefault:\nt++\n}", g.block(depth-1, inLoop, label), g.block(depth-1, inLoop, label))
	case 11:
		if inLoop {
			switch g.r.Intn(4) {
			case 0:
				return fmt.Sprintf("if %s { break }", g.cond())
			case 1:
				return fmt.Sprintf("if %s { continue }", g.cond())
			case 2:
				return fmt.Sprintf("if %s { break %s }", g.cond(), label)
			default:
				return fmt.Sprintf("if %s { continue %s }", g.cond(), label)
			}
		}
		return g.simple(1)
	case 12:
		if g.r.Chance(30) {
			return fmt.Sprintf("for i := 0; i < a; i++ {\ns += i\n%s\n%s\n}", g.simple(1), g.ret)
		}
		return fmt.Sprintf("if %s { %s }", g.cond(), g.ret)
	case 13:
		saved := g.ret
		g.ret = "return"
		body := g.block(depth-1, false, "")
		g.ret = saved
		return fmt.Sprintf("func() {\ndefer func() { t++ }()\n%s}()", body)
	case 14:
		return fmt.Sprintf("for i := range 3 {\nf = func() int { return i + s }\n%s}", g.block(depth-1, true, ""))
	default:
		return g.simple(1)
	}
}

func (g *gen) structFunc() {
	g.st.StructFuncs++
	name := g.fresh("Str")
	rec := g.r.Chance(20)
	g.p("func %s(a int, b []int, q *int, ch chan int) (res int) {\n", name)
	g.sb.WriteString(preamble)
	if rec {
		g.st.RecoverFuncs++
		g.p("\tdefer func() { if recover() != nil { res = t } }()\n")
	}
	g.ret = "return s"
	body := g.block(3, false, "")
	// break/continue with an empty label cannot be generated: labels are only used inside their loop
	g.sb.WriteString(body)
	g.p("\treturn s + t\n}\n\n")
}

func (g *gen) genericFunc() {
	g.st.GenericFuncs++
	name := g.fresh("Gen")
	g.p("func %s[E Num](xs []E, z E) (r E) {\n", name)
	g.p("\tvar acc E\n\tpp := &acc\n")
	g.p("\tfor i, x := range xs {\n\t\tif x > z && i%%2 == 0 { *pp += x } else if x < z { acc -= x } else { continue }\n")
	if g.r.Bool() {
		g.p("\t\tif acc > z*E(8) { break }\n")
	}
	g.p("\t}\n")
	if g.r.Bool() {
		g.p("\tf := func(y E) E { return y + acc }\n\tr = f(z)\n")
	} else {
		g.p("\tr = acc\n")
	}
	g.p("\treturn\n}\n")
	g.p("func use%s(a int) float64 {\n\tx := %s([]int{1, a, 3}, 2)\n\ty := %s[float64]([]float64{1.5, float64(a)}, 0.5)\n\ttype my int64\n\tw := %s([]my{my(a)}, 1)\n\treturn float64(x) + y + float64(w)\n}\n\n", name, name, name, name)
}
