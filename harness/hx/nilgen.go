package hx

// Generator of Go modules whose functions have pointer-like results (C15 execution oracle and model tie;
// also the source of real ir.Functions for the C13 sparse-solver tie).
//
// Module layout: package a (library), package b (imports a), package main (driver that runs every function
// on an input grid and prints the nil-ness it observed for every result).
//
// Every generated function takes `n int` first; calls always pass n-1 and only occur under `if n > 0`, so every
// call tree is finite. Channel operations never block (select with default, or a buffered channel that was
// just filled).

import (
	"fmt"
	"path/filepath"
	"strings"
)

type gType struct {
	Name    string // Go syntax inside package a ("T" is qualified when used from b / main)
	PtrLike bool
	Iface   bool
	Grid    []string // argument expressions usable in package main (with a. qualification)
}

var gTypes = []gType{
	{"int", false, false, []string{"0", "1"}},
	{"bool", false, false, []string{"false", "true"}},
	{"uintptr", false, false, []string{"0", "uintptr(unsafe.Pointer(new(int)))"}},
	{"*int", true, false, []string{"nil", "new(int)"}},
	{"**int", true, false, []string{"nil", "new(*int)", "ptrTo(new(int))"}},
	{"[]int", true, false, []string{"nil", "[]int{}", "[]int{1, 2, 3, 4, 5}"}},
	{"map[int]*int", true, false, []string{"nil", "map[int]*int{1: nil}", "map[int]*int{1: new(int)}"}},
	{"chan *int", true, false, []string{"nil", "make(chan *int, 4)"}},
	{"func() *int", true, false, []string{"nil", "func() *int { return nil }", "func() *int { return new(int) }"}},
	{"any", true, true, []string{"nil", "(*int)(nil)", "new(int)", "3", "errors.New(\"e\")", "[]int(nil)"}},
	{"error", true, true, []string{"nil", "errors.New(\"e\")", "(*a.MyErr)(nil)", "&a.MyErr{}"}},
	{"unsafe.Pointer", true, false, []string{"nil", "unsafe.Pointer(new(int))"}},
	{"*[4]int", true, false, []string{"nil", "new([4]int)"}},
	{"*T", true, false, []string{"nil", "&a.T{}", "&a.T{P: new(int), I: (*int)(nil), S: []int{1}, F: func() *int { return nil }}"}},
	// a callback that answers true on its k-th call: ends `for { ... }` loops after a chosen number of rounds
	{"func() bool", true, false, []string{"nil", "stopAfter(1)", "stopAfter(2)", "stopAfter(3)"}},
}

func gTypeIdx(name string) int {
	for i, t := range gTypes {
		if t.Name == name {
			return i
		}
	}
	panic("unknown type " + name)
}

type GFunc struct {
	Pkg     string // "a" or "b"
	Name    string
	Params  []int // indices into gTypes (after the leading n int)
	Results []int
	Defer   bool   // body starts with a deferred recover
	Fixed   string // complete declaration (the non-generic callers of the generic library)
}

type nilGen struct {
	r      *Rand
	funcs  []GFunc
	cur    int // index of the function being generated
	pkg    string
	sb     *strings.Builder
	nvar   int
	scope  [][]gVar // stack of scopes
	indent int
	guard  bool // inside `if n > 0`
	budget int  // statements left for this function
}

type gVar struct {
	name string
	t    int
}

func (g *nilGen) tn(t int) string { // type name as written in the current package
	n := gTypes[t].Name
	if g.pkg != "a" {
		n = strings.ReplaceAll(n, "*T", "*a.T")
	}
	return n
}
func (g *nilGen) q(s string) string { // qualify a package-a identifier
	if g.pkg != "a" {
		return "a." + s
	}
	return s
}

func (g *nilGen) line(format string, args ...any) {
	g.sb.WriteString(strings.Repeat("\t", g.indent))
	fmt.Fprintf(g.sb, format, args...)
	g.sb.WriteString("\n")
}
func (g *nilGen) push()      { g.scope = append(g.scope, nil) }
func (g *nilGen) pop()       { g.scope = g.scope[:len(g.scope)-1] }
func (g *nilGen) declare(name string, t int) {
	g.scope[len(g.scope)-1] = append(g.scope[len(g.scope)-1], gVar{name, t})
}
func (g *nilGen) fresh() string { g.nvar++; return fmt.Sprintf("v%d", g.nvar) }
func (g *nilGen) varsOf(t int) []string {
	var res []string
	for _, sc := range g.scope {
		for _, v := range sc {
			if v.t == t {
				res = append(res, v.name)
			}
		}
	}
	return res
}
func (g *nilGen) pickVar(t int) (string, bool) {
	vs := g.varsOf(t)
	if len(vs) == 0 {
		return "", false
	}
	return vs[g.r.Intn(len(vs))], true
}
func (g *nilGen) anyVar(pred func(gType) bool) (gVar, bool) {
	var all []gVar
	for _, sc := range g.scope {
		for _, v := range sc {
			if pred(gTypes[v.t]) {
				all = append(all, v)
			}
		}
	}
	if len(all) == 0 {
		return gVar{}, false
	}
	return all[g.r.Intn(len(all))], true
}

// v returns a variable of type t, or a fallback expression.
func (g *nilGen) v(name string, fallback string) string {
	if x, ok := g.pickVar(gTypeIdx(name)); ok {
		return x
	}
	return fallback
}

// callExpr returns a call to some function whose single result has type t (only under the n > 0 guard).
func (g *nilGen) callExpr(t int, depth int) (string, bool) {
	if !g.guard {
		return "", false
	}
	var cands []int
	for i, f := range g.funcs {
		if len(f.Results) == 1 && f.Results[0] == t && (f.Pkg == "a" || g.pkg == "b") {
			cands = append(cands, i)
		}
	}
	if len(cands) == 0 {
		return "", false
	}
	return g.call(cands[g.r.Intn(len(cands))], depth), true
}

func (g *nilGen) call(fi int, depth int) string {
	f := g.funcs[fi]
	args := []string{"n - 1"}
	for _, p := range f.Params {
		args = append(args, g.expr(p, depth+2))
	}
	name := f.Name
	if f.Pkg != g.pkg {
		name = f.Pkg + "." + name
	}
	return name + "(" + strings.Join(args, ", ") + ")"
}

// expr returns an expression of type t.
func (g *nilGen) expr(t int, depth int) string {
	name := gTypes[t].Name
	if x, ok := g.pickVar(t); ok && (depth > 2 || g.r.Chance(45)) {
		return x
	}
	if depth <= 2 && g.r.Chance(12) {
		if c, ok := g.callExpr(t, depth); ok {
			return c
		}
	}
	r := g.r
	switch name {
	case "int":
		return []string{"0", "1", "2", "n", "len(" + g.v("[]int", "[]int{1}") + ")"}[r.Intn(5)]
	case "bool":
		return []string{"true", "false", "n > 1", g.v("*int", "new(int)") + " == nil", g.v("any", "any(1)") + " != nil"}[r.Intn(5)]
	case "uintptr":
		return []string{"0", "uintptr(" + g.v("unsafe.Pointer", "unsafe.Pointer(new(int))") + ")", "uintptr(n)"}[r.Intn(3)]
	case "*int":
		switch r.Intn(12) {
		case 0:
			return "nil"
		case 1, 2:
			return "new(int)"
		case 3:
			return "&" + g.q("GInt")
		case 4:
			return "*" + g.v("**int", "new(*int)")
		case 5:
			return g.v("*T", "(&"+g.q("T")+"{})") + ".P"
		case 6:
			return g.v("map[int]*int", "map[int]*int{}") + "[1]"
		case 7:
			return g.v("func() *int", "func() *int { return nil }") + "()"
		case 8:
			return "(*int)(" + g.v("unsafe.Pointer", "unsafe.Pointer(nil)") + ")"
		case 9:
			return "&" + g.v("*[4]int", "new([4]int)") + "[1]"
		case 10:
			return "&" + g.v("[]int", "[]int{1}") + "[0]"
		default:
			return g.q("GPtr")
		}
	case "**int":
		switch r.Intn(4) {
		case 0:
			return "nil"
		case 1:
			return "new(*int)"
		case 2:
			return "&" + g.q("GPtr")
		default:
			return "&" + g.v("*T", "(&"+g.q("T")+"{})") + ".P"
		}
	case "[]int":
		s := g.v("[]int", "[]int{1, 2}")
		switch r.Intn(14) {
		case 0:
			return "nil"
		case 1:
			return "[]int{}"
		case 2:
			return "[]int{1, 2, 3}"
		case 3:
			return "make([]int, n)"
		case 4:
			return s + "[:]"
		case 5:
			return s + "[1:]"
		case 6:
			return s + "[:0]"
		case 7:
			return s + "[n:]"
		case 8:
			return g.v("*[4]int", "new([4]int)") + "[:]"
		case 9:
			return "append(" + s + ", 1)"
		case 10:
			return "append(" + s + ")"
		case 11:
			return "append(" + s + ", " + g.v("[]int", "nil") + "...)"
		case 12:
			return "[]int(nil)"
		default:
			return g.v("*T", "(&"+g.q("T")+"{})") + ".S"
		}
	case "map[int]*int":
		return []string{"nil", "map[int]*int{}", "make(map[int]*int)", "map[int]*int{1: " + g.v("*int", "nil") + "}"}[r.Intn(4)]
	case "chan *int":
		return []string{"nil", "make(chan *int, 2)", "make(chan *int, 2)"}[r.Intn(3)]
	case "func() *int":
		switch r.Intn(5) {
		case 0:
			return "nil"
		case 1:
			return "func() *int { return nil }"
		case 2:
			p := g.v("*int", "new(int)")
			return "func() *int { return " + p + " }"
		case 3:
			return g.q("RetNil")
		default:
			return g.v("*T", "(&"+g.q("T")+"{})") + ".F"
		}
	case "any":
		switch r.Intn(12) {
		case 0:
			return "nil"
		case 1:
			return "any(" + g.v("*int", "(*int)(nil)") + ")"
		case 2:
			return "any(" + g.v("[]int", "[]int(nil)") + ")"
		case 3:
			return "any(1)"
		case 4:
			return "any(" + g.v("error", "errors.New(\"x\")") + ")"
		case 5:
			return "any(" + g.v("unsafe.Pointer", "unsafe.Pointer(nil)") + ")"
		case 6:
			return g.v("*T", "(&"+g.q("T")+"{})") + ".I"
		case 7:
			return "any((*int)(nil))"
		case 8:
			return g.q("GAny")
		case 9:
			return "any(" + g.v("func() *int", g.q("RetNil")) + ")"
		case 10:
			return "any(" + g.v("map[int]*int", "map[int]*int(nil)") + ")"
		default:
			return "any(" + g.v("*T", "(*"+g.q("T")+")(nil)") + ")"
		}
	case "error":
		switch r.Intn(5) {
		case 0:
			return "nil"
		case 1:
			return "errors.New(\"e\")"
		case 2:
			return "error((*" + g.q("MyErr") + ")(nil))"
		case 3:
			return "error(&" + g.q("MyErr") + "{})"
		default:
			return g.q("GErr")
		}
	case "unsafe.Pointer":
		switch r.Intn(6) {
		case 0:
			return "nil"
		case 1:
			return "unsafe.Pointer(" + g.v("*int", "new(int)") + ")"
		case 2:
			return "unsafe.Pointer(" + g.v("uintptr", "uintptr(0)") + ")"
		case 3:
			return "unsafe.Add(" + g.v("unsafe.Pointer", "unsafe.Pointer(new(int))") + ", n)"
		case 4:
			return "unsafe.Pointer(unsafe.SliceData(" + g.v("[]int", "[]int{1}") + "))"
		default:
			return "unsafe.Pointer(" + g.v("*T", "(&"+g.q("T")+"{})") + ")"
		}
	case "*[4]int":
		switch r.Intn(4) {
		case 0:
			return "nil"
		case 1:
			return "new([4]int)"
		case 2:
			return "(*[4]int)(" + g.v("[]int", "[]int{1, 2, 3, 4}") + ")"
		default:
			return "&" + g.q("GArr")
		}
	case "func() bool":
		switch r.Intn(4) {
		case 0:
			return "nil"
		case 1:
			return "func() bool { return true }"
		default:
			return g.q("StopAfter") + "(1 + n)"
		}
	case "*T":
		switch r.Intn(4) {
		case 0:
			return "nil"
		case 1:
			return "&" + g.q("T") + "{}"
		case 2:
			return "&" + g.q("T") + "{P: " + g.v("*int", "nil") + ", I: " + g.v("any", "nil") + "}"
		default:
			return "new(" + g.q("T") + ")"
		}
	}
	panic("expr: " + name)
}

func (g *nilGen) retStmt() {
	f := g.funcs[g.cur]
	var es []string
	for _, t := range f.Results {
		es = append(es, g.expr(t, 1))
	}
	g.line("return %s", strings.Join(es, ", "))
}

func (g *nilGen) block(depth int) {
	g.push()
	n := 1 + g.r.Intn(3)
	for i := 0; i < n && g.budget > 0; i++ {
		g.stmt(depth)
	}
	g.pop()
}

func (g *nilGen) stmt(depth int) {
	g.budget--
	r := g.r
	k := r.Intn(100)
	switch {
	case k < 28: // declaration
		t := 3 + r.Intn(len(gTypes)-3)
		if r.Chance(15) {
			t = r.Intn(3)
		}
		x := g.fresh()
		if r.Chance(25) {
			g.line("var %s %s", x, g.tn(t))
		} else {
			g.line("var %s %s = %s", x, g.tn(t), g.expr(t, 0))
		}
		g.line("_ = %s", x)
		g.declare(x, t)
	case k < 38: // assignment
		if v, ok := g.anyVar(func(t gType) bool { return true }); ok && v.name != "n" {
			g.line("%s = %s", v.name, g.expr(v.t, 0))
		}
	case k < 52 && depth < 3: // nil check
		if v, ok := g.anyVar(func(t gType) bool { return t.PtrLike }); ok {
			op := []string{"==", "!="}[r.Intn(2)]
			g.line("if %s %s nil {", v.name, op)
			g.indent++
			g.block(depth + 1)
			if r.Chance(35) {
				g.retStmt()
			}
			g.indent--
			if r.Chance(50) {
				g.line("} else {")
				g.indent++
				g.block(depth + 1)
				if r.Chance(25) {
					g.retStmt()
				}
				g.indent--
			}
			g.line("}")
		}
	case k < 58 && depth < 3: // other condition
		g.line("if %s {", g.expr(gTypeIdx("bool"), 1))
		g.indent++
		g.block(depth + 1)
		if r.Chance(30) {
			g.retStmt()
		}
		g.indent--
		g.line("}")
	case k < 64 && depth < 2: // loop
		i := g.fresh()
		g.line("for %s := 0; %s < n+1 && %s < 3; %s++ {", i, i, i, i)
		g.indent++
		g.block(depth + 1)
		g.indent--
		g.line("}")
	case k < 74: // dereferencing statements
		if v, ok := g.anyVar(func(t gType) bool { return t.PtrLike && !t.Iface }); ok {
			switch gTypes[v.t].Name {
			case "*int":
				g.line([]string{"*%s = 1", "_ = *%s"}[r.Intn(2)], v.name)
			case "**int":
				g.line("*%s = %s", v.name, g.expr(gTypeIdx("*int"), 1))
			case "[]int":
				g.line([]string{"%s[0] = 1", "_ = %s[0]", "_ = len(%s)"}[r.Intn(3)], v.name)
			case "map[int]*int":
				g.line([]string{"%s[1] = nil", "_ = %s[2]", "delete(%s, 1)"}[r.Intn(3)], v.name)
			case "chan *int":
				if r.Bool() {
					g.line("select {\ncase %s <- %s:\ndefault:\n}", v.name, g.expr(gTypeIdx("*int"), 1))
				} else {
					x := g.fresh()
					g.line("var %s *int", x)
					g.line("select {\ncase %s = <-%s:\ndefault:\n}", x, v.name)
					g.line("_ = %s", x)
					g.declare(x, gTypeIdx("*int"))
				}
			case "func() *int", "func() bool":
				g.line("_ = %s()", v.name)
			case "*[4]int":
				g.line("%s[0] = 1", v.name)
			case "*T":
				g.line([]string{"%s.P = nil", "_ = %s.I", "%s.S = nil"}[r.Intn(3)], v.name)
			case "unsafe.Pointer":
				g.line("_ = %s", v.name)
			}
		}
	case k < 82 && depth < 3: // type switch / assertion on an interface variable
		if v, ok := g.anyVar(func(t gType) bool { return t.Iface }); ok {
			if gTypes[v.t].Name == "error" {
				// only types implementing error are possible dynamic types
				switch r.Intn(3) {
				case 0:
					x := g.fresh()
					g.line("%s := %s.(any)", x, v.name)
					g.line("_ = %s", x)
					g.declare(x, gTypeIdx("any"))
				case 1:
					x := g.fresh()
					g.line("%s, _ := %s.(*%s)", x, v.name, g.q("MyErr"))
					g.line("_ = %s", x)
				default:
					y := g.fresh()
					g.line("switch %s := %s.(type) {", y, v.name)
					for _, lab := range []string{"case *" + g.q("MyErr"), "case nil", "default"} {
						if lab != "default" && !r.Chance(70) {
							continue
						}
						g.line("%s:", lab)
						g.indent++
						g.push()
						g.line("_ = %s", y)
						if lab == "default" {
							g.declare(y, v.t)
						}
						g.block(depth + 1)
						if r.Chance(40) {
							g.retStmt()
						}
						g.pop()
						g.indent--
					}
					g.line("}")
				}
				return
			}
			switch r.Intn(4) {
			case 0:
				x := g.fresh()
				g.line("%s := %s.(*int)", x, v.name)
				g.line("_ = %s", x)
				g.declare(x, gTypeIdx("*int"))
			case 1:
				x := g.fresh()
				t := []string{"*int", "[]int", "error", "any"}[r.Intn(4)]
				g.line("%s, _ := %s.(%s)", x, v.name, t)
				g.line("_ = %s", x)
				g.declare(x, gTypeIdx(t))
			case 2:
				x := g.fresh()
				t := []string{"error", "any"}[r.Intn(2)]
				g.line("%s := %s.(%s)", x, v.name, t)
				g.line("_ = %s", x)
				g.declare(x, gTypeIdx(t))
			default:
				y := g.fresh()
				g.line("switch %s := %s.(type) {", y, v.name)
				emitted := false
				arm := func(label string, t int) {
					emitted = true
					g.line("%s:", label)
					g.indent++
					g.push()
					g.line("_ = %s", y)
					if t >= 0 {
						g.declare(y, t)
					}
					g.block(depth + 1)
					if r.Chance(40) {
						g.retStmt()
					}
					g.pop()
					g.indent--
				}
				if r.Chance(70) {
					arm("case *int", gTypeIdx("*int"))
				}
				nilArm := false
				if r.Chance(40) {
					nilArm = true
					arm("case nil", -1)
				}
				if r.Chance(40) {
					arm("case error", gTypeIdx("error"))
				}
				if r.Chance(30) {
					arm("case []int", gTypeIdx("[]int"))
				}
				if r.Chance(35) {
					// a clause with several types binds the interface value itself
					multi := []string{"case *" + g.q("T") + ", *" + g.q("MyErr"), "case map[int]*int, chan *int", "case func() *int, *[4]int, nil"}
					if nilArm {
						multi[2] = "case func() *int, *[4]int"
					}
					arm(multi[r.Intn(3)], v.t)
				}
				if r.Chance(70) || !emitted {
					arm("default", v.t)
				}
				g.line("}")
			}
		}
	case k < 86: // swap two variables of the same type (parallel phis in loops)
		if v, ok := g.anyVar(func(t gType) bool { return t.PtrLike }); ok {
			vs := g.varsOf(v.t)
			w := vs[r.Intn(len(vs))]
			if w != v.name {
				g.line("%s, %s = %s, %s", v.name, w, w, v.name)
			}
		}
	case k < 94 && depth < 3: // guarded calls
		if !g.guard {
			g.line("if n > 0 {")
			g.indent++
			g.guard = true
			g.push()
			fi := r.Intn(len(g.funcs))
			if g.funcs[fi].Pkg == "b" && g.pkg == "a" {
				fi = g.cur // package a cannot call b: self recursion instead
			}
			f := g.funcs[fi]
			var lhs []string
			var names []string
			for _, t := range f.Results {
				x := g.fresh()
				lhs = append(lhs, x)
				names = append(names, x)
				_ = t
			}
			g.line("%s := %s", strings.Join(lhs, ", "), g.call(fi, 0))
			for i, x := range names {
				g.line("_ = %s", x)
				g.declare(x, f.Results[i])
			}
			g.block(depth + 1)
			if r.Chance(50) {
				g.retStmt()
			}
			g.pop()
			g.guard = false
			g.indent--
			g.line("}")
		}
	default:
		if depth > 0 && r.Chance(30) {
			g.retStmt()
		}
	}
}

// leaves of a pointer-like type that involve no control flow and no closure: (nil-ish, non-nil)
func (g *nilGen) leaves(t int) []string {
	switch gTypes[t].Name {
	case "*int":
		return []string{"nil", "new(int)", "&" + g.q("GInt")}
	case "**int":
		return []string{"nil", "new(*int)"}
	case "[]int":
		return []string{"nil", "[]int{1}", "[]int{}"}
	case "map[int]*int":
		return []string{"nil", "map[int]*int{}"}
	case "chan *int":
		return []string{"nil", "make(chan *int, 1)"}
	case "func() *int":
		return []string{"nil", g.q("RetNil")}
	case "func() bool":
		return []string{"nil", g.q("StopAfter") + "(1)"}
	case "any":
		return []string{"nil", "any(1)", "any((*int)(nil))", "any(new(int))"}
	case "error":
		return []string{"nil", "errors.New(\"e\")", "error((*" + g.q("MyErr") + ")(nil))"}
	case "unsafe.Pointer":
		return []string{"nil", "unsafe.Pointer(&" + g.q("GInt") + ")"}
	case "*[4]int":
		return []string{"nil", "new([4]int)"}
	case "*T":
		return []string{"nil", "&" + g.q("T") + "{}"}
	}
	return []string{"nil"}
}

// selfLoop ends the function with `for { ... }` whose body is one basic block that is its own successor and
// carries pointer-like variables around the back edge (copies of the previous round, swaps, rotations); the loop is
// left after a number of rounds chosen by the caller (a stop callback or the parameter n).
func (g *nilGen) selfLoop() {
	f := g.funcs[g.cur]
	r := g.r
	t := f.Results[0]
	lv := g.leaves(t)
	pick := func() string {
		if x, ok := g.pickVar(t); ok && r.Chance(40) {
			return x
		}
		return lv[r.Intn(len(lv))]
	}
	c := []string{g.fresh(), g.fresh(), g.fresh()}
	for _, x := range c {
		g.line("var %s %s = %s", x, g.tn(t), pick())
		g.line("_ = %s", x)
	}
	k := g.fresh()
	g.line("%s := 0", k)
	stop, hasStop := g.pickVar(gTypeIdx("func() bool"))
	for _, x := range c {
		g.declare(x, t)
	}
	g.line("for {")
	g.indent++
	prev := g.fresh()
	g.line("%s := %s", prev, c[0])
	g.line("_ = %s", prev)
	for i := 0; i < 1+r.Intn(2); i++ {
		switch r.Intn(6) {
		case 0:
			g.line("%s = nil", c[0])
		case 1:
			g.line("%s = %s", c[r.Intn(3)], lv[r.Intn(len(lv))])
		case 2:
			g.line("%s, %s = %s, %s", c[0], c[1], c[1], c[0])
		case 3:
			g.line("%s, %s, %s = %s, %s, %s", c[0], c[1], c[2], c[2], c[0], c[1])
		case 4:
			g.line("%s = %s", c[0], c[1])
			g.line("%s = %s", c[1], lv[r.Intn(len(lv))])
		default:
			g.line("%s = %s", c[1], prev)
		}
	}
	g.line("%s++", k)
	if hasStop && r.Chance(70) {
		g.line("if %s() {", stop)
	} else {
		g.line("if %s > n {", k)
	}
	g.indent++
	cands := append([]string{prev}, c...)
	var es []string
	for _, rt := range f.Results {
		if rt == t {
			es = append(es, cands[r.Intn(len(cands))])
		} else {
			es = append(es, g.leafOrVar(rt))
		}
	}
	g.line("return %s", strings.Join(es, ", "))
	g.indent--
	g.line("}")
	g.indent--
	g.line("}")
}

// derefUse returns a statement that only succeeds when x is non-nil (the analysis refines x after it), or "".
func (g *nilGen) derefUse(x string, t int) string {
	r := g.r
	switch gTypes[t].Name {
	case "*int":
		return []string{"_ = *" + x, "*" + x + " = 1"}[r.Intn(2)]
	case "**int":
		return []string{"*" + x + " = nil", "_ = *" + x}[r.Intn(2)]
	case "[]int":
		return []string{"_ = " + x + "[0]", "_ = " + x + "[:1]", "_ = " + x + "[1:]"}[r.Intn(3)]
	case "map[int]*int":
		return x + "[1] = nil"
	case "func() *int", "func() bool":
		return "_ = " + x + "()"
	case "any":
		return []string{"_ = " + x + ".(int)", "_ = " + x + ".(*int)", "_ = " + x + ".(error)"}[r.Intn(3)]
	case "error":
		return []string{"_ = " + x + ".(*" + g.q("MyErr") + ")", "_ = " + x + ".(*" + g.q("MyErr") + ").X", "_ = " + x + ".(any)"}[r.Intn(3)]
	case "*[4]int":
		return []string{"_ = *" + x, "_ = " + x + "[:]"}[r.Intn(2)]
	case "*T":
		return []string{"_ = *" + x, "_ = " + x + ".I", x + ".P = nil"}[r.Intn(3)]
	}
	return ""
}

func comparableType(t int) bool {
	switch gTypes[t].Name {
	case "*int", "**int", "chan *int", "any", "error", "unsafe.Pointer", "*[4]int", "*T":
		return true
	}
	return false
}

// cmpReturns ends the function with a comparison between two non-constant pointer-like values, one of them
// provably non-nil, and returns the OTHER operand on one side and a non-nil value on the other side.
// (x == k says nothing about x on the else edge; on the then edge x is as non-nil as k.)
func (g *nilGen) cmpReturns() {
	f := g.funcs[g.cur]
	r := g.r
	t := f.Results[0]
	x, _ := g.pickVar(t)
	for _, v := range g.varsOf(t) {
		if strings.HasPrefix(v, "p") && r.Chance(70) {
			x = v
			break
		}
	}
	lv := g.leaves(t)[1:] // non-nil leaves (for interfaces also a typed nil inside a non-nil interface)
	k := g.fresh()
	g.line("var %s %s = %s", k, g.tn(t), lv[r.Intn(len(lv))])
	rest := func(first string) string {
		es := []string{first}
		for _, rt := range f.Results[1:] {
			if v, ok := g.pickVar(rt); ok {
				es = append(es, v)
			} else if gTypes[rt].PtrLike {
				es = append(es, "nil")
			} else {
				es = append(es, map[string]string{"int": "0", "bool": "false", "uintptr": "0"}[gTypes[rt].Name])
			}
		}
		return strings.Join(es, ", ")
	}
	a, b := x, k
	if r.Bool() {
		a, b = k, x
	}
	if r.Chance(65) {
		g.line("if %s == %s {", a, b)
		g.line("\treturn %s", rest(lv[r.Intn(len(lv))]))
		g.line("}")
		g.line("return %s", rest(x))
	} else {
		g.line("if %s != %s {", a, b)
		g.line("\treturn %s", rest(x))
		g.line("}")
		g.line("return %s", rest(lv[r.Intn(len(lv))]))
	}
}

// flagReturns ends the function with several return sites selected by conditions on non-pointer values; some
// branches use the returned value in a way that proves it non-nil before returning it, others return it untouched.
func (g *nilGen) flagReturns() {
	f := g.funcs[g.cur]
	r := g.r
	t := f.Results[0]
	x, _ := g.pickVar(t)
	for _, v := range g.varsOf(t) { // prefer a parameter: nothing is known about it
		if strings.HasPrefix(v, "p") && r.Chance(70) {
			x = v
			break
		}
	}
	if r.Chance(70) {
		// a join that defines no tracked value: the block holding the first condition then changes no state
		g.line("if n < 0 {")
		g.line("\tn = 0")
		g.line("}")
	}
	ret := func() {
		es := []string{x}
		for _, rt := range f.Results[1:] {
			if v, ok := g.pickVar(rt); ok {
				es = append(es, v)
			} else if gTypes[rt].PtrLike {
				es = append(es, "nil")
			} else {
				es = append(es, map[string]string{"int": "0", "bool": "false", "uintptr": "0"}[gTypes[rt].Name])
			}
		}
		g.line("return %s", strings.Join(es, ", "))
	}
	conds := []string{"n > 1", "n == 0", "n == 1"}
	if b, ok := g.pickVar(gTypeIdx("bool")); ok {
		conds = append(conds, b, b, "!"+b)
	}
	for i := 0; i < 1+r.Intn(3); i++ {
		g.line("if %s {", conds[r.Intn(len(conds))])
		g.indent++
		if use := g.derefUse(x, t); use != "" && (i == 0 || r.Chance(60)) {
			g.line("%s", use)
		}
		ret()
		g.indent--
		g.line("}")
	}
	ret()
}

func (g *nilGen) leafOrVar(t int) string {
	if x, ok := g.pickVar(t); ok {
		return x
	}
	if gTypes[t].PtrLike {
		lv := g.leaves(t)
		return lv[g.r.Intn(len(lv))]
	}
	return map[string]string{"int": "0", "bool": "false", "uintptr": "0"}[gTypes[t].Name]
}

const nilgenPrelude = `
type T struct {
	P *int
	I any
	S []int
	F func() *int
}

type MyErr struct{ X int }

func (*MyErr) Error() string { return "myerr" }

var (
	GInt int
	GPtr *int
	GAny any
	GErr error
	GArr [4]int
)

func RetNil() *int { return nil }

// StopAfter returns a callback that answers true on its k-th call.
func StopAfter(k int) func() bool {
	calls := 0
	return func() bool { calls++; return calls >= k }
}

// ---- generic library: pointer-like type-parameter results
func GPick[T ~*int | ~[]int](x any, d T) T {
	switch v := x.(type) {
	case T:
		return v
	}
	return d
}

func GPickNew[T ~*int](x any) T {
	switch v := x.(type) {
	case T:
		return v
	}
	return T(new(int))
}

func GPickSlice[T ~[]int](x any) T {
	switch v := x.(type) {
	case nil:
		return T([]int{1})
	case T:
		return v
	default:
		return T([]int{})
	}
}

func GAssert[T ~*int | ~[]int](x any) T { return x.(T) }

func GAssertOk[T ~*int | ~[]int](x any) T {
	v, _ := x.(T)
	return v
}

func GZero[T ~*int | ~[]int]() T { return *new(T) }

func GConv[T ~*int](p *int) T { return T(p) }

func GId[T any](v T) T { return v }

func GFirstNonNil[T ~*int](a, b T) T {
	if a != nil {
		return a
	}
	return b
}

type NamedPtr *int

func GConvU[T ~uintptr](x T) unsafe.Pointer { return unsafe.Pointer(x) }

// type parameters without type terms: comparable, any, an interface with methods, both
func GFirst[T comparable](xs []T) T { return xs[0] }

func GFirstM[T interface {
	comparable
	Error() string
}](xs []T) T {
	return xs[0]
}

func GLast[T any](xs []T) T { return xs[len(xs)-1] }

func GSecond[T interface{ Error() string }](a, b T) T { return b }

var _ = errors.New
var _ unsafe.Pointer
`

// GenNilModule writes the module and returns the generated function signatures.
func GenNilModule(r *Rand, dir string, na, nb int) []GFunc {
	g := &nilGen{r: r}
	ptrTypes := []int{}
	for i, t := range gTypes {
		if t.PtrLike {
			ptrTypes = append(ptrTypes, i)
		}
	}
	for i := 0; i < na+nb; i++ {
		f := GFunc{Pkg: "a", Name: fmt.Sprintf("A%d", i)}
		if i >= na {
			f.Pkg, f.Name = "b", fmt.Sprintf("B%d", i-na)
		}
		for k := 0; k < 1+r.Intn(3); k++ {
			f.Params = append(f.Params, r.Intn(len(gTypes)))
		}
		f.Results = append(f.Results, ptrTypes[r.Intn(len(ptrTypes))])
		if r.Chance(25) {
			f.Results = append(f.Results, r.Intn(len(gTypes)))
		}
		f.Defer = r.Chance(8)
		if r.Chance(30) {
			// a parameter of the result type plus a flag: material for several return sites under non-pointer conditions
			f.Params = append(f.Params, f.Results[0], gTypeIdx("bool"))
		}
		g.funcs = append(g.funcs, f)
	}
	ti := gTypeIdx
	for k, w := range []GFunc{
		{Params: []int{ti("any")}, Results: []int{ti("*int")}, Fixed: "(n int, p0 any) *int { return GPickNew[*int](p0) }"},
		{Params: []int{ti("any")}, Results: []int{ti("any")}, Fixed: "(n int, p0 any) any { return GPickNew[*int](p0) }"},
		{Params: []int{ti("any"), ti("*int")}, Results: []int{ti("*int")}, Fixed: "(n int, p0 any, p1 *int) *int { return GPick[*int](p0, p1) }"},
		{Params: []int{ti("any")}, Results: []int{ti("any")}, Fixed: "(n int, p0 any) any { return GPick[*int](p0, new(int)) }"},
		{Params: []int{ti("any")}, Results: []int{ti("[]int")}, Fixed: "(n int, p0 any) []int { return GPickSlice[[]int](p0) }"},
		{Params: []int{ti("any")}, Results: []int{ti("[]int")}, Fixed: "(n int, p0 any) []int { return GAssert[[]int](p0) }"},
		{Params: []int{ti("any")}, Results: []int{ti("*int")}, Fixed: "(n int, p0 any) *int { return GAssertOk[*int](p0) }"},
		{Params: nil, Results: []int{ti("*int")}, Fixed: "(n int) *int { return GZero[*int]() }"},
		{Params: []int{ti("*int")}, Results: []int{ti("*int")}, Fixed: "(n int, p0 *int) *int { return GConv[NamedPtr](p0) }"},
		{Params: []int{ti("any")}, Results: []int{ti("any")}, Fixed: "(n int, p0 any) any { return GId[any](p0) }"},
		{Params: []int{ti("any"), ti("*int")}, Results: []int{ti("*int")}, Fixed: "(n int, p0 any, p1 *int) *int { return GFirstNonNil[*int](GPickNew[*int](p0), p1) }"},
		{Params: []int{ti("any")}, Results: []int{ti("error")}, Fixed: "(n int, p0 any) error {\n\tif p := GPickNew[*int](p0); p == nil {\n\t\treturn errors.New(\"nil\")\n\t}\n\treturn nil\n}"},
		{Params: []int{ti("error")}, Results: []int{ti("error")}, Fixed: "(n int, p0 error) error { return GFirst([]error{p0}) }"},
		{Params: []int{ti("*int")}, Results: []int{ti("*int")}, Fixed: "(n int, p0 *int) *int { return GFirst([]*int{p0}) }"},
		{Params: []int{ti("error")}, Results: []int{ti("error")}, Fixed: "(n int, p0 error) error { return GFirstM([]error{p0}) }"},
		{Params: []int{ti("any")}, Results: []int{ti("any")}, Fixed: "(n int, p0 any) any { return GLast([]any{p0}) }"},
		{Params: []int{ti("error")}, Results: []int{ti("error")}, Fixed: "(n int, p0 error) error { return GSecond[error](nil, p0) }"},
		{Params: []int{ti("uintptr")}, Results: []int{ti("unsafe.Pointer")}, Fixed: "(n int, p0 uintptr) unsafe.Pointer { return GConvU(p0) }"},
		{Params: []int{ti("uintptr")}, Results: []int{ti("any")}, Fixed: "(n int, p0 uintptr) any { return GConvU(p0) }"},
	} {
		w.Pkg, w.Name = "a", fmt.Sprintf("GW%d", k)
		g.funcs = append(g.funcs, w)
	}
	for _, pkg := range []string{"a", "b"} {
		var sb strings.Builder
		g.sb, g.pkg = &sb, pkg
		fmt.Fprintf(&sb, "package %s\n\nimport (\n\t\"errors\"\n\t\"unsafe\"\n", pkg)
		if pkg == "b" {
			sb.WriteString("\t\"example.com/nilgen/a\"\n")
		}
		sb.WriteString(")\n")
		if pkg == "a" {
			sb.WriteString(nilgenPrelude)
		} else {
			sb.WriteString("\nvar _ = errors.New\nvar _ unsafe.Pointer\nvar _ a.T\n")
		}
		for i, f := range g.funcs {
			if f.Pkg != pkg {
				continue
			}
			if f.Fixed != "" {
				fmt.Fprintf(&sb, "\nfunc %s%s\n", f.Name, f.Fixed)
				continue
			}
			g.cur, g.nvar, g.indent, g.guard = i, 0, 0, false
			g.budget = 6 + r.Intn(14)
			g.scope = nil
			g.push()
			ps := []string{"n int"}
			g.declare("n", 0)
			for k, p := range f.Params {
				name := fmt.Sprintf("p%d", k)
				ps = append(ps, name+" "+g.tn(p))
				g.declare(name, p)
			}
			var rs []string
			for _, t := range f.Results {
				rs = append(rs, g.tn(t))
			}
			g.line("")
			g.line("func %s(%s) (%s) {", f.Name, strings.Join(ps, ", "), strings.Join(rs, ", "))
			g.indent++
			if f.Defer {
				g.line("defer func() { recover() }()")
			}
			for g.budget > 0 {
				g.stmt(0)
			}
			if _, ok := g.pickVar(f.Results[0]); ok && comparableType(f.Results[0]) && r.Chance(30) {
				g.cmpReturns()
			} else if _, ok := g.pickVar(f.Results[0]); ok && r.Chance(35) {
				g.flagReturns()
			} else if r.Chance(25) {
				g.selfLoop()
			} else {
				g.retStmt()
			}
			g.indent--
			g.line("}")
			g.pop()
		}
		WriteFile(filepath.Join(dir, pkg, pkg+".go"), sb.String())
	}
	// package c: one comparison with nil per interface-typed result (SA4023 probes)
	{
		var sb strings.Builder
		sb.WriteString("package c\n\nimport (\n\t\"errors\"\n\t\"unsafe\"\n\n\t\"example.com/nilgen/a\"\n\t\"example.com/nilgen/b\"\n)\n\nvar _ = errors.New\nvar _ unsafe.Pointer\nvar _ a.T\nvar _ = b.B0\n\n")
		for _, f := range g.funcs {
			for k, t := range f.Results {
				if !gTypes[t].Iface {
					continue
				}
				args := []string{"1"}
				for _, p := range f.Params {
					args = append(args, gTypes[p].Grid[0])
				}
				lhs := make([]string, len(f.Results))
				for i := range lhs {
					lhs[i] = "_"
				}
				lhs[k] = "r"
				fmt.Fprintf(&sb, "func C_%s_%s_%d() bool { %s := %s.%s(%s); return r == nil }\n", f.Pkg, f.Name, k, strings.Join(lhs, ", "), f.Pkg, f.Name, strings.Join(args, ", "))
			}
		}
		// the generic library instantiated with interface types, compared with nil
		sb.WriteString("func C_a_GFirst_0() bool { r := a.GFirst([]error{nil}); return r == nil }\n")
		sb.WriteString("func C_a_GFirstM_0() bool { r := a.GFirstM([]error{nil}); return r == nil }\n")
		sb.WriteString("func C_a_GLast_0() bool { r := a.GLast([]any{nil}); return r == nil }\n")
		sb.WriteString("func C_a_GSecond_0() bool { r := a.GSecond[error](nil, nil); return r == nil }\n")
		sb.WriteString("func C_a_GId_0() bool { r := a.GId[error](nil); return r == nil }\n")
		WriteFile(filepath.Join(dir, "c", "c.go"), sb.String())
	}
	WriteFile(filepath.Join(dir, "go.mod"), "module example.com/nilgen\n\ngo 1.22\n")
	WriteFile(filepath.Join(dir, "main.go"), genNilMain(r, g.funcs))
	return g.funcs
}

// genNilMain: the driver runs each function over a grid of arguments, recovering panics, and prints one line
// per (function, result): name index returned sawNil sawNonNil sawInnerNil sawInnerNonNil.
func genNilMain(r *Rand, funcs []GFunc) string {
	var sb strings.Builder
	sb.WriteString(`package main

import (
	"errors"
	"fmt"
	"reflect"
	"unsafe"

	"example.com/nilgen/a"
	"example.com/nilgen/b"
)

var _ = errors.New
var _ unsafe.Pointer
var _ a.T
var _ = b.B0

func ptrTo(p *int) **int { return &p }

func stopAfter(k int) func() bool { return a.StopAfter(k) }

// the generic library itself, instantiated here
func runGenerics() {
	type named = a.NamedPtr
	xs := []any{nil, (*int)(nil), new(int), 3, []int(nil), []int{1}, a.NamedPtr(nil), a.NamedPtr(new(int))}
	for _, x := range xs {
		x := x
		for _, d := range []*int{nil, new(int)} {
			try(func() { r := a.GPick[*int](x, d); record("a.GPick", 0, r == nil, false, r) })
			try(func() { r := a.GFirstNonNil[*int](a.GPickNew[*int](x), d); record("a.GFirstNonNil", 0, r == nil, false, r) })
		}
		try(func() { r := a.GPick[[]int](x, []int{2}); record("a.GPick", 0, r == nil, false, r) })
		try(func() { r := a.GPickNew[*int](x); record("a.GPickNew", 0, r == nil, false, r) })
		try(func() { r := a.GPickNew[named](x); record("a.GPickNew", 0, r == nil, false, r) })
		try(func() { r := a.GPickSlice[[]int](x); record("a.GPickSlice", 0, r == nil, false, r) })
		try(func() { r := a.GAssert[*int](x); record("a.GAssert", 0, r == nil, false, r) })
		try(func() { r := a.GAssert[[]int](x); record("a.GAssert", 0, r == nil, false, r) })
		try(func() { r := a.GAssertOk[*int](x); record("a.GAssertOk", 0, r == nil, false, r) })
		try(func() { r := a.GAssertOk[[]int](x); record("a.GAssertOk", 0, r == nil, false, r) })
		try(func() { r := a.GId[any](x); record("a.GId", 0, r == nil, true, r) })
	}
	for _, e := range []error{nil, errors.New("x"), (*a.MyErr)(nil)} {
		try(func() { r := a.GFirst([]error{e}); record("a.GFirst", 0, r == nil, true, r) })
		try(func() { r := a.GFirstM([]error{e}); record("a.GFirstM", 0, r == nil, true, r) })
		try(func() { r := a.GLast([]any{e}); record("a.GLast", 0, r == nil, true, r) })
		try(func() { r := a.GSecond[error](nil, e); record("a.GSecond", 0, r == nil, true, r) })
		try(func() { r := a.GId[error](e); record("a.GId", 0, r == nil, true, r) })
	}
	for _, p := range []*int{nil, new(int)} {
		try(func() { r := a.GFirst([]*int{p}); record("a.GFirst", 0, r == nil, false, r) })
		try(func() { r := a.GLast([]*int{p}); record("a.GLast", 0, r == nil, false, r) })
	}
	for _, u := range []uintptr{0, uintptr(unsafe.Pointer(new(int)))} {
		try(func() { r := a.GConvU(u); record("a.GConvU", 0, r == nil, false, r) })
	}
	try(func() { r := a.GFirst([]int{1}); _ = r })
	try(func() { r := a.GZero[*int](); record("a.GZero", 0, r == nil, false, r) })
	try(func() { r := a.GZero[[]int](); record("a.GZero", 0, r == nil, false, r) })
	for _, p := range []*int{nil, new(int)} {
		try(func() { r := a.GConv[named](p); record("a.GConv", 0, r == nil, false, r) })
		try(func() { r := a.GId[*int](p); record("a.GId", 0, r == nil, false, r) })
	}
}

type obs struct{ returned, outerNil, outerNon, innerNil, innerNon int }

var table = map[string]*obs{}

func record(name string, k int, outerNil bool, iface bool, v any) {
	key := fmt.Sprintf("%s %d", name, k)
	o := table[key]
	if o == nil {
		o = &obs{}
		table[key] = o
	}
	o.returned++
	if outerNil {
		o.outerNil++
		return
	}
	o.outerNon++
	if !iface {
		return
	}
	rv := reflect.ValueOf(v)
	switch rv.Kind() {
	case reflect.Ptr, reflect.Map, reflect.Slice, reflect.Chan, reflect.Func, reflect.UnsafePointer:
		if rv.IsNil() {
			o.innerNil++
			return
		}
	}
	o.innerNon++
}

func try(f func()) {
	defer func() { recover() }()
	f()
}

func main() {
	for pass := 0; pass < 3; pass++ {
		switch pass {
		case 1:
			a.GPtr, a.GAny, a.GErr = nil, (*int)(nil), (*a.MyErr)(nil)
		case 2:
			a.GPtr, a.GAny, a.GErr = new(int), new(int), errors.New("g")
		}
		runAll()
		runGenerics()
	}
	for key, o := range table {
		fmt.Println(key, o.returned, o.outerNil, o.outerNon, o.innerNil, o.innerNon)
	}
}

func runAll() {
`)
	for _, f := range funcs {
		// grid: n in {0,1,2} x per-parameter values; capped by sampling
		var dims [][]string
		dims = append(dims, []string{"0", "1", "2"})
		total := 3
		for _, p := range f.Params {
			dims = append(dims, gTypes[p].Grid)
			total *= len(gTypes[p].Grid)
		}
		var combos [][]string
		if total <= 160 {
			idx := make([]int, len(dims))
			for {
				c := make([]string, len(dims))
				for i := range dims {
					c[i] = dims[i][idx[i]]
				}
				combos = append(combos, c)
				k := len(dims) - 1
				for k >= 0 {
					idx[k]++
					if idx[k] < len(dims[k]) {
						break
					}
					idx[k] = 0
					k--
				}
				if k < 0 {
					break
				}
			}
		} else {
			for i := 0; i < 160; i++ {
				c := make([]string, len(dims))
				for k := range dims {
					c[k] = dims[k][r.Intn(len(dims[k]))]
				}
				combos = append(combos, c)
			}
		}
		name := f.Pkg + "." + f.Name
		for _, c := range combos {
			var lhs, recs []string
			for k, t := range f.Results {
				lhs = append(lhs, fmt.Sprintf("r%d", k))
				if gTypes[t].PtrLike {
					recs = append(recs, fmt.Sprintf("record(%q, %d, r%d == nil, %v, r%d)", name, k, k, gTypes[t].Iface, k))
				} else {
					recs = append(recs, fmt.Sprintf("_ = r%d", k))
				}
			}
			fmt.Fprintf(&sb, "\ttry(func() { %s := %s(%s); %s })\n", strings.Join(lhs, ", "), name, strings.Join(c, ", "), strings.Join(recs, "; "))
		}
	}
	sb.WriteString("}\n")
	return sb.String()
}
