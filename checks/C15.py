#!/usr/bin/env python3
"""C15 — nilness facts are sound with respect to real executions; SA4023 consequence (DESIGN §6 C15)."""
import json, os, re, sys
sys.path.insert(0, os.path.dirname(os.path.abspath(__file__)))
from common import *

ck = Check("C15", level="proof")
broken = []

ok, out = ck.forbidden_vernac()
if not ok:
    broken.append(("forbidden-vernacular", out))
ok1, out1 = ck.genmodel("C13")
ok2, out2 = ck.genmodel("C15")
if not (ok1 and ok2):
    broken.append(("genmodel", (out1 + out2)[-2000:]))
MODEL = ["Gen/C13_NilnessTable.vo", "Gen/C15_SA4023.vo", "Model/C13.vo", "Model/C13_Nilness.vo", "Model/C15.vo", "Model/C15_Check.vo"]
ok, out = ck.coq_make(MODEL + ["Proofs/C15.vo", "Examples/C15.vo"])
if not ok:
    broken.append(("coq-make", out[-3000:]))
    ok2, out2 = ck.coq_make(MODEL)
    if not ok2:
        ck.violation("coq-model-broken", "Coq model of C15 does not compile (translator output or model)", {"log": out2[-3000:]}, no_input=True)
        ck.finish({"evaluations": 1, "distinct_nontrivial": 0, "rule": "n/a", "samples": ["model did not compile"]})
ck.log("coq made")
ok, out = ck.coq_props()
if not ok:
    broken.append(("Props/C15.v", out[-3000:]))
ck.log("props checked")

exe, out = ck.go_build("./cmd/hc15")
if exe is None:
    ck.violation("harness-build", "harness does not build against the repository", {"log": out[-3000:]}, no_input=True)
    ck.finish({"evaluations": 1, "distinct_nontrivial": 0, "rule": "n/a", "samples": ["harness build failed"]})
ck.log("harness built")
work = ck.mkscratch()
res = os.path.join(work, "out.json")
nmod, na, nb = (24, 30, 30) if ck.thorough() else (2, 30, 30)
# hand-written functions: the repository's own nilness testdata plus the corpus of earlier findings
extra = os.path.join(work, "extra")
os.makedirs(os.path.join(extra, "t"), exist_ok=True)
open(os.path.join(extra, "go.mod"), "w").write("module example.com/extra\n\ngo 1.22\n")
tdir = os.path.join(REPO, "analysis/facts/nilness/testdata/src/example.com/Nilness")
for fn in sorted(os.listdir(tdir)) if os.path.isdir(tdir) else []:
    if fn.endswith(".go"):
        src = open(os.path.join(tdir, fn)).read()
        src = re.sub(r"^package \w+", "package t", src, count=1, flags=re.M)
        open(os.path.join(extra, "t", "td_" + fn), "w").write(src)
env = dict(GOENV); env["VERIF_REPO"] = REPO
args = [exe, "-work", work, "-out", res, "-seed", str(ck.seed), "-modules", str(nmod), "-na", str(na), "-nb", str(nb),
        "-corpus", os.path.join(VERIF, "corpus", "C15", "mod")]
if ck.thorough():
    args += ["-extra", extra]   # the repository's own testdata (pulls in os/exec and its dependencies: slow)
rc, out = sh(args, timeout=3000, env=env)
if rc != 0:
    ck.violation("harness-run", "harness run failed (analysis crashed or generated module did not build): " + out[-800:], {"log": out[-4000:]}, no_input=True)
    ck.finish({"evaluations": 1, "distinct_nontrivial": 0, "rule": "n/a", "samples": ["harness run failed"]})
data = json.load(open(res))
ck.log("harness ran")

for mod in data["Modules"]:
    if mod.get("RunErr") and not mod.get("Obs"):
        ck.violation("oracle-crashed", "the driver of a generated module crashed before reporting (%s): no executions to compare with" % mod["RunErr"],
                     {"sources": mod.get("Sources")}, no_input=True)
NIL = ["NoNil", "NeverNil", "AlwaysNil", "MaybeNilGlobal", "MaybeNil"]
def vn(p): return "(%s, %s)" % (NIL[p[0]], NIL[p[1]])
def shapes(o, iface):
    # o = returned, outerNil, outerNon, innerNil, innerNon
    s = []
    if iface:
        if o[1]: s.append("SINil")
        if o[3]: s.append("SHold true")
        if o[4]: s.append("SHold false")
    else:
        if o[1]: s.append("SNil")
        if o[2]: s.append("SNon")
    return s

cases = []   # (meta, coq text)
unsupported = {}
assume_bad = []
for mi, mod in enumerate(data["Modules"] + [{"Funcs": data.get("Extra") or [], "Obs": {}, "Flagged": [], "Sources": {}, "extra": True}]):
    flagged = {}
    for fl in mod.get("Flagged") or []:
        name, k = fl.split()
        flagged.setdefault(name, []).append(int(k))
    for f in mod["Funcs"]:
        name = "%s.%s" % (f["Pkg"], f["Name"])
        meta = {"module": mi, "name": name, "facts": f["Facts"], "extra": mod.get("extra", False),
                "text": f.get("Text", ""), "kinds": f.get("Kinds") or {}, "recover": f.get("HasRecover"),
                "src": None if mod.get("extra") else mod["Dir"]}
        for a in f.get("Assumed") or []:
            if a["HasRecord"] and a["Used"] != [4, 4] and a["Used"] != a["Final"]:
                assume_bad.append((name, a))
        obs = []
        for k, ri in enumerate(f["ResultInfo"] or []):
            o = (mod.get("Obs") or {}).get("%s %d" % (name, k))
            obs.append(shapes(o, ri[1]) if (o and ri[0]) else [])
        meta["obs"] = obs
        meta["flagged"] = flagged.get(name, [])
        if f["Unsupported"]:
            unsupported[f["Unsupported"]] = unsupported.get(f["Unsupported"], 0) + 1
            # outside the mini-IR: only the execution oracle applies (evaluated with a trivial function body)
            meta["oracle_only"] = True
            fcoq = "mkF [] [] [] []"
        else:
            fcoq = f["Coq"]
        txt = "mkN (%s) %s %s %s" % (fcoq, coq_list([vn(p) for p in f["Facts"]]),
                                     coq_list([coq_list(o) for o in obs]), coq_list([str(k) for k in meta["flagged"]]))
        cases.append((meta, txt))

HDR = """From Coq Require Import List Arith Bool NArith. Import ListNotations.
Require Import Verif.Model.C13 Verif.Model.C13_Nilness Verif.Model.C15 Verif.Model.C15_Check.
"""
SHARD = 40
files, index = {}, {}
for s in range(0, len(cases), SHARD):
    name = "N_%03d" % (s // SHARD)
    files[name] = HDR + "Definition cases : list ncase := %s.\n" % coq_list(["(" + t + ")" for _, t in cases[s:s + SHARD]]) + \
        "Definition M := Eval vm_compute in nmismatches cases.\nDefinition V := Eval vm_compute in nviolations cases.\nDefinition W := Eval vm_compute in nwf cases.\nPrint M.\nPrint V.\nPrint W.\n"
    index[name] = s
results = ck.coq_cases_parallel(files, timeout=1500, jobs=12)
ck.log("cases evaluated")

def idxs(val): return [int(x) for x in re.findall(r"\d+", val or "")]
mism, viol, notwf = [], [], []
for name, (rc, out) in sorted(results.items()):
    M, V, W = ck.printed_value(out, "M"), ck.printed_value(out, "V"), ck.printed_value(out, "W")
    if rc != 0 or M is None or V is None or W is None:
        ck.violation("cases-eval:" + name, "cases file %s did not evaluate" % name, {"log": out[-3000:]}, no_input=True)
        continue
    base = index[name]
    viol += [base + i for i in idxs(V)]
    mism += [base + i for i in idxs(M) if not cases[base + i][0].get("oracle_only")]
    notwf += [base + i for i in idxs(W) if not cases[base + i][0].get("oracle_only")]

def source_of(meta):
    if not meta["src"]:
        return None
    for mod in data["Modules"]:
        if mod["Dir"] == meta["src"]:
            pkg = meta["name"].split(".")[0]
            return mod["Sources"].get("%s/%s.go" % (pkg, pkg))
def fn_source(meta):
    src = source_of(meta)
    if not src:
        return None
    m = re.search(r"^func %s\(.*?^}" % re.escape(meta["name"].split(".")[1]), src, re.S | re.M)
    return m.group(0) if m else None

def claim_key(meta):
    # canonical description of the violated claim: which instruction kinds occur and which claim failed
    bad = []
    for k, (fact, ob) in enumerate(zip(meta["facts"], meta["obs"])):
        if fact[1] == 1 and any(s in ("SNil", "SINil") for s in ob): bad.append("outer-NeverNil-but-nil")
        if fact[1] == 2 and any(s in ("SNon", "SHold true", "SHold false") for s in ob): bad.append("outer-AlwaysNil-but-non-nil")
        if fact[0] == 1 and "SHold true" in ob: bad.append("inner-NeverNil-but-nil")
        if fact[0] == 2 and "SHold false" in ob: bad.append("inner-AlwaysNil-but-non-nil")
    if any(any(s in ("SNil", "SINil") for s in meta["obs"][k]) for k in meta["flagged"] if k < len(meta["obs"])): bad.append("sa4023-flagged-comparison-succeeded")
    return "+".join(sorted(set(bad))) or "claim"
for i in viol[:30]:
    meta = cases[i][0]
    ck.violation("unsound:" + claim_key(meta),
                 "nilness fact of %s is contradicted by an execution: facts (inner,outer) %s, observed shapes per result %s%s" % (
                     meta["name"], [[NIL[a], NIL[b]] for a, b in meta["facts"]], meta["obs"],
                     " (SA4023 flags a comparison with nil that succeeded)" if "sa4023" in claim_key(meta) else ""),
                 {"function": meta["name"], "facts": meta["facts"], "observed": meta["obs"], "sa4023_flagged": meta["flagged"],
                  "go_source": fn_source(meta), "ir": meta["text"], "seed": ck.seed,
                  "rerun": "VERIF_SEED=%d ./check C15" % ck.seed})
if not viol:
    if mism:
        meta = cases[mism[0]][0]
        ck.violation("model-mismatch", "model analysis and nilness.Analysis disagree on %d function(s), first %s, although no fact was contradicted by an execution" % (len(mism), meta["name"]),
                     {"functions": [cases[i][0]["name"] for i in mism[:20]], "first": {"facts": meta["facts"], "ir": meta["text"], "go_source": fn_source(meta), "coq": cases[mism[0]][1][:6000]}}, no_input=True)
    elif assume_bad:
        ck.violation("assumption-not-backed", "a callee fact used by the analysis is neither the default nor the callee's exported fact: %s" % (assume_bad[0],),
                     {"cases": assume_bad[:10]}, no_input=True)
    elif notwf:
        meta = cases[notwf[0]][0]
        ck.violation("ir-outside-premises", "serialised IR of %s does not satisfy wf_func_b (premise of nilness_sound)" % meta["name"],
                     {"functions": [cases[i][0]["name"] for i in notwf[:20]], "ir": meta["text"]}, no_input=True)
if broken and not ck.violations:
    ck.violation("obligation:" + broken[0][0], "proof obligation or tie no longer checks: %s" % broken[0][0], {"broken": broken}, no_input=True)

kinds = {}
for meta, _ in cases:
    for k, n in meta["kinds"].items():
        kinds[k] = kinds.get(k, 0) + n
gen = [m for m, _ in cases if not m["extra"]]
claims = sum(1 for m in gen for f, o in zip(m["facts"], m["obs"]) if o and (f[1] in (1, 2) or f[0] in (1, 2)))
ck.assume += ["nil-shape semantics of each IR instruction kind (exec in Model/C15.v) is what compiled code does: validated by the execution oracle only",
              "callee facts are premises (assume-guarantee); each assumption used is checked to be the default or the callee's exported fact",
              "executions entering through a recover block, generic functions and closures are outside the theorem (oracle only)"]
ck.finish({
    "evaluations": len(cases),
    "distinct_nontrivial": sum(1 for m in gen if any(f[1] in (1, 2) or f[0] in (1, 2) for f in m["facts"])),
    "rule": "one evaluation = one source function: its IR serialised from the real go/ir and analysed by the Coq model (two solver schedules) must give the fact vector exported by the real nilness.Analysis; its facts are compared (gamma) with the nil-shapes observed when the compiled function ran on the input grid; distinct_nontrivial = generated functions exporting at least one NeverNil/AlwaysNil claim",
    "samples": [{"function": m["name"], "facts": m["facts"], "observed": m["obs"]} for m in gen[:3]],
    "functions_generated": len(gen), "functions_handwritten": len(cases) - len(gen),
    "claims_checked_against_executions": claims,
    "results_that_returned": sum(1 for m in gen for o in m["obs"] if o),
    "sa4023_flags": sum(len(m["flagged"]) for m in gen),
    "outside_mini_ir": unsupported, "instruction_kinds": kinds,
    "callee_assumptions_checked": sum(len(f.get("Assumed") or []) for mod in data["Modules"] for f in mod["Funcs"]),
    "traces_validated_against_impl": len(cases) - sum(1 for m, _ in cases if m.get("oracle_only")),
})
