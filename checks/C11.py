#!/usr/bin/env python3
"""C11 — check selection, config inheritance, exit status and formats agree (DESIGN §6 C11)."""
import json, os, re, sys, hashlib
sys.path.insert(0, os.path.dirname(os.path.abspath(__file__)))
from common import *

ck = Check("C11", level="proof")

if ck.replay_in:
    print(open(ck.replay_in).read())
    sys.exit(0)

broken = []          # proof obligations / ties that no longer check

ok, out = ck.forbidden_vernac()
if not ok:
    broken.append(("forbidden-vernacular", out))

# 1. translator + theorems re-checked against the regenerated names / literals
ok, out = ck.genmodel()
if not ok:
    broken.append(("genmodel", out[-3000:]))
ok, out = ck.coq_make(["Model/C11_Check.vo", "Proofs/C11.vo"])
if not ok:
    ck.violation("coq-model-broken", "Coq model of C11 does not compile (translation of the check names / literals failed?)",
                 {"log": out[-3000:], "broken": broken}, no_input=True)
    ck.finish({"evaluations": 1, "distinct_nontrivial": 0, "rule": "n/a", "samples": ["model did not compile"]})
ck.log("model and proofs made")
ok, out = ck.coq_props()
if not ok:
    broken.append(("Props/C11.v", out[-3000:]))
else:
    ok, out = ck.coq_make(["Examples/C11.vo"])
    if not ok:
        broken.append(("Examples/C11.v", out[-3000:]))
ck.log("props checked")

# 2. implementation: in-process through the hook, and the staticcheck binary on generated modules
exe, out = ck.go_build("./cmd/hc11")
if exe is None:
    ck.violation("harness-build", "harness does not build against /repo", {"log": out[-3000:]}, no_input=True)
    ck.finish({"evaluations": 1, "distinct_nontrivial": 0, "rule": "n/a", "samples": ["harness build failed"]})
sc, out = ck.build_repo_cmd("./cmd/staticcheck", "staticcheck-c11")
if sc is None:
    ck.violation("staticcheck-build", "cmd/staticcheck does not build", {"log": out[-3000:]}, no_input=True)
    ck.finish({"evaluations": 1, "distinct_nontrivial": 0, "rule": "n/a", "samples": ["staticcheck build failed"]})
ck.log("harness and staticcheck built")
work = ck.mkscratch()
# registered check names as extracted by the translator (staticcheck registers all but the QF checks)
gen = open(os.path.join(COQ, "Gen", "C11_Names.v")).read()
m = re.search(r"Definition gen_analyzer_names : list string :=\s*\[(.*?)\]\.", gen, re.S)
real_names = re.findall(r'"([^"]*)"', m.group(1)) if m else []
names_file = os.path.join(work, "names.txt")
open(names_file, "w").write("\n".join(real_names) + "\n")
res = os.path.join(work, "out.json")
n, mods, runs = (40000, 20, 40) if ck.thorough() else (3000, 3, 8)
rc, out = sh([exe, "-work", work, "-out", res, "-seed", str(ck.seed), "-n", str(n), "-mods", str(mods), "-runs", str(runs),
              "-staticcheck", sc, "-names", names_file], timeout=3000, env=dict(GOENV, VERIF_REPO=REPO))
if rc != 0:
    ck.violation("harness-run", "harness run failed: " + out[-500:], {"log": out[-3000:]}, no_input=True)
    ck.finish({"evaluations": 1, "distinct_nontrivial": 0, "rule": "n/a", "samples": ["harness run failed"]})
cases = json.load(open(res))
ck.log("harness: %d cases" % len(cases))

# ---- Gallina literals (strings shared through one definition per distinct string) ----
STRS = {}
_coq_str = coq_str
SMALL = ["SA1000", "SA1001", "SA4006", "S1000", "S1001", "ST1000", "ST1003", "QF1001", "U1000", "nodigit"]


def S(s):
    if s not in STRS:
        STRS[s] = "s%d" % len(STRS)
    return STRS[s]


def slist(l):
    l = l or []
    if l == real_names and real_names:
        return "real_names"
    if l == SMALL:
        return "small_names"
    return coq_list([S(x) for x in l])


def olist(l, has):
    return "(Some %s)" % slist(l) if has else "None"


def chain(c, h):
    return coq_list([olist(l, hh) for l, hh in zip(c or [], h or [])])


FMT = {"text": "FText", "stylish": "FStylish", "json": "FJson", "sarif": "FSarif", "null": "FNull"}


def prob(p):
    return "mkP %s %d %d %s %s %s" % (S(p["File"]), p["Line"], p["Col"], S(p["Cat"]), S(p["Msg"]), "SevIgnored" if p["Ignored"] else "SevError")


def rend(r):
    return "(%s, %d, %d, %s, %s)" % (S(r["File"]), r["Line"], r["Col"], S(r["Cat"]), S(r["Msg"]))


def ccase(c):
    t = c["T"]
    if t == "filter":
        return "CFilter (map lower %s) (map lower %s) %s" % (slist(c["All"]), slist(c["Sel"]),
                                                              coq_list(["(%s, %s)" % (S(kv["K"]), coq_bool(kv["V"])) for kv in (c["Map"] or [])]))
    if t == "parse":
        return "CParse %s %s" % (S(c["S"]), "None" if c["ParsedNil"] else "(Some %s)" % slist(c["Parsed"]))
    if t == "merge":
        return "CMerge %s %s %s %s" % (slist(c["Default"]), chain(c["Chain"], c["HasChain"]), olist(c["Cli"], c["HasCli"]), slist(c["Effective"]))
    if t == "load":
        return "CLoad %s %s %s %s %s" % (slist(c["All"]), slist(c["Default"]), chain(c["Chain"], c["HasChain"]), olist(c["Cli"], c["HasCli"]), slist(c["Effective"]))
    if t == "exit":
        return "CExit %s %s %s %s %s %s %d %s" % (FMT[c["Format"]], slist(c["All"]), slist(c["Fail"]), coq_bool(c["ShowIgnored"]), coq_bool(c["NoCompileErrors"]),
                                                  coq_list([prob(p) for p in (c["Problems"] or [])]), c["Exit"], coq_list([rend(r) for r in (c["Out"] or [])]))
    if t == "cli":
        pkgs = coq_list(["(%s, %s)" % (chain(p["Chain"], p["HasChain"]), coq_list([prob(q) for q in (p["Problems"] or [])])) for p in c["Pkgs"]])
        return "CCli %s %s %s %s %s %s %d %s" % (FMT[c["Format"]], slist(c["All"]),
                                                 "(Some %s)" % S(c["ChecksFlag"]) if c["HasChecksFlag"] else "None",
                                                 "(Some %s)" % S(c["FailFlag"]) if c["HasFailFlag"] else "None",
                                                 coq_bool(c["ShowIgnored"]), pkgs, c["Exit"], coq_list([rend(r) for r in (c["Out"] or [])]))
    if t == "loadbad":
        CK = {"absent": "ConfAbsent", "ok": "ConfOk", "syntax": "ConfSyntaxError", "mistyped": "ConfMistyped"}
        return "CLoadBad %s %s" % (coq_list([CK[k] for k in c["ConfKinds"]]), coq_bool(c["LoadErr"]))
    if t == "cone":
        KIND = {"named": "PNamed", "faileddep": "PFailedDep", "cleandep": "PCleanDep"}
        pkgs = coq_list(["(%s, %s, %s)" % (KIND[p["Kind"]], chain(p["Chain"], p["HasChain"]), coq_list([prob(q) for q in (p["Problems"] or [])])) for p in c["Pkgs"]])
        return "CCone %s %s None None %s %s %d %s" % (FMT[c["Format"]], slist(c["All"]), coq_bool(c["ShowIgnored"]), pkgs, c["Exit"],
                                                      coq_list([rend(r) for r in (c["Out"] or [])]))
    raise ValueError(t)


HEADER = """From Coq Require Import List ZArith String. Import ListNotations.
Require Import Verif.Gen.C11_Names Verif.Model.C11 Verif.Model.C11_Check.
Open Scope string_scope. Open Scope Z_scope. Open Scope list_scope.
"""
SHARD = 800 if not ck.thorough() else 2000
files = {}
for s in range(0, len(cases), SHARD):
    STRS.clear()
    defs = ["Definition c%d : c11case := %s." % (k, ccase(c)) for k, c in enumerate(cases[s:s + SHARD])]
    pre = ["Definition %s : string := %s." % (v, _coq_str(k)) for k, v in STRS.items()]
    pre.append("Definition real_names : list string := %s." % coq_list([_coq_str(x) for x in real_names]))
    pre.append("Definition small_names : list string := %s." % coq_list([_coq_str(x) for x in SMALL]))
    text = HEADER + "\n".join(pre) + "\n" + "\n".join(defs) + "\n" + \
        "Definition cases : list c11case := %s.\n" % coq_list(["c%d" % k for k in range(len(defs))]) + \
        "Definition M := Eval vm_compute in mismatches cases.\nDefinition V := Eval vm_compute in violations cases.\nPrint M.\nPrint V.\n"
    if s == 0:
        text += "Definition X := Eval vm_compute in find_cex.\nPrint X.\n"
    files["s%04d" % (s // SHARD)] = text


def run_cases(files, timeout=1500, jobs=8):
    from concurrent.futures import ThreadPoolExecutor

    def one(name, text):
        path = os.path.join(ck.casedir, name + ".v")
        with open(path, "w") as f:
            f.write(text)
        return sh(["coqc", "-noglob", "-R", COQ, "Verif", path], cwd=ck.casedir, timeout=timeout)
    with ThreadPoolExecutor(max_workers=jobs) as ex:
        futs = {n: ex.submit(one, n, t) for n, t in files.items()}
        return {n: f.result() for n, f in futs.items()}


ck.log("evaluating %d case files" % len(files))
results = run_cases(files)
ck.log("evaluated")


def parse(val):
    return [(int(m.group(1)), [x.strip() for x in m.group(2).split(";")])
            for m in re.finditer(r"\((\d+)(?:%nat)?,\s*\[([^\]]*)\]\)", val)]


X = ck.printed_value(results["s0000"][1], "X") if results.get("s0000", (1, ""))[0] == 0 else None
Vs, Ms = [], []
evalfail = None
for name in sorted(files):
    rc, out = results[name]
    M, V = ck.printed_value(out, "M"), ck.printed_value(out, "V")
    if rc != 0 or M is None or V is None:
        evalfail = (name, out[-2000:])
        continue
    base = int(name[1:]) * SHARD
    Vs += [(base + i, d) for i, d in parse(V)]
    Ms += [(base + i, d) for i, d in parse(M)]
if evalfail:
    ck.violation("cases-eval", "cases file %s did not evaluate" % evalfail[0], {"log": evalfail[1]}, no_input=True)


def brief(c):
    t = c["T"]
    if t == "filter":
        return "filterAnalyzerNames(%s, %s) = %s" % (c["All"] if len(c["All"] or []) < 12 else "<all %d registered checks>" % len(c["All"]), c["Sel"],
                                                     {kv["K"]: kv["V"] for kv in (c["Map"] or [])} if len(c["Map"] or []) < 14 else "<%d entries>" % len(c["Map"]))
    if t == "parse":
        return "list.Set(%r) = %s" % (c["S"], None if c["ParsedNil"] else c["Parsed"])
    if t in ("merge", "load"):
        ch = [l if h else None for l, h in zip(c["Chain"] or [], c["HasChain"] or [])]
        return "%s: default %s, staticcheck.conf checks outermost first %s, -checks %s -> effective %s" % (
            "config.Load" if t == "load" else "Config.Merge", c["Default"], ch, c["Cli"] if c["HasCli"] else None, c["Effective"])
    if t == "exit":
        return "printDiagnostics -f %s -fail %s show-ignored=%s no-compile-errors=%s on %s -> exit %d, printed %s" % (
            c["Format"], c["Fail"], c["ShowIgnored"], c["NoCompileErrors"],
            [(p["File"], p["Line"], p["Col"], p["Cat"], "ignored" if p["Ignored"] else "") for p in (c["Problems"] or [])], c["Exit"],
            [(r["File"], r["Line"], r["Col"], r["Cat"]) for r in (c["Out"] or [])])
    if t == "cli":
        return "staticcheck%s%s%s -f %s ./... in %s (staticcheck.conf checks: %s) -> exit %d, %d problems printed: %s" % (
            " -checks %r" % c["ChecksFlag"] if c["HasChecksFlag"] else "", " -fail %r" % c["FailFlag"] if c["HasFailFlag"] else "",
            " -show-ignored" if c["ShowIgnored"] else "", c["Format"], c["Note"],
            {p["Dir"]: (p["Chain"][-1] if p["HasChain"][-1] else None) for p in c["Pkgs"]}, c["Exit"], len(c["Out"] or []),
            sorted({(r["File"], r["Cat"]) for r in (c["Out"] or [])})[:12])
    if t == "loadbad":
        return "config.Load on staticcheck.conf files (outermost first) %s -> error: %s" % (c["Note"].strip(), c["LoadErr"])
    if t == "cone" and c["Note"].startswith("badconf"):
        return "staticcheck -f %s ./... with %s -> exit %d, printed %s (expected one load error for the packages below a/ plus the problems of the root package)" % (
            c["Format"], c["Note"][8:-6], c["Exit"], [(r["File"], r["Line"], r["Col"], r["Cat"]) for r in (c["Out"] or [])])
    if t == "cone":
        return "staticcheck -f %s %s (patterns name the importer only; import cone: %s) -> exit %d, printed %s" % (
            c["Format"], c["Note"].split()[-1],
            [(p["Kind"], p["Dir"], [(q["File"], q["Line"], q["Cat"]) for q in (p["Problems"] or [])]) for p in c["Pkgs"]], c["Exit"],
            [(r["File"], r["Line"], r["Col"], r["Cat"]) for r in (c["Out"] or [])])
    return t


def key_of(c):
    inp = {k: v for k, v in c.items() if k not in ("Map", "Parsed", "ParsedNil", "Effective", "Exit", "Out", "LoadErr")}
    return "%s:%s" % (c["T"], hashlib.sha1(json.dumps(inp, sort_keys=True).encode()).hexdigest()[:12])


WHAT = {"DMap": "the allow map is not 'the last matching element of the selection decides'",
        "DParse": "the flag value is not split at commas and trimmed",
        "DList": "the effective check list is not the innermost list with 'inherit' spliced from the next outer level",
        "DAllowed": "the effective check list selects other checks than the innermost list with 'inherit' spliced from the next outer level",
        "DExit": "exit status differs from: 1 iff not SARIF and a shown problem is in the -fail set or a compile/config/directive error",
        "DOutput": "printed problems differ from the problems of the selected checks that are not hidden",
        "DLoadErr": "config.Load must fail exactly when a staticcheck.conf on the way to the root cannot be decoded (syntax error or a value of the wrong type)"}
PRIO = {"parse": 0, "loadbad": 0, "merge": 1, "filter": 2, "exit": 3, "load": 4, "cone": 4, "cli": 5}
Vs.sort(key=lambda x: (PRIO.get(cases[x[0]]["T"], 9), len(json.dumps(cases[x[0]])), x[0]))
seen_kinds = {}
for i, diffs in Vs:
    c = cases[i]
    kind = (c["T"], tuple(diffs))
    if seen_kinds.get(kind, 0) >= 2 or len(ck.violations) >= 10:
        continue
    seen_kinds[kind] = seen_kinds.get(kind, 0) + 1
    ck.violation(key_of(c), "%s: %s" % ("; ".join(WHAT.get(d, d) for d in diffs), brief(c)[:900]),
                 {"case_index": i, "case": c, "diffs": diffs, "rerun": "VERIF_SEED=%d ./check C11 (case %d)" % (ck.seed, i),
                  "broken_obligations": [b[0] for b in broken]})

if not ck.violations and Ms:
    i, diffs = Ms[0]
    ck.violation("model-mismatch", "model and implementation disagree although the property holds on all explored cases (%d cases, first: %d %s: %s)" % (
        len(Ms), i, diffs, brief(cases[i])[:500]), {"case_index": i, "case": cases[i], "diffs": diffs, "count": len(Ms)}, no_input=True)
if broken and not ck.violations:
    ck.violation("obligation:" + broken[0][0], "proof obligation or tie no longer checks: %s (model-level disagreements over small selections: %s)" % (broken[0][0], (X or "?")[:200]),
                 {"broken": broken, "model_counterexamples": X}, no_input=True)


# ---- coverage, measured ----
def nontrivial(c):
    t = c["T"]
    if t == "filter":
        sel = c["Sel"] or []
        return len(sel) >= 2 and any(s.endswith("*") for s in sel) and any(s.startswith("-") and len(s) > 1 for s in sel)
    if t == "parse":
        return "," in c["S"] and " " in c["S"]
    if t == "loadbad":
        return len(c["ConfKinds"]) >= 2
    if t in ("merge", "load"):
        setl = [l for l, h in zip(c["Chain"] or [], c["HasChain"] or []) if h]
        return len(setl) >= 1 and any("inherit" in l for l in setl) and (len(setl) >= 2 or len(setl) < len(c["Chain"] or []))
    if t == "exit":
        return len(c["Problems"] or []) >= 1 and c["Fail"] != ["all"]
    return True


kinds, nt = {}, set()
for c in cases:
    kinds[c["T"]] = kinds.get(c["T"], 0) + 1
    if nontrivial(c):
        nt.add(key_of(c))
cli = [c for c in cases if c["T"] in ("cli", "cone")]
ck.trusted += ["harness hc11 (/verif/harness/cmd/hc11) and hook lintcmd/verif_export_c11c12.go: conversion to lintcmd's own types, stdout of printDiagnostics captured through a pipe; parsers for the text, stylish, JSON and SARIF output",
               "TOML decoding of staticcheck.conf (BurntSushi/toml) and the directory walk of parseConfigs are not modelled; they are exercised by config.Load and by the staticcheck binary on generated trees"]
ck.assume += ["check names, selection elements and categories are ASCII (strings.ToLower / unicode.IsNumber are modelled on ASCII); c11_ascii_names discharges it for every registered check name",
              "every analyzer runs regardless of the selection and its problems do not depend on the selection (modelled by success being a filter; explored on %d staticcheck runs against a -checks '*' baseline)" % len(cli),
              "with -show-ignored ignored problems are printed and counted like any other (modelled as the code does; the property statement is claimed for the default)",
              "a package that fails to load reports its compile/config errors once, attached to the first broken package of an import chain (go/packages); lint_package keeps them for failed packages in the import cone of the named packages (12 partial-pattern runs per check run)",
              "the problems handed to printDiagnostics are pairwise different in (position, category up to case, message): merging of duplicates is C12's subject"]
ck.finish({
    "evaluations": len(cases),
    "distinct_nontrivial": len(nt),
    "rule": "case = one call of filterAnalyzerNames / list.Set / a chain of Config.Merge / config.Load on a generated staticcheck.conf tree / printDiagnostics (exit status + parsed output of one formatter) through the hook, or one run of the staticcheck binary on a generated 3-package module; non-trivial = filter: >=2 elements with a glob and a negation; parse: commas and spaces; merge/load: a set level with 'inherit' plus another set or an unset level; exit: >=1 problem and -fail other than the default; cli: every run; distinct by hash of the inputs",
    "samples": [brief(cases[i])[:600] for i in ([0, len(cases) // 2, len(cases) - 1] if cases else [])],
    "by_kind": kinds,
    "cli_formats": {f: sum(1 for c in cli if c["Format"] == f) for f in FMT},
    "cli_exit_1": sum(1 for c in cli if c["Exit"] == 1),
    "model_mismatches": len(Ms),
})
