#!/usr/bin/env python3
"""C19 — structlayout matches the compiler; optimize never grows a struct (DESIGN §6 C19, design.d/C19.md)."""
import json, os, re, sys
sys.path.insert(0, os.path.dirname(os.path.abspath(__file__)))
from common import *

ck = Check("C19", level="proof")
if ck.replay_in:
    print(open(ck.replay_in).read())
    sys.exit(0)
broken = []          # proof obligations / ties that no longer check

def bail(sample):
    ck.finish({"evaluations": 1, "distinct_nontrivial": 0, "rule": "n/a", "samples": [sample]})

ok, out = ck.forbidden_vernac()
if not ok:
    broken.append(("forbidden-vernacular", out))

# 1. translator + theorems re-checked against the regenerated tables
ok, out = ck.genmodel()
if not ok:
    broken.append(("genmodel", out[-3000:]))
PROOFS = ["Proofs/C19_Main.vo", "Examples/C19.vo"]
ok, out = ck.coq_make(["Model/C19_Check.vo"] + PROOFS)
if not ok:
    broken.append(("coq-make", out[-3000:]))
    ok2, out2 = ck.coq_make(["Model/C19_Check.vo"])
    if not ok2:
        ck.violation("coq-model-broken", "Coq model of C19 does not compile (generated tables no longer fit the model)",
                     {"log": out2[-3000:]}, no_input=True)
        bail("model did not compile")
ok, out = ck.coq_props()
if not ok:
    broken.append(("Props/C19.v", out[-3000:]))

ck.log("coq theorems re-checked (broken: %s)" % [b[0] for b in broken])
# 2. implementation: gcsizes in-process, the commands built from the working tree, the compiler
work = ck.mkscratch()
bindir = os.path.join(work, "bin")
os.makedirs(bindir)
rc, out = sh(["go", "build", "-o", bindir + "/", "./cmd/structlayout", "./cmd/structlayout-optimize"], cwd=REPO, timeout=1500)
if rc != 0:
    ck.violation("cli-build", "structlayout commands do not build", {"log": out[-3000:]}, no_input=True)
    bail("cli build failed")
ck.log("commands built")
exe, out = ck.go_build("./cmd/hc19")
if exe is None:
    ck.violation("harness-build", "harness does not build against /repo", {"log": out[-3000:]}, no_input=True)
    bail("harness build failed")
res = os.path.join(work, "out.json")
ntypes, nextra = (600, 3000) if ck.thorough() else (40, 200)
env = dict(GOENV); env["VERIF_REPO"] = REPO
rc, out = sh([exe, "-work", work, "-out", res, "-seed", str(ck.seed), "-n", str(ntypes), "-extra", str(nextra), "-bin", bindir], timeout=3000, env=env)
if rc != 0:
    ck.violation("harness-run", "harness run failed: " + out[-500:], {"log": out[-3000:]}, no_input=True)
    bail("harness run failed")
cases = json.load(open(res))
ck.log("harness done: %d types" % len(cases))

def zl(l):
    return coq_list(["%d" % x for x in (l or [])])
def pl(p):
    return coq_list(["%d%%nat" % (x if x >= 0 else 999999) for x in (p or [])])
def entries(t):
    if not t["Ok"]:
        return "None"
    return "(Some %s)" % coq_list(["mkE %s %d %d %d %d %s" % (pl(e["Path"]), e["Start"], e["End"], e["Size"], e["Align"], coq_bool(e["Pad"]))
                                   for e in (t["Entries"] or [])])
def coq_case(c):
    gs = coq_list(["mkG (%d, %d) %d %d %s" % (g["Word"], g["MaxAlign"], g["Size"], g["Align"], zl(g["Offsets"])) for g in c["Gcsizes"]])
    cc = c["Compiler"]
    leaves = coq_list(["(%s, %d, %d, %d)" % (pl(l["Path"]), l["Off"], l["Size"], l["Align"]) for l in (cc["Leaves"] or [])])
    return "mkCase (%s) %s %s %d %d %s %s %s %s %s" % (c["Coq"], coq_bool(c["Tools"]), gs, cc["Size"], cc["Align"], zl(cc["Offsets"]), leaves,
                                                 entries(c["Lay"]), entries(c["Opt"]), entries(c["OptR"]))

HEADER = """From Coq Require Import List ZArith Bool. Import ListNotations.
Require Import Verif.Model.C19_Types Verif.Model.C19 Verif.Model.C19_Check.
Open Scope Z_scope.
"""
SHARD = 60
files, shard_of = {}, {}
for k in range(0, len(cases), SHARD):
    name = "s%03d" % (k // SHARD)
    shard_of[name] = k
    files[name] = HEADER + "Definition cases : list case := %s.\n" % coq_list([coq_case(c) for c in cases[k:k + SHARD]]) + \
        "Definition M := Eval vm_compute in mismatches cases.\nDefinition V := Eval vm_compute in violations cases.\nPrint M.\nPrint V.\n"
results = ck.coq_cases_parallel(files, timeout=1500, jobs=8)
ck.log("cases evaluated")

def parse(val):
    res = []
    for m in re.finditer(r"\((\d+)%nat,\s*\[([^\]]*)\]\)", val):
        res.append((int(m.group(1)), [x.strip() for x in m.group(2).split(";")]))
    return res
M, V = [], []
evalfail = None
for name in sorted(files):
    rc, out = results[name]
    m, v = ck.printed_value(out, "M"), ck.printed_value(out, "V")
    if rc != 0 or m is None or v is None:
        evalfail = out[-3000:]
        continue
    M += [(shard_of[name] + i, d) for i, d in parse(m)]
    V += [(shard_of[name] + i, d) for i, d in parse(v)]
if evalfail is not None:
    ck.violation("cases-eval", "cases file did not evaluate", {"log": evalfail}, no_input=True)

WHAT = {
    "VGcsizes": "go/gcsizes disagrees with the compiler (unsafe.Sizeof/Alignof/Offsetof) on size, alignment or field offsets",
    "VToolFailed": "a structlayout command failed on a valid struct type",
    "VLeaves": "structlayout reports a field offset, size or alignment that differs from the compiler's",
    "VTiles": "structlayout's fields and padding do not cover [0, unsafe.Sizeof) without gaps or overlaps",
    "VOptPerm false": "structlayout-optimize output is not a permutation of the input's top-level fields",
    "VOptPerm true": "structlayout-optimize -r output is not a permutation of the input fields",
    "VOptValid false": "structlayout-optimize output is not a valid layout of the input's top-level fields (alignment, room for the field's leaves, contiguity or final padding)",
    "VOptValid true": "structlayout-optimize -r output is not a valid layout of the input fields (size/alignment changed, misaligned start, gap or missing final padding)",
    "VOptLarger false": "structlayout-optimize produced a layout larger than the original",
    "VOptLarger true": "structlayout-optimize -r produced a layout larger than the original",
}
def describe(c):
    def lines(t):
        if not t["Ok"]:
            return "FAILED: " + t["Err"]
        return ["%s: %d-%d (size %d, align %d)" % ("padding" if e["Pad"] else e["Name"], e["Start"], e["End"], e["Size"], e["Align"]) for e in (t["Entries"] or [])]
    return {"type": "type %s %s" % (c["Name"], c["Src"]), "compiler": c["Compiler"], "gcsizes_host": c["Gcsizes"][0],
            "structlayout": lines(c["Lay"]), "optimize": lines(c["Opt"]), "optimize_r": lines(c["OptR"]),
            "rerun": "put the declaration (with the N* declarations it uses, see harness/cmd/hc19/gen.go, seed %d) in a package; structlayout -json . %s | structlayout-optimize -json" % (ck.seed, c["Name"])}

bad386 = sorted([c for c in cases if c.get("Arch386", "").startswith("mismatch")], key=lambda c: (c["Nodes"], c["Index"]))
for c in bad386[:2]:
    ck.violation("gcsizes386:%s" % c["Src"].replace(" ", "_"),
                 "go/gcsizes with WordSize=MaxAlign=4 disagrees with the GOARCH=386 compiler: type %s: %s (%d failing types of %d)" % (c["Src"], c["Arch386"], len(bad386), len(cases)),
                 {"type": "type %s %s" % (c["Name"], c["Src"]), "gcsizes_4_4": c["Gcsizes"][1], "compiler": c["Arch386"]})
if V:
    # one report per kind of failure: the smallest failing type (plus every directed case, whose keys are seed-independent)
    bykind = {}
    for i, ds in V:
        for d in ds:
            bykind.setdefault(d, []).append(i)
    for d, idxs in sorted(bykind.items()):
        idxs.sort(key=lambda i: (cases[i]["Nodes"], i))
        for i in idxs[:2]:
            c = cases[i]
            ck.violation("%s:%s" % (d.replace(" ", "-"), c["Src"].replace(" ", "_")), "%s: type %s (%d failing types of %d)" % (WHAT.get(d, d), c["Src"], len(idxs), len(cases)), describe(c))
elif M and evalfail is None and not bad386:
    i, ds = M[0]
    ck.violation("model-mismatch", "model and implementation disagree although the property holds on all explored types: %s on %s" % (ds, cases[i]["Src"]),
                 {"mismatches": [(cases[i]["Src"], ds) for i, ds in M[:20]], "first": describe(cases[i])}, no_input=True)
if broken and not ck.violations:
    ck.violation("obligation:" + broken[0][0], "proof obligation or tie no longer checks (%s); property predicates hold on all %d explored types" % (broken[0][0], len(cases)),
                 {"broken": broken}, no_input=True)

def leaves(c): return c["Compiler"]["Leaves"] or []
def has_pad(c): return sum(l["Size"] for l in leaves(c)) < c["Compiler"]["Size"]
def has_nested(c): return any(len(l["Path"]) > 1 for l in leaves(c))
def has_zero(c): return any(l["Size"] == 0 for l in leaves(c))
def nontrivial(c): return has_pad(c) or has_nested(c) or has_zero(c)
tool = [c for c in cases if c["Tools"]]
distinct = {c["Coq"] for c in cases if nontrivial(c)}
ck.trusted += ["hc19 (/verif/harness/cmd/hc19): type generator, name->index-path mapping of the tools' JSON, transcription of the generated program's output",
               "the Go toolchain /repo builds with, as the reference for unsafe.Sizeof/Alignof/Offsetof (amd64)"]
ck.assume += ["sort.Sort returns a permutation of its input in which no later element is Less than an earlier one (theorems quantify over every such permutation)",
              "gc layout rules as transcribed in Model/C19.v gc_sa (compared with the running compiler on every generated type)",
              "theorems cover WordSize = MaxAlign in {4, 8} (386/arm and amd64/arm64 settings); the commands are exercised on the host architecture only; the 4/4 setting of gcsizes is compared with the 386 compiler at compile time"]
ck.finish({
    "evaluations": len(cases) * 6 + len(tool) * 3,
    "distinct_nontrivial": len(distinct),
    "rule": "one case = one generated struct type laid out by gcsizes (4 word-size/max-align settings, in-process) and by the compiler (compiled and run program: Sizeof/Alignof/Offsetof of the struct, its fields and all leaves); the first `tool_types` of them also by structlayout -json and by structlayout-optimize with and without -r (commands built from the working tree). every type's gcsizes{4,4} size/alignment/offsets are also asserted as array lengths in a package compiled with GOARCH=386. evaluations = 6 per type (4 gcsizes settings + reference rules vs compiler + 386 assertions) + 3 per tool type. non-trivial = the compiler's layout has padding, a nested struct or a zero-size field; distinct by the type's structure",
    "samples": [{"type": c["Src"], "compiler": c["Compiler"], "structlayout": c["Lay"]["Entries"]} for c in cases[18:21]],
    "types": len(cases), "tool_types": len(tool), "directed_types": 18,
    "with_padding": sum(1 for c in cases if has_pad(c)), "tool_with_padding": sum(1 for c in tool if has_pad(c)),
    "with_nested_struct": sum(1 for c in cases if has_nested(c)), "tool_with_nested_struct": sum(1 for c in tool if has_nested(c)),
    "with_zero_size_field": sum(1 for c in cases if has_zero(c)), "tool_with_zero_size_field": sum(1 for c in tool if has_zero(c)),
    "with_trailing_zero_size": sum(1 for c in cases if leaves(c) and leaves(c)[-1]["Size"] == 0),
    "checked_against_386_compiler": sum(1 for c in cases if c.get("Arch386")), "mismatch_386": len(bad386),
    "model_mismatches": len(M), "property_violations": len(V),
})
