"""Helpers shared by checks/C07.py and checks/C17.py (U1000 graph checks)."""
import os
from concurrent.futures import ThreadPoolExecutor
from common import sh, COQ


def coq_cases_noglob(ck, files, timeout=3000, jobs=8):
    """Like Check.coq_cases_parallel but without .glob output (the case files are large list literals; writing
    cross-reference data for every notation costs about a fifth of the time)."""
    def one(name, text):
        path = os.path.join(ck.casedir, name + ".v")
        with open(path, "w") as f:
            f.write(text)
        return sh(["coqc", "-noglob", "-R", COQ, "Verif", path], cwd=ck.casedir, timeout=timeout)
    res = {}
    with ThreadPoolExecutor(max_workers=jobs) as ex:
        futs = {n: ex.submit(one, n, t) for n, t in files.items()}
        for n, f in futs.items():
            res[n] = f.result()
    return res
