"""Helpers shared by checks/C07.py and checks/C17.py (U1000 graph checks)."""
import os
from concurrent.futures import ThreadPoolExecutor
from common import sh, COQ


def coq_cases_noglob(ck, files, timeout=3000, jobs=8):
    """Like Check.coq_cases_parallel but without .glob output (the case files are large list literals; writing
    cross-reference data for every notation costs about a fifth of the time)."""
    # private directory: coq/cases/<id> is wiped by every other invocation of the same check (a concurrent run would
    # remove the .vo being written); the .v files are also copied to coq/cases/<id> for inspection
    private = ck.mkscratch(prefix="verif-%s-cases-" % ck.pid)
    def one(name, text):
        path = os.path.join(private, name + ".v")
        with open(path, "w") as f:
            f.write(text)
        try:
            os.makedirs(ck.casedir, exist_ok=True)
            with open(os.path.join(ck.casedir, name + ".v"), "w") as f:
                f.write(text)
        except OSError:
            pass
        return sh(["coqc", "-noglob", "-R", COQ, "Verif", path], cwd=private, timeout=timeout)
    res = {}
    with ThreadPoolExecutor(max_workers=jobs) as ex:
        futs = {n: ex.submit(one, n, t) for n, t in files.items()}
        for n, f in futs.items():
            res[n] = f.result()
    return res


def forbidden_in_own_files(ck):
    """tools/forbidden.py scans the whole shared development; a check must only answer for the files its theorems
    depend on (C07*/C17* in Lib-free Model/Proofs/Props/Examples/Gen), so that another property's work in progress
    cannot raise an alarm here."""
    import re
    ok, out = ck.forbidden_vernac()
    if ok:
        return True, ""
    mine = [l for l in out.splitlines() if re.search(r"/(C07|C17)[^/]*\.v:", l)]
    return (not mine), "\n".join(mine)
