#!/usr/bin/env python3
"""C02 — built IR is well-formed, strictly dominated, consistently typed SSA (DESIGN §6 C02).

The builder, lifter and block optimiser of go/ir are not modelled.  Model/C02.v holds an independent
validator wf_ssa (no code shared with go/ir/sanity.go); Proofs/C02.v proves that acceptance implies, for
every instruction-level path of any length from the function entry (control may also transfer to the Recover
block once a Defer/Call has run) to a use, that the definition was executed earlier; that preds/succs and
operands/referrers are mutual inverses as multisets; phi shape; terminator arity; and the typing judgement
instr_typed for the instruction kinds with a typing rule.  On every run every function of generated, repository
and testdata packages is built under builder-mode combinations, serialised and wf_ssa is evaluated
(vm_compute inside coqc) on what the implementation produced."""
import json, os, re, sys
sys.path.insert(0, os.path.dirname(os.path.abspath(__file__)))
from common import *

ck = Check("C02", level="translation_validation")
broken = []

if ck.replay_in:
    print(open(ck.replay_in).read())
    sys.exit(0)

ok, out = ck.forbidden_vernac()
if not ok:
    broken.append(("forbidden-vernacular", out))

ok, out = ck.coq_make(["Lib/Graphs.vo", "Model/C02.vo", "Proofs/C02.vo", "Examples/C02.vo"])
if not ok:
    ok2, out2 = ck.coq_make(["Lib/Graphs.vo", "Model/C02.vo"])
    broken.append(("coq-make", out[-3000:]))
    if not ok2:
        ck.violation("coq-model-broken", "Coq model of C02 does not compile", {"log": out2[-3000:]}, no_input=True)
        ck.finish({"evaluations": 1, "distinct_nontrivial": 0, "rule": "n/a", "samples": ["model did not compile"]})
ck.log("theorems re-made")
ok, out = ck.coq_props()
ck.log("Props compiled")
if not ok:
    broken.append(("Props/C02.v", out[-3000:]))

exe, out = ck.go_build("./cmd/hc02")
if exe is None:
    ck.violation("harness-build", "harness does not build against the repository", {"log": out[-3000:]}, no_input=True)
    ck.finish({"evaluations": 1, "distinct_nontrivial": 0, "rule": "n/a", "samples": ["harness build failed"]})
ck.log("harness built")
work = ck.mkscratch()
res = os.path.join(work, "out.json")
env = dict(GOENV); env["VERIF_REPO"] = REPO
rc, out = sh([exe, "-work", work, "-out", res, "-seed", str(ck.seed), "-tier", ck.tier], timeout=9000, env=env)
if rc != 0 or not os.path.exists(res):
    where, src = "", None
    try:
        where = open(os.path.join(work, "progress.txt")).read().strip()
        item = where.split()[0]
        if item.startswith("gen/"):
            path = os.path.join(work, "gen", item[4:], item[4:] + ".go")
            src = {path: open(path).read()}
    except OSError:
        pass
    m = re.search(r"^(panic: .*|fatal error: .*)$", out, re.M)
    if where and m:
        ck.violation("crash|" + where, "building IR for %s crashed: %s" % (where, m.group(1)[:300]),
                     {"item_and_mode": where, "log": out[-6000:], "source": src or {"dir": where}, "seed": ck.seed})
        # fallback: build serially and recover per (item, mode), so that what the builder does produce is still validated
        rc, out2 = sh([exe, "-work", work, "-out", res, "-seed", str(ck.seed), "-tier", ck.tier, "-serial"], timeout=9000, env=env)
    else:
        ck.violation("harness-run", "harness run failed: " + out[-800:], {"log": out[-6000:], "seed": ck.seed}, no_input=True)
    if rc != 0 or not os.path.exists(res):
        ck.finish({"evaluations": 1, "distinct_nontrivial": 0, "rule": "n/a", "samples": ["harness run failed"]})
data = json.load(open(res))
cases, groups = data["Cases"], data["Groups"]
for cr in (data.get("Crashes") or [])[:6]:
    item = cr.split()[0]
    ck.violation("crash|" + " ".join(cr.split(":")[0].split()[:2]), "building IR crashed: " + cr[:400],
                 {"crash": cr, "source": data["Sources"].get(item) or {"dir": item}, "seed": ck.seed})
ck.log("harness: %d (function, mode) pairs, %d distinct bodies in %d groups, %d instructions, %d skipped over %d instructions"
       % (data["Functions"], len(cases), len(groups), sum(g["Instrs"] for g in groups), data["Skipped"], data["MaxInstrs"]))

HEADER = """From Coq Require Import List NArith. Import ListNotations.
Require Import Verif.Lib.Graphs Verif.Model.C02.
Open Scope N_scope.
"""
# shards: groups packed by size (bytes of Gallina), one coqc per shard
gtext = {g["ID"]: open(os.path.join(work, "cases", g["File"])).read() for g in groups}
order = sorted(groups, key=lambda g: -len(gtext[g["ID"]]))
nshard = 16 if ck.thorough() else 8
shards = [[] for _ in range(nshard)]
load = [0] * nshard
for g in order:
    i = load.index(min(load))
    shards[i].append(g)
    load[i] += len(gtext[g["ID"]]) + 20000
files = {}
shard_groups = {}
evaluated_groups = set()
for i, gs in enumerate(shards):
    if not gs:
        continue
    t = HEADER
    for g in gs:
        n = g["ID"]
        t += gtext[n]
        t += "Definition V%d := Eval vm_compute in violations T%d F%d.\nPrint V%d.\n" % ((n,) * 4)
    files["s%02d" % i] = t
    shard_groups["s%02d" % i] = len(gs)
results = ck.coq_cases_parallel(files, timeout=6000)
# a shard that did not finish (e.g. killed under memory pressure) is retried once, alone
for name in [n for n, (rc, out) in results.items() if rc != 0]:
    ck.log("retrying shard " + name)
    results[name] = ck.coq_cases(name, files[name], timeout=9000)
ck.log("coq evaluation done")

CLAUSE_TEXT = {
    "CNumbering": "instruction numbering: Instruction.ID() not unique",
    "CBlockIndex": "BasicBlock.Index differs from the position in Function.Blocks",
    "CBadInstr": "nil instruction slot or Instruction.Block() does not point to the containing block",
    "CTerminator": "block empty / last instruction not a terminator / terminator inside the block / successor count does not match the terminator",
    "CPhiShape": "phi after a non-phi or number of phi edges differs from the number of predecessors",
    "CPredSucc": "Preds and Succs are not mutual inverses (as multisets)",
    "CGraph": "CFG malformed: edge out of range, block reachable from neither entry nor Recover, or Recover region joins normal control flow",
    "CScope": "operand is not a value of this function (foreign instruction/parameter, or a non-value instruction)",
    "CReferrers": "Operands and Referrers are not mutual inverses for the value defined by this instruction",
    "CLocalReferrers": "Operands and Referrers are not mutual inverses for a parameter / free variable / anonymous function",
    "CDominance": "a definition does not dominate this use",
    "CType": "typing rule of the instruction violated",
}


def describe(c):
    return {"corpus": c["Corpus"], "package": c["Pkg"], "function": c["Func"], "mode": c["Mode"],
            "blocks": c["Blocks"], "instructions": c["Instrs"],
            "print_ir": "hc02 -work DIR -out DIR/o.json -seed %d -tier %s -only %s -dumpfunc '%s' -dumpmode %s" % (ck.seed, ck.tier, c["Corpus"], c["Func"], c["Mode"]),
            "rerun": "VERIF_SEED=%d ./check C02 --tier %s" % (ck.seed, ck.tier)}


def dump_ir(c):
    """textual IR of the rejected function, with the sequence numbers the clauses refer to"""
    d = ck.mkscratch()
    rc, out = sh([exe, "-work", d, "-out", os.path.join(d, "o.json"), "-seed", str(ck.seed), "-tier", ck.tier, "-only", c["Corpus"],
                  "-dumpfunc", c["Func"], "-dumpmode", c["Mode"]], timeout=600, env=env)
    return out[-12000:]


rejected = set()
eval_failed = []
nviol = 0
for name, (rc, out) in sorted(results.items()):
    vs = re.findall(r"^V(\d+)\s*=\s*(.*?)\n\s*:\s", out, re.S | re.M)
    if rc != 0 or len(vs) != shard_groups[name] or not vs:
        eval_failed.append((name, out[-2000:]))
        continue
    evaluated_groups.update(int(g) for g, _ in vs)
    for gid, V in vs:
        V = re.sub(r"\s+", " ", V).strip()
        if V == "[]":
            continue
        for m in re.finditer(r"\((\d+),\s*\[([^\]]*)\]\)", V):
            c = cases[int(m.group(1))]
            clauses = [x.strip() for x in m.group(2).split(";")]
            kind = clauses[0].split()[0]
            rejected.add(c["ID"])
            nviol += 1
            if nviol > 12:
                continue
            corpus = c["Corpus"] if c["Corpus"].startswith(("repo", "testdata")) else "gen"
            key = "%s|%s|%s|%s" % (corpus, c["Func"], c["Mode"], kind)
            src = data["Sources"].get(c["Corpus"]) or {"dir": c["Corpus"]}
            ck.violation(key, "go/ir output for %s (%s, mode %s) rejected by wf_ssa: %s [%s]"
                         % (c["Func"], c["Corpus"], c["Mode"], CLAUSE_TEXT.get(kind, kind), ", ".join(clauses)),
                         {"case": describe(c), "failed_clauses": clauses, "clause_meaning": CLAUSE_TEXT.get(kind, kind),
                          "ir": dump_ir(c) if nviol <= 3 else "(see print_ir)", "source": src})
accepted = sum(1 for c in cases if c["Group"] in evaluated_groups and c["ID"] not in rejected)
if eval_failed:
    ck.violation("cases-eval", "cases file did not evaluate: " + eval_failed[0][0], {"log": eval_failed[0][1]}, no_input=True)
if broken and not ck.violations:
    ck.violation("obligation:" + broken[0][0], "proof obligation no longer checks: %s; wf_ssa accepted all %d observed functions"
                 % (broken[0][0], accepted), {"broken": broken}, no_input=True)

nontriv = sum(1 for c in cases if c["Blocks"] >= 3 and (c["Phis"] > 0 or c["Instrs"] >= 20))
typed_kinds = ["Store", "Load", "Phi", "If", "BinOp", "FieldAddr", "Field", "IndexAddr", "Index", "MapLookup", "Extract", "Return", "MakeInterface",
               "ChangeInterface", "MakeClosure", "MakeMap", "MakeChan", "MakeSlice", "Alloc", "Slice", "TypeAssert", "Send", "Recv", "MapUpdate", "Panic",
               "Next", "Range", "StringLookup", "SliceToArrayPointer", "Select", "TypeSwitch", "Call", "Go", "Defer"]
kt = data["KindTotals"]
ck.assume += ["the harness reads blocks, instructions, operands, referrers and types through the exported go/ir and go/types API and writes them unchanged (irser.go); type ids are equal iff types.Identical",
              "control reaches the Recover block only after a Defer or Call instruction of the function has been executed (premise of the def-use theorem for uses in the Recover block)"]
ck.finish({
    "evaluations": data["Functions"],
    "distinct_nontrivial": nontriv,
    "rule": "one evaluation = one (function, builder mode) pair serialised from go/ir and checked by wf_ssa inside coqc; identical (function, body, types) are evaluated once (%d distinct); non-trivial = distinct body with >= 3 blocks and (a phi or >= 20 instructions)" % len(cases),
    "samples": [describe(c) for c in (cases[:1] + [c for c in cases if c["Phis"] > 2][:1] + [c for c in cases if c["Corpus"].startswith("repo")][:1])],
    "programs": len(data["Items"]),
    "disagreements_checked": len(rejected),
    "corpus_items": data["Items"],
    "functions_by_corpus": data["ByCorpus"],
    "generated": data["Gen"],
    "builder_modes": data["Modes"],
    "distinct_bodies": len(cases),
    "accepted_by_wf_ssa": accepted,
    "instructions_checked": sum(g["Instrs"] for g in groups),
    "instructions_with_typing_rule": sum(v for k, v in kt.items() if k in typed_kinds),
    "instructions_by_kind": kt,
    "skipped_over_instruction_limit": data["Skipped"],
    "instruction_limit": data["MaxInstrs"],
})
