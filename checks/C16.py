#!/usr/bin/env python3
"""C16 — problems point at real locations; fixes apply cleanly, keep behaviour (DESIGN §6 C16, partial).

Theorems (Props/C16.v): positions<->offsets, edit application, rewrite catalogue.
Tie / oracle: every diagnostic and suggested fix the REAL analyzers emit (through lintcmd/runner) over the
testdata of every check, semantics-preserving variants, some repository packages and generated trigger-shape
instances is (a) evaluated with the model inside coqc (positions valid, edits in bounds / non-overlapping, model
applier = harness applier), (b) parsed and type-checked after import adjustment (Go toolchain as oracle),
(c) for the simplification / quick-fix categories compiled and run before and after (results, panics, traces)."""
import json, os, re, sys, subprocess, hashlib, time
from concurrent.futures import ThreadPoolExecutor
sys.path.insert(0, os.path.dirname(os.path.abspath(__file__)))
from common import *

ck = Check("C16", level="other")
broken = []

ok, out = ck.forbidden_vernac()
if not ok:
    # the scan covers the whole development; only this property's files count here (other builders' files are
    # reported by their own checks)
    mine = [l for l in out.splitlines() if re.search(r"/C16[^/]*\.v:", l)]
    if mine:
        broken.append(("forbidden-vernacular", "\n".join(mine)))

if ck.replay_in:
    print(open(ck.replay_in).read())
    sys.exit(0)

# ---------------------------------------------------------------- 1. theorems
ok, out = ck.coq_make(["Model/C16_Check.vo", "Proofs/C16.vo", "Proofs/C16_Rewrites.vo", "Examples/C16.vo"])
if not ok:
    broken.append(("coq-make", out[-3000:]))
    ok2, out2 = ck.coq_make(["Model/C16_Check.vo"])
    if not ok2:
        ck.violation("coq-model-broken", "Coq model of C16 does not compile", {"log": out2[-3000:]}, no_input=True)
        ck.finish({"evaluations": 1, "distinct_nontrivial": 0, "rule": "n/a", "samples": ["model did not compile"]})
else:
    ok, out = ck.coq_props()
    if not ok:
        broken.append(("Props/C16.v", out[-3000:]))

# ---------------------------------------------------------------- 2. implementation runs (parallel processes)
if ck.thorough() and not broken:
    okc, outc = ck.coqchk(["Verif.Props.C16"])
    if not okc:
        broken.append(("coqchk Props/C16.vo", outc[-2000:]))
ck.log("theorems re-checked (%d obligations)" % ck.obligations)
exe, out = ck.go_build("./cmd/hc16")
if exe is None:
    ck.violation("harness-build", "harness does not build against the repository", {"log": out[-3000:]}, no_input=True)
    ck.finish({"evaluations": 1, "distinct_nontrivial": 0, "rule": "n/a", "samples": ["harness build failed"]})

ck.log("harness built")
work = ck.mkscratch()
thorough = ck.thorough()
vfrac = "100" if thorough else "25"
jobs = [
    ("origA", ["-mode", "corpus", "-variants", "orig", "-repopkgs", "", "-vers", "go1.0"]),
    ("origB", ["-mode", "corpus", "-variants", "orig", "-repopkgs", "", "-vers", "!go1.0"]),
    ("var1", ["-mode", "corpus", "-variants", "crlf,parens", "-vfrac", vfrac, "-repopkgs", ""]),
    ("var2", ["-mode", "corpus", "-variants", "comments,imports", "-vfrac", vfrac,
              "-repopkgs", "./..." if thorough else "./pattern,./analysis/edit,./analysis/report,./go/ast/astutil"]),
    ("beh", ["-mode", "behave", "-n", "12" if thorough else "3"]),
]

# developer knob (mutation testing only; the registered commands never set it): C16_ONLY=beh,origA runs a subset
if os.environ.get("C16_ONLY"):
    jobs = [j for j in jobs if j[0] in os.environ["C16_ONLY"].split(",")]
    ck.notes.append("C16_ONLY=%s: partial run" % os.environ["C16_ONLY"])

def run_job(j):
    name, args = j
    w = os.path.join(work, name)
    os.makedirs(w, exist_ok=True)
    res = os.path.join(w, "out.json")
    t0 = time.time()
    # one analysis cache for the parallel jobs of THIS run (fresh scratch directory, removed at the end): the
    # standard library is analysed once instead of once per job; nothing survives into the next run
    rc, o = sh([exe, "-work", w, "-out", res, "-seed", str(ck.seed), "-repo", REPO, "-cache", os.path.join(work, "cache")] + args, timeout=6000)
    ck.log("job %s: %.0fs" % (name, time.time() - t0))
    if rc != 0 or not os.path.exists(res):
        return name, None, o
    return name, json.load(open(res)), o

with ThreadPoolExecutor(max_workers=5) as ex:
    results = list(ex.map(run_job, jobs))
for name, data, log in results:
    if data is None:
        ck.violation("harness-run:" + name, "harness run '%s' failed: %s" % (name, log[-600:]), {"log": log[-3000:]}, no_input=True)
if any(d is None for _, d, _ in results):
    ck.finish({"evaluations": 1, "distinct_nontrivial": 0, "rule": "n/a", "samples": ["harness run failed"]})
ck.log("harness runs done")

# merge the outputs (file / diag indices are per job)
files, diags, fixes, behave, stats, notes, roundtrip = [], [], [], [], {}, [], []
for name, data, _ in results:
    fbase, dbase = len(files), len(diags)
    for f in data.get("Files") or []:
        files.append(f)
    for d in data.get("Diags") or []:
        if d["File"] >= 0:
            d["File"] += fbase
        diags.append(d)
    for f in data.get("Fixes") or []:
        if f["File"] >= 0:
            f["File"] += fbase
        f["Diag"] += dbase
        fixes.append(f)
    behave += data.get("Behave") or []
    roundtrip += data.get("RoundTrip") or []
    for k, v in (data.get("Stats") or {}).items():
        stats[k] = stats.get(k, 0) + v
    notes += data.get("Notes") or []

def slug(s, n=6):
    return "-".join(re.findall(r"[A-Za-z0-9]+", s)[:n]).lower()

def short(path):
    return "/".join(path.split("/")[-3:])

def file_text(i):
    return bytes.fromhex(files[i]["Hex"]).decode("utf8", "replace")

def line_of(i, line):
    ls = file_text(i).split("\n")
    return ls[line - 1] if 0 < line <= len(ls) else ""

# ---------------------------------------------------------------- 3. model evaluation inside coqc
def P(p):
    return "(mkP %d %d %d)" % (p["Line"], p["Col"], p["Off"])

def esc(bs):
    out = []
    for c in bs:
        if 32 <= c < 127 and c not in (34, 92):
            out.append(chr(c))
        else:
            out.append("\\%02x" % c)
    return "".join(out)

dcases, fcases = {}, {}          # file index -> list of (global index, text)
n_exempt = n_related_external = 0
for i, d in enumerate(diags):
    if d["Exempt"]:
        n_exempt += 1
        continue
    if d["File"] < 0:
        if d["Kind"] == "related":
            n_related_external += 1     # related information may point into other packages; nothing to validate against
            continue
        ck.violation("pos-outside-package:%s" % d["Check"],
                     "%s: position %s:%d:%d is not in a Go file of the analysed package %s" % (d["Check"], d["PosFile"], d["Pos"]["Line"], d["Pos"]["Col"], d["Pkg"]),
                     {"diag": d})
        continue
    end = "None" if not d["HasEnd"] else "(Some (%s, %s))" % (coq_bool(d["EndSame"]), P(d["End"]))
    dcases.setdefault(d["File"], []).append((i, "mkD 0%%nat %s %s" % (P(d["Pos"]), end)))
for i, f in enumerate(fixes):
    if f["Exempt"]:
        n_exempt += 1
        continue
    if f["File"] < 0 or not f["OneFile"]:
        ck.violation("fix-edits-not-one-file:%s" % f["Check"], "%s: the edits of fix %r do not lie in one file of the analysed package" % (f["Check"], f["FixMsg"]), {"fix": f})
        continue
    es = coq_list(["mkE %s %s \"%s\"" % (P(e["Start"]), P(e["End"]), e["NewHex"]) for e in f["Edits"]])
    fcases.setdefault(f["File"], []).append((i, "mkF 0%%nat true %s %d \"%s\" %d" % (es, f["Prefix"], f["MiddleHex"], f["Suffix"])))

need = sorted(set(dcases) | set(fcases))
NSHARD = 16
shards = [[] for _ in range(NSHARD)]
load = [0] * NSHARD
for fi in sorted(need, key=lambda i: -len(files[i]["Hex"])):
    k = load.index(min(load))
    shards[k].append(fi)
    load[k] += (len(files[fi]["Hex"]) // 2) * (8 + len(dcases.get(fi, [])) + 3 * len(fcases.get(fi, [])))
texts, index = {}, {}
for k, sh_files in enumerate(shards):
    if not sh_files:
        continue
    lines = ["From Coq Require Import List NArith String. Import ListNotations.",
             "Require Import Verif.Model.C16 Verif.Model.C16_Check.",
             "Local Open Scope string_scope. Local Open Scope N_scope."]
    idx = []
    for local, fi in enumerate(sh_files):
        ds, fs = dcases.get(fi, []), fcases.get(fi, [])
        lines.append("Definition R%d := Eval vm_compute in check_file (unesc \"%s\") %s %s." % (
            local, esc(bytes.fromhex(files[fi]["Hex"])), coq_list([t for _, t in ds]), coq_list([t for _, t in fs])))
        lines.append("Print R%d." % local)
        idx.append(([gi for gi, _ in ds], [gi for gi, _ in fs]))
    texts["shard%02d" % k] = "\n".join(lines) + "\n"
    index["shard%02d" % k] = idx

def coqc_big(name, text, timeout=3000):
    path = os.path.join(ck.casedir, name + ".v")
    with open(path, "w") as fh:
        fh.write(text)
    # long literals and deep recursion: raise the stack limit for this coqc
    return sh("ulimit -s unlimited 2>/dev/null || ulimit -s 1000000 2>/dev/null; exec coqc -R '%s' Verif '%s'" % (COQ, path), cwd=ck.casedir, timeout=timeout)

with ThreadPoolExecutor(max_workers=16) as ex:
    futs = {n: ex.submit(coqc_big, n, t) for n, t in texts.items()}
    res = {n: f.result() for n, f in futs.items()}
ck.log("model evaluation done (%d shards, %d files)" % (len(texts), len(need)))

def parse_numbered(val):
    out = []
    for m in re.finditer(r"\((\d+)%?n?a?t?,\s*\[([^\]]*)\]\)", val or ""):
        out.append((int(m.group(1)), [x.strip() for x in m.group(2).split(";")]))
    return out

def split_top(val):
    """split a printed 4-tuple (a, b, c, d) of lists at its top-level commas"""
    val = val.strip()
    if val.startswith("("):
        val = val[1:-1]
    parts, depth, cur = [], 0, ""
    for ch in val:
        if ch in "([":
            depth += 1
        elif ch in ")]":
            depth -= 1
        if ch == "," and depth == 0:
            parts.append(cur); cur = ""
        else:
            cur += ch
    parts.append(cur)
    return parts

model_mismatch = []
for name, (rc, o) in sorted(res.items()):
    ok_all = rc == 0
    per_file = []
    for local in range(len(index[name])):
        v = ck.printed_value(o, "R%d" % local)
        parts = split_top(v) if v is not None else []
        if len(parts) != 4:
            ok_all = False
            break
        per_file.append(parts)
    if not ok_all:
        ck.violation("cases-eval:" + name, "cases file %s did not evaluate" % name, {"log": o[-3000:]}, no_input=True)
        continue
    for local, (DV, DM, FV, FM) in enumerate(per_file):
        dix, fix_ix = index[name][local]
        for li, kinds in parse_numbered(DV):
            d = diags[dix[li]]
            what = {"VStart": "start position does not exist in the file", "VEndFile": "end lies in another file",
                    "VEndPos": "end position does not exist in the file", "VEndBeforeStart": "end precedes start"}.get(kinds[0], kinds[0])
            ck.violation("position:%s:%s" % (d["Check"], kinds[0]),
                         "%s (%s) in %s [%s]: %s: reported %d:%d (offset %d)%s; line is %r" % (
                             d["Check"], d["Kind"], short(files[d["File"]]["Path"]), d["Variant"], what, d["Pos"]["Line"], d["Pos"]["Col"], d["Pos"]["Off"],
                             (" .. %d:%d" % (d["End"]["Line"], d["End"]["Col"])) if d["HasEnd"] else "", line_of(d["File"], d["Pos"]["Line"])[:120]),
                         {"diag": d, "file": files[d["File"]]["Path"], "source": file_text(d["File"])})
        for li, kinds in parse_numbered(FV):
            f = fixes[fix_ix[li]]
            what = {"VEditFile": "edits not in one file", "VEditPos": "an edit position does not exist in the file",
                    "VEditsOverlapOrBounds": "edits overlap or leave the file's bounds"}.get(kinds[0], kinds[0])
            ck.violation("edits:%s:%s" % (f["Check"], kinds[0]),
                         "%s fix %r in %s [%s]: %s: %s" % (f["Check"], f["FixMsg"], short(files[f["File"]]["Path"]), f["Variant"], what,
                                                           [(e["Start"]["Off"], e["End"]["Off"], bytes.fromhex(e["NewHex"]).decode("utf8", "replace")[:40]) for e in f["Edits"]]),
                         {"fix": f, "file": files[f["File"]]["Path"], "source": file_text(f["File"])})
        for li, kinds in parse_numbered(DM):
            model_mismatch.append(("diag", diags[dix[li]], kinds))
        for li, kinds in parse_numbered(FM):
            model_mismatch.append(("fix", fixes[fix_ix[li]], kinds))
# harness applier rejected but the model did not flag it (or the reverse) is a mismatch too
for f in fixes:
    if not f["Exempt"] and f["File"] >= 0 and f["OneFile"] and not f["Applied"] and not any(v["key"] == "edits:%s:VEditsOverlapOrBounds" % f["Check"] or v["key"] == "edits:%s:VEditPos" % f["Check"] for v in ck.violations):
        model_mismatch.append(("fix", f, ["harness applier rejected the edits, the model accepted them"]))

# ---------------------------------------------------------------- 4. toolchain oracles on every applied fix
def errclass(msg):
    table = [("duplicate case", "duplicate-case"), ("operator ! not defined", "not-on-non-bool"), ("cannot take address", "address-of-non-addressable"),
             ("declared and not used", "unused-variable"), ("imported and not used", "unused-import"), ("undefined:", "undefined-name"),
             ("mismatched types", "mismatched-types"), ("cannot use", "not-assignable"), ("missing return", "missing-return")]
    for pat, cls in table:
        if pat in msg:
            return cls
    m = re.sub(r"^\S+:\d+:\d+:\s*", "", msg)
    return slug(m, 4)

n_parse = n_type = n_skip = 0
for f in fixes:
    if f["Exempt"] or f["File"] < 0 or not f["OneFile"] or not f["Applied"]:
        continue
    d = diags[f["Diag"]]
    where = "%s [%s] line %d: %r" % (short(files[f["File"]]["Path"]), f["Variant"], d["Pos"]["Line"], line_of(f["File"], d["Pos"]["Line"]).strip()[:140])
    edits = [bytes.fromhex(e["NewHex"]).decode("utf8", "replace")[:80] for e in f["Edits"]]
    if not f["ParseOK"]:
        ck.violation("unparsable:%s:%s" % (f["Check"], slug(f["FixMsg"])),
                     "%s fix %r yields a file that does not parse: %s; %s; replacement text %r" % (f["Check"], f["FixMsg"], f["ParseErr"][:200], where, edits),
                     {"fix": f, "file": files[f["File"]]["Path"], "before": file_text(f["File"]), "after": f.get("Patched")})
        continue
    n_parse += 1
    if f["TypeSkipped"]:
        n_skip += 1
        continue
    if not f["TypeOK"]:
        ck.violation("illtyped:%s:%s" % (f["Check"], errclass(f["TypeErr"])),
                     "%s fix %r yields a package that does not type-check (after import adjustment): %s; %s; replacement text %r" % (
                         f["Check"], f["FixMsg"], re.sub(r"/tmp/[^ ]*/", "", f["TypeErr"])[:260], where, edits),
                     {"fix": f, "file": files[f["File"]]["Path"], "before": file_text(f["File"]), "after": f.get("Patched")})
        continue
    n_type += 1

# ---------------------------------------------------------------- 5. behaviour before / after (S1xxx, QF1xxx)
def diffkind(before, after):
    def parts(s):
        m = re.match(r"args\((.*?)\) => (.*?) \| (\[.*?\]) \| (\".*\")$", s, re.S)
        return (m.group(2), m.group(3), m.group(4)) if m else (s, "", "")
    rb, tb_, sb = parts(before)
    ra, ta, sa = parts(after)
    pb, pa = rb.startswith("PANIC"), ra.startswith("PANIC")
    if pb and not pa:
        return "panic-before-only"
    if pa and not pb:
        return "panic-after-only"
    if pb and pa and rb != ra:
        return "panic-differs"
    if tb_ != ta:
        return "effects-differ"
    if rb != ra:
        try:
            x, y = float(rb), float(ra)
            if x == x and y == y and abs(x - y) <= 1e-9 * max(abs(x), abs(y)):
                return "float-rounding-differs"
        except ValueError:
            pass
        return "result-differs"
    return "output-differs"

n_beh_equal = 0
for b in behave:
    if b["Status"] == "equal":
        n_beh_equal += 1
    elif b["Status"] == "differs":
        ck.violation("behave:%s:%s" % (b["Check"], diffkind(b["Before"], b["After"])),
                     "%s fix %r changes behaviour (%s):\n%s--- after the fix ---\n%s\nbefore: %s\nafter:  %s" % (
                         b["Check"], b["FixMsg"], diffkind(b["Before"], b["After"]), b["Source"], b["Patched"], b["Before"], b["After"]),
                     {"behave": b})
    else:
        ck.violation("behave-build:%s" % b["Check"], "%s fix %r: patched program does not build: %s" % (b["Check"], b["FixMsg"], b["After"][:300]), {"behave": b})
if stats.get("behave_generator_broken"):
    ck.violation("behave-generator", "generated behaviour module does not build: %s" % notes[:2], {"notes": notes}, no_input=True)

# ---------------------------------------------------------------- 5b. helpers the fixes re-render operands with
for r in roundtrip:
    ck.violation("helper-roundtrip:CopyExpr:%s:%s" % (r["Kind"].replace("*ast.", ""), r["What"]),
                 "astutil.CopyExpr does not reproduce %s %r (%s:%d): the copy renders as %r (%s); every fix that renders a copied operand (QF1001 '& simplify', QF1005) emits this text" % (
                     r["Kind"], r["Expr"][:160], short(r["File"]), r["Line"], r["Copy"][:160], r["What"]),
                 {"roundtrip": r})

# ---------------------------------------------------------------- 6. broken obligations / model mismatch without violation
if model_mismatch and not ck.violations:
    kind, rec, kinds = model_mismatch[0]
    ck.violation("model-mismatch", "model and implementation disagree (%s %s) although the property predicate holds on everything explored: %s" % (kind, kinds, json.dumps(rec)[:400]),
                 {"mismatches": [(k, r, ks) for k, r, ks in model_mismatch[:20]]}, no_input=True)
if broken and not [v for v in ck.violations if not v["no_input"]]:
    ck.violation("obligation:" + broken[0][0], "proof obligation no longer checks: %s; the property predicates were evaluated on every observed diagnostic and fix of this run and hold" % broken[0][0],
                 {"broken": broken}, no_input=True)

# the tie must not shrink silently (packages that stop loading, a generator that stops triggering checks)
if not os.environ.get("C16_ONLY"):
    floor = {"diagnostics": (n_dcases if 'n_dcases' in dir() else sum(len(v) for v in dcases.values()), 1500),
             "fixes": (sum(len(v) for v in fcases.values()), 500), "behaviour comparisons": (len(behave), 60),
             "checks offering fixes": (len({f["Check"] for f in fixes}), 40)}
    for what, (got, want) in floor.items():
        if got < want:
            ck.violation("corpus-shrank:" + slug(what), "only %d %s were observed (at least %d expected): the tie no longer covers the corpus (%s)" % (got, what, want, notes[:3]),
                         {"stats": stats, "notes": notes}, no_input=True)
checks_with_fix = sorted({f["Check"] for f in fixes})
nontriv = len({(f["Check"], f["Variant"], f["File"], f["Prefix"], f["MiddleHex"], f["Suffix"]) for f in fixes if f["Applied"] and (f["MiddleHex"] or f["Prefix"] + f["Suffix"] < len(files[f["File"]]["Hex"]) // 2)})
n_dcases = sum(len(v) for v in dcases.values())
n_fcases = sum(len(v) for v in fcases.values())
ck.assume += ["Go toolchain as oracle: go/parser decides 'parses', go/types (imports adjusted: unused dropped, known packages added) decides 'type-checks', the compiled program decides behaviour",
              "positions remapped by //line directives are exempt (files containing such directives are not position-checked)",
              "behavioural clause: generated instances of the trigger shapes of S1xxx/QF1xxx checks (QF1009, QF1010 change behaviour by intent and are exempt) on a fixed grid of 8 argument tuples incl. NaN, +Inf, -Inf and a panicking operand; operands include defined numeric types (Celsius float64, F32 float32, ID int, an alias) and variadic spread calls"]
ck.trusted.append("harness /verif/harness/cmd/hc16 (corpus assembly, variants, import adjuster, instance generator); its own edit applier is compared with the model applier inside coqc")
samples = []
for f in fixes[:: max(1, len(fixes) // 3)][:3]:
    samples.append({"check": f["Check"], "variant": f["Variant"], "file": short(files[f["File"]]["Path"]) if f["File"] >= 0 else None,
                    "edits": [(e["Start"]["Off"], e["End"]["Off"], bytes.fromhex(e["NewHex"]).decode("utf8", "replace")[:60]) for e in f["Edits"]],
                    "parse": f["ParseOK"], "typecheck": f["TypeOK"]})
ck.finish({
    "evaluations": n_dcases + n_fcases + n_parse + n_type + stats.get("behave_executions", 0) + stats.get("roundtrip_exprs", 0),
    "distinct_nontrivial": nontriv,
    "rule": "evaluations = positions validated in Coq + fixes applied by the model in Coq + parse verdicts + type-check verdicts + program executions of the behavioural oracle + CopyExpr round trips (Render(CopyExpr(e)) = Render(e) and astutil.Equal) over every expression of the corpus files; "
            "non-trivial = distinct (check, variant, file, effective change) of fixes whose application changes the file",
    "samples": samples,
    "diagnostics_position_checked": n_dcases, "fixes_model_applied": n_fcases, "fixes_parsed": n_parse, "fixes_typechecked": n_type,
    "typecheck_skipped": n_skip, "exempt_line_directive": n_exempt, "related_positions_in_other_packages": n_related_external, "checks_offering_fixes_seen": checks_with_fix,
    "copyexpr_roundtrips": stats.get("roundtrip_exprs", 0), "behaviour_fix_runs_equal": n_beh_equal, "behaviour_fix_runs": len(behave), "files": len(files),
    "harness_stats": stats, "notes": notes[:10],
})
