#!/usr/bin/env python3
"""C18 — IR program build is idempotent and safe under parallel building (DESIGN §6 C18; partial:
race freedom of the Go code is explored with the race detector, not proved)."""
import json, os, re, sys
sys.path.insert(0, os.path.dirname(os.path.abspath(__file__)))
from common import *

ck = Check("C18", level="proof")
broken = []          # proof obligations / ties that no longer check
NOCOV = {"evaluations": 1, "distinct_nontrivial": 0, "rule": "n/a", "samples": ["did not run"]}

if ck.replay_in:
    print(open(ck.replay_in).read())
    sys.exit(0)

ok, out = ck.forbidden_vernac()
if not ok:
    broken.append(("forbidden-vernacular", out))

# ---------------------------------------------------------------- 1. translator + theorems
ck.log("forbidden done")
ok, out = ck.genmodel()
ck.log("genmodel done")
gen_failed = not ok
if not ok:
    broken.append(("genmodel: lock/op traces, once-guard or iterate shape of go/ir no longer recognised", out[-3000:]))
ok, out = ck.coq_make(["Gen/C18_LockTraces.vo", "Model/C18_Check.vo", "Proofs/C18_Task.vo", "Proofs/C18_Sync.vo", "Proofs/C18_Check.vo", "Examples/C18.vo"])
if not ok:
    ok2, out2 = ck.coq_make(["Gen/C18_LockTraces.vo", "Model/C18_Check.vo"])
    broken.append(("coq-make", out[-3000:]))
    if not ok2:
        ck.violation("coq-model-broken", "Coq model of C18 does not compile", {"log": out2[-3000:]}, no_input=True)
        ck.finish(NOCOV)
ck.log("coq make done")
ok, out = ck.coq_props()
ck.log("props done")
props_out = out
if not ok:
    # which finite obligation failed?  evaluate them one by one (the model still compiles)
    text = """From Coq Require Import List String. Import ListNotations.
Require Import Verif.Model.C18_Types Verif.Gen.C18_LockTraces Verif.Model.C18 Verif.Model.C18_Sync Verif.Model.C18_Check.
Definition U := Eval vm_compute in undisciplined gen_guards gen_traces.
Definition S1 := Eval vm_compute in single_section gen_traces.
Definition T1 := Eval vm_compute in tables_covered gen_guards gen_traces.
Definition O1 := Eval vm_compute in once_guard_ok gen_build_stmts gen_build_recv gen_once_field_type gen_build_refs.
Definition I1 := Eval vm_compute in iterate_ok gen_iterate_stmts gen_buildfunction_calls.
Definition K1 := Eval vm_compute in task_source_diff gen_task_source.
Definition B1 := Eval vm_compute in gen_build_stmts.
Definition J1 := Eval vm_compute in gen_iterate_stmts.
Print U. Print S1. Print T1. Print O1. Print I1. Print B1. Print J1. Print K1.
"""
    rc, o2 = ck.coq_cases("obligations", text)
    why = []
    U = ck.printed_value(o2, "U")
    if U not in (None, "[]"):
        why.append("lock_discipline fails in: " + U)
    for nm, label in (("S1", "single_section"), ("T1", "tables_covered"), ("O1", "once_guard_shape"), ("I1", "iterate_shape")):
        if ck.printed_value(o2, nm) == "false":
            why.append(label + " = false")
    K1 = ck.printed_value(o2, "K1")
    if K1 not in (None, "[]"):
        why.append("task_shape fails: go/ir/task.go no longer reads as the text the model transcribes, in " + K1)
    if ck.printed_value(o2, "O1") == "false":
        why.append("Package.Build body is now " + str(ck.printed_value(o2, "B1")))
    if ck.printed_value(o2, "I1") == "false":
        why.append("builder.iterate is now " + str(ck.printed_value(o2, "J1")))
    broken.append(("Props/C18.v: " + ("; ".join(why) if why else "a theorem no longer checks"), out[-2500:]))

# ---------------------------------------------------------------- 2. implementation: builds under many schedules
exe, out = ck.go_build("./cmd/hc18")
if exe is None:
    ck.violation("harness-build", "harness does not build against /repo", {"log": out[-3000:]}, no_input=True)
    ck.finish(NOCOV)
work = ck.mkscratch()
res = os.path.join(work, "out.json")
# packages of the repository with generic code used across packages (dfa solvers over graph, iterutil, typeutil);
# built from syntax, their dependencies from export data
REPO_PKGS = "./analysis/dfa/...,./internal/xtools-internal/graph/...,./internal/iterutil,./go/types/typeutil"
if ck.thorough():
    params = ["-progs", "6", "-reps", "2", "-modes", "4",
              "-scenarios", "serial:4,parallel:1,parallel:2,parallel:4,parallel:16,concurrent:16,concurrent:2,concurrent:4",
              "-repopkgs", REPO_PKGS, "-timeout", "1800s"]
    race_runs = [("concurrent:16", "3", "2"), ("parallel:4", "3", "2"), ("concurrent:2", "2", "2"), ("parallel:16", "2", "1")]
else:
    params = ["-progs", "2", "-reps", "1", "-modes", "2",
              "-scenarios", "serial:4,parallel:1,parallel:2,parallel:4,parallel:16,concurrent:16",
              "-repopkgs", REPO_PKGS, "-reposcen", "serial:4,concurrent:16", "-timeout", "600s"]
    race_runs = [("concurrent:16", "1", "1"), ("parallel:16", "1", "1")]
def run_harness(params, res):
    args = [exe, "-work", work, "-out", res, "-seed", str(ck.seed), "-repo", REPO] + params
    ck.log("running", " ".join(args[1:]))
    rc, out = sh(args, timeout=7200)
    if rc != 0 or not os.path.exists(res):
        ck.violation("harness-run", "harness run failed: " + out[-800:], {"log": out[-4000:], "cmd": " ".join(args)}, no_input=True)
        ck.finish(NOCOV)
    d = json.load(open(res))
    ck.log("builds", d["Builds"], "dump comparisons", d["Functions"], "diffs", len(d.get("Diffs") or []),
           "problems", len(d.get("Problems") or []), "crashes", len(d.get("Crashes") or []))
    return d

data = run_harness(params, res)
if ck.thorough():
    # the whole dependency closure (standard library included) of two repository packages built from syntax
    heavy = run_harness(["-progs", "0", "-reps", "1", "-modes", "1", "-scenarios", "serial:4,parallel:4,concurrent:16",
                         "-repopkgs", "./go/ir/irutil,./knowledge", "-repodeps", "-timeout", "1800s"], os.path.join(work, "heavy.json"))
    for k in ("Diffs", "Problems", "Crashes", "RTDiffs"):
        data[k] = (data.get(k) or []) + (heavy.get(k) or [])
    for k in ("Builds", "Functions", "Shared", "Wanted2", "Configs"):
        data[k] += heavy[k]
    data["Scenarios"] = data["Scenarios"] + ["heavy:" + x for x in heavy["Scenarios"]]
    for c in heavy.get("Cases") or []:
        c["Events"] = (c.get("Events") or [])[:c.get("MVStart") or 0]     # build phase only (the rest is large)
        c["MVStart"] = len(c["Events"])
        data["Cases"].append(c)
cases = data.get("Cases") or []

def rerun(label):
    prog, mode, variant, scen = (label.split("#")[0].split("/") + ["", "", "", ""])[:4]
    return "VERIF_SEED=%d ./check C18  (build %s; directly: bin/hc18 -child %s -seed %d %s -out /tmp/x.json with GOMAXPROCS=%s)" % (
        ck.seed, label, scen, ck.seed, " ".join(params[:6]), scen.split(":")[-1])

# 2a. a child process died or hung: a panic inside a builder goroutine, a deadlock
for c in data.get("Crashes") or []:
    log = c["Log"]
    m = re.search(r"^(panic: .*|fatal error: .*|.*no result after.*)$", log, re.M)
    what = m.group(1) if m else log.strip().split("\n")[0]
    ck.violation("crash:" + re.sub(r"0x[0-9a-f]+", "_", what)[:120],
                 "building the IR under scenario %s crashed or hung: %s" % (c["Scenario"], what[:300]),
                 {"scenario": c["Scenario"], "log": log[-5000:], "seed": ck.seed, "params": params})

# 2b. properties observed directly in the harness
seen_kinds = {}
for pr in data.get("Problems") or []:
    p = pr["Problem"]
    k = p["Kind"] + ":" + (p.get("Func") or "")
    if seen_kinds.get(p["Kind"], 0) >= 5:
        continue
    seen_kinds[p["Kind"]] = seen_kinds.get(p["Kind"], 0) + 1
    ck.violation(k, "%s [%s]" % (p["Detail"][:600], pr["Label"]), {"label": pr["Label"], "problem": p, "rerun": rerun(pr["Label"])})

# 2c. dumps differ between two builds of the same configuration
ALIAS_KEY = "instance-spelled-after-first-requesters-alias"
PARAMS_KEY = "instance-signature-is-first-identical-signature"
known_seen = set()
ndiff = 0
for d in data.get("Diffs") or []:
    why = d.get("Why") or "other"
    if why != "other":
        if "alias" in why and ALIAS_KEY not in known_seen:
            known_seen.add(ALIAS_KEY)
            ck.violation(ALIAS_KEY,
                         "two builds of the same program differ only in how alias-typed type arguments are spelled in the name and types of a generic instance (e.g. %s): %s vs %s" % (d["Func"], d["A"], d["B"]),
                         {"diff": d, "rerun": rerun(d["B"])})
        if "params" in why and PARAMS_KEY not in known_seen:
            known_seen.add(PARAMS_KEY)
            ck.violation(PARAMS_KEY,
                         "two builds of the same program differ only in the parameter names of the Signature of generic instances (two instances with identical signature types share the first one's *types.Signature): %s vs %s" % (d["A"], d["B"]),
                         {"diff": d, "rerun": rerun(d["B"])})
        continue
    ndiff += 1
    if ndiff > 5:
        continue
    ta, tb = "\n".join(d.get("TextA") or ["<absent>"]), "\n".join(d.get("TextB") or ["<absent>"])
    ck.violation("dump-differs:%s:%s" % (d["Prog"], d["Func"]),
                 "IR of %s differs between build %s and build %s of the same program (mode %s, packages %s)" % (d["Func"], d["A"], d["B"], d["Mode"], d["Variant"]),
                 {"function": d["Func"], "a": d["A"], "b": d["B"], "text_a": ta[:6000], "text_b": tb[:6000], "rerun": rerun(d["B"])})
# ---------------------------------------------------------------- 3. event logs replayed in Coq
def lab(e):
    k = e["k"]
    w, x, y, f = e.get("w", 0), e.get("x", 0), e.get("y", 0), e.get("f", 0)
    if k == 0: return "LAddEdge %d %d" % (x, y)
    if k == 1: return "LAddSkip %d %d" % (x, y)
    if k == 2: return "LMarkDone %d" % x
    if k == 3: return "LWaitStart %d %d" % (w, x)
    if k == 4: return "LWaitFast %d %d" % (w, x)
    if k == 5: return "LWaitSkip %d %d" % (w, x)
    if k == 6: return "LWaitObserve %d %d %s" % (w, x, coq_list([str(v) for v in (e.get("ys") or [])]))
    if k == 7: return "LWaitClosed %d %d" % (w, x)
    if k == 8: return "LEnqueue %d %d" % (x, f)
    if k == 9: return "LBuilt %d" % f
    return None

obs, obs_labels = [], []
nevents = 0
MVCAP = 1200 if ck.thorough() else 400     # events of the MethodValue phase kept per build (a prefix of a run is a run)
for c in cases:
    evs = c.get("Events") or []
    mv = c.get("MVStart") or len(evs)
    evs = evs[:mv + MVCAP]
    labels = [l for l in (lab(e) for e in evs) if l is not None]
    pk, pbs = {}, []
    for pth in c.get("PkgBuilds") or []:
        pbs.append(pk.setdefault(pth, len(pk)))
    nevents += len(labels)
    obs.append("mkObs %s %s" % (coq_list(labels), coq_list([str(n) for n in pbs])))
    obs_labels.append(c["Label"])

HEAD = """From Coq Require Import List NArith. Import ListNotations.
Require Import Verif.Model.C18 Verif.Model.C18_Check.
Open Scope N_scope.
"""
shards = {}
SH = 48 if ck.thorough() else 12
per = max(1, (len(obs) + SH - 1) // SH)
for i in range(0, len(obs), per):
    shards["ev%02d" % (i // per)] = HEAD + "Definition cases : list obs := %s.\n" % coq_list(obs[i:i + per]) + \
        "Definition M := Eval vm_compute in mismatches cases.\nDefinition V := Eval vm_compute in violations cases.\n" \
        "Definition N := Eval vm_compute in nontrivial_waits cases.\nPrint M.\nPrint V.\nPrint N.\n"
ck.log("replaying", nevents, "events of", len(obs), "logs in Coq")
results = ck.coq_cases_parallel(shards, timeout=(14400 if ck.thorough() else 3000), jobs=12)
ck.log("replay done")
nontrivial_waits = 0
for name in sorted(shards):
    rc, o = results[name]
    base = int(name[2:]) * per
    unscope = lambda t: None if t is None else re.sub(r"%(nat|N)\b", "", t)
    M, V, N = unscope(ck.printed_value(o, "M")), unscope(ck.printed_value(o, "V")), unscope(ck.printed_value(o, "N"))
    if rc != 0 or M is None or V is None:
        ck.violation("cases-eval", "cases file %s did not evaluate" % name, {"log": o[-3000:]}, no_input=True)
        continue
    try:
        nontrivial_waits += int(N or "0")
    except ValueError:
        pass
    if V != "[]":
        # (case index, [viol...], [dup packages])
        for m in re.finditer(r"\((\d+), \[(.*?)\], \[(.*?)\]\)", V):
            idx = base + int(m.group(1))
            label = obs_labels[idx] if idx < len(obs_labels) else "?"
            viols, dups = m.group(2).strip(), m.group(3).strip()
            if dups:
                ck.violation("package-body-ran-twice", "the once-guarded body of Package.build ran more than once for a package during %s" % label,
                             {"label": label, "packages": dups, "rerun": rerun(label)})
            if viols:
                first = viols.split(";")[0].strip()
                kind = first.split(" ")[0]
                what = {"VUndone": "task.wait returned while a task reachable from it was not done",
                        "VUnbuilt": "task.wait returned while a shared function owned by a reachable builder was not built",
                        "VBuiltTwice": "a function body was built twice",
                        "VEdgeAfterDone": "an edge was added to a task that was already marked done"}.get(kind, kind)
                ck.violation("protocol:" + kind, "%s (%s) during %s" % (what, first, label),
                             {"label": label, "violations": viols[:3000], "rerun": rerun(label)})
    elif M != "[]":
        m = re.search(r"\((\d+), (\d+), (.*?)\)", M)
        idx = base + int(m.group(1)) if m else -1
        label = obs_labels[idx] if 0 <= idx < len(obs_labels) else "?"
        broken.append(("event log of %s is not a run of the task-graph model (first rejected event: %s)" % (label, M[:300]), M[:3000]))

# ---------------------------------------------------------------- 4. race detector
race_log = []
rexe, out = ck.go_build("./cmd/hc18", outname="hc18race", race=True)
ck.log("race build done")
if rexe is None:
    ck.violation("race-build", "harness does not build with -race", {"log": out[-3000:]}, no_input=True)
else:
    for i, (scen, progs, reps) in enumerate(race_runs):
        env = dict(GOENV)
        env["GOMAXPROCS"] = scen.split(":")[1]
        env["GORACE"] = "halt_on_error=0 exitcode=66"
        cargs = [rexe, "-child", scen, "-seed", str(ck.seed + i), "-progs", progs, "-reps", reps, "-modes", ("2" if ck.thorough() else "1"), "-repo", REPO,
                 "-out", os.path.join(work, "race%d.json" % i)]
        rc, o = sh(cargs, timeout=(2400 if ck.thorough() else 900), env=env)   # a hang is a failure (rc 124)
        nrace = o.count("WARNING: DATA RACE")
        race_log.append({"scenario": scen, "rc": rc, "races": nrace})
        ck.log("race run", scen, "rc", rc, "races", nrace)
        if nrace > 0:
            m = re.search(r"WARNING: DATA RACE\n(.*?)\n==================", o, re.S)
            rep = m.group(1) if m else o[-3000:]
            loc = re.findall(r"^\s+(honnef\.co/go/tools/go/ir\.\S+)\(\)\n\s+(\S+:\d+)", rep, re.M)
            key = "race:" + ("|".join(sorted({l[0] for l in loc})[:3]) if loc else "unknown")
            ck.violation(key, "the race detector reports a data race while building (scenario %s): %s" % (scen, "; ".join("%s %s" % l for l in loc[:4])),
                         {"report": rep[:6000], "cmd": " ".join(cargs), "GOMAXPROCS": env["GOMAXPROCS"]})
        elif rc != 0:
            ck.violation("race-run:" + scen, "the race-instrumented harness failed under scenario %s: %s" % (scen, o[-400:]),
                         {"log": o[-4000:], "cmd": " ".join(cargs)})
        else:
            # the race build also checks the properties it can see directly
            try:
                co = json.load(open(os.path.join(work, "race%d.json" % i)))
                for b in co["Builds"]:
                    for p in b.get("Problems") or []:
                        ck.violation(p["Kind"] + ":" + (p.get("Func") or ""), p["Detail"][:600] + " [race build]", {"problem": p})
            except (OSError, ValueError):
                pass

# ---------------------------------------------------------------- 5. verdict
known = load_known_findings().get("C18", {})
if broken and not [v for v in ck.violations if not v["no_input"] and v["key"] not in known]:
    ck.violation("obligation:" + broken[0][0][:100],
                 "proof obligation or tie no longer checks: %s; no build among %d (schedules %s) showed a differing dump, an unbuilt or duplicated shared function, a protocol violation or a race"
                 % (broken[0][0], data["Builds"], ",".join(data["Scenarios"])),
                 {"broken": broken}, no_input=True)

ck.assume += [
    "sync.Mutex provides mutual exclusion and sync.Once.Do runs its argument once, returning to every caller only after it completed (modelled, not verified)",
    "the recorded event log is a linearisation of the real actions (MarkDone logged before close, observations logged after the receive, WaitClosed logged before the flag is stored); the hook is go/ir/verif_c18.go",
    "race freedom: explored with the Go race detector on %d runs, not proved" % len(race_runs),
]
samples = [{"label": c["Label"], "events": len(c.get("Events") or []), "build_phase_events": c.get("MVStart")}
           for c in cases[::max(1, len(cases) // 3)]][:3]
ck.finish({
    "evaluations": data["Functions"] + nevents,
    "distinct_nontrivial": data["Wanted2"] + nontrivial_waits,
    "rule": "evaluations = function dumps compared against the reference build of the same configuration (%d) + recorded protocol events replayed in the Coq model (%d); "
            "non-trivial = shared functions (instances, wrappers, on-demand methods) referenced from more than one package, summed over the %d configurations (%d) "
            "+ wait() executions that had to follow at least one edge to another builder's task (%d)"
            % (data["Functions"], nevents, data["Configs"], data["Wanted2"], nontrivial_waits),
    "samples": samples,
    "builds": data["Builds"], "configurations": data["Configs"], "scenarios": data["Scenarios"],
    "shared_functions": data["Shared"], "event_logs": len(obs), "events": nevents,
    "race_runs": race_log, "dump_digest": data["DumpDigest"],
    "traces_validated_against_impl": len(obs),
})
